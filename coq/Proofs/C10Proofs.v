(* C10: accepted devices are usable.  Part 1 (any carrier, no axioms): the model observables have the contract shapes for
   every length.  Part 2 (reals): the generated parameter guards imply the generated definedness predicates on the box. *)
From Coq Require Import String ZArith List Bool Arith Lia.
From DK Require Import Num Vec.
From DK.Gen Require Import Kernels Validators.
From DK.Model Require Import Leaf Fn Dev Tree PyVal Usable.
From DK.Proofs Require Import VecFacts.
Import ListNotations.

Section Shapes.
  Context {A : Type} `{Num A}.
  Local Open Scope num_scope.

  Lemma mshape_square (m : list (list A)) n : length m = n -> (forall r, In r m -> length r = n) -> mshape m = Mat n n.
  Proof.
    intros HL Hr. unfold mshape. destruct m as [|r m]; [simpl in HL; now subst|].
    assert (E : forallb (fun x => Nat.eqb (length x) (length r)) (r :: m) = true).
    { apply forallb_forall. intros x Hx. rewrite (Hr x Hx), (Hr r (or_introl eq_refl)). apply Nat.eqb_refl. }
    rewrite E, HL, (Hr r (or_introl eq_refl)). reflexivity.
  Qed.
  Lemma diag_square (d : list A) : mshape (diag d) = Mat (length d) (length d).
  Proof.
    apply mshape_square; unfold diag; [now rewrite map_length, seq_length|].
    intros r Hr. apply in_map_iff in Hr as (i & <- & _). now rewrite map_length, seq_length.
  Qed.
  Lemma mconst_square n (v : A) : mshape (mconst n n v) = Mat n n.
  Proof.
    apply mshape_square; unfold mconst; [apply repeat_length|]. intros r Hr. apply repeat_spec in Hr. subst. apply repeat_length.
  Qed.
  Lemma seq_square n (f : nat -> nat -> A) : mshape (map (fun j => map (fun k => f j k) (seq 0 n)) (seq 0 n)) = Mat n n.
  Proof.
    apply mshape_square; [now rewrite map_length, seq_length|].
    intros r Hr. apply in_map_iff in Hr as (i & <- & _). now rewrite map_length, seq_length.
  Qed.
  Lemma map_idx_len {B} (f : nat * A -> B) (s : list A) : length (map f (idx s)) = length s.
  Proof. now rewrite map_length, idx_length. Qed.
  Lemma vadd_len (a b : list A) n : length a = n -> length b = n -> length (vadd a b) = n.
  Proof. intros. unfold vadd. rewrite map2_length. lia. Qed.
  Lemma vmul_len (a b : list A) n : length a = n -> length b = n -> length (vmul a b) = n.
  Proof. intros. unfold vmul. rewrite map2_length. lia. Qed.
  Lemma ones_len n : length (ones (A:=A) n) = n.
  Proof. apply vconst_length. Qed.
  Lemma vscale_len c (a : list A) : length (vscale c a) = length a.
  Proof. apply map_length. Qed.

  (* classes whose shapes do not depend on further well-formedness of user data *)
  Definition plain_kind (k : kind A) (cbs : list (cbound A)) : bool :=
    match k with
    | KA _ _ => false                              (* user functions and constraints: see C01 / C06 for their well-formedness *)
    | KC2 _ _ => match cbs with [_] => true | _ => false end   (* several ranges: they must tile the horizon (RangesFunction) *)
    | _ => true
    end.

  Theorem leaf_deriv_shape n bnd cbs k (s p : list A) :
    plain_kind k cbs = true -> length s = n -> length p = n ->
    vshape (leaf_deriv (Build_leafdev n bnd cbs k) s p) = Vec n.
  Proof.
    intros Hk Hs Hp. unfold vshape. f_equal. unfold leaf_deriv. cbn [ld_kind ld_n ld_bounds ld_cb].
    destruct k as [| |a b|pl ph|a b c|pl ph|g|q|q|f u]; try discriminate.
    - unfold dev_deriv. apply vmul_len; auto using ones_len.
    - unfold dev_deriv. apply vmul_len; auto using ones_len.
    - unfold cdev_deriv. apply vadd_len; auto. now rewrite vscale_len, ones_len.
    - destruct cbs as [|c [|? ?]]; try discriminate. unfold cdev2_deriv, cdev2_dpref. apply vadd_len; auto.
      now rewrite vscale_len, ones_len.
    - unfold idev_deriv. apply vadd_len; auto. now rewrite map_idx_len.
    - unfold idev2_deriv. apply vadd_len; auto. now rewrite map_idx_len.
    - unfold gdev_deriv. now rewrite map_idx_len.
    - unfold sdev_deriv. now rewrite map_idx_len.
    - unfold tdev_deriv. now rewrite map_length, seq_length.
  Qed.

  Theorem leaf_hess_shape n bnd cbs k (s : list A) :
    plain_kind k cbs = true -> length s = n ->
    mshape (leaf_hess (Build_leafdev n bnd cbs k) s) = Mat n n.
  Proof.
    intros Hk Hs. unfold leaf_hess. cbn [ld_kind ld_n ld_bounds ld_cb].
    destruct k as [| |a b|pl ph|a b c|pl ph|g|q|q|f u]; try discriminate; unfold dev_hess; try apply mconst_square.
    - destruct cbs as [|c [|? ?]]; try discriminate. unfold cdev2_hess. rewrite Hs. apply mconst_square.
    - unfold idev_hess. rewrite diag_square, map_idx_len, Hs. reflexivity.
    - unfold idev2_hess. rewrite diag_square, map_idx_len, Hs. reflexivity.
    - unfold gdev_hess. rewrite diag_square, map_idx_len, Hs. reflexivity.
    - unfold sdev_hess. rewrite Hs. apply seq_square.
    - unfold tdev_hess. rewrite diag_square, map_length, seq_length, Hs. reflexivity.
  Qed.

  (* every exported constraint has a scalar value and, when it has a Jacobian, one entry per flow variable *)
  Lemma range_mask_len n st en : length (range_mask (A:=A) n st en) = n.
  Proof. unfold range_mask. now rewrite map_length, seq_length. Qed.
  Lemma sust_row_len (x : A) n i : length (sust_row x n i) = n.
  Proof. unfold sust_row. now rewrite map_length, seq_length. Qed.
  Lemma socjac_len q n (r : list A) i : length r = n -> length (s_socjac q n r i) = n.
  Proof. intros Hr. unfold s_socjac. apply vmul_len; [now rewrite map_length|apply sust_row_len]. Qed.

  Definition jac_ok (n : nat) (x : list A) (c : con A) : Prop :=
    match c_jac c with Some j => length (j x) = n | None => True end.

  Theorem leaf_cons_shape n bnd cbs k (x : list A) :
    (match k with KA _ _ => false | _ => true end) = true -> length x = n ->
    forall c, In c (leaf_cons (Build_leafdev n bnd cbs k)) -> jac_ok n x c.
  Proof.
    intros Hk Hx c Hc. unfold leaf_cons in Hc. cbn [ld_kind ld_n ld_bounds ld_cb] in Hc. apply in_app_iff in Hc as [Hc|Hc].
    - unfold cb_cons in Hc. apply in_flat_map in Hc as (cb & _ & Hc). simpl in Hc.
      destruct Hc as [<-|[<-|[]]]; unfold jac_ok; simpl; [apply range_mask_len|]. unfold vopp. now rewrite map_length, range_mask_len.
    - destruct k as [| |a b|pl ph|a b c0|pl ph|g|q|q|f u]; try discriminate; try (now destruct Hc).
      unfold sdev_cons in Hc. repeat (apply in_app_iff in Hc as [Hc|Hc]).
      + apply in_flat_map in Hc as (i & _ & Hc). simpl in Hc.
        destruct Hc as [<-|[<-|[]]]; unfold jac_ok; simpl; [now apply socjac_len|]. unfold vopp. rewrite map_length. now apply socjac_len.
      + destruct (sp_clip_d q); [|destruct Hc]. apply in_map_iff in Hc as (i & <- & _). exact I.
      + destruct (sp_clip_c q); [|destruct Hc]. apply in_map_iff in Hc as (i & <- & _). exact I.
      + destruct Hc as [<-|[]]. unfold jac_ok; simpl. now apply socjac_len.
  Qed.
End Shapes.

(* ---------------------------------------------------------------------- Part 2: definedness on the box (reals) *)
From Coq Require Import Reals Lra.
From DK Require Import NumR.
From DK.Proofs Require Import RVec KernelR C11Proofs.
Local Open Scope R_scope.

(* the high/low quadratic kernel: every quotient is guarded by the code itself *)
Lemma hl_always_defined x pl ph xl xh :
  hl_cost_defined (A:=R) x pl ph xl xh = true /\ hl_deriv_defined (A:=R) x pl ph xl xh = true /\ hl_hess_defined (A:=R) x pl ph xl xh = true.
Proof.
  unfold hl_cost_defined, hl_deriv_defined, hl_hess_defined. cbv zeta. b2p.
  destruct (Reqb xl xh) eqn:E; [auto|]. apply Reqb_false in E.
  assert (Hd : Reqb (xh - xl) 0 = false) by (apply Reqb_false; lra). rewrite Hd. cbn [negb].
  repeat split; auto.
  assert (H2 : Reqb 2 0 = false) by (apply Reqb_false; lra). rewrite H2. cbn [negb andb].
  destruct (Reqb ((ph - pl) / 2) 0) eqn:Ea; cbn [negb]; [reflexivity|]. apply Reqb_false in Ea.
  assert (H2a : Reqb (2 * ((ph - pl) / 2)) 0 = false) by (apply Reqb_false; lra). rewrite H2a. cbn [negb andb].
  assert (H02 : Rleb 0 2 = true) by (apply Rleb_true; lra). rewrite H02, orb_true_r. reflexivity.
Qed.

(* the power curve: q runs from 1 at the lower bound to a at the upper bound *)
Lemma abc_q_pos x xl xh a : xl < xh -> xl <= x <= xh -> 0 <= a -> (0 < a \/ x < xh) -> 0 < abc_q (A:=R) x xl xh a.
Proof.
  intros Hw Hx Ha Hor. rewrite abc_q_affine by lra.
  set (t := (x - xl) / (xh - xl)).
  assert (Ht0 : 0 <= t) by (unfold t; apply Rmult_le_pos; [lra|left; apply Rinv_0_lt_compat; lra]).
  assert (Ht1 : t <= 1) by (unfold t; apply Rmult_le_reg_r with (xh - xl); [lra|]; unfold Rdiv; rewrite Rmult_assoc, Rinv_l by lra; lra).
  replace (1 + (a - 1) * t) with ((1 - t) + a * t) by ring.
  destruct Hor as [Hpos|Hlt].
  - destruct (Req_EM_T t 1) as [->|Hne]; [lra|]. assert (0 <= a * t) by (apply Rmult_le_pos; lra). lra.
  - assert (t < 1).
    { unfold t. apply Rmult_lt_reg_r with (xh - xl); [lra|]. unfold Rdiv. rewrite Rmult_assoc, Rinv_l by lra. lra. }
    assert (0 <= a * t) by (apply Rmult_le_pos; lra). lra.
Qed.

Lemma abc_cost_defined_pos x a b c xl xh : 0 < b -> abc_cost_defined (A:=R) x a b c xl xh = true.
Proof.
  intros Hb. unfold abc_cost_defined, abc_q_defined, abc_s_defined. b2p. destruct (Reqb xl xh) eqn:E; [reflexivity|]. apply Reqb_false in E.
  assert (Hd : Reqb (xh - xl) 0 = false) by (apply Reqb_false; lra). rewrite Hd. cbn [negb andb].
  assert (Hb0 : Rleb 0 b = true) by (apply Rleb_true; lra). now rewrite Hb0, orb_true_r.
Qed.
(* slope: defined when the exponent is at least 1, or off the single point q = 0 (a = 0 at the upper bound) *)
Lemma abc_deriv_defined_when x a b c xl xh : xl <= x <= xh -> 0 <= a -> (1 <= b \/ 0 < a \/ x < xh) ->
  abc_deriv_defined (A:=R) x a b c xl xh = true.
Proof.
  intros Hx Ha Hor. unfold abc_deriv_defined, abc_q_defined, abc_s_defined. b2p. destruct (Reqb xl xh) eqn:E; [reflexivity|]. apply Reqb_false in E.
  assert (Hd : Reqb (xh - xl) 0 = false) by (apply Reqb_false; lra). rewrite Hd. cbn [negb andb]. rewrite andb_true_r.
  destruct Hor as [Hb|Hq].
  - assert (Hb0 : Rleb 0 (b - 1) = true) by (apply Rleb_true; lra). now rewrite Hb0, orb_true_r.
  - assert (Hq0 : Reqb (abc_q (A:=R) x xl xh a) 0 = false).
    { apply Reqb_false. pose proof (abc_q_pos x xl xh a ltac:(lra) Hx Ha Hq). lra. }
    now rewrite Hq0.
Qed.
(* curvature: exponent 1 (the code returns 0) or at least 2, or off q = 0 *)
Lemma abc_hess_defined_when x a b c xl xh : xl <= x <= xh -> 0 <= a -> (b = 1 \/ 2 <= b \/ 0 < a \/ x < xh) ->
  abc_hess_defined (A:=R) x a b c xl xh = true.
Proof.
  intros Hx Ha Hor. unfold abc_hess_defined, abc_q_defined, abc_s_defined. b2p. destruct (Reqb xl xh) eqn:E; [reflexivity|]. apply Reqb_false in E.
  destruct (Reqb b 1) eqn:Eb; [reflexivity|]. apply Reqb_false in Eb.
  assert (Hd : Reqb (xh - xl) 0 = false) by (apply Reqb_false; lra). rewrite Hd. cbn [negb andb].
  assert (H02 : Rleb 0 2 = true) by (apply Rleb_true; lra). rewrite H02, orb_true_r, andb_true_r.
  destruct Hor as [Hb1|[Hb|Hq]]; [contradiction| |].
  - assert (Hb0 : Rleb 0 (b - 2) = true) by (apply Rleb_true; lra). now rewrite Hb0, orb_true_r.
  - assert (Hq0 : Reqb (abc_q (A:=R) x xl xh a) 0 = false).
    { apply Reqb_false. pose proof (abc_q_pos x xl xh a ltac:(lra) Hx Ha Hq). lra. }
    now rewrite Hq0.
Qed.

(* reading a per-slot parameter that passed its guard *)
Lemma pall_pnth (P : R -> Prop) n p i : shape_ok n p -> pall P p -> (i < n)%nat -> P (pnth p i).
Proof.
  destruct p as [a|l]; simpl; intros Hs Hp Hi; [exact Hp|]. rewrite List.Forall_forall in Hp. apply Hp. apply nth_In. lia.
Qed.

Lemma slots_def_intro (f : nat -> R -> bool) (s : list R) :
  (forall i, (i < length s)%nat -> f i (nth i s 0) = true) -> slots_def f s = true.
Proof.
  intros Hf. unfold slots_def. apply forallb_forall. intros [i x] Hix. unfold idx in Hix.
  pose proof (in_combine_l _ _ _ _ Hix) as Hi. apply in_seq in Hi.
  assert (Hx : x = nth i s 0).
  { clear - Hix. unfold idx in *. remember 0%nat as o. assert (Ho : (o <= i)%nat -> x = nth (i - o) s 0).
    { clear Heqo. revert o Hix. induction s as [|y s IH]; intros o Hix; simpl in Hix; [destruct Hix|].
      destruct Hix as [E|Hix]; [inversion E; subst; intros; replace (i - i)%nat with 0%nat by lia; reflexivity|].
      intros Ho. specialize (IH (S o) Hix). pose proof (in_combine_l _ _ _ _ Hix) as Hi. apply in_seq in Hi.
      rewrite IH by lia. replace (i - o)%nat with (S (i - S o)) by lia. reflexivity. }
    pose proof (in_combine_l _ _ _ _ Hix) as Hi. apply in_seq in Hi. rewrite Ho by lia. f_equal. lia. }
  simpl. rewrite Hx. apply Hf. lia.
Qed.

Definition in_box_R (bnd : list (R * R)) (s : list R) : Prop :=
  forall i, (i < length s)%nat -> lo bnd i <= nth i s 0 <= hi bnd i.

(* IDevice: the value is always defined; slope and curvature outside the stated region *)
Theorem idevice_cost_defined n bnd cb a b c s :
  IDevice_b_accepts n b = true -> length s = n ->
  leaf_def 0 (Build_leafdev n bnd cb (KI a b c)) s = true.
Proof.
  intros Hb Hs. apply idevice_b_range in Hb as [Hsb Hpb]. unfold leaf_def. cbn [ld_kind ld_bounds].
  apply slots_def_intro. intros i Hi. cbn [abc_def]. apply abc_cost_defined_pos. apply (pall_pnth _ n); auto. lia.
Qed.
Theorem idevice_deriv_defined_partial n bnd cb a b c s :
  IDevice_a_accepts n a = true -> IDevice_b_accepts n b = true -> length s = n -> in_box_R bnd s ->
  (forall i, (i < n)%nat -> 1 <= pnth b i \/ 0 < pnth a i \/ nth i s 0 < hi bnd i) ->
  leaf_def 1 (Build_leafdev n bnd cb (KI a b c)) s = true.
Proof.
  intros Ha Hb Hs Hbox Hreg. apply idevice_a_range in Ha as [Hsa Hpa]. unfold leaf_def. cbn [ld_kind ld_bounds].
  apply slots_def_intro. intros i Hi. cbn [abc_def]. apply abc_deriv_defined_when; auto.
  - apply (pall_pnth (fun x => 0 <= x) n); auto. lia.
  - apply Hreg. lia.
Qed.
Theorem idevice_hess_defined_partial n bnd cb a b c s :
  IDevice_a_accepts n a = true -> IDevice_b_accepts n b = true -> length s = n -> in_box_R bnd s ->
  (forall i, (i < n)%nat -> pnth b i = 1 \/ 2 <= pnth b i \/ 0 < pnth a i \/ nth i s 0 < hi bnd i) ->
  leaf_def 2 (Build_leafdev n bnd cb (KI a b c)) s = true.
Proof.
  intros Ha Hb Hs Hbox Hreg. apply idevice_a_range in Ha as [Hsa Hpa]. unfold leaf_def. cbn [ld_kind ld_bounds].
  apply slots_def_intro. intros i Hi. cbn [abc_def]. apply abc_hess_defined_when; auto.
  - apply (pall_pnth (fun x => 0 <= x) n); auto. lia.
  - apply Hreg. lia.
Qed.

(* IDevice2 / CDevice2: always *)
Theorem idevice2_defined w n bnd cb pl ph s : leaf_def w (Build_leafdev n bnd cb (KI2 pl ph)) s = true.
Proof.
  unfold leaf_def. cbn [ld_kind ld_bounds]. apply slots_def_intro. intros i Hi.
  destruct (hl_always_defined (nth i s 0) (pnth pl i) (pnth ph i) (lo bnd i) (hi bnd i)) as (H0 & H1 & H2).
  destruct w as [|[|w]]; assumption.
Qed.
Theorem cdevice2_defined w n bnd cb pl ph s : leaf_def w (Build_leafdev n bnd cb (KC2 pl ph)) s = true.
Proof.
  unfold leaf_def. cbn [ld_kind ld_cb]. unfold ranges_def.
  assert (G : forall t c, hl_def w t pl ph (cb_lo c) (cb_hi c) = true).
  { intros t c. destruct (hl_always_defined t pl ph (cb_lo c) (cb_hi c)) as (H0 & H1 & H2). destruct w as [|[|w]]; assumption. }
  destruct cb as [|c [|c' cb]]; [reflexivity|apply G|]. apply forallb_forall. intros x _. apply G.
Qed.

(* SDevice: the efficiency and capacity quotients *)
Theorem sdevice_defined w n bnd cb q s :
  SDevice_efficiency_accepts (sp_eff q) = true -> SDevice_capacity_accepts (sp_capacity q) = true ->
  leaf_def w (Build_leafdev n bnd cb (KS q)) s = true /\ leaf_cons_def (Build_leafdev n bnd cb (KS q)) = true.
Proof.
  intros He Hc. destruct (sdevice_unit_ranges (sp_eff q)) as (_ & _ & _ & Heff & _). apply Heff in He.
  apply sdevice_capacity_range in Hc. unfold leaf_def, leaf_cons_def. cbn [ld_kind].
  assert (E : Reqb (sp_eff q) 0 = false) by (apply Reqb_false; lra).
  assert (C : Reqb (sp_capacity q) 0 = false) by (apply Reqb_false; lra).
  cbn [neqb NumR n0]. rewrite E, C. cbn [negb andb]. split; [reflexivity|]. destruct (sp_clip_d q), (sp_clip_c q); reflexivity.
Qed.

(* TDevice: efficiency <> 0; the curve has exponent 2 *)
Theorem tdevice_defined w n bnd cb q s :
  TDevice_init_accepts n (tp_sus q) (tp_eff q) (tp_range q) (tp_ext q) (tp_c q) = true ->
  leaf_def w (Build_leafdev n bnd cb (KT q)) s = true.
Proof.
  intros Hacc. apply tdevice_init_range in Hacc as (_ & He & _). unfold leaf_def. cbn [ld_kind].
  assert (E : Reqb (tp_eff q) 0 = false) by (now apply Reqb_false). cbn [neqb NumR n0]. rewrite E. cbn [negb andb].
  apply slots_def_intro. intros i Hi.
  assert (H2 : n2 (A:=R) = 2) by reflexivity.
  destruct w as [|[|w]]; cbn [abc_def].
  - apply abc_cost_defined_pos. rewrite H2. lra.
  - unfold abc_deriv_defined, abc_q_defined, abc_s_defined. b2p. destruct (Reqb (tdev_tmin q) (tp_opt q)) eqn:Eq; [reflexivity|]. apply Reqb_false in Eq.
    assert (Hd : Reqb (tp_opt q - tdev_tmin q) 0 = false) by (apply Reqb_false; lra). rewrite Hd. cbn [negb andb]. rewrite andb_true_r.
    assert (Hb0 : Rleb 0 (n2 - 1) = true) by (apply Rleb_true; rewrite H2; lra). now rewrite Hb0, orb_true_r.
  - apply abc_cost_defined_pos. rewrite H2. lra.
Qed.

(* the remaining classes evaluate no quotient and no power *)
Theorem polynomial_classes_defined w n bnd cb s a b g :
  leaf_def (A:=R) w (Build_leafdev n bnd cb KDev) s = true /\ leaf_def w (Build_leafdev n bnd cb KPV) s = true /\
  leaf_def w (Build_leafdev n bnd cb (KC a b)) s = true /\ leaf_def w (Build_leafdev n bnd cb (KG g)) s = true.
Proof. repeat split; reflexivity. Qed.

(* ---------------------------------------------------------------------- witnesses (exact rationals, by computation) *)
From Coq Require Import QArith.
From DK Require Import NumQ.

(* FULL STATEMENT (false): accepted parameters make slope and curvature defined at EVERY in-bounds flow.
   At a = 0 the scaled flow q is 0 on the upper bound, and the code evaluates 0 ** (b-1) resp. 0 ** (b-2). *)
Lemma idevice_deriv_refuted : exists n (a b c : param Q) bnd (s : list Q),
  IDevice_a_accepts n a = true /\ IDevice_b_accepts n b = true /\ IDevice_c_accepts n c = true /\
  in_box 0 bnd s = true /\ leaf_def 0 (Build_leafdev n bnd [] (KI a b c)) s = true /\
  leaf_def 1 (Build_leafdev n bnd [] (KI a b c)) s = false.
Proof. exists 1%nat, (PS 0), (PS (1 # 2)), (PS 1), [(0, 2)], [2]. repeat split; vm_compute; reflexivity. Qed.
Lemma idevice_hess_refuted : exists n (a b c : param Q) bnd (s : list Q),
  IDevice_a_accepts n a = true /\ IDevice_b_accepts n b = true /\ IDevice_c_accepts n c = true /\
  in_box 0 bnd s = true /\ leaf_def 1 (Build_leafdev n bnd [] (KI a b c)) s = true /\
  leaf_def 2 (Build_leafdev n bnd [] (KI a b c)) s = false.
Proof. exists 1%nat, (PS 0), (PS (3 # 2)), (PS 1), [(0, 2)], [2]. repeat split; vm_compute; reflexivity. Qed.
(* non-vacuity: an accepted configuration on its upper bound with everything defined and the contract shapes *)
Lemma example_usable : let d := Build_leafdev 2 [(0, 2); (1, 1)] [] (KI (PS (1 # 4)) (PV [1; 3]) (PS 2)) in
  IDevice_a_accepts 2 (PS (1 # 4)) = true /\ IDevice_b_accepts 2 (PV [1; 3]) = true /\
  leaf_obs d [2; 1] [0; 0] = {| o_cost := Some Sc; o_deriv := Some (Vec 2); o_hess := Some (Mat 2 2); o_cons := [] |}.
Proof. repeat split; vm_compute; reflexivity. Qed.
