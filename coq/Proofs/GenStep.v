(* step() as regenerated in Gen/Solve.v = step_model (used by C19; kept apart from Proofs/GenSolve.v so that a change to step() does not
   touch the solve() proofs of C05).  Any carrier, axiom-free. *)
From Coq Require Import ZArith List Bool Arith Lia.
From DK Require Import Num Vec.
From DK.Model Require Import Leaf Fn Dev Tree Solve SolveOps.
From DK.Gen Require Import Solve.
From DK.Proofs Require Import VecFacts.
Import ListNotations.

Section AnyCarrier.
  Context {A : Type} `{Num A}.
  Local Open Scope num_scope.

  (* step() *)
  Lemma step_point_length (s z : list A) x : length z = length s -> length (step_point s z x) = length s.
  Proof. intros Hz. unfold step_point, vadd, vscale, vsub. rewrite map2_length, map_length, map2_length, Hz. lia. Qed.
  Lemma not_tolerated (o : optresult A) : negb (o_success o) && negb (Z.eqb (o_status o) 8) = negb (tolerated o).
  Proof. unfold tolerated. now rewrite negb_orb. Qed.

  Theorem gen_step (uproject : projcall A -> optresult A) (linesearch : (A -> A) -> optresult A) dv s t :
    step_gen uproject (fun _ => linesearch) dv s t = step_model uproject linesearch dv s t.
  Proof.
    unfold step_gen, step_model. cbv zeta.
    set (o := uproject {| pc_p := vsub s (vscale t (concat (dv_deriv dv s))); pc_x0 := s; pc_bounds := dv_bounds dv; pc_cons := dv_cons dv |}).
    destruct (Nat.eqb (length (o_x o)) (length s)) eqn:El; cbn [negb]; [|reflexivity]. apply Nat.eqb_eq in El.
    rewrite !not_tolerated. destruct (tolerated o); cbn [negb]; [|reflexivity].
    change (fun x => dv_cost dv (vadd s (vscale x (vsub (o_x o) s)))) with (fun x => dv_cost dv (step_point s (o_x o) x)).
    set (ol := linesearch (fun x => dv_cost dv (step_point s (o_x o) x))).
    destruct (tolerated ol); cbn [negb]; [|reflexivity].
    destruct (o_x ol) as [|xl [|y l]]; try reflexivity.
    unfold step_reshape_or_raise. change (vadd s (vscale xl (vsub (o_x o) s))) with (step_point s (o_x o) xl).
    rewrite step_point_length by exact El. reflexivity.
  Qed.
  (* the limited minimisation is asked for x in [0, 1] and nothing else *)
  Theorem gen_step_linesearch_bounds (uproject : projcall A -> optresult A) (ls ls' : A * A -> (A -> A) -> optresult A) dv s t :
    (forall phi, ls (n0, n1) phi = ls' (n0, n1) phi) -> step_gen uproject ls dv s t = step_gen uproject ls' dv s t.
  Proof. intros E. unfold step_gen. cbv zeta. now rewrite E. Qed.
End AnyCarrier.
