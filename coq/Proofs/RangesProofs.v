(* Functions that act on contiguous slot ranges [s_0,e_0), [e_0,e_1), ... covering 0..n (RangesFunction; the multi-range
   CDevice2): gradient (concatenation of the per-range gradients), Hessian (block diagonal) and convexity, for every
   number of ranges and every horizon length. Generic in the per-range function, then instantiated for CDevice2. *)
From Coq Require Import ZArith Reals List Bool Arith Lia Lra.
From Coquelicot Require Import Coquelicot.
From DK Require Import Num NumR Vec.
From DK.Gen Require Import Kernels.
From DK.Model Require Import Leaf Fn Dev DocSpec.
From DK.Proofs Require Import VecFacts RVec KernelR Calc C15Proofs C01Proofs C14Proofs Convex C07Proofs.
Import ListNotations.
Local Open Scope R_scope.

Lemma is_derive_constR (c x : R) : is_derive (fun _ : R => c) x 0.
Proof. auto_derive; [exact I|ring]. Qed.

Lemma is_derive_plus_eq (f g : R -> R) (x l1 l2 l : R) :
  is_derive f x l1 -> is_derive g x l2 -> l = l1 + l2 -> is_derive (fun t => f t + g t) x l.
Proof. intros D1 D2 ->. exact (is_derive_plus f g x l1 l2 D1 D2). Qed.

(* ---- slices and single-coordinate updates ---------------------------------------------------------------------- *)
Lemma skipn_upd_lt {B} : forall (x : list B) s k t, (k < s)%nat -> skipn s (upd x k t) = skipn s x.
Proof.
  induction x as [|a x IH]; intros s k t Hk; [destruct s, k; reflexivity|].
  destruct s as [|s]; [lia|]. destruct k as [|k]; cbn [upd skipn]; [reflexivity|]. apply IH. lia.
Qed.
Lemma skipn_upd_ge {B} : forall (x : list B) s k t, (s <= k)%nat -> skipn s (upd x k t) = upd (skipn s x) (k - s) t.
Proof.
  induction x as [|a x IH]; intros s k t Hk; [destruct s, k; reflexivity|].
  destruct s as [|s]; [now rewrite Nat.sub_0_r|]. destruct k as [|k]; [lia|]. cbn [upd skipn]. rewrite IH by lia. reflexivity.
Qed.
Lemma firstn_upd_lt {B} : forall (x : list B) m k t, (k < m)%nat -> firstn m (upd x k t) = upd (firstn m x) k t.
Proof.
  induction x as [|a x IH]; intros m k t Hk; [destruct m, k; reflexivity|].
  destruct m as [|m]; [lia|]. destruct k as [|k]; cbn [upd firstn]; [reflexivity|]. rewrite IH by lia. reflexivity.
Qed.
Lemma firstn_upd_ge {B} : forall (x : list B) m k t, (m <= k)%nat -> firstn m (upd x k t) = firstn m x.
Proof.
  induction x as [|a x IH]; intros m k t Hk; [destruct m, k; reflexivity|].
  destruct m as [|m]; [reflexivity|]. destruct k as [|k]; [lia|]. cbn [upd firstn]. rewrite IH by lia. reflexivity.
Qed.

Lemma slice_upd_in {B} (x : list B) s e k t : (s <= k < e)%nat -> slice s e (upd x k t) = upd (slice s e x) (k - s) t.
Proof. intros Hk. unfold slice. rewrite skipn_upd_ge by lia. apply firstn_upd_lt. lia. Qed.
Lemma slice_upd_out {B} (x : list B) s e k t : (k < s \/ e <= k)%nat -> slice s e (upd x k t) = slice s e x.
Proof.
  intros Hk. unfold slice. destruct (Nat.lt_ge_cases k s) as [Hlt|Hge].
  - now rewrite skipn_upd_lt.
  - rewrite skipn_upd_ge by lia. apply firstn_upd_ge. lia.
Qed.
Lemma slice_length {B} (x : list B) s e : (s <= e)%nat -> (e <= length x)%nat -> length (slice s e x) = (e - s)%nat.
Proof. intros Hs He. unfold slice. rewrite firstn_length, skipn_length. lia. Qed.
Lemma nth_firstn_lt {B} : forall (x : list B) m i d, (i < m)%nat -> nth i (firstn m x) d = nth i x d.
Proof.
  induction x as [|a x IH]; intros m i d Hi; [destruct m, i; reflexivity|].
  destruct m as [|m]; [lia|]. destruct i as [|i]; cbn [firstn nth]; [reflexivity|]. apply IH. lia.
Qed.
Lemma nth_skipn_add {B} : forall (x : list B) s i d, nth i (skipn s x) d = nth (s + i) x d.
Proof.
  induction x as [|a x IH]; intros s i d; [destruct s, i; reflexivity|].
  destruct s as [|s]; [reflexivity|]. cbn [skipn]. rewrite IH. reflexivity.
Qed.
Lemma nth_slice {B} (x : list B) s e i d : (i < e - s)%nat -> nth i (slice s e x) d = nth (s + i) x d.
Proof.
  intros Hi. unfold slice. rewrite nth_firstn_lt by auto. apply nth_skipn_add.
Qed.
Lemma slice_all {B} (x : list B) : slice 0 (length x) x = x.
Proof. unfold slice. rewrite Nat.sub_0_r. cbn [skipn]. apply firstn_all. Qed.

(* ---- contiguous ranges -------------------------------------------------------------------------------------------- *)
Section Ranged.
  Context {T : Type} (st en : T -> nat).

  (* the ranges start at a, each starts where the previous one ends, the last ends at n *)
  Fixpoint chain (a : nat) (rs : list T) (n : nat) : Prop :=
    match rs with
    | [] => a = n
    | r :: rest => st r = a /\ (a <= en r)%nat /\ chain (en r) rest n
    end.

  Lemma chain_le : forall rs a n, chain a rs n -> (a <= n)%nat.
  Proof. induction rs as [|r rs IH]; intros a n H; simpl in H; [lia|]. destruct H as (_ & H1 & H2). apply IH in H2. lia. Qed.
  Lemma chain_in : forall rs a n r, chain a rs n -> In r rs -> (a <= st r /\ st r <= en r /\ en r <= n)%nat.
  Proof.
    induction rs as [|r0 rs IH]; intros a n r H Hin; [destruct Hin|]. simpl in H. destruct H as (H0 & H1 & H2).
    destruct Hin as [<-|Hin].
    - apply chain_le in H2. lia.
    - destruct (IH _ _ _ H2 Hin). lia.
  Qed.

  Definition in_range (r : T) (j : nat) : bool := (st r <=? j)%nat && (j <? en r)%nat.

  Variables (F : T -> list R -> R) (x : list R).

  Definition ranged_sum (rs : list T) (y : list R) : R := vsum (map (fun r => F r (slice (st r) (en r) y)) rs).

  (* gradient: concatenation of the per-range gradients *)
  Lemma ranged_coord (G : T -> list R) : forall rs a, chain a rs (length x) ->
    (forall r, In r rs -> grad_at (F r) (G r) (slice (st r) (en r) x)) ->
    length (flat_map G rs) = (length x - a)%nat /\
    forall k, (k < length x)%nat ->
      is_derive (fun t => ranged_sum rs (upd x k t)) (nth k x 0) (if (k <? a)%nat then 0 else nth (k - a) (flat_map G rs) 0).
  Proof.
    induction rs as [|r rs IH]; intros a Hc HG.
    - simpl in Hc. subst a. split; [simpl; lia|]. intros k Hk. replace (k <? length x)%nat with true by (symmetry; apply Nat.ltb_lt; lia).
      unfold ranged_sum. simpl. apply is_derive_constR.
    - simpl in Hc. destruct Hc as (Hst & Hle & Hc). pose proof (chain_le _ _ _ Hc) as Hen.
      destruct (IH (en r) Hc (fun r0 H0 => HG r0 (or_intror H0))) as [IHlen IHd].
      destruct (HG r (or_introl eq_refl)) as [GL GD]. rewrite slice_length in GL by lia.
      split; [cbn [flat_map]; rewrite app_length, GL, IHlen; lia|].
      intros k Hk. specialize (IHd k Hk).
      apply (is_derive_ext (fun t => F r (slice (st r) (en r) (upd x k t)) + ranged_sum rs (upd x k t))); [reflexivity|].
      cbn [flat_map].
      destruct (Nat.lt_ge_cases k a) as [Hka|Hka].
      + replace (k <? a)%nat with true by (symmetry; apply Nat.ltb_lt; lia).
        replace (k <? en r)%nat with true in IHd by (symmetry; apply Nat.ltb_lt; lia).
        apply (is_derive_plus_eq _ _ _ 0 0); [|exact IHd|ring].
        apply (is_derive_ext (fun _ => F r (slice (st r) (en r) x))); [intros t; now rewrite slice_upd_out by lia|]. apply is_derive_constR.
      + replace (k <? a)%nat with false by (symmetry; apply Nat.ltb_ge; lia).
        destruct (Nat.lt_ge_cases k (en r)) as [Hke|Hke].
        * replace (k <? en r)%nat with true in IHd by (symmetry; apply Nat.ltb_lt; lia).
          rewrite app_nth1 by lia.
          apply (is_derive_plus_eq _ _ _ (nth (k - a) (G r) 0) 0); [|exact IHd|ring].
          apply (is_derive_ext (fun t => F r (upd (slice (st r) (en r) x) (k - a) t))); [intros t; rewrite slice_upd_in by lia; now rewrite Hst|].
          specialize (GD (k - a)%nat). rewrite slice_length in GD by lia. specialize (GD ltac:(lia)).
          rewrite nth_slice in GD by lia. replace (st r + (k - a))%nat with k in GD by lia. exact GD.
        * replace (k <? en r)%nat with false in IHd by (symmetry; apply Nat.ltb_ge; lia).
          rewrite app_nth2 by lia. rewrite GL. replace (k - a - (en r - st r))%nat with (k - en r)%nat by lia.
          apply (is_derive_plus_eq _ _ _ 0 (nth (k - en r) (flat_map G rs) 0)); [|exact IHd|ring].
          apply (is_derive_ext (fun _ => F r (slice (st r) (en r) x))); [intros t; now rewrite slice_upd_out by lia|]. apply is_derive_constR.
  Qed.

  Lemma ranged_grad (G : T -> list R) rs : chain 0 rs (length x) ->
    (forall r, In r rs -> grad_at (F r) (G r) (slice (st r) (en r) x)) ->
    grad_at (ranged_sum rs) (flat_map G rs) x.
  Proof.
    intros Hc HG. destruct (ranged_coord G rs 0 Hc HG) as [HL HD]. split; [lia|].
    intros k Hk. specialize (HD k Hk). simpl in HD. now rewrite Nat.sub_0_r in HD.
  Qed.

  (* Jacobian of the concatenated per-range vector fields: block diagonal *)
  Variables (Gf : T -> list R -> list R) (Hr : T -> list (list R)).
  Definition ranged_field (rs : list T) (y : list R) : list R := flat_map (fun r => Gf r (slice (st r) (en r) y)) rs.
  Definition block_sum (rs : list T) (j k : nat) : R :=
    vsum (map (fun r => if in_range r j && in_range r k then entry (Hr r) (j - st r) (k - st r) else 0) rs).

  Lemma block_sum_before : forall rs a n j k, chain a rs n -> (j < a)%nat -> block_sum rs j k = 0.
  Proof.
    intros rs a n j k Hc Hj. unfold block_sum. rewrite (vsum_map_ext _ (fun _ => 0)); [apply vsum_map_zero|].
    intros r Hr0. destruct (chain_in _ _ _ _ Hc Hr0) as (H1 & _). unfold in_range.
    replace (st r <=? j)%nat with false by (symmetry; apply Nat.leb_gt; lia). reflexivity.
  Qed.

  Lemma ranged_field_length : forall rs a, chain a rs (length x) ->
    (forall r z, In r rs -> length z = (en r - st r)%nat -> length (Gf r z) = (en r - st r)%nat) ->
    forall y, length y = length x -> length (ranged_field rs y) = (length x - a)%nat.
  Proof.
    induction rs as [|r rs IH]; intros a Hc HL y Hy; simpl in Hc.
    - subst a. simpl. lia.
    - destruct Hc as (Hst & Hle & Hc). pose proof (chain_le _ _ _ Hc) as Hen. unfold ranged_field. cbn [flat_map].
      rewrite app_length. fold (ranged_field rs y). rewrite (IH (en r)) by (auto; intros; apply HL; auto; now right).
      rewrite HL; [lia|now left|]. rewrite slice_length; lia.
  Qed.

  Lemma ranged_jac : forall rs a, chain a rs (length x) ->
    (forall r z, In r rs -> length z = (en r - st r)%nat -> length (Gf r z) = (en r - st r)%nat) ->
    (forall r, In r rs -> hess_at (Gf r) (Hr r) (slice (st r) (en r) x)) ->
    forall j k, (a <= j < length x)%nat -> (k < length x)%nat ->
      is_derive (fun t => nth (j - a) (ranged_field rs (upd x k t)) 0) (nth k x 0) (block_sum rs j k).
  Proof.
    induction rs as [|r rs IH]; intros a Hc HL HH j k Hj Hk; simpl in Hc; [lia|].
    destruct Hc as (Hst & Hle & Hc). subst a. pose proof (chain_le _ _ _ Hc) as Hen.
    assert (Lhead : forall t, length (Gf r (slice (st r) (en r) (upd x k t))) = (en r - st r)%nat).
    { intros t. rewrite HL; [lia|now left|]. rewrite slice_length; rewrite ?upd_length; lia. }
    unfold block_sum. cbn [map]. rewrite vsum_cons. fold (block_sum rs j k).
    destruct (Nat.lt_ge_cases j (en r)) as [Hje|Hje].
    - rewrite (block_sum_before rs (en r) (length x) j k Hc Hje), Rplus_0_r.
      apply (is_derive_ext (fun t => nth (j - st r) (Gf r (slice (st r) (en r) (upd x k t))) 0)).
      { intros t. unfold ranged_field. cbn [flat_map]. rewrite app_nth1 by (rewrite Lhead; lia). reflexivity. }
      unfold in_range at 1. replace (st r <=? j)%nat with true by (symmetry; apply Nat.leb_le; lia).
      replace (j <? en r)%nat with true by (symmetry; apply Nat.ltb_lt; lia). cbn [andb].
      destruct (HH r (or_introl eq_refl)) as (_ & _ & HD). rewrite slice_length in HD by lia.
      destruct (in_range r k) eqn:Ek.
      + unfold in_range in Ek. apply andb_true_iff in Ek. destruct Ek as [E1 E2]. apply Nat.leb_le in E1. apply Nat.ltb_lt in E2.
        apply (is_derive_ext (fun t => nth (j - st r) (Gf r (upd (slice (st r) (en r) x) (k - st r) t)) 0)).
        { intros t. now rewrite slice_upd_in by lia. }
        specialize (HD (j - st r)%nat (k - st r)%nat ltac:(lia) ltac:(lia)).
        rewrite nth_slice in HD by lia. replace (st r + (k - st r))%nat with k in HD by lia. exact HD.
      + apply (is_derive_ext (fun _ => nth (j - st r) (Gf r (slice (st r) (en r) x)) 0)).
        { intros t. rewrite slice_upd_out; [reflexivity|]. unfold in_range in Ek. apply andb_false_iff in Ek.
          destruct Ek as [E|E]; [apply Nat.leb_gt in E; lia|apply Nat.ltb_ge in E; lia]. }
        apply is_derive_constR.
    - unfold in_range at 1. replace (j <? en r)%nat with false by (symmetry; apply Nat.ltb_ge; lia). rewrite andb_false_r. cbn [andb].
      rewrite Rplus_0_l.
      apply (is_derive_ext (fun t => nth (j - en r) (ranged_field rs (upd x k t)) 0)).
      { intros t. unfold ranged_field at 2. cbn [flat_map]. rewrite app_nth2 by (rewrite Lhead; lia). rewrite Lhead.
        replace (j - st r - (en r - st r))%nat with (j - en r)%nat by lia. reflexivity. }
      apply IH; auto; [intros; apply HL; auto; now right|intros; apply HH; now right|lia].
  Qed.
End Ranged.

(* ---- assembling a Hessian statement from its entries ------------------------------------------------------------- *)
Definition matrix_of (E : nat -> nat -> R) (n : nat) : list (list R) := map (fun j => map (fun k => E j k) (seq 0 n)) (seq 0 n).
Lemma hess_at_matrix (V : list R -> list R) (E : nat -> nat -> R) (x : list R) :
  (forall j k, (j < length x)%nat -> (k < length x)%nat -> is_derive (fun t => nth j (V (upd x k t)) 0) (nth k x 0) (E j k)) ->
  hess_at V (matrix_of E (length x)) x.
Proof.
  intros HD. unfold matrix_of. split; [now rewrite map_length, seq_length|].
  split; [intros j Hj; rewrite nth_map_seq by auto; now rewrite map_length, seq_length|].
  intros j k Hj Hk. unfold entry. rewrite nth_map_seq by auto. rewrite nth_map_seq by auto. now apply HD.
Qed.
Lemma hess_at_ext_H V H H' x : H = H' -> hess_at V H x -> hess_at V H' x.
Proof. now intros ->. Qed.
Lemma hess_at_ext_V (V V' : list R -> list R) H x : (forall y, length y = length x -> V y = V' y) -> hess_at V H x -> hess_at V' H x.
Proof.
  intros E (H1 & H2 & H3). split; auto. split; auto. intros j k Hj Hk.
  apply (is_derive_ext (fun t => nth j (V (upd x k t)) 0)); [intros t; now rewrite E by apply upd_length|]. now apply H3.
Qed.

(* ---- a kernel of the range total: InnerSumFunction(HLQuadraticCost) ------------------------------------------------ *)
Lemma grad_inner_hl pl ph xl xh (z : list R) :
  grad_at (fun y => hl_cost (vsum y) pl ph xl xh) (vscale (hl_deriv (vsum z) pl ph xl xh) (ones (length z))) z.
Proof.
  split; [unfold vscale, ones, vconst; now rewrite map_length, repeat_length|]. intros k Hk.
  rewrite nth_vscale. unfold ones, vconst. rewrite repeat_nth by auto. numR. rewrite Rmult_1_r.
  apply (is_derive_ext (fun t => hl_cost (vsum z + (t - nth k z 0)) pl ph xl xh)).
  - intros t. now rewrite vsum_upd.
  - apply (is_derive_shift (fun u => hl_cost u pl ph xl xh)). apply hl_cost_derive.
Qed.
Lemma hess_inner_hl pl ph xl xh (z : list R) :
  hess_at (fun y => vscale (hl_deriv (vsum y) pl ph xl xh) (ones (length y)))
          (mconst (length z) (length z) (hl_hess (vsum z) pl ph xl xh)) z.
Proof.
  split; [apply mconst_length|]. split; [intros; now apply mconst_row_length|].
  intros j k Hj Hk. rewrite mconst_entry by auto.
  apply (is_derive_ext (fun t => hl_deriv (vsum z + (t - nth k z 0)) pl ph xl xh)).
  - intros t. rewrite nth_vscale. unfold ones, vconst. rewrite repeat_nth by (rewrite upd_length; auto). numR.
    rewrite vsum_upd by auto. now rewrite Rmult_1_r.
  - apply (is_derive_shift (fun u => hl_deriv u pl ph xl xh)). apply hl_deriv_derive.
Qed.
Lemma inner_hl_field_length pl ph xl xh (z : list R) : length (vscale (hl_deriv (vsum z) pl ph xl xh) (ones (length z))) = length z.
Proof. unfold vscale, ones, vconst. now rewrite map_length, repeat_length. Qed.

(* ---- CDevice2 with several contiguous cumulative ranges ---------------------------------------------------------------- *)
Definition cb_chain (cbs : list (cbound R)) (n : nat) : Prop := chain (@cb_s R) (@cb_e R) 0 cbs n.

Lemma cdev2_dpref_multi pl ph (cbs : list (cbound R)) (s : list R) : length cbs <> 1%nat ->
  cdev2_dpref pl ph cbs s
  = ranged_field (@cb_s R) (@cb_e R) (fun c z => vscale (hl_deriv (vsum z) pl ph (cb_lo c) (cb_hi c)) (ones (length z))) cbs s.
Proof. intros H1. destruct cbs as [|c [|c2 rest]]; try reflexivity. simpl in H1. lia. Qed.
Lemma cdev2_pref_multi pl ph (cbs : list (cbound R)) (s : list R) : length cbs <> 1%nat ->
  cdev2_pref pl ph cbs s = ranged_sum (@cb_s R) (@cb_e R) (fun c z => hl_cost (vsum z) pl ph (cb_lo c) (cb_hi c)) cbs s.
Proof. intros H1. destruct cbs as [|c [|c2 rest]]; try reflexivity. simpl in H1. lia. Qed.

Lemma grad_cdevice2_multi n b cbs pl ph s p : length s = n -> length p = n -> cb_chain cbs n ->
  grad_at (fun s' => leaf_cost (Build_leafdev n b cbs (KC2 pl ph)) s' p) (leaf_deriv (Build_leafdev n b cbs (KC2 pl ph)) s p) s.
Proof.
  intros Hs Hp Hc. destruct (Nat.eq_dec (length cbs) 1) as [E1|E1].
  - destruct cbs as [|c [|c2 rest]]; try discriminate. now apply grad_cdevice2_single.
  - unfold leaf_cost, leaf_deriv; cbn [ld_kind ld_cb]. unfold cdev2_cost, cdev2_deriv. numR.
    apply grad_at_plus; [|apply grad_dot; lia].
    apply (grad_at_ext (ranged_sum (@cb_s R) (@cb_e R) (fun c z => hl_cost (vsum z) pl ph (cb_lo c) (cb_hi c)) cbs)).
    { intros y _. symmetry. now apply cdev2_pref_multi. }
    rewrite cdev2_dpref_multi by auto. unfold ranged_field.
    apply (ranged_grad (@cb_s R) (@cb_e R) (fun c z => hl_cost (vsum z) pl ph (cb_lo c) (cb_hi c)) s
             (fun c => vscale (hl_deriv (vsum (slice (cb_s c) (cb_e c) s)) pl ph (cb_lo c) (cb_hi c)) (ones (length (slice (cb_s c) (cb_e c) s))))).
    + unfold cb_chain in Hc. now rewrite Hs.
    + intros c _. apply grad_inner_hl.
Qed.

(* the block structure the model Hessian has: f''(range total) inside a range, 0 across ranges *)
Lemma cdev2_hess_multi pl ph (cbs : list (cbound R)) (s : list R) : length cbs <> 1%nat -> cb_chain cbs (length s) ->
  cdev2_hess pl ph cbs s
  = matrix_of (block_sum (@cb_s R) (@cb_e R)
                 (fun c => let z := slice (cb_s c) (cb_e c) s in mconst (length z) (length z) (hl_hess (vsum z) pl ph (cb_lo c) (cb_hi c))) cbs)
              (length s).
Proof.
  intros H1 Hc. assert (E : cdev2_hess pl ph cbs s = map (fun j => map (fun k =>
             vsum (map (fun c => if (cb_s c <=? j)%nat && (j <? cb_e c)%nat && (cb_s c <=? k)%nat && (k <? cb_e c)%nat
                                 then hl_hess (vsum (slice (cb_s c) (cb_e c) s)) pl ph (cb_lo c) (cb_hi c) else 0) cbs))
             (seq 0 (length s))) (seq 0 (length s))).
  { destruct cbs as [|c [|c2 rest]]; try reflexivity. simpl in H1. lia. }
  rewrite E. unfold matrix_of. apply map_ext_in. intros j Hj. apply map_ext_in. intros k Hk.
  apply in_seq in Hj. apply in_seq in Hk. unfold block_sum. apply vsum_map_ext. intros c Hin.
  destruct (chain_in _ _ _ _ _ _ Hc Hin) as (_ & H2 & H3). unfold in_range. rewrite <- andb_assoc.
  destruct ((cb_s c <=? j)%nat && (j <? cb_e c)%nat && ((cb_s c <=? k)%nat && (k <? cb_e c)%nat)) eqn:Eb; [|reflexivity].
  apply andb_true_iff in Eb. destruct Eb as [Ej Ek]. apply andb_true_iff in Ej. apply andb_true_iff in Ek.
  destruct Ej as [Ej1 Ej2]. destruct Ek as [Ek1 Ek2]. apply Nat.leb_le in Ej1. apply Nat.leb_le in Ek1. apply Nat.ltb_lt in Ej2. apply Nat.ltb_lt in Ek2.
  cbv zeta. rewrite slice_length by lia. rewrite mconst_entry by lia. reflexivity.
Qed.

Lemma hess_cdevice2_multi n b cbs pl ph s p : length s = n -> length p = n -> cb_chain cbs n ->
  hess_at (fun s' => leaf_deriv (Build_leafdev n b cbs (KC2 pl ph)) s' p) (leaf_hess (Build_leafdev n b cbs (KC2 pl ph)) s) s.
Proof.
  intros Hs Hp Hc. destruct (Nat.eq_dec (length cbs) 1) as [E1|E1].
  - destruct cbs as [|c [|c2 rest]]; try discriminate. now apply hess_cdevice2_single.
  - unfold leaf_deriv, leaf_hess; cbn [ld_kind ld_cb]. unfold cdev2_deriv. subst n.
    rewrite cdev2_hess_multi by auto. apply hess_at_matrix. intros j k Hj Hk.
    set (Gf := fun (c : cbound R) z => vscale (hl_deriv (vsum z) pl ph (cb_lo c) (cb_hi c)) (ones (length z))).
    assert (HLen : forall (r : cbound R) z, In r cbs -> length z = (cb_e r - cb_s r)%nat -> length (Gf r z) = (cb_e r - cb_s r)%nat).
    { intros r z _ Hz. unfold Gf. now rewrite inner_hl_field_length. }
    apply (is_derive_ext (fun t => nth (j - 0) (ranged_field (@cb_s R) (@cb_e R) Gf cbs (upd s k t)) 0 + nth j p 0)).
    { intros t. rewrite cdev2_dpref_multi by auto. fold Gf. rewrite Nat.sub_0_r.
      rewrite nth_vadd; [reflexivity| |lia].
      rewrite (ranged_field_length (@cb_s R) (@cb_e R) s Gf cbs 0 Hc HLen) by apply upd_length. lia. }
    apply is_derive_cplus_r.
    apply (ranged_jac (@cb_s R) (@cb_e R) s Gf _ cbs 0 Hc HLen); [|lia|lia].
    intros c _. unfold Gf. cbv zeta. apply hess_inner_hl.
Qed.

(* ---- convexity: a sum of convex kernels of range totals ------------------------------------------------------------------ *)
Lemma firstn_vlerp l : forall (x y : list R) m, firstn m (vlerp l x y) = vlerp l (firstn m x) (firstn m y).
Proof.
  induction x as [|a x IH]; intros y m.
  - destruct m; reflexivity.
  - destruct y as [|c y].
    + destruct m; reflexivity.
    + destruct m; [reflexivity|]. rewrite vlerp_cons. cbn [firstn]. rewrite vlerp_cons, IH. reflexivity.
Qed.
Lemma skipn_vlerp l : forall (x y : list R) m, length x = length y -> skipn m (vlerp l x y) = vlerp l (skipn m x) (skipn m y).
Proof.
  induction x as [|a x IH]; intros [|c y] [|m] HL; simpl in HL; try lia; try reflexivity.
  rewrite vlerp_cons. cbn [skipn]. apply IH. lia.
Qed.
Lemma slice_vlerp l (x y : list R) s e : length x = length y -> slice s e (vlerp l x y) = vlerp l (slice s e x) (slice s e y).
Proof. intros HL. unfold slice. rewrite skipn_vlerp by auto. apply firstn_vlerp. Qed.
Lemma slice_same_length {B} (x y : list B) s e : length x = length y -> length (slice s e x) = length (slice s e y).
Proof. intros HL. unfold slice. rewrite !firstn_length, !skipn_length. lia. Qed.

Lemma convex_vsum_map {T} (B : list R -> Prop) (Fc : T -> list R -> R) (cs : list T) :
  (forall c, In c cs -> convex_on B (Fc c)) -> convex_on B (fun y => vsum (map (fun c => Fc c y) cs)).
Proof.
  induction cs as [|c cs IH]; intros Hc.
  - intros x y l _ _ _. simpl. lra.
  - intros x y l Bx By Hl. cbn [map]. rewrite !vsum_cons.
    pose proof (Hc c (or_introl eq_refl) x y l Bx By Hl). pose proof (IH (fun c0 H0 => Hc c0 (or_intror H0)) x y l Bx By Hl). lra.
Qed.

Lemma convex_cdevice2_multi n b cbs pl ph p : pl <= ph -> (forall c, In c cbs -> cb_lo c <= cb_hi c) ->
  convex_on (in_box_R b) (fun s => leaf_cost (Build_leafdev n b cbs (KC2 pl ph)) s p).
Proof.
  intros Hp Hc. destruct (Nat.eq_dec (length cbs) 1) as [E1|E1].
  - destruct cbs as [|c [|c2 rest]]; try discriminate. apply convex_cdevice2_single; auto. apply Hc. now left.
  - unfold leaf_cost; cbn [ld_kind ld_cb]. unfold cdev2_cost. numR.
    apply convex_plus; [|apply convex_price].
    intros x y l Bx By Hl. rewrite !cdev2_pref_multi by auto. unfold ranged_sum.
    apply (convex_vsum_map (in_box_R b) (fun c z => hl_cost (vsum (slice (cb_s c) (cb_e c) z)) pl ph (cb_lo c) (cb_hi c)) cbs); auto.
    intros c Hin x0 y0 l0 Bx0 By0 Hl0. pose proof (box_len _ _ _ Bx0 By0) as HL.
    rewrite slice_vlerp, vsum_vlerp by (auto; now apply slice_same_length).
    set (u := vsum (slice (cb_s c) (cb_e c) x0)). set (v := vsum (slice (cb_s c) (cb_e c) y0)).
    apply (sconvex_hl pl ph (cb_lo c) (cb_hi c) (Rmin u v) (Rmax u v)); auto;
      split; auto using Rmin_l, Rmin_r, Rmax_l, Rmax_r.
Qed.

Lemma example_cb_chain : cb_chain [(1, 2, 0%nat, 2%nat); (3, 5, 2%nat, 4%nat)] 4.
Proof. unfold cb_chain, cb_s, cb_e. simpl. repeat split; lia. Qed.
