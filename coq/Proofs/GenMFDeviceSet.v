(* The multi-flow adaptor as regenerated from device_kit/mfdeviceset.py (Gen/MFDeviceSet.v, translator/mfdeviceset_tx.py) is the
   adaptor of the tree model (Model/Tree.v: mf_cost, mf_deriv, mf_project, conduit_bounds), for ANY wrapped device.  Any carrier. *)
From Coq Require Import ZArith List Bool Arith Lia String.
From DK Require Import Num Vec.
From DK.Model Require Import Leaf Fn Dev Tree SetOps.
From DK.Gen Require Import DeviceSet MFDeviceSet.
Import ListNotations.

Section Adaptor.
  Context {A : Type} `{Num A} {L : Type} (ops : leafops A L).

  (* the wrapped device and its conduits as the adaptor sees them *)
  Definition wdev_of (l : L) : wdev A :=
    {| w_cost := l_cost L ops l; w_deriv := l_deriv L ops l; w_hess := fun x _ => l_hess L ops l x;
       w_project := fun x => clamp (l_bounds L ops l) x |}.
  Definition conduit_kid (l : L) : kid A :=
    let c := conduit ops l in
    {| k_rows := 1; k_len := l_n L ops l; k_cost := fun S P => l_cost L ops c (List.concat S) (List.concat P);
       k_deriv := fun S P => [l_deriv L ops c (List.concat S) (List.concat P)]; k_hess := fun S _ => l_hess L ops c (List.concat S);
       k_bounds := l_bounds L ops c; k_project := fun S => [clamp (l_bounds L ops c) (List.concat S)] |}.
  Definition conduits_of (l : L) (flows : list string) : list (kid A) := map (fun _ => conduit_kid l) flows.

  Lemma conduits_shape l flows : DeviceSet_shape (conduits_of l flows) (l_n L ops l) = (List.length flows, l_n L ops l).
  Proof.
    unfold DeviceSet_shape, DeviceSet_shapes, conduits_of. cbn [fst]. f_equal. rewrite !map_map. cbn [conduit_kid k_rows fst].
    induction flows as [|f fs IH]; [reflexivity|]. cbn [map nsum fold_right List.length Nat.add]. f_equal. exact IH.
  Qed.

  Lemma msumall_mmul (S P : list (list A)) : msumall (mmul S P) = vsum (map2 dot S P).
  Proof.
    unfold msumall, mmul. f_equal. revert P. induction S as [|r S IH]; intros [|q P]; cbn [map2 map]; try reflexivity. f_equal. apply IH.
  Qed.

  Variables (i : string) (l : L) (flows : list string).
  Notation n := (l_n L ops l).
  Notation k := (List.length flows).
  Notation d := (MF i l flows).

  Theorem gen_mf_cost s p : MFDeviceSet_cost (wdev_of l) (conduits_of l flows) n s p = gcost ops d (shaped ops d s) (prices ops d p).
  Proof.
    unfold MFDeviceSet_cost. cbv zeta. rewrite conduits_shape. cbn [fst snd]. rewrite msumall_mmul. reflexivity.
  Qed.
  Theorem gen_mf_deriv s p : MFDeviceSet_deriv (wdev_of l) (conduits_of l flows) n s p = gderiv ops d (shaped ops d s) (prices ops d p).
  Proof. unfold MFDeviceSet_deriv. cbv zeta. rewrite conduits_shape. reflexivity. Qed.
  Theorem gen_mf_hess s p : MFDeviceSet_hess (wdev_of l) (conduits_of l flows) n s p = ghess ops d (shaped ops d s).
  Proof. unfold MFDeviceSet_hess. cbv zeta. rewrite conduits_shape. reflexivity. Qed.
  Theorem gen_mf_project s : MFDeviceSet_project (wdev_of l) (conduits_of l flows) n s = gproject ops d (shaped ops d s).
  Proof. unfold MFDeviceSet_project. cbv zeta. rewrite conduits_shape. reflexivity. Qed.

  (* the constructor: which wrapped devices are rejected, and the bounds every conduit gets *)
  Lemma existsb_map_fst (f : A -> bool) (b : list (A * A)) : existsb f (map fst b) = existsb (fun lh => f (fst lh)) b.
  Proof. induction b as [|x b IH]; cbn; [reflexivity | now rewrite IH]. Qed.
  Theorem gen_mf_conduit_bounds (b : list (A * A)) : MFDeviceSet_conduit_bounds (map fst b) (map snd b) = conduit_bounds b.
  Proof.
    unfold MFDeviceSet_conduit_bounds, conduit_bounds. rewrite existsb_map_fst. rewrite map_length.
    destruct (existsb (fun lh => nltb (fst lh) n0) b).
    - induction b as [|x b IH]; [reflexivity|]. cbn [map List.length zeros vconst repeat combine]. f_equal. exact IH.
    - induction b as [|x b IH]; [reflexivity|]. cbn [map List.length zeros vconst repeat combine]. f_equal. exact IH.
  Qed.
  Theorem gen_mf_rejects (b : list (A * A)) :
    MFDeviceSet_init_rejects k (map fst b) (map snd b) =
    (Nat.eqb k 0 || (existsb (fun lh => nltb (fst lh) n0) b && existsb (fun lh => nltb n0 (snd lh)) b)).
  Proof.
    unfold MFDeviceSet_init_rejects. rewrite existsb_map_fst. f_equal. f_equal.
    induction b as [|x b IH]; cbn; [reflexivity | now rewrite IH].
  Qed.
End Adaptor.
