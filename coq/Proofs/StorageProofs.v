(* SDevice: the analytic Hessian of the model (the code differentiates numerically) is the Jacobian of the reported marginal
   cost INCLUDING the deep-discharge term, away from the kinks: no slot's state of charge sits exactly on the damage level,
   and (when lossy) no slot flow is exactly 0. Every horizon length. *)
From Coq Require Import ZArith Reals List Bool Arith Lia Lra Psatz.
From Coquelicot Require Import Coquelicot.
From DK Require Import Num NumR Vec.
From DK.Gen Require Import Kernels.
From DK.Model Require Import Leaf Fn Dev DocSpec StateSpec.
From DK.Proofs Require Import VecFacts RVec KernelR C09Proofs Calc C15Proofs C01Proofs C14Proofs Convex C07Proofs.
Import ListNotations.
Local Open Scope R_scope.

Lemma is_derive_const0 (c x : R) : is_derive (fun _ : R => c) x 0.
Proof. auto_derive; [exact I|ring]. Qed.

(* min(v - D, 0) away from its kink *)
Lemma min0_derive D u : u <> D -> is_derive (fun v => nmin (A:=R) (v - D) 0) u (if nltb u D then 1 else 0).
Proof.
  intros Hne. destruct (Rlt_dec u D) as [Hlt|Hge].
  - replace (nltb u D) with true by (symmetry; unfold nltb; numR; apply negb_true_iff, Rleb_false; lra).
    apply (is_derive_ext_near (fun v => v - D) _ u _ (D - u) ltac:(lra)).
    + intros t Ht. apply Rabs_def2 in Ht. rewrite nmin_Rmin, Rmin_left by lra. reflexivity.
    + auto_derive; [exact I|ring].
  - replace (nltb u D) with false by (symmetry; unfold nltb; numR; apply negb_false_iff, Rleb_true; lra).
    apply (is_derive_ext_near (fun _ => 0) _ u _ (u - D) ltac:(lra)).
    + intros t Ht. apply Rabs_def2 in Ht. rewrite nmin_Rmin, Rmin_right by lra. reflexivity.
    + apply is_derive_const0.
Qed.

Lemma effof_locally_const e v t : (e = 1 \/ (v <> 0 /\ Rabs (t - v) < Rabs v)) -> effof (A:=R) e t = effof (A:=R) e v.
Proof.
  intros [->|[Hv Ht]]; [now rewrite !effof_one|]. apply Rabs_def2 in Ht.
  destruct (Rlt_dec 0 v) as [Hp|Hn].
  - rewrite Rabs_right in Ht by lra. rewrite !effof_pos by lra. reflexivity.
  - rewrite Rabs_left in Ht by lra. rewrite !effof_neg by lra. reflexivity.
Qed.

(* the deep-discharge part of the j-th marginal cost *)
Definition deepv (q : sparams R) (r : list R) (j : nat) : R :=
  vsum (map (fun '(i, m) => 2 * sp_c3 q * m * nth j (sust_row (sp_sus q) (length r) i) 0 * effof (sp_eff q) (nth j r 0)) (idx (sdev_short q r))).
Definition deeph (q : sparams R) (r : list R) (j k : nat) : R :=
  vsum (map (fun i => if nltb (nth i (sdev_charge q r) 0) (sp_capacity q * sp_depth q)
                      then 2 * sp_c3 q * (nth j (sust_row (sp_sus q) (length r) i) 0 * effof (sp_eff q) (nth j r 0))
                                       * (nth k (sust_row (sp_sus q) (length r) i) 0 * effof (sp_eff q) (nth k r 0))
                      else 0) (seq 0 (length r))).

Definition off_damage_level (q : sparams R) (r : list R) : Prop :=
  forall i, (i < length r)%nat -> nth i (sdev_charge q r) 0 <> sp_capacity q * sp_depth q.

Lemma sdev_short_length q (r : list R) : length (sdev_short q r) = length r.
Proof. unfold sdev_short. now rewrite map_length, sdev_charge_length. Qed.

Lemma deep_coord q (r : list R) j k : (j < length r)%nat -> (k < length r)%nat ->
  (sp_eff q = 1 \/ nth k r 0 <> 0) -> off_damage_level q r ->
  is_derive (fun t => deepv q (upd r k t) j) (nth k r 0) (deeph q r j k).
Proof.
  intros Hj Hk Hs Hoff. set (n := length r). set (D := sp_capacity q * sp_depth q). set (e := sp_eff q).
  set (a := fun i j0 => nth j0 (sust_row (sp_sus q) n i) 0). set (E := fun j0 => effof e (nth j0 r 0)).
  set (ch := fun i => nth i (sdev_charge q r) 0).
  pose (d := if Req_EM_T e 1 then 1 else Rabs (nth k r 0)).
  assert (Hd : 0 < d).
  { unfold d. destruct (Req_EM_T e 1); [lra|]. destruct Hs as [?|Hne]; [contradiction|]. now apply Rabs_pos_lt. }
  apply (is_derive_ext_near
    (fun t => vsum (map (fun i => (2 * sp_c3 q * a i j * E j) * nmin (ch i + a i k * (psi e t - psi e (nth k r 0)) - D) 0) (seq 0 n))) _ _ _ d Hd).
  - intros t Ht. unfold deepv.
    rewrite (vsum_map_idx_seq (fun i m => 2 * sp_c3 q * m * nth j (sust_row (sp_sus q) (length (upd r k t)) i) 0 * effof (sp_eff q) (nth j (upd r k t) 0))).
    rewrite sdev_short_length, upd_length. apply vsum_map_ext. intros i Hi. apply in_seq in Hi.
    rewrite nth_sdev_short by (rewrite upd_length; lia). rewrite nth_sdev_charge_upd by (auto; lia).
    assert (EE : effof (sp_eff q) (nth j (upd r k t) 0) = E j).
    { unfold E. destruct (Nat.eq_dec j k) as [->|Hne]; [|now rewrite nth_upd_neq].
      rewrite nth_upd_eq by auto. apply effof_locally_const. unfold d in Ht. fold e.
      destruct (Req_EM_T e 1); [left; auto|right]. destruct Hs as [?|Hne]; [contradiction|]. split; auto. }
    rewrite EE. unfold a, ch, D, e, n. ring.
  - unfold deeph. fold n D e.
    rewrite (vsum_map_ext _ (fun i => (2 * sp_c3 q * a i j * E j) * ((a i k * E k) * (if nltb (ch i) D then 1 else 0)))).
    2:{ intros i _. unfold a, E, ch. destruct (nltb (nth i (sdev_charge q r) 0) D); ring. }
    apply (is_derive_vsum_map (fun i t => (2 * sp_c3 q * a i j * E j) * nmin (ch i + a i k * (psi e t - psi e (nth k r 0)) - D) 0)
                              (fun i => (2 * sp_c3 q * a i j * E j) * ((a i k * E k) * (if nltb (ch i) D then 1 else 0)))).
    intros i Hi. apply in_seq in Hi. apply is_derive_cmult.
    assert (D1 : is_derive (fun t => ch i + a i k * (psi e t - psi e (nth k r 0))) (nth k r 0) (a i k * E k)).
    { apply is_derive_affine_of. apply psi_derive. exact Hs. }
    assert (E0 : ch i + a i k * (psi e (nth k r 0) - psi e (nth k r 0)) = ch i) by ring.
    pose proof (min0_derive D (ch i) (Hoff i ltac:(lia))) as D2. rewrite <- E0 in D2 at 1.
    pose proof (is_derive_comp (fun v => nmin (A:=R) (v - D) 0) (fun t => ch i + a i k * (psi e t - psi e (nth k r 0))) (nth k r 0) _ _ D2 D1) as DD.
    unfold scal in DD; simpl in DD; unfold mult in DD; simpl in DD. exact DD.
Qed.

(* the same device without the deep-discharge term *)
Definition no_deep (q : sparams R) : sparams R :=
  {| sp_c1 := sp_c1 q; sp_c2 := sp_c2 q; sp_c3 := 0; sp_capacity := sp_capacity q; sp_depth := sp_depth q; sp_start := sp_start q;
     sp_reserve := sp_reserve q; sp_eff := sp_eff q; sp_sus := sp_sus q; sp_clip_d := sp_clip_d q; sp_clip_c := sp_clip_c q |}.

Lemma sdev_deriv_split q (y p : list R) j : (j < length y)%nat ->
  nth j (sdev_deriv q y p) 0 = nth j (sdev_deriv (no_deep q) y p) 0 + deepv q y j.
Proof.
  intros Hj. unfold sdev_deriv.
  rewrite (nth_map_idx (fun k0 x => (n2 * sp_c1 q * x - sp_c2 q * nbr y k0
      + vsum (map (fun '(i, m) => n2 * sp_c3 q * m * nth k0 (sust_row (sp_sus q) (length y) i) n0 * effof (sp_eff q) x) (idx (sdev_short q y)))
      + nth k0 p n0)%num)) by auto.
  rewrite (nth_map_idx (fun k0 x => (n2 * sp_c1 (no_deep q) * x - sp_c2 (no_deep q) * nbr y k0
      + vsum (map (fun '(i, m) => n2 * sp_c3 (no_deep q) * m * nth k0 (sust_row (sp_sus (no_deep q)) (length y) i) n0 * effof (sp_eff (no_deep q)) x) (idx (sdev_short (no_deep q) y)))
      + nth k0 p n0)%num)) by auto.
  cbn [no_deep sp_c1 sp_c2 sp_c3 sp_sus sp_eff]. numR.
  rewrite (vsum_map_ext (fun '(i, m) => 2 * 0 * m * _ * _) (fun _ => 0)) by (intros [i m] _; ring). rewrite vsum_map_zero.
  unfold deepv. ring.
Qed.

Lemma sdev_hess_split q (s : list R) j k : (j < length s)%nat -> (k < length s)%nat ->
  entry (sdev_hess q s) j k = entry (sdev_hess (no_deep q) s) j k + deeph q s j k.
Proof.
  intros Hj Hk. unfold entry, sdev_hess. repeat rewrite nth_map_seq by auto.
  cbn [no_deep sp_c1 sp_c2 sp_c3 sp_sus sp_eff sp_capacity sp_depth]. numR.
  change (sdev_charge (no_deep q) s) with (sdev_charge q s).
  match goal with |- ?A - ?B + vsum (map ?f1 ?l) = ?A - ?B + vsum (map ?f2 ?l) + _ =>
    assert (Z : vsum (map f2 l) = 0) by (rewrite (vsum_map_ext f2 (fun _ => 0)); [apply vsum_map_zero|];
                                         intros [i c] _; destruct (negb (Rleb (sp_capacity q * sp_depth q) c)); ring);
    rewrite Z end.
  rewrite (vsum_map_idx_seq (fun i c => if negb (Rleb (sp_capacity q * sp_depth q) c)
     then 2 * sp_c3 q * (nth j (sust_row (sp_sus q) (length s) i) 0 * effof (sp_eff q) (nth j s 0)) * (nth k (sust_row (sp_sus q) (length s) i) 0 * effof (sp_eff q) (nth k s 0))
     else 0)).
  rewrite sdev_charge_length. unfold deeph, nltb. numR. ring.
Qed.

Lemma hess_sdevice_full n b cb q (s p : list R) : length s = n -> length p = n ->
  smooth_at (sp_eff q) s -> off_damage_level q s ->
  hess_at (fun s' => leaf_deriv (Build_leafdev n b cb (KS q)) s' p) (leaf_hess (Build_leafdev n b cb (KS q)) s) s.
Proof.
  intros Hs Hp Hsm Hoff.
  destruct (hess_sdevice_no_deep n b cb (no_deep q) s p Hs Hp eq_refl) as (A1 & A2 & A3).
  unfold leaf_deriv, leaf_hess in *; cbn [ld_kind] in *.
  split; [unfold sdev_hess; now rewrite map_length, seq_length|].
  split; [intros j Hj; unfold sdev_hess; rewrite nth_map_seq by auto; now rewrite map_length, seq_length|].
  intros j k Hj Hk. rewrite sdev_hess_split by auto.
  apply (is_derive_ext (fun t => nth j (sdev_deriv (no_deep q) (upd s k t) p) 0 + deepv q (upd s k t) j)).
  { intros t. symmetry. apply sdev_deriv_split. now rewrite upd_length. }
  apply (is_derive_plus (fun t => nth j (sdev_deriv (no_deep q) (upd s k t) p) 0) (fun t => deepv q (upd s k t) j)).
  - now apply A3.
  - apply deep_coord; auto. destruct Hsm as [?|H]; [left; auto|right; apply H; auto].
Qed.

(* non-vacuity: lossy storage, flows without a zero, no state of charge on the damage level 3 (states 9/2, 1/4, 9/8) *)
Definition ex_q : sparams R :=
  {| sp_c1 := 1; sp_c2 := 0; sp_c3 := 1; sp_capacity := 10; sp_depth := 3 / 10; sp_start := 4 / 10; sp_reserve := 0;
     sp_eff := 1 / 2; sp_sus := 1; sp_clip_d := None; sp_clip_c := None |}.
Lemma example_storage_hess : smooth_at (sp_eff ex_q) [1; -2; 1 / 2] /\ off_damage_level ex_q [1; -2; 1 / 2].
Proof.
  split.
  - right. intros k Hk. simpl in Hk. destruct k as [|[|[|k]]]; simpl; try lra. lia.
  - intros i Hi. rewrite storage_is_recurrence. cbn [ex_q sp_sus sp_start sp_capacity sp_eff sp_depth map state_rec].
    assert (E1 : stored (1 / 2) 1 = 1 / 2) by (rewrite (proj1 (stored_cases _ _)); lra).
    assert (E2 : stored (1 / 2) (-2) = -4) by (rewrite (proj1 (proj2 (stored_cases _ _))); [field|lra]).
    assert (E3 : stored (1 / 2) (1 / 2) = 1 / 4) by (rewrite (proj1 (stored_cases _ _)); lra).
    rewrite E1, E2, E3. simpl in Hi. destruct i as [|[|[|i]]]; simpl; try lra. lia.
Qed.

(* ====================================================================================================================== *)
(* Convexity of lossy two-way storage: r -> r*e^sign(r) is concave for 0 < e <= 1 (it is min(e r, r/e)), the state of charge *)
(* is a non-negative combination of such terms, and (min(u - D, 0))^2 is convex and non-increasing in u.                      *)
(* ====================================================================================================================== *)
Lemma psi_min e v : 0 < e <= 1 -> psi e v = Rmin (e * v) (v / e).
Proof.
  intros He. assert (Hi : 1 <= / e) by (rewrite <- Rinv_1; apply Rinv_le_contravar; lra).
  assert (Hie : e * / e = 1) by (apply Rinv_r; lra).
  unfold psi, Rdiv. destruct (Rtotal_order v 0) as [Hn|[->|Hp]].
  - rewrite effof_neg by auto. rewrite Rmin_right; [unfold Rdiv; ring|]. nra.
  - unfold effof. numR. unfold Reqb. destruct (Req_EM_T 0 0); [|contradiction]. rewrite !Rmult_0_r, Rmult_0_l. now rewrite Rmin_left by lra.
  - rewrite effof_pos by auto. rewrite Rmin_left; [ring|]. nra.
Qed.

Lemma psi_concave e u v l : 0 < e <= 1 -> 0 <= l <= 1 -> l * psi e u + (1 - l) * psi e v <= psi e (l * u + (1 - l) * v).
Proof.
  intros He Hl. rewrite !psi_min by auto.
  pose proof (Rmin_l (e * u) (u / e)). pose proof (Rmin_r (e * u) (u / e)).
  pose proof (Rmin_l (e * v) (v / e)). pose proof (Rmin_r (e * v) (v / e)).
  apply Rmin_glb.
  - replace (e * (l * u + (1 - l) * v)) with (l * (e * u) + (1 - l) * (e * v)) by ring. nra.
  - replace ((l * u + (1 - l) * v) / e) with (l * (u / e) + (1 - l) * (v / e)) by (unfold Rdiv; ring). nra.
Qed.

Lemma effv_cons e (v : R) r : effv e (v :: r) = psi e v :: effv e r.
Proof. reflexivity. Qed.

Lemma dot_effv_concave e l : 0 < e <= 1 -> 0 <= l <= 1 -> forall x y, length x = length y ->
  forall a, (forall j, 0 <= nth j a 0) ->
  l * dot a (effv e x) + (1 - l) * dot a (effv e y) <= dot a (effv e (vlerp l x y)).
Proof.
  intros He Hl x y HL. pattern x, y. apply list_ind2; auto; clear x y HL.
  - intros a _. rewrite vlerp_nil. unfold effv; simpl. destruct a; unfold dot; simpl; lra.
  - intros u x v y HL IH a Ha. rewrite vlerp_cons, !effv_cons. destruct a as [|a0 a]; [unfold dot; simpl; lra|].
    rewrite !dot_cons. pose proof (Ha 0%nat) as H0. cbn [nth] in H0.
    pose proof (IH a (fun j => Ha (S j))) as IH'. pose proof (psi_concave e u v l He Hl). nra.
Qed.

Lemma sust_row_nonneg (s : R) n i j : 0 <= s -> 0 <= nth j (sust_row s n i) 0.
Proof.
  intros Hs. destruct (lt_dec j n) as [Hj|Hj].
  - rewrite sust_row_nth by auto. destruct (j <=? i)%nat; [apply pow_le; auto|lra].
  - rewrite nth_overflow; [lra|]. rewrite sust_row_length. lia.
Qed.

Lemma sdev_charge_concave q l (x y : list R) i : 0 < sp_eff q <= 1 -> 0 <= sp_sus q -> 0 <= l <= 1 -> length x = length y ->
  (i < length x)%nat ->
  l * nth i (sdev_charge q x) 0 + (1 - l) * nth i (sdev_charge q y) 0 <= nth i (sdev_charge q (vlerp l x y)) 0.
Proof.
  intros He Hs Hl HL Hi. unfold sdev_charge. rewrite vlerp_length by auto.
  rewrite !nth_vadd by (rewrite ?base_soc_length, ?soc_length, ?vlerp_length; auto; lia).
  rewrite !nth_soc by (rewrite ?vlerp_length; auto; lia). rewrite vlerp_length by auto. rewrite <- HL.
  pose proof (dot_effv_concave (sp_eff q) l He Hl x y HL (sust_row (sp_sus q) (length x) i) (fun j => sust_row_nonneg _ _ _ j Hs)). lra.
Qed.

Lemma msq_antitone D u v : u <= v -> msq D v <= msq D u.
Proof.
  intros Huv. unfold msq, nsq. rewrite !nmin_Rmin.
  assert (Rmin (u - D) 0 <= Rmin (v - D) 0) by (apply Rle_min_compat_r; lra).
  pose proof (Rmin_r (v - D) 0). pose proof (Rmin_r (u - D) 0). numR. nra.
Qed.

Lemma vsum_map_le_lin {B} (f g h : B -> R) a b (l : list B) : (forall i, In i l -> f i <= a * g i + b * h i) ->
  vsum (map f l) <= a * vsum (map g l) + b * vsum (map h l).
Proof.
  induction l as [|i l IH]; intros Hall; simpl; [lra|]. rewrite ?vsum_cons.
  pose proof (Hall i (or_introl eq_refl)). pose proof (IH (fun j Hj => Hall j (or_intror Hj))). lra.
Qed.

Lemma convex_sdevice_lossy n b cb q p : 0 < sp_eff q <= 1 -> 0 <= sp_sus q -> 0 <= sp_c2 q <= sp_c1 q -> 0 <= sp_c3 q -> length b = n ->
  convex_on (in_box_R b) (fun s => leaf_cost (Build_leafdev n b cb (KS q)) s p).
Proof.
  intros He Hs Hc Hc3 Hb. unfold leaf_cost; cbn [ld_kind]. unfold sdev_cost, sdev_pref. numR.
  apply convex_plus; [|apply convex_price].
  apply (convex_weaken (fun x => length x = n)); [intros x [Lx _]; lia|].
  set (D := sp_capacity q * sp_depth q).
  apply (convex_ext _ (fun r => Qf (sp_c1 q) (sp_c2 q) r + sp_c3 q * vsum (map (fun i => msq D (nth i (sdev_charge q r) 0)) (seq 0 n)))).
  - intros x Lx. unfold Qf. rewrite vsum_nsq. f_equal. f_equal. unfold sdev_short. rewrite map_map.
    rewrite (vsum_map_as_idx (msq D)), (vsum_map_idx_seq (fun _ u => msq D u)), sdev_charge_length, Lx. reflexivity.
  - intros x y l Lx Ly _. rewrite vlerp_length; lia.
  - apply convex_plus; [apply convex_Qf; auto|]. apply convex_scal; auto.
    intros x y l Lx Ly Hl.
    apply (vsum_map_le_lin (fun i => msq D (nth i (sdev_charge q (vlerp l x y)) 0))
                           (fun i => msq D (nth i (sdev_charge q x) 0)) (fun i => msq D (nth i (sdev_charge q y) 0))).
    intros i Hi. apply in_seq in Hi.
    pose proof (sdev_charge_concave q l x y i He Hs Hl ltac:(lia) ltac:(lia)) as Hcc.
    pose proof (msq_antitone D _ _ Hcc) as H1.
    pose proof (sconvex_all_of (fun u => nsq (nmin (A:=R) (u - D) 0)) (fun lo0 hi0 => sconvex_msq D lo0 hi0)
                  (nth i (sdev_charge q x) 0) (nth i (sdev_charge q y) 0) l Hl) as H2.
    unfold msq in *. lra.
Qed.

Lemma example_lossy_params : 0 < sp_eff ex_q <= 1 /\ 0 <= sp_sus ex_q /\ 0 <= sp_c2 ex_q <= sp_c1 ex_q /\ 0 <= sp_c3 ex_q.
Proof. simpl. lra. Qed.
