(* C07: the cost of every convex-documented class is convex over its bounds box, for every horizon length. *)
From Coq Require Import ZArith Reals List Bool Arith Lia Lra Psatz.
From Coquelicot Require Import Coquelicot.
From DK Require Import Num NumR Vec.
From DK.Gen Require Import Kernels.
From DK.Model Require Import Leaf Fn Dev DocSpec.
From DK.Proofs Require Import VecFacts RVec KernelR Calc C15Proofs C01Proofs Convex.
Import ListNotations.
Local Open Scope R_scope.

Definition box (d : leafdev R) : list R -> Prop := in_box_R (ld_bounds d).
Lemma box_len b x y : in_box_R b x -> in_box_R b y -> length x = length y.
Proof. intros [Lx _] [Ly _]. lia. Qed.

Lemma convex_price b p : convex_on (in_box_R b) (fun s => dot s p).
Proof. apply convex_affine_dot. apply box_len. Qed.

(* ---------------- Device / PVDevice / CDevice: affine ---------------- *)
Lemma convex_device n b cb p :
  convex_on (in_box_R b) (fun s => leaf_cost (Build_leafdev n b cb KDev) s p) /\
  convex_on (in_box_R b) (fun s => leaf_cost (Build_leafdev n b cb KPV) s p).
Proof. split; unfold leaf_cost; cbn [ld_kind]; unfold dev_cost; apply convex_price. Qed.

Lemma convex_cdevice n b cb a b0 p : convex_on (in_box_R b) (fun s => leaf_cost (Build_leafdev n b cb (KC a b0)) s p).
Proof.
  unfold leaf_cost; cbn [ld_kind]. unfold cdev_cost. numR. intros x y l Bx By Hl.
  rewrite vsum_vlerp, dot_vlerp by (eapply box_len; eauto). lra.
Qed.


(* separable sums: convexity of each kernel is needed on the slots of the box only *)
Lemma convex_sepsum_guarded (phi : nat -> R -> R) (b : list (R * R)) :
  (forall i, (i < length b)%nat -> sconvex_on (lo b i) (hi b i) (phi i)) ->
  convex_on (in_box_R b) (fun x => vsum (map (fun '(i, v) => phi i v) (idx x))).
Proof.
  intros Hphi.
  pose (phi' := fun i v => if lt_dec i (length b) then phi i v else 0).
  assert (E : forall x, in_box_R b x ->
     vsum (map (fun '(i, v) => phi' i v) (idx x)) = vsum (map (fun '(i, v) => phi i v) (idx x))).
  { intros x [Lx _]. apply vsum_map_ext. intros [i v] Hin. unfold idx in Hin. apply in_combine_l in Hin. apply in_seq in Hin.
    unfold phi'. destruct (lt_dec i (length b)); [reflexivity|lia]. }
  apply (convex_ext _ _ _ E); [intros; now apply in_box_lerp|].
  apply convex_sepsum. intros i. unfold phi'. destruct (lt_dec i (length b)) as [Hi|Hi]; [now apply Hphi|].
  intros u v l0 _ _ _. lra.
Qed.

(* ---------------- IDevice2 ---------------- *)
Lemma convex_idevice2 n b cb pl ph p :
  (forall i, (i < length b)%nat -> pnth pl i <= pnth ph i /\ lo b i <= hi b i) ->
  convex_on (in_box_R b) (fun s => leaf_cost (Build_leafdev n b cb (KI2 pl ph)) s p).
Proof.
  intros Hv. unfold leaf_cost; cbn [ld_kind ld_bounds]. unfold idev2_cost, idev2_pref. numR.
  apply convex_plus; [|apply convex_price].
  apply (convex_sepsum_guarded (fun i v => hl_cost v (pnth pl i) (pnth ph i) (lo b i) (hi b i))).
  intros i Hi. destruct (Hv i Hi). apply sconvex_hl; auto.
Qed.

(* ---------------- IDevice (natural exponents) ---------------- *)
Lemma convex_idevice n b cb a bp c p :
  (forall i, (i < length b)%nat -> (exists k, pnth bp i = Rnat k) /\ 0 <= pnth a i /\ 0 <= pnth c i /\ lo b i <= hi b i) ->
  convex_on (in_box_R b) (fun s => leaf_cost (Build_leafdev n b cb (KI a bp c)) s p).
Proof.
  intros Hv. unfold leaf_cost; cbn [ld_kind ld_bounds]. unfold idev_cost, idev_pref. numR.
  apply convex_plus; [|apply convex_price].
  apply (convex_sepsum_guarded (fun i v => abc_cost v (pnth a i) (pnth bp i) (pnth c i) (lo b i) (hi b i))).
  intros i Hi. destruct (Hv i Hi) as ([k ->] & Ha & Hc & Hb). apply sconvex_abc; auto.
Qed.

(* ---------------- GDevice: polynomials convex on the generated range, as the property says ---------------- *)
Lemma convex_gdevice n b cb g p :
  (forall i, (i < length b)%nat -> sconvex_on (lo b i) (hi b i) (fun x => horner (A:=R) (gpoly g i) (- x))) ->
  convex_on (in_box_R b) (fun s => leaf_cost (Build_leafdev n b cb (KG g)) s p).
Proof.
  intros Hv. unfold leaf_cost; cbn [ld_kind]. unfold gdev_cost. numR.
  apply (convex_sepsum_guarded (fun i v => v * nth i p 0 + horner (gpoly g i) (- v))).
  intros i Hi u v l0 Hu Hv0 Hl0. pose proof (Hv i Hi u v l0 Hu Hv0 Hl0). nra.
Qed.

(* ---------------- CDevice2, one range: convex kernel of the total ---------------- *)
Lemma convex_cdevice2_single n b c pl ph p : pl <= ph -> cb_lo c <= cb_hi c ->
  convex_on (in_box_R b) (fun s => leaf_cost (Build_leafdev n b [c] (KC2 pl ph)) s p).
Proof.
  intros Hp Hc. unfold leaf_cost; cbn [ld_kind ld_cb]. unfold cdev2_cost, cdev2_pref. numR.
  apply convex_plus; [|apply convex_price].
  intros x y l Bx By Hl. rewrite vsum_vlerp by (eapply box_len; eauto).
  apply (sconvex_hl pl ph (cb_lo c) (cb_hi c) (Rmin (vsum x) (vsum y)) (Rmax (vsum x) (vsum y))); auto;
    split; auto using Rmin_l, Rmin_r, Rmax_l, Rmax_r.
Qed.

(* ---------------- SDevice ---------------- *)
Fixpoint sumsq (r : list R) : R := match r with [] => 0 | x :: r' => x * x + sumsq r' end.
Lemma vsum_nsq r : vsum (map nsq r) = sumsq r.
Proof. induction r as [|x r IH]; [reflexivity|]. cbn [map sumsq]. rewrite vsum_cons, IH. reflexivity. Qed.

(* flip r <= sumsq r - (head r)^2 / 2  : the sharpened induction invariant *)
Lemma flip_le_sumsq r : flip (A:=R) r <= sumsq r - (hd 0 r) * (hd 0 r) / 2.
Proof.
  induction r as [|x r IH]; [simpl; lra|]. destruct r as [|y r].
  - simpl. nra.
  - rewrite flip_cons2. cbn [sumsq hd] in *. assert (0 <= (x - y) * (x - y)) by apply Rle_0_sqr. nra.
Qed.
Lemma sumsq_nonneg r : 0 <= sumsq r.
Proof. induction r as [|x r IH]; simpl; [lra|]. assert (0 <= x * x) by apply Rle_0_sqr. lra. Qed.

Definition Qf (c1 c2 : R) (r : list R) : R := c1 * sumsq r - c2 * flip (A:=R) r.
Lemma Qf_nonneg c1 c2 r : 0 <= c2 <= c1 -> 0 <= Qf c1 c2 r.
Proof.
  intros Hc. unfold Qf. pose proof (flip_le_sumsq r). pose proof (sumsq_nonneg r).
  assert (0 <= hd 0 r * hd 0 r) by apply Rle_0_sqr. nra.
Qed.
(* the defect of convexity of a quadratic form is l(1-l) times the form of the difference *)
Lemma Qf_defect c1 c2 l x y : length x = length y ->
  l * Qf c1 c2 x + (1 - l) * Qf c1 c2 y - Qf c1 c2 (vlerp l x y) = l * (1 - l) * Qf c1 c2 (vsub x y).
Proof.
  intros HL. unfold Qf.
  assert (S : l * sumsq x + (1 - l) * sumsq y - sumsq (vlerp l x y) = l * (1 - l) * sumsq (vsub x y)).
  { pattern x, y. apply list_ind2; auto; clear.
    - simpl. ring.
    - intros a x b y HL IH. rewrite vlerp_cons. cbn [vsub map2 sumsq]. numR. fold (vsub x y). lra. }
  assert (F : l * flip x + (1 - l) * flip y - flip (vlerp l x y) = l * (1 - l) * flip (vsub x y)).
  { pattern x, y. apply list_ind2; auto; clear.
    - simpl. ring.
    - intros a x b y HL IH. destruct x as [|a' x], y as [|b' y]; simpl in HL; try lia.
      + simpl. ring.
      + rewrite !vlerp_cons in *. cbn [vsub map2] in *. fold (vsub x y) in *. rewrite !flip_cons2 in *. numR. lra. }
  replace (l * (c1 * sumsq x - c2 * flip x) + (1 - l) * (c1 * sumsq y - c2 * flip y) - (c1 * sumsq (vlerp l x y) - c2 * flip (vlerp l x y)))
    with (c1 * (l * sumsq x + (1 - l) * sumsq y - sumsq (vlerp l x y)) - c2 * (l * flip x + (1 - l) * flip y - flip (vlerp l x y))) by ring.
  rewrite S, F. ring.
Qed.
Lemma convex_Qf c1 c2 n : 0 <= c2 <= c1 -> convex_on (fun x => length x = n) (Qf c1 c2).
Proof.
  intros Hc x y l Lx Ly Hl. pose proof (Qf_defect c1 c2 l x y ltac:(lia)) as D.
  pose proof (Qf_nonneg c1 c2 (vsub x y) Hc). assert (0 <= l * (1 - l)) by nra. nra.
Qed.

(* lossless storage: the state of charge is an affine map of the flow *)
Lemma effv_one r : effv (A:=R) 1 r = r.
Proof. induction r as [|x r IH]; [reflexivity|]. cbn [effv map]. rewrite effof_one. numR. rewrite Rmult_1_r. f_equal. exact IH. Qed.

Lemma soc_lerp_lossless l x y s : length x = length y ->
  soc (vlerp l x y) s 1 = vlerp l (soc x s 1) (soc y s 1).
Proof.
  intros HL. unfold soc. rewrite !effv_one, vlerp_length by auto. 
  apply nth_ext with (d := 0) (d' := 0).
  - rewrite vlerp_length; rewrite !map_length, !seq_length; lia.
  - intros i Hi. rewrite map_length, seq_length in Hi. rewrite nth_map_seq by auto.
    rewrite nth_vlerp by (rewrite !map_length, !seq_length; lia).
    rewrite !nth_map_seq by lia. rewrite <- HL. rewrite (Rmult_comm l), (Rmult_comm (1 - l)).
    rewrite <- !(Rmult_comm l), <- !(Rmult_comm (1 - l)).
    assert (D : forall a, dot a (vlerp l x y) = l * dot a x + (1 - l) * dot a y).
    { intros a. clear Hi. revert a. pattern x, y. apply list_ind2; auto; clear.
      - intros a. destruct a; unfold dot; simpl; ring.
      - intros a0 x b0 y HL IH [|c a]; rewrite vlerp_cons; [unfold dot; simpl; ring|]. rewrite !dot_cons, IH. ring. }
    apply D.
Qed.

Lemma sdev_charge_lerp q l x y : sp_eff q = 1 -> length x = length y ->
  sdev_charge q (vlerp l x y) = vlerp l (sdev_charge q x) (sdev_charge q y).
Proof.
  intros He HL.
  assert (Lc : forall r, length (sdev_charge q r) = length r) by apply sdev_charge_length.
  apply nth_ext with (d := 0) (d' := 0).
  - rewrite Lc, !vlerp_length; rewrite ?Lc; auto; lia.
  - intros i Hi. rewrite Lc, vlerp_length in Hi by auto.
    rewrite nth_vlerp by (rewrite !Lc; auto).
    unfold sdev_charge.
    rewrite !nth_vadd by (rewrite ?base_soc_length, ?soc_length, ?vlerp_length; auto; lia).
    rewrite He, soc_lerp_lossless by auto. rewrite nth_vlerp by (rewrite !soc_length; auto).
    rewrite vlerp_length by auto. rewrite <- HL. ring.
Qed.

Lemma convex_sdevice_lossless n b cb q p : sp_eff q = 1 -> 0 <= sp_c2 q <= sp_c1 q -> 0 <= sp_c3 q -> length b = n ->
  convex_on (in_box_R b) (fun s => leaf_cost (Build_leafdev n b cb (KS q)) s p).
Proof.
  intros He Hc Hc3 Hb. unfold leaf_cost; cbn [ld_kind]. unfold sdev_cost, sdev_pref. numR.
  apply convex_plus; [|apply convex_price].
  apply (convex_weaken (fun x => length x = n)); [intros x [Lx _]; lia|].
  apply (convex_ext _ (fun r => Qf (sp_c1 q) (sp_c2 q) r + sp_c3 q * vsum (map (fun '(i, u) => msq (sp_capacity q * sp_depth q) u) (idx (sdev_charge q r))))).
  - intros x _. unfold Qf. rewrite vsum_nsq. f_equal. f_equal. unfold sdev_short. rewrite map_map. symmetry. apply (vsum_map_as_idx (msq (sp_capacity q * sp_depth q))).
  - intros x y l Lx Ly _. rewrite vlerp_length; lia.
  - apply convex_plus; [apply convex_Qf; auto|]. apply convex_scal; auto.
    intros x y l Lx Ly Hl. rewrite sdev_charge_lerp by (auto; lia).
    apply (convex_sepsum_all (fun _ u => msq (sp_capacity q * sp_depth q) u) n); auto.
    + intros i. apply sconvex_all_of. intros lo0 hi0. apply sconvex_msq.
    + rewrite sdev_charge_length; auto.
    + rewrite sdev_charge_length; auto.
Qed.

(* ---------------- TDevice, one-directional flow (or lossless) ---------------- *)
Definition one_directional (e : R) (b : list (R * R)) : Prop :=
  e = 1 \/ (forall i, (i < length b)%nat -> 0 <= lo b i) \/ (forall i, (i < length b)%nat -> hi b i <= 0).
(* on such a box the efficiency scaling is linear: one factor k for every slot *)
Lemma effv_linear_on_box e b : one_directional e b -> exists k, forall r, in_box_R b r -> effv (A:=R) e r = vscale k r.
Proof.
  intros [->|[Hpos|Hneg]].
  - exists 1. intros r _. rewrite effv_one. unfold vscale. induction r as [|x r IH]; [reflexivity|].
    cbn [map]. numR. rewrite Rmult_1_l. now f_equal.
  - exists e. intros r [Lr Hr]. apply nth_ext with (d := 0) (d' := 0); [unfold vscale; now rewrite effv_length, map_length|].
    intros i Hi. rewrite effv_length in Hi. rewrite nth_effv, nth_vscale. unfold psi.
    specialize (Hr i ltac:(lia)). specialize (Hpos i ltac:(lia)).
    destruct (Req_EM_T (nth i r 0) 0) as [E|E]; [rewrite E; ring|]. rewrite effof_pos by lra. ring.
  - exists (1 / e). intros r [Lr Hr]. apply nth_ext with (d := 0) (d' := 0); [unfold vscale; now rewrite effv_length, map_length|].
    intros i Hi. rewrite effv_length in Hi. rewrite nth_effv, nth_vscale. unfold psi.
    specialize (Hr i ltac:(lia)). specialize (Hneg i ltac:(lia)).
    destruct (Req_EM_T (nth i r 0) 0) as [E|E]; [rewrite E; ring|]. rewrite effof_neg by lra. ring.
Qed.

Lemma dot_vscale_r a k r : dot (A:=R) a (vscale k r) = k * dot a r.
Proof.
  revert r; induction a as [|x a IH]; intros [|y r].
  - unfold dot; simpl; ring.
  - unfold dot; simpl; ring.
  - unfold dot; simpl; ring.
  - change (vscale k (y :: r)) with ((k * y) :: vscale k r). rewrite !dot_cons, IH. ring.
Qed.
Lemma dot_vlerp_r a l x y : length x = length y -> dot (A:=R) a (vlerp l x y) = l * dot a x + (1 - l) * dot a y.
Proof.
  intros HL. revert a. pattern x, y. apply list_ind2; auto; clear.
  - intros a. destruct a; unfold dot; simpl; ring.
  - intros a0 x b0 y HL IH [|c a]; rewrite vlerp_cons; [unfold dot; simpl; ring|]. rewrite !dot_cons, IH. ring.
Qed.

Lemma tdev_r2t_lerp q b l x y : one_directional (tp_eff q) b -> in_box_R b x -> in_box_R b y -> 0 <= l <= 1 ->
  length (tp_ext q) = length b ->
  tdev_r2t q (vlerp l x y) = vlerp l (tdev_r2t q x) (tdev_r2t q y).
Proof.
  intros Hdir Bx By Hl He. destruct (effv_linear_on_box _ _ Hdir) as [k Hk].
  assert (Bl := in_box_lerp b x y l Bx By Hl).
  destruct Bx as [Lx Hx], By as [Ly Hy].
  assert (Lr : forall r, length r = length b -> length (tdev_r2t q r) = length r) by (intros; apply tdev_r2t_length; lia).
  apply nth_ext with (d := 0) (d' := 0).
  - rewrite Lr, !vlerp_length; rewrite ?Lr; auto; try lia. rewrite vlerp_length; lia.
  - intros i Hi. rewrite Lr, vlerp_length in Hi by (rewrite ?vlerp_length; lia).
    rewrite nth_vlerp by (rewrite !Lr; lia).
    unfold tdev_r2t. rewrite vlerp_length by lia.
    assert (Lb : forall m, length (tdev_tbase q m) = Nat.min m (length b)).
    { intros m. unfold tdev_tbase, vadd. rewrite map2_length, base_soc_length, soc_length, map_length. lia. }
    rewrite !nth_vadd by (rewrite ?Lb, ?soc_length, ?vlerp_length; lia).
    rewrite !nth_soc by (rewrite ?vlerp_length; lia). rewrite vlerp_length by lia.
    rewrite (Hk _ Bl), (Hk x ltac:(split; auto)), (Hk y ltac:(split; auto)).
    rewrite !dot_vscale_r, dot_vlerp_r by lia. replace (length y) with (length x) by lia. ring.
Qed.

Lemma sconvex_all_abc_square c xl xh : 0 <= c -> sconvex_all (fun t => abc_cost (A:=R) t 0 2 c xl xh).
Proof.
  intros Hc. destruct (Req_EM_T xl xh) as [->|Hne].
  - intros u v l _. destruct (abc_zero_width u 0 2 c xh) as [-> _]. destruct (abc_zero_width v 0 2 c xh) as [-> _].
    destruct (abc_zero_width (l * u + (1 - l) * v) 0 2 c xh) as [-> _]. lra.
  - intros u v l Hl. change 2 with (Rnat 2). rewrite !abc_cost_form by auto. rewrite abc_q_lerp by auto.
    set (a := abc_q (A:=R) u xl xh 0). set (b := abc_q (A:=R) v xl xh 0). simpl.
    pose proof (sconvex_quadratic c 0 0 (Rmin a b) (Rmax a b) Hc a b l) as Q.
    assert (G : c * (l * a + (1 - l) * b) * (l * a + (1 - l) * b) + 0 * (l * a + (1 - l) * b) + 0
               <= l * (c * a * a + 0 * a + 0) + (1 - l) * (c * b * b + 0 * b + 0)).
    { apply Q; auto; split; auto using Rmin_l, Rmin_r, Rmax_l, Rmax_r. }
    lra.
Qed.

Lemma convex_tdevice n b cb q p : one_directional (tp_eff q) b -> length (tp_ext q) = length b ->
  (forall i, 0 <= pnth (tp_c q) i) ->
  convex_on (in_box_R b) (fun s => leaf_cost (Build_leafdev n b cb (KT q)) s p).
Proof.
  intros Hdir He Hc. unfold leaf_cost; cbn [ld_kind]. unfold tdev_cost, tdev_pref. numR.
  apply convex_plus; [|apply convex_price].
  intros x y l Bx By Hl. rewrite (tdev_r2t_lerp q b l x y) by auto.
  destruct Bx as [Lx Hx], By as [Ly Hy].
  apply (convex_sepsum_all (fun i t => abc_cost t 0 2 (pnth (tp_c q) i) (tdev_tmin q) (tp_opt q)) (length b)); auto.
  - intros i. apply sconvex_all_abc_square. apply Hc.
  - rewrite tdev_r2t_length; lia.
  - rewrite tdev_r2t_length; lia.
Qed.

(* ---------------- marginal cost monotone along segments (separable high/low quadratic) ---------------- *)
Lemma hl_deriv_monotone pl ph xl xh u v : pl <= ph -> xl <= xh -> u <= v ->
  hl_deriv (A:=R) u pl ph xl xh <= hl_deriv (A:=R) v pl ph xl xh.
Proof.
  intros Hp Hx Huv. unfold hl_deriv. numR. kill_eqb; [lra|].
  assert (0 < xh - xl) by lra.
  assert ((u - xl) / (xh - xl) <= (v - xl) / (xh - xl)).
  { apply Rmult_le_compat_r; [left; apply Rinv_0_lt_compat; lra|lra]. }
  nra.
Qed.

(* ---------------- consequences: sub-level sets are convex, local optima are global ---------------- *)
Lemma sublevel_convex (B : list R -> Prop) F c : convex_on B F ->
  forall x y l, B x -> B y -> 0 <= l <= 1 -> F x <= c -> F y <= c -> F (vlerp l x y) <= c.
Proof. intros HF x y l Bx By Hl Hx Hy. specialize (HF x y l Bx By Hl). nra. Qed.

(* if x is not a global minimiser over a convex region, every neighbourhood of x (points x + t(y-x), t small) has a better point *)
Lemma local_is_global (B : list R -> Prop) F x y : convex_on B F -> B x -> B y -> F y < F x ->
  forall t, 0 < t <= 1 -> F (vlerp (1 - t) x y) < F x.
Proof.
  intros HF Bx By Hlt t Ht. specialize (HF x y (1 - t) Bx By ltac:(lra)).
  replace (1 - (1 - t)) with t in HF by ring. nra.
Qed.

(* ---------------- open findings, formally: parameter corners the validators admit where convexity fails ---------------- *)
Lemma sdev_cost_no_deep q r p : sp_c3 q = 0 -> sdev_cost (A:=R) q r p = Qf (sp_c1 q) (sp_c2 q) r + dot r p.
Proof. intros H. unfold sdev_cost, sdev_pref, Qf. numR. rewrite H, vsum_nsq. ring. Qed.

(* SDevice(c1=0, c2=1): accepted by the c2 setter (it only compares when c1 > 0); the chord inequality fails *)
Lemma sdevice_c1_zero_not_convex :
  exists (q : sparams R) (x y : list R) (l : R),
    sp_c1 q = 0 /\ sp_c2 q = 1 /\ sp_c3 q = 0 /\ 0 <= l <= 1 /\ in_box_R [(-2, 2); (-2, 2)] x /\ in_box_R [(-2, 2); (-2, 2)] y /\
    sdev_cost q (vlerp l x y) [0; 0] > l * sdev_cost q x [0; 0] + (1 - l) * sdev_cost q y [0; 0].
Proof.
  exists (Build_sparams 0 1 0 10 0 0 0 1 1 None None), [1; 1], [-1; -1], (1 / 2).
  assert (Bx : forall v : R, -2 <= v <= 2 -> in_box_R [(-2, 2); (-2, 2)] [v; v]).
  { intros v Hv. split; [reflexivity|]. intros i Hi. simpl in Hi.
    destruct i as [|[|j]]; unfold lo, hi; simpl; try lra; lia. }
  split; [reflexivity|]. split; [reflexivity|]. split; [reflexivity|]. split; [lra|].
  split; [apply Bx; lra|]. split; [apply Bx; lra|].
  rewrite !sdev_cost_no_deep by reflexivity. unfold Qf, dot, vlerp. simpl. numR. lra.
Qed.

(* IDevice(b = 1/2): accepted (validator is b > 0); c*q^b is strictly concave *)
Lemma Rpw_half x : 0 < x -> Rpw x (1 / 2) = sqrt x.
Proof.
  intros Hx. unfold Rpw.
  assert (U : up (1 / 2) = 1%Z).
  { symmetry. apply tech_up; simpl; lra. }
  rewrite U. simpl. destruct (Req_EM_T 0 (1 / 2)) as [E|_]; [lra|].
  replace (1 / 2) with (/ 2) by field. now apply Rpower_sqrt.
Qed.
Lemma idevice_b_half_not_convex :
  exists (x y l : R), 0 <= x <= 2 /\ 0 <= y <= 2 /\ 0 <= l <= 1 /\
    abc_cost (A:=R) (l * x + (1 - l) * y) 0 (1 / 2) 1 0 2 > l * abc_cost (A:=R) x 0 (1 / 2) 1 0 2 + (1 - l) * abc_cost (A:=R) y 0 (1 / 2) 1 0 2.
Proof.
  exists 0, (3 / 2), (1 / 2). repeat split; try lra.
  unfold abc_cost. numR. destruct (Reqb 0 2) eqn:E; [apply Reqb_true in E; lra|].
  rewrite !abc_q_affine by lra.
  replace (1 + (0 - 1) * ((1 / 2 * 0 + (1 - 1 / 2) * (3 / 2) - 0) / (2 - 0))) with (5 / 8) by field.
  replace (1 + (0 - 1) * ((0 - 0) / (2 - 0))) with 1 by field.
  replace (1 + (0 - 1) * ((3 / 2 - 0) / (2 - 0))) with (1 / 4) by field.
  rewrite !Rpw_half by lra. rewrite sqrt_1.
  assert (H4 : sqrt (1 / 4) = 1 / 2).
  { replace (1 / 4) with ((1 / 2) * (1 / 2)) by field. apply sqrt_square. lra. }
  rewrite H4.
  assert (H58 : 3 / 4 < sqrt (5 / 8)).
  { replace (3 / 4) with (sqrt ((3 / 4) * (3 / 4))) by (apply sqrt_square; lra). apply sqrt_lt_1; lra. }
  lra.
Qed.
