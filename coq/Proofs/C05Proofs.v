(* C05: solve() - wrapper logic for every behaviour of the optimiser (oracle), soundness of the Frank-Wolfe gap
   certificate the check evaluates on each returned flow, closed-form optimum of the base device. *)
From Coq Require Import ZArith Reals List Bool Arith Lia Lra Psatz.
From Coquelicot Require Import Coquelicot.
From DK Require Import Num NumR Vec.
From DK.Model Require Import Leaf Fn Dev Tree Solve.
From DK.Proofs Require Import VecFacts RVec VecAlg Convex TreeFacts.
Import ListNotations.

(* ================================================================================================== *)
(* (a) the wrapper, for ALL oracle behaviours and any carrier (structural: no real numbers involved)    *)
(* ================================================================================================== *)
Section Wrapper.
  Context {A : Type} `{Num A}.
  Variable minimize : problem A -> optresult A.
  Variables (dv : devview A) (s0 : option (list A)) (prox : option A).

  Definition the_problem := solve_problem dv s0 prox.
  Definition too_many_eq : bool := (length (pb_x0 the_problem) <? count_eq (pb_cons the_problem))%nat.

  Definition fixed_point := map fst (dv_bounds dv).
  Definition fixed_ok : bool := forallb (fun c => con_sat fixed_tol c fixed_point) (dv_cons dv).

  Lemma solve_cases :
    (all_fixed (dv_bounds dv) = true /\ fixed_ok = true /\
       solve_model minimize dv s0 prox = SAccept (reshape (dv_rows dv) (dv_n dv) fixed_point) None) \/
    (all_fixed (dv_bounds dv) = true /\ fixed_ok = false /\ solve_model minimize dv s0 prox = SRaiseOptimization) \/
    (all_fixed (dv_bounds dv) = false /\ too_many_eq = true /\ solve_model minimize dv s0 prox = SRaiseOptimization) \/
    (all_fixed (dv_bounds dv) = false /\ too_many_eq = false /\
       let o := minimize the_problem in
       (o_success o = false /\ solve_model minimize dv s0 prox = SRaiseOptimization) \/
       (o_success o = true /\ length (o_x o) <> (dv_rows dv * dv_n dv)%nat /\ solve_model minimize dv s0 prox = SRaiseValueError) \/
       (o_success o = true /\ length (o_x o) = (dv_rows dv * dv_n dv)%nat /\
          solve_model minimize dv s0 prox = SAccept (reshape (dv_rows dv) (dv_n dv) (o_x o)) (Some o))).
  Proof.
    unfold solve_model, too_many_eq, the_problem, fixed_ok, fixed_point. destruct (all_fixed (dv_bounds dv)).
    - destruct (forallb (fun c => con_sat fixed_tol c (map fst (dv_bounds dv))) (dv_cons dv)); [left; auto|right; left; auto].
    - right. right.
      destruct (length (pb_x0 (solve_problem dv s0 prox)) <? count_eq (pb_cons (solve_problem dv s0 prox)))%nat; [left; auto|right].
      split; auto. split; auto. cbv zeta.
      destruct (o_success (minimize (solve_problem dv s0 prox))); [right|left; auto].
      destruct (Nat.eqb (length (o_x (minimize (solve_problem dv s0 prox)))) (dv_rows dv * dv_n dv)) eqn:E.
      + right. apply Nat.eqb_eq in E. auto.
      + left. apply Nat.eqb_neq in E. auto.
  Qed.

  (* any reported failure becomes OptimizationException *)
  Lemma solve_raises_on_failure : all_fixed (dv_bounds dv) = false ->
    o_success (minimize the_problem) = false -> solve_model minimize dv s0 prox = SRaiseOptimization.
  Proof.
    intros Hf Ho. destruct solve_cases as [[F _]|[[F _]|[[_ [_ E]]|[_ [_ C]]]]]; [congruence|congruence|exact E|].
    cbv zeta in C. destruct C as [[_ E]|[[S _]|[S _]]]; [exact E|congruence|congruence].
  Qed.
  Lemma solve_raises_on_too_many_eq : all_fixed (dv_bounds dv) = false -> too_many_eq = true ->
    solve_model minimize dv s0 prox = SRaiseOptimization.
  Proof.
    intros Hf Ht. destruct solve_cases as [[F _]|[[F _]|[[_ [_ E]]|[_ [T _]]]]]; [congruence|congruence|exact E|congruence].
  Qed.
  (* every slot fixed by its bounds: the optimiser is never consulted; the fixed point is returned iff it meets the exported
     constraints to 1e-6, otherwise OptimizationException *)
  Lemma solve_all_fixed (minimize' : problem A -> optresult A) : all_fixed (dv_bounds dv) = true ->
    solve_model minimize dv s0 prox = solve_model minimize' dv s0 prox /\
    solve_model minimize dv s0 prox =
      (if fixed_ok then SAccept (reshape (dv_rows dv) (dv_n dv) fixed_point) None else SRaiseOptimization).
  Proof. intros Hf. unfold solve_model, fixed_ok, fixed_point. rewrite Hf. auto. Qed.

  (* whatever is returned is either the fixed point of the bounds or exactly the point the optimiser reported as a success *)
  Lemma solve_accept_inv x o : solve_model minimize dv s0 prox = SAccept x o ->
    (all_fixed (dv_bounds dv) = true /\ fixed_ok = true /\ o = None /\ x = reshape (dv_rows dv) (dv_n dv) fixed_point) \/
    (all_fixed (dv_bounds dv) = false /\ o = Some (minimize the_problem) /\ o_success (minimize the_problem) = true /\
     length (o_x (minimize the_problem)) = (dv_rows dv * dv_n dv)%nat /\
     x = reshape (dv_rows dv) (dv_n dv) (o_x (minimize the_problem))).
  Proof.
    intros Hs. destruct solve_cases as [[F [K E]]|[[_ [_ E]]|[[_ [_ E]]|[F [_ C]]]]].
    - rewrite E in Hs. injection Hs as <- <-. left. auto.
    - rewrite E in Hs. discriminate.
    - rewrite E in Hs. discriminate.
    - cbv zeta in C. destruct C as [[_ E]|[[_ [_ E]]|[S [L E]]]]; rewrite E in Hs; try discriminate.
      injection Hs as <- <-. right. auto.
  Qed.

  Lemma reshape_shape_gen {B} (r n : nat) (s : list B) : (0 < n)%nat -> length s = (r * n)%nat ->
    length (reshape r n s) = r /\ List.Forall (fun row => length row = n) (reshape r n s).
  Proof.
    unfold reshape. revert s. induction r as [|r IH]; intros s Hn HL.
    - split; [reflexivity|constructor].
    - rewrite Nat.mul_succ_l in HL. cbn [chunk]. destruct s as [|a s]; [simpl in HL; lia|].
      remember (a :: s) as s' eqn:Es. clear Es.
      assert (Hf : length (firstn n s') = n) by (rewrite firstn_length; lia).
      destruct (IH (skipn n s') Hn) as [L F]; [rewrite skipn_length; lia|].
      split; [simpl; now rewrite L|constructor; auto].
  Qed.

  (* the returned flow has the device shape *)
  Lemma solve_shape x o : (0 < dv_n dv)%nat -> length (dv_bounds dv) = (dv_rows dv * dv_n dv)%nat ->
    solve_model minimize dv s0 prox = SAccept x o ->
    length x = dv_rows dv /\ List.Forall (fun row => length row = dv_n dv) x.
  Proof.
    intros Hn Hb Hs. destruct (solve_accept_inv x o Hs) as [[_ [_ [_ ->]]]|[_ [_ [_ [L ->]]]]]; apply reshape_shape_gen; auto.
    unfold fixed_point. now rewrite map_length.
  Qed.

  (* the start handed to the optimiser: the given one, or project(zeros) flattened *)
  Lemma solve_start : pb_x0 the_problem =
    match s0 with Some s => s | None => concat (dv_project dv (mconst (dv_rows dv) (dv_n dv) n0)) end.
  Proof. unfold the_problem, solve_problem. destruct (prox_on prox); reflexivity. Qed.
  Lemma solve_bounds_and_constraints : pb_bounds the_problem = dv_bounds dv /\ pb_cons the_problem = dv_cons dv.
  Proof. unfold the_problem, solve_problem. destruct (prox_on prox); auto. Qed.
End Wrapper.

Local Open Scope R_scope.

(* the objective and gradient handed to the optimiser, over R *)
Lemma solve_objective_plain (dv : devview R) s0 : forall s,
  pb_fun (solve_problem dv s0 None) s = dv_cost dv s /\ pb_jac (solve_problem dv s0 None) s = concat (dv_deriv dv s).
Proof. intros s. unfold solve_problem. cbn [prox_on]. auto. Qed.
Lemma sqdist_dist2 (s x0 : list R) : sqdist s x0 = dist2 s x0.
Proof.
  unfold sqdist, dist2. generalize (vsub s x0). intros l. induction l as [|a l IH]; [reflexivity|].
  cbn [map]. rewrite dot_cons, vsum_cons, IH. reflexivity.
Qed.
Lemma solve_objective_prox (dv : devview R) s0 r : r <> 0 -> forall s,
  let x0 := pb_x0 (solve_problem dv s0 (Some r)) in
  pb_fun (solve_problem dv s0 (Some r)) s = dv_cost dv s + 1 / (2 * r) * dist2 s x0 /\
  pb_jac (solve_problem dv s0 (Some r)) s = vadd (concat (dv_deriv dv s)) (vscale (1 / r) (vsub s x0)).
Proof.
  intros Hr s. unfold solve_problem, prox_on. cbn [neqb NumR n0]. destruct (Reqb r 0) eqn:E; [apply Reqb_true in E; contradiction|].
  cbn [pb_x0 pb_fun pb_jac]. split; auto. rewrite sqdist_dist2. reflexivity.
Qed.
Lemma solve_prox_zero_is_plain (dv : devview R) s0 : solve_problem dv s0 (Some 0) = solve_problem dv s0 None.
Proof. unfold solve_problem, prox_on. cbn [neqb NumR n0]. destruct (Reqb 0 0) eqn:E; [reflexivity|apply Reqb_false in E; contradiction]. Qed.

(* the proximal term's gradient is what the code adds: d/ds_k (1/(2r)) |s - x0|^2 = (1/r)(s_k - x0_k) *)
Lemma prox_gradient r (x0 s : list R) : r <> 0 -> length x0 = length s ->
  grad_at (fun y => 1 / (2 * r) * dist2 y x0) (vscale (1 / r) (vsub s x0)) s.
Proof.
  intros Hr HL. split; [rewrite vscale_length, vsub_length; lia|]. intros k Hk.
  assert (E : forall t, dist2 (upd s k t) x0 = dist2 s x0 - (nth k s 0 - nth k x0 0) * (nth k s 0 - nth k x0 0)
                                                + (t - nth k x0 0) * (t - nth k x0 0)).
  { clear Hr. revert x0 k HL Hk. induction s as [|a s IH]; intros [|b x0] k HL Hk t; simpl in HL, Hk; try lia.
    destruct k as [|k]; cbn [upd nth]; rewrite !dist2_cons; [ring|]. rewrite (IH x0 k) by lia. ring. }
  apply (is_derive_ext (fun t => 1 / (2 * r) * (dist2 s x0 - (nth k s 0 - nth k x0 0) * (nth k s 0 - nth k x0 0)
                                               + (t - nth k x0 0) * (t - nth k x0 0)))).
  - intros t. now rewrite E.
  - rewrite Calc.nth_vscale, nth_vsub by lia. auto_derive; [exact I|]. field. exact Hr.
Qed.

(* ================================================================================================== *)
(* (b) the certificate: convexity + exact directional derivative + small Frank-Wolfe gap => near optimal *)
(* ================================================================================================== *)
(* the cost has directional derivative <g, y - x> at x towards every y (what C01's exact gradient provides) *)
Definition has_gradient (F : list R -> R) (x g : list R) : Prop :=
  forall y, length y = length x -> is_derive (fun t => F (vadd x (vscale t (vsub y x)))) 0 (dot g (vsub y x)).

Lemma segment_vlerp (x y : list R) t : length y = length x -> vadd x (vscale t (vsub y x)) = vlerp t y x.
Proof.
  revert y; induction x as [|a x IH]; intros [|b y] HL; simpl in HL; try lia; [reflexivity|].
  rewrite vsub_cons, vscale_cons, vadd_cons, vlerp_cons, IH by lia. f_equal. ring.
Qed.

(* first-order lower bound of a convex function *)
Lemma convex_first_order (B : list R -> Prop) (F : list R -> R) (x y g : list R) :
  convex_on B F -> B x -> B y -> length y = length x -> has_gradient F x g ->
  F x + dot g (vsub y x) <= F y.
Proof.
  intros Hc Bx By HL Hg. specialize (Hg y HL).
  pose (phi := fun t => F (vadd x (vscale t (vsub y x)))).
  assert (P0 : phi 0 = F x).
  { unfold phi. rewrite segment_vlerp by auto. unfold vlerp. rewrite vscale_0, Rminus_0_r, vscale_1.
    f_equal. clear -HL. revert y HL; induction x as [|a x IH]; intros [|b y] HL; simpl in HL; try lia; [reflexivity|].
    change (zeros (length (b :: y))) with (0 :: zeros (A:=R) (length y)). rewrite vadd_cons, IH by lia. f_equal. ring. }
  assert (P1 : forall t, 0 <= t <= 1 -> phi t <= t * F y + (1 - t) * F x).
  { intros t Ht. unfold phi. rewrite segment_vlerp by auto. apply Hc; auto. }
  change (is_derive phi 0 (dot g (vsub y x))) in Hg.
  destruct (Rle_dec (F x + dot g (vsub y x)) (F y)) as [|Hn]; auto. exfalso.
  set (l := dot g (vsub y x)) in *. set (e := (l - (F y - F x)) / 2). assert (He : 0 < e) by (unfold e; lra).
  apply is_derive_Reals in Hg. destruct (Hg e He) as [[d Hd] Hq]. cbn [pos] in Hq.
  set (h := Rmin (d / 2) 1). assert (Hh : 0 < h <= 1) by (unfold h, Rmin; destruct (Rle_dec (d / 2) 1); lra).
  assert (Hhd : Rabs h < d).
  { rewrite Rabs_pos_eq by lra. unfold h, Rmin. destruct (Rle_dec (d / 2) 1); lra. }
  assert (Hne : h <> 0) by lra.
  specialize (Hq h Hne Hhd). rewrite Rplus_0_l, P0 in Hq.
  pose proof (P1 h ltac:(lra)) as Ph.
  assert (Q : (phi h - F x) / h <= F y - F x).
  { apply (Rmult_le_reg_r h); [lra|]. unfold Rdiv. rewrite Rmult_assoc, Rinv_l by lra. nra. }
  apply Rabs_def2 in Hq. unfold e in *. lra.
Qed.

Theorem fw_gap_certificate (B : list R -> Prop) (F : list R -> R) (x g : list R) eps :
  convex_on B F -> (forall y, B y -> length y = length x) -> B x -> has_gradient F x g ->
  (forall y, B y -> dot g (vsub x y) <= eps) ->
  forall y, B y -> F x <= F y + eps.
Proof.
  intros Hc HL Bx Hg Hgap y By. pose proof (convex_first_order B F x y g Hc Bx By (HL y By) Hg) as H1.
  specialize (Hgap y By). pose proof (HL y By) as Ly.
  rewrite dot_vsub_r in H1 by exact Ly. rewrite dot_vsub_r in Hgap by (symmetry; exact Ly). lra.
Qed.

(* feasibility certificate: residual checks of the exported constraints within delta are membership up to delta *)
Definition con_ok (delta : R) (c : con R) (x : list R) : Prop :=
  if c_eq c then Rabs (c_fun c x) <= delta else - delta <= c_fun c x.
Lemma feasible_certificate delta (cs : list (con R)) x :
  forallb (fun c => con_sat delta c x) cs = true <-> List.Forall (fun c => con_ok delta c x) cs.
Proof.
  rewrite forallb_forall, List.Forall_forall. split; intros Hx c Hc; specialize (Hx c Hc); unfold con_sat, con_ok in *;
    destruct (c_eq c); numR.
  - apply Rleb_true in Hx. unfold Rabs. unfold Rleb in *. destruct (Rle_dec 0 (c_fun c x)); destruct (Rcase_abs (c_fun c x)); lra.
  - now apply Rleb_true in Hx.
  - apply Rleb_true. unfold Rabs in Hx. unfold Rleb. destruct (Rle_dec 0 (c_fun c x)); destruct (Rcase_abs (c_fun c x)); lra.
  - now apply Rleb_true.
Qed.

(* ================================================================================================== *)
(* (c) closed form: the base Device (cost <s,p>) over its box - lower bound where p_i > 0, upper where p_i < 0 *)
(* ================================================================================================== *)
Definition greedy (b : list (R * R)) (p : list R) : list R :=
  map2 (fun lh pi => if Rlt_dec 0 pi then fst lh else snd lh) b p.

Lemma greedy_optimal b p y : length p = length b -> List.Forall (fun lh => fst lh <= snd lh) b ->
  List.Forall2 (fun lh v => fst lh <= v <= snd lh) b y ->
  List.Forall2 (fun lh v => fst lh <= v <= snd lh) b (greedy b p) /\ dot (greedy b p) p <= dot y p.
Proof.
  intros HL Hwf Hy. revert p HL Hwf. induction Hy as [|lh v b y Hv Hr IH]; intros [|pi p] HL Hwf; simpl in HL; try lia.
  - split; [constructor|unfold dot; simpl; lra].
  - pose proof (Forall_inv Hwf) as Hlh. pose proof (Forall_inv_tail Hwf) as Hwf'. cbv beta in Hlh.
    destruct (IH p ltac:(lia) Hwf') as [I1 I2]. unfold greedy in *. cbn [map2]. rewrite !dot_cons. split.
    + constructor; auto. destruct (Rlt_dec 0 pi); lra.
    + destruct (Rlt_dec 0 pi) as [Hp|Hp]; nra.
Qed.
Lemma base_device_cost n b cb (s p : list R) : leaf_cost (Build_leafdev n b cb KDev) s p = dot s p.
Proof. reflexivity. Qed.

(* non-vacuity of the certificate: F = <.,p> on a box, x the greedy point, gap 0 *)
Example fw_example : forall y, (0 <= nth 0 y 0 <= 1 /\ length y = 1%nat) -> dot [0] [2] <= dot y [2] + 0.
Proof.
  intros [|a [|b y]] [Hy HL]; simpl in HL; try lia. simpl in Hy. unfold dot; simpl. lra.
Qed.

(* ---- solver options: every call starts from the defaults; only the keys the caller passes are overridden ---- *)
Lemma solve_options_spec {A} `{Num A} (u : sopts A) :
  so_ftol (solve_options u) = match so_ftol u with Some v => Some v | None => Some (ndiv n1 (nofZ 1000000)) end /\
  so_maxiter (solve_options u) = match so_maxiter u with Some v => Some v | None => Some 1000%Z end /\
  so_disp (solve_options u) = match so_disp u with Some v => Some v | None => Some false end.
Proof. destruct u as [[f|] [m|] [d|]]; repeat split; reflexivity. Qed.
Lemma solve_options_no_override {A} `{Num A} : solve_options (@Build_sopts A None None None) = default_opts.
Proof. reflexivity. Qed.
