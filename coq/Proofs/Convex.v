(* Convexity over lists (any length): definitions, closure lemmas, scalar kernels. Used by C07 (and C05/C19). *)
From Coq Require Import ZArith Reals List Bool Arith Lia Lra Psatz.
From DK Require Import Num NumR Vec.
From DK.Gen Require Import Kernels.
From DK.Model Require Import Leaf.
From DK.Proofs Require Import VecFacts RVec KernelR Calc.
Import ListNotations.
Local Open Scope R_scope.

Definition vlerp (l : R) (x y : list R) : list R := vadd (vscale l x) (vscale (1 - l) y).

Definition convex_on (B : list R -> Prop) (F : list R -> R) : Prop :=
  forall x y l, B x -> B y -> 0 <= l <= 1 -> F (vlerp l x y) <= l * F x + (1 - l) * F y.

Definition in_box_R (b : list (R * R)) (x : list R) : Prop :=
  length x = length b /\ forall i, (i < length b)%nat -> lo b i <= nth i x 0 <= hi b i.

Definition sconvex_on (lo hi : R) (f : R -> R) : Prop :=
  forall u v l, lo <= u <= hi -> lo <= v <= hi -> 0 <= l <= 1 -> f (l * u + (1 - l) * v) <= l * f u + (1 - l) * f v.

(* ---- vlerp facts ---- *)
Lemma vlerp_length l x y : length x = length y -> length (vlerp l x y) = length x.
Proof. intros HL. unfold vlerp, vadd, vscale. rewrite map2_length, !map_length. lia. Qed.
Lemma nth_vlerp l x y i : length x = length y -> nth i (vlerp l x y) 0 = l * nth i x 0 + (1 - l) * nth i y 0.
Proof.
  intros HL. destruct (lt_dec i (length x)) as [Hi|Hi].
  - unfold vlerp. rewrite nth_vadd by (unfold vscale; rewrite map_length; lia). now rewrite !nth_vscale.
  - rewrite !nth_overflow; try lia; [ring|]. rewrite vlerp_length; lia.
Qed.
Lemma vlerp_cons l a x b y : vlerp l (a :: x) (b :: y) = (l * a + (1 - l) * b) :: vlerp l x y.
Proof. reflexivity. Qed.
Lemma vlerp_nil l : vlerp l [] [] = [].
Proof. reflexivity. Qed.

Lemma list_ind2 {B} (P : list B -> list B -> Prop) :
  P [] [] -> (forall a x b y, length x = length y -> P x y -> P (a :: x) (b :: y)) ->
  forall x y, length x = length y -> P x y.
Proof.
  intros H0 HS x; induction x as [|a x IH]; intros [|b y] HL; simpl in HL; try lia; auto.
Qed.

Lemma in_box_lerp b x y l : in_box_R b x -> in_box_R b y -> 0 <= l <= 1 -> in_box_R b (vlerp l x y).
Proof.
  intros [Lx Hx] [Ly Hy] Hl. split; [rewrite vlerp_length; lia|]. intros i Hi.
  rewrite nth_vlerp by lia. specialize (Hx i Hi). specialize (Hy i Hi). nra.
Qed.

(* ---- linear forms ---- *)
Lemma dot_vlerp l x y p : length x = length y -> dot (vlerp l x y) p = l * dot x p + (1 - l) * dot y p.
Proof.
  intros HL. revert p. pattern x, y. apply list_ind2; auto; clear.
  - intros p. rewrite vlerp_nil. unfold dot; simpl. ring.
  - intros a x b y HL IH [|c p]; rewrite vlerp_cons.
    + unfold dot; simpl. ring.
    + rewrite !dot_cons, IH. ring.
Qed.
Lemma vsum_vlerp l x y : length x = length y -> vsum (vlerp l x y) = l * vsum x + (1 - l) * vsum y.
Proof.
  intros HL. pattern x, y. apply list_ind2; auto; clear.
  - rewrite vlerp_nil. simpl. ring.
  - intros a x b y HL IH. rewrite vlerp_cons, !vsum_cons, IH. ring.
Qed.

(* ---- closure ---- *)
Lemma convex_plus (B : list R -> Prop) F G : convex_on B F -> convex_on B G -> convex_on B (fun x => F x + G x).
Proof. intros HF HG x y l Bx By Hl. specialize (HF x y l Bx By Hl). specialize (HG x y l Bx By Hl). lra. Qed.
Lemma convex_scal (B : list R -> Prop) c F : 0 <= c -> convex_on B F -> convex_on B (fun x => c * F x).
Proof. intros Hc HF x y l Bx By Hl. specialize (HF x y l Bx By Hl). nra. Qed.
Lemma convex_ext (B : list R -> Prop) F G : (forall x, B x -> F x = G x) -> (forall x y l, B x -> B y -> 0 <= l <= 1 -> B (vlerp l x y)) ->
  convex_on B F -> convex_on B G.
Proof.
  intros E HB HF x y l Bx By Hl. rewrite <- !E by auto. apply HF; auto.
Qed.
Lemma convex_weaken (B B' : list R -> Prop) F : (forall x, B' x -> B x) -> convex_on B F -> convex_on B' F.
Proof. intros HBB HF x y l Bx By Hl. apply HF; auto. Qed.
Lemma convex_affine_dot (B : list R -> Prop) p : (forall x y, B x -> B y -> length x = length y) -> convex_on B (fun x => dot x p).
Proof. intros HL x y l Bx By Hl. rewrite dot_vlerp by (apply HL; auto). lra. Qed.
Lemma convex_const (B : list R -> Prop) c : convex_on B (fun _ => c).
Proof. intros x y l _ _ _. lra. Qed.

(* ---- separable sums over a box ---- *)
Lemma sepsum_convex_aux (phi : nat -> R -> R) (b : list (R * R)) l : 0 <= l <= 1 ->
  forall x y, length x = length y -> forall s,
  (forall i, (i < length x)%nat -> lo b (s + i) <= nth i x 0 <= hi b (s + i) /\ lo b (s + i) <= nth i y 0 <= hi b (s + i)) ->
  (forall i, sconvex_on (lo b i) (hi b i) (phi i)) ->
  vsum (map (fun '(i, v) => phi i v) (combine (seq s (length (vlerp l x y))) (vlerp l x y)))
  <= l * vsum (map (fun '(i, v) => phi i v) (combine (seq s (length x)) x))
     + (1 - l) * vsum (map (fun '(i, v) => phi i v) (combine (seq s (length y)) y)).
Proof.
  intros Hl x y HL. pattern x, y. apply list_ind2; auto; clear x y HL.
  - intros s _ _. simpl. lra.
  - intros a x c y HL IH s Hb Hphi. rewrite vlerp_cons. cbn [length seq combine map]. rewrite !vsum_cons.
    assert (H0 := Hb 0%nat ltac:(simpl; lia)). rewrite Nat.add_0_r in H0. cbn [nth] in H0.
    assert (Hc := Hphi s a c l ltac:(tauto) ltac:(tauto) Hl).
    specialize (IH (S s)). 
    assert (IH' : forall i, (i < length x)%nat ->
       lo b (S s + i) <= nth i x 0 <= hi b (S s + i) /\ lo b (S s + i) <= nth i y 0 <= hi b (S s + i)).
    { intros i Hi. specialize (Hb (S i) ltac:(simpl; lia)). cbn [nth] in Hb. replace (S s + i)%nat with (s + S i)%nat by lia. exact Hb. }
    specialize (IH IH' Hphi). lra.
Qed.

Lemma convex_sepsum (phi : nat -> R -> R) (b : list (R * R)) :
  (forall i, sconvex_on (lo b i) (hi b i) (phi i)) ->
  convex_on (in_box_R b) (fun x => vsum (map (fun '(i, v) => phi i v) (idx x))).
Proof.
  intros Hphi x y l [Lx Hx] [Ly Hy] Hl. unfold idx.
  apply (sepsum_convex_aux phi b l Hl x y ltac:(lia) 0%nat); auto.
  intros i Hi. simpl. split; [apply Hx|apply Hy]; lia.
Qed.

(* ---- composition with a map that is affine on the region ---- *)
Definition affine_on (B : list R -> Prop) (U : list R -> list R) : Prop :=
  forall x y l, B x -> B y -> 0 <= l <= 1 -> U (vlerp l x y) = vlerp l (U x) (U y) /\ length (U x) = length (U y).

Lemma convex_comp_affine (B B' : list R -> Prop) (U : list R -> list R) (F : list R -> R) :
  affine_on B U -> (forall x, B x -> B' (U x)) -> convex_on B' F -> convex_on B (fun x => F (U x)).
Proof.
  intros HU HB HF x y l Bx By Hl. destruct (HU x y l Bx By Hl) as [E _]. rewrite E. apply HF; auto.
Qed.

(* ---- scalar kernels ---- *)
Lemma sconvex_quadratic (A B C lo hi : R) : 0 <= A -> sconvex_on lo hi (fun t => A * t * t + B * t + C).
Proof.
  intros HA u v l _ _ Hl.
  assert (H : l * (A * u * u + B * u + C) + (1 - l) * (A * v * v + B * v + C)
              - (A * (l * u + (1 - l) * v) * (l * u + (1 - l) * v) + B * (l * u + (1 - l) * v) + C)
              = A * (l * (1 - l) * ((u - v) * (u - v)))) by ring.
  assert (0 <= A * (l * (1 - l) * ((u - v) * (u - v)))).
  { apply Rmult_le_pos; auto. apply Rmult_le_pos; [apply Rmult_le_pos; lra|apply Rle_0_sqr]. }
  lra.
Qed.

Lemma pow_mono_nonneg (u v : R) k : 0 <= v <= u -> v ^ k <= u ^ k.
Proof. intros H. apply pow_incr. lra. Qed.

Lemma pow_convex_nonneg (u v l : R) k : 0 <= u -> 0 <= v -> 0 <= l <= 1 ->
  (l * u + (1 - l) * v) ^ k <= l * u ^ k + (1 - l) * v ^ k.
Proof.
  intros Hu Hv Hl. induction k as [|k IH]; [simpl; lra|].
  assert (Hm : 0 <= l * u + (1 - l) * v) by nra.
  assert (H1 : (l * u + (1 - l) * v) ^ S k <= (l * u + (1 - l) * v) * (l * u ^ k + (1 - l) * v ^ k)).
  { simpl. apply Rmult_le_compat_l; auto. }
  assert (Huk : 0 <= u ^ k) by (apply pow_le; auto). assert (Hvk : 0 <= v ^ k) by (apply pow_le; auto).
  assert (H2 : 0 <= (u - v) * (u ^ k - v ^ k)).
  { destruct (Rle_dec v u) as [Hle|Hgt].
    - assert (v ^ k <= u ^ k) by (apply pow_mono_nonneg; lra). nra.
    - assert (u ^ k <= v ^ k) by (apply pow_mono_nonneg; lra). nra. }
  simpl. simpl in H1. set (U := u ^ k) in *. set (V := v ^ k) in *. set (MK := (l * u + (1 - l) * v) ^ k) in *.
  assert (Id : (l * u + (1 - l) * v) * (l * U + (1 - l) * V) = l * (u * U) + (1 - l) * (v * V) - l * (1 - l) * ((u - v) * (U - V))) by ring.
  assert (0 <= l * (1 - l) * ((u - v) * (U - V))) by (apply Rmult_le_pos; [apply Rmult_le_pos; lra|exact H2]).
  lra.
Qed.

Lemma sconvex_hl pl ph xl xh lo hi : pl <= ph -> xl <= xh -> sconvex_on lo hi (fun t => hl_cost (A:=R) t pl ph xl xh).
Proof.
  intros Hp Hx. unfold hl_cost, horner. numR. cbn [fold_left]. numR.
  destruct (Reqb xl xh) eqn:E; [intros u v l _ _ _; lra|]. apply Reqb_false in E.
  assert (Hpos : 0 < xh - xl) by lra.
  set (c := if negb (Reqb ((ph - pl) / 2) 0) then (ph - pl) / 2 * Rpw (- pl / (2 * ((ph - pl) / 2))) 2 + pl * (- pl / (2 * ((ph - pl) / 2))) else 0).
  intros u v l Hu Hv Hl.
  assert (Q : forall t, (xh - xl) * (((0 * ((t - xl) / (xh - xl)) + (ph - pl) / 2) * ((t - xl) / (xh - xl)) + pl) * ((t - xl) / (xh - xl)) + 0) - c * (xh - xl)
              = ((ph - pl) / (2 * (xh - xl))) * (t - xl) * (t - xl) + pl * (t - xl) - c * (xh - xl)).
  { intros t. field. lra. }
  rewrite !Q.
  assert (HA : 0 <= (ph - pl) / (2 * (xh - xl))).
  { apply Rmult_le_pos; [lra|]. left. apply Rinv_0_lt_compat. lra. }
  set (A := (ph - pl) / (2 * (xh - xl))) in *. set (K := c * (xh - xl)).
  assert (Qd : forall t, A * (t - xl) * (t - xl) + pl * (t - xl) - K
                       = A * t * t + (pl - 2 * A * xl) * t + (A * xl * xl - pl * xl - K)) by (intros; ring).
  rewrite !Qd. apply (sconvex_quadratic A _ _ lo hi HA u v l); auto.
Qed.

(* c * q(x)^k with q affine and non-negative on [xl,xh] (0 <= a), c >= 0, natural k *)
Lemma abc_q_nonneg x a xl xh : xl < xh -> 0 <= a -> xl <= x <= xh -> 0 <= abc_q (A:=R) x xl xh a.
Proof.
  intros Hx Ha Hin. rewrite abc_q_affine by lra.
  assert (0 <= (x - xl) / (xh - xl) <= 1).
  { split; [apply Rmult_le_pos; [lra|left; apply Rinv_0_lt_compat; lra]|].
    apply (Rmult_le_reg_r (xh - xl)); [lra|]. unfold Rdiv. rewrite Rmult_assoc, Rinv_l by lra. lra. }
  nra.
Qed.
Lemma abc_q_lerp u v l a xl xh : xl <> xh ->
  abc_q (A:=R) (l * u + (1 - l) * v) xl xh a = l * abc_q (A:=R) u xl xh a + (1 - l) * abc_q (A:=R) v xl xh a.
Proof. intros Hne. rewrite !abc_q_affine by auto. field. lra. Qed.

Lemma sconvex_abc a k c xl xh : 0 <= a -> 0 <= c -> xl <= xh ->
  sconvex_on xl xh (fun t => abc_cost (A:=R) t a (Rnat k) c xl xh).
Proof.
  intros Ha Hc Hx. destruct (Req_EM_T xl xh) as [->|Hne].
  - intros u v l _ _ _. destruct (abc_zero_width u a (Rnat k) c xh) as [-> _].
    destruct (abc_zero_width v a (Rnat k) c xh) as [-> _].
    destruct (abc_zero_width (l * u + (1 - l) * v) a (Rnat k) c xh) as [-> _]. lra.
  - intros u v l Hu Hv Hl. rewrite !abc_cost_form by auto. rewrite abc_q_lerp by auto.
    assert (Hqu := abc_q_nonneg u a xl xh ltac:(lra) Ha Hu).
    assert (Hqv := abc_q_nonneg v a xl xh ltac:(lra) Ha Hv).
    pose proof (pow_convex_nonneg _ _ l k Hqu Hqv Hl) as Hp.
    apply (Rmult_le_compat_l c) in Hp; auto.
    set (U := abc_q (A:=R) u xl xh a ^ k) in *. set (V := abc_q (A:=R) v xl xh a ^ k) in *.
    replace (c * (l * U + (1 - l) * V)) with (l * (c * U) + (1 - l) * (c * V)) in Hp by ring. exact Hp.
Qed.

Lemma nmin_Rmin_gen x y : nmin (A:=R) x y = Rmin x y.
Proof. unfold nmin, Rmin. numR. unfold Rleb. destruct (Rle_dec x y); reflexivity. Qed.

(* min(u - D, 0)^2 *)
Lemma sconvex_msq D lo hi : sconvex_on lo hi (fun u => nsq (nmin (A:=R) (u - D) 0)).
Proof.
  intros u v l _ _ Hl. unfold nsq. rewrite !nmin_Rmin_gen. numR.
  replace (l * u + (1 - l) * v - D) with (l * (u - D) + (1 - l) * (v - D)) by ring.
  set (a := u - D). set (b := v - D).
  set (a' := Rmin a 0). set (b' := Rmin b 0).
  assert (Ha1 : a' <= a) by apply Rmin_l. assert (Ha2 : a' <= 0) by apply Rmin_r.
  assert (Hb1 : b' <= b) by apply Rmin_l. assert (Hb2 : b' <= 0) by apply Rmin_r.
  set (m' := l * a' + (1 - l) * b').
  assert (Hm1 : m' <= l * a + (1 - l) * b) by (unfold m'; nra).
  assert (Hm2 : m' <= 0) by (unfold m'; nra).
  set (mm := Rmin (l * a + (1 - l) * b) 0).
  assert (Hmm1 : m' <= mm) by (apply Rmin_glb; auto).
  assert (Hmm2 : mm <= 0) by apply Rmin_r.
  assert (S1 : mm * mm <= m' * m').
  { assert (0 <= (mm - m') * (- mm - m')) by (apply Rmult_le_pos; lra). nra. }
  assert (S2 : m' * m' <= l * (a' * a') + (1 - l) * (b' * b')).
  { pose proof (sconvex_quadratic 1 0 0 0 0 ltac:(lra) a' b' l) as Q. unfold m'.
    assert (G : 1 * (l * a' + (1 - l) * b') * (l * a' + (1 - l) * b') + 0 * (l * a' + (1 - l) * b') + 0
             <= l * (1 * a' * a' + 0 * a' + 0) + (1 - l) * (1 * b' * b' + 0 * b' + 0)).
    { apply (sconvex_quadratic 1 0 0 (Rmin a' b') (Rmax a' b')); try lra.
      - split; [apply Rmin_l|apply Rmax_l]. - split; [apply Rmin_r|apply Rmax_r]. }
    lra. }
  lra.
Qed.

(* ---- separable sums of kernels that are convex on the whole line, over vectors of a fixed length ---- *)
Definition sconvex_all (f : R -> R) : Prop := forall u v l, 0 <= l <= 1 -> f (l * u + (1 - l) * v) <= l * f u + (1 - l) * f v.
Lemma sconvex_all_of f : (forall lo hi, sconvex_on lo hi f) -> sconvex_all f.
Proof.
  intros H u v l Hl. apply (H (Rmin u v) (Rmax u v)); auto; split; auto using Rmin_l, Rmin_r, Rmax_l, Rmax_r.
Qed.
Lemma sepsum_convex_all_aux (phi : nat -> R -> R) l : 0 <= l <= 1 -> (forall i, sconvex_all (phi i)) ->
  forall x y, length x = length y -> forall s,
  vsum (map (fun '(i, v) => phi i v) (combine (seq s (length (vlerp l x y))) (vlerp l x y)))
  <= l * vsum (map (fun '(i, v) => phi i v) (combine (seq s (length x)) x))
     + (1 - l) * vsum (map (fun '(i, v) => phi i v) (combine (seq s (length y)) y)).
Proof.
  intros Hl Hphi x y HL. pattern x, y. apply list_ind2; auto; clear x y HL.
  - intros s. simpl. lra.
  - intros a x c y HL IH s. rewrite vlerp_cons. cbn [length seq combine map]. rewrite !vsum_cons.
    pose proof (Hphi s a c l Hl). specialize (IH (S s)). lra.
Qed.
Lemma convex_sepsum_all (phi : nat -> R -> R) n : (forall i, sconvex_all (phi i)) ->
  convex_on (fun x => length x = n) (fun x => vsum (map (fun '(i, v) => phi i v) (idx x))).
Proof.
  intros Hphi x y l Lx Ly Hl. unfold idx. apply (sepsum_convex_all_aux phi l Hl Hphi x y ltac:(lia) 0%nat).
Qed.
