(* utils.zmm as regenerated in Gen/Utils.v, in the two uses the constraint Jacobians make of it, = the zero padding (zpad) and the one-column
   Jacobian (col_jac) of the tree model (used by C06; kept apart from Proofs/GenUtils.v).  Any carrier. *)
From Coq Require Import ZArith List Bool Arith Lia.
From DK Require Import Num Vec.
From DK.Model Require Import Leaf Fn Dev Tree NpOps.
From DK.Gen Require Import Utils.
From DK.Proofs Require Import TreeFacts.
Import ListNotations.

Section Zmm.
  Context {A : Type} `{Num A}.
  Notation len := List.length.

  Lemma concat_repeat_zeros R n : List.concat (repeat (repeat (n0 : A) n) R) = zeros (R * n).
  Proof.
    induction R as [|R IH]; [reflexivity|]. cbn [repeat List.concat]. rewrite IH. change (S R * n) with (n + R * n). rewrite zeros_app. reflexivity.
  Qed.
  Lemma firstn_repeat {B} (x : B) a R : a <= R -> firstn a (repeat x R) = repeat x a.
  Proof. revert R; induction a as [|a IH]; intros R Ha; [reflexivity|]. destruct R as [|R]; [lia|]. cbn. f_equal. apply IH. lia. Qed.
  Lemma skipn_repeat {B} (x : B) a R : skipn a (repeat x R) = repeat x (R - a).
  Proof. revert R; induction a as [|a IH]; intros R; [now rewrite Nat.sub_0_r|]. destruct R as [|R]; [reflexivity|]. cbn. apply IH. Qed.

  (* rows: the block returned by fn, reshaped to the block's shape, between zero rows *)
  Theorem gen_zmm_rows (R n o r : nat) (s : list A) (jf : list A -> list A) :
    0 < n -> o + r <= R -> len s = R * n -> 0 < R -> len (jf (sub_flat R n o r s)) = r * n ->
    List.concat (zmm_rows_gen (reshape R n s) o r (Some (fun blk => jf (List.concat blk)))) = zpad R n o r (jf (sub_flat R n o r s)).
  Proof.
    intros Hn Hor Hs HR Hj. unfold zmm_rows_gen. cbv zeta.
    assert (HL : len (reshape R n s) = R) by (unfold reshape; now apply chunk_length).
    assert (Hc : ncols (reshape R n s) = n).
    { unfold reshape. destruct R as [|R']; [lia|]. cbn [chunk]. destruct s as [|x s']; [simpl in Hs; lia|].
      cbn [ncols]. rewrite firstn_length. simpl len in *. lia. }
    rewrite HL, Hc.
    change (get_rows o r (reshape R n s)) with (rslice o r (reshape R n s)).
    change (List.concat (rslice o r (reshape R n s))) with (sub_flat R n o r s).
    set (J := jf (sub_flat R n o r s)) in *.
    assert (Hg : len (rslice o r (reshape R n s)) = r) by (apply rslice_length; lia).
    rewrite Hg.
    destruct r as [|r'].
    - (* an empty range of rows *)
      assert (J = []) by (destruct J; [reflexivity|simpl in Hj; lia]).
      unfold set_rows, zpad, mconst. rewrite H0. unfold reshape at 1. cbn [chunk len app].
      rewrite Nat.add_0_r, firstn_skipn, concat_repeat_zeros. rewrite <- zeros_app. f_equal. nia.
    - assert (Hnc : ncols (rslice o (S r') (reshape R n s)) = n).
      { unfold rslice, reshape. rewrite skipn_chunk by lia.
        remember (R - o) as R2. destruct R2 as [|R2]; [lia|]. cbn [chunk].
        assert (Hsk : len (skipn (o * n) s) = (S R2) * n) by (rewrite skipn_length; nia).
        destruct (skipn (o * n) s) as [|x t] eqn:E; [simpl in Hsk; nia|]. cbn [firstn ncols]. rewrite firstn_length. simpl len in *. nia. }
      rewrite Hnc. unfold set_rows, zpad, mconst.
      assert (HB : len (reshape (S r') n J) = S r') by (unfold reshape; apply chunk_length; [exact Hj|exact Hn]).
      rewrite HB, !concat_app.
      rewrite firstn_repeat by lia. rewrite skipn_repeat. rewrite !concat_repeat_zeros.
      unfold reshape. rewrite concat_chunk by lia. f_equal. f_equal. f_equal. lia.
  Qed.

  (* one column: the vector returned by fn in column i, zeros elsewhere *)
  Lemma map_const_zero (f : nat -> A) : (forall j, f j = n0) -> forall a n, map f (seq a n) = repeat n0 n.
  Proof. intros Hf a n. revert a. induction n as [|n IH]; intros a; [reflexivity|]. cbn [seq map repeat]. now rewrite Hf, IH. Qed.
  Lemma upd_zeros_nth n i (v : A) : i < n -> upd (repeat n0 n) i v = map (fun j => if Nat.eqb j i then v else n0) (seq 0 n).
  Proof.
    revert i. induction n as [|n IH]; intros i Hi; [lia|].
    destruct i as [|i]; cbn [repeat upd seq map Nat.eqb].
    - f_equal. rewrite <- seq_shift, map_map. symmetry. apply map_const_zero. intros j. reflexivity.
    - f_equal. rewrite IH by lia. rewrite <- seq_shift, map_map. reflexivity.
  Qed.

  Theorem gen_zmm_col (R n i : nat) (s v : list A) : 0 < n -> i < n -> len s = R * n -> 0 < R ->
    List.concat (zmm_col_gen (reshape R n s) i (Some (fun _ => v))) = col_jac R n i v.
  Proof.
    intros Hn Hi Hs HR. unfold zmm_col_gen, col_jac. cbv zeta.
    assert (HL : len (reshape R n s) = R) by (unfold reshape; now apply chunk_length).
    assert (Hc : ncols (reshape R n s) = n).
    { unfold reshape. destruct R as [|R']; [lia|]. cbn [chunk]. destruct s as [|x s']; [simpl in Hs; lia|].
      cbn [ncols]. rewrite firstn_length. simpl len in *. lia. }
    rewrite HL, Hc. f_equal. unfold set_col, mconst. rewrite repeat_length.
    clear HL Hc Hs HR s. generalize 0 at 1 3. induction R as [|R IH]; intros k; [reflexivity|].
    cbn [repeat seq combine map fst snd]. f_equal; [apply upd_zeros_nth; exact Hi|apply IH].
  Qed.
End Zmm.
