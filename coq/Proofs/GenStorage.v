(* SDevice marginal cost: the definitions regenerated from device_kit/sdevice.py (Gen/Storage.v, translator/sdevice_tx.py: the
   accumulation loop of deep_damage_at_deriv, the np.hstack shifts of the flip-flop term) equal the model marginal cost sdev_deriv
   that C01_sdevice proves to be the gradient, for every horizon length. *)
From Coq Require Import ZArith Reals List Bool Arith Lia Lra.
From DK Require Import Num NumR Vec.
From DK.Gen Require Import Kernels Classes Storage.
From DK.Model Require Import Leaf.
From DK.Proofs Require Import VecFacts RVec VecAlg C01Proofs GenClasses.
Import ListNotations.
Local Open Scope R_scope.

Lemma nth_vmul (a b : list R) k : (k < length a)%nat -> (k < length b)%nat -> nth k (vmul a b) 0 = nth k a 0 * nth k b 0.
Proof.
  revert b k. induction a as [|x a IH]; intros [|y b] k Ha Hb; cbn in *; try lia. destruct k as [|k]; [reflexivity|]. apply IH; lia.
Qed.
Lemma vadd_len (a b : list R) n : length a = n -> length b = n -> length (vadd a b) = n.
Proof. intros Ha Hb. unfold vadd. rewrite VecFacts.map2_length, Ha, Hb. lia. Qed.
Lemma vmul_len (a b : list R) n : length a = n -> length b = n -> length (vmul a b) = n.
Proof. intros Ha Hb. unfold vmul. rewrite VecFacts.map2_length, Ha, Hb. lia. Qed.
Lemma nth_zeros' n k : nth k (zeros (A:=R) n) 0 = 0.
Proof. unfold zeros, vconst. revert k. induction n as [|n IH]; intros [|k]; cbn; auto. Qed.

(* the accumulation loop: d += c[i] * M[i] * E for i = 0 .. m-1, entry k *)
Lemma acc_loop (n : nat) (c : list R) (M : nat -> list R) (E : list R) : (forall i, length (M i) = n) -> length E = n ->
  forall m k, (k < n)%nat ->
  let step := fun (d : list R) (i : nat) => vadd d (vmul (map (fun x => nth i c 0 * x) (M i)) E) in
  length (fold_left step (seq 0 m) (zeros n)) = n /\
  nth k (fold_left step (seq 0 m) (zeros n)) 0 = vsum (map (fun i => nth i c 0 * nth k (M i) 0 * nth k E 0) (seq 0 m)).
Proof.
  intros HM HE m k Hk step. induction m as [|m [IHl IHv]].
  - cbn [seq fold_left map]. split; [unfold zeros, vconst; apply repeat_length | rewrite nth_zeros'; reflexivity].
  - rewrite seq_S, fold_left_app, map_app. cbn [fold_left map Nat.add]. rewrite vsum_app, vsum_cons, vsum_nil.
    assert (Hs : length (vmul (map (fun x => nth m c 0 * x) (M m)) E) = n).
    { apply vmul_len; [|exact HE]. rewrite map_length. apply HM. }
    split; [unfold step at 1; apply vadd_len; auto|]. unfold step at 1.
    rewrite nth_vadd by lia. rewrite IHv. rewrite nth_vmul by (rewrite ?map_length, ?HM, ?HE; lia).
    rewrite (nth_indep (map (fun x => nth m c 0 * x) (M m)) 0 (nth m c 0 * 0)) by (rewrite map_length, HM; lia). rewrite (map_nth (fun x => nth m c 0 * x)). ring.
Qed.

Lemma acc_loop_len (n : nat) (c : list R) (M : nat -> list R) (E : list R) : (forall i, length (M i) = n) -> length E = n ->
  forall m, length (fold_left (fun (d : list R) (i : nat) => vadd d (vmul (map (fun x => nth i c 0 * x) (M i)) E)) (seq 0 m) (zeros n)) = n.
Proof.
  intros HM HE m. induction m as [|m IH]; [unfold zeros, vconst; apply repeat_length|].
  rewrite seq_S, fold_left_app. cbn [fold_left Nat.add]. apply vadd_len; [exact IH|]. apply vmul_len; [rewrite map_length; apply HM | exact HE].
Qed.

Lemma combine_seq_sum (F : nat -> R -> R) (l : list R) s :
  vsum (map (fun '(i, m) => F i m) (combine (seq s (length l)) l)) = vsum (map (fun i => F i (nth (i - s) l 0)) (seq s (length l))).
Proof.
  revert s. induction l as [|x l IH]; intros s; [reflexivity|]. cbn [length seq combine map]. rewrite !vsum_cons. rewrite Nat.sub_diag. cbn [nth].
  f_equal. rewrite IH. apply vsum_map_ext. intros i Hi. apply in_seq in Hi. replace (i - s)%nat with (S (i - S s)) by lia. reflexivity.
Qed.
Lemma nth_tl_app0 (r : list R) k : nth k (tl r ++ [0]) 0 = nth (S k) r 0.
Proof.
  destruct r as [|x r]; [destruct k as [|[|k]]; reflexivity|]. cbn [tl nth]. destruct (Nat.lt_ge_cases k (length r)).
  - now rewrite app_nth1.
  - rewrite app_nth2 by lia. rewrite (nth_overflow r) by lia. destruct (k - length r)%nat as [|[|j]]; reflexivity.
Qed.
Lemma nth_removelast (r : list R) k : (S k < length r)%nat -> nth k (removelast r) 0 = nth k r 0.
Proof.
  revert k. induction r as [|x r IH]; intros k Hk; [cbn in Hk; lia|]. destruct r as [|y r]; [cbn in Hk; lia|].
  change (removelast (x :: y :: r)) with (x :: removelast (y :: r)). destruct k as [|k]; [reflexivity|]. cbn [nth]. apply IH. cbn in *. lia.
Qed.

Lemma removelast_len (r : list R) : length (removelast r) = (length r - 1)%nat.
Proof.
  induction r as [|x r IH]; [reflexivity|]. destruct r as [|y r]; [reflexivity|].
  change (removelast (x :: y :: r)) with (x :: removelast (y :: r)). cbn [length]. rewrite IH. cbn [length]. lia.
Qed.
Lemma shifts_len (r : list R) : (0 < length r)%nat -> length (vadd (tl r ++ [n0]) (n0 :: removelast r)) = length r.
Proof.
  intros Hr. unfold vadd. rewrite VecFacts.map2_length, app_length. cbn [length]. rewrite removelast_len. destruct r as [|x r]; cbn [tl length] in *; lia.
Qed.

Section Storage.
  Variables (n : nat) (c1 c2 c3 cap dep st e su : R).
  Notation q := (sq_of c1 c2 c3 cap dep st e su).

  Lemma sust_matrix_row i : (i < n)%nat -> nth i (sust_matrix su n) [] = sust_row su n i.
  Proof.
    intros Hi. unfold sust_matrix. rewrite (nth_indep _ [] (sust_row su n 0)) by (now rewrite map_length, seq_length).
    rewrite (map_nth (sust_row su n)). now rewrite seq_nth.
  Qed.
  Lemma sust_row_len i : length (sust_row su n i) = n.
  Proof. unfold sust_row. now rewrite map_length, seq_length. Qed.

  Theorem gen_sdevice_deriv s p : length s = n -> length p = n ->
    SDevice_deriv (A:=R) n c1 c2 c3 cap dep st e su s p = sdev_deriv q s p.
  Proof.
    intros Hs Hp. first [reflexivity | unfold SDevice_deriv, SDevice_charge_costs_deriv, SDevice_deep_damage_at_deriv]. cbv zeta.
    destruct (Nat.eq_dec n 0) as [Hn0 | Hn0].
    { subst n. destruct s; [|discriminate]. destruct p; [|discriminate]. reflexivity. }
    assert (Hspos : (0 < length s)%nat) by lia.
    rewrite gen_sdevice_charge_at by exact Hs.
    change (map2 (fun x y => (x + y)%num)) with (vadd (A:=R)). change (map2 (fun x y => (x * y)%num)) with (vmul (A:=R)).
    set (sh := map (fun x => nmin x n0) (map (fun x => (x - cap * dep)%num) (sdev_charge q s))).
    assert (Esh : sh = sdev_short q s) by (unfold sh, sdev_short; rewrite map_map; reflexivity).
    assert (Lsh : length sh = n) by (unfold sh; rewrite !map_length, sdev_charge_length; exact Hs).
    set (c := map (fun x => (c3 * nofZ 2 * x)%num) sh).
    assert (Lc : length c = n) by (unfold c; now rewrite map_length).
    set (E := map (effof e) s). assert (LE : length E = n) by (unfold E; now rewrite map_length).
    (* rows of the stashed matrix, read through a total function so that the loop lemma applies *)
    set (M := fun i => if (i <? n)%nat then nth i (sust_matrix su n) [] else repeat 0 n).
    assert (HM : forall i, length (M i) = n).
    { intros i. unfold M. destruct (Nat.ltb_spec i n); [rewrite sust_matrix_row by lia; apply sust_row_len | apply repeat_length]. }
    assert (Hfold : fold_left (fun (d : list R) (i : nat) => vadd d (vmul (map (fun x => (nth i c n0 * x)%num) (nth i (sust_matrix su n) [])) E)) (seq 0 (length c)) (zeros (length s))
                  = fold_left (fun (d : list R) (i : nat) => vadd d (vmul (map (fun x => nth i c 0 * x) (M i)) E)) (seq 0 n) (zeros n)).
    { rewrite Lc, Hs. generalize (zeros (A:=R) n). assert (Hin : forall i, In i (seq 0 n) -> (i < n)%nat) by (intros i Hi; apply in_seq in Hi; lia).
      revert Hin. generalize (seq 0 n). induction l as [|i l IH]; intros Hin d0; [reflexivity|]. cbn [fold_left].
      assert (HMi : M i = nth i (sust_matrix su n) []).
      { unfold M. assert (Hi : (i <? n)%nat = true) by (apply Nat.ltb_lt; apply Hin; now left). now rewrite Hi. }
      rewrite HMi. apply IH. intros j Hj. apply Hin. now right. }
    rewrite Hfold. clear Hfold.
    apply list_eq_nth.
    - unfold sdev_deriv. rewrite map_idx_length, Hs.
      pose proof (acc_loop_len n c M E HM LE n) as Ll.
      apply vadd_len; [|exact Hp]. apply vadd_len; [|exact Ll]. apply vadd_len; rewrite map_length; [exact Hs|]. now rewrite shifts_len by exact Hspos.
    - intros k Hk.
      assert (Hkn : (k < n)%nat).
      { destruct (Nat.lt_ge_cases k n); [assumption|]. exfalso. revert Hk. unfold vadd at 1. rewrite VecFacts.map2_length, Hp. lia. }
      destruct (acc_loop n c M E HM LE n k Hkn) as [Ll Lv]. cbv zeta in Ll, Lv.
      assert (L12 : length (vadd (map (fun x => (c1 * nofZ 2 * x)%num) s) (map (fun x => (c2 * - nofZ 1 * x)%num) (vadd (tl s ++ [n0]) (n0 :: removelast s)))) = n).
      { apply vadd_len; rewrite map_length; [exact Hs|]. now rewrite shifts_len by exact Hspos. }
      rewrite nth_vadd; [| rewrite (vadd_len _ _ n L12 Ll); lia | lia].
      rewrite nth_vadd; [| lia | lia]. rewrite Lv.
      rewrite nth_vadd; [| rewrite map_length; lia | rewrite map_length, shifts_len by exact Hspos; lia].
      unfold sdev_deriv. rewrite (nth_map_idx (fun k0 x => (n2 * sp_c1 q * x - sp_c2 q * nbr s k0
             + vsum (map (fun '(i, m) => n2 * sp_c3 q * m * nth k0 (sust_row (sp_sus q) (length s) i) n0 * effof (sp_eff q) x) (idx (sdev_short q s))) + nth k0 p n0)%num)) by lia.
      rewrite (nth_indep _ 0 ((c1 * nofZ 2 * 0)%num)) by (rewrite map_length; lia). rewrite (map_nth (fun x => (c1 * nofZ 2 * x)%num)).
      rewrite (nth_indep (map _ (vadd _ _)) 0 ((c2 * - nofZ 1 * 0)%num)).
      2:{ rewrite map_length, shifts_len by exact Hspos. lia. }
      rewrite (map_nth (fun x => (c2 * - nofZ 1 * x)%num)).
      rewrite nth_vadd.
      2:{ rewrite app_length. cbn [length]. destruct s as [|x s']; cbn [tl length] in *; lia. }
      2:{ cbn [length]. rewrite removelast_len. lia. }
      rewrite nth_tl_app0. unfold idx. rewrite <- Esh. rewrite <- Lsh at 1. rewrite (combine_seq_sum (fun i m => (n2 * sp_c3 q * m * nth k (sust_row (sp_sus q) (length s) i) n0 * effof (sp_eff q) (nth k s 0))%num) sh 0).
      rewrite Lsh. cbn [sp_c1 sp_c2 sp_c3 sp_sus sp_eff sq_of].
      assert (Hsum : vsum (map (fun i => nth i c 0 * nth k (M i) 0 * nth k E 0) (seq 0 n)) =
                     vsum (map (fun i => (n2 * c3 * nth (i - 0) sh 0 * nth k (sust_row su (length s) i) n0 * effof e (nth k s 0))%num) (seq 0 n))).
      { apply vsum_map_ext. intros i Hi. apply in_seq in Hi. unfold M. assert (Hi' : (i <? n)%nat = true) by (apply Nat.ltb_lt; lia). rewrite Hi'.
        rewrite sust_matrix_row by lia. rewrite Hs. unfold c, E. rewrite Nat.sub_0_r.
        rewrite (nth_indep (map _ sh) 0 ((c3 * nofZ 2 * 0)%num)) by (rewrite map_length; lia). rewrite (map_nth (fun x => (c3 * nofZ 2 * x)%num)).
        rewrite (nth_indep (map _ s) 0 (effof e 0)) by (rewrite map_length; lia). rewrite (map_nth (effof e)). numR. cbn. ring. }
      rewrite Hsum. unfold nbr. numR. cbn [nofZ NumR n0 n1 nopp nmul nadd nsub].
      destruct k as [|k']; cbn [nth].
      + ring.
      + rewrite nth_removelast by lia. ring.
  Qed.
End Storage.
