(* Carrier-polymorphic list facts about the plumbing of Model/Tree.v: row slices, reshape (chunk) vs flat slices,
   sub_flat. No Reals. Shared by C02, C04, C06, C13, C17. *)
From Coq Require Import ZArith List Bool Arith Lia.
From DK Require Import Num Vec.
From DK.Model Require Import Leaf Fn Dev Tree.
Import ListNotations.

(* ---- firstn / skipn / row slices ---------------------------------------------------------------------- *)
Lemma firstn_firstn_le {B} (l : list B) a b : a <= b -> firstn a (firstn b l) = firstn a l.
Proof. intros. rewrite firstn_firstn. f_equal. lia. Qed.

Lemma skipn_skipn_add {B} (l : list B) a b : skipn a (skipn b l) = skipn (b + a) l.
Proof. revert l; induction b as [|b IH]; intros l; simpl; [reflexivity|]. destruct l; [now rewrite skipn_nil|]. apply IH. Qed.

Lemma firstn_plus {B} (l : list B) a b : firstn (a + b) l = firstn a l ++ firstn b (skipn a l).
Proof.
  revert l; induction a as [|a IH]; intros l; simpl; [reflexivity|].
  destruct l; simpl; [now rewrite firstn_nil|]. now rewrite IH.
Qed.

Lemma rslice_rslice {B} (S : list B) o r o' r' : o' + r' <= r ->
  rslice o' r' (rslice o r S) = rslice (o + o') r' S.
Proof.
  intros Hle. unfold rslice. rewrite skipn_firstn_comm, firstn_firstn_le by lia.
  now rewrite skipn_skipn_add.
Qed.

Lemma rslice_all {B} (S : list B) : rslice 0 (List.length S) S = S.
Proof. unfold rslice. simpl. apply firstn_all. Qed.

Lemma rslice_length {B} (S : list B) o r : o + r <= List.length S -> List.length (rslice o r S) = r.
Proof. intros. unfold rslice. rewrite firstn_length, skipn_length. lia. Qed.

Lemma rslice_repeat {B} (x : B) R o r : o + r <= R -> rslice o r (repeat x R) = repeat x r.
Proof.
  intros Hle. unfold rslice. replace R with (o + (R - o)) by lia. rewrite repeat_app.
  rewrite skipn_app, repeat_length, Nat.sub_diag. rewrite skipn_all2 by (rewrite repeat_length; lia).
  simpl. replace (R - o) with (r + (R - o - r)) by lia. rewrite repeat_app.
  rewrite firstn_app, repeat_length, Nat.sub_diag. simpl. rewrite app_nil_r.
  rewrite firstn_all2 by (rewrite repeat_length; lia). reflexivity.
Qed.

(* ---- reshape (chunk) and flat slices ---------------------------------------------------------------------- *)
Lemma chunk_nil {B} f n : chunk (B:=B) f n [] = [].
Proof. destruct f; reflexivity. Qed.

Lemma skipn_chunk {B} (s : list B) R n o : o <= R -> skipn o (chunk R n s) = chunk (R - o) n (skipn (o * n) s).
Proof.
  revert R s; induction o as [|o IH]; intros R s Hle; simpl.
  - now rewrite Nat.sub_0_r.
  - destruct R as [|R]; [lia|]. simpl. destruct s as [|x s].
    + rewrite skipn_nil. now rewrite chunk_nil.
    + rewrite IH by lia. now rewrite skipn_skipn_add.
Qed.

Lemma concat_firstn_chunk {B} (t : list B) R n r : r <= R -> List.concat (firstn r (chunk R n t)) = firstn (r * n) t.
Proof.
  revert R t; induction r as [|r IH]; intros R t Hle; simpl; [reflexivity|].
  destruct R as [|R]; [lia|]. simpl. destruct t as [|x t].
  - simpl. now rewrite firstn_nil.
  - cbn [firstn List.concat]. rewrite IH by lia. now rewrite <- firstn_plus.
Qed.

Lemma concat_chunk {B} (t : list B) R n : List.length t <= R * n -> List.concat (chunk R n t) = t.
Proof.
  intros Hl. rewrite <- (firstn_all2 (n:=R) (chunk R n t)).
  - rewrite concat_firstn_chunk by lia. now apply firstn_all2.
  - clear Hl. revert t; induction R as [|R IH]; intros t; simpl; [lia|]. destruct t; simpl; [lia|]. specialize (IH (skipn n (b :: t))). lia.
Qed.

Lemma chunk_concat {B} (M : list (list B)) n : 0 < n -> List.Forall (fun row => List.length row = n) M ->
  chunk (List.length M) n (List.concat M) = M.
Proof.
  intros Hn HF. induction HF as [|row M Hrow HF IH]; simpl; [reflexivity|].
  destruct (row ++ List.concat M) eqn:E.
  - destruct row; simpl in *; [lia|discriminate].
  - rewrite <- E. rewrite firstn_app, Hrow, Nat.sub_diag. simpl. rewrite app_nil_r.
    rewrite firstn_all2 by lia. rewrite skipn_app, Hrow, Nat.sub_diag. simpl.
    rewrite skipn_all2 by lia. simpl. now rewrite IH.
Qed.

Section Sub.
  Context {A : Type} `{Num A}.
  Lemma sub_flat_flat R n o r (s : list A) : o + r <= R -> sub_flat R n o r s = firstn (r * n) (skipn (o * n) s).
  Proof.
    intros Hle. unfold sub_flat, rslice, reshape. rewrite skipn_chunk by lia. apply concat_firstn_chunk. lia.
  Qed.
End Sub.


Section Pad.
  Context {A : Type} `{Num A}.
  Lemma zeros_length n : List.length (zeros (A:=A) n) = n.
  Proof. apply repeat_length. Qed.
  Lemma zeros_app (a b : nat) : zeros (A:=A) (a + b) = zeros a ++ zeros b.
  Proof. unfold zeros, vconst. apply repeat_app. Qed.
  Lemma zpad_length R n o r (j : list A) : o + r <= R -> List.length j = r * n -> List.length (zpad R n o r j) = R * n.
  Proof. intros Hle Hj. unfold zpad. rewrite !app_length, !zeros_length, Hj. nia. Qed.
  Lemma chunk_length {B} (s : list B) R n : List.length s = R * n -> 0 < n -> List.length (chunk R n s) = R.
  Proof.
    revert s; induction R as [|R IH]; intros s Hl Hn; [reflexivity|].
    rewrite Nat.mul_succ_l in Hl. destruct s as [|x s]; [simpl in Hl; lia|].
    cbn [chunk]. cbn [List.length]. rewrite IH; auto. rewrite skipn_length. lia.
  Qed.
End Pad.
