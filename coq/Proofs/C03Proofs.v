(* C03: a flow satisfies the exported bounds and constraint list iff it satisfies the documented hard constraints.
   Exact (tolerance 0), over R, for every length and every configuration. *)
From Coq Require Import ZArith Reals List Bool Arith Lia Lra.
From DK Require Import Num NumR Vec.
From DK.Model Require Import Leaf Fn Dev DocSpec StateSpec FeasSpec.
From DK.Proofs Require Import VecFacts RVec C15Proofs C09Proofs.
Import ListNotations.
Local Open Scope R_scope.

Definition sat_all (cs : list (con R)) (x : list R) : Prop := forallb (fun c => con_sat 0 c x) cs = true.
Definition model_feasible (d : leafdev R) (x : list R) : Prop :=
  in_box 0 (ld_bounds d) x = true /\ sat_all (leaf_cons d) x.

(* ---- reading one exported constraint at tolerance 0 --------------------------------------------------- *)
Lemma con_sat_ineq f j (x : list R) : con_sat 0 (Build_con false f j) x = true <-> 0 <= f x.
Proof. unfold con_sat. cbn [c_eq c_fun]. numR. rewrite Rleb_true, Ropp_0. tauto. Qed.
Lemma con_sat_eq f j (x : list R) : con_sat 0 (Build_con true f j) x = true <-> f x = 0.
Proof.
  unfold con_sat. cbn [c_eq c_fun]. numR. rewrite Rleb_true. unfold Rleb.
  destruct (Rle_dec 0 (f x)); split; intros; lra.
Qed.

Lemma forallb_flat_map {B C} (P : C -> bool) (F : B -> list C) l :
  forallb P (flat_map F l) = forallb (fun a => forallb P (F a)) l.
Proof. induction l as [|a l IH]; simpl; auto. now rewrite forallb_app, IH. Qed.
Lemma forallb_map {B C} (P : C -> bool) (F : B -> C) l : forallb P (map F l) = forallb (fun a => P (F a)) l.
Proof. induction l as [|a l IH]; simpl; auto. now rewrite IH. Qed.
Lemma forallb_seq (P : nat -> bool) n : forallb P (seq 0 n) = true <-> forall i, (i < n)%nat -> P i = true.
Proof.
  rewrite forallb_forall. split; intros Hall i Hi; apply Hall.
  - apply in_seq. lia.
  - apply in_seq in Hi. lia.
Qed.

Lemma pairs_sat (f g : nat -> list R -> R) jf jg n (x : list R) :
  sat_all (flat_map (fun i => [Build_con false (f i) (jf i); Build_con false (g i) (jg i)]) (seq 0 n)) x
  <-> forall i, (i < n)%nat -> 0 <= f i x /\ 0 <= g i x.
Proof.
  unfold sat_all. rewrite forallb_flat_map, forallb_seq. split; intros Hall i Hi; specialize (Hall i Hi).
  - cbn [forallb] in Hall. apply andb_true_iff in Hall. destruct Hall as [H1 H2]. apply andb_true_iff in H2. destruct H2 as [H2 _].
    apply con_sat_ineq in H1. apply con_sat_ineq in H2. auto.
  - destruct Hall as [H1 H2]. cbn [forallb]. apply (proj2 (con_sat_ineq (f i) (jf i) x)) in H1.
    apply (proj2 (con_sat_ineq (g i) (jg i) x)) in H2. rewrite H1, H2. reflexivity.
Qed.
Lemma singles_sat (f : nat -> list R -> R) jf n (x : list R) :
  sat_all (map (fun i => Build_con false (f i) (jf i)) (seq 0 n)) x <-> forall i, (i < n)%nat -> 0 <= f i x.
Proof.
  unfold sat_all. rewrite forallb_map, forallb_seq. split; intros Hall i Hi; specialize (Hall i Hi).
  - now apply con_sat_ineq in Hall.
  - now apply con_sat_ineq.
Qed.
Lemma sat_all_app cs1 cs2 x : sat_all (cs1 ++ cs2) x <-> sat_all cs1 x /\ sat_all cs2 x.
Proof. unfold sat_all. rewrite forallb_app, andb_true_iff. tauto. Qed.
Lemma sat_all_nil x : sat_all [] x <-> True.
Proof. unfold sat_all. simpl. tauto. Qed.

(* ---- per-slot bounds --------------------------------------------------------------------------------------- *)
Lemma forallb_combine_seq (P : nat -> R -> bool) : forall (x : list R) a,
  forallb (fun '(i, v) => P i v) (combine (seq a (length x)) x) = true
  <-> forall i, (i < length x)%nat -> P (a + i)%nat (nth i x 0) = true.
Proof.
  induction x as [|v x IH]; intros a.
  - simpl. split; auto. intros _ i Hi. lia.
  - cbn [length seq combine forallb]. rewrite andb_true_iff, IH. split.
    + intros [H0 Hr] [|i] Hi; [now rewrite Nat.add_0_r|]. cbn [nth]. replace (a + S i)%nat with (S a + i)%nat by lia. apply Hr. simpl in Hi. lia.
    + intros Hall. split; [specialize (Hall 0%nat); rewrite Nat.add_0_r in Hall; apply Hall; simpl; lia|].
      intros i Hi. specialize (Hall (S i)). cbn [nth] in Hall. replace (S a + i)%nat with (a + S i)%nat by lia. apply Hall. simpl. lia.
Qed.

Lemma in_box_within b (x : list R) : in_box 0 b x = true <-> within b x.
Proof.
  unfold in_box, idx. rewrite (forallb_combine_seq (fun i v => (lo b i - 0 <=? v)%num && (v <=? hi b i + 0)%num) x 0).
  unfold within, lo, hi. split; intros Hall i Hi; specialize (Hall i Hi); simpl plus in *.
  - apply andb_true_iff in Hall. destruct Hall as [H1 H2]. numR. apply Rleb_true in H1. apply Rleb_true in H2. lra.
  - apply andb_true_iff. numR. split; apply Rleb_true; lra.
Qed.

(* ---- cumulative bounds: the mask product is the sum over the slice --------------------------------------------- *)
Definition mask_from (a m st en : nat) : list R :=
  map (fun j => if (st <=? j)%nat && (j <? en)%nat then n1 else n0) (seq a m).

Lemma mask_slice : forall (x : list R) a st en,
  dot x (mask_from a (length x) st en) = vsum (slice (st - a) (en - a) x).
Proof.
  induction x as [|v x IH]; intros a st en.
  - unfold slice. rewrite skipn_nil, firstn_nil. reflexivity.
  - cbn [length]. unfold mask_from. cbn [seq map]. fold (mask_from (S a) (length x) st en). rewrite dot_cons, IH. unfold slice.
    destruct (Nat.le_gt_cases st a) as [Hsa|Hsa].
    + replace (st - a)%nat with 0%nat by lia. replace (st - S a)%nat with 0%nat by lia. rewrite !Nat.sub_0_r. cbn [skipn].
      replace (st <=? a)%nat with true by (symmetry; apply Nat.leb_le; lia).
      destruct (Nat.le_gt_cases en a) as [Hea|Hea].
      * replace (a <? en)%nat with false by (symmetry; apply Nat.ltb_ge; lia).
        replace (en - a)%nat with 0%nat by lia. replace (en - S a)%nat with 0%nat by lia. cbn [andb firstn]. rewrite vsum_nil. numR. ring.
      * replace (a <? en)%nat with true by (symmetry; apply Nat.ltb_lt; lia).
        replace (en - a)%nat with (S (en - S a)) by lia. cbn [andb firstn]. rewrite vsum_cons. numR. ring.
    + replace (st <=? a)%nat with false by (symmetry; apply Nat.leb_gt; lia). cbn [andb].
      replace (st - a)%nat with (S (st - S a)) by lia. cbn [skipn].
      replace (en - a - S (st - S a))%nat with (en - S a - (st - S a))%nat by lia. numR. ring.
Qed.

Lemma mask_range_total (x : list R) st en : dot x (range_mask (length x) st en) = range_total st en x.
Proof.
  change (range_mask (length x) st en) with (mask_from 0 (length x) st en). rewrite mask_slice, !Nat.sub_0_r.
  unfold range_total, slice. apply vsum_total.
Qed.

Lemma cb_cons_sat cbs (x : list R) : sat_all (cb_cons (length x) cbs) x <-> cum_ok cbs x.
Proof.
  unfold sat_all, cb_cons, cum_ok. rewrite forallb_flat_map, forallb_forall.
  split; intros Hall c Hc; specialize (Hall c Hc).
  - cbn [forallb] in Hall. apply andb_true_iff in Hall. destruct Hall as [H1 H2]. apply andb_true_iff in H2. destruct H2 as [H2 _].
    apply con_sat_ineq in H1. apply con_sat_ineq in H2. rewrite mask_range_total in H1, H2. numR. lra.
  - cbn [forallb]. rewrite andb_true_r. apply andb_true_iff. split; apply con_sat_ineq; rewrite mask_range_total; numR; lra.
Qed.

(* sanity of the spec's range total: it is the sum of x_i over st <= i < en (when the range lies inside the horizon) *)
Lemma total_firstn_seq : forall (x : list R) m, (m <= length x)%nat ->
  total (firstn m x) = vsum (map (fun i => nth i x 0) (seq 0 m)).
Proof.
  induction x as [|v x IH]; intros m Hm.
  - simpl in Hm. replace m with 0%nat by lia. reflexivity.
  - destruct m as [|m]; [reflexivity|]. cbn [firstn total seq map nth]. rewrite vsum_cons, <- seq_shift, map_map.
    rewrite IH by (simpl in Hm; lia). reflexivity.
Qed.
Lemma range_total_sum : forall st (x : list R) en, (en <= length x)%nat ->
  range_total st en x = vsum (map (fun i => nth i x 0) (seq st (en - st))).
Proof.
  unfold range_total. induction st as [|st IH]; intros x en Hen.
  - rewrite Nat.sub_0_r. cbn [skipn]. now apply total_firstn_seq.
  - destruct x as [|v x].
    + simpl in Hen. replace (en - S st)%nat with 0%nat by lia. reflexivity.
    + cbn [skipn]. destruct en as [|en]; [reflexivity|]. cbn [Nat.sub]. rewrite IH by (simpl in Hen; lia).
      rewrite <- seq_shift, map_map. reflexivity.
Qed.

(* ---- storage -------------------------------------------------------------------------------------------------- *)
Lemma sdev_cons_sat (q : sparams R) bnd (x : list R) : (0 < length x)%nat -> 0 < sp_capacity q ->
  sat_all (sdev_cons q (length x) bnd) x <-> storage_ok q bnd x.
Proof.
  intros Hn Hcap. unfold sdev_cons, storage_ok. rewrite <- storage_is_recurrence.
  set (n := length x). set (ch := sdev_charge q x).
  assert (Hst : forall i, (i < n)%nat -> s_soc q n x i = nth i ch 0) by (intros i Hi; now apply constraint_state).
  rewrite !sat_all_app.
  rewrite (pairs_sat (fun i r => s_soc q n r i) (fun i r => (sp_capacity q - s_soc q n r i)%num)
                     (fun i => Some (fun r => s_socjac q n r i)) (fun i => Some (fun r => vopp (s_socjac q n r i))) n x).
  assert (P1 : (forall i, (i < n)%nat -> 0 <= s_soc q n x i /\ 0 <= (sp_capacity q - s_soc q n x i)%num)
               <-> (forall i, (i < n)%nat -> 0 <= nth i ch 0 <= sp_capacity q)).
  { split; intros Hall i Hi; specialize (Hall i Hi); rewrite Hst in * by auto; numR; lra. }
  assert (P2 : sat_all (match sp_clip_d q with
                 | Some k => map (fun i => {| c_eq := false; c_fun := fun r => (nth i r n0 - k * lo bnd i * (s_soc q n r i / sp_capacity q))%num; c_jac := None |}) (seq 0 n)
                 | None => [] end) x
               <-> (forall k, sp_clip_d q = Some k -> forall i, (i < n)%nat ->
                      k * fst (nth i bnd (0, 0)) * (nth i ch 0 / sp_capacity q) <= nth i x 0)).
  { destruct (sp_clip_d q) as [k|].
    - rewrite (singles_sat (fun i r => (nth i r n0 - k * lo bnd i * (s_soc q n r i / sp_capacity q))%num) (fun _ => None) n x).
      split.
      + intros Hall k' Hk' i Hi. injection Hk' as <-. specialize (Hall i Hi). rewrite Hst in Hall by auto. unfold lo in Hall. numR. lra.
      + intros Hall i Hi. specialize (Hall k eq_refl i Hi). rewrite Hst by auto. unfold lo. numR. lra.
    - rewrite sat_all_nil. split; auto. intros _ k Hk. discriminate. }
  assert (P3 : sat_all (match sp_clip_c q with
                 | Some k => map (fun i => {| c_eq := false; c_fun := fun r => (k * hi bnd i * (n1 - s_soc q n r i / sp_capacity q) - nth i r n0)%num; c_jac := None |}) (seq 0 n)
                 | None => [] end) x
               <-> (forall k, sp_clip_c q = Some k -> forall i, (i < n)%nat ->
                      nth i x 0 <= k * snd (nth i bnd (0, 0)) * ((sp_capacity q - nth i ch 0) / sp_capacity q))).
  { assert (Hfrac : forall v, (sp_capacity q - v) / sp_capacity q = 1 - v / sp_capacity q) by (intros v; field; lra).
    destruct (sp_clip_c q) as [k|].
    - rewrite (singles_sat (fun i r => (k * hi bnd i * (n1 - s_soc q n r i / sp_capacity q) - nth i r n0)%num) (fun _ => None) n x).
      split.
      + intros Hall k' Hk' i Hi. injection Hk' as <-. specialize (Hall i Hi). rewrite Hst in Hall by auto. unfold hi in Hall.
        rewrite Hfrac. numR. lra.
      + intros Hall i Hi. specialize (Hall k eq_refl i Hi). rewrite Hst by auto. unfold hi. rewrite Hfrac in Hall. numR. lra.
    - rewrite sat_all_nil. split; auto. intros _ k Hk. discriminate. }
  assert (P4 : sat_all [ {| c_eq := false; c_fun := fun r => (s_soc q n r (n - 1) - sp_capacity q * sp_reserve q)%num;
                            c_jac := Some (fun r => s_socjac q n r (n - 1)) |} ] x
               <-> sp_reserve q * sp_capacity q <= nth (n - 1) ch 0).
  { unfold sat_all. cbn [forallb]. rewrite andb_true_r, con_sat_ineq, Hst by (unfold n; lia). numR. split; lra. }
  rewrite P1, P2, P3, P4. tauto.
Qed.

(* ---- user constraints ------------------------------------------------------------------------------------------ *)
Lemma ucons_sat ucs (x : list R) : sat_all (map ucon_con ucs) x <-> user_ok ucs x.
Proof.
  unfold sat_all, user_ok. rewrite forallb_map, forallb_forall. split; intros Hall u Hu; specialize (Hall u Hu).
  - unfold ucon_con in Hall. destruct (u_eq u).
    + apply con_sat_eq in Hall. rewrite dot_sum_prod in Hall. numR. lra.
    + apply con_sat_ineq in Hall. rewrite dot_sum_prod in Hall. numR. lra.
  - unfold ucon_con. destruct (u_eq u).
    + apply con_sat_eq. rewrite dot_sum_prod. numR. lra.
    + apply con_sat_ineq. rewrite dot_sum_prod. numR. lra.
Qed.

(* ---- the equivalence ---------------------------------------------------------------------------------------------- *)
Lemma leaf_feasible_iff (d : leafdev R) (x : list R) : length x = ld_n d -> (0 < ld_n d)%nat -> leaf_accepted d ->
  (model_feasible d x <-> leaf_feasible_spec d x).
Proof.
  intros HL Hn Hacc. unfold model_feasible, leaf_feasible_spec, leaf_cons. rewrite in_box_within, sat_all_app, <- HL, cb_cons_sat.
  unfold leaf_accepted in Hacc.
  destruct (ld_kind d) as [| |a b|pl ph|a b c|pl ph|g|q|q|f ucs]; try (rewrite sat_all_nil; tauto).
  - rewrite sdev_cons_sat by (auto; lia). tauto.
  - rewrite ucons_sat. tauto.
Qed.

(* no cumulative bound is dropped, moved or given another bound's limits: each one is exported as its own pair *)
Lemma cb_cons_each n cbs k (x : list R) : (k < length cbs)%nat -> length x = n ->
  let c := nth k cbs (0, 0, 0%nat, 0%nat) in
  let dflt := Build_con false (fun _ => 0) None in
  c_fun (nth (2 * k) (cb_cons n cbs) dflt) x = range_total (cb_s c) (cb_e c) x - cb_lo c /\
  c_fun (nth (2 * k + 1) (cb_cons n cbs) dflt) x = cb_hi c - range_total (cb_s c) (cb_e c) x /\
  c_eq (nth (2 * k) (cb_cons n cbs) dflt) = false /\ c_eq (nth (2 * k + 1) (cb_cons n cbs) dflt) = false.
Proof.
  intros Hk HL. subst n. revert k Hk. induction cbs as [|c0 cbs IH]; intros k Hk; [simpl in Hk; lia|].
  destruct k as [|k].
  - cbn. rewrite mask_range_total. numR. auto.
  - replace (2 * S k)%nat with (S (S (2 * k))) by lia. replace (S (S (2 * k)) + 1)%nat with (S (S (2 * k + 1))) by lia.
    cbn [cb_cons flat_map app nth]. apply IH. simpl in Hk. lia.
Qed.

Lemma leaf_cons_length (d : leafdev R) : length (leaf_cons d) = leaf_cons_count d.
Proof.
  unfold leaf_cons, leaf_cons_count. rewrite app_length. f_equal.
  - unfold cb_cons. induction (ld_cb d) as [|c l IH]; [reflexivity|]. cbn [flat_map app length]. rewrite IH. lia.
  - destruct (ld_kind d) as [| |a b|pl ph|a b c|pl ph|g|q|q|f ucs]; try reflexivity.
    + unfold sdev_cons. rewrite !app_length, pairs_length. cbn [length].
      destruct (sp_clip_d q), (sp_clip_c q); cbn [length]; rewrite ?map_length, ?seq_length; lia.
    + apply map_length.
Qed.

Lemma leaf_cons_types (d : leafdev R) c : In c (leaf_cons d) ->
  match ld_kind d with KA _ _ => True | _ => c_eq c = false end.
Proof.
  unfold leaf_cons. intros Hin. apply in_app_or in Hin.
  assert (Hcb : In c (cb_cons (ld_n d) (ld_cb d)) -> c_eq c = false).
  { unfold cb_cons. intros H. apply in_flat_map in H. destruct H as (cb & _ & [<-|[<-|[]]]); reflexivity. }
  destruct (ld_kind d) as [| |a b|pl ph|a b c0|pl ph|g|q|q|f ucs]; auto;
    try (destruct Hin as [Hin|[]]; now apply Hcb).
  destruct Hin as [Hin|Hin]; [now apply Hcb|].
  unfold sdev_cons in Hin. repeat (apply in_app_or in Hin; destruct Hin as [Hin|Hin]).
  - apply in_flat_map in Hin. destruct Hin as (i & _ & [<-|[<-|[]]]); reflexivity.
  - destruct (sp_clip_d q); [|destruct Hin]. apply in_map_iff in Hin. destruct Hin as (i & <- & _). reflexivity.
  - destruct (sp_clip_c q); [|destruct Hin]. apply in_map_iff in Hin. destruct Hin as (i & <- & _). reflexivity.
  - destruct Hin as [<-|[]]. reflexivity.
Qed.

(* non-vacuity: two cumulative ranges with different limits on a 4-slot device; (0,0,2,2) violates the first range,
   (1,1,2,2) is feasible *)
Definition ex_dev : leafdev R := Build_leafdev 4 [(0,2);(0,2);(0,2);(0,2)] [(1,2,0%nat,2%nat);(3,5,2%nat,4%nat)] KDev.
Lemma example_two_ranges : leaf_feasible_spec ex_dev [1;1;2;2] /\ ~ leaf_feasible_spec ex_dev [0;0;2;2].
Proof.
  split.
  - split; [|split; [|exact I]].
    + intros i Hi. simpl in Hi. do 4 (destruct i as [|i]; [simpl; lra|]). lia.
    + intros c [<-|[<-|[]]]; unfold range_total, cb_lo, cb_hi, cb_s, cb_e; simpl; lra.
  - intros (_ & Hc & _). specialize (Hc (1,2,0%nat,2%nat) (or_introl eq_refl)). unfold range_total, cb_lo, cb_hi, cb_s, cb_e in Hc. simpl in Hc. lra.
Qed.
Lemma example_two_ranges_model : model_feasible ex_dev [1;1;2;2] /\ ~ model_feasible ex_dev [0;0;2;2].
Proof.
  assert (HA : leaf_accepted ex_dev) by exact I.
  destruct example_two_ranges as [H1 H2]. split.
  - apply leaf_feasible_iff; auto. simpl; lia.
  - intros H. apply H2. apply leaf_feasible_iff in H; auto. simpl; lia.
Qed.
