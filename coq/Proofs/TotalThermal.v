(* The total derivative form of C01 for the thermal device, at every flow off the heating/cooling-direction kink (efficiency 1, or
   no slot flow exactly 0): continuity of TDevice's reported marginal cost there, grad_tdevice, Proofs/Total.v. Every length. *)
From Coq Require Import ZArith Reals List Lra Lia Arith Psatz.
From Coquelicot Require Import Coquelicot.
From DK Require Import Num NumR Vec.
From DK.Gen Require Import Kernels.
From DK.Model Require Import Leaf Fn Dev.
From DK.Proofs Require Import VecFacts RVec VecAlg Calc KernelR C01Proofs StorageProofs Total Cont TotalStorage.
Import ListNotations.
Local Open Scope R_scope.

Lemma abc2_deriv_continuous c lo hi u : continuity_pt (fun t => abc_deriv (A:=R) t n0 n2 c lo hi) u.
Proof. eapply is_derive_continuity_pt. apply (abc_deriv_derive u 0 0%nat c lo hi). Qed.

(* the direction factor of the code: 1/eff for negative flow, eff otherwise *)
Definition dirfac (e v : R) : R := if nltb v 0 then 1 / e else e.
Lemma dirfac_one v : dirfac 1 v = 1.
Proof. unfold dirfac. destruct (nltb v 0); [field|reflexivity]. Qed.
Lemma dirfac_continuous e v : (e = 1 \/ v <> 0) -> continuity_pt (dirfac e) v.
Proof.
  intros H eps Heps. destruct H as [->|Hv].
  - exists 1. split; [lra|]. intros t _. rewrite !dirfac_one. unfold dist; simpl. unfold R_dist.
    rewrite Rminus_diag_eq by reflexivity. now rewrite Rabs_R0.
  - exists (Rabs v). split; [now apply Rabs_pos_lt|]. intros t [_ Ht]. unfold dist in *; simpl in *. unfold R_dist in *.
    assert (E : dirfac e t = dirfac e v).
    { unfold dirfac, nltb. numR. apply Rabs_def2 in Ht. unfold Rleb.
      destruct (Rle_dec 0 t), (Rle_dec 0 v); cbn [negb]; try reflexivity; exfalso;
        [rewrite Rabs_left in Ht by lra|rewrite Rabs_pos_eq in Ht by lra]; lra. }
    rewrite E, Rminus_diag_eq by reflexivity. now rewrite Rabs_R0.
Qed.

Lemma tbase_length q n : length (tp_ext q) = n -> length (tdev_tbase q n) = n.
Proof. intros He. unfold tdev_tbase, vadd. rewrite map2_length, base_soc_length, soc_length, map_length. lia. Qed.

Lemma cont_r2t q x i : length (tp_ext q) = length x -> off_kink (tp_eff q) x -> (i < length x)%nat ->
  cont_at (fun y => nth i (tdev_r2t q y) 0) x.
Proof.
  intros He Hk Hi.
  apply (cont_ext (fun y => nth i (tdev_tbase q (length x)) 0
                            + vsum (map (fun j => nth j (sust_row (tp_sus q) (length x) i) 0 * psi (tp_eff q) (nth j y 0)) (seq 0 (length x))))).
  - intros y Ly. unfold tdev_r2t. rewrite Ly. rewrite nth_vadd by (rewrite ?tbase_length, ?soc_length; lia). f_equal.
    rewrite nth_soc by lia. rewrite Ly.
    rewrite (dot_as_seq (sust_row (tp_sus q) (length x) i) (effv (tp_eff q) y)).
    2:{ unfold sust_row. now rewrite map_length, seq_length, effv_length. }
    assert (SL : length (sust_row (tp_sus q) (length x) i) = length x) by (unfold sust_row; now rewrite map_length, seq_length).
    rewrite SL. apply vsum_map_ext. intros j _. now rewrite nth_effv.
  - apply cont_plus; [apply cont_const|]. apply cont_vsum_map. intros j Hj. apply in_seq in Hj.
    apply cont_scal. apply cont_psi_nth; auto. lia.
Qed.

Lemma tdev_deriv_entry q (y p : list R) k : length (tp_ext q) = length y -> (k < length y)%nat ->
  nth k (tdev_deriv q y p) 0 =
    vsum (map (fun i => nth k (sust_row (tp_sus q) (length y) i) 0
                        * abc_deriv (A:=R) (nth i (tdev_r2t q y) 0) n0 n2 (pnth (tp_c q) i) (tdev_tmin q) (tp_opt q)) (seq 0 (length y)))
    * dirfac (tp_eff q) (nth k y 0) + nth k p 0.
Proof.
  intros He Hk. unfold tdev_deriv. cbv zeta. rewrite nth_map_seq by exact Hk. unfold dirfac. numR. f_equal. f_equal.
  rewrite (vsum_map_idx_seq (fun i d => nth k (sust_row (tp_sus q) (length y) i) 0 * d)).
  unfold tdev_dt. rewrite map_idx_length, tdev_r2t_length by exact He. apply vsum_map_ext. intros i Hi. apply in_seq in Hi. f_equal.
  rewrite (nth_map_idx (fun i t => abc_deriv t n0 n2 (pnth (tp_c q) i) (tdev_tmin q) (tp_opt q))); [reflexivity|].
  rewrite tdev_r2t_length by exact He. lia.
Qed.

Theorem tdev_deriv_continuous q (x p : list R) : length (tp_ext q) = length x -> off_kink (tp_eff q) x ->
  gcont (fun y => tdev_deriv q y p) x.
Proof.
  intros He Hk. apply gcont_of_entries. intros k Hkx.
  apply (cont_ext (fun y =>
    vsum (map (fun i => nth k (sust_row (tp_sus q) (length x) i) 0
                        * abc_deriv (A:=R) (nth i (tdev_r2t q y) 0) n0 n2 (pnth (tp_c q) i) (tdev_tmin q) (tp_opt q)) (seq 0 (length x)))
    * dirfac (tp_eff q) (nth k y 0) + nth k p 0)).
  - intros y Ly. rewrite tdev_deriv_entry by lia. now rewrite Ly.
  - apply cont_plus; [|apply cont_const]. apply cont_mult.
    + apply cont_vsum_map. intros i Hi. apply in_seq in Hi. apply cont_scal.
      apply (cont_comp (fun t => abc_deriv (A:=R) t n0 n2 (pnth (tp_c q) i) (tdev_tmin q) (tp_opt q)) (fun y => nth i (tdev_r2t q y) 0));
        [apply abc2_deriv_continuous|apply cont_r2t; auto; lia].
    + apply (cont_comp (dirfac (tp_eff q)) (fun y => nth k y 0)); [|apply cont_nth].
      apply dirfac_continuous. destruct Hk as [->|Hk]; [now left|right; now apply Hk].
Qed.

Theorem tdevice_total_derivative n b cb q (x p : list R) : length x = n -> length p = n -> length (tp_ext q) = n ->
  off_kink (tp_eff q) x ->
  dir_at (fun s => leaf_cost (Build_leafdev n b cb (KT q)) s p) (leaf_deriv (Build_leafdev n b cb (KT q)) x p) x.
Proof.
  intros Lx Lp Le Hk. destruct (off_kink_near _ x Hk) as [r [Hr Hn]].
  apply (total_from_partials (fun s => leaf_cost (Build_leafdev n b cb (KT q)) s p) (fun s => leaf_deriv (Build_leafdev n b cb (KT q)) s p) x r Hr).
  - intros y Hy. apply grad_tdevice; [rewrite (proj1 Hy); exact Lx|exact Lp|exact Le|]. apply Hn. exact Hy.
  - unfold leaf_deriv; cbn [ld_kind]. apply tdev_deriv_continuous; [lia|exact Hk].
Qed.

Theorem tdevice_line_integral n b cb q (x y p : list R) : length x = n -> length y = n -> length p = n -> length (tp_ext q) = n ->
  (tp_eff q = 1 \/ same_side x y) ->
  is_RInt (fun t => dot (leaf_deriv (Build_leafdev n b cb (KT q)) (seg x y t) p) (vsub y x)) 0 1
          (leaf_cost (Build_leafdev n b cb (KT q)) y p - leaf_cost (Build_leafdev n b cb (KT q)) x p).
Proof.
  intros Lx Ly Lp Le Hs.
  assert (Lyx : length y = length x) by lia.
  set (r := if Req_EM_T (tp_eff q) 1 then 1 else Rmin (minabs x) (minabs y)).
  assert (Hoff : forall t, 0 <= t <= 1 -> forall z, vnear (seg x y t) z r -> off_kink (tp_eff q) z).
  { intros t Ht z [Lz Hz]. unfold r in *. destruct (Req_EM_T (tp_eff q) 1) as [E|NE]; [now left|].
    destruct Hs as [E|Hss]; [contradiction|]. right. intros k Hk.
    rewrite Lz, seg_length in Hk by exact Lyx. rewrite seg_length in Hz by exact Lyx. specialize (Hz k Hk).
    rewrite seg_nth in Hz by auto.
    pose proof (seg_entry_bound (nth k x 0) (nth k y 0) t (Hss k Hk) Ht) as Hb.
    pose proof (minabs_le x k Hk). pose proof (minabs_le y k ltac:(lia)).
    assert (Rmin (minabs x) (minabs y) <= Rmin (Rabs (nth k x 0)) (Rabs (nth k y 0))).
    { apply Rmin_glb; [eapply Rle_trans; [apply Rmin_l|auto]|eapply Rle_trans; [apply Rmin_r|auto]]. }
    intros E. rewrite E, Rminus_0_l, Rabs_Ropp in Hz. lra. }
  assert (Hr : 0 < r).
  { unfold r. destruct (Req_EM_T (tp_eff q) 1) as [E|NE]; [lra|]. destruct Hs as [E|Hss]; [contradiction|]. apply Rmin_pos; apply minabs_pos; intros k Hk E.
    - specialize (Hss k Hk). rewrite E in Hss. lra.
    - specialize (Hss k ltac:(lia)). rewrite E in Hss. lra. }
  apply (line_integral (fun s => leaf_cost (Build_leafdev n b cb (KT q)) s p) (fun s => leaf_deriv (Build_leafdev n b cb (KT q)) s p) x y r Lyx Hr).
  - intros t Ht z Hz. apply grad_tdevice; [rewrite (proj1 Hz), seg_length; lia|exact Lp|exact Le|]. now apply (Hoff t Ht z).
  - intros t Ht. unfold leaf_deriv; cbn [ld_kind]. apply tdev_deriv_continuous; [rewrite seg_length; lia|]. apply (Hoff t Ht).
    split; [reflexivity|]. intros i _. rewrite Rminus_diag_eq by reflexivity. now rewrite Rabs_R0.
  - intros t. unfold leaf_deriv; cbn [ld_kind]. unfold tdev_deriv. rewrite map_length, seq_length. now apply seg_length.
Qed.
