(* C07, tie T: the parameter hypotheses of the convexity theorems follow from the *generated* validators
   (Gen/Validators.v, regenerated from the setters of /repo on every run). Loosening a validator changes the generated
   definition and breaks these proofs. *)
From Coq Require Import ZArith Reals List Bool Arith Lia Lra.
From DK Require Import Num NumR Vec.
From DK.Gen Require Import Kernels Validators.
From DK.Model Require Import Leaf Fn Dev PyVal.
From DK.Proofs Require Import VecFacts RVec KernelR Calc C01Proofs Convex C07Proofs.
Import ListNotations.
Local Open Scope R_scope.

Definition shaped_for (n : nat) (p : param R) : Prop := match p with PS _ => True | PV l => length l = n end.

Lemma shape_of_accepts n p : (param_is_scalar p || Nat.eqb (param_len p) n = true)%bool -> shaped_for n p.
Proof. destruct p as [a|l]; simpl; [auto|]. intros E. now apply Nat.eqb_eq. Qed.

Lemma param_all_nth (f : R -> bool) (P : R -> Prop) n p i : (forall x, f x = true -> P x) ->
  shaped_for n p -> param_all f p = true -> (i < n)%nat -> P (pnth p i).
Proof.
  intros HfP Hs Ha Hi. destruct p as [a|l]; simpl in *; [auto|].
  rewrite forallb_forall in Ha. apply HfP, Ha. apply nth_In. lia.
Qed.

Lemma param_all2_nth (f : R -> R -> bool) (P : R -> R -> Prop) n p q i : (forall x y, f x y = true -> P x y) ->
  shaped_for n p -> shaped_for n q -> param_all2 f p q = true -> (i < n)%nat -> P (pnth p i) (pnth q i).
Proof.
  intros HfP Hp Hq Ha Hi. destruct p as [a|l], q as [b|m]; simpl in *.
  - auto.
  - rewrite forallb_forall in Ha. apply HfP, Ha. apply nth_In. lia.
  - rewrite forallb_forall in Ha. apply HfP, (Ha (nth i l 0)). apply nth_In. lia.
  - apply andb_prop in Ha. destruct Ha as [_ Ha]. rewrite forallb_forall in Ha.
    specialize (Ha (nth i l 0, nth i m 0)). apply HfP. apply Ha.
    rewrite <- (combine_nth l m i 0 0) by lia. apply nth_In. rewrite combine_length. lia.
Qed.

Ltac split_andb H :=
  repeat match type of H with
         | (_ && _)%bool = true => let H1 := fresh "V" in apply andb_prop in H; destruct H as [H1 H]
         end.

(* ---- IDevice2: slopes ---- *)
Lemma idevice2_param_shape n p : IDevice2_validate_param_accepts (A:=R) n p = true -> shaped_for n p.
Proof.
  unfold IDevice2_validate_param_accepts. cbv zeta. rewrite !negb_involutive. intros H. split_andb H.
  now apply shape_of_accepts.
Qed.
Lemma idevice2_slopes_ordered n pl ph i :
  IDevice2_validate_param_accepts (A:=R) n pl = true -> IDevice2_p_h_accepts (A:=R) n pl ph = true ->
  (i < n)%nat -> pnth pl i <= pnth ph i.
Proof.
  intros Hl Hh Hi. unfold IDevice2_p_h_accepts in Hh. cbv zeta in Hh. split_andb Hh.
  rewrite !negb_involutive in *. unfold IDevice2_validate_param_stored in *. cbv zeta in *.
  apply (param_all2_nth (fun x y => nleb x y) (fun x y => x <= y) n pl ph i); auto.
  - intros x y E. now apply Rleb_true.
  - now apply idevice2_param_shape.
  - now apply idevice2_param_shape.
Qed.
(* the same when p_l is the parameter set last *)
Lemma idevice2_slopes_ordered' n pl ph i :
  IDevice2_validate_param_accepts (A:=R) n ph = true -> IDevice2_p_l_accepts (A:=R) n ph pl = true ->
  (i < n)%nat -> pnth pl i <= pnth ph i.
Proof.
  intros Hh Hl Hi. unfold IDevice2_p_l_accepts in Hl. cbv zeta in Hl. split_andb Hl.
  rewrite !negb_involutive in *. unfold IDevice2_validate_param_stored in *. cbv zeta in *.
  apply (param_all2_nth (fun x y => nleb y x) (fun x y => y <= x) n ph pl i); auto.
  - intros x y E. now apply Rleb_true.
  - now apply idevice2_param_shape.
  - now apply idevice2_param_shape.
Qed.

Lemma convex_idevice2_validated n b cb pl ph p : length b = n ->
  (forall i, (i < n)%nat -> lo b i <= hi b i) ->
  (IDevice2_validate_param_accepts (A:=R) n pl = true /\ IDevice2_p_h_accepts (A:=R) n pl ph = true) \/
  (IDevice2_validate_param_accepts (A:=R) n ph = true /\ IDevice2_p_l_accepts (A:=R) n ph pl = true) ->
  convex_on (in_box_R b) (fun s => leaf_cost (Build_leafdev n b cb (KI2 pl ph)) s p).
Proof.
  intros Hb Hlo Hv. apply convex_idevice2. intros i Hi. rewrite Hb in Hi. split; [|auto].
  destruct Hv as [[H1 H2]|[H1 H2]]; [eapply idevice2_slopes_ordered|eapply idevice2_slopes_ordered']; eauto.
Qed.

(* ---- CDevice2: scalar slopes ---- *)
Lemma cdevice2_slopes_ordered n pl ph :
  CDevice2_p_h_accepts (A:=R) n (PS pl) (PS ph) = true \/ CDevice2_p_l_accepts (A:=R) n (PS ph) (PS pl) = true -> pl <= ph.
Proof.
  intros [H|H].
  - unfold CDevice2_p_h_accepts, CDevice2_validate_param_stored in H. cbv zeta in H. apply andb_prop in H. destruct H as [_ H].
    apply andb_prop in H. destruct H as [H _]. rewrite negb_involutive in H. simpl in H. now apply Rleb_true in H.
  - unfold CDevice2_p_l_accepts, CDevice2_validate_param_stored in H. cbv zeta in H. apply andb_prop in H. destruct H as [_ H].
    apply andb_prop in H. destruct H as [H _]. rewrite negb_involutive in H. simpl in H. now apply Rleb_true in H.
Qed.

(* ---- IDevice: a, c >= 0 ---- *)
Lemma idevice_param_nonneg n p i : IDevice_validate_param_accepts (A:=R) p n = true -> (i < n)%nat -> 0 <= pnth p i.
Proof.
  unfold IDevice_validate_param_accepts. cbv zeta. rewrite !negb_involutive. intros H Hi. split_andb H.
  apply (param_all_nth (fun x => nleb (nofZ 0) x) (fun x => 0 <= x) n p i); auto.
  - intros x E. now apply Rleb_true in E.
  - now apply shape_of_accepts.
Qed.
Lemma idevice_a_nonneg n a i : IDevice_a_accepts (A:=R) n a = true -> (i < n)%nat -> 0 <= pnth a i.
Proof. unfold IDevice_a_accepts. intros H Hi. split_andb H. eapply idevice_param_nonneg; eauto. Qed.
Lemma idevice_c_nonneg n c i : IDevice_c_accepts (A:=R) n c = true -> (i < n)%nat -> 0 <= pnth c i.
Proof. unfold IDevice_c_accepts. intros H Hi. split_andb H. eapply idevice_param_nonneg; eauto. Qed.

Lemma convex_idevice_validated n b cb a bp c p : length b = n ->
  (forall i, (i < n)%nat -> lo b i <= hi b i) ->
  IDevice_a_accepts (A:=R) n a = true -> IDevice_c_accepts (A:=R) n c = true ->
  (forall i, (i < n)%nat -> exists k, pnth bp i = Rnat k) ->
  convex_on (in_box_R b) (fun s => leaf_cost (Build_leafdev n b cb (KI a bp c)) s p).
Proof.
  intros Hb Hlo Ha Hc Hk. apply convex_idevice. intros i Hi. rewrite Hb in Hi.
  repeat split; auto; [eapply idevice_a_nonneg|eapply idevice_c_nonneg]; eauto.
Qed.

(* ---- SDevice: c2 <= c1 whenever c1 > 0 (the corner c1 = 0 < c2 is the open finding) ---- *)
Lemma sdevice_c2_le_c1 c1 c2 : SDevice_c2_accepts (A:=R) c1 c2 = true -> 0 < c1 -> 0 <= c2 <= c1.
Proof.
  unfold SDevice_c2_accepts. unfold nltb. numR. intros H Hc. split_andb H.
  rewrite negb_involutive in V. apply Rleb_true in V.
  split; [exact V|]. rewrite negb_true_iff in V0. apply andb_false_iff in V0. destruct V0 as [E|E].
  - rewrite negb_false_iff in E. now apply Rleb_true in E.
  - rewrite negb_false_iff in E. apply Rleb_true in E. lra.
Qed.
Lemma sdevice_c1_ge_c2 c1 c2 : SDevice_c1_accepts (A:=R) c2 c1 = true -> 0 <= c2 -> 0 <= c2 <= c1 /\ 0 <= c1.
Proof.
  unfold SDevice_c1_accepts. unfold nltb. numR. intros H Hc. split_andb H.
  rewrite negb_involutive in V. apply Rleb_true in V.
  rewrite negb_true_iff in V0. apply andb_false_iff in V0. destruct V0 as [E|E].
  - apply Rleb_false in E. lra.
  - rewrite negb_false_iff in E. apply Rleb_true in E. assert (c2 = 0) by lra. subst. lra.
Qed.

(* ---- TDevice: c >= 0, one external temperature per slot ---- *)
Lemma tdevice_init_facts n s e tr text c :
  TDevice_init_accepts (A:=R) n s e tr text c = true ->
  length text = n /\ (forall i, (i < n)%nat -> 0 <= pnth c i) /\ 0 <= s <= 1 /\ e <> 0 /\ 0 <= tr.
Proof.
  unfold TDevice_init_accepts. unfold nltb. numR. rewrite !negb_involutive. intros H. split_andb H.
  apply andb_prop in V. destruct V as [Vs1 Vs2]. apply Rleb_true in Vs1, Vs2.
  apply Nat.eqb_eq in V2. rewrite negb_true_iff in V0. apply Reqb_false in V0. apply Rleb_true in V1.
  repeat split; auto. intros i Hi. eapply idevice_param_nonneg; eauto.
Qed.
