(* Calculus over lists used by C01 / C06 / C14: coordinate-wise derivatives of
     - separable sums            sum_i phi_i(x_i)
     - sums of kernels of state  sum_i phi_i(u_i(x)),  u_i(x with x_k := t) = u_i(x) + a_ik (psi_k t - psi_k x_k)
     - the neighbour product     sum_i x_i x_(i+1)
   for every list length. *)
From Coq Require Import ZArith Reals List Bool Arith Lia Lra.
From Coquelicot Require Import Coquelicot.
From DK Require Import Num NumR Vec.
From DK.Model Require Import Leaf.
From DK.Proofs Require Import VecFacts RVec.
Import ListNotations.
Local Open Scope R_scope.

Lemma nth_map_seq {B} (f : nat -> B) (n k : nat) (d : B) : (k < n)%nat -> nth k (map f (seq 0 n)) d = f k.
Proof.
  intros Hk. rewrite (nth_indep _ d (f 0%nat)) by (rewrite map_length, seq_length; exact Hk).
  rewrite (map_nth f). now rewrite seq_nth.
Qed.

Lemma vsum_map_idx_seq (phi : nat -> R -> R) (l : list R) :
  vsum (map (fun '(i, v) => phi i v) (idx l)) = vsum (map (fun i => phi i (nth i l 0)) (seq 0 (length l))).
Proof.
  unfold idx.
  assert (G : forall s, vsum (map (fun '(i, v) => phi i v) (combine (seq s (length l)) l))
                      = vsum (map (fun i => phi i (nth (i - s) l 0)) (seq s (length l)))).
  { induction l as [|a l IH]; intros s; [reflexivity|]. cbn [length seq combine map]. rewrite !vsum_cons.
    rewrite Nat.sub_diag. cbn [nth]. f_equal. rewrite IH. apply vsum_map_ext. intros i Hi. apply in_seq in Hi.
    replace (i - s)%nat with (S (i - S s)) by lia. reflexivity. }
  rewrite G. apply vsum_map_ext. intros i _. now rewrite Nat.sub_0_r.
Qed.

Lemma map_idx_seq {B} (phi : nat -> R -> B) (l : list R) :
  map (fun '(i, v) => phi i v) (idx l) = map (fun i => phi i (nth i l 0)) (seq 0 (length l)).
Proof.
  unfold idx.
  assert (G : forall s, map (fun '(i, v) => phi i v) (combine (seq s (length l)) l)
                      = map (fun i => phi i (nth (i - s) l 0)) (seq s (length l))).
  { induction l as [|a l IH]; intros s; [reflexivity|]. cbn [length seq combine map].
    rewrite Nat.sub_diag. cbn [nth]. f_equal. rewrite IH. apply map_ext_in. intros i Hi. apply in_seq in Hi.
    replace (i - s)%nat with (S (i - S s)) by lia. reflexivity. }
  rewrite G. apply map_ext. intros i. now rewrite Nat.sub_0_r.
Qed.

Lemma is_derive_cplus (c : R) (f : R -> R) (x l : R) : is_derive f x l -> is_derive (fun t => c + f t) x l.
Proof.
  intros D. auto_derive; [exists l; exact D|]. replace (Derive (fun x0 : R => f x0) x) with l; [ring|]. symmetry; apply is_derive_unique; exact D.
Qed.
Lemma is_derive_cplus_r (c : R) (f : R -> R) (x l : R) : is_derive f x l -> is_derive (fun t => f t + c) x l.
Proof.
  intros D. auto_derive; [exists l; exact D|].
  replace (Derive (fun x0 : R => f x0) x) with l; [ring|]. symmetry; apply is_derive_unique; exact D.
Qed.
Lemma is_derive_cmult (c : R) (f : R -> R) (x l : R) : is_derive f x l -> is_derive (fun t => c * f t) x (c * l).
Proof.
  intros D. auto_derive; [exists l; exact D|]. replace (Derive (fun x0 : R => f x0) x) with l; [ring|]. symmetry; apply is_derive_unique; exact D.
Qed.

Lemma is_derive_affine_of (u a c : R) (f : R -> R) (x l : R) :
  is_derive f x l -> is_derive (fun t => u + a * (f t - c)) x (a * l).
Proof.
  intros D. auto_derive; [exists l; exact D|].
  replace (Derive (fun x0 : R => f x0) x) with l; [ring|]. symmetry; apply is_derive_unique; exact D.
Qed.

(* chain rule on plain reals (no canonical-structure noise) *)
Lemma is_derive_comp_R (f g : R -> R) (x lf lg : R) :
  is_derive f (g x) lf -> is_derive g x lg -> is_derive (fun t => f (g t)) x (lg * lf).
Proof.
  intros Df Dg. pose proof (is_derive_comp f g x lf lg Df Dg) as D.
  unfold scal in D; simpl in D; unfold mult in D; simpl in D. exact D.
Qed.

(* ---- separable sums ---- *)
Lemma grad_sepsum (phi dphi : nat -> R -> R) (x : list R) :
  (forall k, (k < length x)%nat -> is_derive (phi k) (nth k x 0) (dphi k (nth k x 0))) ->
  grad_at (fun s => vsum (map (fun '(i, v) => phi i v) (idx s))) (map (fun '(i, v) => dphi i v) (idx x)) x.
Proof.
  intros Hd. split; [apply map_idx_length|]. intros k Hk.
  rewrite (nth_map_idx dphi) by auto.
  apply (is_derive_ext (fun t => vsum (map (fun '(i, v) => phi i v) (idx x)) - phi k (nth k x 0) + phi k t)).
  - intros t. now rewrite sepsum_upd.
  - apply is_derive_cplus. apply Hd; auto.
Qed.

(* ---- sums of kernels of an affine-in-psi state ---- *)
Lemma grad_state_sum (m : nat) (U : list R -> list R) (a : nat -> nat -> R) (psi dpsi : nat -> R -> R)
      (phi dphi : nat -> R -> R) (x : list R) (G : list R) :
  (forall y, length y = length x -> length (U y) = m) ->
  (forall k t i, (k < length x)%nat -> (i < m)%nat ->
      nth i (U (upd x k t)) 0 = nth i (U x) 0 + a i k * (psi k t - psi k (nth k x 0))) ->
  (forall k, (k < length x)%nat -> is_derive (psi k) (nth k x 0) (dpsi k (nth k x 0))) ->
  (forall i, (i < m)%nat -> is_derive (phi i) (nth i (U x) 0) (dphi i (nth i (U x) 0))) ->
  length G = length x ->
  (forall k, (k < length x)%nat ->
      nth k G 0 = vsum (map (fun i => dphi i (nth i (U x) 0) * a i k) (seq 0 m)) * dpsi k (nth k x 0)) ->
  grad_at (fun s => vsum (map (fun '(i, u) => phi i u) (idx (U s)))) G x.
Proof.
  intros HL HU Hpsi Hphi HG HGk. split; auto. intros k Hk. rewrite HGk by auto.
  apply (is_derive_ext (fun t => vsum (map (fun i => phi i (nth i (U x) 0 + a i k * (psi k t - psi k (nth k x 0)))) (seq 0 m)))).
  - intros t. rewrite vsum_map_idx_seq, HL by apply upd_length. apply vsum_map_ext. intros i Hi. apply in_seq in Hi.
    rewrite HU by (auto; lia). reflexivity.
  - replace (vsum (map (fun i => dphi i (nth i (U x) 0) * a i k) (seq 0 m)) * dpsi k (nth k x 0))
      with (vsum (map (fun i => dphi i (nth i (U x) 0) * (a i k * dpsi k (nth k x 0))) (seq 0 m))).
    2:{ rewrite <- (Rmult_comm (dpsi k (nth k x 0))), <- vsum_map_scal. apply vsum_map_ext. intros; ring. }
    apply (is_derive_vsum_map (fun i t => phi i (nth i (U x) 0 + a i k * (psi k t - psi k (nth k x 0))))
                              (fun i => dphi i (nth i (U x) 0) * (a i k * dpsi k (nth k x 0)))).
    intros i Hi. apply in_seq in Hi.
    assert (D1 : is_derive (fun t => nth i (U x) 0 + a i k * (psi k t - psi k (nth k x 0))) (nth k x 0) (a i k * dpsi k (nth k x 0))).
    { apply is_derive_affine_of. apply Hpsi; auto. }
    assert (E0 : nth i (U x) 0 + a i k * (psi k (nth k x 0) - psi k (nth k x 0)) = nth i (U x) 0) by ring.
    specialize (Hphi i ltac:(lia)). rewrite <- E0 in Hphi at 1 2.
    pose proof (is_derive_comp (phi i) (fun t => nth i (U x) 0 + a i k * (psi k t - psi k (nth k x 0))) (nth k x 0) _ _ Hphi D1) as D.
    rewrite E0 in D. unfold scal in D; simpl in D; unfold mult in D; simpl in D.
    rewrite Rmult_comm. exact D.
Qed.

(* ---- neighbour product ---- *)
Lemma flip_cons2 (x y : R) r : flip (A:=R) (x :: y :: r) = x * y + flip (y :: r).
Proof. reflexivity. Qed.

Lemma flip_upd (r : list R) k t : (k < length r)%nat ->
  flip (A:=R) (upd r k t) = flip r + (t - nth k r 0) * nbr r k.
Proof.
  revert k; induction r as [|x r IH]; intros k Hk; simpl in Hk; [lia|].
  destruct r as [|y r].
  - destruct k as [|k]; [|simpl in Hk; lia]. unfold nbr; simpl. ring.
  - destruct k as [|k].
    + cbn [upd]. rewrite !flip_cons2. unfold nbr. cbn [nth]. numR. ring.
    + cbn [upd]. specialize (IH k ltac:(simpl in *; lia)).
      destruct k as [|k].
      * cbn [upd] in *. rewrite flip_cons2. destruct r as [|z r].
        -- unfold nbr in *; cbn in *. numR. ring.
        -- rewrite !flip_cons2 in *. unfold nbr in *. cbn [nth] in *. numR. cbn [nth]. lra.
      * cbn [upd] in *. rewrite !flip_cons2. rewrite IH. unfold nbr. cbn [nth]. numR. ring.
Qed.

Lemma grad_flip (r : list R) :
  grad_at (fun s => flip (A:=R) s) (map (fun k => nbr r k) (seq 0 (length r))) r.
Proof.
  split; [now rewrite map_length, seq_length|]. intros k Hk.
  rewrite nth_map_seq by auto.
  apply (is_derive_ext (fun t => flip r + (t - nth k r 0) * nbr r k)).
  - intros t. now rewrite flip_upd.
  - auto_derive; [exact I|]. unfold nbr. numR. ring.
Qed.

(* scaling and constants *)
Lemma nth_vscale (c : R) G k : nth k (vscale c G) 0 = c * nth k G 0.
Proof.
  revert k; induction G as [|g G IH]; intros [|k]; cbn [vscale map nth]; numR; try ring.
  apply IH.
Qed.

Lemma grad_at_scal c F G x : grad_at F G x -> grad_at (fun y => c * F y) (vscale c G) x.
Proof.
  intros [HL HD]. split; [unfold vscale; now rewrite map_length|]. intros k Hk.
  rewrite nth_vscale. apply is_derive_cmult. apply HD; auto.
Qed.
Lemma grad_at_const c x : grad_at (fun _ => c) (zeros (length x)) x.
Proof.
  split; [apply vconst_length|]. intros k Hk. unfold zeros, vconst. rewrite repeat_nth by lia. numR.
  auto_derive; [exact I|ring].
Qed.
Lemma grad_at_eqG F G G' x : G = G' -> grad_at F G x -> grad_at F G' x.
Proof. now intros ->. Qed.
