(* The hess methods of the leaf classes as regenerated in Gen/Classes.v = the model (used by C14; kept apart from Proofs/GenClasses.v,
   the cost side used by C15, so that a change to one method does not touch the proofs about the others). *)
From Coq Require Import ZArith Reals List Bool Arith Lia Lra.
From DK Require Import Num NumR Vec.
From DK.Gen Require Import Kernels Classes.
From DK.Model Require Import Leaf Fn Dev.
From DK.Proofs Require Import VecFacts RVec KernelR Calc C15Proofs C01Proofs.
Import ListNotations.
Local Open Scope R_scope.
From DK.Proofs Require Import VecAlg GenClasses.

Lemma gen_device_hess n s : Device_hess (A:=R) n s = dev_hess n.
Proof. reflexivity. Qed.

Lemma gen_cdevice_hess n a b s : CDevice_hess (A:=R) n a b s = dev_hess n.
Proof. reflexivity. Qed.

Lemma gen_idevice_hess n a b c bnd s : IDevice_hess (A:=R) n a b c bnd s = idev_hess a b c bnd s.
Proof. reflexivity. Qed.

Lemma gen_idevice2_hess n pl ph bnd s : IDevice2_hess (A:=R) n pl ph bnd s = idev2_hess pl ph bnd s.
Proof. reflexivity. Qed.

Lemma gen_gdevice_hess n g s : GDevice_hess (A:=R) n g s = gdev_hess g s.
Proof.
  first [reflexivity | unfold GDevice_hess, gk_d2, gdev_hess]. f_equal.
  apply list_eq_nth.
  - rewrite (idx_map_length (fun i v => horner (pderiv (pderiv (gpoly g i))) v)), map_length.
    now rewrite (idx_map_length (fun i x => horner (pderiv (pderiv (gpoly g i))) (- x))).
  - intros k Hk. rewrite (idx_map_length (fun i v => horner (pderiv (pderiv (gpoly g i))) v)), map_length in Hk.
    rewrite (gk_nth (fun i v => horner (pderiv (pderiv (gpoly g i))) v)) by lia.
    now rewrite (nth_map_idx (fun i x => horner (pderiv (pderiv (gpoly g i))) (- x))) by lia.
Qed.
