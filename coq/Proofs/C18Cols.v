(* C18, List over columns (axis 1): transposition facts and the full member / nearest / idempotent statement. *)
From Coq Require Import ZArith Reals List Bool Arith Lia Lra.
From DK Require Import Num NumR Vec.
From DK.Model Require Import Leaf Projection.
From DK.Proofs Require Import VecFacts RVec VecAlg C18Proofs.
Import ListNotations.
Local Open Scope R_scope.

Lemma map_nth_seq_id (row : list R) b : length row = b -> map (fun j => nth j row 0) (seq 0 b) = row.
Proof.
  intros <-. induction row as [|a row IH]; [reflexivity|]. cbn [length seq map nth]. f_equal.
  rewrite <- seq_shift, map_map. exact IH.
Qed.

Lemma transpose_shape (c : nat) (m : list (list R)) : mshape c (length m) (transpose c m).
Proof.
  unfold transpose. split; [now rewrite map_length, seq_length|]. apply Forall_forall. intros row Hin.
  apply in_map_iff in Hin as [j [<- _]]. now rewrite map_length.
Qed.

Lemma nth_map_rows (m : list (list R)) i j : nth i (map (fun r => nth j r 0) m) 0 = nth j (nth i m []) 0.
Proof.
  revert i; induction m as [|row m IH]; intros [|i]; cbn [map nth]; auto; destruct j; reflexivity.
Qed.

Lemma transpose_involutive a b (m : list (list R)) : mshape a b m -> transpose a (transpose b m) = m.
Proof.
  intros [HL HF]. unfold transpose at 1.
  assert (E : forall i, (i < a)%nat -> map (fun r => nth i r 0) (transpose b m) = nth i m []).
  { intros i Hi. unfold transpose. rewrite map_map.
    rewrite (map_ext _ (fun j => nth j (nth i m []) 0)) by (intros j; apply nth_map_rows).
    apply map_nth_seq_id. rewrite List.Forall_forall in HF. apply HF. apply nth_In. lia. }
  rewrite (map_ext_in _ (fun i => nth i m [])) by (intros i Hi; apply in_seq in Hi; apply E; lia).
  subst a. clear. induction m as [|row m IH]; [reflexivity|]. cbn [length seq map nth]. f_equal.
  rewrite <- seq_shift, map_map. exact IH.
Qed.

(* transposing a matrix with one more row conses that row onto the columns *)
Lemma map2_cons_seq (f : R -> list R -> list R) (g : nat -> list R) (row : list R) s :
  map2 f row (map g (seq s (length row))) = map (fun j => f (nth (j - s) row 0) (g j)) (seq s (length row)).
Proof.
  revert s; induction row as [|a row IH]; intros s; [reflexivity|]. cbn [length seq map map2]. f_equal.
  - now rewrite Nat.sub_diag.
  - rewrite IH. apply map_ext_in. intros j Hj. apply in_seq in Hj. replace (j - s)%nat with (S (j - S s)) by lia. reflexivity.
Qed.
Lemma transpose_cons b (row : list R) (m : list (list R)) : length row = b ->
  transpose b (row :: m) = map2 cons row (transpose b m).
Proof.
  intros <-. unfold transpose. rewrite map2_cons_seq. apply map_ext. intros j. now rewrite Nat.sub_0_r.
Qed.

Lemma mdist2_nil_rows b : mdist2 (repeat [] b) (repeat [] b) = 0.
Proof. induction b as [|b IH]; [reflexivity|]. cbn [repeat]. rewrite mdist2_cons, IH, dist2_nil. ring. Qed.
Lemma mdist2_map2_cons (a a' : list R) (X X' : list (list R)) :
  length a' = length a -> length X = length a -> length X' = length a ->
  mdist2 (map2 cons a X) (map2 cons a' X') = dist2 a a' + mdist2 X X'.
Proof.
  revert a' X X'; induction a as [|u a IH]; intros [|u' a'] [|x X] [|x' X'] H1 H2 H3; simpl in H1, H2, H3; try lia.
  - unfold mdist2; simpl. rewrite dist2_nil. ring.
  - cbn [map2]. rewrite !mdist2_cons, !dist2_cons, IH by lia. ring.
Qed.
Lemma transpose_nil b : transpose b ([] : list (list R)) = repeat [] b.
Proof.
  unfold transpose. cbn [map]. generalize 0%nat. induction b as [|b IH]; intros s; [reflexivity|]. cbn [seq map repeat]. now rewrite IH.
Qed.

(* the sum of squared distances does not depend on whether it is taken row by row or column by column *)
Lemma mdist2_transpose a b (m m' : list (list R)) : mshape a b m -> mshape a b m' ->
  mdist2 (transpose b m) (transpose b m') = mdist2 m m'.
Proof.
  revert a m'; induction m as [|row m IH]; intros a [|row' m'] [L F] [L' F']; simpl in L, L'; try lia.
  - rewrite transpose_nil. apply mdist2_nil_rows.
  - pose proof (Forall_inv F) as Hr. pose proof (Forall_inv F') as Hr'. cbv beta in Hr, Hr'.
    rewrite !transpose_cons by auto.
    pose proof (transpose_shape b m) as [T1 _]. pose proof (transpose_shape b m') as [T1' _].
    rewrite mdist2_map2_cons by lia. rewrite mdist2_cons.
    rewrite (IH (length m) m'); [reflexivity| |].
    + split; [reflexivity|now apply Forall_inv_tail in F].
    + split; [lia|now apply Forall_inv_tail in F'].
Qed.

(* List.project over columns: every column is projected onto its region; nearest among all matrices whose columns are members *)
Theorem list_project_columns tol mi (rs : list (region R)) n m : 0 <= tol -> rs <> [] ->
  List.Forall (fun r => rwf r /\ rlen r = n) rs -> mshape n (length rs) m ->
  exists m', list_project (rproject tol mi) rs true m = POk m' /\ mshape n (length rs) m' /\
    List.Forall2 (fun r col => rmem_tol tol r col) rs (transpose (length rs) m') /\
    (forall Y, mshape n (length rs) Y -> List.Forall2 (fun r col => rmem r col) rs (transpose (length rs) Y) ->
               mdist2 m m' <= mdist2 m Y) /\
    (List.Forall2 (fun r col => rmem r col) rs (transpose (length rs) m) -> m' = m).
Proof.
  intros Ht Hne Hrs Hm.
  assert (El : match rs with r0 :: _ => rlen r0 | [] => 0%nat end = n).
  { destruct rs as [|r0 rs]; [contradiction|]. apply Forall_inv in Hrs. apply Hrs. }
  pose proof (transpose_shape (length rs) m) as Ht1. destruct Hm as [Lm Fm]. rewrite Lm in Ht1.
  destruct (list_project_rows tol mi rs n (transpose (length rs) m) Ht Hne Hrs Ht1) as [T [ET [ST [Hin [Hnear Hid]]]]].
  unfold list_project in *. rewrite El in *. rewrite (mshape_ok_of _ _ _ (conj Lm Fm)). rewrite (mshape_ok_of _ _ _ Ht1) in ET.
  rewrite ET. cbn [pbind]. exists (transpose n T).
  assert (Inv : transpose (length rs) (transpose n T) = T) by now apply transpose_involutive.
  assert (Sh : mshape n (length rs) (transpose n T)).
  { pose proof (transpose_shape n T) as H. destruct ST as [LT _]. now rewrite LT in H. }
  split; [reflexivity|]. split; [exact Sh|]. rewrite Inv. split; [exact Hin|]. split.
  - intros Y SY HY. rewrite <- (mdist2_transpose n (length rs) m (transpose n T) (conj Lm Fm) Sh), Inv.
    rewrite <- (mdist2_transpose n (length rs) m Y (conj Lm Fm) SY). apply Hnear.
    pose proof (transpose_shape (length rs) Y) as [_ FY]. destruct SY as [LY _]. rewrite LY in FY.
    clear -HY FY. revert FY. induction HY as [|r col rs' cols Hc HY IH]; intros FY; constructor.
    + split; auto. now apply Forall_inv in FY.
    + apply IH. now apply Forall_inv_tail in FY.
  - intros HC. rewrite (Hid HC). now apply (transpose_involutive n (length rs)).
Qed.

(* the point Slice.project returns always passes Slice.is_in (it is within tol of the slab, cf. slab_is_in_sound) *)
Lemma slab_result_passes_is_in tol n lw hg (x q : list R) : dot n n <> 0 -> lw <= hg -> 0 <= tol ->
  slab_project tol n lw hg x = POk q -> slab_is_in tol n lw hg q = POk true.
Proof.
  intros Hnn Hlh Ht H. pose proof (slab_project_len_inv _ _ _ _ _ _ H) as HL.
  pose proof (slab_project_length _ _ _ _ _ _ H) as Lq.
  destruct (slab_member_relaxed tol n lw hg x q Hnn Hlh Ht H) as [Hh [Hl|[-> Hin]]].
  - apply slab_is_in_complete; auto; [lia|split; auto].
  - unfold slab_is_in. cbn [n1 nopp NumR]. rewrite Hin. cbn [pbind]. apply half_is_in_complete; auto. now apply in_half_high.
Qed.
