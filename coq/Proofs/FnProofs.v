(* The preference-function AST (Model/Fn.v, functions.py combinators): fderiv is the gradient of feval and fhess the Jacobian
   of fderiv, for EVERY composition (induction on the AST) and every vector length. *)
From Coq Require Import ZArith Reals List Bool Arith Lia Lra.
From Coquelicot Require Import Coquelicot.
From DK Require Import Num NumR Vec.
From DK.Gen Require Import Kernels.
From DK.Model Require Import Leaf Fn Dev DocSpec.
From DK.Proofs Require Import VecFacts RVec KernelR Calc C15Proofs C01Proofs C14Proofs Convex C07Proofs RangesProofs.
Import ListNotations.
Local Open Scope R_scope.

(* ---- an induction principle that reaches through the lists of FSum / FRanges ---------------------------------------- *)
Lemma fn_ind' (P : fn R -> Prop) :
  P FNull ->
  (forall fs, (forall g, In g fs -> P g) -> P (FSum fs)) ->
  (forall g, P g -> P (FReflect g)) ->
  (forall cs, P (FPoly2D cs)) ->
  (forall cs offs, P (FPoly2DOffset cs offs)) ->
  (forall fs, P (FX2D fs)) ->
  (forall rs, (forall s e g, In (s, e, g) rs -> P g) -> P (FRanges rs)) ->
  (forall pl ph xl xh, P (FInnerHL pl ph xl xh)) ->
  (forall a b c xl xh, P (FABC a b c xl xh)) ->
  (forall pl ph xl xh, P (FHL pl ph xl xh)) ->
  (forall c, P (FDemand c)) ->
  forall f, P f.
Proof.
  intros HNull HSum HRefl HP HPO HX HRanges HInner HABC HHL HDem.
  fix IH 1. intros f. destruct f as [|fs|g|cs|cs offs|fs|rs|pl ph xl xh|a b c xl xh|pl ph xl xh|c].
  - exact HNull.
  - apply HSum. induction fs as [|a fs IHfs]; intros g Hin; [destruct Hin|].
    destruct Hin as [<-|Hin]; [apply IH|now apply IHfs].
  - apply HRefl. apply IH.
  - apply HP.
  - apply HPO.
  - apply HX.
  - apply HRanges. induction rs as [|[[s0 e0] g0] rs IHrs]; intros s e g Hin; [destruct Hin|].
    destruct Hin as [Heq|Hin]; [injection Heq as _ _ <-; apply IH|now apply (IHrs s e g)].
  - apply HInner.
  - apply HABC.
  - apply HHL.
  - apply HDem.
Qed.

(* ---- well-formedness (what the combinators' constructors validate) and smoothness (away from ties of the peak) ----- *)
Definition rst (r : nat * nat * fn R) : nat := fst (fst r).
Definition ren (r : nat * nat * fn R) : nat := snd (fst r).
Definition rfn (r : nat * nat * fn R) : fn R := snd r.

Fixpoint wf_fn (f : fn R) (n : nat) : Prop :=
  match f with
  | FSum fs => (fix all (l : list (fn R)) : Prop := match l with [] => True | g :: l' => wf_fn g n /\ all l' end) fs
  | FReflect g => wf_fn g n
  | FRanges rs =>
      chain rst ren 0 rs n /\
      (fix all (l : list (nat * nat * fn R)) : Prop :=
         match l with [] => True | r :: l' => (let '(s, e, g) := r in wf_fn g (e - s)) /\ all l' end) rs
  | FABC a b c xl xh => nat_exponents b n
  | _ => True
  end.

(* the peak of the vector is attained at one index only (DemandFunction is not differentiable at ties) *)
Definition unique_max (x : list R) : Prop :=
  x = [] \/ exists m, (m < length x)%nat /\ forall j, (j < length x)%nat -> j <> m -> nth j x 0 < nth m x 0.

Fixpoint smooth_fn (f : fn R) (x : list R) {struct f} : Prop :=
  match f with
  | FSum fs => (fix all (l : list (fn R)) : Prop := match l with [] => True | g :: l' => smooth_fn g x /\ all l' end) fs
  | FReflect g => smooth_fn g (vopp x)
  | FRanges rs =>
      (fix all (l : list (nat * nat * fn R)) : Prop :=
         match l with [] => True | r :: l' => (let '(s, e, g) := r in smooth_fn g (slice s e x)) /\ all l' end) rs
  | FDemand c => unique_max x
  | _ => True
  end.

Lemma wf_sum_in fs n : wf_fn (FSum fs) n -> forall g, In g fs -> wf_fn g n.
Proof. induction fs as [|a fs IH]; intros H g Hin; [destruct Hin|]. simpl in H. destruct H as [Ha Hr]. destruct Hin as [<-|Hin]; auto. Qed.
Lemma smooth_sum_in fs x : smooth_fn (FSum fs) x -> forall g, In g fs -> smooth_fn g x.
Proof. induction fs as [|a fs IH]; intros H g Hin; [destruct Hin|]. simpl in H. destruct H as [Ha Hr]. destruct Hin as [<-|Hin]; auto. Qed.
Lemma wf_ranges_in rs n : wf_fn (FRanges rs) n -> chain rst ren 0 rs n /\ forall s e g, In (s, e, g) rs -> wf_fn g (e - s).
Proof.
  intros [Hc Hall]. split; auto. clear Hc. induction rs as [|[[s0 e0] g0] rs IH]; intros s e g Hin; [destruct Hin|].
  destruct Hall as [H0 Hr]. destruct Hin as [Heq|Hin]; [injection Heq as <- <- <-; exact H0|now apply IH].
Qed.
Lemma smooth_ranges_in rs x : smooth_fn (FRanges rs) x -> forall s e g, In (s, e, g) rs -> smooth_fn g (slice s e x).
Proof.
  induction rs as [|[[s0 e0] g0] rs IH]; intros Hall s e g Hin; [destruct Hin|].
  simpl in Hall. destruct Hall as [H0 Hr]. destruct Hin as [Heq|Hin]; [injection Heq as <- <- <-; exact H0|now apply IH].
Qed.

(* ---- scalar facts ------------------------------------------------------------------------------------------------------ *)
Lemma horner_derive (c : list R) v : is_derive (horner (A:=R) c) v (horner (A:=R) (pderiv c) v).
Proof.
  apply (is_derive_ext (polyval c)); [intros t; now rewrite horner_polyval|]. rewrite horner_polyval. apply polyval_derive.
Qed.
Lemma horner_shift_derive (c : list R) o v : is_derive (fun t => horner (A:=R) c (t + o)) v (horner (A:=R) (pderiv c) (v + o)).
Proof.
  assert (D1 : is_derive (fun t : R => t + o) v 1) by (auto_derive; [exact I|ring]).
  pose proof (is_derive_comp (horner (A:=R) c) (fun t => t + o) v _ _ (horner_derive c (v + o)) D1) as D.
  unfold scal in D; simpl in D; unfold mult in D; simpl in D. rewrite Rmult_1_l in D. exact D.
Qed.

(* ---- FSum ----------------------------------------------------------------------------------------------------------------- *)
Lemma grad_sum_list (fs : list (fn R)) (x : list R) :
  (forall g, In g fs -> grad_at (feval g) (fderiv g x) x) ->
  grad_at (fun y => vsum (map (fun g => feval g y) fs)) (fold_right vadd (zeros (length x)) (map (fun g => fderiv g x) fs)) x.
Proof.
  induction fs as [|g fs IH]; intros Hg.
  - apply (grad_at_const 0).
  - cbn [map fold_right]. apply (grad_at_plus (feval g) (fderiv g x) (fun y => vsum (map (fun g0 => feval g0 y) fs))).
    + apply Hg. now left.
    + apply IH. intros g0 H0. apply Hg. now right.
Qed.

(* ---- FReflect --------------------------------------------------------------------------------------------------------------- *)
Lemma vopp_upd (x : list R) k t : vopp (upd x k t) = upd (vopp x) k (- t).
Proof. revert k; induction x as [|a x IH]; intros [|k]; cbn [upd vopp map]; try reflexivity. unfold vopp in IH. now rewrite IH. Qed.
Lemma nth_vopp (x : list R) k : nth k (vopp x) 0 = - nth k x 0.
Proof.
  revert k; induction x as [|a x IH]; intros [|k]; cbn [vopp map nth]; try (numR; ring). apply IH.
Qed.
Lemma vopp_length (x : list R) : length (vopp x) = length x.
Proof. apply map_length. Qed.

Lemma grad_reflect (F : list R -> R) (G : list R) (x : list R) :
  grad_at F G (vopp x) -> grad_at (fun y => F (vopp y)) (vopp G) x.
Proof.
  intros [HL HD]. rewrite vopp_length in HL. split; [now rewrite vopp_length|]. intros k Hk.
  specialize (HD k ltac:(now rewrite vopp_length)). rewrite nth_vopp in HD. rewrite nth_vopp.
  apply (is_derive_ext (fun t => F (upd (vopp x) k (- t)))); [intros t; now rewrite vopp_upd|].
  assert (D1 : is_derive (fun t : R => - t) (nth k x 0) (-1)) by (auto_derive; [exact I|ring]).
  pose proof (is_derive_comp (fun u => F (upd (vopp x) k u)) (fun t => - t) (nth k x 0) _ _ HD D1) as D.
  unfold scal in D; simpl in D; unfold mult in D; simpl in D.
  replace (- nth k G 0) with (-1 * nth k G 0) by ring. exact D.
Qed.

(* ---- FDemand: a polynomial of the peak -------------------------------------------------------------------------------------- *)
Lemma nltb_true (a b : R) : nltb a b = true <-> a < b.
Proof. unfold nltb. numR. unfold Rleb. destruct (Rle_dec b a); simpl; split; intros; try discriminate; try lra; reflexivity. Qed.
Lemma nltb_false (a b : R) : nltb a b = false <-> b <= a.
Proof. unfold nltb. numR. unfold Rleb. destruct (Rle_dec b a); simpl; split; intros; try discriminate; try lra; reflexivity. Qed.

Lemma argmax_from_best : forall (l : list R) k best bv, (forall i, (i < length l)%nat -> nth i l 0 <= bv) ->
  argmax_from k best bv l = best.
Proof.
  induction l as [|a l IH]; intros k best bv Hall; [reflexivity|]. cbn [argmax_from].
  assert (Ha : a <= bv) by (apply (Hall 0%nat); simpl; lia).
  replace (nltb bv a) with false by (symmetry; now apply nltb_false).
  apply IH. intros i Hi. apply (Hall (S i)). simpl. lia.
Qed.
Lemma argmax_from_tail : forall (l : list R) k best bv j, (j < length l)%nat -> bv < nth j l 0 ->
  (forall i, (i < length l)%nat -> i <> j -> nth i l 0 < nth j l 0) -> argmax_from k best bv l = (k + j)%nat.
Proof.
  induction l as [|a l IH]; intros k best bv j Hj Hbv Hall; simpl in Hj; [lia|]. cbn [argmax_from].
  destruct j as [|j].
  - cbn [nth] in *. replace (nltb bv a) with true by (symmetry; now apply nltb_true).
    rewrite argmax_from_best; [lia|]. intros i Hi. left. apply (Hall (S i)); [simpl; lia|lia].
  - cbn [nth] in Hbv. assert (Ha : a < nth j l 0) by (apply (Hall 0%nat); [simpl; lia|lia]).
    assert (Hall' : forall i, (i < length l)%nat -> i <> j -> nth i l 0 < nth j l 0).
    { intros i Hi Hne. apply (Hall (S i)); [simpl; lia|lia]. }
    destruct (nltb bv a) eqn:E.
    + rewrite (IH (S k) k a j) by (auto; lia). lia.
    + rewrite (IH (S k) best bv j) by (auto; lia). lia.
Qed.
Lemma argmax_unique (l : list R) m : (m < length l)%nat ->
  (forall i, (i < length l)%nat -> i <> m -> nth i l 0 < nth m l 0) -> argmax l = m.
Proof.
  intros Hm Hall. destruct l as [|a l]; [simpl in Hm; lia|]. unfold argmax. destruct m as [|m].
  - apply argmax_from_best. intros i Hi. left. apply (Hall (S i)); [simpl; lia|lia].
  - rewrite (argmax_from_tail l 1 0 a m); [reflexivity|simpl in Hm; lia| |].
    + apply (Hall 0%nat); [simpl; lia|lia].
    + intros i Hi Hne. apply (Hall (S i)); [simpl; lia|lia].
Qed.

(* a uniform gap between the peak and the other entries *)
Lemma max_gap (M : R) (m : nat) : forall (l : list R) a,
  (forall j, (j < length l)%nat -> (a + j)%nat <> m -> nth j l 0 < M) ->
  exists d, 0 < d /\ forall j, (j < length l)%nat -> (a + j)%nat <> m -> nth j l 0 + d <= M.
Proof.
  induction l as [|v l IH]; intros a Hall.
  - exists 1. split; [lra|]. intros j Hj. simpl in Hj. lia.
  - destruct (IH (S a)) as (d1 & Hd1 & Hg1).
    { intros j Hj Hne. apply (Hall (S j)); [simpl; lia|lia]. }
    destruct (Nat.eq_dec a m) as [Ea|Ea].
    + exists d1. split; auto. intros [|j] Hj Hne; [lia|]. cbn [nth]. apply Hg1; [simpl in Hj; lia|lia].
    + assert (Hv : v < M) by (apply (Hall 0%nat); [simpl; lia|lia]).
      exists (Rmin d1 (M - v)). split; [apply Rmin_glb_lt; lra|].
      intros [|j] Hj Hne; cbn [nth].
      * pose proof (Rmin_r d1 (M - v)). lra.
      * pose proof (Rmin_l d1 (M - v)). specialize (Hg1 j ltac:(simpl in Hj; lia) ltac:(lia)). lra.
Qed.

(* near x the peak stays where it is *)
Lemma peak_stable (x : list R) m : (m < length x)%nat -> (forall j, (j < length x)%nat -> j <> m -> nth j x 0 < nth m x 0) ->
  exists d, 0 < d /\ forall k t, (k < length x)%nat -> Rabs (t - nth k x 0) < d ->
    argmax (upd x k t) = m /\ vmax (upd x k t) = if Nat.eqb k m then t else nth m x 0.
Proof.
  intros Hm Hall. destruct (max_gap (nth m x 0) m x 0) as (d & Hd & Hg); [intros j Hj Hne; apply Hall; auto|].
  exists d. split; auto. intros k t Hk Ht. apply Rabs_def2 in Ht.
  assert (A : argmax (upd x k t) = m).
  { apply argmax_unique; rewrite ?upd_length; auto. intros i Hi Hne.
    destruct (Nat.eq_dec k m) as [->|Hkm].
    - rewrite nth_upd_eq by auto. rewrite nth_upd_neq by auto. specialize (Hg i Hi ltac:(simpl; lia)). lra.
    - rewrite (nth_upd_neq x k m) by auto. destruct (Nat.eq_dec i k) as [->|Hik].
      + rewrite nth_upd_eq by auto. specialize (Hg k Hk ltac:(simpl; lia)). lra.
      + rewrite nth_upd_neq by auto. now apply Hall. }
  split; auto. unfold vmax. rewrite A. destruct (Nat.eqb_spec k m) as [->|Hne].
  - now apply nth_upd_eq.
  - apply nth_upd_neq. auto.
Qed.

Lemma grad_demand (c : list R) (x : list R) : unique_max x ->
  grad_at (fun y => horner (A:=R) c (vmax y)) (upd (zeros (length x)) (argmax x) (horner (A:=R) (pderiv c) (vmax x))) x.
Proof.
  intros [->|(m & Hm & Hall)].
  - split; [reflexivity|]. intros k Hk. simpl in Hk. lia.
  - assert (Ev : vmax x = nth m x 0) by (unfold vmax; now rewrite (argmax_unique x m Hm Hall)).
    rewrite Ev, (argmax_unique x m Hm Hall).
    split; [rewrite upd_length; apply vconst_length|]. intros k Hk.
    destruct (peak_stable x m Hm Hall) as (d & Hd & Hst).
    destruct (Nat.eq_dec k m) as [->|Hne].
    + rewrite nth_upd_eq by (unfold zeros; rewrite vconst_length; auto).
      apply (is_derive_ext_near (horner (A:=R) c) _ _ _ d Hd); [|apply horner_derive].
      intros t Ht. destruct (Hst m t Hm Ht) as [_ ->]. now rewrite Nat.eqb_refl.
    + rewrite nth_upd_neq by auto. unfold zeros, vconst. rewrite repeat_nth by auto.
      apply (is_derive_ext_near (fun _ => horner (A:=R) c (nth m x 0)) _ _ _ d Hd); [|apply is_derive_constR].
      intros t Ht. destruct (Hst k t Hk Ht) as [_ ->]. destruct (Nat.eqb_spec k m); [contradiction|reflexivity].
Qed.

(* ---- FRanges ------------------------------------------------------------------------------------------------------------------- *)
Lemma feval_ranges rs (y : list R) : feval (FRanges rs) y = ranged_sum rst ren (fun r z => feval (rfn r) z) rs y.
Proof. cbn [feval]. unfold ranged_sum. f_equal. apply map_ext. intros [[s e] g]. reflexivity. Qed.
Lemma fderiv_ranges rs (y : list R) : fderiv (FRanges rs) y = ranged_field rst ren (fun r z => fderiv (rfn r) z) rs y.
Proof. cbn [fderiv]. unfold ranged_field. apply flat_map_ext. intros [[s e] g]. reflexivity. Qed.

(* ---- the theorem ------------------------------------------------------------------------------------------------------------------ *)
Lemma fn_grad : forall (f : fn R) (x : list R), wf_fn f (length x) -> smooth_fn f x -> grad_at (feval f) (fderiv f x) x.
Proof.
  intros f. induction f as [|fs IH|g IH|cs|cs offs|fs|rs IH|pl ph xl xh|a b c xl xh|pl ph xl xh|c] using fn_ind'; intros x Hwf Hsm.
  - apply (grad_at_const 0).
  - cbn [feval fderiv]. apply grad_sum_list. intros g Hg. apply IH; auto; [eapply wf_sum_in; eauto|eapply smooth_sum_in; eauto].
  - cbn [feval fderiv]. apply (grad_reflect (feval g)). apply IH; [now rewrite vopp_length|exact Hsm].
  - cbn [feval fderiv]. apply (grad_sepsum (fun i v => horner (nth i cs []) v) (fun i v => horner (pderiv (nth i cs [])) v)).
    intros k _. apply horner_derive.
  - cbn [feval fderiv].
    apply (grad_sepsum (fun i v => horner (nth i cs []) (v + nth i offs 0)) (fun i v => horner (pderiv (nth i cs [])) (v + nth i offs 0))).
    intros k _. apply horner_shift_derive.
  - cbn [feval fderiv].
    apply (grad_sepsum (fun i v => let '(pl, ph, xl, xh) := nth i fs (0, 0, 0, 0) in hl_cost v pl ph xl xh)
                       (fun i v => let '(pl, ph, xl, xh) := nth i fs (0, 0, 0, 0) in hl_deriv v pl ph xl xh)).
    intros k _. destruct (nth k fs (0, 0, 0, 0)) as [[[pl ph] xl] xh]. apply hl_cost_derive.
  - destruct (wf_ranges_in _ _ Hwf) as [Hc Hwf'].
    apply (grad_at_ext (ranged_sum rst ren (fun r z => feval (rfn r) z) rs)); [intros y _; symmetry; apply feval_ranges|].
    rewrite fderiv_ranges. unfold ranged_field.
    apply (ranged_grad rst ren (fun r z => feval (rfn r) z) x (fun r => fderiv (rfn r) (slice (rst r) (ren r) x))); auto.
    intros [[s e] g] Hin. unfold rst, ren, rfn; cbn [fst snd].
    destruct (chain_in _ _ _ _ _ _ Hc Hin) as (_ & H1 & H2). unfold rst, ren in H1, H2; cbn [fst snd] in H1, H2.
    apply (IH s e g Hin); [rewrite slice_length by lia; now apply (Hwf' s e g)|now apply (smooth_ranges_in rs x Hsm)].
  - cbn [feval fderiv]. apply grad_inner_hl.
  - cbn [feval fderiv]. cbn [wf_fn] in Hwf.
    apply (grad_sepsum (fun i v => abc_cost v (pnth a i) (pnth b i) (pnth c i) (pnth xl i) (pnth xh i))
                       (fun i v => abc_deriv v (pnth a i) (pnth b i) (pnth c i) (pnth xl i) (pnth xh i))).
    intros k Hk. destruct (Hwf k Hk) as [e ->]. apply abc_cost_derive.
  - cbn [feval fderiv].
    apply (grad_sepsum (fun i v => hl_cost v (pnth pl i) (pnth ph i) (pnth xl i) (pnth xh i))
                       (fun i v => hl_deriv v (pnth pl i) (pnth ph i) (pnth xl i) (pnth xh i))).
    intros k _. apply hl_cost_derive.
  - cbn [feval fderiv]. apply grad_demand. exact Hsm.
Qed.

Lemma grad_adevice n b cb f ucs (s p : list R) : length s = n -> length p = n -> wf_fn f n -> smooth_fn f s ->
  grad_at (fun s' => leaf_cost (Build_leafdev n b cb (KA f ucs)) s' p) (leaf_deriv (Build_leafdev n b cb (KA f ucs)) s p) s.
Proof.
  intros Hs Hp Hwf Hsm. unfold leaf_cost, leaf_deriv; cbn [ld_kind]. numR.
  apply grad_at_plus; [apply fn_grad; [now rewrite Hs|auto]|apply grad_dot; lia].
Qed.

(* ====================================================================================================================== *)
(* Second derivatives                                                                                                       *)
(* ====================================================================================================================== *)

(* the reported gradient always has one entry per slot *)
Lemma fold_vadd_length n (vs : list (list R)) : (forall v, In v vs -> length v = n) -> length (fold_right vadd (zeros n) vs) = n.
Proof.
  induction vs as [|v vs IH]; intros Hv; [apply vconst_length|]. cbn [fold_right]. unfold vadd at 1. rewrite map2_length.
  fold (vadd (A:=R)). rewrite IH by (intros; apply Hv; now right). rewrite (Hv v) by now left. lia.
Qed.

Lemma fderiv_length : forall (f : fn R) (x : list R), wf_fn f (length x) -> length (fderiv f x) = length x.
Proof.
  intros f. induction f as [|fs IH|g IH|cs|cs offs|fs|rs IH|pl ph xl xh|a b c xl xh|pl ph xl xh|c] using fn_ind'; intros x Hwf;
    cbn [fderiv]; try apply map_idx_length.
  - apply vconst_length.
  - apply fold_vadd_length. intros v Hv. apply in_map_iff in Hv. destruct Hv as (g & <- & Hg). apply IH; auto. eapply wf_sum_in; eauto.
  - rewrite vopp_length. rewrite IH by (now rewrite vopp_length). apply vopp_length.
  - destruct (wf_ranges_in _ _ Hwf) as [Hc Hwf'].
    change (flat_map _ rs) with (fderiv (FRanges rs) x). rewrite fderiv_ranges.
    rewrite (ranged_field_length rst ren x (fun r z => fderiv (rfn r) z) rs 0 Hc); [lia| |reflexivity].
    intros [[s e] g] z Hin Hz. unfold rst, ren, rfn in *; cbn [fst snd] in *. rewrite (IH s e g Hin); [exact Hz|].
    rewrite Hz. now apply (Hwf' s e g).
  - apply inner_hl_field_length.
  - rewrite upd_length. apply vconst_length.
Qed.

(* ---- sums of vector fields ---------------------------------------------------------------------------------------------------- *)
Lemma nth_map2_rows (H1 H2 : list (list R)) j : (j < length H1)%nat -> (j < length H2)%nat ->
  nth j (madd H1 H2) [] = vadd (nth j H1 []) (nth j H2 []).
Proof.
  revert H2 j; induction H1 as [|r1 H1 IH]; intros [|r2 H2] j L1 L2; simpl in *; try lia.
  destruct j as [|j]; [reflexivity|]. apply IH; lia.
Qed.

Lemma hess_at_plus (V1 V2 : list R -> list R) H1 H2 (x : list R) :
  (forall y, length y = length x -> length (V1 y) = length x /\ length (V2 y) = length x) ->
  hess_at V1 H1 x -> hess_at V2 H2 x -> hess_at (fun y => vadd (V1 y) (V2 y)) (madd H1 H2) x.
Proof.
  intros HL (A1 & A2 & A3) (B1 & B2 & B3).
  split; [unfold madd; rewrite map2_length; lia|].
  split; [intros j Hj; rewrite nth_map2_rows by lia; unfold vadd; rewrite map2_length, A2, B2 by auto; lia|].
  intros j k Hj Hk. unfold entry. rewrite nth_map2_rows by lia. rewrite nth_vadd by (rewrite ?A2, ?B2; auto).
  apply (is_derive_ext (fun t => nth j (V1 (upd x k t)) 0 + nth j (V2 (upd x k t)) 0)).
  - intros t. destruct (HL (upd x k t) (upd_length _ _ _)) as [L1 L2]. rewrite nth_vadd by lia. reflexivity.
  - apply (is_derive_plus (fun t => nth j (V1 (upd x k t)) 0) (fun t => nth j (V2 (upd x k t)) 0)); [apply A3|apply B3]; auto.
Qed.

Lemma hess_sum_list (fs : list (fn R)) (x : list R) :
  (forall g y, In g fs -> length y = length x -> length (fderiv g y) = length x) ->
  (forall g, In g fs -> hess_at (fderiv g) (fhess g x) x) ->
  hess_at (fun y => fold_right vadd (zeros (length y)) (map (fun g => fderiv g y) fs))
          (fold_right madd (mconst (length x) (length x) 0) (map (fun g => fhess g x) fs)) x.
Proof.
  induction fs as [|g fs IH]; intros HL HH.
  - cbn [map fold_right]. apply (hess_const_field _ (zeros (length x))). intros s Hs. now rewrite Hs.
  - cbn [map fold_right].
    apply (hess_at_plus (fderiv g) (fun y => fold_right vadd (zeros (length y)) (map (fun g0 => fderiv g0 y) fs))).
    + intros y Hy. split; [apply HL; auto; now left|]. rewrite Hy. apply fold_vadd_length.
      intros v Hv. apply in_map_iff in Hv. destruct Hv as (g0 & <- & Hg0). apply HL; auto. now right.
    + apply HH. now left.
    + apply IH; [intros; apply HL; auto; now right|intros; apply HH; now right].
Qed.

(* ---- reflection --------------------------------------------------------------------------------------------------------------------- *)
Lemma hess_reflect (V : list R -> list R) H (x : list R) :
  hess_at V H (vopp x) -> hess_at (fun y => vopp (V (vopp y))) H x.
Proof.
  intros (A1 & A2 & A3). rewrite vopp_length in *. split; auto. split; auto. intros j k Hj Hk.
  specialize (A3 j k Hj Hk). rewrite nth_vopp in A3.
  apply (is_derive_ext (fun t => -1 * nth j (V (upd (vopp x) k (- t))) 0)).
  { intros t. rewrite nth_vopp, vopp_upd. lra. }
  assert (D1 : is_derive (fun t : R => - t) (nth k x 0) (-1)) by (auto_derive; [exact I|ring]).
  pose proof (is_derive_comp (fun u => nth j (V (upd (vopp x) k u)) 0) (fun t => - t) (nth k x 0) _ _ A3 D1) as D.
  unfold scal in D; simpl in D; unfold mult in D; simpl in D.
  replace (entry H j k) with (-1 * (-1 * entry H j k)) by ring. apply is_derive_cmult. exact D.
Qed.

(* ---- the peak ------------------------------------------------------------------------------------------------------------------------- *)
Lemma hess_demand (c : list R) (x : list R) : unique_max x ->
  hess_at (fun y => upd (zeros (length y)) (argmax y) (horner (A:=R) (pderiv c) (vmax y)))
          (diag (upd (zeros (length x)) (argmax x) (horner (A:=R) (pderiv (pderiv c)) (vmax x)))) x.
Proof.
  intros [->|(m & Hm & Hall)].
  - split; [reflexivity|]. split; intros j; simpl; lia.
  - assert (Ev : vmax x = nth m x 0) by (unfold vmax; now rewrite (argmax_unique x m Hm Hall)).
    rewrite Ev, (argmax_unique x m Hm Hall).
    set (d2 := upd (zeros (length x)) m (horner (A:=R) (pderiv (pderiv c)) (nth m x 0))).
    assert (Ld : length d2 = length x) by (unfold d2; rewrite upd_length; apply vconst_length).
    split; [now rewrite diag_length|]. split; [intros j Hj; rewrite diag_row_length; lia|].
    intros j k Hj Hk. rewrite diag_entry by lia.
    destruct (peak_stable x m Hm Hall) as (d & Hd & Hst).
    apply (is_derive_ext_near (fun t => nth j (upd (zeros (length x)) m (horner (A:=R) (pderiv c) (if Nat.eqb k m then t else nth m x 0))) 0) _ _ _ d Hd).
    { intros t Ht. destruct (Hst k t Hk Ht) as [-> ->]. now rewrite upd_length. }
    destruct (Nat.eq_dec j m) as [->|Hjm].
    + apply (is_derive_ext (fun t => horner (A:=R) (pderiv c) (if Nat.eqb k m then t else nth m x 0))).
      { intros t. rewrite nth_upd_eq; [reflexivity|]. unfold zeros. now rewrite vconst_length. }
      destruct (Nat.eqb_spec k m) as [->|Hkm].
      * rewrite Nat.eqb_refl. unfold d2. rewrite nth_upd_eq by (unfold zeros; now rewrite vconst_length). apply horner_derive.
      * replace (Nat.eqb m k) with false by (symmetry; apply Nat.eqb_neq; auto). apply is_derive_constR.
    + apply (is_derive_ext (fun _ => 0)).
      { intros t. rewrite nth_upd_neq by auto. unfold zeros, vconst. now rewrite repeat_nth by auto. }
      replace (if Nat.eqb j k then nth j d2 0 else 0) with 0; [apply is_derive_constR|].
      destruct (Nat.eqb j k); [|reflexivity]. unfold d2. rewrite nth_upd_neq by auto. unfold zeros, vconst. now rewrite repeat_nth by auto.
Qed.

(* ---- smoothness for second derivatives: exponent 1 needs q <> 0 (or a zero-width slot), the peak must be unique ------------------ *)
Definition abc_hess_ok (a b xl xh : param R) (x : list R) : Prop :=
  forall i, (i < length x)%nat ->
    (exists k, pnth b i = Rnat (S (S k))) \/
    (pnth b i = Rnat 1 /\ (pnth xl i = pnth xh i \/ abc_q (A:=R) (nth i x 0) (pnth xl i) (pnth xh i) (pnth a i) <> 0)).

Fixpoint hsmooth_fn (f : fn R) (x : list R) {struct f} : Prop :=
  match f with
  | FSum fs => (fix all (l : list (fn R)) : Prop := match l with [] => True | g :: l' => hsmooth_fn g x /\ all l' end) fs
  | FReflect g => hsmooth_fn g (vopp x)
  | FRanges rs =>
      (fix all (l : list (nat * nat * fn R)) : Prop :=
         match l with [] => True | r :: l' => (let '(s, e, g) := r in hsmooth_fn g (slice s e x)) /\ all l' end) rs
  | FABC a b c xl xh => abc_hess_ok a b xl xh x
  | FDemand c => unique_max x
  | _ => True
  end.
Lemma hsmooth_sum_in fs x : hsmooth_fn (FSum fs) x -> forall g, In g fs -> hsmooth_fn g x.
Proof. induction fs as [|a fs IH]; intros H g Hin; [destruct Hin|]. simpl in H. destruct H as [Ha Hr]. destruct Hin as [<-|Hin]; auto. Qed.
Lemma hsmooth_ranges_in rs x : hsmooth_fn (FRanges rs) x -> forall s e g, In (s, e, g) rs -> hsmooth_fn g (slice s e x).
Proof.
  induction rs as [|[[s0 e0] g0] rs IH]; intros Hall s e g Hin; [destruct Hin|].
  simpl in Hall. destruct Hall as [H0 Hr]. destruct Hin as [Heq|Hin]; [injection Heq as <- <- <-; exact H0|now apply IH].
Qed.

(* the model's block-diagonal matrix is the generic block sum *)
Lemma fhess_ranges rs (x : list R) :
  fhess (FRanges rs) x = matrix_of (block_sum rst ren (fun r => fhess (rfn r) (slice (rst r) (ren r) x)) rs) (length x).
Proof.
  cbn [fhess]. unfold matrix_of. apply map_ext. intros j. apply map_ext. intros k.
  unfold blockdiag_entry, block_sum. rewrite map_map. apply vsum_map_ext. intros [[s e] g] _.
  unfold in_range, rst, ren, rfn, entry; cbn [fst snd]. rewrite <- andb_assoc. reflexivity.
Qed.

Lemma fn_hess : forall (f : fn R) (x : list R), wf_fn f (length x) -> hsmooth_fn f x -> hess_at (fderiv f) (fhess f x) x.
Proof.
  intros f. induction f as [|fs IH|g IH|cs|cs offs|fs|rs IH|pl ph xl xh|a b c xl xh|pl ph xl xh|c] using fn_ind'; intros x Hwf Hsm.
  - cbn [fhess]. apply (hess_const_field _ (zeros (length x))). intros s Hs. cbn [fderiv]. now rewrite Hs.
  - cbn [fhess]. apply (hess_at_ext_V (fun y => fold_right vadd (zeros (length y)) (map (fun g => fderiv g y) fs))); [reflexivity|].
    apply hess_sum_list.
    + intros g y Hg Hy. rewrite fderiv_length; [exact Hy|]. rewrite Hy. eapply wf_sum_in; eauto.
    + intros g Hg. apply IH; auto; [eapply wf_sum_in; eauto|eapply hsmooth_sum_in; eauto].
  - cbn [fhess]. apply (hess_at_ext_V (fun y => vopp (fderiv g (vopp y)))); [reflexivity|].
    apply hess_reflect. apply IH; [now rewrite vopp_length|exact Hsm].
  - cbn [fhess]. apply (hess_separable _ (fun i v => horner (pderiv (nth i cs [])) v) (fun i v => horner (pderiv (pderiv (nth i cs []))) v)).
    + intros s j Hs Hj. cbn [fderiv]. now rewrite (nth_map_idx (fun i v => horner (pderiv (nth i cs [])) v)) by lia.
    + intros k _. apply horner_derive.
  - cbn [fhess]. apply (hess_separable _ (fun i v => horner (pderiv (nth i cs [])) (v + nth i offs 0))
                                         (fun i v => horner (pderiv (pderiv (nth i cs []))) (v + nth i offs 0))).
    + intros s j Hs Hj. cbn [fderiv]. now rewrite (nth_map_idx (fun i v => horner (pderiv (nth i cs [])) (v + nth i offs 0))) by lia.
    + intros k _. apply horner_shift_derive.
  - cbn [fhess]. apply (hess_separable _ (fun i v => let '(pl, ph, xl, xh) := nth i fs (0, 0, 0, 0) in hl_deriv v pl ph xl xh)
                                         (fun i v => let '(pl, ph, xl, xh) := nth i fs (0, 0, 0, 0) in hl_hess v pl ph xl xh)).
    + intros s j Hs Hj. cbn [fderiv].
      now rewrite (nth_map_idx (fun i v => let '(pl, ph, xl, xh) := nth i fs (0, 0, 0, 0) in hl_deriv v pl ph xl xh)) by lia.
    + intros k _. destruct (nth k fs (0, 0, 0, 0)) as [[[pl ph] xl] xh]. apply hl_deriv_derive.
  - destruct (wf_ranges_in _ _ Hwf) as [Hc Hwf'].
    rewrite fhess_ranges. apply hess_at_matrix. intros j k Hj Hk.
    apply (is_derive_ext (fun t => nth (j - 0) (ranged_field rst ren (fun r z => fderiv (rfn r) z) rs (upd x k t)) 0)).
    { intros t. now rewrite fderiv_ranges, Nat.sub_0_r. }
    apply (ranged_jac rst ren x (fun r z => fderiv (rfn r) z) _ rs 0 Hc); [| |lia|lia].
    + intros [[s e] g] z Hin Hz. unfold rst, ren, rfn in *; cbn [fst snd] in *. rewrite fderiv_length; [exact Hz|].
      rewrite Hz. now apply (Hwf' s e g).
    + intros [[s e] g] Hin. unfold rst, ren, rfn; cbn [fst snd].
      destruct (chain_in _ _ _ _ _ _ Hc Hin) as (_ & H1 & H2). unfold rst, ren in H1, H2; cbn [fst snd] in H1, H2.
      apply (IH s e g Hin); [rewrite slice_length by lia; now apply (Hwf' s e g)|now apply (hsmooth_ranges_in rs x Hsm)].
  - cbn [fhess]. apply (hess_at_ext_V (fun y => vscale (hl_deriv (vsum y) pl ph xl xh) (ones (length y)))); [reflexivity|].
    apply hess_inner_hl.
  - cbn [fhess]. cbn [hsmooth_fn] in Hsm.
    apply (hess_separable _ (fun i v => abc_deriv v (pnth a i) (pnth b i) (pnth c i) (pnth xl i) (pnth xh i))
                            (fun i v => abc_hess v (pnth a i) (pnth b i) (pnth c i) (pnth xl i) (pnth xh i))).
    + intros s j Hs Hj. cbn [fderiv].
      now rewrite (nth_map_idx (fun i v => abc_deriv v (pnth a i) (pnth b i) (pnth c i) (pnth xl i) (pnth xh i))) by lia.
    + intros k Hk. destruct (Hsm k Hk) as [[e ->]|[-> Hq]]; [apply abc_deriv_derive|apply abc_deriv_derive_b1; exact Hq].
  - cbn [fhess]. apply (hess_separable _ (fun i v => hl_deriv v (pnth pl i) (pnth ph i) (pnth xl i) (pnth xh i))
                                         (fun i v => hl_hess v (pnth pl i) (pnth ph i) (pnth xl i) (pnth xh i))).
    + intros s j Hs Hj. cbn [fderiv].
      now rewrite (nth_map_idx (fun i v => hl_deriv v (pnth pl i) (pnth ph i) (pnth xl i) (pnth xh i))) by lia.
    + intros k _. apply hl_deriv_derive.
  - cbn [fhess]. apply (hess_at_ext_V (fun y => upd (zeros (length y)) (argmax y) (horner (A:=R) (pderiv c) (vmax y)))); [reflexivity|].
    apply hess_demand. exact Hsm.
Qed.

Lemma hess_plus_const (V : list R -> list R) H (p x : list R) : length p = length x ->
  (forall y, length y = length x -> length (V y) = length x) -> hess_at V H x -> hess_at (fun y => vadd (V y) p) H x.
Proof.
  intros Hp HL (A1 & A2 & A3). split; auto. split; auto. intros j k Hj Hk.
  apply (is_derive_ext (fun t => nth j (V (upd x k t)) 0 + nth j p 0)).
  - intros t. rewrite nth_vadd; [reflexivity| |lia]. rewrite HL by apply upd_length. lia.
  - apply is_derive_cplus_r. now apply A3.
Qed.

Lemma hess_adevice n b cb f ucs (s p : list R) : length s = n -> length p = n -> wf_fn f n -> hsmooth_fn f s ->
  hess_at (fun s' => leaf_deriv (Build_leafdev n b cb (KA f ucs)) s' p) (leaf_hess (Build_leafdev n b cb (KA f ucs)) s) s.
Proof.
  intros Hs Hp Hwf Hsm. unfold leaf_deriv, leaf_hess; cbn [ld_kind].
  apply hess_plus_const; [lia| |apply fn_hess; [now rewrite Hs|auto]].
  intros y Hy. rewrite fderiv_length; [exact Hy|]. now rewrite Hy, Hs.
Qed.

(* ---- non-vacuity: a composition with ranges, a reflected polynomial and a peak term ---------------------------------------------------- *)
Definition ex_fn : fn R :=
  FSum [FRanges [(0%nat, 1%nat, FInnerHL (-2) (-1) 0 2); (1%nat, 3%nat, FDemand [1; 0; 0])]; FReflect (FPoly2D [[1; 0]; [2; 1]; [3; 0; 0]])].
Lemma example_fn : wf_fn ex_fn 3 /\ smooth_fn ex_fn [1; 2; 3] /\ hsmooth_fn ex_fn [1; 2; 3].
Proof.
  assert (U : unique_max (slice 1 3 [1; 2; 3])).
  { right. exists 1%nat. split; [simpl; lia|]. intros j Hj Hne. simpl in Hj. destruct j as [|[|j]]; simpl; try lra; lia. }
  repeat split; simpl; auto; try (unfold rst, ren; simpl; lia); try exact U.
Qed.
