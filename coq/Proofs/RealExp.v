(* Non-integer exponents of the ABC cost (IDevice accepts any real b > 0): the executable (rational) instance covers
   integer exponents only; at the real instance x ** b is Rpower for a non-integer b. Gradient and Hessian of the
   generated kernels for EVERY real exponent b > 0 at points where the scaled flow q is positive. *)
From Coq Require Import ZArith Reals List Bool Arith Lia Lra.
From Coquelicot Require Import Coquelicot.
From DK Require Import Num NumR Vec.
From DK.Gen Require Import Kernels.
From DK.Model Require Import Leaf Fn Dev.
From DK.Proofs Require Import RVec KernelR Calc C01Proofs.
Local Open Scope R_scope.

Definition is_int (e : R) : Prop := IZR (up e - 1) = e.

Lemma Rpw_nonint x e : ~ is_int e -> Rpw x e = Rpower x e.
Proof. intros H. unfold Rpw. destruct (Req_EM_T (IZR (up e - 1)) e) as [E|E]; [contradiction|reflexivity]. Qed.
Lemma Rpw_int x e : is_int e -> Rpw x e = powerRZ x (up e - 1).
Proof. intros H. unfold Rpw. destruct (Req_EM_T (IZR (up e - 1)) e) as [E|E]; [reflexivity|contradiction]. Qed.

Lemma is_int_minus_1 e : is_int e -> is_int (e - 1).
Proof.
  unfold is_int. intros H. set (z := (up e - 1)%Z) in *. rewrite <- H.
  replace (IZR z - 1) with (IZR (z - 1)) by (rewrite minus_IZR; reflexivity). rewrite up_IZR.
  replace (z - 1 + 1 - 1)%Z with (z - 1)%Z by ring. reflexivity.
Qed.
Lemma nonint_minus_1 e : ~ is_int e -> ~ is_int (e - 1).
Proof.
  intros H H1. apply H. unfold is_int in *. set (z := (up (e - 1) - 1)%Z) in *.
  assert (E : e = IZR (z + 1)) by (rewrite plus_IZR; simpl; lra).
  rewrite E at 1. rewrite up_IZR. replace (z + 1 + 1 - 1)%Z with (z + 1)%Z by ring. symmetry; exact E.
Qed.

(* d/du u**e = e * u**(e-1) at u > 0, for every real exponent *)
Lemma Rpw_derive u e : 0 < u -> is_derive (fun t => Rpw t e) u (e * Rpw u (e - 1)).
Proof.
  intros Hu. destruct (Req_EM_T (IZR (up e - 1)) e) as [Hi|Hn].
  - (* integer exponent z *)
    assert (Hi' : is_int e) by exact Hi. rewrite (Rpw_int u (e - 1)) by (now apply is_int_minus_1).
    set (z := (up e - 1)%Z) in *.
    assert (Ez : (up (e - 1) - 1 = z - 1)%Z).
    { rewrite <- Hi. replace (IZR z - 1) with (IZR (z - 1)) by (rewrite minus_IZR; reflexivity). rewrite up_IZR. ring. }
    rewrite Ez.
    apply (is_derive_ext_near (fun t => powerRZ t z) (fun t => Rpw t e) u _ u Hu).
    + intros t _. now rewrite Rpw_int.
    + rewrite <- Hi.
      destruct z as [|p|p].
      * simpl. auto_derive; [exact I|]. ring.
      * simpl powerRZ at 1. 
        apply (is_derive_ext (fun t => t ^ Pos.to_nat p)); [reflexivity|].
        auto_derive; [exact I|].
        replace (Z.pos p - 1)%Z with (Z.of_nat (pred (Pos.to_nat p))) by lia.
        rewrite <- pow_powerRZ.
        assert (E : IZR (Z.pos p) = INR (Pos.to_nat p)) by (rewrite INR_IZR_INZ, positive_nat_Z; reflexivity).
        rewrite E. ring.
      * (* negative integer: 1 / t^n *)
        simpl powerRZ at 1.
        apply (is_derive_ext (fun t => / t ^ Pos.to_nat p)); [reflexivity|].
        auto_derive; [apply pow_nonzero; lra|].
        replace (Z.neg p - 1)%Z with (Z.neg (p + 1)) by lia. simpl powerRZ.
        rewrite Pos2Nat.inj_add. change (Pos.to_nat 1) with 1%nat. rewrite Nat.add_1_r.
        assert (E : IZR (Z.neg p) = - INR (Pos.to_nat p)).
        { change (IZR (Z.neg p)) with (- IZR (Z.pos p)). now rewrite INR_IZR_INZ, positive_nat_Z. }
        rewrite E.
        destruct (Pos2Nat.is_succ p) as [k Hk]. rewrite Hk. simpl pred. simpl pow. rewrite S_INR.
        field. split; [apply pow_nonzero|]; lra.
  - (* non-integer exponent: Rpower *)
    assert (Hn' : ~ is_int e) by exact Hn. rewrite (Rpw_nonint u (e - 1)) by (now apply nonint_minus_1).
    apply (is_derive_ext (fun t => Rpower t e)); [intros t; now rewrite Rpw_nonint|].
    unfold Rpower. auto_derive; [exact Hu|].
    assert (E : exp ((e - 1) * ln u) = exp (e * ln u) * / u).
    { replace ((e - 1) * ln u) with (e * ln u + - ln u) by ring. rewrite exp_plus, exp_Ropp, exp_ln by auto. reflexivity. }
    rewrite E. field. lra.
Qed.

(* marginal cost of the ABC kernel for every real exponent, where q > 0 (or the slot has zero width) *)
Lemma abc_cost_derive_real x a b c xl xh : (xl = xh \/ 0 < abc_q (A:=R) x xl xh a) ->
  is_derive (fun t => abc_cost (A:=R) t a b c xl xh) x (abc_deriv (A:=R) x a b c xl xh).
Proof.
  intros Hq. destruct (Req_EM_T xl xh) as [->|Hne].
  - unfold abc_cost, abc_deriv. numR. destruct (Reqb xh xh) eqn:E; [|apply Reqb_false in E; congruence].
    auto_derive; [exact I|ring].
  - destruct Hq as [?|Hq]; [contradiction|].
    unfold abc_cost, abc_deriv. numR. destruct (Reqb xl xh) eqn:E; [apply Reqb_true in E; contradiction|].
    pose proof (abc_q_derive x xl xh a Hne) as Dq.
    pose proof (Rpw_derive (abc_q (A:=R) x xl xh a) b Hq) as Dp.
    pose proof (is_derive_comp (fun u => Rpw u b) (fun t => abc_q (A:=R) t xl xh a) x _ _ Dp Dq) as D.
    unfold scal in D; simpl in D; unfold mult in D; simpl in D.
    apply (is_derive_cmult c) in D.
    replace (- c * b * Rpw (abc_q x xl xh a) (b - 1) * ((1 - a) / (xh - xl)))
      with (c * (- ((1 - a) / (xh - xl)) * (b * Rpw (abc_q x xl xh a) (b - 1)))) by ring.
    exact D.
Qed.

(* second derivative for every real exponent, where q > 0 (or the slot has zero width) *)
Lemma abc_deriv_derive_real x a b c xl xh : (xl = xh \/ 0 < abc_q (A:=R) x xl xh a) ->
  is_derive (fun t => abc_deriv (A:=R) t a b c xl xh) x (abc_hess (A:=R) x a b c xl xh).
Proof.
  intros Hq. destruct (Req_EM_T xl xh) as [->|Hne].
  - unfold abc_hess, abc_deriv. numR. destruct (Reqb xh xh) eqn:E; [|apply Reqb_false in E; congruence].
    auto_derive; [exact I|ring].
  - destruct Hq as [?|Hq]; [contradiction|].
    pose proof (abc_q_derive x xl xh a Hne) as Dq.
    pose proof (Rpw_derive (abc_q (A:=R) x xl xh a) (b - 1) Hq) as Dp.
    pose proof (is_derive_comp_R (fun u => Rpw u (b - 1)) (fun t => abc_q (A:=R) t xl xh a) x _ _ Dp Dq) as D.
    unfold abc_hess, abc_deriv. numR. destruct (Reqb xl xh) eqn:E; [apply Reqb_true in E; contradiction|].
    apply (is_derive_ext (fun t => (- c * b * ((1 - a) / (xh - xl))) * Rpw (abc_q (A:=R) t xl xh a) (b - 1))).
    { intros t. simpl. ring. }
    apply (is_derive_cmult (- c * b * ((1 - a) / (xh - xl)))) in D.
    destruct (Reqb b 1) eqn:E1.
    + apply Reqb_true in E1. subst b. replace (1 - 1 - 1) with (-1) in D by ring.
      replace (- c * 1 * ((1 - a) / (xh - xl)) * (- ((1 - a) / (xh - xl)) * ((1 - 1) * Rpw (abc_q x xl xh a) (-1)))) with 0 in D by ring.
      exact D.
    + rewrite Rpw_2. replace (b - 1 - 1) with (b - 2) in D by ring.
      replace (c * b * (b - 1) * Rpw (abc_q x xl xh a) (b - 2) * ((1 - a) / (xh - xl) * ((1 - a) / (xh - xl))))
        with (- c * b * ((1 - a) / (xh - xl)) * (- ((1 - a) / (xh - xl)) * ((b - 1) * Rpw (abc_q x xl xh a) (b - 2)))) by ring.
      exact D.
Qed.

(* class level: IDevice with arbitrary real exponents, at flows where every slot's scaled flow q is positive
   (always the case strictly inside the bounds when a >= 0; at the upper bound when a > 0) *)
Definition q_positive (a : param R) (bnd : list (R * R)) (s : list R) : Prop :=
  forall i, (i < length s)%nat -> lo bnd i = hi bnd i \/ 0 < abc_q (A:=R) (nth i s 0) (lo bnd i) (hi bnd i) (pnth a i).

Lemma grad_idevice_real n b cb a bp c s p : length s = n -> length p = n -> q_positive a b s ->
  grad_at (fun s' => leaf_cost (Build_leafdev n b cb (KI a bp c)) s' p) (leaf_deriv (Build_leafdev n b cb (KI a bp c)) s p) s.
Proof.
  intros Hs Hp Hq. unfold leaf_cost, leaf_deriv; cbn [ld_kind ld_n ld_bounds]. unfold idev_cost, idev_deriv, idev_pref. numR.
  apply grad_at_plus; [|apply grad_dot; lia].
  apply (grad_sepsum (fun i v => abc_cost v (pnth a i) (pnth bp i) (pnth c i) (lo b i) (hi b i))
                     (fun i v => abc_deriv v (pnth a i) (pnth bp i) (pnth c i) (lo b i) (hi b i))).
  intros k Hk. apply abc_cost_derive_real. apply Hq; auto.
Qed.

Lemma q_positive_interior a b s : (forall i, (i < length s)%nat -> 0 <= pnth a i /\ (lo b i = hi b i \/ lo b i <= nth i s 0 < hi b i)) ->
  q_positive a b s.
Proof.
  intros H i Hi. destruct (H i Hi) as [Ha [E|[H1 H2]]]; [left; exact E|right].
  assert (Hne : lo b i <> hi b i) by lra. rewrite abc_q_affine by auto.
  assert (0 <= (nth i s 0 - lo b i) / (hi b i - lo b i) < 1).
  { split; [apply Rmult_le_pos; [lra|left; apply Rinv_0_lt_compat; lra]|].
    apply (Rmult_lt_reg_r (hi b i - lo b i)); [lra|]. unfold Rdiv. rewrite Rmult_assoc, Rinv_l by lra. lra. }
  nra.
Qed.
