(* The deriv methods of the leaf classes as regenerated in Gen/Classes.v = the model (used by C01; kept apart from Proofs/GenClasses.v,
   the cost side used by C15, so that a change to one method does not touch the proofs about the others). *)
From Coq Require Import ZArith Reals List Bool Arith Lia Lra.
From DK Require Import Num NumR Vec.
From DK.Gen Require Import Kernels Classes.
From DK.Model Require Import Leaf Fn Dev.
From DK.Proofs Require Import VecFacts RVec KernelR Calc C15Proofs C01Proofs.
Import ListNotations.
Local Open Scope R_scope.
From DK.Proofs Require Import VecAlg GenClasses.

Lemma gen_device_deriv n s p : Device_deriv (A:=R) n s p = dev_deriv n p.
Proof. reflexivity. Qed.

Lemma gen_cdevice_deriv n a b s p : CDevice_deriv (A:=R) n a b s p = cdev_deriv n a p.
Proof.
  first [reflexivity | unfold CDevice_deriv, cdev_deriv, vadd, vscale; f_equal; apply map_ext; intros x; numR; ring].
Qed.

Lemma gen_idevice_deriv n a b c bnd s p : IDevice_deriv (A:=R) n a b c bnd s p = idev_deriv a b c bnd s p.
Proof. reflexivity. Qed.

Lemma gen_idevice2_deriv n pl ph bnd s p : IDevice2_deriv (A:=R) n pl ph bnd s p = idev2_deriv pl ph bnd s p.
Proof. reflexivity. Qed.

Lemma gen_gdevice_deriv n g s p : length s = n -> length p = n -> GDevice_deriv (A:=R) n g s p = gdev_deriv g s p.
Proof.
  intros Hs Hp. first [reflexivity | unfold GDevice_deriv, gk_d1, gdev_deriv].
  change (map2 (fun x y => x - y)%num) with (vsub (A:=R)).
  apply list_eq_nth.
  - rewrite vsub_length, (idx_map_length (fun i v => horner (pderiv (gpoly g i)) v)), map_length.
    rewrite (idx_map_length (fun i x => nth i p 0 - horner (pderiv (gpoly g i)) (- x))). lia.
  - intros k Hk. rewrite vsub_length, (idx_map_length (fun i v => horner (pderiv (gpoly g i)) v)), map_length in Hk.
    rewrite nth_vsub by (rewrite ?(idx_map_length (fun i v => horner (pderiv (gpoly g i)) v)), ?map_length; lia).
    rewrite (gk_nth (fun i v => horner (pderiv (gpoly g i)) v)) by lia.
    rewrite (nth_map_idx (fun i x => nth i p 0 - horner (pderiv (gpoly g i)) (- x))) by lia. reflexivity.
Qed.
