(* C18: projections. Theorems over R for lists of every length about the executable model Model/Projection.v. *)
From Coq Require Import ZArith Reals List Bool Arith Lia Lra Psatz.
From DK Require Import Num NumR Vec.
From DK.Model Require Import Leaf Projection.
From DK.Proofs Require Import VecFacts RVec VecAlg.
Import ListNotations.
Local Open Scope R_scope.

Ltac numR' := unfold clamp, nmax, nmin, nabs, nltb in *; cbn [nadd nmul nsub ndiv nopp nleb neqb nofZ n0 n1 NumR] in *.

(* ------------------------------------------------------------------------------------------------ *)
(* scalars                                                                                            *)
(* ------------------------------------------------------------------------------------------------ *)
Lemma clamp_bounds l h x : l <= h -> l <= clamp (A:=R) l h x <= h.
Proof.
  intros Hlh. numR'. unfold Rleb. destruct (Rle_dec h x) as [H1|H1].
  - destruct (Rle_dec l h) as [H2|H2]; lra.
  - destruct (Rle_dec l x) as [H2|H2]; lra.
Qed.
Lemma clamp_id l h x : l <= x <= h -> clamp (A:=R) l h x = x.
Proof.
  intros Hx. numR'. unfold Rleb. destruct (Rle_dec h x) as [H1|H1].
  - destruct (Rle_dec l h) as [H2|H2]; lra.
  - destruct (Rle_dec l x) as [H2|H2]; lra.
Qed.
Lemma clamp_near l h x y : l <= y <= h -> (x - clamp (A:=R) l h x) * (x - clamp l h x) <= (x - y) * (x - y).
Proof.
  intros Hy. numR'. unfold Rleb. destruct (Rle_dec h x) as [H1|H1].
  - destruct (Rle_dec l h) as [H2|H2]; [nra|exfalso; lra].
  - destruct (Rle_dec l x) as [H2|H2]; [pose proof (Rle_0_sqr (x - y)) as Hs; unfold Rsqr in Hs; lra|].
    assert (0 <= l - x) by lra. assert (l - x <= y - x) by lra. nra.
Qed.
Lemma clamp_close l h x tol : l <= h -> 0 <= tol -> (Rabs (clamp (A:=R) l h x - x) <= tol <-> l - tol <= x <= h + tol).
Proof.
  intros Hlh Ht. numR'. unfold Rleb. destruct (Rle_dec h x) as [H1|H1].
  - destruct (Rle_dec l h) as [H2|H2]; unfold Rabs; destruct (Rcase_abs _) as [H3|H3]; split; intros; lra.
  - destruct (Rle_dec l x) as [H2|H2]; unfold Rabs; destruct (Rcase_abs _) as [H3|H3]; split; intros; lra.
Qed.
Lemma nabs_Rabs (d : R) : nabs d = Rabs d.
Proof.
  numR'. unfold Rleb, Rabs. destruct (Rle_dec 0 d) as [H|H]; destruct (Rcase_abs d) as [H'|H']; lra.
Qed.

(* ------------------------------------------------------------------------------------------------ *)
(* membership test  (np.abs(q - p) <= tol).all()                                                       *)
(* ------------------------------------------------------------------------------------------------ *)
Definition close_to (tol : R) (q p : list R) : Prop :=
  length q = length p /\ forall i, (i < length p)%nat -> Rabs (nth i q 0 - nth i p 0) <= tol.

Lemma linf_le_cons tol a q b p :
  linf_le (A:=R) tol (a :: q) (b :: p) = Rleb (Rabs (a - b)) tol && linf_le tol q p.
Proof. unfold linf_le. rewrite vsub_cons. cbn [forallb]. now rewrite nabs_Rabs. Qed.

Lemma linf_le_true tol q p : length q = length p -> (linf_le (A:=R) tol q p = true <-> close_to tol q p).
Proof.
  revert p; induction q as [|a q IH]; intros [|b p] HL; simpl in HL; try lia.
  - split; [intros _; split; [reflexivity|simpl; intros; lia]|reflexivity].
  - rewrite linf_le_cons, andb_true_iff, Rleb_true, IH by lia. split.
    + intros [H1 [H2 H3]]. split; [simpl; lia|]. intros [|i] Hi; simpl; [exact H1|apply H3; simpl in Hi; lia].
    + intros [H1 H2]. split; [apply (H2 0%nat); simpl; lia|]. split; [simpl in H1; lia|].
      intros i Hi. apply (H2 (S i)). simpl; lia.
Qed.

Lemma close_to_refl tol p : 0 <= tol -> close_to tol p p.
Proof. intros Ht. split; auto. intros i _. rewrite Rminus_diag_eq by reflexivity. rewrite Rabs_R0. exact Ht. Qed.

Lemma close_to_zero q p : close_to 0 q p -> q = p.
Proof.
  intros [HL H]. apply list_eq_nth; auto. intros i Hi. rewrite HL in Hi. specialize (H i Hi).
  pose proof (Rabs_pos (nth i q 0 - nth i p 0)). assert (E : Rabs (nth i q 0 - nth i p 0) = 0) by lra.
  destruct (Req_dec (nth i q 0 - nth i p 0) 0) as [Z|NZ]; [lra|]. apply Rabs_no_R0 in NZ. contradiction.
Qed.

(* generic facts about is_in_of *)
Lemma is_in_of_true tol (P : list R -> pres (list R)) x :
  (forall q, P x = POk q -> length q = length x) ->
  (is_in_of tol P x = POk true <-> exists q, P x = POk q /\ close_to tol q x).
Proof.
  intros HL. unfold is_in_of. destruct (P x) as [q| | |] eqn:E; cbn [pbind].
  - specialize (HL q eq_refl). split.
    + intros H. injection H as H. exists q. split; auto. now apply linf_le_true.
    + intros [q' [E' Hc]]. injection E' as <-. f_equal. now apply linf_le_true.
  - split; [discriminate|intros [q [E' _]]; discriminate].
  - split; [discriminate|intros [q [E' _]]; discriminate].
  - split; [discriminate|intros [q [E' _]]; discriminate].
Qed.

(* ------------------------------------------------------------------------------------------------ *)
(* HyperCube                                                                                          *)
(* ------------------------------------------------------------------------------------------------ *)
Definition in_box (b : list (R * R)) (x : list R) : Prop := List.Forall2 (fun lh v => fst lh <= v <= snd lh) b x.
Definition box_wf (b : list (R * R)) : Prop := List.Forall (fun lh => fst lh <= snd lh) b.
Definition widen (tol : R) (b : list (R * R)) : list (R * R) := map (fun lh => (fst lh - tol, snd lh + tol)) b.

Lemma in_box_length b x : in_box b x -> length x = length b.
Proof. intros H. induction H as [|lh v b x Hv Hr IH]; simpl; [reflexivity|now rewrite IH]. Qed.

Lemma in_box_nth b x : in_box b x <-> length x = length b /\ forall i, (i < length b)%nat -> lo b i <= nth i x 0 <= hi b i.
Proof.
  split.
  - intros H. split; [now apply in_box_length|]. induction H as [|lh v b x Hv Hr IH]; intros i Hi; simpl in Hi; [lia|].
    destruct i as [|i]; [exact Hv|]. apply IH. lia.
  - revert x; induction b as [|lh b IH]; intros [|v x] [HL H]; simpl in HL; try lia; constructor.
    + apply (H 0%nat). simpl; lia.
    + apply IH. split; [lia|]. intros i Hi. apply (H (S i)). simpl; lia.
Qed.

Lemma box_clamp_cons lh b v x : box_clamp (A:=R) (lh :: b) (v :: x) = clamp (fst lh) (snd lh) v :: box_clamp b x.
Proof. reflexivity. Qed.
Lemma box_clamp_length b (x : list R) : length x = length b -> length (box_clamp b x) = length x.
Proof. intros HL. unfold box_clamp. rewrite map2_length. lia. Qed.

Lemma box_clamp_in b x : box_wf b -> length x = length b -> in_box b (box_clamp b x).
Proof.
  revert x; induction b as [|lh b IH]; intros [|v x] Hwf HL; simpl in HL; try lia; [constructor|].
  inversion Hwf as [|? ? Hlh Hwf']; subst. rewrite box_clamp_cons. constructor; [now apply clamp_bounds|apply IH; auto].
Qed.
Lemma box_clamp_near b x y : in_box b y -> length x = length b -> dist2 x (box_clamp b x) <= dist2 x y.
Proof.
  intros Hy. revert x. induction Hy as [|lh w b y Hw Hr IH]; intros [|v x] HL; simpl in HL; try lia.
  - unfold box_clamp; simpl. lra.
  - rewrite box_clamp_cons, !dist2_cons. pose proof (clamp_near (fst lh) (snd lh) v w Hw). specialize (IH x ltac:(lia)). lra.
Qed.
Lemma box_clamp_id b x : in_box b x -> box_clamp b x = x.
Proof.
  intros H. induction H as [|lh v b x Hv Hr IH]; [reflexivity|]. rewrite box_clamp_cons, IH. f_equal. now apply clamp_id.
Qed.

Lemma box_project_ok b (x : list R) : length x = length b -> box_project b x = POk (box_clamp b x).
Proof. intros HL. unfold box_project. rewrite HL, Nat.eqb_refl. reflexivity. Qed.
Lemma box_project_inv b (x q : list R) : box_project b x = POk q -> length x = length b /\ q = box_clamp b x.
Proof.
  unfold box_project. destruct (Nat.eqb (length x) (length b)) eqn:E; [|discriminate].
  apply Nat.eqb_eq in E. intros H. injection H as <-. auto.
Qed.
Lemma box_project_raises b (x : list R) : box_project b x = PValueError <-> length x <> length b.
Proof.
  unfold box_project. destruct (Nat.eqb (length x) (length b)) eqn:E.
  - apply Nat.eqb_eq in E. split; [discriminate|contradiction].
  - apply Nat.eqb_neq in E. split; auto.
Qed.

Lemma box_member b x q : box_wf b -> box_project b x = POk q -> in_box b q.
Proof. intros Hwf H. apply box_project_inv in H as [HL ->]. now apply box_clamp_in. Qed.
Lemma box_nearest b x q y : box_project b x = POk q -> in_box b y -> dist2 x q <= dist2 x y.
Proof. intros H Hy. apply box_project_inv in H as [HL ->]. now apply box_clamp_near. Qed.
Lemma box_idempotent b x : in_box b x -> box_project b x = POk x.
Proof. intros H. rewrite box_project_ok by now apply in_box_length. now rewrite box_clamp_id. Qed.

Lemma box_close b x tol : box_wf b -> 0 <= tol -> length x = length b ->
  (close_to tol (box_clamp b x) x <-> in_box (widen tol b) x).
Proof.
  intros Hwf Ht. revert x. induction Hwf as [|lh b Hlh Hwf IH]; intros [|v x] HL; simpl in HL; try lia.
  - split; [constructor|intros _; split; [reflexivity|simpl; intros; lia]].
  - rewrite box_clamp_cons. cbn [widen map]. specialize (IH x ltac:(lia)). split.
    + intros [H1 H2]. constructor.
      * cbn [fst snd]. apply (clamp_close _ _ v tol Hlh Ht). apply (H2 0%nat). simpl; lia.
      * apply IH. split; [simpl in H1; lia|]. intros i Hi. apply (H2 (S i)). simpl; lia.
    + intros H. inversion H as [|? ? ? ? Hv Hr]; subst. cbn [fst snd] in Hv. apply IH in Hr as [H1 H2]. split; [simpl; lia|].
      intros [|i] Hi; simpl; [now apply clamp_close|apply H2; simpl in Hi; lia].
Qed.
Lemma box_is_in b x tol : box_wf b -> 0 <= tol -> length x = length b ->
  (is_in_of tol (box_project b) x = POk true <-> in_box (widen tol b) x).
Proof.
  intros Hwf Ht HL. rewrite is_in_of_true.
  - rewrite box_project_ok by auto. rewrite <- box_close by auto. split.
    + intros [q [E Hc]]. injection E as <-. exact Hc.
    + intros Hc. eauto.
  - intros q E. apply box_project_inv in E as [_ ->]. now apply box_clamp_length.
Qed.
Lemma widen_0 b : widen 0 b = b.
Proof.
  induction b as [|[l h] b IH]; [reflexivity|]. change (widen 0 ((l, h) :: b)) with ((l - 0, h + 0) :: widen 0 b).
  rewrite IH. f_equal. f_equal; ring.
Qed.

(* ------------------------------------------------------------------------------------------------ *)
(* HalfSpace                                                                                          *)
(* ------------------------------------------------------------------------------------------------ *)
Definition in_half (n : list R) (off sg : R) (x : list R) : Prop :=
  (0 < sg /\ off <= dot n x) \/ (sg < 0 /\ dot n x <= off).
Definition out_half (n : list R) (off sg : R) (x : list R) : Prop :=
  (0 < sg /\ dot n x < off) \/ (sg < 0 /\ off < dot n x).

Lemma Rltb_true (x y : R) : nltb x y = true <-> x < y.
Proof. numR'. unfold Rleb. destruct (Rle_dec y x); simpl; split; intros; try discriminate; lra. Qed.
Lemma Rltb_false (x y : R) : nltb x y = false <-> y <= x.
Proof. numR'. unfold Rleb. destruct (Rle_dec y x); simpl; split; intros; try discriminate; lra. Qed.

Lemma half_viol_true n off sg p : half_viol (A:=R) n off sg p = true <-> out_half n off sg p.
Proof.
  unfold half_viol, out_half. rewrite orb_true_iff, !andb_true_iff, !Rltb_true, (dot_comm p n). cbn [n0 NumR]. tauto.
Qed.
Lemma half_viol_false n off sg p : sg <> 0 -> (half_viol (A:=R) n off sg p = false <-> in_half n off sg p).
Proof.
  intros Hs. split.
  - intros H. destruct (Rlt_dec 0 sg) as [Hp|Hp].
    + left. split; auto. destruct (Rle_dec off (dot n p)) as [|Hn]; auto. exfalso.
      assert (T : half_viol n off sg p = true) by (apply half_viol_true; left; lra). congruence.
    + right. assert (sg < 0) by lra. split; auto. destruct (Rle_dec (dot n p) off) as [|Hn]; auto. exfalso.
      assert (T : half_viol n off sg p = true) by (apply half_viol_true; right; lra). congruence.
  - intros Hin. destruct (half_viol n off sg p) eqn:E; auto. apply half_viol_true in E. unfold in_half, out_half in *. lra.
Qed.

Lemma half_shift_length n off (p : list R) : length p = length n -> length (half_shift n off p) = length p.
Proof. intros HL. unfold half_shift. rewrite vadd_length, vscale_length. lia. Qed.
Lemma dot_half_shift n off (p : list R) : dot n n <> 0 -> length p = length n -> dot n (half_shift n off p) = off.
Proof.
  intros Hnn HL. unfold half_shift. rewrite dot_vadd_r by (rewrite vscale_length; auto). rewrite dot_vscale_r. numR'. field. exact Hnn.
Qed.
Lemma half_shift_obtuse n off (p y : list R) : dot n n <> 0 -> length p = length n -> length y = length n ->
  dot (vsub p (half_shift n off p)) (vsub y (half_shift n off p)) = - ((off - dot n p) / dot n n) * (dot n y - off).
Proof.
  intros Hnn HL Hy. pose proof (dot_half_shift n off p Hnn HL) as Hq.
  assert (E : vsub p (half_shift n off p) = vscale (- ((off - dot n p) / dot n n)) n).
  { unfold half_shift. rewrite vsub_vadd_cancel_l by (rewrite vscale_length; auto). rewrite vscale_vscale. f_equal. numR'. ring. }
  rewrite E, dot_vscale_l, dot_vsub_r by (rewrite half_shift_length; lia). rewrite Hq. ring.
Qed.

Lemma half_clamp_length n off sg (x : list R) : length x = length n -> length (half_clamp n off sg x) = length x.
Proof. intros HL. unfold half_clamp. destruct (half_viol n off sg x); auto. now apply half_shift_length. Qed.

Lemma half_clamp_in n off sg x : dot n n <> 0 -> sg <> 0 -> length x = length n -> in_half n off sg (half_clamp n off sg x).
Proof.
  intros Hnn Hs HL. unfold half_clamp. destruct (half_viol n off sg x) eqn:E.
  - apply half_viol_true in E. unfold in_half. rewrite dot_half_shift by auto. destruct E as [[? _]|[? _]]; [left|right]; lra.
  - now apply half_viol_false in E.
Qed.
Lemma half_clamp_near n off sg x y : dot n n <> 0 -> length x = length n -> length y = length n ->
  in_half n off sg y -> dist2 x (half_clamp n off sg x) <= dist2 x y.
Proof.
  intros Hnn HL Hy Hin. unfold half_clamp. destruct (half_viol n off sg x) eqn:E.
  - apply nearest_of_obtuse; [rewrite half_shift_length; auto|lia|].
    rewrite half_shift_obtuse by auto. apply half_viol_true in E.
    assert (Hpos : 0 < dot n n) by (pose proof (dot_self_nonneg n); lra).
    assert (Hinv : 0 < / dot n n) by now apply Rinv_0_lt_compat.
    unfold Rdiv. destruct E as [[Hs Hv]|[Hs Hv]]; destruct Hin as [[Hs' Hw]|[Hs' Hw]]; try lra.
    + assert (0 <= (off - dot n x) * / dot n n) by (apply Rmult_le_pos; lra). nra.
    + assert (0 <= (dot n x - off) * / dot n n) by (apply Rmult_le_pos; lra). nra.
  - rewrite dist2_refl. apply dist2_nonneg.
Qed.
Lemma half_clamp_id n off sg x : in_half n off sg x -> half_clamp n off sg x = x.
Proof.
  intros Hin. unfold half_clamp. destruct (half_viol n off sg x) eqn:E; auto.
  apply half_viol_true in E. unfold in_half, out_half in *. lra.
Qed.

Lemma half_project_ok n off sg (x : list R) : length x = length n -> half_project n off sg x = POk (half_clamp n off sg x).
Proof. intros HL. unfold half_project. rewrite HL, Nat.eqb_refl. reflexivity. Qed.
Lemma half_project_inv n off sg (x q : list R) : half_project n off sg x = POk q -> length x = length n /\ q = half_clamp n off sg x.
Proof.
  unfold half_project. destruct (Nat.eqb (length x) (length n)) eqn:E; [|discriminate].
  apply Nat.eqb_eq in E. intros H. injection H as <-. auto.
Qed.
Lemma half_project_raises n off sg (x : list R) : half_project n off sg x = PValueError <-> length x <> length n.
Proof.
  unfold half_project. destruct (Nat.eqb (length x) (length n)) eqn:E.
  - apply Nat.eqb_eq in E. split; [discriminate|contradiction].
  - apply Nat.eqb_neq in E. split; auto.
Qed.

Lemma half_member n off sg x q : dot n n <> 0 -> sg <> 0 -> half_project n off sg x = POk q -> in_half n off sg q.
Proof. intros Hnn Hs H. apply half_project_inv in H as [HL ->]. now apply half_clamp_in. Qed.
Lemma half_nearest n off sg x q y : dot n n <> 0 -> half_project n off sg x = POk q -> length y = length n ->
  in_half n off sg y -> dist2 x q <= dist2 x y.
Proof. intros Hnn H Hy Hin. apply half_project_inv in H as [HL ->]. now apply half_clamp_near. Qed.
Lemma half_idempotent n off sg x : length x = length n -> in_half n off sg x -> half_project n off sg x = POk x.
Proof. intros HL Hin. rewrite half_project_ok by auto. now rewrite half_clamp_id. Qed.

Lemma half_is_in_complete n off sg x tol : 0 <= tol -> length x = length n -> in_half n off sg x ->
  is_in_of tol (half_project n off sg) x = POk true.
Proof.
  intros Ht HL Hin. apply is_in_of_true.
  - intros q E. apply half_project_inv in E as [_ ->]. now apply half_clamp_length.
  - exists x. split; [now apply half_idempotent|now apply close_to_refl].
Qed.
Lemma half_is_in_sound n off sg x tol : dot n n <> 0 -> sg <> 0 -> is_in_of tol (half_project n off sg) x = POk true ->
  exists q, in_half n off sg q /\ close_to tol q x.
Proof.
  intros Hnn Hs H. apply is_in_of_true in H.
  - destruct H as [q [E Hc]]. exists q. split; auto. eapply half_member; eauto.
  - intros q E. apply half_project_inv in E as [HL ->]. now apply half_clamp_length.
Qed.
Lemma half_is_in_exact n off sg x : dot n n <> 0 -> sg <> 0 -> length x = length n ->
  (is_in_of 0 (half_project n off sg) x = POk true <-> in_half n off sg x).
Proof.
  intros Hnn Hs HL. split.
  - intros H. apply half_is_in_sound in H as [q [Hq Hc]]; auto. apply close_to_zero in Hc. now subst q.
  - apply half_is_in_complete; auto. lra.
Qed.

(* the formula the code computes: normal/|normal|, offset/|normal| *)
Definition half_clamp_normalised (n : list R) (off sg : R) (p : list R) : list R :=
  let nrm := sqrt (dot n n) in
  let nh := vscale (/ nrm) n in
  let oh := off / nrm in
  if (nltb 0 sg && nltb (dot p nh) oh) || (nltb sg 0 && nltb oh (dot p nh))
  then vadd p (vscale (oh - dot nh p) nh) else p.

Lemma halfspace_form n off sg p : dot n n <> 0 -> half_clamp_normalised n off sg p = half_clamp n off sg p.
Proof.
  intros Hnn. assert (Hpos : 0 < dot n n) by (pose proof (dot_self_nonneg n); lra).
  set (nrm := sqrt (dot n n)). assert (Hn : 0 < nrm) by now apply sqrt_lt_R0.
  assert (Hsq : nrm * nrm = dot n n) by (apply sqrt_sqrt; lra).
  unfold half_clamp_normalised, half_clamp, half_viol. fold nrm.
  rewrite (dot_comm p (vscale (/ nrm) n)), !dot_vscale_l, (dot_comm p n).
  assert (Hinv : 0 < / nrm) by now apply Rinv_0_lt_compat.
  assert (C1 : nltb (/ nrm * dot n p) (off / nrm) = nltb (dot n p) off).
  { destruct (nltb (dot n p) off) eqn:E.
    - apply Rltb_true in E. apply Rltb_true. unfold Rdiv. rewrite (Rmult_comm off). now apply Rmult_lt_compat_l.
    - apply Rltb_false in E. apply Rltb_false. unfold Rdiv. rewrite (Rmult_comm off). apply Rmult_le_compat_l; lra. }
  assert (C2 : nltb (off / nrm) (/ nrm * dot n p) = nltb off (dot n p)).
  { destruct (nltb off (dot n p)) eqn:E.
    - apply Rltb_true in E. apply Rltb_true. unfold Rdiv. rewrite (Rmult_comm off). now apply Rmult_lt_compat_l.
    - apply Rltb_false in E. apply Rltb_false. unfold Rdiv. rewrite (Rmult_comm off). apply Rmult_le_compat_l; lra. }
  rewrite C1, C2. cbn [n0 NumR].
  destruct ((nltb 0 sg && nltb (dot n p) off) || (nltb sg 0 && nltb off (dot n p))); auto.
  unfold half_shift. f_equal. rewrite vscale_vscale. f_equal. numR'. rewrite <- Hsq. field. lra.
Qed.

(* ------------------------------------------------------------------------------------------------ *)
(* Slice (slab between two parallel hyperplanes)                                                      *)
(* ------------------------------------------------------------------------------------------------ *)
Definition in_slab (n : list R) (lw hg : R) (x : list R) : Prop := lw <= dot n x <= hg.

Lemma in_half_low n lw x : in_half n lw 1 x <-> lw <= dot n x.
Proof. unfold in_half. split; [intros [[_ H]|[H _]]; lra|intros; left; lra]. Qed.
Lemma in_half_high n hg x : in_half n hg (-1) x <-> dot n x <= hg.
Proof. unfold in_half. split; [intros [[H _]|[_ H]]; lra|intros; right; lra]. Qed.

Lemma is_in_of_half_bool tol n off sg (x : list R) : length x = length n ->
  exists b, is_in_of tol (half_project n off sg) x = POk b.
Proof. intros HL. unfold is_in_of. rewrite half_project_ok by auto. cbn [pbind]. eauto. Qed.

Lemma slab_project_cases tol n lw hg (x q : list R) : length x = length n -> slab_project tol n lw hg x = POk q ->
  (is_in_of tol (half_project n lw 1) x = POk true /\ q = half_clamp n hg (-1) x) \/
  (is_in_of tol (half_project n lw 1) x = POk false /\ q = half_clamp n lw 1 x).
Proof.
  intros HL H. unfold slab_project in H. destruct (is_in_of_half_bool tol n lw 1 x HL) as [b Eb].
  cbn [n1 NumR] in H. rewrite Eb in H. cbn [pbind] in H. destruct b.
  - left. split; auto. cbn [nopp n1 NumR] in H. rewrite half_project_ok in H by auto. now injection H as <-.
  - right. split; auto. rewrite half_project_ok in H by auto. now injection H as <-.
Qed.
Lemma slab_project_total tol n lw hg (x : list R) : length x = length n -> exists q, slab_project tol n lw hg x = POk q.
Proof.
  intros HL. unfold slab_project. destruct (is_in_of_half_bool tol n lw 1 x HL) as [b Eb].
  cbn [n1 NumR]. rewrite Eb. cbn [pbind]. destruct b; rewrite half_project_ok by auto; eauto.
Qed.
Lemma slab_project_raises tol n lw hg (x : list R) : length x <> length n -> slab_project tol n lw hg x = PValueError.
Proof.
  intros HL. unfold slab_project, is_in_of. apply (half_project_raises n lw 1 x) in HL. cbn [n1 NumR]. rewrite HL. reflexivity.
Qed.
Lemma slab_project_length tol n lw hg (x q : list R) : slab_project tol n lw hg x = POk q -> length q = length x.
Proof.
  intros H. destruct (Nat.eq_dec (length x) (length n)) as [HL|HL].
  - destruct (slab_project_cases tol n lw hg x q HL H) as [[_ ->]|[_ ->]]; now apply half_clamp_length.
  - rewrite slab_project_raises in H by auto. discriminate.
Qed.

Lemma slab_nearest tol n lw hg x q y : dot n n <> 0 -> slab_project tol n lw hg x = POk q -> length y = length n ->
  in_slab n lw hg y -> dist2 x q <= dist2 x y.
Proof.
  intros Hnn H Hy [Hl Hh]. destruct (Nat.eq_dec (length x) (length n)) as [HL|HL].
  - destruct (slab_project_cases tol n lw hg x q HL H) as [[_ ->]|[_ ->]]; apply half_clamp_near; auto.
    + now apply in_half_high.
    + now apply in_half_low.
  - rewrite slab_project_raises in H by auto. discriminate.
Qed.

Lemma slab_project_len_inv tol n lw hg (x q : list R) : slab_project tol n lw hg x = POk q -> length x = length n.
Proof.
  intros H. destruct (Nat.eq_dec (length x) (length n)) as [HL|HL]; auto.
  rewrite slab_project_raises in H by auto. discriminate.
Qed.

(* what the returned point satisfies: below the upper plane; above the lower plane unless the input itself was accepted by
   the lower half-space's tolerance test and is returned unchanged *)
Lemma slab_member_relaxed tol n lw hg x q : dot n n <> 0 -> lw <= hg -> 0 <= tol -> slab_project tol n lw hg x = POk q ->
  dot n q <= hg /\ (lw <= dot n q \/ (q = x /\ is_in_of tol (half_project n lw 1) x = POk true)).
Proof.
  intros Hnn Hlh Ht H. pose proof (slab_project_len_inv _ _ _ _ _ _ H) as HL.
  destruct (slab_project_cases tol n lw hg x q HL H) as [[Ein ->]|[Ein ->]].
  - split.
    + apply in_half_high. apply half_clamp_in; auto. lra.
    + unfold half_clamp. destruct (half_viol n hg (-1) x) eqn:E.
      * left. rewrite dot_half_shift by auto. exact Hlh.
      * destruct (Rle_dec lw (dot n x)) as [Hl|Hl]; [left; exact Hl|right; split; auto].
  - assert (Hout : ~ in_half n lw 1 x).
    { intros Hin. rewrite (half_is_in_complete n lw 1 x tol Ht HL Hin) in Ein. discriminate. }
    unfold half_clamp. destruct (half_viol n lw 1 x) eqn:E.
    + rewrite dot_half_shift by auto. split; [lra|left; lra].
    + apply half_viol_false in E; [contradiction|lra].
Qed.
Lemma slab_member_exact n lw hg x q : dot n n <> 0 -> lw <= hg -> slab_project 0 n lw hg x = POk q -> in_slab n lw hg q.
Proof.
  intros Hnn Hlh H. pose proof (slab_project_len_inv _ _ _ _ _ _ H) as HL.
  destruct (slab_member_relaxed 0 n lw hg x q Hnn Hlh (Rle_refl 0) H) as [Hh [Hl|[-> Hin]]]; split; auto.
  assert (H1 : (1:R) <> 0) by lra.
  apply (half_is_in_exact n lw 1 x Hnn H1 HL) in Hin. now apply in_half_low.
Qed.
Lemma slab_idempotent tol n lw hg x : 0 <= tol -> length x = length n -> in_slab n lw hg x -> slab_project tol n lw hg x = POk x.
Proof.
  intros Ht HL [Hl Hh]. unfold slab_project. cbn [n1 nopp NumR].
  rewrite (half_is_in_complete n lw 1 x tol Ht HL) by now apply in_half_low. cbn [pbind].
  apply half_idempotent; auto. now apply in_half_high.
Qed.

Lemma slab_is_in_complete tol n lw hg x : 0 <= tol -> length x = length n -> in_slab n lw hg x -> slab_is_in tol n lw hg x = POk true.
Proof.
  intros Ht HL [Hl Hh]. unfold slab_is_in. cbn [n1 nopp NumR].
  rewrite (half_is_in_complete n lw 1 x tol Ht HL) by now apply in_half_low. cbn [pbind].
  apply half_is_in_complete; auto. now apply in_half_high.
Qed.
Lemma half_is_in_true_inv tol n off sg x : is_in_of tol (half_project n off sg) x = POk true ->
  length x = length n /\ close_to tol (half_clamp n off sg x) x.
Proof.
  intros H. apply is_in_of_true in H.
  - destruct H as [q [E Hc]]. apply half_project_inv in E as [HL ->]. auto.
  - intros q E. apply half_project_inv in E as [HL ->]. now apply half_clamp_length.
Qed.
Lemma slab_is_in_sound tol n lw hg x : dot n n <> 0 -> lw <= hg -> 0 <= tol -> slab_is_in tol n lw hg x = POk true ->
  exists q, in_slab n lw hg q /\ close_to tol q x.
Proof.
  intros Hnn Hlh Ht H. unfold slab_is_in in H. cbn [n1 nopp NumR] in H.
  destruct (is_in_of tol (half_project n lw 1) x) as [b| | |] eqn:Ea; cbn [pbind] in H; try discriminate.
  destruct b; [|discriminate].
  apply half_is_in_true_inv in Ea as [HL Cl]. apply half_is_in_true_inv in H as [_ Ch].
  destruct (Rle_dec lw (dot n x)) as [Hl|Hl].
  - destruct (Rle_dec (dot n x) hg) as [Hh|Hh].
    + exists x. split; [split; auto|now apply close_to_refl].
    + exists (half_clamp n hg (-1) x). split; auto.
      unfold half_clamp. assert (V : half_viol n hg (-1) x = true) by (apply half_viol_true; right; lra).
      rewrite V. unfold in_slab. rewrite dot_half_shift by auto. lra.
  - exists (half_clamp n lw 1 x). split; auto.
    unfold half_clamp. assert (V : half_viol n lw 1 x = true) by (apply half_viol_true; left; lra).
    rewrite V. unfold in_slab. rewrite dot_half_shift by auto. lra.
Qed.

(* ------------------------------------------------------------------------------------------------ *)
(* what "P is the projection onto C" means; Cin is what the returned point is guaranteed to satisfy     *)
(* (Cin = C except for the slab, whose lower test is tolerance based)                                   *)
(* ------------------------------------------------------------------------------------------------ *)
Record proj_spec (n : nat) (P : list R -> pres (list R)) (Cin C : list R -> Prop) : Prop := {
  ps_total : forall x, length x = n -> exists q, P x = POk q;
  ps_raise : forall x, length x <> n -> P x = PValueError;
  ps_len : forall x q, P x = POk q -> length q = n /\ length x = n;
  ps_in : forall x q, P x = POk q -> Cin q;
  ps_near : forall x q y, P x = POk q -> length y = n -> C y -> dist2 x q <= dist2 x y;
  ps_id : forall x, length x = n -> C x -> P x = POk x;
  ps_sub : forall x, C x -> Cin x }.

Lemma box_spec b : box_wf b -> proj_spec (length b) (box_project b) (in_box b) (in_box b).
Proof.
  intros Hwf. constructor.
  - intros x HL. rewrite box_project_ok by auto. eauto.
  - intros x HL. now apply box_project_raises.
  - intros x q H. apply box_project_inv in H as [HL ->]. rewrite box_clamp_length by auto. auto.
  - intros x q H. eapply box_member; eauto.
  - intros x q y H _ Hy. eapply box_nearest; eauto.
  - intros x _ Hx. now apply box_idempotent.
  - auto.
Qed.
Lemma half_spec n off sg : dot n n <> 0 -> sg <> 0 ->
  proj_spec (length n) (half_project n off sg) (in_half n off sg) (in_half n off sg).
Proof.
  intros Hnn Hs. constructor.
  - intros x HL. rewrite half_project_ok by auto. eauto.
  - intros x HL. now apply half_project_raises.
  - intros x q H. apply half_project_inv in H as [HL ->]. rewrite half_clamp_length by auto. auto.
  - intros x q H. eapply half_member; eauto.
  - intros x q y H Hy Hin. eapply half_nearest; eauto.
  - intros x HL Hx. now apply half_idempotent.
  - auto.
Qed.
Definition in_slab_tol (tol : R) (n : list R) (lw hg : R) (q : list R) : Prop :=
  dot n q <= hg /\ (lw <= dot n q \/ is_in_of tol (half_project n lw 1) q = POk true).
Lemma slab_spec tol n lw hg : dot n n <> 0 -> lw <= hg -> 0 <= tol ->
  proj_spec (length n) (slab_project tol n lw hg) (in_slab_tol tol n lw hg) (in_slab n lw hg).
Proof.
  intros Hnn Hlh Ht. constructor.
  - intros x HL. now apply slab_project_total.
  - intros x HL. now apply slab_project_raises.
  - intros x q H. pose proof (slab_project_len_inv _ _ _ _ _ _ H) as HL. rewrite (slab_project_length _ _ _ _ _ _ H). auto.
  - intros x q H. destruct (slab_member_relaxed tol n lw hg x q Hnn Hlh Ht H) as [Hh [Hl|[-> Hin]]]; split; auto.
  - intros x q y H Hy Hin. eapply slab_nearest; eauto.
  - intros x HL Hx. now apply slab_idempotent.
  - intros x [Hl Hh]. split; auto.
Qed.

(* ------------------------------------------------------------------------------------------------ *)
(* List: one region per row                                                                           *)
(* ------------------------------------------------------------------------------------------------ *)
Definition mdist2 (m m' : list (list R)) : R := vsum (map2 dist2 m m').
Lemma mdist2_cons a m a' m' : mdist2 (a :: m) (a' :: m') = dist2 a a' + mdist2 m m'.
Proof. reflexivity. Qed.

Section Rows.
  Variable T : Type.                       (* region descriptions *)
  Variable proj : T -> list R -> pres (list R).
  Variables Cin C : T -> list R -> Prop.
  Variable n : nat.

  Lemma rows_project_spec (rs : list T) :
    List.Forall (fun r => proj_spec n (proj r) (Cin r) (C r)) rs ->
    forall m, length m = length rs -> List.Forall (fun row => length row = n) m ->
    exists m', pmap2 proj rs m = POk m' /\
      length m' = length rs /\ List.Forall (fun row => length row = n) m' /\
      List.Forall2 (fun r row => Cin r row) rs m' /\
      (forall Y, List.Forall2 (fun r row => C r row /\ length row = n) rs Y -> mdist2 m m' <= mdist2 m Y) /\
      (List.Forall2 (fun r row => C r row) rs m -> m' = m).
  Proof.
    intros Hs. induction Hs as [|r rs Hr Hrs IH]; intros [|row m] HL Hrow; simpl in HL; try lia.
    - exists []. repeat split; auto. intros Y HY. inversion HY. unfold mdist2; simpl. lra.
    - pose proof (Forall_inv Hrow) as Hrl. pose proof (Forall_inv_tail Hrow) as Hrow'. cbv beta in Hrl.
      destruct (ps_total _ _ _ _ Hr row Hrl) as [q Eq]. destruct (IH m ltac:(lia) Hrow') as [m' [Em [L1 [L2 [Hin [Hnear Hid]]]]]].
      exists (q :: m'). cbn [pmap2]. rewrite Eq. cbn [pbind]. rewrite Em. cbn [pbind]. split; [reflexivity|].
      split; [simpl; lia|]. split; [constructor; auto; apply (ps_len _ _ _ _ Hr row q Eq)|].
      split; [constructor; auto; apply (ps_in _ _ _ _ Hr row q Eq)|]. split.
      + intros Y HY. inversion HY as [|r0 y rs0 Y' [Hy Hyl] HY' E1 E2]. rewrite !mdist2_cons.
        pose proof (ps_near _ _ _ _ Hr row q y Eq Hyl Hy). specialize (Hnear Y' HY'). lra.
      + intros HC. inversion HC as [|r0 y rs0 Y' Hc HC' E1 E2]. rewrite (Hid HC').
        rewrite (ps_id _ _ _ _ Hr row Hrl Hc) in Eq. now injection Eq as <-.
  Qed.

  Lemma rows_project_raises (rs : list T) :
    List.Forall (fun r => proj_spec n (proj r) (Cin r) (C r)) rs ->
    forall m, length m = length rs -> List.Exists (fun row => length row <> n) m -> pmap2 proj rs m = PValueError.
  Proof.
    intros Hs. induction Hs as [|r rs Hr Hrs IH]; intros [|row m] HL Hex; simpl in HL; try lia.
    - inversion Hex.
    - cbn [pmap2]. destruct (Nat.eq_dec (length row) n) as [E|E].
      + destruct (ps_total _ _ _ _ Hr row E) as [q Eq]. rewrite Eq. cbn [pbind].
        inversion Hex as [r0 m0 Hbad E1|r0 m0 Hex' E1]; [contradiction|]. rewrite (IH m ltac:(lia) Hex'). reflexivity.
      + rewrite (ps_raise _ _ _ _ Hr row E). reflexivity.
  Qed.
End Rows.

Lemma mshape_ok_true {B} r c (m : list (list B)) :
  mshape_ok r c m = true <-> length m = r /\ List.Forall (fun row => length row = c) m.
Proof.
  unfold mshape_ok. rewrite andb_true_iff, Nat.eqb_eq, forallb_forall, List.Forall_forall.
  split; intros [H1 H2]; split; auto; intros x Hx; specialize (H2 x Hx); now apply Nat.eqb_eq.
Qed.

(* ------------------------------------------------------------------------------------------------ *)
(* Intersection: the two short cuts                                                                   *)
(* ------------------------------------------------------------------------------------------------ *)
Section Inter.
  Variables (pa pb : list R -> pres (list R)) (ia ib : list R -> pres bool) (maxiter : nat).

  Lemma inter_first_shortcut x ra : pa x = POk ra -> ib ra = POk true -> inter_project pa pb ia ib maxiter x = POk ra.
  Proof. intros E1 E2. unfold inter_project. rewrite E1. cbn [pbind]. rewrite E2. reflexivity. Qed.
  Lemma inter_second_shortcut x ra rb : pa x = POk ra -> ib ra = POk false -> pb x = POk rb -> ia rb = POk true ->
    inter_project pa pb ia ib maxiter x = POk rb.
  Proof. intros E1 E2 E3 E4. unfold inter_project. rewrite E1. cbn [pbind]. rewrite E2. cbn [pbind]. rewrite E3. cbn [pbind]. rewrite E4. reflexivity. Qed.
  Lemma inter_falls_through x ra rb : pa x = POk ra -> ib ra = POk false -> pb x = POk rb -> ia rb = POk false ->
    inter_project pa pb ia ib maxiter x = dykstra pa pb ia ib maxiter x.
  Proof. intros E1 E2 E3 E4. unfold inter_project. rewrite E1. cbn [pbind]. rewrite E2. cbn [pbind]. rewrite E3. cbn [pbind]. rewrite E4. reflexivity. Qed.
End Inter.

(* nearest in a, and inside b: nearest in the intersection (pure geometry; both branches by symmetry) *)
Lemma nearest_in_intersection (Ca Cb : list R -> Prop) (x q : list R) :
  Ca q -> Cb q -> (forall y, Ca y -> dist2 x q <= dist2 x y) ->
  (Ca q /\ Cb q) /\ forall y, Ca y /\ Cb y -> dist2 x q <= dist2 x y.
Proof. intros Ha Hb Hn. split; auto. intros y [Hy _]. auto. Qed.

Lemma inter_shortcut_a n pa pb ia ib maxiter (Cina Ca Cb : list R -> Prop) x q :
  proj_spec n pa Cina Ca -> pa x = POk q -> ib q = POk true ->
  inter_project pa pb ia ib maxiter x = POk q /\ Cina q /\
  (forall y, length y = n -> Ca y /\ Cb y -> dist2 x q <= dist2 x y).
Proof.
  intros Sa E1 E2. split; [now apply inter_first_shortcut|]. split; [apply (ps_in _ _ _ _ Sa x q E1)|].
  intros y Hy [Hya _]. apply (ps_near _ _ _ _ Sa x q y E1 Hy Hya).
Qed.
Lemma inter_shortcut_b n pa pb ia ib maxiter (Cinb Ca Cb : list R -> Prop) x ra q :
  proj_spec n pb Cinb Cb -> pa x = POk ra -> ib ra = POk false -> pb x = POk q -> ia q = POk true ->
  inter_project pa pb ia ib maxiter x = POk q /\ Cinb q /\
  (forall y, length y = n -> Ca y /\ Cb y -> dist2 x q <= dist2 x y).
Proof.
  intros Sb E1 E2 E3 E4. split; [eapply inter_second_shortcut; eauto|]. split; [apply (ps_in _ _ _ _ Sb x q E3)|].
  intros y Hy [_ Hyb]. apply (ps_near _ _ _ _ Sb x q y E3 Hy Hyb).
Qed.

(* ------------------------------------------------------------------------------------------------ *)
(* Dykstra: the loop's post-condition, for every behaviour of the four region methods                   *)
(* ------------------------------------------------------------------------------------------------ *)
Section DykstraPost.
  Variables (pa pb : list R -> pres (list R)) (ia ib : list R -> pres bool) (maxiter : nat).

  Lemma dyk_post fuel : forall c x p q xr yr, (c < maxiter)%nat ->
    dyk pa pb ia ib maxiter fuel c x p q = POk (xr, yr) ->
    ia yr = POk true /\ ib yr = POk true /\ (exists u, pa u = POk yr) /\ (exists v, pb v = POk xr).
  Proof.
    induction fuel as [|f IH]; intros c x p q xr yr Hc H; [discriminate|].
    cbn [dyk] in H. destruct (pa (vadd x p)) as [y| | |] eqn:Ea; cbn [pbind] in H; try discriminate.
    destruct (pb (vadd y q)) as [x'| | |] eqn:Eb; cbn [pbind] in H; try discriminate.
    destruct (Nat.ltb (S c) maxiter) eqn:Elt.
    - apply Nat.ltb_lt in Elt.
      destruct (ia y) as [a| | |] eqn:Eia; cbn [pbind] in H; try discriminate.
      destruct a.
      + destruct (ib y) as [b| | |] eqn:Eib; cbn [pbind] in H; try discriminate.
        destruct b.
        * injection H as <- <-. repeat split; eauto.
        * eapply IH; eauto.
      + cbn [pbind] in H. eapply IH; eauto.
    - apply Nat.ltb_ge in Elt. assert (E : S c = maxiter) by lia. rewrite E, Nat.eqb_refl in H. discriminate.
  Qed.

  (* the code: returned x  =>  the last y the loop test saw passes both membership tests; y came out of a.project, x out of
     b.project. (With maxiter = 0 the single unconditional pass returns whatever it computed.) *)
  Lemma dykstra_post point xr yr : (1 <= maxiter)%nat -> dykstra_xy pa pb ia ib maxiter point = POk (xr, yr) ->
    ia yr = POk true /\ ib yr = POk true /\ (exists u, pa u = POk yr) /\ (exists v, pb v = POk xr).
  Proof. intros Hm H. unfold dykstra_xy in H. eapply dyk_post; eauto. Qed.

  Lemma dykstra_returns_x point xr : dykstra pa pb ia ib maxiter point = POk xr <->
    exists yr, dykstra_xy pa pb ia ib maxiter point = POk (xr, yr).
  Proof.
    unfold dykstra. destruct (dykstra_xy pa pb ia ib maxiter point) as [[x y]| | |]; cbn [pbind fst]; split.
    - intros H. injection H as <-. eauto.
    - intros [yr H]. injection H as <- _. reflexivity.
    - discriminate. - intros [? ?]; discriminate.
    - discriminate. - intros [? ?]; discriminate.
    - discriminate. - intros [? ?]; discriminate.
  Qed.

  (* the fuel of the model is never the reason for stopping *)
  Hypothesis pa_fuel : forall u, pa u <> POutOfFuel.
  Hypothesis pb_fuel : forall u, pb u <> POutOfFuel.
  Hypothesis ia_fuel : forall u, ia u <> POutOfFuel.
  Hypothesis ib_fuel : forall u, ib u <> POutOfFuel.
  Lemma dyk_fuel fuel : forall c x p q, (c <= maxiter)%nat -> (maxiter < fuel + c)%nat ->
    dyk pa pb ia ib maxiter fuel c x p q <> POutOfFuel.
  Proof.
    induction fuel as [|f IH]; intros c x p q Hc Hf; [simpl in Hf; lia|].
    cbn [dyk]. destruct (pa (vadd x p)) as [y| | |] eqn:Ea; cbn [pbind]; try discriminate; [|now apply pa_fuel in Ea].
    destruct (pb (vadd y q)) as [x'| | |] eqn:Eb; cbn [pbind]; try discriminate; [|now apply pb_fuel in Eb].
    destruct (Nat.ltb (S c) maxiter) eqn:Elt.
    - apply Nat.ltb_lt in Elt.
      destruct (ia y) as [a| | |] eqn:Eia; cbn [pbind]; try discriminate; [|now apply ia_fuel in Eia].
      destruct a.
      + destruct (ib y) as [b| | |] eqn:Eib; cbn [pbind]; try discriminate; [|now apply ib_fuel in Eib].
        destruct b; [discriminate|]. apply IH; lia.
      + cbn [pbind]. apply IH; lia.
    - destruct (Nat.eqb (S c) maxiter); discriminate.
  Qed.
  Lemma dykstra_fuel_enough point : dykstra pa pb ia ib maxiter point <> POutOfFuel.
  Proof.
    unfold dykstra. pose proof (dyk_fuel (S maxiter) 0 point (zeros (length point)) (zeros (length point)) ltac:(lia) ltac:(lia)) as H.
    unfold dykstra_xy. destruct (dyk pa pb ia ib maxiter (S maxiter) 0 point _ _) as [xy| | |]; cbn [pbind]; try discriminate. contradiction.
  Qed.
End DykstraPost.

(* ------------------------------------------------------------------------------------------------ *)
(* Device level: Device.project, DeviceSet.project, MFDeviceSet.project                                *)
(* ------------------------------------------------------------------------------------------------ *)
Definition mshape (r n : nat) (m : list (list R)) : Prop := length m = r /\ List.Forall (fun row => length row = n) m.

Lemma Forall_firstn' {B} (P : B -> Prop) k (l : list B) : List.Forall P l -> List.Forall P (firstn k l).
Proof. intros H. revert k; induction H as [|x l Hx Hl IH]; intros [|k]; simpl; constructor; auto. Qed.
Lemma Forall_skipn' {B} (P : B -> Prop) k (l : list B) : List.Forall P l -> List.Forall P (skipn k l).
Proof. intros H. revert k; induction H as [|x l Hx Hl IH]; intros [|k]; simpl; auto. Qed.
Lemma mshape_split a b n m : mshape (a + b) n m -> mshape a n (firstn a m) /\ mshape b n (skipn a m).
Proof.
  intros [HL HF]. split; split.
  - rewrite firstn_length. lia.
  - now apply Forall_firstn'.
  - rewrite skipn_length. lia.
  - now apply Forall_skipn'.
Qed.
Lemma mshape_app a b n m1 m2 : mshape a n m1 -> mshape b n m2 -> mshape (a + b) n (m1 ++ m2).
Proof. intros [L1 F1] [L2 F2]. split; [rewrite app_length; lia|apply Forall_app; auto]. Qed.

Lemma colsum_len n (m : list (list R)) : List.Forall (fun r => length r = n) m -> length (colsum n m) = n.
Proof.
  intros H. induction H as [|row m Hr Hm IH]; [apply repeat_length|].
  unfold colsum in *. cbn [fold_right]. rewrite vadd_length, IH, Hr. lia.
Qed.
Lemma colsum_repeat n (v : list R) k : length v = n -> colsum n (repeat v k) = vscale (INR k) v.
Proof.
  intros HL. induction k as [|k IH].
  - cbn [repeat colsum fold_right INR]. rewrite vscale_0, HL. reflexivity.
  - change (colsum n (repeat v (S k))) with (vadd v (colsum n (repeat v k))). rewrite IH, S_INR. clear IH HL.
    induction v as [|a v IHv]; [reflexivity|]. rewrite !vscale_cons, vadd_cons, IHv. f_equal. ring.
Qed.
Lemma share_total k (t : list R) : (1 <= k)%nat -> vscale (INR k) (map (fun v => v / nofnat k) t) = t.
Proof.
  intros Hk. assert (Hp : INR k <> 0) by (apply not_0_INR; lia).
  unfold nofnat. cbn [nofZ NumR]. rewrite <- INR_IZR_INZ.
  induction t as [|a t IH]; [reflexivity|]. cbn [map]. rewrite vscale_cons, IH. f_equal. numR'. field. exact Hp.
Qed.

(* the nested recursion of tproject over the children, as a top-level function *)
Fixpoint kids_tproject (n : nat) (ks : list (ptree R)) (m : list (list R)) : pres (list (list R)) :=
  match ks with
  | [] => POk []
  | k :: ks' => pbind (tproject n k (firstn (prows k) m)) (fun r =>
                pbind (kids_tproject n ks' (skipn (prows k) m)) (fun rs => POk (r ++ rs)))
  end.
Fixpoint kids_rows (ks : list (ptree R)) : nat := match ks with [] => 0%nat | k :: ks' => (prows k + kids_rows ks')%nat end.
Lemma prows_set ks : prows (PSet ks) = kids_rows ks.
Proof. cbn [prows]. induction ks as [|k ks IH]; [reflexivity|]. cbn [fold_right kids_rows]. now rewrite IH. Qed.
Lemma tproject_set n ks m : tproject n (PSet ks) m = if mshape_ok (prows (PSet ks)) n m then kids_tproject n ks m else PValueError.
Proof.
  cbn [tproject]. destruct (mshape_ok _ n m); [|reflexivity]. revert m.
  induction ks as [|k ks IH]; intros m; [reflexivity|]. cbn [kids_tproject]. now rewrite IH.
Qed.

Lemma ptree_ind2 (P : ptree R -> Prop) (Q : list (ptree R) -> Prop) :
  (forall b, P (PLeaf b)) -> (forall ks, Q ks -> P (PSet ks)) -> (forall b k, P (PMF b k)) ->
  Q [] -> (forall k ks, P k -> Q ks -> Q (k :: ks)) -> forall t, P t.
Proof.
  intros HL HS HM Hn Hc. fix IH 1. intros [b|ks|b k]; [apply HL| |apply HM].
  apply HS. induction ks as [|k ks IHks]; [exact Hn|apply Hc; [apply IH|exact IHks]].
Qed.

Inductive twf (n : nat) : ptree R -> Prop :=
| wf_leaf b : length b = n -> box_wf b -> twf n (PLeaf b)
| wf_set ks : List.Forall (twf n) ks -> twf n (PSet ks)
| wf_mf b k : length b = n -> box_wf b -> (1 <= k)%nat -> twf n (PMF b k).

(* a relation between the input matrix and the result, given leaf by leaf along the row partition *)
Section TRel.
  Variable LP : list (R * R) -> list (list R) -> list (list R) -> Prop.
  Variable MP : list (R * R) -> nat -> list (list R) -> list (list R) -> Prop.
  Inductive trel : ptree R -> list (list R) -> list (list R) -> Prop :=
  | trel_leaf b m m' : LP b m m' -> trel (PLeaf b) m m'
  | trel_mf b k m m' : MP b k m m' -> trel (PMF b k) m m'
  | trel_set ks m m' : trels ks m m' -> trel (PSet ks) m m'
  with trels : list (ptree R) -> list (list R) -> list (list R) -> Prop :=
  | trels_nil : trels [] [] []
  | trels_cons k ks m1 m2 m1' m2' : length m1 = prows k -> length m1' = prows k ->
      trel k m1 m1' -> trels ks m2 m2' -> trels (k :: ks) (m1 ++ m2) (m1' ++ m2').
End TRel.

Lemma trel_impl (LP LP' : list (R * R) -> list (list R) -> list (list R) -> Prop)
  (MP MP' : list (R * R) -> nat -> list (list R) -> list (list R) -> Prop) :
  (forall b m m', LP b m m' -> LP' b m m') -> (forall b k m m', MP b k m m' -> MP' b k m m') ->
  forall t m m', trel LP MP t m m' -> trel LP' MP' t m m'.
Proof.
  intros HL HM. fix IH 4. intros t m m' H. destruct H as [b m m' H|b k m m' H|ks m m' H].
  - apply trel_leaf. auto.
  - apply trel_mf. auto.
  - apply trel_set. induction H as [|k ks m1 m2 m1' m2' L1 L2 Hk Hks IHks]; constructor; auto.
Qed.

(* what tproject computes at a leaf / adaptor, together with the shape facts established on the way *)
Definition leaf_does (n : nat) (b : list (R * R)) (m m' : list (list R)) : Prop :=
  length b = n /\ box_wf b /\ mshape 1 n m /\ m' = [box_clamp b (concat m)].
Definition mf_does (n : nat) (b : list (R * R)) (k : nat) (m m' : list (list R)) : Prop :=
  length b = n /\ box_wf b /\ (1 <= k)%nat /\ mshape k n m /\ m' = repeat (map (fun v => v / nofnat k) (box_clamp b (colsum n m))) k.

Lemma mshape_ok_of r n m : mshape r n m -> mshape_ok r n m = true.
Proof. intros H. now apply mshape_ok_true. Qed.
Lemma concat_one_row n (m : list (list R)) : mshape 1 n m -> exists row, m = [row] /\ concat m = row /\ length row = n.
Proof.
  intros [HL HF]. destruct m as [|row [|r2 m]]; simpl in HL; try lia. exists row. cbn [concat]. rewrite app_nil_r.
  split; auto. split; auto. now inversion HF.
Qed.

Lemma tproject_structure n : forall t m, twf n t -> mshape (prows t) n m ->
  exists m', tproject n t m = POk m' /\ mshape (prows t) n m' /\ trel (leaf_does n) (mf_does n) t m m'.
Proof.
  intros t. pattern t. apply (ptree_ind2 _ (fun ks => forall m, List.Forall (twf n) ks -> mshape (kids_rows ks) n m ->
    exists m', kids_tproject n ks m = POk m' /\ mshape (kids_rows ks) n m' /\ trels (leaf_does n) (mf_does n) ks m m')); clear t.
  - intros b m Hwf Hm. inversion Hwf as [b0 Hb Hbw| |]; subst. cbn [prows] in Hm.
    destruct (concat_one_row _ m Hm) as [row [-> [Ec Hr]]]. cbn [tproject]. rewrite Ec, Hr, Nat.eqb_refl.
    unfold leaf_project. rewrite Ec, box_project_ok by lia. cbn [pbind]. eexists. split; [reflexivity|]. split.
    + split; [reflexivity|]. constructor; [|constructor]. rewrite box_clamp_length; lia.
    + apply trel_leaf. unfold leaf_does. rewrite Ec. auto.
  - intros ks IH m Hwf Hm. inversion Hwf as [|ks0 Hks|]; subst. rewrite tproject_set, (mshape_ok_of _ _ _ Hm).
    rewrite prows_set in *. destruct (IH m Hks Hm) as [m' [E [S R']]]. exists m'. split; auto. split; auto. now apply trel_set.
  - intros b k m Hwf Hm. inversion Hwf as [| |b0 k0 Hb Hbw Hk]; subst. cbn [prows] in Hm. cbn [tproject]. rewrite Nat.eqb_refl.
    unfold mf_project. rewrite (mshape_ok_of _ _ _ Hm).
    assert (Hc : length (colsum (length b) m) = length b) by (apply colsum_len; apply Hm).
    rewrite box_project_ok by auto. cbn [pbind]. eexists. split; [reflexivity|]. split.
    + split; [apply repeat_length|]. apply Forall_forall. intros row Hin. apply repeat_spec in Hin. subst row.
      rewrite map_length, box_clamp_length; auto.
    + apply trel_mf. unfold mf_does. cbn [prows]. auto 6.
  - intros m _ [HL _]. destruct m; simpl in HL; try lia. exists []. repeat split; auto. constructor.
  - intros k ks IHk IHks m Hwf Hm. cbn [kids_rows] in Hm. destruct (mshape_split _ _ _ _ Hm) as [S1 S2].
    pose proof (Forall_inv Hwf) as Hk. pose proof (Forall_inv_tail Hwf) as Hks.
    destruct (IHk _ Hk S1) as [r [E1 [Sr R1]]]. destruct (IHks _ Hks S2) as [rs [E2 [Srs R2]]].
    exists (r ++ rs). cbn [kids_tproject]. rewrite E1. cbn [pbind]. rewrite E2. cbn [pbind]. split; [reflexivity|]. split.
    + cbn [kids_rows]. now apply mshape_app.
    + rewrite <- (firstn_skipn (prows k) m). constructor; auto; [apply S1|apply Sr].
Qed.

Lemma tproject_bad_size n t (s : list R) : length s <> (prows t * n)%nat -> tproject_flat n t s = PValueError.
Proof. intros H. unfold tproject_flat. apply Nat.eqb_neq in H. now rewrite H. Qed.

(* consequences, leaf by leaf *)
Definition leaf_in_bounds (b : list (R * R)) (m m' : list (list R)) : Prop := in_box b (concat m').
Definition leaf_unchanged (b : list (R * R)) (m m' : list (list R)) : Prop := in_box b (concat m) -> m' = m.
Definition mf_totals (n : nat) (b : list (R * R)) (k : nat) (m m' : list (list R)) : Prop :=
  colsum n m' = box_clamp b (colsum n m) /\ in_box b (colsum n m') /\ (in_box b (colsum n m) -> colsum n m' = colsum n m) /\
  (forall row, In row m' -> row = map (fun v => v / nofnat k) (colsum n m')).

Lemma leaf_does_in n b m m' : leaf_does n b m m' -> leaf_in_bounds b m m'.
Proof.
  intros [Hb [Hw [Hm ->]]]. unfold leaf_in_bounds. cbn [concat]. rewrite app_nil_r. apply box_clamp_in; auto.
  destruct (concat_one_row _ _ Hm) as [row [_ [-> Hr]]]. lia.
Qed.
Lemma leaf_does_same n b m m' : leaf_does n b m m' -> leaf_unchanged b m m'.
Proof.
  intros [Hb [Hw [Hm ->]]] Hin. destruct (concat_one_row _ _ Hm) as [row [-> [Ec Hr]]]. rewrite box_clamp_id by auto. now rewrite Ec.
Qed.
Lemma mf_does_totals n b k m m' : mf_does n b k m m' -> mf_totals n b k m m'.
Proof.
  intros [Hb [Hw [Hk [Hm ->]]]].
  assert (Hc : length (colsum n m) = length b) by (rewrite colsum_len by apply Hm; lia).
  assert (E : colsum n (repeat (map (fun v => v / nofnat k) (box_clamp b (colsum n m))) k) = box_clamp b (colsum n m)).
  { rewrite colsum_repeat by (rewrite map_length, box_clamp_length; lia). now apply share_total. }
  unfold mf_totals. rewrite E. split; auto. split; [now apply box_clamp_in|]. split; [intros Hin; now apply box_clamp_id|].
  intros row Hin. now apply repeat_spec in Hin.
Qed.

Lemma tproject_in_bounds n t m m' : twf n t -> mshape (prows t) n m -> tproject n t m = POk m' ->
  mshape (prows t) n m' /\ trel leaf_in_bounds (mf_totals n) t m m' /\ trel leaf_unchanged (mf_totals n) t m m'.
Proof.
  intros Hwf Hm E. destruct (tproject_structure n t m Hwf Hm) as [m'' [E' [S R']]]. rewrite E in E'. injection E' as <-.
  split; auto. split.
  - eapply trel_impl; [| |exact R']; [intros b a a'; apply leaf_does_in|intros b k a a'; apply mf_does_totals].
  - eapply trel_impl; [| |exact R']; [intros b a a'; apply leaf_does_same|intros b k a a'; apply mf_does_totals].
Qed.

Lemma app_eq_same_length {B} (a1 a2 b1 b2 : list B) : length a1 = length b1 -> a1 ++ a2 = b1 ++ b2 -> a1 = b1 /\ a2 = b2.
Proof.
  revert b1; induction a1 as [|x a1 IH]; intros [|y b1] HL E; simpl in HL; try lia; [auto|].
  simpl in E. injection E as -> E. destruct (IH b1 ltac:(lia) E) as [-> ->]. auto.
Qed.

(* trees without adaptors: an in-bounds flow comes back unchanged *)
Inductive tinb : ptree R -> list (list R) -> Prop :=
| tinb_leaf b m : in_box b (concat m) -> tinb (PLeaf b) m
| tinb_set ks m : tinbs ks m -> tinb (PSet ks) m
with tinbs : list (ptree R) -> list (list R) -> Prop :=
| tinbs_nil : tinbs [] []
| tinbs_cons k ks m1 m2 : length m1 = prows k -> tinb k m1 -> tinbs ks m2 -> tinbs (k :: ks) (m1 ++ m2).

Lemma trel_unchanged_id n : forall t m m', trel leaf_unchanged (mf_totals n) t m m' -> tinb t m -> m' = m.
Proof.
  fix IH 4. intros t m m' H Hin. destruct H as [b m m' H|b k m m' H|ks m m' H].
  - inversion Hin as [b0 m0 Hb|]; subst. now apply H.
  - inversion Hin.
  - inversion Hin as [|ks0 m0 Hks]; subst. clear Hin. revert Hks.
    induction H as [|k ks m1 m2 m1' m2' L1 L2 Hk Hks' IHks]; intros Hin.
    + reflexivity.
    + inversion Hin as [|k0 ks0 a1 a2 La Ha Has E1 E2]; subst.
      assert (Ea : a1 = m1 /\ a2 = m2).
      { apply app_eq_same_length; auto. lia. }
      destruct Ea as [-> ->]. f_equal; [now apply (IH k)|now apply IHks].
Qed.

Lemma tproject_unchanged n t m : twf n t -> mshape (prows t) n m -> tinb t m -> tproject n t m = POk m.
Proof.
  intros Hwf Hm Hin. destruct (tproject_structure n t m Hwf Hm) as [m' [E [S R']]]. rewrite E. f_equal.
  destruct (tproject_in_bounds n t m m' Hwf Hm E) as [_ [_ Hu]]. eapply trel_unchanged_id; eauto.
Qed.

(* flat entry point *)
Lemma reshape_shape (r n : nat) (s : list R) : (0 < n)%nat -> length s = (r * n)%nat -> mshape r n (reshape r n s).
Proof.
  unfold reshape. revert s. induction r as [|r IH]; intros s Hn HL.
  - split; [reflexivity|constructor].
  - rewrite Nat.mul_succ_l in HL. cbn [chunk]. destruct s as [|a s]; [simpl in HL; lia|].
    remember (a :: s) as s' eqn:Es. clear Es.
    assert (Hf : length (firstn n s') = n) by (rewrite firstn_length; lia).
    destruct (IH (skipn n s') Hn) as [L F]; [rewrite skipn_length; lia|].
    split; [simpl; now rewrite L|constructor; auto].
Qed.
Lemma tproject_flat_total n t (s : list R) : (0 < n)%nat -> twf n t -> length s = (prows t * n)%nat ->
  exists m', tproject_flat n t s = POk m' /\ mshape (prows t) n m' /\
             trel leaf_in_bounds (mf_totals n) t (reshape (prows t) n s) m'.
Proof.
  intros Hn Hwf HL. unfold tproject_flat. rewrite HL, Nat.eqb_refl.
  pose proof (reshape_shape (prows t) n s Hn HL) as Hm.
  destruct (tproject_structure n t _ Hwf Hm) as [m' [E [S R']]]. exists m'. split; auto. split; auto.
  now destruct (tproject_in_bounds n t _ m' Hwf Hm E) as [_ [Hb _]].
Qed.

(* conduits of a multi-flow adaptor: (low, 0) if some low < 0 else (0, high); the equal shares stay inside them *)
Definition conduit_bounds_R (b : list (R * R)) : list (R * R) :=
  if existsb (fun lh => nltb (fst lh) 0) b then map (fun lh => (fst lh, 0)) b else map (fun lh => (0, snd lh)) b.
Definition one_signed (b : list (R * R)) : Prop :=
  List.Forall (fun lh => 0 <= fst lh) b \/ List.Forall (fun lh => snd lh <= 0) b.

Lemma share_in_conduit b k t : one_signed b -> (1 <= k)%nat -> in_box b t ->
  in_box (conduit_bounds_R b) (map (fun v => v / nofnat k) t).
Proof.
  intros Hs Hk Hin. assert (Hp : 1 <= INR k) by (replace 1 with (INR 1) by reflexivity; apply le_INR; lia).
  assert (Hd : forall v, v / nofnat k = v * / INR k).
  { intros v. unfold nofnat. cbn [nofZ NumR]. now rewrite <- INR_IZR_INZ. }
  assert (Hi : 0 < / INR k <= 1).
  { split; [apply Rinv_0_lt_compat; lra|]. rewrite <- Rinv_1. apply Rinv_le_contravar; lra. }
  unfold conduit_bounds_R. destruct (existsb (fun lh => nltb (fst lh) 0) b) eqn:E.
  - (* some low < 0: all highs are <= 0 *)
    assert (Hh : List.Forall (fun lh => snd lh <= 0) b).
    { destruct Hs as [Hl|Hh]; auto. exfalso. apply existsb_exists in E as [lh [Hlh Hneg]]. apply Rltb_true in Hneg.
      rewrite List.Forall_forall in Hl. specialize (Hl lh Hlh). lra. }
    clear E Hs. induction Hin as [|lh v b t Hv Hr IH]; [constructor|]. cbn [map]. constructor.
    + cbn [fst snd]. rewrite Hd. pose proof (Forall_inv Hh) as H0. cbv beta in H0. nra.
    + apply IH. now apply Forall_inv_tail in Hh.
  - assert (Hl : List.Forall (fun lh => 0 <= fst lh) b).
    { apply List.Forall_forall. intros lh Hlh. destruct (Rle_dec 0 (fst lh)) as [|Hn]; auto. exfalso.
      assert (T : existsb (fun lh => nltb (fst lh) 0) b = true) by (apply existsb_exists; exists lh; split; auto; apply Rltb_true; lra).
      congruence. }
    clear E Hs. induction Hin as [|lh v b t Hv Hr IH]; [constructor|]. cbn [map]. constructor.
    + cbn [fst snd]. rewrite Hd. pose proof (Forall_inv Hl) as H0. cbv beta in H0. nra.
    + apply IH. now apply Forall_inv_tail in Hl.
Qed.

(* ------------------------------------------------------------------------------------------------ *)
(* regions: the three closed-form classes satisfy the projection specification                          *)
(* ------------------------------------------------------------------------------------------------ *)
Definition rmem (r : region R) (x : list R) : Prop :=
  match r with
  | RBox b => in_box b x
  | RHalf n off sg => in_half n off sg x
  | RSlice n lw hg => in_slab n lw hg x
  | RInter _ _ => False
  end.
Definition rmem_tol (tol : R) (r : region R) (x : list R) : Prop :=
  match r with
  | RSlice n lw hg => in_slab_tol tol n lw hg x
  | _ => rmem r x
  end.
Definition rwf (r : region R) : Prop :=
  match r with
  | RBox b => box_wf b
  | RHalf n off sg => dot n n <> 0 /\ sg <> 0
  | RSlice n lw hg => dot n n <> 0 /\ lw <= hg
  | RInter _ _ => False
  end.
Lemma region_spec tol mi r : 0 <= tol -> rwf r -> proj_spec (rlen r) (rproject tol mi r) (rmem_tol tol r) (rmem r).
Proof.
  intros Ht Hwf. destruct r as [b|n off sg|n lw hg|a b]; cbn [rwf] in Hwf; unfold rproject; cbn [rsem fst rlen rmem rmem_tol].
  - now apply box_spec.
  - destruct Hwf. now apply half_spec.
  - destruct Hwf. now apply slab_spec.
  - contradiction.
Qed.

(* List.project over rows (axis 0): every row is projected onto its own region *)
Lemma list_project_rows tol mi (rs : list (region R)) n m : 0 <= tol -> rs <> [] ->
  List.Forall (fun r => rwf r /\ rlen r = n) rs -> mshape (length rs) n m ->
  exists m', list_project (rproject tol mi) rs false m = POk m' /\ mshape (length rs) n m' /\
    List.Forall2 (fun r row => rmem_tol tol r row) rs m' /\
    (forall Y, List.Forall2 (fun r row => rmem r row /\ length row = n) rs Y -> mdist2 m m' <= mdist2 m Y) /\
    (List.Forall2 (fun r row => rmem r row) rs m -> m' = m).
Proof.
  intros Ht Hne Hrs Hm. unfold list_project, rows_project.
  assert (El : match rs with r0 :: _ => rlen r0 | [] => 0%nat end = n).
  { destruct rs as [|r0 rs]; [contradiction|]. apply Forall_inv in Hrs. apply Hrs. }
  rewrite El, (mshape_ok_of _ _ _ Hm).
  assert (Hs : List.Forall (fun r => proj_spec n (rproject tol mi r) (rmem_tol tol r) (rmem r)) rs).
  { apply List.Forall_forall. intros r Hr. rewrite List.Forall_forall in Hrs. destruct (Hrs r Hr) as [Hw <-]. now apply region_spec. }
  destruct Hm as [HL HF].
  destruct (rows_project_spec _ (rproject tol mi) (rmem_tol tol) rmem n rs Hs m HL HF) as [m' [E [L [F [Hin [Hnear Hid]]]]]].
  exists m'. split; auto. split; [split; auto|]. auto.
Qed.
Lemma list_project_wrong_shape (tol : R) mi (rs : list (region R)) (ax : bool) (m : list (list R)) :
  (if ax then mshape_ok (match rs with r0 :: _ => rlen r0 | [] => 0%nat end) (length rs) m
   else mshape_ok (length rs) (match rs with r0 :: _ => rlen r0 | [] => 0%nat end) m) = false ->
  list_project (rproject tol mi) rs ax m = PValueError.
Proof. intros H. unfold list_project. destruct ax; now rewrite H. Qed.
(* over columns (axis 1): the same on the transposed matrix, transposed back *)
Lemma list_project_cols (tol : R) mi (rs : list (region R)) (m : list (list R)) :
  mshape_ok (match rs with r0 :: _ => rlen r0 | [] => 0%nat end) (length rs) m = true ->
  list_project (rproject tol mi) rs true m =
  pbind (list_project (rproject tol mi) rs false (transpose (length rs) m))
        (fun t => POk (transpose (match rs with r0 :: _ => rlen r0 | [] => 0%nat end) t)) \/
  list_project (rproject tol mi) rs false (transpose (length rs) m) = PValueError.
Proof.
  intros H. unfold list_project at 1. rewrite H. unfold list_project.
  destruct (mshape_ok (length rs) _ (transpose (length rs) m)); [left; reflexivity|right; reflexivity].
Qed.

(* non-vacuity: concrete instances of the hypotheses *)
Example half_example : half_project [3; 4] 25 1 [0; 0] = POk [3; 4].
Proof.
  rewrite half_project_ok by reflexivity. f_equal. unfold half_clamp.
  assert (V : half_viol (A:=R) [3; 4] 25 1 [0; 0] = true).
  { apply half_viol_true. left. unfold dot; simpl. lra. }
  rewrite V. unfold half_shift, dot. simpl. rewrite !vadd_cons. f_equal; [field|]. f_equal. field.
Qed.
Example box_example : box_project [(0, 1); (2, 2)] [5; -1] = POk [1; 2].
Proof.
  rewrite box_project_ok by reflexivity. f_equal. rewrite !box_clamp_cons. cbn [fst snd].
  assert (E1 : clamp (A:=R) 0 1 5 = 1).
  { numR'. unfold Rleb. destruct (Rle_dec 1 5) as [H|H]; [|lra]. destruct (Rle_dec 0 1) as [H'|H']; lra. }
  assert (E2 : clamp (A:=R) 2 2 (-1) = 2).
  { numR'. unfold Rleb. destruct (Rle_dec 2 (-1)) as [H|H]; [lra|]. destruct (Rle_dec 2 (-1)) as [H'|H']; lra. }
  now rewrite E1, E2.
Qed.

(* ------------------------------------------------------------------------------------------------ *)
(* the full-strength membership statement for the slab is false of the faithful model when tol > 0:     *)
(*   forall tol n lw hg x q, 0 <= tol -> lw <= hg -> slab_project tol n lw hg x = POk q -> in_slab n lw hg q   *)
(* witness (exact rationals, the class tolerance 1e-10): Slice([1], 0, 1).project([-2^-34]) returns its *)
(* argument, which is below the lower plane. slab_member_relaxed / slab_member_exact are the true parts. *)
(* ------------------------------------------------------------------------------------------------ *)
From Coq Require Import QArith.
From DK Require Import NumQ.
Lemma slab_member_refuted : exists (tol : Q) (n : list Q) (lw hg : Q) (x q : list Q),
  (0 < tol)%Q /\ (lw <= hg)%Q /\ slab_project tol n lw hg x = POk q /\ (dot n q < lw)%Q.
Proof.
  exists (1 # 10000000000)%Q, [1%Q], 0%Q, 1%Q, [(-(1) # 17179869184)%Q], [(-(1) # 17179869184)%Q].
  split; [reflexivity|]. split; [discriminate|]. split; [vm_compute; reflexivity|reflexivity].
Qed.

