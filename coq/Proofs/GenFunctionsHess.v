(* The hess methods of the preference-function combinators (and of ADevice) as regenerated in Gen/Functions.v = fhess of the AST node
   (used by C14; kept apart from Proofs/GenFunctions.v, the call / deriv side used by C01). *)
From Coq Require Import ZArith Reals List Bool Arith Lia Lra.
From DK Require Import Num NumR Vec.
From DK.Gen Require Import Kernels Functions.
From DK.Model Require Import Leaf Fn Dev Tree FnOps.
From DK.Proofs Require Import VecFacts RVec.
Import ListNotations.

From DK.Proofs Require Import GenFunctions.

Section AnyCarrierHess.
  Context {A : Type} `{Num A}.
  Lemma gen_null_hess x : NullFunction_hess x = fhess (FNull (A:=A)) x.
  Proof. reflexivity. Qed.
  Lemma gen_sum_hess fs x : SumFunction_hess (map fobj_of fs) x = fhess (FSum fs) x.
  Proof. unfold SumFunction_hess. cbn [fhess]. rewrite !map_map. cbn [fobj_of f_hess]. reflexivity. Qed.
  Lemma gen_reflect_hess g x : ReflectedFunction_hess (fobj_of g) x = fhess (FReflect g) x.
  Proof. reflexivity. Qed.
  Lemma gen_innersum_hess pl ph xl xh x : InnerSumFunction_hess (sfobj_hl (pl, ph, xl, xh)) x = fhess (FInnerHL pl ph xl xh) x.
  Proof. reflexivity. Qed.
  Lemma gen_x2d_hess qs x : X2D_hess (map sfobj_hl qs) x = fhess (FX2D qs) x.
  Proof.
    unfold X2D_hess. cbn [fhess]. cbv zeta. f_equal.
    rewrite (x2d_map qs x (fun o v => sf_hess o v) (fun q v => let '(pl, ph, xl, xh) := q in hl_hess v pl ph xl xh)); [reflexivity|].
    intros [[[pl ph] xl] xh] v. reflexivity.
  Qed.
  Lemma gen_adevice_hess n bnd cb (g : fn A) ucs s p : ADevice_hess (fobj_of g) s p = leaf_hess (Build_leafdev n bnd cb (KA g ucs)) s.
  Proof. reflexivity. Qed.
  Lemma gen_demand_hess c x : DemandFunction_hess c x = fhess (FDemand c) x.
  Proof. reflexivity. Qed.
End AnyCarrierHess.

Local Open Scope R_scope.
Theorem gen_poly2d_hess cs (x : list R) : Poly2D_hess cs x = fhess (FPoly2D cs) x.
Proof.
  unfold Poly2D_hess, Poly2D_vector. cbn [fhess]. cbv zeta. f_equal. apply map_ext; intros [k v]; cbn [fst snd]; rewrite nth_map_pad by reflexivity;
    unfold poly_deriv2_padded; apply horner_pad.
Qed.
Theorem gen_poly2doffset_hess cs offs (x : list R) : Poly2DOffset_hess cs offs x = fhess (FPoly2DOffset cs offs) x.
Proof.
  unfold Poly2DOffset_hess, Poly2DOffset_vector. cbn [fhess]. cbv zeta. f_equal. apply map_ext; intros [k v]; cbn [fst snd]; rewrite nth_map_pad by reflexivity;
    unfold poly_deriv2_padded; apply horner_pad.
Qed.
Theorem gen_sum_empty_hess (x : list R) : SumFunction_hess [fobj_of FNull] x = fhess (FSum []) x.
Proof. unfold SumFunction_hess. cbn [map fhess fobj_of f_hess]. unfold msum. cbn [fold_right]. apply madd_mzero. Qed.
