(* The two instances agree on the exported constraint lists of the atomic devices: same number, same types, and every constraint
   function / Jacobian evaluated on rationals maps through Q2R to the real one (what C03 / C06 compare with the implementation
   vs what their theorems speak about). ADevice user constraints included (they do not depend on the function AST). *)
From Coq Require Import ZArith QArith Qreals Reals List Bool Lra Lia.
From DK Require Import Num NumQ NumR Vec.
From DK.Gen Require Import Kernels.
From DK.Model Require Import Leaf Fn Dev.
From DK.Proofs Require Import Hom HomLeaf.
Import ListNotations.
Local Open Scope R_scope.

Definition con_agree (cq : con Q) (cr : con R) : Prop :=
  c_eq cq = c_eq cr /\
  (forall x, Q2R (c_fun cq x) = c_fun cr (rl x)) /\
  match c_jac cq, c_jac cr with
  | Some jq, Some jr => forall x, rl (jq x) = jr (rl x)
  | None, None => True
  | _, _ => False
  end.

Lemma Forall2_flat_map {B C D} (P : C -> D -> Prop) (f : B -> list C) (g : B -> list D) l :
  (forall b, In b l -> Forall2 P (f b) (g b)) -> Forall2 P (flat_map f l) (flat_map g l).
Proof.
  induction l as [|b l IH]; intros H; cbn [flat_map]; [constructor|].
  apply Forall2_app; [apply H; now left|apply IH; intros; apply H; now right].
Qed.
Lemma Forall2_map2 {B C D} (P : C -> D -> Prop) (f : B -> C) (g : B -> D) l :
  (forall b, In b l -> P (f b) (g b)) -> Forall2 P (map f l) (map g l).
Proof. induction l as [|b l IH]; intros H; cbn [map]; constructor; [apply H; now left|apply IH; intros; apply H; now right]. Qed.

Lemma rl_range_mask n st en : rl (range_mask n st en) = range_mask n st en.
Proof. unfold range_mask. apply rl_map_seq. intros j. destruct ((st <=? j)%nat && (j <? en)%nat); [apply hom_1|apply hom_0]. Qed.

Lemma cb_cons_agree n cbs : Forall2 con_agree (cb_cons n cbs) (cb_cons n (map mcb cbs)).
Proof.
  unfold cb_cons. rewrite flat_map_concat_map, (flat_map_concat_map _ (map mcb cbs)), map_map, <- !flat_map_concat_map.
  apply Forall2_flat_map. intros c _. cbv zeta. cbn [mcb cb_s cb_e cb_lo cb_hi fst snd].
  constructor; [|constructor; [|constructor]]; (split; [reflexivity|split]); cbn [c_fun c_jac].
  - intros x. now rewrite hom_sub, hom_dot', rl_range_mask.
  - intros x. apply rl_range_mask.
  - intros x. now rewrite hom_sub, hom_dot', rl_range_mask.
  - intros x. now rewrite rl_vopp, rl_range_mask.
Qed.

Lemma hom_s_soc q n r i : Q2R (s_soc q n r i) = s_soc (msp q) n (rl r) i.
Proof. unfold s_soc. now rewrite hom_add, hom_mul, hom_sdev_base, hom_npown, hom_dot', rl_effv, rl_sust_row. Qed.
Lemma rl_s_socjac q n r i : rl (s_socjac q n r i) = s_socjac (msp q) n (rl r) i.
Proof.
  unfold s_socjac. rewrite rl_vmul, rl_sust_row. f_equal. unfold rl. rewrite !map_map. apply map_ext. intros x. apply hom_effof.
Qed.

Lemma sdev_cons_agree q n bnd : Forall2 con_agree (sdev_cons q n bnd) (sdev_cons (msp q) n (mbnd bnd)).
Proof.
  unfold sdev_cons. repeat apply Forall2_app.
  - apply Forall2_flat_map. intros i _. constructor; [|constructor; [|constructor]]; (split; [reflexivity|split]); cbn [c_fun c_jac].
    + intros r. apply hom_s_soc.
    + intros r. apply rl_s_socjac.
    + intros r. now rewrite hom_sub, hom_s_soc.
    + intros r. now rewrite rl_vopp, rl_s_socjac.
  - cbn [msp sp_clip_d]. destruct (sp_clip_d q) as [k|]; cbn [option_map]; [|constructor].
    apply Forall2_map2. intros i _. split; [reflexivity|split]; cbn [c_fun c_jac]; [|exact I].
    intros r. now rewrite hom_sub, hom_nth, !hom_mul, hom_div, hom_s_soc, hom_lo.
  - cbn [msp sp_clip_c]. destruct (sp_clip_c q) as [k|]; cbn [option_map]; [|constructor].
    apply Forall2_map2. intros i _. split; [reflexivity|split]; cbn [c_fun c_jac]; [|exact I].
    intros r. now rewrite hom_sub, hom_nth, !hom_mul, hom_sub, hom_1, hom_div, hom_s_soc, hom_hi.
  - constructor; [|constructor]. split; [reflexivity|split]; cbn [c_fun c_jac].
    + intros r. now rewrite hom_sub, hom_s_soc, hom_mul.
    + intros r. apply rl_s_socjac.
Qed.

Lemma ucon_agree u : con_agree (ucon_con u) (ucon_con (mucon u)).
Proof.
  unfold ucon_con, mucon. cbn [u_eq u_w u_k u_hasjac]. split; [reflexivity|split]; cbn [c_fun c_jac].
  - intros x. now rewrite hom_add, hom_dot'.
  - destruct (u_hasjac u); [intros x; reflexivity|exact I].
Qed.

Theorem instances_agree_leaf_cons (L : leafdev Q) : Forall2 con_agree (leaf_cons L) (leaf_cons (mleaf L)).
Proof.
  destruct L as [n b cb k]. unfold leaf_cons; cbn [ld_kind ld_n ld_bounds ld_cb mleaf].
  apply Forall2_app; [apply cb_cons_agree|].
  destruct k; cbn [mkind]; try constructor.
  - apply sdev_cons_agree.
  - rewrite map_map. apply Forall2_map2. intros u _. apply ucon_agree.
Qed.
