(* Facts about the *generated* scalar kernels (Gen/Kernels.v) at the real instance: these proofs are
   re-checked against whatever functions.py says now. *)
From Coq Require Import ZArith Reals List Bool Arith Lia Lra.
From Coquelicot Require Import Coquelicot.
From DK Require Import Num NumR Vec.
From DK.Gen Require Import Kernels.
From DK.Proofs Require Import RVec.
Import ListNotations.
Local Open Scope R_scope.

Definition Rnat (k : nat) : R := IZR (Z.of_nat k).

Lemma Rpw_Rnat x k : Rpw x (Rnat k) = x ^ k.
Proof. apply Rpw_nat. Qed.
Lemma Rpw_Rnat_m1 x k : Rpw x (Rnat (S k) - 1) = x ^ k.
Proof.
  unfold Rnat. rewrite Nat2Z.inj_succ, succ_IZR. replace (IZR (Z.of_nat k) + 1 - 1) with (IZR (Z.of_nat k)) by ring.
  apply Rpw_nat.
Qed.
Lemma Rpw_Rnat_m2 x k : Rpw x (Rnat (S (S k)) - 2) = x ^ k.
Proof.
  unfold Rnat. rewrite !Nat2Z.inj_succ, !succ_IZR. replace (IZR (Z.of_nat k) + 1 + 1 - 2) with (IZR (Z.of_nat k)) by ring.
  apply Rpw_nat.
Qed.
Lemma Rpw_2 x : Rpw x 2 = x * x.
Proof. rewrite Rpw_IZR. simpl. ring. Qed.
Lemma Rnat_S k : Rnat (S k) = Rnat k + 1.
Proof. unfold Rnat. now rewrite Nat2Z.inj_succ, succ_IZR. Qed.
Lemma Rnat_INR k : Rnat k = INR k.
Proof. unfold Rnat. now rewrite <- INR_IZR_INZ. Qed.

Lemma Rnat_SS_ne_1 k : Rnat (S (S k)) <> 1.
Proof. rewrite Rnat_INR, !S_INR. pose proof (pos_INR k). lra. Qed.
Lemma Rnat_1 : Rnat 1 = 1.
Proof. reflexivity. Qed.

Ltac kill_eqb :=
  repeat match goal with
  | |- context [Reqb ?a ?b] =>
      let E := fresh "E" in destruct (Reqb a b) eqn:E; [apply Reqb_true in E | apply Reqb_false in E]
  end.

(* ---------------- HLQuadraticCost ---------------- *)
Lemma hl_cost_derive x pl ph xl xh :
  is_derive (fun t => hl_cost (A:=R) t pl ph xl xh) x (hl_deriv (A:=R) x pl ph xl xh).
Proof.
  unfold hl_cost, hl_deriv, horner. numR. cbn [fold_left]. numR.
  destruct (Reqb xl xh) eqn:E.
  - auto_derive; [exact I | ring].
  - apply Reqb_false in E. auto_derive; [auto|]. field. lra.
Qed.

Lemma hl_deriv_derive x pl ph xl xh :
  is_derive (fun t => hl_deriv (A:=R) t pl ph xl xh) x (hl_hess (A:=R) x pl ph xl xh).
Proof.
  unfold hl_hess, hl_deriv. numR.
  destruct (Reqb xl xh) eqn:E.
  - auto_derive; [exact I | ring].
  - apply Reqb_false in E. auto_derive; [auto|]. field. lra.
Qed.

Lemma hl_deriv_lo pl ph xl xh : xl <> xh -> hl_deriv (A:=R) xl pl ph xl xh = pl.
Proof. intros Hne. unfold hl_deriv. numR. kill_eqb; [contradiction|]. field. lra. Qed.
Lemma hl_deriv_hi pl ph xl xh : xl <> xh -> hl_deriv (A:=R) xh pl ph xl xh = ph.
Proof. intros Hne. unfold hl_deriv. numR. kill_eqb; [contradiction|]. field. lra. Qed.
Lemma hl_deriv_affine x pl ph xl xh : xl <> xh ->
  hl_deriv (A:=R) x pl ph xl xh = pl + (ph - pl) * ((x - xl) / (xh - xl)).
Proof. intros Hne. unfold hl_deriv. numR. kill_eqb; [contradiction|]. ring. Qed.
Lemma hl_zero_width x pl ph xl :
  hl_cost (A:=R) x pl ph xl xl = 0 /\ hl_deriv (A:=R) x pl ph xl xl = 0 /\ hl_hess (A:=R) x pl ph xl xl = 0.
Proof. unfold hl_cost, hl_deriv, hl_hess. numR. kill_eqb; try contradiction; auto. Qed.
Lemma hl_hess_nonneg x pl ph xl xh : pl <= ph -> xl <= xh -> 0 <= hl_hess (A:=R) x pl ph xl xh.
Proof.
  intros Hp Hx. unfold hl_hess. numR. kill_eqb; [lra|].
  apply Rmult_le_pos; [lra|]. left. apply Rinv_0_lt_compat. lra.
Qed.

(* ---------------- ABCCost ---------------- *)
Lemma abc_q_affine x xl xh a : xl <> xh ->
  abc_q (A:=R) x xl xh a = 1 + (a - 1) * ((x - xl) / (xh - xl)).
Proof. intros Hne. unfold abc_q, abc_s. numR. field. lra. Qed.
Lemma abc_q_lo xl xh a : xl <> xh -> abc_q (A:=R) xl xl xh a = 1.
Proof. intros. rewrite abc_q_affine by auto. field. lra. Qed.
Lemma abc_q_hi xl xh a : xl <> xh -> abc_q (A:=R) xh xl xh a = a.
Proof. intros. rewrite abc_q_affine by auto. field. lra. Qed.

Lemma abc_cost_form x a k c xl xh : xl <> xh ->
  abc_cost (A:=R) x a (Rnat k) c xl xh = c * (abc_q (A:=R) x xl xh a) ^ k.
Proof. intros Hne. unfold abc_cost. numR. kill_eqb; [contradiction|]. now rewrite Rpw_Rnat. Qed.

Lemma abc_q_derive x xl xh a : xl <> xh ->
  is_derive (fun t => abc_q (A:=R) t xl xh a) x (- ((1 - a) / (xh - xl))).
Proof.
  intros Hne. apply (is_derive_ext (fun t => 1 + (a - 1) * ((t - xl) / (xh - xl)))).
  - intros t. now rewrite abc_q_affine.
  - auto_derive; [exact I|]. field. lra.
Qed.

Lemma abc_cost_derive x a k c xl xh :
  is_derive (fun t => abc_cost (A:=R) t a (Rnat (S k)) c xl xh) x (abc_deriv (A:=R) x a (Rnat (S k)) c xl xh).
Proof.
  destruct (Req_EM_T xl xh) as [->|Hne].
  - unfold abc_cost, abc_deriv. numR. kill_eqb; try congruence. auto_derive; [exact I|ring].
  - apply (is_derive_ext (fun t => c * (1 + (a - 1) * ((t - xl) / (xh - xl))) ^ (S k))).
    + intros t. now rewrite abc_cost_form, abc_q_affine.
    + unfold abc_deriv. numR. kill_eqb; [contradiction|]. rewrite Rpw_Rnat_m1, abc_q_affine by auto.
      auto_derive; [exact I|]. rewrite Rnat_INR. cbn [pred].
      change (match k with 0%nat => 1 | S _ => INR k + 1 end) with (INR (S k)).
      unfold Rminus, Rdiv. match goal with |- context [?b ^ k] => set (B := b ^ k) end. field. lra.
Qed.

Lemma abc_deriv_derive x a k c xl xh :
  is_derive (fun t => abc_deriv (A:=R) t a (Rnat (S (S k))) c xl xh) x (abc_hess (A:=R) x a (Rnat (S (S k))) c xl xh).
Proof.
  destruct (Req_EM_T xl xh) as [->|Hne].
  - unfold abc_hess, abc_deriv. numR. destruct (Reqb xh xh) eqn:E; [|apply Reqb_false in E; congruence].
    auto_derive; [exact I|ring].
  - unfold abc_hess, abc_deriv. numR. destruct (Reqb xl xh) eqn:E; [apply Reqb_true in E; contradiction|].
    destruct (Reqb (Rnat (S (S k))) 1) eqn:E1; [apply Reqb_true in E1; exfalso; now apply (Rnat_SS_ne_1 k)|].
    rewrite Rpw_Rnat_m2.
    apply (is_derive_ext (fun t => - c * Rnat (S (S k)) * (1 + (a - 1) * ((t - xl) / (xh - xl))) ^ (S k) * ((1 - a) / (xh - xl)))).
    + intros t. now rewrite Rpw_Rnat_m1, abc_q_affine.
    + rewrite abc_q_affine by auto. rewrite Rpw_2. auto_derive; [exact I|].
      rewrite (Rnat_S (S k)), (Rnat_S k), !Rnat_INR. cbn [pred].
      change (match k with 0%nat => 1 | S _ => INR k + 1 end) with (INR (S k)). rewrite S_INR.
      unfold Rminus, Rdiv. match goal with |- context [?b ^ k] => set (B := b ^ k) end. field. lra.
Qed.

(* exponent 1: the cost is linear in q, the second derivative is 0 (the hypothesis is kept for compatibility, it is not needed) *)
Lemma abc_deriv_derive_b1 x a c xl xh : (xl = xh \/ abc_q (A:=R) x xl xh a <> 0) ->
  is_derive (fun t => abc_deriv (A:=R) t a (Rnat 1) c xl xh) x (abc_hess (A:=R) x a (Rnat 1) c xl xh).
Proof.
  intros _.
  destruct (Req_EM_T xl xh) as [->|Hne].
  - unfold abc_hess, abc_deriv. numR. destruct (Reqb xh xh) eqn:E; [|apply Reqb_false in E; congruence].
    auto_derive; [exact I|ring].
  - unfold abc_hess, abc_deriv. numR. destruct (Reqb xl xh) eqn:E; [apply Reqb_true in E; contradiction|].
    destruct (Reqb (Rnat 1) 1) eqn:E1; [|apply Reqb_false in E1; exfalso; apply E1; reflexivity].
    apply (is_derive_ext (fun t => - c * Rnat 1 * 1 * ((1 - a) / (xh - xl)))).
    + intros t. replace (Rnat 1 - 1) with (Rnat 0) by (unfold Rnat; simpl; ring). now rewrite Rpw_Rnat.
    + auto_derive; [exact I|]. ring.
Qed.

Lemma abc_zero_width x a b c xl :
  abc_cost (A:=R) x a b c xl xl = 0 /\ abc_deriv (A:=R) x a b c xl xl = 0 /\ abc_hess (A:=R) x a b c xl xl = 0.
Proof.
  unfold abc_cost, abc_deriv, abc_hess. numR. destruct (Reqb xl xl) eqn:E; [auto|apply Reqb_false in E; congruence].
Qed.
