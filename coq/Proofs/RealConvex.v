(* Convexity of the power curve of IDevice for every REAL exponent b >= 1 (the executable instance covers integers only), where the
   scaled flow q stays positive (a > 0).  A differentiable function with a non-decreasing derivative on an interval is convex there
   (mean value theorem); u ** e has derivative e * u ** (e - 1), non-decreasing on u > 0 for e >= 1. *)
From Coq Require Import ZArith Reals List Lra Lia Arith Psatz.
From Coquelicot Require Import Coquelicot.
From DK Require Import Num NumR Vec.
From DK.Gen Require Import Kernels.
From DK.Model Require Import Leaf Fn Dev.
From DK.Proofs Require Import VecFacts RVec VecAlg Calc KernelR Convex C07Proofs RealExp Total.
Import ListNotations.
Local Open Scope R_scope.

Lemma sconvex_of_monotone_derivative (f f' : R -> R) (lo hi : R) :
  (forall u, lo <= u <= hi -> is_derive f u (f' u)) ->
  (forall u v, lo <= u -> u <= v -> v <= hi -> f' u <= f' v) ->
  sconvex_on lo hi f.
Proof.
  intros Hd Hm.
  assert (Main : forall u v l, lo <= u -> u < v -> v <= hi -> 0 <= l <= 1 -> f (l * u + (1 - l) * v) <= l * f u + (1 - l) * f v).
  { intros u v l Hu Huv Hv Hl. set (w := l * u + (1 - l) * v).
    assert (Hw : u <= w <= v) by (unfold w; split; nra).
    destruct (Req_dec l 0) as [->|Hl0]; [unfold w; replace (0 * u + (1 - 0) * v) with v by ring; lra|].
    destruct (Req_dec l 1) as [->|Hl1]; [unfold w; replace (1 * u + (1 - 1) * v) with u by ring; lra|].
    assert (Huw : u < w) by (unfold w; nra). assert (Hwv : w < v) by (unfold w; nra).
    destruct (MVT_gen f u w f') as [c1 [Hc1 E1]].
    { intros x Hx. rewrite Rmin_left, Rmax_right in Hx by lra. apply Hd. lra. }
    { intros x Hx. rewrite Rmin_left, Rmax_right in Hx by lra. eapply is_derive_continuity_pt. apply Hd. lra. }
    destruct (MVT_gen f w v f') as [c2 [Hc2 E2]].
    { intros x Hx. rewrite Rmin_left, Rmax_right in Hx by lra. apply Hd. lra. }
    { intros x Hx. rewrite Rmin_left, Rmax_right in Hx by lra. eapply is_derive_continuity_pt. apply Hd. lra. }
    rewrite Rmin_left, Rmax_right in Hc1, Hc2 by lra.
    assert (M : f' c1 <= f' c2) by (apply Hm; lra).
    assert (W1 : w - u = (1 - l) * (v - u)) by (unfold w; ring).
    assert (W2 : v - w = l * (v - u)) by (unfold w; ring).
    rewrite W1 in E1. rewrite W2 in E2.
    assert (P : 0 <= l * (1 - l) * (v - u)) by (apply Rmult_le_pos; [apply Rmult_le_pos|]; lra).
    assert (Q : l * (f w - f u) <= (1 - l) * (f v - f w)).
    { rewrite E1, E2. replace (l * (f' c1 * ((1 - l) * (v - u)))) with (f' c1 * (l * (1 - l) * (v - u))) by ring.
      replace ((1 - l) * (f' c2 * (l * (v - u)))) with (f' c2 * (l * (1 - l) * (v - u))) by ring. now apply Rmult_le_compat_r. }
    fold w. lra. }
  intros u v l Hu Hv Hl. destruct (Rtotal_order u v) as [Huv|[->|Hvu]].
  - apply Main; lra.
  - replace (l * v + (1 - l) * v) with v by ring. lra.
  - replace (l * u + (1 - l) * v) with ((1 - l) * v + (1 - (1 - l)) * u) by ring.
    pose proof (Main v u (1 - l) ltac:(lra) Hvu ltac:(lra) ltac:(lra)). lra.
Qed.

(* u ** e is non-decreasing in u > 0 for e >= 0 *)
Lemma Rpw_mono_base e u v : 0 <= e -> 0 < u -> u <= v -> Rpw u e <= Rpw v e.
Proof.
  intros He Hu Huv. destruct (Req_EM_T (IZR (up e - 1)) e) as [Hi|Hn].
  - assert (Hi' : is_int e) by exact Hi. rewrite !Rpw_int by exact Hi'. set (z := (up e - 1)%Z) in *.
    assert (Hz : (0 <= z)%Z) by (apply le_IZR; rewrite Hi; exact He).
    destruct z as [|p|p]; [simpl; lra| |lia]. simpl. apply pow_incr. lra.
  - rewrite !Rpw_nonint by exact Hn. apply Rle_Rpower_l; lra.
Qed.

Lemma sconvex_Rpw e lo hi : 1 <= e -> 0 < lo -> sconvex_on lo hi (fun t => Rpw t e).
Proof.
  intros He Hlo. apply (sconvex_of_monotone_derivative _ (fun u => e * Rpw u (e - 1))).
  - intros u Hu. apply Rpw_derive. lra.
  - intros u v Hu Huv Hv. apply Rmult_le_compat_l; [lra|]. apply Rpw_mono_base; lra.
Qed.

(* the power curve c * q(x) ** b with q falling affinely from 1 to a > 0 *)
Lemma abc_cost_form_real x a b c xl xh : xl <> xh -> abc_cost (A:=R) x a b c xl xh = c * Rpw (abc_q (A:=R) x xl xh a) b.
Proof. intros Hne. unfold abc_cost. numR. destruct (Reqb xl xh) eqn:E; [apply Reqb_true in E; contradiction|reflexivity]. Qed.

Lemma abc_q_between x a xl xh : xl < xh -> 0 < a -> xl <= x <= xh -> Rmin a 1 <= abc_q (A:=R) x xl xh a <= Rmax a 1.
Proof.
  intros Hx Ha Hin. rewrite abc_q_affine by lra.
  assert (R01 : 0 <= (x - xl) / (xh - xl) <= 1).
  { split; [apply Rmult_le_pos; [lra|left; apply Rinv_0_lt_compat; lra]|].
    apply (Rmult_le_reg_r (xh - xl)); [lra|]. unfold Rdiv. rewrite Rmult_assoc, Rinv_l by lra. lra. }
  set (t := (x - xl) / (xh - xl)) in *. unfold Rmin, Rmax. destruct (Rle_dec a 1); split; nra.
Qed.

Lemma sconvex_abc_real a b c xl xh : 0 < a -> 0 <= c -> 1 <= b -> xl <= xh ->
  sconvex_on xl xh (fun t => abc_cost (A:=R) t a b c xl xh).
Proof.
  intros Ha Hc Hb Hx. destruct (Req_EM_T xl xh) as [->|Hne].
  - intros u v l _ _ _. destruct (abc_zero_width u a b c xh) as [-> _]. destruct (abc_zero_width v a b c xh) as [-> _].
    destruct (abc_zero_width (l * u + (1 - l) * v) a b c xh) as [-> _]. lra.
  - intros u v l Hu Hv Hl. rewrite !abc_cost_form_real by auto. rewrite abc_q_lerp by auto.
    pose proof (abc_q_between u a xl xh ltac:(lra) Ha Hu) as Qu. pose proof (abc_q_between v a xl xh ltac:(lra) Ha Hv) as Qv.
    assert (Hmin : 0 < Rmin a 1) by (apply Rmin_pos; lra).
    pose proof (sconvex_Rpw b (Rmin a 1) (Rmax a 1) Hb Hmin _ _ l Qu Qv Hl) as Hp. cbv beta in Hp.
    apply (Rmult_le_compat_l c) in Hp; auto.
    set (U := Rpw (abc_q (A:=R) u xl xh a) b) in *. set (V := Rpw (abc_q (A:=R) v xl xh a) b) in *.
    replace (c * (l * U + (1 - l) * V)) with (l * (c * U) + (1 - l) * (c * V)) in Hp by ring. exact Hp.
Qed.

(* IDevice: per slot a natural exponent (any a >= 0), or any real exponent >= 1 with a > 0 *)
Lemma convex_idevice_real n b cb a bp c p :
  (forall i, (i < length b)%nat ->
     ((exists k, pnth bp i = Rnat k) /\ 0 <= pnth a i \/ 1 <= pnth bp i /\ 0 < pnth a i) /\ 0 <= pnth c i /\ lo b i <= hi b i) ->
  convex_on (in_box_R b) (fun s => leaf_cost (Build_leafdev n b cb (KI a bp c)) s p).
Proof.
  intros Hv. unfold leaf_cost; cbn [ld_kind ld_bounds]. unfold idev_cost, idev_pref. numR.
  apply convex_plus; [|apply convex_price].
  apply (convex_sepsum_guarded (fun i v => abc_cost v (pnth a i) (pnth bp i) (pnth c i) (lo b i) (hi b i))).
  intros i Hi. destruct (Hv i Hi) as ([([k ->] & Ha)|[Hb Ha]] & Hc & Hlh); [apply sconvex_abc; auto|apply sconvex_abc_real; auto].
Qed.
