(* The two instances agree on the reported Hessians of the atomic kinds (ADevice function AST excepted): completes
   Proofs/HomLeaf.v (cost, marginal cost) to the third observable the correspondences compare. *)
From Coq Require Import ZArith QArith Qreals Reals List Bool Lra Lia.
From DK Require Import Num NumQ NumR Vec.
From DK.Gen Require Import Kernels.
From DK.Model Require Import Leaf Fn Dev.
From DK.Proofs Require Import Hom HomLeaf.
Import ListNotations.
Local Open Scope R_scope.

Definition rm (M : list (list Q)) : list (list R) := map rl M.

Lemma rm_mconst r c v : rm (mconst r c v) = mconst r c (Q2R v).
Proof. unfold rm, mconst. induction r as [|r IH]; [reflexivity|]. cbn [repeat map]. now rewrite rl_repeat, IH. Qed.

Lemma rm_map_seq2 (fQ : nat -> nat -> Q) (fR : nat -> nat -> R) n m : (forall j k, Q2R (fQ j k) = fR j k) ->
  rm (map (fun j => map (fun k => fQ j k) (seq 0 m)) (seq 0 n)) = map (fun j => map (fun k => fR j k) (seq 0 m)) (seq 0 n).
Proof.
  intros Hf. unfold rm. rewrite map_map. apply map_ext. intros j. apply rl_map_seq. intros k. apply Hf.
Qed.

Lemma rm_diag d : rm (diag d) = diag (rl d).
Proof.
  unfold diag. rewrite rl_length. apply rm_map_seq2. intros i j. destruct (Nat.eqb i j); [apply hom_nth|apply hom_0].
Qed.

Lemma hom_if_nat (b : bool) x y : Q2R (if b then x else y) = if b then Q2R x else Q2R y.
Proof. now destruct b. Qed.

(* ---- kinds ---- *)
Lemma rm_idev_hess a bp c b s : int_exponents bp (length s) ->
  rm (idev_hess a bp c b s) = idev_hess (mparam a) (mparam bp) (mparam c) (mbnd b) (rl s).
Proof.
  intros Hb. unfold idev_hess. rewrite rm_diag. f_equal.
  apply (rl_map_idx_in (fun i x => abc_hess x (pnth a i) (pnth bp i) (pnth c i) (lo b i) (hi b i))
           (fun i x => abc_hess x (pnth (mparam a) i) (pnth (mparam bp) i) (pnth (mparam c) i) (lo (mbnd b) i) (hi (mbnd b) i))).
  intros i x Hi. destruct (Hb i Hi) as [z Ez]. rewrite <- (hom_pnth bp), Ez, Q2R_inject, hom_abc_hess. now rewrite !hom_pnth, hom_lo, hom_hi.
Qed.
Lemma rm_idev2_hess pl ph b s : rm (idev2_hess pl ph b s) = idev2_hess (mparam pl) (mparam ph) (mbnd b) (rl s).
Proof.
  unfold idev2_hess. rewrite rm_diag. f_equal.
  apply (rl_map_idx (fun i x => hl_hess x (pnth pl i) (pnth ph i) (lo b i) (hi b i))
                    (fun i x => hl_hess x (pnth (mparam pl) i) (pnth (mparam ph) i) (lo (mbnd b) i) (hi (mbnd b) i))).
  intros i x. now rewrite hom_hl_hess, !hom_pnth, hom_lo, hom_hi.
Qed.
Lemma rm_gdev_hess g s : rm (gdev_hess g s) = gdev_hess (mg g) (rl s).
Proof.
  unfold gdev_hess. rewrite rm_diag. f_equal.
  apply (rl_map_idx (fun i x => horner (pderiv (pderiv (gpoly g i))) (- x)%num) (fun i x => horner (pderiv (pderiv (gpoly (mg g) i))) (- x)%num)).
  intros i x. rewrite hom_horner, hom_opp, <- rl_gpoly. fold (rl (pderiv (pderiv (gpoly g i)))). now rewrite !rl_pderiv.
Qed.
Lemma rm_cdev2_hess pl ph cbs s : rm (cdev2_hess pl ph cbs s) = cdev2_hess (Q2R pl) (Q2R ph) (map mcb cbs) (rl s).
Proof.
  assert (G : rm (map (fun j => map (fun k =>
                vsum (map (fun c => if (cb_s c <=? j)%nat && (j <? cb_e c)%nat && (cb_s c <=? k)%nat && (k <? cb_e c)%nat
                                    then hl_hess (vsum (slice (cb_s c) (cb_e c) s)) pl ph (cb_lo c) (cb_hi c) else n0) cbs))
                (seq 0 (length s))) (seq 0 (length s)))
              = map (fun j => map (fun k =>
                vsum (map (fun c => if (cb_s c <=? j)%nat && (j <? cb_e c)%nat && (cb_s c <=? k)%nat && (k <? cb_e c)%nat
                                    then hl_hess (vsum (slice (cb_s c) (cb_e c) (rl s))) (Q2R pl) (Q2R ph) (cb_lo c) (cb_hi c) else n0) (map mcb cbs)))
                (seq 0 (length s))) (seq 0 (length s))).
  { apply rm_map_seq2. intros j k. rewrite hom_vsum'. f_equal. unfold rl. rewrite !map_map. apply map_ext. intros c.
    cbn [mcb cb_s cb_e cb_lo cb_hi fst snd]. rewrite hom_if_nat, hom_hl_hess, hom_vsum', rl_slice, hom_0. reflexivity. }
  unfold cdev2_hess. cbv zeta. rewrite rl_length.
  destruct cbs as [|c [|c' cbs]]; [exact G| |exact G].
  cbn [map]. now rewrite rm_mconst, hom_hl_hess, hom_vsum'.
Qed.
Lemma rm_sdev_hess q r : rm (sdev_hess q r) = sdev_hess (msp q) (rl r).
Proof.
  unfold sdev_hess. cbv zeta. rewrite rl_length, <- rl_sdev_charge. apply rm_map_seq2. intros j k.
  rewrite hom_add, hom_sub, !hom_if_nat, hom_mul, hom_n2, hom_0, hom_vsum'. cbn [msp sp_c1 sp_c2]. f_equal. f_equal.
  apply (rl_map_idx
    (fun i c => if (c <? sp_capacity q * sp_depth q)%num
       then (n2 * sp_c3 q * (nth j (sust_row (sp_sus q) (length r) i) n0 * effof (sp_eff q) (nth j r n0))
                           * (nth k (sust_row (sp_sus q) (length r) i) n0 * effof (sp_eff q) (nth k r n0)))%num else n0)
    (fun i c => if (c <? sp_capacity (msp q) * sp_depth (msp q))%num
       then (n2 * sp_c3 (msp q) * (nth j (sust_row (sp_sus (msp q)) (length r) i) n0 * effof (sp_eff (msp q)) (nth j (rl r) n0))
                                 * (nth k (sust_row (sp_sus (msp q)) (length r) i) n0 * effof (sp_eff (msp q)) (nth k (rl r) n0)))%num else n0)).
  intros i c. cbn [msp sp_c3 sp_capacity sp_depth sp_sus sp_eff].
  rewrite hom_if_nat, hom_0. rewrite <- hom_mul, <- hom_nltb.
  destruct (nltb c (sp_capacity q * sp_depth q)%num); [|reflexivity].
  now rewrite !hom_mul, hom_n2, !hom_nth, rl_sust_row, !hom_effof, !hom_nth.
Qed.
Lemma rm_tdev_hess q r : rm (tdev_hess q r) = tdev_hess (mtp q) (rl r).
Proof.
  unfold tdev_hess. cbv zeta. rewrite rm_diag, rl_length, <- rl_tdev_r2t. f_equal. apply rl_map_seq. intros k. rewrite hom_vsum'. f_equal.
  apply (rl_map_idx
    (fun i ti => (abc_hess ti n0 n2 (pnth (tp_c q) i) (tdev_tmin q) (tp_opt q)
                  * nsq (nth k (sust_row (tp_sus q) (length r) i) n0 * effof (tp_eff q) (nth k r n0)))%num)
    (fun i ti => (abc_hess ti n0 n2 (pnth (tp_c (mtp q)) i) (tdev_tmin (mtp q)) (tp_opt (mtp q))
                  * nsq (nth k (sust_row (tp_sus (mtp q)) (length r) i) n0 * effof (tp_eff (mtp q)) (nth k (rl r) n0)))%num)).
  intros i ti. rewrite hom_mul, hom_nsq, hom_mul, hom_nth, rl_sust_row, hom_effof, hom_nth.
  change (n2 (A:=Q)) with (inject_Z 2). rewrite hom_abc_hess, hom_0, hom_pnth, hom_tdev_tmin. reflexivity.
Qed.

Theorem instances_agree_leaf_hess (L : leafdev Q) s : exec_kind (ld_kind L) (length s) ->
  rm (leaf_hess L s) = leaf_hess (mleaf L) (rl s).
Proof.
  destruct L as [n b cb k]. unfold leaf_hess; cbn [ld_kind ld_n ld_bounds ld_cb mleaf]. intros Hk.
  destruct k; cbn [mkind exec_kind] in *; try contradiction.
  - unfold dev_hess. rewrite rm_mconst. now rewrite hom_0.
  - unfold dev_hess. rewrite rm_mconst. now rewrite hom_0.
  - unfold dev_hess. rewrite rm_mconst. now rewrite hom_0.
  - apply rm_cdev2_hess.
  - now apply rm_idev_hess.
  - apply rm_idev2_hess.
  - apply rm_gdev_hess.
  - apply rm_sdev_hess.
  - apply rm_tdev_hess.
Qed.
