(* The region methods regenerated from device_kit/projection/projection.py (Gen/Projection.v, translator/stmt_tx.py) are the
   hand-written model of Model/Projection.v.  A semantic edit of the source inside the translator's whitelist changes the
   generated text and breaks one of these proofs; nothing is sampled. *)
From Coq Require Import ZArith Reals List Bool Arith Lia Lra.
From DK Require Import Num NumR Vec.
From DK.Model Require Import Projection PyOps.
From DK.Gen Require Import Projection.
From DK.Proofs Require Import VecFacts RVec VecAlg C18Proofs.
Import ListNotations.

Section AnyCarrier.
  Context {A : Type} `{Num A}.
  Local Open Scope num_scope.

  Lemma forallb_map_comp {B C} (f : C -> bool) (g : B -> C) l : forallb f (map g l) = forallb (fun x => f (g x)) l.
  Proof. induction l as [|x l IH]; cbn; [reflexivity | now rewrite IH]. Qed.

  (* ConvexRegion.is_in *)
  Lemma gen_is_in tol (proj : list A -> pres (list A)) p : ConvexRegion_is_in tol proj p = is_in_of tol proj p.
  Proof.
    unfold ConvexRegion_is_in, is_in_of, linf_le. destruct (proj p); cbn; try reflexivity.
    now rewrite forallb_map_comp.
  Qed.

  (* HyperCube.project *)
  Lemma enum_clamp (pre b : list (A * A)) (p : list A) : length p = length b ->
    map (fun ip : nat * A => let i := fst ip in let p0 := snd ip in
           nmax (fst (nth i (pre ++ b) (n0, n0))) (nmin (snd (nth i (pre ++ b) (n0, n0))) p0))
        (combine (seq (length pre) (length p)) p) = box_clamp b p.
  Proof.
    revert pre b. induction p as [|x p IH]; intros pre b Hl; destruct b as [|lh b]; try discriminate; [reflexivity|].
    cbn [length seq combine map box_clamp map2]. f_equal.
    - cbn [fst snd]. rewrite app_nth2 by lia. rewrite Nat.sub_diag. reflexivity.
    - specialize (IH (pre ++ [lh]) b). rewrite <- app_assoc in IH. cbn [app] in IH.
      rewrite app_length in IH. cbn [length] in IH. rewrite Nat.add_1_r in IH. apply IH. cbn in Hl. lia.
  Qed.

  Lemma gen_box_project cube p : HyperCube_project cube p = box_project cube p.
  Proof.
    unfold HyperCube_project, box_project. destruct (Nat.eqb (length p) (length cube)) eqn:E; cbn [negb]; [|reflexivity].
    apply Nat.eqb_eq in E. f_equal. exact (enum_clamp [] cube p E).
  Qed.

  (* HalfSpace.project, on the attributes the object stores *)
  Lemma gen_half_project n off sg p : HalfSpace_project n off sg p = half_stored_project n off sg p.
  Proof.
    unfold HalfSpace_project, half_stored_project, half_viol.
    destruct (Nat.eqb (length p) (length n)); cbn [negb]; [|reflexivity].
    change (dot p n) with (vsum (vmul p n)). cbv zeta.
    destruct ((n0 <? sg) && (vsum (vmul p n) <? off)); cbn [orb]; [reflexivity|].
    destruct ((sg <? n0) && (off <? vsum (vmul p n))); reflexivity.
  Qed.
  Lemma gen_half_init nrm n off sg : HalfSpace_init nrm n off sg = half_stored_init nrm n off sg.
  Proof. reflexivity. Qed.

  (* Slice *)
  Lemma gen_slab_project tol ln lo ls hn ho hs p :
    Slice_project tol ln lo ls hn ho hs p = slab_stored_project tol ln lo ls hn ho hs p.
  Proof. unfold Slice_project, slab_stored_project. rewrite gen_is_in. unfold is_in_of. rewrite !gen_half_project. reflexivity. Qed.
  Lemma gen_slab_is_in tol ln lo ls hn ho hs p :
    Slice_is_in tol ln lo ls hn ho hs p = slab_stored_is_in tol ln lo ls hn ho hs p.
  Proof. unfold Slice_is_in, slab_stored_is_in. rewrite !gen_is_in. unfold is_in_of. rewrite !gen_half_project. reflexivity. Qed.
  Lemma gen_slab_init nrm n lw hg : Slice_init nrm n lw hg = slab_stored_init nrm n lw hg.
  Proof. reflexivity. Qed.

  (* Intersection.is_in *)
  Lemma gen_inter_is_in (pa pb : list A -> pres (list A)) ia ib maxiter fuel p : Intersection_is_in pa pb ia ib maxiter fuel p = inter_is_in ia ib p.
  Proof. reflexivity. Qed.
End AnyCarrier.

(* ---- Intersection: the two short cuts and the Dykstra loop ------------------------------------------------------------ *)
Section Dykstra.
  Context {A : Type} `{Num A}.
  Local Open Scope num_scope.
  Variables (pa pb : list A -> pres (list A)) (ia ib : list A -> pres bool) (maxiter : nat).
  (* the two facts about the carrier and the regions that make "p = q = 0 (the integer)" and "p = q = zeros" the same *)
  Hypothesis add0 : forall x : A, x + n0 = x.
  Hypothesis pa_len : forall v q, pa v = POk q -> length q = length v.

  Lemma vadd_zeros (x : list A) k : k = length x -> vadd x (zeros k) = x.
  Proof.
    intros ->. induction x as [|a x IH]; [reflexivity|]. cbn [length zeros vconst repeat vadd map2].
    rewrite add0. f_equal. exact IH.
  Qed.

  (* the model's loop test, after a pass that produced (x, y, p, q) and raised the counter to c *)
  Definition dyk_tail (f c : nat) (x y p q : list A) : pres (list A * list A) :=
    if (c <? maxiter)%nat then
      pbind (ia y) (fun a => pbind (if a then ib y else POk false) (fun both =>
        if both then POk (x, y) else dyk pa pb ia ib maxiter f c x p q))
    else if Nat.eqb c maxiter then PMaxIter else POk (x, y).
  Lemma dyk_S f c x p q : dyk pa pb ia ib maxiter (S f) c x p q =
    pbind (pa (vadd x p)) (fun y => pbind (pb (vadd y q)) (fun x' =>
      dyk_tail f (S c) x' y (vsub (vadd x p) y) (vsub (vadd y q) x'))).
  Proof. reflexivity. Qed.

  Lemma pbind_assoc {T U V} (r : pres T) (g : T -> pres U) (h : U -> pres V) :
    pbind (pbind r g) h = pbind r (fun t => pbind (g t) h).
  Proof. destruct r; reflexivity. Qed.
  Lemma pbind_ext {T U} (r : pres T) (g h : T -> pres U) : (forall t, g t = h t) -> pbind r g = pbind r h.
  Proof. intros E. destruct r; cbn; auto. Qed.

  Theorem gen_dykstra point :
    Intersection_dykstra_project pa pb ia ib maxiter (S (S maxiter)) point = dykstra pa pb ia ib maxiter point.
  Proof.
    set (fuel := S (S maxiter)). unfold Intersection_dykstra_project. cbv zeta.
    match goal with |- ?F fuel None None point None 0%nat = _ => set (L := F) end. subst fuel.
    (* one pass of the generated loop, stated on the generated text *)
    pose (body := fun (f : nat) (x : list A) (p q : option (list A)) (c : nat) =>
      pbind (pa (ovadd x p)) (fun y => pbind (pb (ovadd y q)) (fun x' =>
        L f (Some y) (Some (vsub (ovadd x p) y)) x' (Some (vsub (ovadd y q) x')) (S c)))).
    pose (after := fun (x : list A) (c : nat) => if Nat.eqb c maxiter then PMaxIter else POk x).
    assert (HL : forall f y p x q c, L (S f) y p x q c =
      match y with
      | None => body f x p q c
      | Some y => if Nat.ltb c maxiter
                  then pbind (ia y) (fun a => if a then pbind (ib y) (fun b => if negb b then body f x p q c else after x c)
                                              else body f x p q c)
                  else after x c
      end) by reflexivity.
    assert (Hbody : forall f, (forall c x y p q, (maxiter <= f + c)%nat ->
                        L (S f) (Some y) (Some p) x (Some q) c = pbind (dyk_tail f c x y p q) (fun xy => POk (fst xy))) ->
              forall c x p q, (maxiter <= f + S c)%nat ->
                body (S f) x (Some p) (Some q) c = pbind (dyk pa pb ia ib maxiter (S f) c x p q) (fun xy => POk (fst xy))).
    { intros f IH c x p q Hf. unfold body. rewrite dyk_S. cbn [ovadd]. rewrite pbind_assoc. apply pbind_ext. intros y.
      rewrite pbind_assoc. apply pbind_ext. intros x'. apply IH. exact Hf. }
    assert (Hstep : forall f c x y p q, (maxiter <= f + c)%nat ->
              L (S f) (Some y) (Some p) x (Some q) c = pbind (dyk_tail f c x y p q) (fun xy => POk (fst xy))).
    { induction f as [|f IH]; intros c x y p q Hf; rewrite HL; unfold dyk_tail, after.
      - assert (E : (c <? maxiter)%nat = false) by (apply Nat.ltb_ge; lia). rewrite E.
        destruct (Nat.eqb c maxiter); reflexivity.
      - destruct (c <? maxiter)%nat eqn:E.
        + assert (E' : Nat.eqb c maxiter = false) by (apply Nat.eqb_neq; apply Nat.ltb_lt in E; lia).
          destruct (ia y) as [a| | |]; cbn [pbind]; try reflexivity. destruct a.
          * destruct (ib y) as [b| | |]; cbn [pbind]; try reflexivity. destruct b; cbn [negb pbind].
            -- rewrite E'. reflexivity.
            -- apply Hbody; [exact IH | lia].
          * cbn [pbind]. apply Hbody; [exact IH | lia].
        + destruct (Nat.eqb c maxiter); reflexivity. }
    rewrite HL. unfold body, dykstra, dykstra_xy. rewrite dyk_S. cbn [ovadd].
    rewrite (vadd_zeros point (length point) eq_refl). rewrite pbind_assoc.
    destruct (pa point) as [y| | |] eqn:Ey; cbn [pbind]; try reflexivity.
    rewrite (vadd_zeros y (length point)) by (symmetry; exact (pa_len _ _ Ey)).
    rewrite pbind_assoc. apply pbind_ext. intros x'. apply Hstep. lia.
  Qed.

  (* Intersection.project *)
  Theorem gen_inter_project p :
    Intersection_project pa pb ia ib maxiter (S (S maxiter)) p = inter_project pa pb ia ib maxiter p.
  Proof.
    unfold Intersection_project, inter_project. cbv zeta. apply pbind_ext. intros ra. apply pbind_ext. intros okb.
    destruct okb; [reflexivity|]. apply pbind_ext. intros rb. apply pbind_ext. intros oka. destruct oka; [reflexivity|].
    apply gen_dykstra.
  Qed.
End Dykstra.

(* ---- List: one region per row (axis 0) or per column (axis 1) ---------------------------------------------------------- *)
Section ListRegion.
  Context {A : Type} `{Num A}.
  Local Open Scope num_scope.
  Notation papp := (fun (f : list A -> pres (list A)) (r : list A) => f r).

  Lemma upd_split {B} (l : list B) k v : (k < length l)%nat -> upd l k v = firstn k l ++ v :: skipn (S k) l.
  Proof.
    revert k. induction l as [|x l IH]; intros k Hk; [cbn in Hk; lia|]. destruct k as [|k]; [reflexivity|].
    cbn [upd firstn skipn app]. f_equal. apply IH. cbn in Hk. lia.
  Qed.
  Lemma skipn_nth_cons {B} (l : list B) k d : (k < length l)%nat -> skipn k l = nth k l d :: skipn (S k) l.
  Proof.
    revert k. induction l as [|x l IH]; intros k Hk; [cbn in Hk; lia|]. destruct k as [|k]; [reflexivity|].
    cbn [skipn nth]. apply IH. cbn in Hk. lia.
  Qed.

  Lemma skipn_app_exact {B} (l1 l2 : list B) : skipn (length l1) (l1 ++ l2) = l2.
  Proof. induction l1; cbn; auto. Qed.
  Lemma firstn_app_exact {B} (l1 l2 : list B) : firstn (length l1) (l1 ++ l2) = l1.
  Proof. induction l1; cbn; [reflexivity | now f_equal]. Qed.

  (* axis 0: the loop replaces row k, k+1, ... by the projections of those rows *)
  Lemma fold_rows (projs : list (list A -> pres (list A))) : forall k (m : list (list A)), length m = (k + length projs)%nat ->
    pfoldi_from (fun (i : nat) (r : list A -> pres (list A)) (point : list (list A)) =>
                   pbind (r (getrow i point)) (fun v => POk (setrow i v point))) k projs m
    = pbind (pmap2 papp projs (skipn k m)) (fun rs => POk (firstn k m ++ rs)).
  Proof.
    induction projs as [|f fs IH]; intros k m Hm; cbn [length] in Hm.
    - cbn [pfoldi_from pmap2 pbind]. rewrite Nat.add_0_r in Hm. rewrite firstn_all2 by lia. now rewrite app_nil_r.
    - cbn [pfoldi_from]. assert (Hk : (k < length m)%nat) by lia.
      rewrite (skipn_nth_cons m k [] Hk). cbn [pmap2]. unfold getrow.
      destruct (f (nth k m [])) as [v| | |]; cbn [pbind]; try reflexivity.
      unfold setrow. rewrite IH.
      2:{ rewrite upd_split by exact Hk. rewrite app_length, firstn_length_le by lia. cbn [length]. rewrite skipn_length. lia. }
      rewrite (upd_split m k v Hk).
      assert (Hl1 : length (firstn k m ++ [v]) = S k) by (rewrite app_length, firstn_length_le by lia; cbn; lia).
      assert (E1 : skipn (S k) (firstn k m ++ v :: skipn (S k) m) = skipn (S k) m).
      { change (v :: skipn (S k) m) with ([v] ++ skipn (S k) m). rewrite app_assoc. rewrite <- Hl1 at 1. apply skipn_app_exact. }
      assert (E2 : firstn (S k) (firstn k m ++ v :: skipn (S k) m) = firstn k m ++ [v]).
      { change (v :: skipn (S k) m) with ([v] ++ skipn (S k) m). rewrite app_assoc. rewrite <- Hl1 at 1. apply firstn_app_exact. }
      rewrite E1, E2. destruct (pmap2 papp fs (skipn (S k) m)); cbn [pbind]; try reflexivity.
      now rewrite <- app_assoc.
  Qed.

  (* axis 1 *)
  Definition all_rows_len (R : nat) (m : list (list A)) : Prop := List.Forall (fun r => length r = R) m.
  Lemma getcol_length j (m : list (list A)) : length (getcol j m) = length m.
  Proof. unfold getcol. apply map_length. Qed.
  Lemma map2_length {B C D} (f : B -> C -> D) l m : length l = length m -> length (map2 f l m) = length l.
  Proof. revert m. induction l as [|x l IH]; intros [|y m] E; try discriminate; cbn; auto. Qed.
  Lemma setcol_rows R j v (m : list (list A)) : length v = length m -> all_rows_len R m -> all_rows_len R (setcol j v m) /\ length (setcol j v m) = length m.
  Proof.
    unfold setcol. revert v. induction m as [|r m IH]; intros [|x v] E; try discriminate; intros Hr; cbn [map2 length].
    - split; [constructor | reflexivity].
    - inversion Hr as [|? ? Hh Ht]; subst. destruct (IH v) as [I1 I2]; [cbn in E; lia | exact Ht |]. split; [|now rewrite I2].
      constructor; [|exact I1]. clear. revert j. induction r as [|a r IHr]; intros [|j]; cbn; auto.
  Qed.
  Lemma nth_upd_other {B} (l : list B) k j v d : j <> k -> nth j (upd l k v) d = nth j l d.
  Proof.
    revert k j. induction l as [|x l IH]; intros k j Hne; [destruct j; reflexivity|].
    destruct k as [|k], j as [|j]; cbn; try reflexivity; try congruence. apply IH. congruence.
  Qed.
  Lemma getcol_setcol_other j k v (m : list (list A)) : j <> k -> length v = length m -> getcol j (setcol k v m) = getcol j m.
  Proof.
    unfold getcol, setcol. revert v. induction m as [|r m IH]; intros [|x v] E Hl; try discriminate; [reflexivity|].
    cbn [map2 map]. f_equal; [now apply nth_upd_other | apply IH; auto].
  Qed.
  Lemma firstn_S_upd {B} (r : list B) k x : (k < length r)%nat -> firstn (S k) (upd r k x) = firstn k r ++ [x].
  Proof.
    revert k. induction r as [|a r IH]; intros k Hk; [cbn in Hk; lia|]. destruct k as [|k]; [reflexivity|].
    cbn [upd]. change (firstn (S (S k)) (a :: upd r k x)) with (a :: firstn (S k) (upd r k x)).
    rewrite IH by (cbn in Hk; lia). reflexivity.
  Qed.

  Definition newrows (k : nat) (cs : list (list A)) (m : list (list A)) (from : nat) : list (list A) :=
    map2 (fun row i => firstn k row ++ map (fun c => nth i c n0) cs) m (seq from (length m)).

  Lemma newrows_step (R k : nat) (cs : list (list A)) (vfull : list A) : (k < R)%nat ->
    forall (m : list (list A)) from, length vfull = (from + length m)%nat -> all_rows_len R m ->
    map2 (fun row i => firstn (S k) row ++ map (fun c => nth i c n0) cs)
         (map2 (fun (r : list A) (x : A) => upd r k x) m (skipn from vfull)) (seq from (length m))
    = map2 (fun row i => firstn k row ++ map (fun c => nth i c n0) (vfull :: cs)) m (seq from (length m)).
  Proof.
    intros HkR. induction m as [|r m IHm]; intros from Hv Hm; [reflexivity|].
    inversion Hm as [|? ? Hh Ht]; subst. cbn [length] in Hv.
    rewrite (skipn_nth_cons vfull from n0) by lia. cbn [map2 length seq map]. f_equal.
    - rewrite firstn_S_upd by lia. now rewrite <- app_assoc.
    - apply IHm; [lia | exact Ht].
  Qed.

  Lemma fold_cols (projs : list (list A -> pres (list A))) :
    (forall f, In f projs -> forall v q, f v = POk q -> length q = length v) ->
    forall k (m : list (list A)), all_rows_len (k + length projs) m ->
    pfoldi_from (fun (i : nat) (r : list A -> pres (list A)) (point : list (list A)) =>
                   pbind (r (getcol i point)) (fun v => POk (setcol i v point))) k projs m
    = pbind (pmap2 papp projs (map (fun j => getcol j m) (seq k (length projs)))) (fun cs => POk (newrows k cs m 0)).
  Proof.
    induction projs as [|f fs IH]; intros Hlen k m Hm; cbn [length] in Hm.
    - cbn [pfoldi_from length seq map pmap2 pbind]. f_equal. unfold newrows.
      rewrite Nat.add_0_r in Hm. revert Hm. generalize 0%nat. induction m as [|r m IHm]; intros from Hm; [reflexivity|].
      inversion Hm as [|? ? Hh Ht]; subst. cbn [length seq map2 map]. rewrite app_nil_r, firstn_all. f_equal. apply IHm. exact Ht.
    - cbn [pfoldi_from length seq map pmap2].
      destruct (f (getcol k m)) as [v| | |] eqn:Ef; cbn [pbind]; try reflexivity.
      assert (Hv : length v = length m) by (rewrite (Hlen f (or_introl eq_refl) _ _ Ef); apply getcol_length).
      destruct (setcol_rows (k + S (length fs)) k v m Hv Hm) as [Hr' Hl'].
      rewrite IH; [| intros g Hg; apply Hlen; now right | replace (S k + length fs)%nat with (k + S (length fs))%nat by lia; exact Hr'].
      assert (Ecols : map (fun j => getcol j (setcol k v m)) (seq (S k) (length fs)) = map (fun j => getcol j m) (seq (S k) (length fs))).
      { apply map_ext_in. intros j Hj. apply in_seq in Hj. apply getcol_setcol_other; [lia | exact Hv]. }
      rewrite Ecols. destruct (pmap2 papp fs (map (fun j => getcol j m) (seq (S k) (length fs)))) as [cs| | |]; cbn [pbind]; try reflexivity.
      f_equal. unfold newrows, setcol. rewrite map2_length by (symmetry; exact Hv).
      change v with (skipn 0 v) at 1. apply (newrows_step (k + S (length fs))); [lia | cbn; lia | exact Hm].
  Qed.
End ListRegion.

Section ListTheorem.
  Context {A : Type} `{Num A}.
  Local Open Scope num_scope.

  (* List.project; the two side conditions are what List.__init__ stores (shape = (r, l) for axis 0, (l, r) for axis 1, r regions)
     and, for axis 1, that a region's projection has the length of its argument *)
  Theorem gen_list_project (projs : list (list A -> pres (list A))) axis shape (m : list (list A)) :
    (axis = 0%nat -> fst shape = length projs) ->
    (axis <> 0%nat -> snd shape = length projs /\ forall f, In f projs -> forall v q, f v = POk q -> length q = length v) ->
    List_project projs axis shape m = list_stored_project projs axis shape m.
  Proof.
    intros H0 H1. unfold List_project, list_stored_project. cbv zeta.
    destruct (mshape_ok (fst shape) (snd shape) m) eqn:Es; cbn [negb]; [|reflexivity].
    apply mshape_ok_true in Es. destruct Es as [Hr Hc]. unfold pfoldi.
    destruct axis as [|a]; cbn [Nat.eqb].
    - rewrite fold_rows by (rewrite Hr; cbn; now apply H0). cbn [skipn firstn app].
      destruct (pmap2 (fun f r => f r) projs m); reflexivity.
    - destruct (H1 ltac:(discriminate)) as [Hs Hlen].
      rewrite fold_cols; [| exact Hlen | cbn; rewrite <- Hs; exact Hc].
      unfold transpose. rewrite Hs.
      change (map (fun j => getcol j m) (seq 0 (length projs))) with (map (fun j => map (fun r => nth j r n0) m) (seq 0 (length projs))).
      destruct (pmap2 (fun f r => f r) projs (map (fun j => map (fun r => nth j r n0) m) (seq 0 (length projs)))) as [cs| | |]; cbn [pbind]; try reflexivity.
      f_equal. unfold newrows. rewrite <- Hr. cbn [firstn app]. clear. generalize 0%nat. induction m as [|r m IH]; intros from; [reflexivity|].
      cbn [length seq map2 map]. f_equal. apply IH.
  Qed.
End ListTheorem.

(* ---- over the reals: the stored (normalised) half space and slab are the square-root-free model ------------------------ *)
Local Open Scope R_scope.
Definition norm2 (v : list R) : R := sqrt (dot v v).

Lemma half_stored_is_model n off sg nn oo sg' (p : list R) : dot n n <> 0 ->
  half_stored_init norm2 n off sg = POk (nn, oo, sg') ->
  half_stored_project nn oo sg' p = half_project n off sg p.
Proof.
  intros Hnn. unfold half_stored_init. destruct (neqb sg n0); [discriminate|]. intros E. injection E as <- <- <-.
  unfold half_stored_project, half_project. rewrite map_length.
  destruct (Nat.eqb (length p) (length n)); [|reflexivity]. f_equal.
  rewrite <- (halfspace_form n off sg p Hnn). unfold half_clamp_normalised, half_viol, norm2.
  set (nrm := sqrt (dot n n)).
  assert (En : map (fun x : R => x / nrm) n = vscale (/ nrm) n).
  { unfold vscale. apply map_ext. intros x. cbn. unfold Rdiv. apply Rmult_comm. }
  rewrite !En. cbn [ndiv nsub NumR n0].
  destruct ((nltb 0 sg && nltb (dot p (vscale (/ nrm) n)) (off / nrm)) || (nltb sg 0 && nltb (off / nrm) (dot p (vscale (/ nrm) n)))); [|reflexivity].
  f_equal. unfold vscale at 3. apply map_ext. intros x. cbn. apply Rmult_comm.
Qed.

Lemma slab_stored_is_model tol n lw hg lo hi (p : list R) : dot n n <> 0 ->
  slab_stored_init norm2 n lw hg = POk (lo, hi) ->
  slab_stored_project tol (fst (fst lo)) (snd (fst lo)) (snd lo) (fst (fst hi)) (snd (fst hi)) (snd hi) p = slab_project tol n lw hg p
  /\ slab_stored_is_in tol (fst (fst lo)) (snd (fst lo)) (snd lo) (fst (fst hi)) (snd (fst hi)) (snd hi) p = slab_is_in tol n lw hg p.
Proof.
  intros Hnn. unfold slab_stored_init. destruct (nltb hg lw); [discriminate|].
  destruct (half_stored_init norm2 n lw n1) as [[[ln lo'] ls]| | |] eqn:E1; cbn [pbind]; try discriminate.
  destruct (half_stored_init norm2 n hg (- n1)%num) as [[[hn ho'] hs]| | |] eqn:E2; cbn [pbind]; try discriminate.
  intros E. injection E as <- <-. cbn [fst snd].
  unfold slab_stored_project, slab_stored_is_in, slab_project, slab_is_in, is_in_of.
  rewrite !(half_stored_is_model _ _ _ _ _ _ p Hnn E1), !(half_stored_is_model _ _ _ _ _ _ p Hnn E2). split; reflexivity.
Qed.

(* the generated constructor + method, end to end *)
Theorem gen_halfspace_is_model n off sg nn oo sg' (p : list R) : dot n n <> 0 ->
  HalfSpace_init norm2 n off sg = POk (nn, oo, sg') -> HalfSpace_project nn oo sg' p = half_project n off sg p.
Proof. intros Hnn E. rewrite gen_half_project. rewrite gen_half_init in E. now apply half_stored_is_model. Qed.

Theorem gen_slice_is_model tol n lw hg lo hi (p : list R) : dot n n <> 0 ->
  Slice_init norm2 n lw hg = POk (lo, hi) ->
  Slice_project tol (fst (fst lo)) (snd (fst lo)) (snd lo) (fst (fst hi)) (snd (fst hi)) (snd hi) p = slab_project tol n lw hg p
  /\ Slice_is_in tol (fst (fst lo)) (snd (fst lo)) (snd lo) (fst (fst hi)) (snd (fst hi)) (snd hi) p = slab_is_in tol n lw hg p.
Proof. intros Hnn E. rewrite gen_slab_project, gen_slab_is_in. rewrite gen_slab_init in E. now apply slab_stored_is_model. Qed.

(* constructor guards: HalfSpace rejects sign 0, Slice rejects low > high, exactly as the model's rctor_ok *)
Theorem gen_ctor_guards n off sg lw hg :
  (HalfSpace_init norm2 n off sg = PValueError <-> sg = 0) /\
  (Slice_init norm2 n lw hg = PValueError <-> hg < lw).
Proof.
  split.
  - rewrite gen_half_init. unfold half_stored_init. cbn [neqb NumR n0].
    destruct (Reqb sg 0) eqn:E; [apply Reqb_true in E | apply Reqb_false in E]; split; auto; try discriminate; contradiction.
  - rewrite gen_slab_init. unfold slab_stored_init, half_stored_init. cbn [neqb NumR n0 n1 nopp].
    destruct (nltb hg lw) eqn:E; [apply Rltb_true in E | apply Rltb_false in E].
    + split; auto.
    + assert (E1 : Reqb 1 0 = false) by (apply Reqb_false; lra). assert (E2 : Reqb (Ropp 1) 0 = false) by (apply Reqb_false; lra).
      rewrite E1. cbn [pbind]. rewrite E2. cbn [pbind]. split; [discriminate | lra].
Qed.

(* the tolerance and the iteration cap the source declares *)
Theorem gen_constants : ConvexRegion_tol (A:=R) = 7737125245533627 / 77371252455336267181195264 /\ Intersection_maxiter = 1000%nat.
Proof. split; reflexivity. Qed.

(* List: the stored form (projections, axis, shape) is the region-level model *)
Section ListModel.
  Context {A : Type} `{Num A}.
  Lemma pmap2_map {S' T U V} (g : S' -> T -> pres U) (h : V -> S') (l : list V) (m : list T) :
    pmap2 (fun f r => f r) (map (fun v => g (h v)) l) m = pmap2 (fun v r => g (h v) r) l m.
  Proof. revert m. induction l as [|x l IH]; intros [|y m]; cbn; try reflexivity. now rewrite IH. Qed.

  Definition list_shape (rs : list (region A)) (axis1 : bool) : nat * nat :=
    let r := length rs in let l := match rs with r0 :: _ => rlen r0 | [] => O end in if axis1 then (l, r) else (r, l).

  Lemma list_stored_is_model (proj : region A -> list A -> pres (list A)) rs (axis1 : bool) m :
    list_stored_project (map proj rs) (if axis1 then 1 else 0) (list_shape rs axis1) m = list_project proj rs axis1 m.
  Proof.
    unfold list_stored_project, list_project, list_shape, rows_project. destruct axis1; cbn [fst snd Nat.eqb].
    - destruct (mshape_ok _ _ m); [|reflexivity]. now rewrite (pmap2_map (fun r => proj r) (fun r => r)).
    - destruct (mshape_ok _ _ m); [|reflexivity]. now rewrite (pmap2_map (fun r => proj r) (fun r => r)).
  Qed.
End ListModel.

Section ListEndToEnd.
  Context {A : Type} `{Num A}.
  Theorem gen_list_is_model (proj : region A -> list A -> pres (list A)) rs (axis1 : bool) m :
    (axis1 = true -> forall r, In r rs -> forall v q, proj r v = POk q -> length q = length v) ->
    List_project (map proj rs) (if axis1 then 1 else 0)%nat (list_shape rs axis1) m = list_project proj rs axis1 m.
  Proof.
    intros Hlen. rewrite <- list_stored_is_model. apply gen_list_project.
    - intros E. destruct axis1; [discriminate|]. unfold list_shape. cbn [fst]. now rewrite map_length.
    - intros E. destruct axis1; [|contradiction]. unfold list_shape. cbn [snd]. rewrite map_length. split; [reflexivity|].
      intros f Hf v q Ef. apply in_map_iff in Hf. destruct Hf as [r [<- Hr]]. exact (Hlen eq_refl r Hr v q Ef).
  Qed.
End ListEndToEnd.

(* the side conditions of the loop theorem hold for the reals and for every well-formed region *)
Theorem gen_intersection_of_regions tol mi (a b : region R) (p : list R) : 0 <= tol -> rwf a ->
  Intersection_project (rproject tol mi a) (rproject tol mi b) (ris_in tol mi a) (ris_in tol mi b) mi (S (S mi)) p
  = rproject tol mi (RInter a b) p.
Proof.
  intros Ht Ha. rewrite gen_inter_project; [reflexivity | intros x; cbn; lra |].
  intros v q E. destruct (ps_len _ _ _ _ (region_spec tol mi a Ht Ha) v q E) as [L1 L2]. congruence.
Qed.
