(* Tie T at class level: the definitions regenerated from the NumPy source of the simple atomic devices (Gen/Classes.v)
   equal the hand-written model functions the theorems are about, for every horizon length. Each proof starts with
   `first [reflexivity | ...]` so that a method the translator could not read (emitted as an alias of the model) still checks. *)
From Coq Require Import ZArith Reals List Bool Arith Lia Lra.
From DK Require Import Num NumR Vec.
From DK.Gen Require Import Kernels Classes.
From DK.Model Require Import Leaf Fn Dev.
From DK.Proofs Require Import VecFacts RVec KernelR Calc C15Proofs C01Proofs.
Import ListNotations.
Local Open Scope R_scope.

Lemma vsum_shift (c : R) l : vsum (map (fun x => c + x) l) = INR (length l) * c + vsum l.
Proof.
  induction l as [|x l IH]; [simpl; ring|]. cbn [map length]. rewrite !vsum_cons, IH, S_INR. ring.
Qed.
Lemma vsum_vadd (a b : list R) : length a = length b -> vsum (vadd a b) = vsum a + vsum b.
Proof.
  revert b; induction a as [|x a IH]; intros [|y b] HL; simpl in HL; try lia; [simpl; ring|].
  cbn [vadd map2]. rewrite !vsum_cons. fold (vadd a b). rewrite IH by lia. numR. ring.
Qed.
Lemma nofnat_INR n : nofnat (A:=R) n = INR n.
Proof. unfold nofnat. numR. now rewrite <- INR_IZR_INZ. Qed.
Lemma vmul_length (a b : list R) : length a = length b -> length (vmul a b) = length a.
Proof. intros HL. unfold vmul. rewrite map2_length. lia. Qed.

(* ---- Device / CDevice / PVDevice ---- *)
Lemma gen_device_cost n s p : Device_cost (A:=R) n s p = dev_cost s p.
Proof. reflexivity. Qed.
Lemma gen_cdevice_cost n a b s p : CDevice_cost (A:=R) n a b s p = cdev_cost a b s p.
Proof. reflexivity. Qed.
Lemma gen_pvdevice_costv n s p : vsum (PVDevice_costv (A:=R) n s p) = dev_cost s p.
Proof. reflexivity. Qed.

(* ---- IDevice / IDevice2: (F/n + s*p).sum() = F + <s,p> ---- *)
Lemma spread_sum (F : R) (s p : list R) n : length s = n -> length p = n ->
  vsum (map (fun x => F / nofnat n + x) (vmul s p)) = (if Nat.eqb n 0 then 0 else F) + dot s p.
Proof.
  intros Hs Hp. rewrite vsum_shift, vmul_length by lia. rewrite Hs, nofnat_INR.
  destruct n as [|n]; [simpl; unfold dot; ring|]. cbn [Nat.eqb]. unfold dot.
  assert (INR (S n) <> 0) by (apply not_0_INR; lia). field. auto.
Qed.
Lemma gen_idevice_cost n a b c bnd s p : length s = n -> length p = n -> (0 < n)%nat ->
  IDevice_cost (A:=R) n a b c bnd s p = idev_cost a b c bnd s p.
Proof.
  intros Hs Hp Hn. first [reflexivity | unfold IDevice_cost, IDevice_costv].
  change (map2 (fun x y => x * y)%num s p) with (vmul s p).
  rewrite (spread_sum _ s p n Hs Hp). destruct n; [lia|]. reflexivity.
Qed.
Lemma gen_idevice2_cost n pl ph bnd s p : length s = n -> length p = n -> (0 < n)%nat ->
  IDevice2_cost (A:=R) n pl ph bnd s p = idev2_cost pl ph bnd s p.
Proof.
  intros Hs Hp Hn. first [reflexivity | unfold IDevice2_cost, IDevice2_costv].
  change (map2 (fun x y => x * y)%num s p) with (vmul s p).
  rewrite (spread_sum _ s p n Hs Hp). destruct n; [lia|]. reflexivity.
Qed.

(* ---- SDevice: the three cost terms ---- *)
Definition sq_of c1 c2 c3 cap dep st e su : sparams R := Build_sparams c1 c2 c3 cap dep st 0 e su None None.

Lemma gen_sdevice_charge_at n c1 c2 c3 cap dep st e su r : length r = n ->
  SDevice_charge_at (A:=R) n c1 c2 c3 cap dep st e su r = sdev_charge (sq_of c1 c2 c3 cap dep st e su) r.
Proof. intros Hr. unfold SDevice_charge_at, SDevice_base, sdev_charge, sdev_base, sq_of. cbn [sp_start sp_capacity sp_sus sp_eff]. now rewrite Hr. Qed.

Lemma flip_as_list (r : list R) :
  vsum (map (fun i => nth i r 0 * nth (S i) r 0) (seq 0 (length r - 1)) ++ [0]) = flip r.
Proof.
  rewrite vsum_app. simpl (vsum [0]). rewrite Rplus_0_r, Rplus_0_r.
  induction r as [|x r IH]; [reflexivity|]. destruct r as [|y r]; [reflexivity|].
  rewrite flip_cons2. cbn [length Nat.sub] in *. rewrite Nat.sub_0_r in *. cbn [seq map]. rewrite vsum_cons. cbn [nth]. f_equal.
  rewrite <- seq_shift, map_map. exact IH.
Qed.

Lemma vadd_length (a b : list R) : length a = length b -> length (vadd a b) = length a.
Proof. intros HL. unfold vadd. rewrite map2_length. lia. Qed.

(* length bookkeeping for sums of vectors of the horizon length *)
Ltac vlen :=
  repeat (rewrite ?vadd_length, ?vmul_length, ?map_length, ?app_length, ?seq_length, ?sdev_charge_length, ?map2_length in *);
  try (cbn [length] in *); try lia.

Lemma vsum_vadd' (n : nat) (a b : list R) : length a = n -> length b = n -> vsum (vadd a b) = vsum a + vsum b.
Proof. intros Ha Hb. apply vsum_vadd. lia. Qed.
Lemma vadd_length' (n : nat) (a b : list R) : length a = n -> length b = n -> length (vadd a b) = n.
Proof. intros Ha Hb. rewrite vadd_length; lia. Qed.

Ltac len_n n :=
  match goal with
  | |- length (vadd _ _) = _ => apply (vadd_length' n); len_n n
  | |- length (vmul _ _) = _ => rewrite vmul_length; lia
  | |- length (map _ _) = _ => rewrite map_length; len_n n
  | |- length (_ ++ _) = _ => rewrite app_length, ?map_length, ?seq_length; cbn [length]; lia
  | |- length (sdev_charge _ _) = _ => rewrite sdev_charge_length; lia
  | |- _ => lia
  end.

Lemma gen_sdevice_cost n c1 c2 c3 cap dep st e su s p : length s = n -> length p = n -> (0 < n)%nat ->
  SDevice_cost (A:=R) n c1 c2 c3 cap dep st e su s p = sdev_cost (sq_of c1 c2 c3 cap dep st e su) s p.
Proof.
  intros Hs Hp Hn. first [reflexivity | unfold SDevice_cost, SDevice_costv, SDevice_charge_costs, SDevice_flip_cost_at, SDevice_deep_damage_at].
  cbv zeta. rewrite ?(gen_sdevice_charge_at n c1 c2 c3 cap dep st e su s Hs).
  set (q := sq_of c1 c2 c3 cap dep st e su).
  change (map2 (fun x y => x * y)%num s p) with (vmul s p).
  change (map2 (fun x y => x + y)%num) with (vadd (A:=R)).
  repeat (rewrite (vsum_vadd' n) by len_n n).
  unfold sdev_cost, sdev_pref, sdev_short, dot. numR. cbn [sp_c1 sp_c2 sp_c3 sp_capacity sp_depth q sq_of].
  rewrite ?vsum_map_scal, ?map_id, ?flip_as_list. rewrite ?map_map.
  assert (E1 : vsum (map (fun x => npown x 2) s) = vsum (map nsq s)).
  { apply vsum_map_ext. intros x _. unfold nsq. simpl. numR. ring. }
  assert (E2 : vsum (map (fun x => npown (nmin (x - cap * dep)%num n0) 2) (sdev_charge q s))
             = vsum (map (fun x => nsq (nmin (x - cap * dep)%num n0)) (sdev_charge q s))).
  { apply vsum_map_ext. intros x _. unfold nsq. simpl. numR. ring. }
  numR. rewrite ?E1, ?E2. ring.
Qed.

(* ---- GDevice: s*p + poly(-s), p - poly'(-s), diag(poly''(-s)) ---- *)
From DK.Proofs Require Import VecAlg.
Lemma nth_vmul (a b : list R) i : (i < length a)%nat -> (i < length b)%nat -> nth i (vmul a b) 0 = nth i a 0 * nth i b 0.
Proof.
  revert b i; induction a as [|x a IH]; intros [|y b] i Ha Hb; simpl in *; try lia.
  destruct i as [|i]; [reflexivity|]. apply IH; lia.
Qed.
Lemma idx_map_length (f : nat -> R -> R) (s : list R) : length (map (fun '(i, v) => f i v) (idx s)) = length s.
Proof. apply map_idx_length. Qed.
Lemma gk_nth (f : nat -> R -> R) (s : list R) k : (k < length s)%nat ->
  nth k (map (fun '(i, v) => f i v) (idx (map (fun x => - x) s))) 0 = f k (- nth k s 0).
Proof.
  intros Hk. rewrite (nth_map_idx f) by (now rewrite map_length). f_equal.
  rewrite (nth_indep _ 0 (- 0)) by (now rewrite map_length). now rewrite (map_nth (fun x => - x)).
Qed.

Lemma gen_gdevice_costv n g s p : length s = n -> length p = n ->
  GDevice_costv (A:=R) n g s p = map (fun '(i, x) => x * nth i p 0 + horner (gpoly g i) (- x)) (idx s).
Proof.
  intros Hs Hp. first [reflexivity | unfold GDevice_costv, gk_val].
  change (map2 (fun x y => x * y)%num s p) with (vmul s p). change (map2 (fun x y => x + y)%num) with (vadd (A:=R)).
  apply list_eq_nth.
  - rewrite vadd_length, vmul_length, (idx_map_length (fun i v => horner (gpoly g i) v)), map_length by lia.
    rewrite (idx_map_length (fun i x => x * nth i p 0 + horner (gpoly g i) (- x))). lia.
  - intros k Hk. rewrite vadd_length, vmul_length, (idx_map_length (fun i v => horner (gpoly g i) v)), map_length in Hk by lia.
    rewrite nth_vadd by (rewrite ?vmul_length, ?(idx_map_length (fun i v => horner (gpoly g i) v)), ?map_length; lia).
    rewrite nth_vmul by lia. rewrite (gk_nth (fun i v => horner (gpoly g i) v)) by lia.
    rewrite (nth_map_idx (fun i x => x * nth i p 0 + horner (gpoly g i) (- x))) by lia. reflexivity.
Qed.
Lemma gen_gdevice_cost n g s p : length s = n -> length p = n -> GDevice_cost (A:=R) n g s p = gdev_cost g s p.
Proof. intros Hs Hp. first [reflexivity | unfold GDevice_cost]. now rewrite (gen_gdevice_costv n g s p Hs Hp). Qed.
