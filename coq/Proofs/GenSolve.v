(* solve() and step() as regenerated from device_kit/solve.py (Gen/Solve.v, translator/solve_tx.py) are the wrapper model of
   Model/Solve.v that the C05 / C19 theorems quantify over (for EVERY behaviour of the optimiser, the projection helper and the line
   search).  Any carrier, axiom-free. *)
From Coq Require Import ZArith List Bool Arith Lia.
From DK Require Import Num Vec.
From DK.Model Require Import Leaf Fn Dev Tree Solve SolveOps.
From DK.Gen Require Import Solve.
From DK.Proofs Require Import VecFacts.
Import ListNotations.

Section AnyCarrier.
  Context {A : Type} `{Num A}.
  Local Open Scope num_scope.

  Theorem gen_solve_defaults : solve_defaults_gen (A:=A) = default_opts /\ forall user, solve_options_gen user = solve_options user.
  Proof. split; reflexivity. Qed.

  Lemma combine_fst_snd {B C} (l : list (B * C)) : combine (map fst l) (map snd l) = l.
  Proof. induction l as [|[a b] l IH]; cbn; [reflexivity | now rewrite IH]. Qed.
  Lemma exists_violation (cs : list (con A)) (s : list A) :
    existsb (fun c => (c_eq c && (n1 / nofZ 1000000 <? nabs (c_fun c s))) || (negb (c_eq c) && (c_fun c s <? - (n1 / nofZ 1000000)))) cs
    = negb (forallb (fun c => con_sat fixed_tol c s) cs).
  Proof.
    induction cs as [|c cs IH]; [reflexivity|]. cbn [existsb forallb]. rewrite IH, negb_andb. f_equal.
    unfold con_sat, fixed_tol, nltb. destruct (c_eq c); cbn [andb orb negb]; [now rewrite orb_false_r | reflexivity].
  Qed.

  Theorem gen_solve (minimize : problem A -> optresult A) dv s0 prox : length (dv_bounds dv) = (dv_rows dv * dv_n dv)%nat ->
    solve_gen minimize dv s0 prox = solve_model minimize dv s0 prox.
  Proof.
    intros Hb. unfold solve_gen, solve_model. rewrite combine_fst_snd. fold (all_fixed (dv_bounds dv)).
    destruct (all_fixed (dv_bounds dv)).
    - cbv zeta. rewrite exists_violation. unfold reshape_or_raise. rewrite map_length, Hb, Nat.eqb_refl.
      destruct (forallb (fun c => con_sat fixed_tol c (map fst (dv_bounds dv))) (dv_cons dv)); reflexivity.
    - cbv zeta. cbn [fst snd].
      assert (Epb : (match prox_on prox with
                     | None => {| pb_x0 := match s0 with Some sv => sv | None => concat (dv_project dv (mconst (dv_rows dv) (dv_n dv) n0)) end;
                                  pb_fun := fun s_arg => dv_cost dv s_arg; pb_jac := fun s_arg => concat (dv_deriv dv s_arg);
                                  pb_bounds := dv_bounds dv; pb_cons := dv_cons dv |}
                     | Some r => {| pb_x0 := match s0 with Some sv => sv | None => concat (dv_project dv (mconst (dv_rows dv) (dv_n dv) n0)) end;
                                    pb_fun := fun s_arg => dv_cost dv s_arg + n1 / (nofZ 2 * r) * vsum (map nsq (vsub s_arg match s0 with Some sv => sv | None => concat (dv_project dv (mconst (dv_rows dv) (dv_n dv) n0)) end));
                                    pb_jac := fun s_arg => vadd (concat (dv_deriv dv s_arg)) (vscale (n1 / r) (vsub s_arg match s0 with Some sv => sv | None => concat (dv_project dv (mconst (dv_rows dv) (dv_n dv) n0)) end));
                                    pb_bounds := dv_bounds dv; pb_cons := dv_cons dv |}
                     end) = solve_problem dv s0 prox).
      { unfold solve_problem. destruct (prox_on prox); reflexivity. }
      rewrite Epb. destruct (length (pb_x0 (solve_problem dv s0 prox)) <? count_eq (pb_cons (solve_problem dv s0 prox)))%nat; [reflexivity|].
      unfold reshape_or_raise. destruct (o_success (minimize (solve_problem dv s0 prox))); reflexivity.
  Qed.

End AnyCarrier.
