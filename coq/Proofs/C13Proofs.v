(* C13: row labelling. Purely structural (strings, lists, trees): no Reals, expected axiom-free. *)
From Coq Require Import ZArith List Bool Arith Lia String.
From DK Require Import Num Vec.
From DK.Model Require Import Leaf Fn Dev Tree.
From DK.Proofs Require Import TreeFacts C02Proofs.
Import ListNotations.
#[local] Arguments l_rows {A L}. #[local] Arguments l_n {A L}. #[local] Arguments l_bounds {A L}.
#[local] Arguments l_cost {A L}. #[local] Arguments l_deriv {A L}. #[local] Arguments l_cons {A L}.
#[local] Arguments l_conduit {A L}.

(* ---- dict semantics for unique keys ---------------------------------------------------------------------- *)
Lemma filter_id {B} (f : B -> bool) l : (forall x, In x l -> f x = true) -> filter f l = l.
Proof. induction l as [|x l IH]; intros Hf; simpl; [reflexivity|]. rewrite Hf by (now left). f_equal. apply IH. intros; apply Hf; now right. Qed.

Lemma dedup_nodup l : NoDup l -> dedup l = l.
Proof.
  induction 1 as [|x l Hx Hnd IH]; simpl; [reflexivity|]. rewrite IH. f_equal. apply filter_id.
  intros y Hy. destruct (String.eqb x y) eqn:E; [|reflexivity]. apply String.eqb_eq in E. subst. contradiction.
Qed.

Lemma last_val_absent {V} k (l : list (string * V)) acc : ~ In k (map fst l) -> last_val k l acc = acc.
Proof.
  revert acc; induction l as [|[k' v] l IH]; intros acc Hn; simpl; [reflexivity|].
  destruct (String.eqb k k') eqn:E.
  - apply String.eqb_eq in E. subst. exfalso. apply Hn. now left.
  - apply IH. intros Hin. apply Hn. now right.
Qed.

Lemma flat_map_ext_in {B C} (f g : B -> list C) l : (forall x, In x l -> f x = g x) -> flat_map f l = flat_map g l.
Proof. induction l as [|x l IH]; intros Hfg; simpl; [reflexivity|]. rewrite Hfg by (now left). f_equal. apply IH. intros; apply Hfg; now right. Qed.

Lemma as_dict_nodup {V} (l : list (string * V)) : NoDup (map fst l) -> as_dict l = l.
Proof.
  intros Hnd. unfold as_dict. rewrite dedup_nodup by exact Hnd.
  induction l as [|[k v] l IH]; simpl; [reflexivity|].
  inversion Hnd as [|? ? Hk Hnd']; subst. rewrite String.eqb_refl.
  rewrite last_val_absent by exact Hk. simpl. f_equal.
  rewrite <- IH at 2 by exact Hnd'. apply flat_map_ext_in. intros x Hx.
  destruct (String.eqb x k) eqn:E; [|reflexivity]. apply String.eqb_eq in E. subst. contradiction.
Qed.

Lemma combine_fst_snd {B C} (a : list B) (b : list C) : List.length a = List.length b ->
  map fst (combine a b) = a /\ map snd (combine a b) = b.
Proof.
  revert b; induction a as [|x a IH]; intros [|y b] HL; simpl in *; try discriminate; [split; reflexivity|].
  injection HL as HL. destruct (IH b HL) as [E1 E2]. rewrite E1, E2. split; reflexivity.
Qed.

(* ---- the tree part ------------------------------------------------------------------------------------------------ *)
Section Labels.
  Context {A : Type} `{Num A} {L : Type}.
  Variable ops : leafops A L.
  Notation gdev := (gdev A L).
  Hypothesis one_row : forall l, l_rows ops l = 1.

  Lemma leaves_count d : forall path, List.length (leaves_from ops path d) = rows ops d.
  Proof.
    induction d as [i l|i ks sb IH|i ks sb lb e sg rm IH|i l fl|i l fl r e] using gdev_induction; intros path;
      try (cbn [leaves_from rows]; now rewrite map_length).
    - cbn. now rewrite one_row.
    - rewrite leaves_kids, rows_kids. induction IH as [|k ks Hk _ IHks]; cbn [kids_leaves kids_rows]; [reflexivity|].
      now rewrite app_length, Hk, IHks.
    - rewrite leaves_kids_sub, rows_kids_sub. induction IH as [|k ks Hk _ IHks]; cbn [kids_leaves kids_rows]; [reflexivity|].
      now rewrite app_length, Hk, IHks.
  Qed.

  (* units with the dot-joined path that leaf_devices has built when it reaches them *)
  Fixpoint upaths (path : string) (o : nat) (d : gdev) : list (nat * string * gdev) :=
    match d with
    | DSet _ ks _ | SubBal _ ks _ _ _ _ _ =>
        (fix go (ks : list gdev) (o : nat) : list (nat * string * gdev) :=
           match ks with [] => [] | k :: ks' => upaths (dotjoin path (dev_id k)) o k ++ go ks' (o + rows ops k) end) ks o
    | _ => [(o, path, d)]
    end.
  Fixpoint kids_upaths (path : string) (ks : list gdev) (o : nat) : list (nat * string * gdev) :=
    match ks with [] => [] | k :: ks' => upaths (dotjoin path (dev_id k)) o k ++ kids_upaths path ks' (o + rows ops k) end.
  Lemma upaths_kids p i ks sb o : upaths p o (DSet i ks sb) = kids_upaths p ks o.
  Proof. cbn [upaths]. revert o; induction ks as [|k ks IH]; intros o; cbn [kids_upaths]; [reflexivity|]. now rewrite IH. Qed.
  Lemma upaths_kids_sub p i ks sb lb e sg rm o : upaths p o (SubBal i ks sb lb e sg rm) = kids_upaths p ks o.
  Proof. cbn [upaths]. revert o; induction ks as [|k ks IH]; intros o; cbn [kids_upaths]; [reflexivity|]. now rewrite IH. Qed.

  (* forgetting the paths gives the units of C02 (same offsets, same order) *)
  Lemma upaths_units d : forall p o, map (fun x => (fst (fst x), snd x)) (upaths p o d) = units_from ops o d.
  Proof.
    induction d as [i l|i ks sb IH|i ks sb lb e sg rm IH|i l fl|i l fl r e] using gdev_induction; intros p o; try reflexivity.
    - rewrite upaths_kids, units_kids. revert o; induction IH as [|k ks Hk _ IHks]; intros o; cbn [kids_upaths kids_units]; [reflexivity|].
      now rewrite map_app, Hk, IHks.
    - rewrite upaths_kids_sub, units_kids_sub. revert o; induction IH as [|k ks Hk _ IHks]; intros o; cbn [kids_upaths kids_units]; [reflexivity|].
      now rewrite map_app, Hk, IHks.
  Qed.

  (* the leaf list is the units' own leaf lists, in unit order *)
  Lemma leaves_by_units d : forall p o,
    leaves_from ops p d = List.concat (map (fun x => leaves_from ops (snd (fst x)) (snd x)) (upaths p o d)).
  Proof.
    induction d as [i l|i ks sb IH|i ks sb lb e sg rm IH|i l fl|i l fl r e] using gdev_induction; intros p o;
      try (cbn [upaths map List.concat fst snd]; now rewrite app_nil_r).
    - rewrite leaves_kids, upaths_kids. revert o; induction IH as [|k ks Hk _ IHks]; intros o; cbn [kids_leaves kids_upaths]; [reflexivity|].
      rewrite map_app, concat_app, <- Hk, <- IHks. reflexivity.
    - rewrite leaves_kids_sub, upaths_kids_sub. revert o; induction IH as [|k ks Hk _ IHks]; intros o; cbn [kids_leaves kids_upaths]; [reflexivity|].
      rewrite map_app, concat_app, <- Hk, <- IHks. reflexivity.
  Qed.

  (* blocks laid end to end: the j-th entry of the block of a unit that starts at row ou is entry ou + j overall *)
  Fixpoint ptiled (o : nat) (us : list (nat * string * gdev)) : Prop :=
    match us with [] => True | (ou, _, u) :: us' => ou = o /\ ptiled (o + rows ops u) us' end.
  Lemma ptiled_of_tiled us : forall o e, tiled ops o (map (fun x => (fst (fst x), snd x)) us) e -> ptiled o us.
  Proof.
    induction us as [|[[ou p] u] us IH]; intros o e Ht; simpl in *; [exact I|]. destruct Ht as [-> Ht]. split; eauto.
  Qed.

  Lemma nth_in_blocks {B} (f : nat * string * gdev -> list B) us :
    (forall x, In x us -> List.length (f x) = rows ops (snd x)) ->
    forall o, ptiled o us -> forall ou p u j, In (ou, p, u) us -> j < rows ops u ->
    nth_error (List.concat (map f us)) (ou - o + j) = nth_error (f (ou, p, u)) j /\ o <= ou.
  Proof.
    intros Hlen. induction us as [|[[ou' p'] u'] us IH]; intros o Ht ou p u j Hin Hj; [destruct Hin|].
    simpl in Ht. destruct Ht as [-> Ht]. cbn [map List.concat]. destruct Hin as [E|Hin].
    - inversion E; subst. split; [|lia]. rewrite Nat.sub_diag. simpl. rewrite nth_error_app1; [reflexivity|].
      rewrite Hlen by (now left). exact Hj.
    - assert (Hl : List.length (f (o, p', u')) = rows ops u') by (apply Hlen; now left).
      destruct (IH (fun x Hx => Hlen x (or_intror Hx)) _ Ht ou p u j Hin Hj) as [E Hle]. split; [|lia].
      rewrite nth_error_app2 by lia. rewrite Hl. replace (ou - o + j - rows ops u') with (ou - (o + rows ops u') + j) by lia. exact E.
  Qed.

  (* the i-th entry of the leaf list belongs to the unit that owns row i *)
  Lemma label_owns_row d ou p u j : In (ou, p, u) (upaths (dev_id d) 0 d) -> j < rows ops u ->
    nth_error (leaves ops d) (ou + j) = nth_error (leaves_from ops p u) j.
  Proof.
    intros Hin Hj. unfold leaves. rewrite (leaves_by_units d (dev_id d) 0).
    pose proof (nth_in_blocks (fun x => leaves_from ops (snd (fst x)) (snd x)) (upaths (dev_id d) 0 d)) as G.
    destruct (G (fun x _ => leaves_count (snd x) (snd (fst x))) 0) with (ou := ou) (p := p) (u := u) (j := j) as [E _]; auto.
    - eapply ptiled_of_tiled. rewrite upaths_units. apply units_tile.
    - rewrite Nat.sub_0_r in E. exact E.
  Qed.

  Lemma leaf_label_at_its_row d o p i l : In (o, p, Leaf i l) (upaths (dev_id d) 0 d) ->
    nth_error (leaves ops d) o = Some (p, l).
  Proof.
    intros Hin. rewrite <- (Nat.add_0_r o). rewrite (label_owns_row d o p (Leaf i l) 0 Hin); [reflexivity|].
    cbn. rewrite one_row. lia.
  Qed.

  Lemma conduit_label_at_its_row d o p i l fl j f : In (o, p, MF i l fl) (upaths (dev_id d) 0 d) -> nth_error fl j = Some f ->
    nth_error (leaves ops d) (o + j) = Some (dotjoin p f, conduit ops l).
  Proof.
    intros Hin Hf. rewrite (label_owns_row d o p (MF i l fl) j Hin).
    - cbn [leaves_from]. now rewrite nth_error_map, Hf.
    - cbn. apply nth_error_Some. congruence.
  Qed.

  Lemma conduit_label_at_its_row2 d o p i l fl r e j f : In (o, p, TwoRatio i l fl r e) (upaths (dev_id d) 0 d) -> nth_error fl j = Some f ->
    nth_error (leaves ops d) (o + j) = Some (dotjoin p f, conduit ops l).
  Proof.
    intros Hin Hf. rewrite (label_owns_row d o p (TwoRatio i l fl r e) j Hin).
    - cbn [leaves_from]. now rewrite nth_error_map, Hf.
    - cbn. apply nth_error_Some. congruence.
  Qed.

  (* the path is the dot-joined ids from the root down to the unit *)
  Inductive reaches : gdev -> list string -> gdev -> Prop :=
  | reach_unit d : is_unit d = true -> reaches d [] d
  | reach_set i ks sb k ids u : In k ks -> reaches k ids u -> reaches (DSet i ks sb) (dev_id k :: ids) u
  | reach_sub i ks sb lb e sg rm k ids u : In k ks -> reaches k ids u -> reaches (SubBal i ks sb lb e sg rm) (dev_id k :: ids) u.
  Definition join_path (root : string) (ids : list string) : string := fold_left dotjoin ids root.

  Lemma upaths_paths d : forall p o ou q u, In (ou, q, u) (upaths p o d) -> exists ids, reaches d ids u /\ q = join_path p ids.
  Proof.
    induction d as [i l|i ks sb IH|i ks sb lb e sg rm IH|i l fl|i l fl r e] using gdev_induction; intros p o ou q u Hin;
      try (cbn [upaths] in Hin; destruct Hin as [E|[]]; inversion E; subst; exists []; split; [now constructor|reflexivity]).
    - rewrite upaths_kids in Hin.
      assert (G : exists k ids, In k ks /\ reaches k ids u /\ q = join_path (dotjoin p (dev_id k)) ids).
      { revert o Hin. induction IH as [|k ks Hk _ IHks]; intros o Hin; cbn [kids_upaths] in Hin; [destruct Hin|].
        apply in_app_or in Hin. destruct Hin as [Hin|Hin].
        - destruct (Hk _ _ _ _ _ Hin) as (ids & Hr & Hq). exists k, ids. repeat split; auto. now left.
        - destruct (IHks _ Hin) as (k' & ids & Hk' & Hr & Hq). exists k', ids. repeat split; auto. now right. }
      destruct G as (k & ids & Hk & Hr & Hq). exists (dev_id k :: ids). split; [now constructor|exact Hq].
    - rewrite upaths_kids_sub in Hin.
      assert (G : exists k ids, In k ks /\ reaches k ids u /\ q = join_path (dotjoin p (dev_id k)) ids).
      { revert o Hin. induction IH as [|k ks Hk _ IHks]; intros o Hin; cbn [kids_upaths] in Hin; [destruct Hin|].
        apply in_app_or in Hin. destruct Hin as [Hin|Hin].
        - destruct (Hk _ _ _ _ _ Hin) as (ids & Hr & Hq). exists k, ids. repeat split; auto. now left.
        - destruct (IHks _ Hin) as (k' & ids & Hk' & Hr & Hq). exists k', ids. repeat split; auto. now right. }
      destruct G as (k & ids & Hk & Hr & Hq). exists (dev_id k :: ids). split; [now constructor|exact Hq].
  Qed.

  (* ---- map(s) -------------------------------------------------------------------------------------------------- *)
  Lemma map_rows_pairs_owner_row d S o p i l s : In (o, p, Leaf i l) (upaths (dev_id d) 0 d) ->
    nth_error S o = Some s -> nth_error (map_rows ops d S) o = Some (p, s) /\ nth_error (map_devices ops d S) o = Some (p, l, s).
  Proof.
    intros Hin HS. pose proof (leaf_label_at_its_row d o p i l Hin) as Hl.
    assert (G : forall {B C} (a : list B) (b : list C) k x y, nth_error a k = Some x -> nth_error b k = Some y -> nth_error (combine a b) k = Some (x, y)).
    { intros B C a. induction a as [|a0 a IH]; intros b k x y Ha Hb; destruct k; simpl in *; try discriminate; destruct b; simpl in *; try discriminate.
      - inversion Ha; inversion Hb; now subst.
      - now apply IH. }
    split.
    - unfold map_rows, labels. apply G; auto. rewrite nth_error_map, Hl. reflexivity.
    - unfold map_devices. apply G; auto.
  Qed.

  Lemma map_rows_length d S : List.length S = rows ops d -> List.length (map_rows ops d S) = rows ops d /\ map fst (map_rows ops d S) = labels ops d /\ map snd (map_rows ops d S) = S.
  Proof.
    intros HS. unfold map_rows. assert (HL : List.length (labels ops d) = List.length S).
    { unfold labels, leaves. rewrite map_length, leaves_count. auto. }
    rewrite combine_length, HL, Nat.min_id. split; [exact HS|]. now apply combine_fst_snd.
  Qed.

  Lemma map_flat_is_map_shaped d S : 0 < dlen ops d -> well_shaped (rows ops d) (dlen ops d) S ->
    map_rows_flat ops d (List.concat S) = map_rows ops d S.
  Proof. intros Hn Hw. unfold map_rows_flat. fold (shaped ops d (List.concat S)). now rewrite shaped_concat. Qed.
End Labels.

(* ---- lookup ------------------------------------------------------------------------------------------------------ *)
Section Lookup.
  Context {V : Type}.
  Lemma get_unique (items : list (string * V)) name : NoDup (map fst items) ->
    get_in items name = hd_error (map snd (filter (fun kv => ends_with (fst kv) name) items)).
  Proof. intros Hnd. unfold get_in. rewrite as_dict_nodup by exact Hnd. destruct (filter _ items); reflexivity. Qed.
  Lemma find_suffix_unique (items : list (string * V)) suf : NoDup (map fst items) ->
    find_suffix_in items suf = map snd (filter (fun kv => ends_with (fst kv) suf) items).
  Proof. intros Hnd. unfold find_suffix_in. now rewrite as_dict_nodup. Qed.
  Lemma find_prefix_unique (items : list (string * V)) pre : NoDup (map fst items) ->
    find_prefix_in items pre = map snd (filter (fun kv => starts_with (fst kv) pre) items).
  Proof. intros Hnd. unfold find_prefix_in. now rewrite as_dict_nodup. Qed.
  (* looking up positions instead of leaves (what the correspondence compares) is the same lookup *)
  Lemma as_dict_map {W} (g : V -> W) (items : list (string * V)) :
    as_dict (map (fun kv => (fst kv, g (snd kv))) items) = map (fun kv => (fst kv, g (snd kv))) (as_dict items).
  Proof.
    unfold as_dict. rewrite map_map. cbn [fst]. 
    assert (E : forall k acc, last_val k (map (fun kv => (fst kv, g (snd kv))) items) (option_map g acc) = option_map g (last_val k items acc)).
    { induction items as [|[k' v] items IH]; intros k acc; simpl; [reflexivity|]. rewrite <- IH. destruct (String.eqb k k'); reflexivity. }
    induction (dedup (map fst items)) as [|k ks IH]; simpl; [reflexivity|]. rewrite map_app, <- IH. f_equal.
    specialize (E k None). simpl in E. rewrite E. destruct (last_val k items None); reflexivity.
  Qed.
End Lookup.

Lemma ends_with_example : ends_with "root.in.m.e" "m.e" = true /\ ends_with "root.in.m.e" "h" = false /\ starts_with "root.in.m.e" "root.in" = true.
Proof. repeat split. Qed.
