(* C18: the projection model's view of a device tree (Model/ProjectionTree.v) computes what the shared tree model
   (Model/Tree.v: tree_project) computes, for every carrier (structural; no real numbers involved). *)
From Coq Require Import ZArith List Bool Arith Lia String.
From DK Require Import Num Vec.
From DK.Model Require Import Leaf Fn Dev Tree Projection ProjectionTree.
From DK.Proofs Require Import VecFacts TreeFacts.
Import ListNotations.

Section Bridge.
  Context {A : Type} `{Num A}.

  Definition gshape (r n : nat) (m : list (list A)) : Prop := List.length m = r /\ List.Forall (fun row => List.length row = n) m.
  Lemma gshape_ok r n m : gshape r n m -> mshape_ok r n m = true.
  Proof.
    intros [HL HF]. unfold mshape_ok. rewrite HL, Nat.eqb_refl. cbn [andb]. apply forallb_forall. intros row Hin.
    rewrite List.Forall_forall in HF. apply Nat.eqb_eq. now apply HF.
  Qed.
  Lemma Forall_firstn_g {B} (P : B -> Prop) k (l : list B) : List.Forall P l -> List.Forall P (firstn k l).
  Proof. intros HF. revert k; induction HF as [|x l Hx Hl IH]; intros [|k]; simpl; constructor; auto. Qed.
  Lemma Forall_skipn_g {B} (P : B -> Prop) k (l : list B) : List.Forall P l -> List.Forall P (skipn k l).
  Proof. intros HF. revert k; induction HF as [|x l Hx Hl IH]; intros [|k]; simpl; auto. Qed.

  (* the two ways the clamp is written *)
  Lemma clamp_forms_from (full b : list (A * A)) (x : list A) k :
    (forall i, (i < List.length b)%nat -> nth (k + i) full (n0, n0) = nth i b (n0, n0)) -> List.length x = List.length b ->
    map (fun '(i, v) => nmax (lo full i) (nmin (hi full i) v)) (combine (seq k (List.length x)) x) = box_clamp b x.
  Proof.
    revert x k; induction b as [|lh b IH]; intros [|v x] k Hn HL; simpl in HL; try lia; [reflexivity|].
    cbn [List.length seq combine map]. unfold box_clamp. cbn [map2]. f_equal.
    - unfold lo, hi, clamp. specialize (Hn 0%nat ltac:(simpl; lia)). rewrite Nat.add_0_r in Hn. rewrite Hn. reflexivity.
    - apply IH; [|lia]. intros i Hi. specialize (Hn (S i) ltac:(simpl; lia)). cbn [nth] in Hn. rewrite <- Hn. f_equal. lia.
  Qed.
  Lemma clamp_forms (b : list (A * A)) (x : list A) : List.length x = List.length b -> Tree.clamp b x = box_clamp b x.
  Proof. intros HL. unfold Tree.clamp, idx. apply clamp_forms_from; auto. Qed.

  Lemma colsum_len_g n (m : list (list A)) : List.Forall (fun r => List.length r = n) m -> List.length (colsum n m) = n.
  Proof.
    intros HF. induction HF as [|row m Hr Hm IH]; [apply repeat_length|].
    unfold colsum in *. cbn [fold_right]. unfold vadd at 1. rewrite map2_length, IH, Hr. lia.
  Qed.

  (* trees whose every leaf has horizon n and an n-row bounds table *)
  Inductive twfd (n : nat) : dev A -> Prop :=
  | wfd_leaf i l : ld_n l = n -> List.length (ld_bounds l) = n -> twfd n (Leaf i l)
  | wfd_set i ks sb : ks <> [] -> List.Forall (twfd n) ks -> twfd n (DSet i ks sb)
  | wfd_sub i ks sb lb e sg rm : ks <> [] -> List.Forall (twfd n) ks -> twfd n (SubBal i ks sb lb e sg rm)
  | wfd_mf i l fl : ld_n l = n -> List.length (ld_bounds l) = n -> twfd n (MF i l fl)
  | wfd_two i l fl r e : ld_n l = n -> List.length (ld_bounds l) = n -> twfd n (TwoRatio i l fl r e).

  Lemma wf_len n d : twfd n d -> tree_len d = n.
  Proof.
    intros Hw. induction d as [i l|i ks sb IH|i ks sb lb e sg rm IH|i l fl|i l fl r e] using (gdev_induction (A:=A) (L:=leafdev A));
      inversion Hw as [? ? E1 E2|? ? ? Hne HF|? ? ? ? ? ? ? Hne HF|? ? ? E1 E2|? ? ? ? ? E1 E2]; subst; unfold tree_len; cbn [dlen std_ops l_n]; auto.
    - destruct ks as [|k ks]; [contradiction|]. apply (Forall_inv IH). now apply Forall_inv in HF.
    - destruct ks as [|k ks]; [contradiction|]. apply (Forall_inv IH). now apply Forall_inv in HF.
  Qed.

  Lemma prows_kids (ks : list (dev A)) :
    (forall k, In k ks -> prows (ptree_of k) = tree_rows k) -> prows (PSet (map ptree_of ks)) = kids_rows std_ops ks.
  Proof.
    intros Hk. cbn [prows]. induction ks as [|k ks IH]; [reflexivity|]. cbn [map fold_right kids_rows].
    rewrite IH by (intros k' Hin; apply Hk; now right). rewrite Hk by now left. reflexivity.
  Qed.
  Lemma prows_of d : prows (ptree_of d) = tree_rows d.
  Proof.
    induction d as [i l|i ks sb IH|i ks sb lb e sg rm IH|i l fl|i l fl r e] using (gdev_induction (A:=A) (L:=leafdev A));
      unfold tree_rows; cbn [ptree_of]; try reflexivity.
    - rewrite rows_kids. apply prows_kids. intros k Hin. rewrite List.Forall_forall in IH. now apply IH.
    - rewrite rows_kids_sub. apply prows_kids. intros k Hin. rewrite List.Forall_forall in IH. now apply IH.
  Qed.

  Fixpoint kids_tp (n : nat) (ks : list (ptree A)) (m : list (list A)) : pres (list (list A)) :=
    match ks with
    | [] => POk []
    | k :: ks' => pbind (tproject n k (firstn (prows k) m)) (fun r =>
                  pbind (kids_tp n ks' (skipn (prows k) m)) (fun rs => POk (r ++ rs)))
    end.
  Lemma tproject_set_g n ks m : tproject n (PSet ks) m = if mshape_ok (prows (PSet ks)) n m then kids_tp n ks m else PValueError.
  Proof.
    cbn [tproject]. destruct (mshape_ok _ n m); [|reflexivity]. revert m.
    induction ks as [|k ks IH]; intros m; [reflexivity|]. cbn [kids_tp]. now rewrite IH.
  Qed.

  Definition agrees (n : nat) (d : dev A) : Prop :=
    forall S, gshape (tree_rows d) n S -> tproject n (ptree_of d) S = POk (tree_project d S).

  Lemma kids_agree n (ks : list (dev A)) : List.Forall (agrees n) ks ->
    forall S o, (o + kids_rows std_ops ks <= List.length S)%nat -> List.Forall (fun row => List.length row = n) S ->
    kids_tp n (map ptree_of ks) (skipn o S) = POk (kids_project std_ops ks o S).
  Proof.
    intros HF. induction HF as [|k ks Hk Hks IH]; intros S o Ho HS; [reflexivity|].
    cbn [map kids_tp kids_project kids_rows] in *. rewrite prows_of. unfold tree_rows in *.
    assert (E1 : firstn (rows std_ops k) (skipn o S) = rslice o (rows std_ops k) S) by reflexivity.
    rewrite E1. unfold agrees in Hk. rewrite Hk.
    - cbn [pbind]. rewrite skipn_skipn_add.
      assert (Ho' : (o + rows std_ops k + kids_rows std_ops ks <= List.length S)%nat) by lia.
      rewrite (IH S (o + rows std_ops k)%nat Ho' HS). reflexivity.
    - split; [apply rslice_length; unfold tree_rows; lia|]. unfold rslice. apply Forall_firstn_g. now apply Forall_skipn_g.
  Qed.

  Theorem tree_models_agree n d : twfd n d -> agrees n d.
  Proof.
    induction d as [i l|i ks sb IH|i ks sb lb e sg rm IH|i l fl|i l fl r e] using (gdev_induction (A:=A) (L:=leafdev A));
      intros Hw S HS; inversion Hw as [? ? E1 E2|? ? ? Hne HF|? ? ? ? ? ? ? Hne HF|? ? ? E1 E2|? ? ? ? ? E1 E2]; subst.
    - (* leaf *)
      unfold tree_rows in HS. cbn [rows std_ops l_rows] in HS. destruct HS as [HL HF'].
      destruct S as [|row [|r2 S]]; simpl in HL; try lia. pose proof (Forall_inv HF') as Hr. cbv beta in Hr.
      assert (Ec : List.concat [row] = row) by (cbn [List.concat]; apply app_nil_r).
      cbn [ptree_of tproject]. rewrite Ec, Hr, Nat.eqb_refl.
      unfold leaf_project. rewrite Ec. unfold box_project. rewrite Hr, E2, Nat.eqb_refl. cbn [pbind].
      unfold tree_project. cbn [gproject std_ops l_bounds]. rewrite Ec, clamp_forms by lia. reflexivity.
    - (* set *)
      cbn [ptree_of]. rewrite tproject_set_g.
      assert (Hrows : prows (PSet (map ptree_of ks)) = tree_rows (DSet i ks sb)).
      { change (PSet (map ptree_of ks)) with (ptree_of (DSet i ks sb)). apply prows_of. }
      rewrite Hrows, (gshape_ok _ _ _ HS). unfold tree_project. rewrite gproject_kids.
      assert (HA : List.Forall (agrees n) ks).
      { rewrite List.Forall_forall in *. intros k Hin. apply IH; auto. }
      destruct HS as [HL HF']. unfold tree_rows in HL. rewrite rows_kids in HL.
      apply (kids_agree n ks HA S 0%nat); auto. simpl. lia.
    - (* sub-balanced set: same projection *)
      cbn [ptree_of]. rewrite tproject_set_g.
      assert (Hrows : prows (PSet (map ptree_of ks)) = tree_rows (SubBal i ks sb lb e sg rm)).
      { change (PSet (map ptree_of ks)) with (ptree_of (SubBal i ks sb lb e sg rm)). apply prows_of. }
      rewrite Hrows, (gshape_ok _ _ _ HS). unfold tree_project. rewrite gproject_kids_sub.
      assert (HA : List.Forall (agrees n) ks).
      { rewrite List.Forall_forall in *. intros k Hin. apply IH; auto. }
      destruct HS as [HL HF']. unfold tree_rows in HL. rewrite rows_kids_sub in HL.
      apply (kids_agree n ks HA S 0%nat); auto. simpl. lia.
    - (* multi-flow adaptor *)
      unfold tree_rows in HS. cbn [rows] in HS. cbn [ptree_of tproject]. rewrite E2, Nat.eqb_refl.
      unfold mf_project. rewrite E2, (gshape_ok _ _ _ HS).
      assert (Hc : List.length (colsum (ld_n l) S) = List.length (ld_bounds l)) by (rewrite colsum_len_g by apply HS; lia).
      unfold box_project. rewrite Hc, Nat.eqb_refl. cbn [pbind].
      unfold tree_project. cbn [gproject]. unfold Tree.mf_project. cbn [std_ops l_bounds l_n]. rewrite clamp_forms by exact Hc. reflexivity.
    - (* two-ratio adaptor: same projection *)
      unfold tree_rows in HS. cbn [rows] in HS. cbn [ptree_of tproject]. rewrite E2, Nat.eqb_refl.
      unfold mf_project. rewrite E2, (gshape_ok _ _ _ HS).
      assert (Hc : List.length (colsum (ld_n l) S) = List.length (ld_bounds l)) by (rewrite colsum_len_g by apply HS; lia).
      unfold box_project. rewrite Hc, Nat.eqb_refl. cbn [pbind].
      unfold tree_project. cbn [gproject]. unfold Tree.mf_project. cbn [std_ops l_bounds l_n]. rewrite clamp_forms by exact Hc. reflexivity.
  Qed.
End Bridge.
