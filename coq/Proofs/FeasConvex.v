(* The "consequently" clause of C07: the documented feasible set of an atomic device (Model/FeasSpec.v, which C03 proves to be the
   exported one) is convex for every class whose constraints are affine - per-slot bounds, cumulative bounds, user constraints, and a
   LOSSLESS storage (state of charge affine in the flow).  For a lossy two-way storage it is NOT: the state of charge is concave
   (C07_state_of_charge_concave) and "state <= capacity" is a sub-level set of a concave function; refuted by an exact witness. *)
From Coq Require Import ZArith Reals List Lra Lia Arith Psatz.
From DK Require Import Num NumR Vec.
From DK.Model Require Import Leaf Fn Dev DocSpec StateSpec FeasSpec.
From DK.Proofs Require Import VecFacts RVec VecAlg Convex C03Proofs.
Import ListNotations.
Local Open Scope R_scope.

Definition convex_set (n : nat) (B : list R -> Prop) : Prop :=
  forall x y l, length x = n -> length y = n -> B x -> B y -> 0 <= l <= 1 -> B (vlerp l x y).

Lemma within_convex b n : convex_set n (within b).
Proof.
  intros x y l Lx Ly Hx Hy Hl i Hi. rewrite vlerp_length in Hi by lia. rewrite nth_vlerp by lia.
  specialize (Hx i Hi). specialize (Hy i ltac:(lia)). nra.
Qed.

Lemma range_total_vlerp l (x y : list R) st en : length x = length y ->
  range_total st en (vlerp l x y) = l * range_total st en x + (1 - l) * range_total st en y.
Proof.
  intros HL. rewrite <- !mask_range_total. rewrite vlerp_length by exact HL. rewrite dot_vlerp by exact HL.
  rewrite <- HL. reflexivity.
Qed.

Lemma cum_ok_convex cbs n : convex_set n (cum_ok cbs).
Proof.
  intros x y l Lx Ly Hx Hy Hl c Hc. rewrite range_total_vlerp by lia. specialize (Hx c Hc). specialize (Hy c Hc). nra.
Qed.

Lemma sum_prod_vlerp l : forall (w x y : list R), length x = length y ->
  sum_prod w (vlerp l x y) = l * sum_prod w x + (1 - l) * sum_prod w y.
Proof.
  induction w as [|a w IH]; intros x y HL; [simpl; ring|].
  destruct x as [|u x]; destruct y as [|v y]; simpl in HL; try lia.
  - rewrite vlerp_nil. simpl. ring.
  - rewrite vlerp_cons. cbn [sum_prod]. rewrite IH by lia. ring.
Qed.

Lemma user_ok_convex ucs n : convex_set n (user_ok ucs).
Proof.
  intros x y l Lx Ly Hx Hy Hl u Hu. specialize (Hx u Hu). specialize (Hy u Hu). rewrite sum_prod_vlerp by lia.
  destruct (u_eq u); nra.
Qed.

Lemma state_rec_vlerp s l : forall (u v : list R) p1 p2, length u = length v ->
  state_rec s (l * p1 + (1 - l) * p2) (vlerp l u v) = vlerp l (state_rec s p1 u) (state_rec s p2 v).
Proof.
  induction u as [|a u IH]; intros [|b v] p1 p2 HL; simpl in HL; try lia; [reflexivity|].
  rewrite vlerp_cons. cbn [state_rec]. rewrite vlerp_cons.
  replace (s * (l * p1 + (1 - l) * p2) + (l * a + (1 - l) * b)) with (l * (s * p1 + a) + (1 - l) * (s * p2 + b)) by ring.
  f_equal. apply IH. lia.
Qed.
Lemma state_rec_length s : forall u p, length (state_rec s p u) = length u.
Proof. induction u as [|a u IH]; intros p; [reflexivity|]. cbn [state_rec length]. now rewrite IH. Qed.

Lemma stored_lossless v : stored 1 v = v.
Proof. unfold stored. destruct (Rlt_dec 0 v); [ring|]. destruct (Rlt_dec v 0); [field|lra]. Qed.
Lemma map_stored_lossless x : map (stored 1) x = x.
Proof. induction x as [|v x IH]; [reflexivity|]. cbn [map]. now rewrite stored_lossless, IH. Qed.

Lemma storage_ok_convex_lossless q b n : sp_eff q = 1 -> 0 < sp_capacity q -> convex_set n (storage_ok q b).
Proof.
  intros He Hc x y l Lx Ly Hx Hy Hl. unfold storage_ok in *. rewrite He in *. rewrite !map_stored_lossless in *.
  set (p := sp_start q * sp_capacity q) in *.
  assert (E : state_rec (sp_sus q) p (vlerp l x y) = vlerp l (state_rec (sp_sus q) p x) (state_rec (sp_sus q) p y)).
  { rewrite <- state_rec_vlerp by lia. f_equal. ring. }
  rewrite E. clear E. cbv zeta in Hx, Hy. set (sx := state_rec (sp_sus q) p x) in *. set (sy := state_rec (sp_sus q) p y) in *.
  assert (Ls : length sx = length sy) by (unfold sx, sy; rewrite !state_rec_length; lia).
  destruct Hx as (X1 & X2 & X3 & X4). destruct Hy as (Y1 & Y2 & Y3 & Y4). rewrite vlerp_length by lia.
  assert (Lxy : length y = length x) by lia. rewrite Lxy in *.
  repeat split.
  - rewrite nth_vlerp by exact Ls. specialize (X1 i H). specialize (Y1 i H). nra.
  - rewrite nth_vlerp by exact Ls. specialize (X1 i H). specialize (Y1 i H). nra.
  - rewrite nth_vlerp by exact Ls. nra.
  - intros k Hk i Hi. rewrite !nth_vlerp by lia. specialize (X3 k Hk i Hi). specialize (Y3 k Hk i Hi).
    replace (k * fst (nth i b (0, 0)) * ((l * nth i sx 0 + (1 - l) * nth i sy 0) / sp_capacity q))
      with (l * (k * fst (nth i b (0, 0)) * (nth i sx 0 / sp_capacity q)) + (1 - l) * (k * fst (nth i b (0, 0)) * (nth i sy 0 / sp_capacity q)))
      by (field; lra).
    nra.
  - intros k Hk i Hi. rewrite !nth_vlerp by lia. specialize (X4 k Hk i Hi). specialize (Y4 k Hk i Hi).
    replace (k * snd (nth i b (0, 0)) * ((sp_capacity q - (l * nth i sx 0 + (1 - l) * nth i sy 0)) / sp_capacity q))
      with (l * (k * snd (nth i b (0, 0)) * ((sp_capacity q - nth i sx 0) / sp_capacity q))
            + (1 - l) * (k * snd (nth i b (0, 0)) * ((sp_capacity q - nth i sy 0) / sp_capacity q)))
      by (field; lra).
    nra.
Qed.

Definition affine_constraints (d : leafdev R) : Prop :=
  match ld_kind d with KS q => sp_eff q = 1 /\ 0 < sp_capacity q | _ => True end.

Theorem leaf_feasible_set_convex (d : leafdev R) n : affine_constraints d -> convex_set n (leaf_feasible_spec d).
Proof.
  intros Ha x y l Lx Ly (Bx & Cx & Kx) (By & Cy & Ky) Hl. unfold leaf_feasible_spec.
  split; [apply (within_convex _ n); auto|]. split; [apply (cum_ok_convex _ n); auto|].
  unfold affine_constraints in Ha. destruct (ld_kind d); auto.
  - destruct Ha as [He Hc]. apply (storage_ok_convex_lossless _ _ n); auto.
  - apply (user_ok_convex _ n); auto.
Qed.

(* a local optimum of a convex cost over a convex feasible set is global (sets of lists of one length) *)
Theorem local_optimum_global_on_feasible_set n (B : list R -> Prop) (F : list R -> R) :
  convex_set n B -> convex_on (fun x => length x = n /\ B x) F ->
  forall x y, length x = n -> length y = n -> B x -> B y -> F y < F x ->
  forall l, 0 <= l < 1 -> B (vlerp l x y) /\ F (vlerp l x y) < F x.
Proof.
  intros HB HF x y Lx Ly Bx By Hlt l Hl. split; [apply HB; auto; lra|].
  pose proof (HF x y l (conj Lx Bx) (conj Ly By) ltac:(lra)). nra.
Qed.

(* ---- lossy two-way storage: the documented (= exported, C03) feasible set is not convex ---- *)
Definition lossy_q : sparams R :=
  Build_sparams 1 0 0 10 0 (9 / 10) 0 (1 / 2) 1 None None.
Definition lossy_dev : leafdev R := Build_leafdev 2 [(-2, 6); (-2, 6)] [] (KS lossy_q).

Theorem lossy_storage_feasible_set_not_convex :
  leaf_accepted lossy_dev /\
  leaf_feasible_spec lossy_dev [2; 0] /\ leaf_feasible_spec lossy_dev [-1; 6] /\
  ~ leaf_feasible_spec lossy_dev (vlerp (1 / 2) [2; 0] [-1; 6]).
Proof.
  assert (S1 : stored (1 / 2) 2 = 1) by (unfold stored; destruct (Rlt_dec 0 2); lra).
  assert (S2 : stored (1 / 2) 0 = 0) by (unfold stored; destruct (Rlt_dec 0 0); [lra|]; destruct (Rlt_dec 0 0); lra).
  assert (S3 : stored (1 / 2) (-1) = -2) by (unfold stored; destruct (Rlt_dec 0 (-1)); [lra|]; destruct (Rlt_dec (-1) 0); lra).
  assert (S4 : stored (1 / 2) 6 = 3) by (unfold stored; destruct (Rlt_dec 0 6); lra).
  assert (S5 : stored (1 / 2) (1 / 2) = 1 / 4) by (unfold stored; destruct (Rlt_dec 0 (1 / 2)); lra).
  assert (S6 : stored (1 / 2) 3 = 3 / 2) by (unfold stored; destruct (Rlt_dec 0 3); lra).
  split; [unfold leaf_accepted, lossy_dev, lossy_q; cbn [ld_kind sp_capacity]; lra|]. split; [|split].
  - unfold leaf_feasible_spec, lossy_dev; cbn [ld_bounds ld_cb ld_kind]. split; [|split].
    + intros [|[|i]] Hi; simpl in *; try lia; lra.
    + intros c [].
    + unfold storage_ok, lossy_q; cbn [sp_sus sp_start sp_capacity sp_eff sp_reserve sp_clip_d sp_clip_c map state_rec length].
      rewrite S1, S2. repeat split; try discriminate.
      * destruct i as [|[|i]]; simpl in *; try lia; lra.
      * destruct i as [|[|i]]; simpl in *; try lia; lra.
      * simpl. lra.
  - unfold leaf_feasible_spec, lossy_dev; cbn [ld_bounds ld_cb ld_kind]. split; [|split].
    + intros [|[|i]] Hi; simpl in *; try lia; lra.
    + intros c [].
    + unfold storage_ok, lossy_q; cbn [sp_sus sp_start sp_capacity sp_eff sp_reserve sp_clip_d sp_clip_c map state_rec length].
      rewrite S3, S4. repeat split; try discriminate.
      * destruct i as [|[|i]]; simpl in *; try lia; lra.
      * destruct i as [|[|i]]; simpl in *; try lia; lra.
      * simpl. lra.
  - intros (_ & _ & H). unfold lossy_dev in H; cbn [ld_kind ld_bounds] in H. rewrite !vlerp_cons, vlerp_nil in H.
    replace (1 / 2 * 2 + (1 - 1 / 2) * -1) with (1 / 2) in H by lra. replace (1 / 2 * 0 + (1 - 1 / 2) * 6) with 3 in H by lra.
    unfold storage_ok, lossy_q in H; cbn [sp_sus sp_start sp_capacity sp_eff sp_reserve sp_clip_d sp_clip_c map state_rec length] in H.
    rewrite S5, S6 in H. destruct H as (H1 & _). specialize (H1 1%nat ltac:(simpl; lia)). simpl in H1. lra.
Qed.
