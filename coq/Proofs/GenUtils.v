(* utils.base_soc / soc / sustainment_matrix / power_matrix as regenerated from device_kit/utils.py (Gen/Utils.v) are the closed forms of
   Model/Leaf.v about which C09 proves the recurrences: the triu / cumsum / transpose idiom is the matrix of exponents i - j, tril of
   s ** that is the sustainment matrix, and the diagonal of the row-wise cumsum of (r * e**sign r) * matrix is the state of charge. *)
From Coq Require Import ZArith Reals List Bool Arith Lia Lra.
From DK Require Import Num NumR Vec.
From DK.Model Require Import Leaf SetOps NpOps.
From DK.Gen Require Import Utils.
From DK.Proofs Require Import VecFacts RVec.
Import ListNotations.

(* ---- power_matrix: entry (i, j) is i - j (truncated) ------------------------------------------------------------------------ *)
Lemma cumsum_triu_row i : forall len s, cumsum_from (s - S i) (map (fun k => if (i <? k)%nat then 1%nat else 0%nat) (seq s len)) = map (fun k => (k - i)%nat) (seq s len).
Proof.
  induction len as [|len IH]; intros s; [reflexivity|]. cbn [seq map cumsum_from].
  assert (E : (s - S i + (if (i <? s)%nat then 1 else 0) = s - i)%nat) by (destruct (Nat.ltb_spec i s); lia).
  rewrite E. f_equal. specialize (IH (S s)). replace (S s - S i)%nat with (s - i)%nat in IH by lia. exact IH.
Qed.
Theorem gen_power_matrix l : power_matrix_gen l = map (fun i => map (fun j => (i - j)%nat) (seq 0 l)) (seq 0 l).
Proof.
  unfold power_matrix_gen, np_transpose_nat, np_triu1_ones, np_cumsum. rewrite map_map.
  apply map_ext_in. intros a Ha. rewrite map_map. apply map_ext_in. intros b Hb.
  pose proof (cumsum_triu_row b l 0) as E. cbn [Nat.sub] in E. rewrite E.
  apply in_seq in Ha. rewrite (nth_indep _ 0%nat ((fun k => (k - b)%nat) 0%nat)) by (rewrite map_length, seq_length; lia).
  rewrite (map_nth (fun k => (k - b)%nat)). rewrite seq_nth by lia. reflexivity.
Qed.

Local Open Scope R_scope.
Lemma npown_1 k : npown (A:=R) 1 k = 1.
Proof. induction k as [|k IH]; cbn; [reflexivity | rewrite IH; ring]. Qed.
Lemma combine_seq_map {B C} (f : nat -> B -> C) (l : list B) s :
  map (fun ix => f (fst ix) (snd ix)) (combine (seq s (length l)) l) = map (fun ix => f (fst ix) (snd ix)) (combine (seq s (length l)) l).
Proof. reflexivity. Qed.
Lemma map_combine_seq_of_map {B C} (g : nat -> B) (f : nat -> B -> C) n s :
  map (fun ix => f (fst ix) (snd ix)) (combine (seq s n) (map g (seq s n))) = map (fun i => f i (g i)) (seq s n).
Proof. revert s. induction n as [|n IH]; intros s; [reflexivity|]. cbn [seq map combine fst snd]. f_equal. apply IH. Qed.

(* np.tril of a matrix given entry-wise *)
Lemma tril_entrywise (F : nat -> nat -> R) l :
  np_tril (map (fun i => map (fun j => F i j) (seq 0 l)) (seq 0 l)) = map (fun i => map (fun j => if (j <=? i)%nat then F i j else 0) (seq 0 l)) (seq 0 l).
Proof.
  unfold np_tril. rewrite map_length, seq_length.
  rewrite (map_combine_seq_of_map (fun i => map (fun j => F i j) (seq 0 l))
            (fun i row => map (fun jx => if (fst jx <=? i)%nat then snd jx else n0) (combine (seq 0 (length row)) row)) l 0).
  apply map_ext. intros i. rewrite map_length, seq_length.
  exact (map_combine_seq_of_map (fun j => F i j) (fun j x => if (j <=? i)%nat then x else n0) l 0).
Qed.

Theorem gen_sustainment_matrix (s : R) l : sustainment_matrix_gen s l = sust_matrix s l.
Proof.
  unfold sustainment_matrix_gen, sust_matrix, sust_row. cbn [neqb NumR n1].
  destruct (Reqb s 1) eqn:E.
  - apply Reqb_true in E. subst s. unfold mconst.
    assert (G : forall (B : Type) (x : B) m s', map (fun _ : nat => x) (seq s' m) = repeat x m) by (induction m; intros; cbn; [reflexivity | now rewrite IHm]).
    rewrite <- (G (list R) (repeat 1 l) l 0%nat), <- (G R 1 l 0%nat).
    rewrite (tril_entrywise (fun _ _ => 1) l). apply map_ext. intros i. apply map_ext. intros j. destruct (j <=? i)%nat; [now rewrite npown_1 | reflexivity].
  - rewrite gen_power_matrix. rewrite map_map.
    replace (map (fun x : nat => map (fun k : nat => npown s k) (map (fun j : nat => (x - j)%nat) (seq 0 l))) (seq 0 l))
      with (map (fun i : nat => map (fun j : nat => (fun a b => npown s (a - b)) i j) (seq 0 l)) (seq 0 l)) by (apply map_ext; intros i; now rewrite map_map).
    cbv beta. rewrite (tril_entrywise (fun a b => npown s (a - b)) l). reflexivity.
Qed.

Theorem gen_base_soc (b s : R) l : base_soc_gen b s l = base_soc b s l.
Proof. unfold base_soc_gen, base_soc. rewrite map_map, <- seq_shift, map_map. reflexivity. Qed.

(* ---- soc: diagonal of the row-wise cumulative sums -------------------------------------------------------------------------- *)
Lemma nth_cumsumA_from acc (l : list R) i : (i < length l)%nat -> nth i (cumsumA_from acc l) 0 = acc + vsum (firstn (S i) l).
Proof.
  revert acc i. induction l as [|x l IH]; intros acc i Hi; [cbn in Hi; lia|]. destruct i as [|i].
  - cbn. ring.
  - cbn [cumsumA_from nth]. rewrite IH by (cbn in Hi; lia). replace (firstn (S (S i)) (x :: l)) with (x :: firstn (S i) l) by reflexivity.
    rewrite (vsum_cons x (firstn (S i) l)). cbn [nadd NumR]. ring.
Qed.
Lemma dot_zero_l (a v : list R) : (forall j, nth j a 0 = 0) -> dot a v = 0.
Proof.
  revert v. induction a as [|x a IH]; intros v Hz; [reflexivity|]. destruct v as [|y v]; [reflexivity|]. rewrite dot_cons.
  rewrite (Hz 0%nat : x = 0). rewrite IH by (intros j; apply (Hz (S j))). ring.
Qed.
Lemma vsum_firstn_dot_lower (a v : list R) i : length a = length v -> (forall j, (i < j)%nat -> nth j a 0 = 0) ->
  vsum (firstn (S i) (vmul v a)) = dot a v.
Proof.
  revert v i. induction a as [|x a IH]; intros [|y v] i Hl Hz; try discriminate; [destruct i; reflexivity|].
  unfold vmul. cbn [map2 firstn]. fold (vmul v a). rewrite (vsum_cons (nmul y x) (firstn i (vmul v a))), dot_cons.
  destruct i as [|i].
  - cbn [firstn]. rewrite vsum_nil. assert (Ea : dot a v = 0) by (apply dot_zero_l; intros j; apply (Hz (S j)); lia).
    rewrite Ea. cbn [nmul NumR]. ring.
  - rewrite IH; [cbn [nmul NumR]; ring | cbn in Hl; lia | intros j Hj; apply (Hz (S j)); lia].
Qed.

Theorem gen_soc (r : list R) s e : soc_gen r s e = soc r s e.
Proof.
  unfold soc_gen, soc. cbv zeta. rewrite gen_sustainment_matrix. unfold np_diagonal, sust_matrix. rewrite !map_length, seq_length.
  set (n := length r). set (v := vmul r (map (effof e) r)).
  assert (Ev : v = effv e r). { unfold v, effv, vmul. clear. induction r as [|x r IH]; [reflexivity|]. cbn [map map2]. now rewrite IH. }
  rewrite !map_map.
  rewrite (map_combine_seq_of_map (fun i => cumsumA (vmul v (sust_row s n i))) (fun i row => nth i row n0) n 0).
  apply map_ext_in. intros i Hi. apply in_seq in Hi.
  assert (Lv : length v = n) by (unfold v, vmul; rewrite VecFacts.map2_length, map_length; fold n; lia).
  assert (Lrow : length (sust_row s n i) = n) by (unfold sust_row; now rewrite map_length, seq_length).
  unfold cumsumA. rewrite nth_cumsumA_from by (unfold vmul; rewrite VecFacts.map2_length, Lv, Lrow; lia).
  rewrite vsum_firstn_dot_lower; [rewrite <- Ev; cbn; ring | congruence |].
  intros j Hj. unfold sust_row. destruct (Nat.lt_ge_cases j n) as [Hjn|Hjn].
  - rewrite (nth_indep _ 0 ((fun j0 => if (j0 <=? i)%nat then npown s (i - j0) else n0) 0%nat)) by (rewrite map_length, seq_length; lia).
    rewrite (map_nth (fun j0 => if (j0 <=? i)%nat then npown s (i - j0) else n0)). rewrite seq_nth by lia. cbn [Nat.add].
    destruct (Nat.leb_spec j i); [lia | reflexivity].
  - apply nth_overflow. rewrite map_length, seq_length. lia.
Qed.
