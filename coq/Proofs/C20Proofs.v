(* C20: the scenario helpers decode run-length / care / on-off specifications to the table they denote.
   The run-list facts are structural (any value type, no real numbers); the sign/mask facts are stated over R. *)
From Coq Require Import ZArith Reals List Bool Arith Lia Lra String.
From DK Require Import Num NumR Vec.
From DK.Model Require Import Leaf Loader.
Import ListNotations.
Local Open Scope R_scope.

Notation len := List.length.

(* ---- sorting the runs by start slot ------------------------------------------------------------------------------ *)
Section RunFacts.
  Context {V : Type}.
  Implicit Types (l pts : runs V) (p q : nat * V).

  Inductive ssorted : runs V -> Prop :=
  | ss_nil : ssorted []
  | ss_cons p l : (forall q, In q l -> (fst p < fst q)%nat) -> ssorted l -> ssorted (p :: l).

  Lemma insert_in p q l : In q (insert_run p l) <-> q = p \/ In q l.
  Proof.
    induction l as [|r l IH]; simpl.
    - intuition.
    - destruct (fst p <=? fst r)%nat; simpl; [intuition|]. rewrite IH. intuition.
  Qed.

  Lemma insert_sorted p l : ssorted l -> (forall q, In q l -> fst q <> fst p) -> ssorted (insert_run p l).
  Proof.
    intros Hs. induction Hs as [|r l Hr Hs IH]; intros Hne; simpl.
    - constructor; [intros q []|constructor].
    - destruct (fst p <=? fst r)%nat eqn:E.
      + apply Nat.leb_le in E. assert (fst r <> fst p) by (apply Hne; now left).
        constructor; [|now constructor].
        intros q [<-|Hq]; [lia|]. specialize (Hr q Hq). lia.
      + apply Nat.leb_gt in E. constructor.
        * intros q Hq. apply insert_in in Hq. destruct Hq as [->|Hq]; [lia|now apply Hr].
        * apply IH. intros q Hq. apply Hne. now right.
  Qed.

  Lemma sort_in q l : In q (sort_runs l) <-> In q l.
  Proof.
    induction l as [|p l IH]; simpl; [tauto|]. rewrite insert_in, IH. intuition.
  Qed.

  Lemma sort_in1 q l : In q (sort_runs l) -> In q l.
  Proof. apply sort_in. Qed.
  Lemma sort_in2 q l : In q l -> In q (sort_runs l).
  Proof. apply sort_in. Qed.

  Lemma sort_sorted l : NoDup (map fst l) -> ssorted (sort_runs l).
  Proof.
    induction l as [|p l IH]; intros Hnd; simpl; [constructor|].
    inversion Hnd as [|k ks Hnotin Hnd']; subst. apply insert_sorted; [now apply IH|].
    intros q Hq Heq. apply sort_in1 in Hq. apply Hnotin. rewrite <- Heq. now apply in_map.
  Qed.

  Lemma sort_is_sorted_permutation l : NoDup (map fst l) -> ssorted (sort_runs l) /\ forall q, In q (sort_runs l) <-> In q l.
  Proof. intros Hnd. split; [now apply sort_sorted|]. intros q. apply sort_in. Qed.

  Lemma insert_length p l : len (insert_run p l) = S (len l).
  Proof. induction l as [|r l IH]; simpl; [reflexivity|]. destruct (fst p <=? fst r)%nat; simpl; [reflexivity|now rewrite IH]. Qed.
  Lemma sort_length l : len (sort_runs l) = len l.
  Proof. induction l as [|p l IH]; simpl; [reflexivity|]. now rewrite insert_length, IH. Qed.

  (* ---- slice assignment ----------------------------------------------------------------------------------------- *)
  Lemma nth_map_combine_seq {B} (f : nat -> V -> B) : forall (arr : list V) a t d d',
    (t < len arr)%nat -> nth t (map (fun '(i, x) => f i x) (combine (seq a (len arr)) arr)) d' = f (a + t)%nat (nth t arr d).
  Proof.
    induction arr as [|x arr IH]; intros a t d d' Ht; simpl in Ht; [lia|].
    destruct t as [|t]; simpl; [now rewrite Nat.add_0_r|]. rewrite (IH (S a) t d d') by lia. f_equal. lia.
  Qed.

  Lemma assign_length (arr : list V) st en v : len (assign arr st en v) = len arr.
  Proof. unfold assign. rewrite map_length, combine_length, seq_length. lia. Qed.

  Lemma assign_nth (arr : list V) st en v t d : (t < len arr)%nat ->
    nth t (assign arr st en v) d = if (st <=? t)%nat && (t <? en)%nat then v else nth t arr d.
  Proof.
    intros Ht. unfold assign.
    rewrite (nth_map_combine_seq (fun i a => if (st <=? i)%nat && (i <? en)%nat then v else a) arr 0 t d d Ht). reflexivity.
  Qed.

  (* ---- filling the array run by run ----------------------------------------------------------------------------- *)
  Lemma fill_length pts : forall (arr : list V) basis, len (fill arr pts basis) = len arr.
  Proof.
    induction pts as [|[st v] rest IH]; intros arr basis; simpl; [reflexivity|]. now rewrite IH, assign_length.
  Qed.

  Lemma fill_untouched pts : forall (arr : list V) basis t d, (t < len arr)%nat ->
    (forall q, In q pts -> (t < fst q)%nat) -> nth t (fill arr pts basis) d = nth t arr d.
  Proof.
    induction pts as [|[st v] rest IH]; intros arr basis t d Ht Hall; simpl; [reflexivity|].
    rewrite IH by (rewrite ?assign_length; auto; intros q Hq; apply Hall; now right).
    rewrite assign_nth by auto. specialize (Hall (st, v) (or_introl eq_refl)). simpl in Hall.
    replace (st <=? t)%nat with false by (symmetry; apply Nat.leb_gt; lia). reflexivity.
  Qed.

  Lemma next_start_gt rest basis t : (t < basis)%nat -> (forall q, In q rest -> (t < fst q)%nat) -> (t < next_start rest basis)%nat.
  Proof. intros Hb Hall. destruct rest as [|[s1 v1] rest]; simpl; [auto|]. apply (Hall (s1, v1)). now left. Qed.

  Lemma fill_spec pts : ssorted pts -> forall (arr : list V) basis t st v d,
    (t < basis)%nat -> (basis <= len arr)%nat -> In (st, v) pts -> (st <= t)%nat ->
    (forall q, In q pts -> (fst q <= t)%nat -> (fst q <= st)%nat) ->
    nth t (fill arr pts basis) d = v.
  Proof.
    intros Hs. induction Hs as [|[s0 v0] rest Hr Hs IH]; intros arr basis t st v d Hb HL Hin Hst Hmax; [destruct Hin|].
    simpl. destruct Hin as [Heq|Hin].
    - injection Heq as -> ->.
      assert (Hafter : forall q, In q rest -> (t < fst q)%nat).
      { intros q Hq. destruct (Nat.le_gt_cases (fst q) t) as [Hle|Hgt]; [|auto].
        specialize (Hmax q (or_intror Hq) Hle). specialize (Hr q Hq). simpl in Hr. lia. }
      rewrite fill_untouched by (rewrite ?assign_length; auto; lia).
      rewrite assign_nth by lia.
      replace (st <=? t)%nat with true by (symmetry; apply Nat.leb_le; lia).
      replace (t <? next_start rest basis)%nat with true; [reflexivity|].
      symmetry. apply Nat.ltb_lt. now apply next_start_gt.
    - apply (IH _ basis t st v d); auto; [now rewrite assign_length|]. intros q Hq. apply Hmax. now right.
  Qed.

  Lemma has_zero_in l : has_zero l = true <-> exists v, In (0%nat, v) l.
  Proof.
    unfold has_zero. rewrite existsb_exists. split.
    - intros ([k v] & Hin & Hk). simpl in Hk. apply Nat.eqb_eq in Hk. subst. now exists v.
    - intros (v & Hin). exists (0%nat, v). auto.
  Qed.

  (* slot t takes the value of the last run starting at or before t, whatever the dictionary order *)
  Lemma run_to_array_spec zero basis l : NoDup (map fst l) -> has_zero l = true ->
    exists arr, run_to_array zero basis l = Accept arr /\ len arr = basis /\
      forall t st v d, (t < basis)%nat -> In (st, v) l -> (st <= t)%nat ->
        (forall st' v', In (st', v') l -> (st' <= t)%nat -> (st' <= st)%nat) -> nth t arr d = v.
  Proof.
    intros Hnd Hz. unfold run_to_array. rewrite Hz. eexists. split; [reflexivity|]. split.
    - now rewrite fill_length, repeat_length.
    - intros t st v d Ht Hin Hst Hmax. apply (fill_spec _ (sort_sorted l Hnd) _ basis t st v d); auto.
      + rewrite repeat_length. lia.
      + now apply sort_in2.
      + intros [s' v'] Hq Hle. apply sort_in1 in Hq. simpl in *. eapply Hmax; eauto.
  Qed.

  Lemma run_to_array_no_zero zero basis l : has_zero l = false -> run_to_array zero basis l = RaiseOther.
  Proof. intros Hz. unfold run_to_array. now rewrite Hz. Qed.

  (* with a run at 0 every slot is covered by some run *)
  Lemma covering_run l t : has_zero l = true -> l <> [] ->
    exists st v, In (st, v) l /\ (st <= t)%nat /\ forall st' v', In (st', v') l -> (st' <= t)%nat -> (st' <= st)%nat.
  Proof.
    intros Hz _. apply has_zero_in in Hz. destruct Hz as (v0 & H0).
    assert (G : forall l0 st0 v0, In (st0, v0) l0 -> (st0 <= t)%nat ->
                exists st v, In (st, v) l0 /\ (st <= t)%nat /\ forall st' v', In (st', v') l0 -> (st' <= t)%nat -> (st' <= st)%nat).
    { clear. induction l0 as [|[s1 v1] l0 IH]; intros st0 v0 Hin Hle; [destruct Hin|].
      destruct l0 as [|p l0'].
      - destruct Hin as [Heq|[]]. injection Heq as -> ->. exists st0, v0. split; [now left|]. split; auto.
        intros st' v' [Heq|[]] _. injection Heq as -> _. lia.
      - destruct (Nat.le_gt_cases s1 t) as [H1|H1].
        + (* s1 qualifies; compare with the best of the tail if the tail has a qualifying run *)
          destruct (existsb (fun q => (fst q <=? t)%nat) (p :: l0')) eqn:E.
          * apply existsb_exists in E. destruct E as ([s2 v2] & Hin2 & Hle2). simpl in Hle2. apply Nat.leb_le in Hle2.
            destruct (IH s2 v2 Hin2 Hle2) as (sb & vb & Hinb & Hleb & Hmaxb).
            destruct (Nat.le_gt_cases sb s1).
            -- exists s1, v1. split; [now left|]. split; auto. intros st' v' [Heq|Hin'] Hle'; [injection Heq as -> _; lia|].
               specialize (Hmaxb st' v' Hin' Hle'). lia.
            -- exists sb, vb. split; [now right|]. split; auto. intros st' v' [Heq|Hin'] Hle'; [injection Heq as -> _; lia|].
               now apply (Hmaxb st' v').
          * exists s1, v1. split; [now left|]. split; auto. intros st' v' [Heq|Hin'] Hle'; [injection Heq as -> _; lia|].
            exfalso. assert (Hex : existsb (fun q => (fst q <=? t)%nat) (p :: l0') = true).
            { apply existsb_exists. exists (st', v'). split; auto. simpl. now apply Nat.leb_le. }
            congruence.
        + destruct Hin as [Heq|Hin]; [injection Heq as -> ->; lia|].
          destruct (IH st0 v0 Hin Hle) as (sb & vb & Hinb & Hleb & Hmaxb).
          exists sb, vb. split; [now right|]. split; auto. intros st' v' [Heq|Hin'] Hle'; [injection Heq as -> _; lia|].
          now apply (Hmaxb st' v'). }
    apply (G l 0%nat v0 H0). lia.
  Qed.
End RunFacts.

(* ---- cumulative runs ------------------------------------------------------------------------------------------------ *)
Section CumFacts.
  Context {A : Type} `{Num A}.

  Lemma cb_fill_length (pts : runs (A * A)) basis : len (cb_fill pts basis) = len pts.
  Proof. induction pts as [|[st [l h]] rest IH]; simpl; [reflexivity|]. now rewrite IH. Qed.

  Lemma run_to_cbounds_length basis (l : runs (A * A)) : len (run_to_cbounds basis l) = len l.
  Proof. unfold run_to_cbounds. now rewrite cb_fill_length, sort_length. Qed.

  (* the i-th bound: limits and start of the i-th run in start order, end = next start or basis *)
  Lemma cb_fill_nth : forall (pts : runs (A * A)) basis i d dp, (i < len pts)%nat ->
    nth i (cb_fill pts basis) d
    = (fst (snd (nth i pts dp)), snd (snd (nth i pts dp)), fst (nth i pts dp), next_start (skipn (S i) pts) basis).
  Proof.
    induction pts as [|[st [l h]] rest IH]; intros basis i d dp Hi; simpl in Hi; [lia|].
    destruct i as [|i]; [reflexivity|]. cbn [cb_fill nth skipn]. apply IH. lia.
  Qed.

  Lemma run_to_cbounds_nth basis (l : runs (A * A)) i d dp : (i < len l)%nat ->
    nth i (run_to_cbounds basis l) d
    = (fst (snd (nth i (sort_runs l) dp)), snd (snd (nth i (sort_runs l) dp)), fst (nth i (sort_runs l) dp),
       next_start (skipn (S i) (sort_runs l)) basis).
  Proof. intros Hi. apply cb_fill_nth. now rewrite sort_length. Qed.

  (* each run (st, (l, h)) yields the bound (l, h, st, e): e is the smallest later start, or basis for the last run *)
  Lemma cb_fill_each (pts : runs (A * A)) basis : ssorted pts -> forall st l h, In (st, (l, h)) pts ->
    exists e, In (l, h, st, e) (cb_fill pts basis) /\
      ((e = basis /\ forall q, In q pts -> (fst q <= st)%nat) \/
       ((exists v, In (e, v) pts) /\ (st < e)%nat /\ forall q, In q pts -> (st < fst q)%nat -> (e <= fst q)%nat)).
  Proof.
    intros Hs. induction Hs as [|[s0 [l0 h0]] rest Hr Hs IH]; intros st l h Hin; [destruct Hin|].
    destruct Hin as [Heq|Hin].
    - injection Heq as -> -> ->. exists (next_start rest basis). split; [now left|].
      destruct rest as [|[s1 v1] rest'].
      + left. split; [reflexivity|]. intros q [<-|[]]. simpl. lia.
      + right. simpl. split; [exists v1; right; now left|]. split; [apply (Hr (s1, v1)); now left|].
        intros q [<-|[<-|Hq]] Hlt; simpl in *; try lia.
        inversion Hs as [|p l' Hr1 Hs1]; subst. specialize (Hr1 q Hq). simpl in Hr1. lia.
    - destruct (IH st l h Hin) as (e & Hine & Hchar). exists e. split; [now right|].
      assert (Hlt0 : (s0 < st)%nat) by (apply (Hr (st, (l, h)) Hin)).
      destruct Hchar as [[-> Hall]|((v & Hv) & Hlt & Hmin)].
      + left. split; [reflexivity|]. intros q [<-|Hq]; [simpl; lia|now apply Hall].
      + right. split; [exists v; now right|]. split; auto. intros q [<-|Hq] Hq'; [simpl in Hq'; lia|now apply Hmin].
  Qed.

  Lemma run_to_cbounds_each basis (rs : runs (A * A)) : NoDup (map fst rs) -> forall st l h, In (st, (l, h)) rs ->
    exists e, In (l, h, st, e) (run_to_cbounds basis rs) /\
      ((e = basis /\ forall q, In q rs -> (fst q <= st)%nat) \/
       ((exists v, In (e, v) rs) /\ (st < e)%nat /\ forall q, In q rs -> (st < fst q)%nat -> (e <= fst q)%nat)).
  Proof.
    intros Hnd st l h Hin. unfold run_to_cbounds.
    destruct (cb_fill_each (sort_runs rs) basis (sort_sorted rs Hnd) st l h (sort_in2 _ _ Hin)) as (e & Hine & Hchar).
    exists e. split; auto. destruct Hchar as [[-> Hall]|((v & Hv) & Hlt & Hmin)].
    - left. split; auto. intros q Hq. apply Hall. now apply sort_in2.
    - right. split; [exists v; now apply sort_in1 in Hv|]. split; auto. intros q Hq. apply Hmin. now apply sort_in2.
  Qed.

  (* ---- per-kind loaders --------------------------------------------------------------------------------------------- *)
  Lemma construct_accept (d : bdev A) c t cb ps clip x : construct d c t cb ps clip = Accept x ->
    l_id x = dev_id d /\ l_class x = c /\ l_bounds x = t /\ l_cb x = cb /\ l_params x = ps /\ l_clip x = clip /\ valid_bounds t = true.
  Proof. unfold construct. destruct (valid_bounds t); [|discriminate]. intros E. injection E as <-. simpl. auto 10. Qed.

  Lemma load_device_accept basis (d : bdev A) x : load_device basis d = Accept x ->
    exists t, run_to_array (n0, n0) basis (b_bounds d) = Accept t /\ l_id x = dev_id d /\
      match b_kind d with
      | BLoad => l_class x = LADevice /\ l_bounds x = t /\ l_cb x = option_map (run_to_cbounds basis) (b_cum d)
      | BFixed => l_class x = LADevice /\ l_bounds x = t /\ l_cb x = None /\
                  forallb (fun '(l, h) => negb (neqb l h)) t = false
      | BSupply => l_class x = LADevice /\ l_bounds x = neg_swap t /\ l_cb x = option_map (run_to_cbounds basis) (b_cum d)
      | BStorage => l_class x = LSDevice /\ l_bounds x = t /\ l_cb x = None /\
                    l_params x = map_params (b_params d) /\ l_clip x = clip_of (b_params d)
      | BThermal => False
      end.
  Proof.
    unfold load_device. destruct (run_to_array (n0, n0) basis (b_bounds d)) as [t| |] eqn:E; simpl; try discriminate.
    intros Hx. exists t. split; [reflexivity|].
    destruct (b_kind d).
    - apply construct_accept in Hx. intuition.
    - destruct (forallb (fun '(l, h) => negb (neqb l h)) t) eqn:Ef; [discriminate|]. apply construct_accept in Hx. intuition.
    - apply construct_accept in Hx. intuition.
    - apply construct_accept in Hx. intuition.
    - discriminate.
  Qed.

  (* one leaf per exported device, in order *)
  Lemma load_data_each basis : forall (ds : list (bdev A)) xs, load_data basis ds = Accept xs ->
    len xs = len ds /\ forall i d0 x0, (i < len ds)%nat -> load_device basis (nth i ds d0) = Accept (nth i xs x0).
  Proof.
    induction ds as [|d ds IH]; intros xs Hx; simpl in Hx.
    - injection Hx as <-. split; [reflexivity|]. intros i d0 x0 Hi. simpl in Hi. lia.
    - destruct (load_device basis d) as [x| |] eqn:Ed; simpl in Hx; try discriminate.
      destruct (load_data basis ds) as [xs'| |] eqn:Eds; simpl in Hx; try discriminate.
      injection Hx as <-. destruct (IH xs' eq_refl) as [HL Hnth]. split; [simpl; now rewrite HL|].
      intros [|i] d0 x0 Hi; simpl; [assumption|]. apply Hnth. simpl in Hi. lia.
  Qed.

  Lemma map_params_in (ps : list (string * A)) k' v :
    In (k', v) (map_params ps) <-> exists k, In (k, v) ps /\ assoc k storage_map = Some k'.
  Proof.
    unfold map_params. rewrite in_flat_map. split.
    - intros ([k v0] & Hin & Hk). destruct (assoc k storage_map) as [k2|] eqn:E; [|destruct Hk].
      destruct Hk as [Heq|[]]. injection Heq as -> ->. now exists k.
    - intros (k & Hin & Hk). exists (k, v). split; auto. rewrite Hk. now left.
  Qed.
End CumFacts.

(* ---- facts that need arithmetic: stated over R ------------------------------------------------------------------------ *)
Lemma neg_swap_nth (t : list (R * R)) i : (i < len t)%nat ->
  nth i (neg_swap t) (0, 0) = (- snd (nth i t (0, 0)), - fst (nth i t (0, 0))).
Proof.
  revert i; induction t as [|[l h] t IH]; intros i Hi; simpl in Hi; [lia|].
  destruct i as [|i]; [reflexivity|]. simpl. apply IH. lia.
Qed.
Lemma neg_swap_length {A} `{Num A} (t : list (A * A)) : len (neg_swap t) = len t.
Proof. unfold neg_swap. apply map_length. Qed.

Lemma supply_bounds basis (d : bdev R) x : b_kind d = BSupply -> load_device basis d = Accept x ->
  exists t, run_to_array (0, 0) basis (b_bounds d) = Accept t /\ len (l_bounds x) = len t /\
    forall i, (i < len t)%nat -> nth i (l_bounds x) (0, 0) = (- snd (nth i t (0, 0)), - fst (nth i t (0, 0))).
Proof.
  intros Hk Hx. destruct (load_device_accept basis d x Hx) as (t & Ht & _ & Hkind). rewrite Hk in Hkind.
  destruct Hkind as (_ & Hb & _). exists t. split; [exact Ht|]. rewrite Hb. split; [apply neg_swap_length|].
  intros i Hi. now apply neg_swap_nth.
Qed.

Lemma idx_nth_R {B} (f : nat -> R -> B) : forall (m : list R) a i d, (i < len m)%nat ->
  nth i (map (fun '(j, c) => f j c) (combine (seq a (len m)) m)) d = f (a + i)%nat (nth i m 0).
Proof.
  induction m as [|c m IH]; intros a i d Hi; simpl in Hi; [lia|].
  destruct i as [|i]; simpl; [now rewrite Nat.add_0_r|]. rewrite IH by lia. f_equal. lia.
Qed.

Lemma mask_bounds_pair (mask : list R) lo hi i : (i < len mask)%nat ->
  nth i (mask_bounds mask [lo; hi]) (0, 0) = (nth i mask 0 * pnth lo i, nth i mask 0 * pnth hi i).
Proof.
  intros Hi. unfold mask_bounds, idx. rewrite (idx_nth_R (fun j c => ((c * pnth lo j)%num, (c * pnth hi j)%num)) mask 0 i (0, 0) Hi).
  reflexivity.
Qed.
Lemma mask_bounds_vector (mask : list R) b i : len b <> 2%nat -> (i < len mask)%nat ->
  nth i (mask_bounds mask b) (0, 0)
  = (nth i mask 0 * pnth (nth i b (PS 0)) 0, nth i mask 0 * pnth (nth i b (PS 0)) 0).
Proof.
  intros Hb Hi. unfold mask_bounds, idx.
  destruct b as [|b0 [|b1 [|b2 b']]]; try (simpl in Hb; lia);
    rewrite (idx_nth_R (fun j c => let v := pnth (nth j _ (PS n0)) 0 in ((c * v)%num, (c * v)%num)) mask 0 i (0, 0) Hi); reflexivity.
Qed.
Lemma mask_bounds_length (mask : list R) b : len (mask_bounds mask b) = len mask.
Proof.
  unfold mask_bounds, idx. destruct b as [|b0 [|b1 [|b2 b']]]; rewrite map_length, combine_length, seq_length; lia.
Qed.

(* care: limits where the mask is 1, zero where it is 0 *)
Lemma care_inside_outside (care : list R) lo hi i : (i < len care)%nat ->
  (nth i care 0 = 1 -> nth i (care2bounds care [lo; hi]) (0, 0) = (pnth lo i, pnth hi i)) /\
  (nth i care 0 = 0 -> nth i (care2bounds care [lo; hi]) (0, 0) = (0, 0)).
Proof.
  intros Hi. unfold care2bounds. rewrite mask_bounds_pair by auto. split; intros ->; f_equal; ring.
Qed.
Lemma care_vector_inside_outside (care : list R) b i : len b <> 2%nat -> (i < len care)%nat ->
  let v := pnth (nth i b (PS 0)) 0 in
  (nth i care 0 = 1 -> nth i (care2bounds care b) (0, 0) = (v, v)) /\
  (nth i care 0 = 0 -> nth i (care2bounds care b) (0, 0) = (0, 0)).
Proof.
  intros Hb Hi v. unfold care2bounds. rewrite mask_bounds_vector by auto. fold v. split; intros ->; f_equal; ring.
Qed.

(* on-intervals *)
Lemma list_ind2 (P : list nat -> Prop) : P [] -> (forall a, P [a]) -> (forall a b l, P l -> P (a :: b :: l)) -> forall l, P l.
Proof.
  intros H0 H1 H2 l. assert (G : P l /\ forall a, P (a :: l)).
  { induction l as [|b l [IHl IHa]]; [split; auto|]. split; [apply IHa|]. intros a. now apply H2. }
  apply G.
Qed.

Lemma on_pairs_in on a b : In (a, b) (on_pairs on) <->
  exists k, (2 * k + 1 < len on)%nat /\ nth (2 * k) on 0%nat = a /\ nth (2 * k + 1) on 0%nat = b.
Proof.
  revert a b. induction on as [|x|x y on IH] using list_ind2; intros a b.
  - simpl. split; [tauto|]. intros (k & Hk & _). lia.
  - simpl. split; [tauto|]. intros (k & Hk & _). lia.
  - cbn [on_pairs In]. rewrite IH. split.
    + intros [Heq|(k & Hk & Ha & Hb)].
      * injection Heq as -> ->. exists 0%nat. simpl. repeat split; lia.
      * exists (S k). replace (2 * S k)%nat with (S (S (2 * k))) by lia. replace (S (S (2 * k)) + 1)%nat with (S (S (2 * k + 1))) by lia.
        cbn [nth len]. repeat split; auto. lia.
    + intros ([|k] & Hk & Ha & Hb).
      * left. simpl in Ha, Hb. now subst.
      * right. exists k. replace (2 * S k)%nat with (S (S (2 * k))) in * by lia.
        replace (S (S (2 * k)) + 1)%nat with (S (S (2 * k + 1))) in * by lia. cbn [nth len] in *. repeat split; auto. lia.
Qed.

Lemma is_on_spec on t : is_on on t = true <-> exists a b, In (a, b) (on_pairs on) /\ (a <= t <= b)%nat.
Proof.
  unfold is_on. rewrite existsb_exists. split.
  - intros ([a b] & Hin & Hab). apply andb_true_iff in Hab. destruct Hab as [H1 H2]. apply Nat.leb_le in H1. apply Nat.leb_le in H2.
    exists a, b. split; auto.
  - intros (a & b & Hin & H1 & H2). exists (a, b). split; auto. apply andb_true_iff. split; now apply Nat.leb_le.
Qed.

Lemma on_vector_nth l on t : (t < l)%nat -> nth t (on_vector (A:=R) l on) 0 = if is_on on t then 1 else 0.
Proof.
  intros Ht. unfold on_vector.
  rewrite (nth_indep _ 0 ((fun t0 => if is_on on t0 then n1 else n0) 0%nat)) by (now rewrite map_length, seq_length).
  rewrite (map_nth (fun t0 => if is_on on t0 then n1 else n0)). rewrite seq_nth by auto. reflexivity.
Qed.
Lemma on_vector_length l on : len (on_vector (A:=R) l on) = l.
Proof. unfold on_vector. now rewrite map_length, seq_length. Qed.

Lemma on_inside_outside l on lo hi t : (t < l)%nat ->
  ((exists a b, In (a, b) (on_pairs on) /\ (a <= t <= b)%nat) -> nth t (on2bounds l on [lo; hi]) (0, 0) = (pnth lo t, pnth hi t)) /\
  ((forall a b, In (a, b) (on_pairs on) -> ~ (a <= t <= b)%nat) -> nth t (on2bounds l on [lo; hi]) (0, 0) = (0, 0)).
Proof.
  intros Ht. unfold on2bounds. rewrite mask_bounds_pair by (now rewrite on_vector_length). rewrite on_vector_nth by auto. split.
  - intros Hex. apply is_on_spec in Hex. rewrite Hex. f_equal; ring.
  - intros Hnone. destruct (is_on on t) eqn:E.
    + apply is_on_spec in E. destruct E as (a & b & Hin & Hab). exfalso. now apply (Hnone a b).
    + f_equal; ring.
Qed.
Lemma on_vector_inside_outside l on b t : len b <> 2%nat -> (t < l)%nat ->
  let v := pnth (nth t b (PS 0)) 0 in
  ((exists a c, In (a, c) (on_pairs on) /\ (a <= t <= c)%nat) -> nth t (on2bounds l on b) (0, 0) = (v, v)) /\
  ((forall a c, In (a, c) (on_pairs on) -> ~ (a <= t <= c)%nat) -> nth t (on2bounds l on b) (0, 0) = (0, 0)).
Proof.
  intros Hb Ht v. unfold on2bounds. rewrite mask_bounds_vector by (auto; now rewrite on_vector_length). fold v.
  rewrite on_vector_nth by auto. split.
  - intros Hex. apply is_on_spec in Hex. rewrite Hex. f_equal; ring.
  - intros Hnone. destruct (is_on on t) eqn:E.
    + apply is_on_spec in E. destruct E as (a & c & Hin & Hab). exfalso. now apply (Hnone a c).
    + f_equal; ring.
Qed.

(* ---- non-vacuity ----------------------------------------------------------------------------------------------------------- *)
Lemma example_runs : run_to_array 0%nat 5 [(0%nat, 1%nat); (3%nat, 3%nat); (1%nat, 2%nat)] = Accept [1; 2; 2; 3; 3]%nat.
Proof. reflexivity. Qed.
Lemma example_cbounds : run_to_cbounds 5 [(3%nat, (0, 2)); (0%nat, (1, 3))] = [(1, 3, 0%nat, 3%nat); (0, 2, 3%nat, 5%nat)].
Proof. reflexivity. Qed.
Lemma example_supply :
  load_device 3 {| b_kind := BSupply; b_title := None; b_bounds := [(0%nat, (1, 3))]; b_cum := None; b_params := [] |}
  = Accept {| l_id := "supply"; l_class := LADevice; l_bounds := [(Ropp 3, Ropp 1); (Ropp 3, Ropp 1); (Ropp 3, Ropp 1)]; l_cb := None; l_params := [];
              l_clip := (None, None) |}.
Proof.
  unfold load_device, run_to_array. simpl. unfold construct, valid_bounds. simpl.
  assert (E : Rleb (Ropp 3) (Ropp 1) = true) by (apply Rleb_true; lra). rewrite E. reflexivity.
Qed.
