(* Device.project as regenerated in Gen/Projection.v = the leaf projection of the tree model (used by C18; the region classes themselves
   are in Proofs/GenProjection.v). *)
From Coq Require Import ZArith List Bool Arith.
From DK Require Import Num Vec.
From DK.Model Require Import Leaf Fn Dev Tree Projection PyOps.
From DK.Gen Require Import Projection.
From DK.Proofs Require Import GenProjection.
Import ListNotations.

Section DeviceProject.
  Context {A : Type} `{Num A}.
  Theorem gen_device_project (bounds : list (A * A)) (s : list (list A)) : Device_project bounds s = leaf_project bounds s.
  Proof. unfold Device_project, leaf_project. now rewrite gen_box_project. Qed.
End DeviceProject.
