(* The two instances agree on the CLASS-LEVEL model, not only on the kernels: for every atomic device kind (the ADevice
   function AST excepted, see the end of the file), every horizon length and every input,
       Q2R (leaf_cost (A:=Q) L s p)       = leaf_cost (A:=R) (mleaf L) (rl s) (rl p)
       map Q2R (leaf_deriv (A:=Q) L s p)  = leaf_deriv (A:=R) (mleaf L) (rl s) (rl p)
   where mleaf maps every parameter of the device through Q2R.  The left sides are what the correspondence evaluates with
   vm_compute against the implementation; the right sides are what the theorems of C01/C07/C14/C15 speak about.
   The only side condition: IDevice exponents are integers (the executable fragment of x ** b, Base/NumQ.v Qpw). *)
From Coq Require Import ZArith QArith Qreals Reals List Bool Lra Lia.
From DK Require Import Num NumQ NumR Vec.
From DK.Gen Require Import Kernels.
From DK.Model Require Import Leaf Fn Dev.
From DK.Proofs Require Import Hom.
Import ListNotations.
Local Open Scope R_scope.

Definition rl (l : list Q) : list R := map Q2R l.

(* ---- lists ---- *)
Lemma rl_length l : length (rl l) = length l. Proof. apply map_length. Qed.
Lemma hom_nth i l : Q2R (nth i l (n0 (A:=Q))) = nth i (rl l) (n0 (A:=R)).
Proof. rewrite <- hom_0. unfold rl. now rewrite map_nth. Qed.

Lemma rl_map2 (fQ : Q -> Q -> Q) (fR : R -> R -> R) : (forall x y, Q2R (fQ x y) = fR (Q2R x) (Q2R y)) ->
  forall a b, rl (map2 fQ a b) = map2 fR (rl a) (rl b).
Proof.
  intros Hf a; induction a as [|x a IH]; intros [|y b]; try reflexivity.
  cbn [map2 rl map]. rewrite Hf. f_equal. apply IH.
Qed.
Lemma rl_vadd a b : rl (vadd a b) = vadd (rl a) (rl b). Proof. apply rl_map2, hom_add. Qed.
Lemma rl_vsub a b : rl (vsub a b) = vsub (rl a) (rl b). Proof. apply rl_map2, hom_sub. Qed.
Lemma rl_vmul a b : rl (vmul a b) = vmul (rl a) (rl b). Proof. apply rl_map2, hom_mul. Qed.
Lemma rl_vscale c l : rl (vscale c l) = vscale (Q2R c) (rl l).
Proof. unfold rl, vscale. rewrite !map_map. apply map_ext. intros x. apply hom_mul. Qed.
Lemma rl_vopp l : rl (vopp l) = vopp (rl l).
Proof. unfold rl, vopp. rewrite !map_map. apply map_ext. intros x. apply hom_opp. Qed.
Lemma rl_repeat c n : rl (repeat c n) = repeat (Q2R c) n.
Proof. induction n as [|n IH]; [reflexivity|]. cbn [repeat rl map]. f_equal. exact IH. Qed.
Lemma rl_ones n : rl (ones n) = ones n.
Proof. unfold ones, vconst. now rewrite rl_repeat, hom_1. Qed.
Lemma rl_zeros n : rl (zeros n) = zeros n.
Proof. unfold zeros, vconst. now rewrite rl_repeat, hom_0. Qed.
Lemma hom_vsum' l : Q2R (vsum l) = vsum (rl l). Proof. apply hom_vsum. Qed.
Lemma hom_dot' a b : Q2R (dot a b) = dot (rl a) (rl b). Proof. apply hom_dot. Qed.
Lemma rl_slice s e l : rl (slice s e l) = slice s e (rl l).
Proof. unfold slice, rl. now rewrite skipn_map, firstn_map. Qed.
Lemma rl_app a b : rl (a ++ b) = rl a ++ rl b. Proof. apply map_app. Qed.
Lemma rl_flat_map {B} (f : B -> list Q) l : rl (flat_map f l) = flat_map (fun b => rl (f b)) l.
Proof. induction l as [|b l IH]; [reflexivity|]. cbn [flat_map]. now rewrite rl_app, IH. Qed.

Lemma combine_map_r {B} (f : Q -> R) (k : list B) (s : list Q) :
  combine k (map f s) = map (fun ix => (fst ix, f (snd ix))) (combine k s).
Proof. revert s; induction k as [|i k IH]; intros [|x s]; try reflexivity. cbn [combine map fst snd]. f_equal. apply IH. Qed.

Lemma rl_map_idx (gQ : nat -> Q -> Q) (gR : nat -> R -> R) : (forall i x, Q2R (gQ i x) = gR i (Q2R x)) ->
  forall s, rl (map (fun '(i, x) => gQ i x) (idx s)) = map (fun '(i, x) => gR i x) (idx (rl s)).
Proof.
  intros Hg s. unfold idx, rl. rewrite map_length, combine_map_r, !map_map. apply map_ext.
  intros [i x]. cbn [fst snd]. apply Hg.
Qed.
Lemma rl_map_seq (fQ : nat -> Q) (fR : nat -> R) a n : (forall i, Q2R (fQ i) = fR i) ->
  rl (map fQ (seq a n)) = map fR (seq a n).
Proof. intros Hf. unfold rl. rewrite map_map. apply map_ext. exact Hf. Qed.

(* ---- parameters ---- *)
Definition mparam (p : param Q) : param R := match p with PS a => PS (Q2R a) | PV l => PV (rl l) end.
Definition mbnd (b : list (Q * Q)) : list (R * R) := map (fun ab => (Q2R (fst ab), Q2R (snd ab))) b.
Definition mcb (c : cbound Q) : cbound R := (Q2R (cb_lo c), Q2R (cb_hi c), cb_s c, cb_e c).
Definition mg (g : gcoeffs Q) : gcoeffs R := match g with G1 c => G1 (rl c) | G2 cs => G2 (map rl cs) end.
Definition msp (q : sparams Q) : sparams R :=
  {| sp_c1 := Q2R (sp_c1 q); sp_c2 := Q2R (sp_c2 q); sp_c3 := Q2R (sp_c3 q); sp_capacity := Q2R (sp_capacity q);
     sp_depth := Q2R (sp_depth q); sp_start := Q2R (sp_start q); sp_reserve := Q2R (sp_reserve q);
     sp_eff := Q2R (sp_eff q); sp_sus := Q2R (sp_sus q);
     sp_clip_d := option_map Q2R (sp_clip_d q); sp_clip_c := option_map Q2R (sp_clip_c q) |}.
Definition mtp (q : tparams Q) : tparams R :=
  {| tp_sus := Q2R (tp_sus q); tp_eff := Q2R (tp_eff q); tp_init := Q2R (tp_init q); tp_opt := Q2R (tp_opt q);
     tp_range := Q2R (tp_range q); tp_ext := rl (tp_ext q); tp_c := mparam (tp_c q) |}.

Lemma hom_pnth p i : Q2R (pnth p i) = pnth (mparam p) i.
Proof. destruct p as [a|l]; [reflexivity|]. apply hom_nth. Qed.
Lemma hom_lo b i : Q2R (lo b i) = lo (mbnd b) i.
Proof.
  unfold lo, mbnd. set (f := fun ab : Q * Q => (Q2R (fst ab), Q2R (snd ab))).
  replace (n0 (A:=R), n0 (A:=R)) with (f (n0 (A:=Q), n0 (A:=Q))) by (unfold f; cbn [fst snd]; now rewrite hom_0).
  rewrite map_nth. reflexivity.
Qed.
Lemma hom_hi b i : Q2R (hi b i) = hi (mbnd b) i.
Proof.
  unfold hi, mbnd. set (f := fun ab : Q * Q => (Q2R (fst ab), Q2R (snd ab))).
  replace (n0 (A:=R), n0 (A:=R)) with (f (n0 (A:=Q), n0 (A:=Q))) by (unfold f; cbn [fst snd]; now rewrite hom_0).
  rewrite map_nth. reflexivity.
Qed.

(* ---- Device / PV / CDevice ---- *)
Lemma hom_dev_cost s p : Q2R (dev_cost s p) = dev_cost (rl s) (rl p). Proof. apply hom_dot. Qed.
Lemma rl_dev_deriv n p : rl (dev_deriv n p) = dev_deriv n (rl p).
Proof. unfold dev_deriv. now rewrite rl_vmul, rl_ones. Qed.
Lemma hom_cdev_cost a b s p : Q2R (cdev_cost a b s p) = cdev_cost (Q2R a) (Q2R b) (rl s) (rl p).
Proof. unfold cdev_cost. now rewrite !hom_add, hom_mul, hom_vsum', hom_dot'. Qed.
Lemma rl_cdev_deriv n a p : rl (cdev_deriv n a p) = cdev_deriv n (Q2R a) (rl p).
Proof. unfold cdev_deriv. now rewrite rl_vadd, rl_vscale, rl_ones. Qed.

(* ---- IDevice2 ---- *)
Lemma hom_idev2_cost pl ph b s p : Q2R (idev2_cost pl ph b s p) = idev2_cost (mparam pl) (mparam ph) (mbnd b) (rl s) (rl p).
Proof.
  unfold idev2_cost, idev2_pref. rewrite hom_add, hom_dot', hom_vsum'. f_equal. f_equal.
  apply (rl_map_idx (fun i x => hl_cost x (pnth pl i) (pnth ph i) (lo b i) (hi b i))
                    (fun i x => hl_cost x (pnth (mparam pl) i) (pnth (mparam ph) i) (lo (mbnd b) i) (hi (mbnd b) i))).
  intros i x. now rewrite hom_hl_cost, !hom_pnth, hom_lo, hom_hi.
Qed.
Lemma rl_idev2_deriv pl ph b s p : rl (idev2_deriv pl ph b s p) = idev2_deriv (mparam pl) (mparam ph) (mbnd b) (rl s) (rl p).
Proof.
  unfold idev2_deriv. rewrite rl_vadd. f_equal.
  apply (rl_map_idx (fun i x => hl_deriv x (pnth pl i) (pnth ph i) (lo b i) (hi b i))
                    (fun i x => hl_deriv x (pnth (mparam pl) i) (pnth (mparam ph) i) (lo (mbnd b) i) (hi (mbnd b) i))).
  intros i x. now rewrite hom_hl_deriv, !hom_pnth, hom_lo, hom_hi.
Qed.

(* ---- IDevice: integer exponents (the executable fragment) ---- *)
Definition int_exponents (bp : param Q) (n : nat) : Prop := forall i, (i < n)%nat -> exists z, pnth bp i = inject_Z z.

Lemma idx_in_lt {B} (s : list B) i x : In (i, x) (combine (seq 0 (length s)) s) -> (i < length s)%nat.
Proof. intros Hin. apply in_combine_l in Hin. apply in_seq in Hin. lia. Qed.

Lemma rl_map_idx_in (gQ : nat -> Q -> Q) (gR : nat -> R -> R) s :
  (forall i x, (i < length s)%nat -> Q2R (gQ i x) = gR i (Q2R x)) ->
  rl (map (fun '(i, x) => gQ i x) (idx s)) = map (fun '(i, x) => gR i x) (idx (rl s)).
Proof.
  intros Hg. unfold idx, rl. rewrite map_length, combine_map_r, !map_map. apply map_ext_in.
  intros [i x] Hin. cbn [fst snd]. apply Hg. eapply idx_in_lt. exact Hin.
Qed.

Lemma hom_idev_cost a bp c b s p : int_exponents bp (length s) ->
  Q2R (idev_cost a bp c b s p) = idev_cost (mparam a) (mparam bp) (mparam c) (mbnd b) (rl s) (rl p).
Proof.
  intros Hb. unfold idev_cost, idev_pref. rewrite hom_add, hom_dot', hom_vsum'. f_equal. f_equal.
  apply (rl_map_idx_in (fun i x => abc_cost x (pnth a i) (pnth bp i) (pnth c i) (lo b i) (hi b i))
           (fun i x => abc_cost x (pnth (mparam a) i) (pnth (mparam bp) i) (pnth (mparam c) i) (lo (mbnd b) i) (hi (mbnd b) i))).
  intros i x Hi. destruct (Hb i Hi) as [z Ez]. rewrite <- (hom_pnth bp), Ez, Q2R_inject, hom_abc_cost.
  now rewrite !hom_pnth, hom_lo, hom_hi.
Qed.
Lemma rl_idev_deriv a bp c b s p : int_exponents bp (length s) ->
  rl (idev_deriv a bp c b s p) = idev_deriv (mparam a) (mparam bp) (mparam c) (mbnd b) (rl s) (rl p).
Proof.
  intros Hb. unfold idev_deriv. rewrite rl_vadd. f_equal.
  apply (rl_map_idx_in (fun i x => abc_deriv x (pnth a i) (pnth bp i) (pnth c i) (lo b i) (hi b i))
           (fun i x => abc_deriv x (pnth (mparam a) i) (pnth (mparam bp) i) (pnth (mparam c) i) (lo (mbnd b) i) (hi (mbnd b) i))).
  intros i x Hi. destruct (Hb i Hi) as [z Ez]. rewrite <- (hom_pnth bp), Ez, Q2R_inject, hom_abc_deriv.
  now rewrite !hom_pnth, hom_lo, hom_hi.
Qed.

(* ---- GDevice ---- *)
Lemma hom_nofnat k : Q2R (nofnat (A:=Q) k) = nofnat (A:=R) k. Proof. apply hom_ofZ. Qed.
Lemma pderiv_cons2 {A} `{Num A} (a b : A) c : pderiv (a :: b :: c) = (nofnat (length (b :: c)) * a)%num :: pderiv (b :: c).
Proof. reflexivity. Qed.
Lemma rl_pderiv c : rl (pderiv c) = pderiv (rl c).
Proof.
  induction c as [|a c IH]; [reflexivity|]. destruct c as [|b c]; [reflexivity|].
  rewrite pderiv_cons2. change (rl (a :: b :: c)) with (Q2R a :: Q2R b :: rl c). rewrite pderiv_cons2.
  change (rl ((nofnat (length (b :: c)) * a)%num :: pderiv (b :: c)))
    with (Q2R (nofnat (length (b :: c)) * a)%num :: rl (pderiv (b :: c))).
  rewrite hom_mul, hom_nofnat, IH. cbn [length]. now rewrite rl_length.
Qed.
Lemma rl_gpoly g i : rl (gpoly g i) = gpoly (mg g) i.
Proof.
  destruct g as [c|cs]; [reflexivity|]. cbn [gpoly mg].
  change (@nil R) with (rl []). unfold rl at 1. now rewrite (map_nth rl).
Qed.
Lemma hom_gdev_cost g s p : Q2R (gdev_cost g s p) = gdev_cost (mg g) (rl s) (rl p).
Proof.
  unfold gdev_cost. rewrite hom_vsum'. f_equal.
  apply (rl_map_idx (fun i x => (x * nth i p n0 + horner (gpoly g i) (- x))%num)
                    (fun i x => (x * nth i (rl p) n0 + horner (gpoly (mg g) i) (- x))%num)).
  intros i x. now rewrite hom_add, hom_mul, hom_nth, hom_horner, hom_opp, <- rl_gpoly.
Qed.
Lemma rl_gdev_deriv g s p : rl (gdev_deriv g s p) = gdev_deriv (mg g) (rl s) (rl p).
Proof.
  unfold gdev_deriv.
  apply (rl_map_idx (fun i x => (nth i p n0 - horner (pderiv (gpoly g i)) (- x))%num)
                    (fun i x => (nth i (rl p) n0 - horner (pderiv (gpoly (mg g) i)) (- x))%num)).
  intros i x. rewrite hom_sub, hom_nth, hom_horner, hom_opp, <- rl_gpoly. fold (rl (pderiv (gpoly g i))). now rewrite rl_pderiv.
Qed.

(* ---- CDevice2 ---- *)
Lemma mcb_lo c : cb_lo (mcb c) = Q2R (cb_lo c). Proof. reflexivity. Qed.
Lemma mcb_hi c : cb_hi (mcb c) = Q2R (cb_hi c). Proof. reflexivity. Qed.
Lemma mcb_s c : cb_s (mcb c) = cb_s c. Proof. reflexivity. Qed.
Lemma mcb_e c : cb_e (mcb c) = cb_e c. Proof. reflexivity. Qed.

Lemma hom_cdev2_pref pl ph cbs s : Q2R (cdev2_pref pl ph cbs s) = cdev2_pref (Q2R pl) (Q2R ph) (map mcb cbs) (rl s).
Proof.
  assert (G : Q2R (vsum (map (fun c => hl_cost (vsum (slice (cb_s c) (cb_e c) s)) pl ph (cb_lo c) (cb_hi c)) cbs))
              = vsum (map (fun c => hl_cost (vsum (slice (cb_s c) (cb_e c) (rl s))) (Q2R pl) (Q2R ph) (cb_lo c) (cb_hi c)) (map mcb cbs))).
  { rewrite hom_vsum'. f_equal. unfold rl. rewrite !map_map. apply map_ext. intros c.
    now rewrite hom_hl_cost, hom_vsum', rl_slice. }
  destruct cbs as [|c [|c' cbs]]; [exact G| |exact G].
  cbn [cdev2_pref map]. now rewrite hom_hl_cost, hom_vsum'.
Qed.
Lemma hom_cdev2_cost pl ph cbs s p : Q2R (cdev2_cost pl ph cbs s p) = cdev2_cost (Q2R pl) (Q2R ph) (map mcb cbs) (rl s) (rl p).
Proof. unfold cdev2_cost. now rewrite hom_add, hom_cdev2_pref, hom_dot'. Qed.
Lemma rl_cdev2_dpref pl ph cbs s : rl (cdev2_dpref pl ph cbs s) = cdev2_dpref (Q2R pl) (Q2R ph) (map mcb cbs) (rl s).
Proof.
  assert (G : rl (flat_map (fun c => let x := slice (cb_s c) (cb_e c) s in
                              vscale (hl_deriv (vsum x) pl ph (cb_lo c) (cb_hi c)) (ones (length x))) cbs)
              = flat_map (fun c => let x := slice (cb_s c) (cb_e c) (rl s) in
                              vscale (hl_deriv (vsum x) (Q2R pl) (Q2R ph) (cb_lo c) (cb_hi c)) (ones (length x))) (map mcb cbs)).
  { rewrite rl_flat_map, flat_map_concat_map, (flat_map_concat_map _ (map mcb cbs)), map_map. f_equal. apply map_ext. intros c.
    cbv zeta. rewrite rl_vscale, rl_ones, hom_hl_deriv, hom_vsum', rl_slice. cbn [mcb cb_lo cb_hi cb_s cb_e fst snd].
    now rewrite <- rl_slice, rl_length. }
  destruct cbs as [|c [|c' cbs]]; [exact G| |exact G].
  cbn [cdev2_dpref map]. now rewrite rl_vscale, rl_ones, hom_hl_deriv, hom_vsum', rl_length.
Qed.
Lemma rl_cdev2_deriv pl ph cbs s p : rl (cdev2_deriv pl ph cbs s p) = cdev2_deriv (Q2R pl) (Q2R ph) (map mcb cbs) (rl s) (rl p).
Proof. unfold cdev2_deriv. now rewrite rl_vadd, rl_cdev2_dpref. Qed.

(* ---- storage / thermal state ---- *)
Lemma hom_n2 : Q2R (n2 (A:=Q)) = n2 (A:=R). Proof. apply hom_ofZ. Qed.
Lemma hom_nsq x : Q2R (nsq x) = nsq (Q2R x). Proof. unfold nsq. apply hom_mul. Qed.
Lemma hom_nmin x y : Q2R (nmin x y) = nmin (Q2R x) (Q2R y).
Proof. unfold nmin. rewrite <- hom_leb. now destruct (nleb x y). Qed.
Lemma hom_nltb x y : nltb (A:=Q) x y = nltb (A:=R) (Q2R x) (Q2R y).
Proof. unfold nltb. now rewrite hom_leb. Qed.
Lemma hom_effof e r : Q2R (effof e r) = effof (Q2R e) (Q2R r).
Proof.
  unfold effof. rewrite <- hom_0, <- hom_eqb, <- hom_leb. destruct (neqb r n0); [apply hom_1|].
  destruct (nleb n0 r); [reflexivity|]. now rewrite hom_div, hom_1.
Qed.
Lemma rl_effv e r : rl (effv e r) = effv (Q2R e) (rl r).
Proof. unfold effv, rl. rewrite !map_map. apply map_ext. intros x. now rewrite hom_mul, hom_effof. Qed.
Lemma rl_sust_row s n i : rl (sust_row s n i) = sust_row (Q2R s) n i.
Proof.
  unfold sust_row. apply rl_map_seq. intros j. destruct (j <=? i)%nat; [apply hom_npown|apply hom_0].
Qed.
Lemma rl_soc r s e : rl (soc r s e) = soc (rl r) (Q2R s) (Q2R e).
Proof.
  unfold soc. rewrite rl_length. apply rl_map_seq. intros i. now rewrite hom_dot', rl_sust_row, rl_effv.
Qed.
Lemma rl_base_soc b s n : rl (base_soc b s n) = base_soc (Q2R b) (Q2R s) n.
Proof. unfold base_soc. apply rl_map_seq. intros i. now rewrite hom_mul, hom_npown. Qed.

(* ---- SDevice ---- *)
Lemma hom_sdev_base q : Q2R (sdev_base q) = sdev_base (msp q). Proof. unfold sdev_base. apply hom_mul. Qed.
Lemma rl_sdev_charge q r : rl (sdev_charge q r) = sdev_charge (msp q) (rl r).
Proof. unfold sdev_charge. now rewrite rl_vadd, rl_base_soc, rl_soc, hom_sdev_base, rl_length. Qed.
Lemma rl_sdev_short q r : rl (sdev_short q r) = sdev_short (msp q) (rl r).
Proof.
  unfold sdev_short. rewrite <- rl_sdev_charge. unfold rl. rewrite !map_map. apply map_ext. intros c.
  now rewrite hom_nmin, hom_sub, hom_mul, hom_0.
Qed.
Lemma hom_flip r : Q2R (flip r) = flip (rl r).
Proof.
  induction r as [|x r IH]; [apply hom_0|]. destruct r as [|y r]; [apply hom_0|].
  change (flip (x :: y :: r)) with (x * y + flip (y :: r))%num.
  change (rl (x :: y :: r)) with (Q2R x :: Q2R y :: rl r).
  change (flip (Q2R x :: Q2R y :: rl r)) with (Q2R x * Q2R y + flip (Q2R y :: rl r))%num.
  now rewrite hom_add, hom_mul, IH.
Qed.
Lemma hom_sdev_cost q r p : Q2R (sdev_cost q r p) = sdev_cost (msp q) (rl r) (rl p).
Proof.
  unfold sdev_cost, sdev_pref. rewrite !hom_add, hom_sub, !hom_mul, !hom_vsum', hom_flip, hom_dot', <- rl_sdev_short.
  cbn [msp sp_c1 sp_c2 sp_c3]. f_equal. f_equal; [f_equal|]; f_equal; f_equal; unfold rl; rewrite !map_map; apply map_ext; intros x; apply hom_nsq.
Qed.
Lemma hom_nbr r k : Q2R (nbr r k) = nbr (rl r) k.
Proof. unfold nbr. rewrite hom_add, hom_nth. f_equal. destruct k as [|k]; [apply hom_0|apply hom_nth]. Qed.
Lemma rl_sdev_deriv q r p : rl (sdev_deriv q r p) = sdev_deriv (msp q) (rl r) (rl p).
Proof.
  unfold sdev_deriv. cbv zeta. rewrite rl_length, <- rl_sdev_short.
  apply (rl_map_idx
    (fun k x => (n2 * sp_c1 q * x - sp_c2 q * nbr r k
       + vsum (map (fun '(i, m) => n2 * sp_c3 q * m * nth k (sust_row (sp_sus q) (length r) i) n0 * effof (sp_eff q) x) (idx (sdev_short q r)))
       + nth k p n0)%num)
    (fun k x => (n2 * sp_c1 (msp q) * x - sp_c2 (msp q) * nbr (rl r) k
       + vsum (map (fun '(i, m) => n2 * sp_c3 (msp q) * m * nth k (sust_row (sp_sus (msp q)) (length r) i) n0 * effof (sp_eff (msp q)) x) (idx (rl (sdev_short q r))))
       + nth k (rl p) n0)%num)).
  intros k x. rewrite !hom_add, hom_sub, !hom_mul, hom_n2, hom_nbr, hom_nth, hom_vsum'. cbn [msp sp_c1 sp_c2 sp_c3 sp_sus sp_eff].
  f_equal. f_equal. f_equal.
  apply (rl_map_idx (fun i m => (n2 * sp_c3 q * m * nth k (sust_row (sp_sus q) (length r) i) n0 * effof (sp_eff q) x)%num)
                    (fun i m => (n2 * Q2R (sp_c3 q) * m * nth k (sust_row (Q2R (sp_sus q)) (length r) i) n0 * effof (Q2R (sp_eff q)) (Q2R x))%num)).
  intros i m. now rewrite !hom_mul, hom_n2, hom_nth, rl_sust_row, hom_effof.
Qed.

(* ---- TDevice (ABCCost(0, 2, c, t_opt - t_range, t_opt) of the derived temperature) ---- *)
Lemma rl_tdev_tbase q n : rl (tdev_tbase q n) = tdev_tbase (mtp q) n.
Proof.
  unfold tdev_tbase. rewrite rl_vadd, rl_base_soc, rl_soc, hom_1. cbn [mtp tp_init tp_sus tp_ext]. do 2 f_equal.
  unfold rl. rewrite !map_map. apply map_ext. intros t. now rewrite hom_mul, hom_sub, hom_1.
Qed.
Lemma rl_tdev_r2t q r : rl (tdev_r2t q r) = tdev_r2t (mtp q) (rl r).
Proof. unfold tdev_r2t. now rewrite rl_vadd, rl_tdev_tbase, rl_soc, rl_length. Qed.

Lemma hom_tdev_tmin q : Q2R (tdev_tmin q) = tdev_tmin (mtp q). Proof. unfold tdev_tmin. apply hom_sub. Qed.
Lemma hom_abc2_cost t c lo hi : Q2R (abc_cost t n0 n2 c lo hi) = abc_cost (Q2R t) n0 n2 (Q2R c) (Q2R lo) (Q2R hi).
Proof. change (n2 (A:=Q)) with (inject_Z 2). rewrite hom_abc_cost, hom_0. reflexivity. Qed.
Lemma hom_abc2_deriv t c lo hi : Q2R (abc_deriv t n0 n2 c lo hi) = abc_deriv (Q2R t) n0 n2 (Q2R c) (Q2R lo) (Q2R hi).
Proof. change (n2 (A:=Q)) with (inject_Z 2). rewrite hom_abc_deriv, hom_0. reflexivity. Qed.

Lemma hom_tdev_cost q r p : Q2R (tdev_cost q r p) = tdev_cost (mtp q) (rl r) (rl p).
Proof.
  unfold tdev_cost, tdev_pref. rewrite hom_add, hom_dot', hom_vsum', <- rl_tdev_r2t. f_equal. f_equal.
  apply (rl_map_idx (fun i t => abc_cost t n0 n2 (pnth (tp_c q) i) (tdev_tmin q) (tp_opt q))
                    (fun i t => abc_cost t n0 n2 (pnth (tp_c (mtp q)) i) (tdev_tmin (mtp q)) (tp_opt (mtp q)))).
  intros i t. now rewrite hom_abc2_cost, hom_pnth, hom_tdev_tmin.
Qed.
Lemma rl_tdev_dt q r : rl (tdev_dt q r) = tdev_dt (mtp q) (rl r).
Proof.
  unfold tdev_dt. rewrite <- rl_tdev_r2t.
  apply (rl_map_idx (fun i t => abc_deriv t n0 n2 (pnth (tp_c q) i) (tdev_tmin q) (tp_opt q))
                    (fun i t => abc_deriv t n0 n2 (pnth (tp_c (mtp q)) i) (tdev_tmin (mtp q)) (tp_opt (mtp q)))).
  intros i t. now rewrite hom_abc2_deriv, hom_pnth, hom_tdev_tmin.
Qed.
Lemma rl_tdev_deriv q r p : rl (tdev_deriv q r p) = tdev_deriv (mtp q) (rl r) (rl p).
Proof.
  unfold tdev_deriv. cbv zeta. rewrite rl_length, <- rl_tdev_dt. apply rl_map_seq. intros k.
  rewrite hom_add, hom_mul, hom_vsum', !hom_nth. f_equal. f_equal.
  - f_equal.
    apply (rl_map_idx (fun i d => (nth k (sust_row (tp_sus q) (length r) i) n0 * d)%num)
                      (fun i d => (nth k (sust_row (tp_sus (mtp q)) (length r) i) n0 * d)%num)).
    intros i d. now rewrite hom_mul, hom_nth, rl_sust_row.
  - rewrite <- (hom_nth k r). rewrite <- hom_0 at 1. rewrite <- hom_nltb.
    destruct (nltb (nth k r n0) n0); [now rewrite hom_div, hom_1|reflexivity].
Qed.

(* ---- one statement for every kind but the ADevice function AST ---- *)
Fixpoint mfn (f : fn Q) : fn R :=
  match f with
  | FNull => FNull
  | FSum fs => FSum (map mfn fs)
  | FReflect g => FReflect (mfn g)
  | FPoly2D cs => FPoly2D (map rl cs)
  | FPoly2DOffset cs offs => FPoly2DOffset (map rl cs) (rl offs)
  | FX2D fs => FX2D (map (fun t => let '(a, b, c, d) := t in (Q2R a, Q2R b, Q2R c, Q2R d)) fs)
  | FRanges rs => FRanges (map (fun r => let '(s, e, g) := r in (s, e, mfn g)) rs)
  | FInnerHL pl ph xl xh => FInnerHL (Q2R pl) (Q2R ph) (Q2R xl) (Q2R xh)
  | FABC a b c xl xh => FABC (mparam a) (mparam b) (mparam c) (mparam xl) (mparam xh)
  | FHL pl ph xl xh => FHL (mparam pl) (mparam ph) (mparam xl) (mparam xh)
  | FDemand c => FDemand (rl c)
  end.
Definition mucon (u : ucon Q) : ucon R := {| u_eq := u_eq u; u_w := rl (u_w u); u_k := Q2R (u_k u); u_hasjac := u_hasjac u |}.
Definition mkind (k : kind Q) : kind R :=
  match k with
  | KDev => KDev | KPV => KPV
  | KC a b => KC (Q2R a) (Q2R b)
  | KC2 pl ph => KC2 (Q2R pl) (Q2R ph)
  | KI a b c => KI (mparam a) (mparam b) (mparam c)
  | KI2 pl ph => KI2 (mparam pl) (mparam ph)
  | KG g => KG (mg g)
  | KS q => KS (msp q)
  | KT q => KT (mtp q)
  | KA f ucs => KA (mfn f) (map mucon ucs)
  end.
Definition mleaf (L : leafdev Q) : leafdev R :=
  {| ld_n := ld_n L; ld_bounds := mbnd (ld_bounds L); ld_cb := map mcb (ld_cb L); ld_kind := mkind (ld_kind L) |}.

(* the executable fragment: integer exponents for IDevice; the ADevice function AST is handled separately *)
Definition exec_kind (k : kind Q) (n : nat) : Prop :=
  match k with KI _ bp _ => int_exponents bp n | KA _ _ => False | _ => True end.

Theorem instances_agree_leaf_cost (L : leafdev Q) s p : exec_kind (ld_kind L) (length s) ->
  Q2R (leaf_cost L s p) = leaf_cost (mleaf L) (rl s) (rl p).
Proof.
  destruct L as [n b cb k]. unfold leaf_cost; cbn [ld_kind ld_n ld_bounds ld_cb mleaf]. intros Hk.
  destruct k; cbn [mkind exec_kind] in *; try contradiction.
  - apply hom_dev_cost.
  - apply hom_dev_cost.
  - apply hom_cdev_cost.
  - apply hom_cdev2_cost.
  - now apply hom_idev_cost.
  - apply hom_idev2_cost.
  - apply hom_gdev_cost.
  - apply hom_sdev_cost.
  - apply hom_tdev_cost.
Qed.

Theorem instances_agree_leaf_deriv (L : leafdev Q) s p : exec_kind (ld_kind L) (length s) ->
  rl (leaf_deriv L s p) = leaf_deriv (mleaf L) (rl s) (rl p).
Proof.
  destruct L as [n b cb k]. unfold leaf_deriv; cbn [ld_kind ld_n ld_bounds ld_cb mleaf]. intros Hk.
  destruct k; cbn [mkind exec_kind] in *; try contradiction.
  - apply rl_dev_deriv.
  - apply rl_dev_deriv.
  - apply rl_cdev_deriv.
  - apply rl_cdev2_deriv.
  - now apply rl_idev_deriv.
  - apply rl_idev2_deriv.
  - apply rl_gdev_deriv.
  - apply rl_sdev_deriv.
  - apply rl_tdev_deriv.
Qed.
