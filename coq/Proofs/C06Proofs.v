(* C06: every supplied constraint Jacobian is the gradient of its constraint function (leaf level here;
   tree/adaptor level in the second half). *)
From Coq Require Import ZArith Reals List Bool Arith Lia Lra.
From Coquelicot Require Import Coquelicot.
From DK Require Import Num NumR Vec.
From DK.Gen Require Import Kernels.
From DK.Model Require Import Leaf Fn Dev.
From DK.Proofs Require Import VecFacts RVec KernelR Calc C15Proofs C01Proofs.
Import ListNotations.
Local Open Scope R_scope.

(* a constraint with a Jacobian is "exact at x" when the Jacobian evaluated at x is the gradient of the function at x
   (one entry per variable, coordinate-wise derivative); constraints without a Jacobian impose nothing *)
Definition jac_exact (c : con R) (x : list R) : Prop :=
  match c_jac c with
  | Some J => grad_at (c_fun c) (J x) x
  | None => True
  end.

Lemma grad_dot_l (w x : list R) : length w = length x -> grad_at (fun s => dot w s) w x.
Proof.
  intros HL. split; auto. intros k Hk.
  apply (is_derive_ext (fun t => dot w x + nth k w 0 * (t - nth k x 0))).
  - intros t. now rewrite dot_upd_r.
  - auto_derive; [exact I|ring].
Qed.

Lemma nth_vopp (G : list R) k : nth k (vopp G) 0 = - nth k G 0.
Proof.
  revert k; induction G as [|g G IH]; intros [|k]; cbn [vopp map nth]; numR; try ring. apply IH.
Qed.

Lemma grad_at_opp F G x : grad_at F G x -> grad_at (fun y => - F y) (vopp G) x.
Proof.
  intros [HL HD]. split; [unfold vopp; now rewrite map_length|]. intros k Hk.
  rewrite nth_vopp.
  apply (is_derive_ext (fun t => (-1) * F (upd x k t))); [intros; simpl; ring|].
  replace (- nth k G 0) with (-1 * nth k G 0) by ring. apply is_derive_cmult. apply HD; auto.
Qed.
Lemma grad_at_shift_const F G x c : grad_at F G x -> grad_at (fun y => F y - c) G x /\ grad_at (fun y => c - F y) (vopp G) x.
Proof.
  intros HG. split.
  - destruct HG as [HL HD]. split; auto. intros k Hk. apply (is_derive_ext (fun t => F (upd x k t) + (- c))); [intros; simpl; ring|].
    apply is_derive_cplus_r. apply HD; auto.
  - destruct (grad_at_opp F G x HG) as [HL HD]. split; auto. intros k Hk.
    apply (is_derive_ext (fun t => c + - F (upd x k t))); [intros; simpl; ring|]. apply is_derive_cplus. apply HD; auto.
Qed.

(* ---------------- cumulative bounds (Device.constraints) ---------------- *)
Lemma range_mask_length n st en : length (range_mask (A:=R) n st en) = n.
Proof. unfold range_mask. now rewrite map_length, seq_length. Qed.

Lemma cb_cons_exact n (cbs : list (cbound R)) x c : length x = n -> In c (cb_cons n cbs) -> jac_exact c x.
Proof.
  intros Hx Hin. unfold cb_cons in Hin. apply in_flat_map in Hin. destruct Hin as [cb [_ Hc]].
  assert (G : grad_at (fun s => dot s (range_mask n (cb_s cb) (cb_e cb))) (range_mask n (cb_s cb) (cb_e cb)) x).
  { apply grad_dot. rewrite range_mask_length. lia. }
  destruct (grad_at_shift_const _ _ x (cb_lo cb) G) as [G1 _].
  destruct (grad_at_shift_const _ _ x (cb_hi cb) G) as [_ G2].
  destruct Hc as [<-|[<-|[]]]; unfold jac_exact; cbn [c_jac c_fun]; numR; assumption.
Qed.

(* ---------------- storage state-of-charge constraints ---------------- *)
Lemma s_soc_grad q n (r : list R) i : length r = n -> smooth_at (sp_eff q) r ->
  grad_at (fun r' => s_soc q n r' i) (s_socjac q n r i) r.
Proof.
  intros Hn Hsm. unfold s_soc, s_socjac. split.
  - unfold vmul. rewrite map2_length, map_length. unfold sust_row. rewrite map_length, seq_length. lia.
  - intros k Hk. numR.
    apply (is_derive_ext (fun t => sdev_base q * npown (sp_sus q) (S i)
             + (dot (effv (sp_eff q) r) (sust_row (sp_sus q) n i)
                + (psi (sp_eff q) t - psi (sp_eff q) (nth k r 0)) * nth k (sust_row (sp_sus q) n i) 0))).
    { intros t. rewrite effv_upd. rewrite dot_upd by (rewrite effv_length; auto). now rewrite nth_effv. }
    assert (Hs : sp_eff q = 1 \/ nth k r 0 <> 0) by (destruct Hsm as [?|H]; [left; auto|right; apply H; auto]).
    pose proof (psi_derive (sp_eff q) (nth k r 0) Hs) as D.
    assert (E : nth k (vmul (map (effof (sp_eff q)) r) (sust_row (sp_sus q) n i)) 0
              = nth k (sust_row (sp_sus q) n i) 0 * effof (sp_eff q) (nth k r 0)).
    { assert (Lr : (k < length (sust_row (sp_sus q) n i))%nat) by (unfold sust_row; rewrite map_length, seq_length; lia).
      clear - Hk Lr. revert k Hk Lr. generalize (sust_row (sp_sus q) n i) as row.
      induction r as [|x r IH]; intros row k Hk Lr; simpl in Hk; [lia|].
      destruct row as [|a row]; simpl in Lr; [lia|]. destruct k as [|k]; cbn [map vmul map2 nth]; numR; [ring|].
      apply IH; lia. }
    rewrite E.
    apply is_derive_cplus. apply is_derive_cplus.
    apply (is_derive_ext (fun t => 0 + nth k (sust_row (sp_sus q) n i) 0 * (psi (sp_eff q) t - psi (sp_eff q) (nth k r 0)))); [intros; simpl; ring|].
    apply is_derive_affine_of. exact D.
Qed.

Lemma sdev_cons_exact q n bnd (r : list R) c : length r = n -> smooth_at (sp_eff q) r ->
  In c (sdev_cons q n bnd) -> jac_exact c r.
Proof.
  intros Hn Hsm Hin. unfold sdev_cons in Hin.
  apply in_app_or in Hin. destruct Hin as [Hin|Hin].
  - apply in_flat_map in Hin. destruct Hin as [i [_ Hc]].
    pose proof (s_soc_grad q n r i Hn Hsm) as G.
    destruct (grad_at_shift_const _ _ r (sp_capacity q) G) as [_ G2].
    destruct Hc as [<-|[<-|[]]]; unfold jac_exact; cbn [c_jac c_fun]; numR; assumption.
  - apply in_app_or in Hin. destruct Hin as [Hin|Hin].
    { destruct (sp_clip_d q); [|destruct Hin]. apply in_map_iff in Hin. destruct Hin as [i [<- _]]. exact I. }
    apply in_app_or in Hin. destruct Hin as [Hin|Hin].
    { destruct (sp_clip_c q); [|destruct Hin]. apply in_map_iff in Hin. destruct Hin as [i [<- _]]. exact I. }
    destruct Hin as [<-|[]]. unfold jac_exact; cbn [c_jac c_fun]. numR.
    pose proof (s_soc_grad q n r (n - 1) Hn Hsm) as G.
    destruct (grad_at_shift_const _ _ r (sp_capacity q * sp_reserve q) G) as [G1 _]. exact G1.
Qed.

(* ---------------- user constraints of an ADevice (affine ones) ---------------- *)
Lemma ucon_exact (u : ucon R) x : length (u_w u) = length x -> jac_exact (ucon_con u) x.
Proof.
  intros HL. unfold jac_exact, ucon_con; cbn [c_jac c_fun]. destruct (u_hasjac u); [|exact I].
  pose proof (grad_dot_l (u_w u) x HL) as [L D]. split; auto. intros k Hk. numR.
  apply is_derive_cplus_r. apply D; auto.
Qed.

(* ---------------- every constraint of every atomic device ---------------- *)
Definition leaf_smooth (d : leafdev R) (x : list R) : Prop :=
  match ld_kind d with
  | KS q => smooth_at (sp_eff q) x
  | KA _ ucs => List.Forall (fun u => length (u_w u) = length x) ucs
  | _ => True
  end.

Lemma leaf_cons_exact (d : leafdev R) x c : length x = ld_n d -> leaf_smooth d x -> In c (leaf_cons d) -> jac_exact c x.
Proof.
  intros Hx Hsm Hin. unfold leaf_cons in Hin. apply in_app_or in Hin. destruct Hin as [Hin|Hin].
  - eapply cb_cons_exact; eauto.
  - unfold leaf_smooth in Hsm. destruct (ld_kind d); try (destruct Hin; fail).
    + eapply sdev_cons_exact; eauto.
    + apply in_map_iff in Hin. destruct Hin as [u [<- Hu]]. apply ucon_exact.
      rewrite List.Forall_forall in Hsm. now apply Hsm.
Qed.
