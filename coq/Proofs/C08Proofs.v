(* C08: cost is quasi-linear in price; price broadcasting is consistent.
   Part 1 (this section): every atomic class. Part 2: trees and the multi-flow adaptor (Model/Tree.v). *)
From Coq Require Import ZArith Reals List Bool Arith Lia Lra.
From DK Require Import Num NumR Vec.
From DK.Gen Require Import Kernels.
From DK.Model Require Import Leaf Fn Dev.
From DK.Proofs Require Import VecFacts RVec.
Import ListNotations.
Local Open Scope R_scope.

(* ---------------------------------------------------------------------------------------------- *)
(* list facts over R                                                                               *)
(* ---------------------------------------------------------------------------------------------- *)
Lemma zeros_S n : zeros (A:=R) (S n) = 0 :: zeros n.
Proof. reflexivity. Qed.
Lemma zeros_length n : length (zeros (A:=R) n) = n.
Proof. apply repeat_length. Qed.
Lemma nth_zeros k n : nth k (zeros (A:=R) n) 0 = 0.
Proof.
  revert k; induction n as [|n IH]; intros [|k]; try reflexivity. rewrite zeros_S. simpl. apply IH.
Qed.
Lemma dot_nil_r s : dot (A:=R) s [] = 0.
Proof. destruct s; reflexivity. Qed.
Lemma dot_zeros_r s n : dot (A:=R) s (zeros n) = 0.
Proof.
  revert n; induction s as [|x s IH]; intros [|n]; try reflexivity.
  rewrite zeros_S, dot_cons, IH. lra.
Qed.

Lemma dot_cons_skipn x s p k : dot (A:=R) (x :: s) (skipn k p) = x * nth k p 0 + dot s (skipn (S k) p).
Proof.
  revert k; induction p as [|y p IH]; intros k.
  - rewrite !skipn_nil. rewrite dot_nil_r. destruct k; simpl; rewrite ?dot_nil_r; unfold dot; simpl; lra.
  - destruct k as [|k].
    + simpl skipn. rewrite dot_cons. reflexivity.
    + change (skipn (S k) (y :: p)) with (skipn k p). change (skipn (S (S k)) (y :: p)) with (skipn (S k) p).
      change (nth (S k) (y :: p) 0) with (nth k p 0). apply IH.
Qed.

(* a separable sum whose k-th term carries x_k * p_k splits off <s,p> *)
Lemma price_sepsum_from (g : nat -> R -> R) s p k :
  vsum (map (fun '(i, x) => x * nth i p 0 + g i x) (combine (seq k (length s)) s))
  = vsum (map (fun '(i, x) => g i x) (combine (seq k (length s)) s)) + dot s (skipn k p).
Proof.
  revert k; induction s as [|x s IH]; intros k.
  - cbn [length seq combine map]. rewrite vsum_nil, dot_nil_l. lra.
  - cbn [length seq combine map]. rewrite !vsum_cons. rewrite IH. rewrite dot_cons_skipn. lra.
Qed.
Lemma price_sepsum (g : nat -> R -> R) s p :
  vsum (map (fun '(i, x) => x * nth i p 0 + g i x) (idx s))
  = vsum (map (fun '(i, x) => g i x) (idx s)) + dot s p.
Proof. unfold idx. rewrite price_sepsum_from. reflexivity. Qed.

Lemma vadd_cons a D y p : vadd (A:=R) (a :: D) (y :: p) = (a + y) :: vadd D p.
Proof. reflexivity. Qed.
Lemma vmul_cons a D y p : vmul (A:=R) (a :: D) (y :: p) = (a * y) :: vmul D p.
Proof. reflexivity. Qed.
Lemma ones_S n : ones (A:=R) (S n) = 1 :: ones n.
Proof. reflexivity. Qed.
Lemma vadd_vadd_zeros D p : vadd (A:=R) (vadd D (zeros (length p))) p = vadd D p.
Proof.
  revert p; induction D as [|a D IH]; intros [|y p]; try reflexivity.
  cbn [length]. rewrite zeros_S, !vadd_cons, IH. f_equal. lra.
Qed.
Lemma vadd_zeros_l p : vadd (A:=R) (zeros (length p)) p = p.
Proof.
  induction p as [|y p IH]; [reflexivity|]. cbn [length]. rewrite zeros_S, vadd_cons, IH. f_equal. lra.
Qed.
Lemma vmul_ones p : vmul (A:=R) p (ones (length p)) = p.
Proof.
  induction p as [|y p IH]; [reflexivity|]. cbn [length]. rewrite ones_S, vmul_cons, IH. f_equal. lra.
Qed.
Lemma vmul_zeros_ones n : vmul (A:=R) (zeros n) (ones n) = zeros n.
Proof.
  induction n as [|n IH]; [reflexivity|]. rewrite ones_S, zeros_S, vmul_cons, IH. f_equal. lra.
Qed.

Lemma list_eq_nth (l m : list R) :
  length l = length m -> (forall k, (k < length l)%nat -> nth k l 0 = nth k m 0) -> l = m.
Proof. intros HL Hn. apply (nth_ext l m 0 0); auto. Qed.

(* a slot-wise map whose k-th entry is h k x_k p_k with h affine (slope 1) in the price *)
Lemma map_idx_price (h : nat -> R -> R -> R) s p : length p = length s ->
  (forall i x q, h i x q = h i x 0 + q) ->
  map (fun '(i, x) => h i x (nth i p 0)) (idx s)
  = vadd (map (fun '(i, x) => h i x (nth i (zeros (length s)) 0)) (idx s)) p.
Proof.
  intros HL Hh. apply list_eq_nth.
  - unfold vadd. rewrite map2_length, !map_idx_length. lia.
  - intros k Hk. rewrite map_idx_length in Hk.
    rewrite nth_vadd by (rewrite ?map_idx_length; lia).
    rewrite (nth_map_idx (fun i x => h i x (nth i p 0))) by auto.
    rewrite (nth_map_idx (fun i x => h i x (nth i (zeros (length s)) 0))) by auto.
    rewrite nth_zeros. apply Hh.
Qed.

Lemma nth_map_seq0 {B} (f : nat -> B) n k d : (k < n)%nat -> nth k (map f (seq 0 n)) d = f k.
Proof.
  intros Hk. rewrite (nth_indep _ d (f 0%nat)) by (rewrite map_length, seq_length; lia).
  rewrite map_nth. now rewrite seq_nth by lia.
Qed.
Lemma map_seq_price (h : nat -> R -> R) n p : length p = n ->
  (forall i q, h i q = h i 0 + q) ->
  map (fun k => h k (nth k p 0)) (seq 0 n) = vadd (map (fun k => h k (nth k (zeros n) 0)) (seq 0 n)) p.
Proof.
  intros HL Hh. apply list_eq_nth.
  - unfold vadd. rewrite map2_length, !map_length, seq_length. lia.
  - intros k Hk. rewrite map_length, seq_length in Hk.
    rewrite nth_vadd by (rewrite ?map_length, ?seq_length; lia).
    rewrite (nth_map_seq0 (fun k => h k (nth k p 0))) by auto.
    rewrite (nth_map_seq0 (fun k => h k (nth k (zeros n) 0))) by auto.
    rewrite nth_zeros. apply Hh.
Qed.

(* ---------------------------------------------------------------------------------------------- *)
(* atomic devices                                                                                  *)
(* ---------------------------------------------------------------------------------------------- *)
Definition zero_price (s : list R) : list R := zeros (length s).

Lemma leaf_cost_quasilinear (d : leafdev R) s p : length p = length s ->
  leaf_cost d s p = leaf_cost d s (zero_price s) + dot s p.
Proof.
  intros _. unfold zero_price. destruct d as [n b cb k]. unfold leaf_cost. cbn [ld_kind ld_cb ld_bounds ld_n].
  destruct k as [| |a b0|pl ph|a b0 c|pl ph|g|q|q|f ucs].
  - unfold dev_cost. rewrite dot_zeros_r. lra.
  - unfold dev_cost. rewrite dot_zeros_r. lra.
  - unfold cdev_cost. numR. rewrite dot_zeros_r. lra.
  - unfold cdev2_cost. numR. rewrite dot_zeros_r. lra.
  - unfold idev_cost. numR. rewrite dot_zeros_r. lra.
  - unfold idev2_cost. numR. rewrite dot_zeros_r. lra.
  - unfold gdev_cost. numR.
    rewrite (price_sepsum (fun i x => horner (gpoly g i) (- x)) s p).
    rewrite (price_sepsum (fun i x => horner (gpoly g i) (- x)) s (zeros (length s))).
    rewrite dot_zeros_r. lra.
  - unfold sdev_cost. numR. rewrite dot_zeros_r. lra.
  - unfold tdev_cost. numR. rewrite dot_zeros_r. lra.
  - numR. rewrite dot_zeros_r. lra.
Qed.

Lemma leaf_deriv_quasilinear (d : leafdev R) s p : ld_n d = length s -> length p = length s ->
  leaf_deriv d s p = vadd (leaf_deriv d s (zero_price s)) p.
Proof.
  intros Hn HL. unfold zero_price. destruct d as [n b cb k]. cbn [ld_n] in Hn. subst n.
  unfold leaf_deriv. cbn [ld_kind ld_cb ld_bounds ld_n].
  destruct k as [| |a b0|pl ph|a b0 c|pl ph|g|q|q|f ucs].
  - unfold dev_deriv. rewrite <- HL. rewrite vmul_ones, vmul_zeros_ones, vadd_zeros_l. reflexivity.
  - unfold dev_deriv. rewrite <- HL. rewrite vmul_ones, vmul_zeros_ones, vadd_zeros_l. reflexivity.
  - unfold cdev_deriv. rewrite <- HL. now rewrite vadd_vadd_zeros.
  - unfold cdev2_deriv. rewrite <- HL. now rewrite vadd_vadd_zeros.
  - unfold idev_deriv. rewrite <- HL. now rewrite vadd_vadd_zeros.
  - unfold idev2_deriv. rewrite <- HL. now rewrite vadd_vadd_zeros.
  - unfold gdev_deriv. numR.
    apply (map_idx_price (fun i x q => q - horner (pderiv (gpoly g i)) (- x)) s p HL).
    intros i x q0. lra.
  - unfold sdev_deriv. numR.
    apply (map_idx_price (fun k x q0 =>
      2 * sp_c1 q * x - sp_c2 q * nbr s k
      + vsum (map (fun '(i, m) => 2 * sp_c3 q * m * nth k (sust_row (sp_sus q) (length s) i) 0 * effof (sp_eff q) x)
                  (idx (sdev_short q s))) + q0) s p HL).
    intros i x q0. lra.
  - unfold tdev_deriv. numR.
    apply (map_seq_price (fun k q0 =>
      vsum (map (fun '(i, d) => nth k (sust_row (tp_sus q) (length s) i) 0 * d) (idx (tdev_dt q s)))
      * (if negb (Rleb 0 (nth k s 0)) then 1 / tp_eff q else tp_eff q) + q0) (length s) p HL).
    intros i q0. lra.
  - rewrite <- HL. now rewrite vadd_vadd_zeros.
Qed.

(* entry-wise reading *)
Lemma leaf_deriv_quasilinear_nth (d : leafdev R) s p k : ld_n d = length s -> length p = length s ->
  length (leaf_deriv d s (zero_price s)) = length s -> (k < length s)%nat ->
  nth k (leaf_deriv d s p) 0 = nth k (leaf_deriv d s (zero_price s)) 0 + nth k p 0.
Proof.
  intros Hn HL HD Hk. rewrite (leaf_deriv_quasilinear d s p Hn HL). apply nth_vadd; lia.
Qed.

(* ---------------------------------------------------------------------------------------------- *)
(* Part 2: trees of any depth / fan-out and the multi-flow adaptor (Model/Tree.v)                  *)
(* ---------------------------------------------------------------------------------------------- *)
From DK.Model Require Import Tree.

Section ListAux.
  Context {B : Type}.
  Lemma firstn_plus (a b : nat) (l : list B) : firstn (a + b) l = firstn a l ++ firstn b (skipn a l).
  Proof.
    revert l; induction a as [|a IH]; intros [|x l]; cbn [Nat.add firstn skipn app]; try reflexivity.
    - now rewrite firstn_nil.
    - f_equal. apply IH.
  Qed.
  Lemma skipn_plus (a b : nat) (l : list B) : skipn a (skipn b l) = skipn (b + a) l.
  Proof.
    revert l; induction b as [|b IH]; intros [|x l]; cbn [Nat.add skipn]; try reflexivity.
    - now rewrite !skipn_nil.
    - apply IH.
  Qed.
  Lemma rslice_split (o r1 r2 : nat) (M : list B) : rslice o (r1 + r2) M = rslice o r1 M ++ rslice (o + r1) r2 M.
  Proof. unfold rslice. rewrite firstn_plus, skipn_plus. reflexivity. Qed.
  Lemma rslice_length (o r : nat) (M : list B) : (o + r <= length M)%nat -> length (rslice o r M) = r.
  Proof. intros Hle. unfold rslice. rewrite firstn_length, skipn_length. lia. Qed.
  Lemma rslice_all (M : list B) : rslice 0 (length M) M = M.
  Proof. unfold rslice. cbn [skipn]. apply firstn_all. Qed.
  Lemma Forall_firstn (Q : B -> Prop) k (l : list B) : List.Forall Q l -> List.Forall Q (firstn k l).
  Proof.
    revert l; induction k as [|k IH]; intros l Hl; [constructor|].
    destruct Hl as [|x l Hx Hl]; [constructor|]. cbn [firstn]. constructor; auto.
  Qed.
  Lemma Forall_skipn (Q : B -> Prop) k (l : list B) : List.Forall Q l -> List.Forall Q (skipn k l).
  Proof.
    revert l; induction k as [|k IH]; intros l Hl; [exact Hl|].
    destruct Hl as [|x l Hx Hl]; [constructor|]. cbn [skipn]. auto.
  Qed.
  Lemma Forall_rslice (Q : B -> Prop) o r (l : list B) : List.Forall Q l -> List.Forall Q (rslice o r l).
  Proof. intros Hl. unfold rslice. apply Forall_firstn, Forall_skipn, Hl. Qed.
  Lemma skipn_repeat (x : B) k m : skipn k (repeat x m) = repeat x (m - k).
  Proof.
    revert m; induction k as [|k IH]; intros [|m]; cbn [skipn repeat Nat.sub]; try reflexivity. apply IH.
  Qed.
  Lemma firstn_repeat (x : B) k m : (k <= m)%nat -> firstn k (repeat x m) = repeat x k.
  Proof.
    revert m; induction k as [|k IH]; intros [|m] Hle; cbn [firstn repeat]; try reflexivity; try lia.
    f_equal. apply IH. lia.
  Qed.
  Lemma rslice_repeat (x : B) o r m : (o + r <= m)%nat -> rslice o r (repeat x m) = repeat x r.
  Proof. intros Hle. unfold rslice. rewrite skipn_repeat. apply firstn_repeat. lia. Qed.
  Lemma map2_app {C D} (f : B -> C -> D) l1 l2 m1 m2 : length l1 = length m1 ->
    map2 f (l1 ++ l2) (m1 ++ m2) = map2 f l1 m1 ++ map2 f l2 m2.
  Proof.
    revert m1; induction l1 as [|x l1 IH]; intros [|y m1] HL; cbn [length] in HL; try discriminate; [reflexivity|].
    cbn [app map2]. f_equal. apply IH. lia.
  Qed.
End ListAux.

(* matrices: R rows of length n *)
Definition mat (Rr n : nat) (M : list (list R)) : Prop := length M = Rr /\ List.Forall (fun r => length r = n) M.
Definition mdot (S P : list (list R)) : R := vsum (map2 dot S P).     (* sum(S * P) *)
Definition mzero (Rr n : nat) : list (list R) := mconst Rr n 0.          (* the zero price of that shape *)

Lemma mat_rslice Rr n M o r : mat Rr n M -> (o + r <= Rr)%nat -> mat r n (rslice o r M).
Proof. intros [HL HF] Hle. split; [apply rslice_length; lia|apply Forall_rslice, HF]. Qed.
Lemma mat_mzero Rr n : mat Rr n (mzero Rr n).
Proof.
  split; [apply repeat_length|]. unfold mzero, mconst. induction Rr as [|Rr IH]; cbn [repeat]; constructor; auto.
  apply repeat_length.
Qed.
Lemma rslice_mzero Rr n o r : (o + r <= Rr)%nat -> rslice o r (mzero Rr n) = mzero r n.
Proof. intros. unfold mzero, mconst. now apply rslice_repeat. Qed.
Lemma mat_length Rr n M : mat Rr n M -> length M = Rr. Proof. now intros [? _]. Qed.

Lemma mdot_nil : mdot [] [] = 0. Proof. reflexivity. Qed.
Lemma mdot_cons r S q P : mdot (r :: S) (q :: P) = dot r q + mdot S P. Proof. reflexivity. Qed.
Lemma mdot_app S1 S2 P1 P2 : length S1 = length P1 -> mdot (S1 ++ S2) (P1 ++ P2) = mdot S1 P1 + mdot S2 P2.
Proof. intros HL. unfold mdot. rewrite map2_app by auto. apply vsum_app. Qed.
Lemma mzero_S Rr n : mzero (S Rr) n = zeros n :: mzero Rr n. Proof. reflexivity. Qed.
Lemma mdot_mzero S Rr n : mdot S (mzero Rr n) = 0.
Proof.
  revert Rr; induction S as [|r S IH]; intros [|Rr]; try reflexivity.
  rewrite mzero_S, mdot_cons, IH, dot_zeros_r. lra.
Qed.
Lemma dot_app r1 r2 q1 q2 : length r1 = length q1 -> dot (A:=R) (r1 ++ r2) (q1 ++ q2) = dot r1 q1 + dot r2 q2.
Proof. intros HL. unfold dot, vmul. rewrite map2_app by auto. apply vsum_app. Qed.
Lemma dot_concat Rr n S P : mat Rr n S -> mat Rr n P -> dot (concat S) (concat P) = mdot S P.
Proof.
  revert Rr P; induction S as [|r S IH]; intros Rr [|q P] [HLS HFS] [HLP HFP]; cbn [length] in *; subst; try discriminate.
  - reflexivity.
  - inversion HFS as [|? ? Hr HFS']; inversion HFP as [|? ? Hq HFP']; subst.
    cbn [concat]. rewrite dot_app by lia. rewrite mdot_cons. f_equal.
    apply (IH (length S) P); split; auto; lia.
Qed.
Lemma zeros_app a b : zeros (A:=R) (a + b) = zeros a ++ zeros b.
Proof. unfold zeros, vconst. apply repeat_app. Qed.
Lemma concat_mzero Rr n S : mat Rr n S -> concat (mzero Rr n) = zeros (length (concat S)).
Proof.
  revert Rr; induction S as [|r S IH]; intros Rr [HL HF]; cbn [length] in HL; subst.
  - reflexivity.
  - inversion HF as [|? ? Hr HF']; subst. rewrite mzero_S. cbn [concat]. rewrite app_length, zeros_app. f_equal.
    apply IH. split; auto.
Qed.
Lemma concat_length_mat Rr n S P : mat Rr n S -> mat Rr n P -> length (concat P) = length (concat S).
Proof.
  revert Rr P; induction S as [|r S IH]; intros Rr [|q P] [HLS HFS] [HLP HFP]; cbn [length] in *; subst; try discriminate; auto.
  inversion HFS as [|? ? Hr HFS']; inversion HFP as [|? ? Hq HFP']; subst. cbn [concat]. rewrite !app_length.
  rewrite (IH (length S) P); try split; auto; lia.
Qed.

Section TreeQuasi.
  Variable L : Type.
  Variable ops : leafops R L.
  (* what the theorem needs of the leaves: price enters their cost as <s,p> and their marginal cost as +p *)
  Hypothesis leaf_cost_q : forall l s p, length p = length s ->
    l_cost _ ops l s p = l_cost _ ops l s (zeros (length s)) + dot s p.
  Hypothesis leaf_deriv_q : forall l s p, l_n _ ops l = length s -> length p = length s ->
    l_deriv _ ops l s p = vadd (l_deriv _ ops l s (zeros (length s))) p.

  (* every device under d has horizon n (DeviceSet.__init__ rejects anything else) *)
  Inductive uniform (n : nat) : gdev R L -> Prop :=
  | U_leaf i l : l_rows _ ops l = 1%nat -> l_n _ ops l = n -> uniform n (Leaf i l)
  | U_set i ks sb : List.Forall (uniform n) ks -> uniform n (DSet i ks sb)
  | U_sub i ks sb lb e sg rm : List.Forall (uniform n) ks -> uniform n (SubBal i ks sb lb e sg rm)
  | U_mf i l fl : l_n _ ops l = n -> uniform n (MF i l fl)
  | U_tr i l fl r e : l_n _ ops l = n -> uniform n (TwoRatio i l fl r e).

  Definition cost_ok (n : nat) (d : gdev R L) : Prop := forall S P, mat (rows ops d) n S -> mat (rows ops d) n P ->
    gcost ops d S P = gcost ops d S (mzero (rows ops d) n) + mdot S P.

  Lemma kids_cost_q n ks : List.Forall (cost_ok n) ks -> forall o S P,
    (o + kids_rows ops ks <= length S)%nat -> mat (length S) n S -> mat (length S) n P ->
    kids_cost ops ks o S P = kids_cost ops ks o S (mzero (length S) n)
                             + mdot (rslice o (kids_rows ops ks) S) (rslice o (kids_rows ops ks) P).
  Proof.
    induction 1 as [|k ks Hk Hks IH]; intros o S P Hle HS HP; cbn [kids_cost kids_rows] in *.
    - unfold rslice. cbn [firstn]. rewrite mdot_nil. numR. lra.
    - numR. rewrite (Hk (rslice o (rows ops k) S) (rslice o (rows ops k) P))
        by (eapply mat_rslice; eauto; lia).
      rewrite (IH (o + rows ops k)%nat S P) by (auto; lia).
      rewrite rslice_mzero by lia.
      rewrite rslice_split, (rslice_split o (rows ops k) (kids_rows ops ks) P).
      rewrite mdot_app by (rewrite !rslice_length; auto; destruct HP as [HLP _]; lia).
      lra.
  Qed.

  Lemma set_cost_q n ks S P : List.Forall (cost_ok n) ks -> mat (kids_rows ops ks) n S -> mat (kids_rows ops ks) n P ->
    kids_cost ops ks 0 S P = kids_cost ops ks 0 S (mzero (kids_rows ops ks) n) + mdot S P.
  Proof.
    intros Hks HS HP. pose proof (mat_length _ _ _ HS) as HLS. pose proof (mat_length _ _ _ HP) as HLP.
    rewrite <- HLS in HS, HP.
    rewrite (kids_cost_q n ks Hks 0 S P) by (auto; lia).
    rewrite HLS at 1. f_equal.
    rewrite <- HLS at 1. rewrite rslice_all. rewrite <- HLP. rewrite rslice_all. reflexivity.
  Qed.

  Lemma uniform_kids n ks (Pr : gdev R L -> Prop) :
    List.Forall (fun k => uniform n k -> Pr k) ks -> List.Forall (uniform n) ks -> List.Forall Pr ks.
  Proof. induction 1 as [|k ks Hk Hks IH]; intros HU; inversion HU; subst; constructor; auto. Qed.

  Theorem tree_cost_quasilinear n d : uniform n d -> cost_ok n d.
  Proof.
    induction d as [i l|i ks sb IHks|i ks sb lb e sg rm IHks|i l fl|i l fl r e] using gdev_induction; intros HU.
    - intros S P HS HP. cbn [gcost rows] in *.
      rewrite leaf_cost_q by (eapply concat_length_mat; eauto).
      rewrite (dot_concat (l_rows _ ops l) n S P) by auto. now rewrite (concat_mzero (l_rows _ ops l) n S).
    - inversion HU as [|? ? ? HUk| | |]; subst. intros S P HS HP.
      rewrite !gcost_kids. rewrite rows_kids in *. apply set_cost_q; auto. eapply uniform_kids; eauto.
    - inversion HU as [| |? ? ? ? ? ? ? HUk| |]; subst. intros S P HS HP.
      rewrite !gcost_kids_sub. rewrite rows_kids_sub in *. apply set_cost_q; auto. eapply uniform_kids; eauto.
    - intros S P HS HP. cbn [gcost rows]. unfold mf_cost.
      change (vsum (map2 dot S P)) with (mdot S P).
      change (vsum (map2 dot S (mzero (length fl) n))) with (mdot S (mzero (length fl) n)).
      rewrite mdot_mzero. numR. lra.
    - intros S P HS HP. cbn [gcost rows]. unfold mf_cost.
      change (vsum (map2 dot S P)) with (mdot S P).
      change (vsum (map2 dot S (mzero (length fl) n))) with (mdot S (mzero (length fl) n)).
      rewrite mdot_mzero. numR. lra.
  Qed.

  (* ---- marginal cost -------------------------------------------------------------------------- *)
  Lemma kids_deriv_length ks : List.Forall (fun k => forall S P, length P = rows ops k -> length (gderiv ops k S P) = rows ops k) ks ->
    forall o S P, (o + kids_rows ops ks <= length P)%nat -> length (kids_deriv ops ks o S P) = kids_rows ops ks.
  Proof.
    induction 1 as [|k ks Hk Hks IH]; intros o S P Hle; cbn [kids_deriv kids_rows] in *; [reflexivity|].
    rewrite app_length. rewrite Hk by (apply rslice_length; lia). rewrite IH by lia. reflexivity.
  Qed.
  Lemma gderiv_length n d : uniform n d -> forall S P, length P = rows ops d -> length (gderiv ops d S P) = rows ops d.
  Proof.
    induction d as [i l|i ks sb IHks|i ks sb lb e sg rm IHks|i l fl|i l fl r e] using gdev_induction; intros HU S P HL.
    - inversion HU; subst. cbn [gderiv rows length]. congruence.
    - inversion HU as [|? ? ? HUk| | |]; subst.
      rewrite gderiv_kids. rewrite rows_kids in *. apply kids_deriv_length; [|lia].
      eapply (uniform_kids n ks (fun k => forall S P, length P = rows ops k -> length (gderiv ops k S P) = rows ops k)); eauto.
    - inversion HU as [| |? ? ? ? ? ? ? HUk| |]; subst.
      rewrite gderiv_kids_sub. rewrite rows_kids_sub in *. apply kids_deriv_length; [|lia].
      eapply (uniform_kids n ks (fun k => forall S P, length P = rows ops k -> length (gderiv ops k S P) = rows ops k)); eauto.
    - cbn [gderiv rows] in *. unfold mf_deriv. rewrite map2_length, repeat_length. lia.
    - cbn [gderiv rows] in *. unfold mf_deriv. rewrite map2_length, repeat_length. lia.
  Qed.

  Definition deriv_ok (n : nat) (d : gdev R L) : Prop := forall S P, mat (rows ops d) n S -> mat (rows ops d) n P ->
    gderiv ops d S P = madd (gderiv ops d S (mzero (rows ops d) n)) P.

  Lemma kids_deriv_q n ks : List.Forall (uniform n) ks -> List.Forall (deriv_ok n) ks -> forall o S P,
    (o + kids_rows ops ks <= length S)%nat -> mat (length S) n S -> mat (length S) n P ->
    kids_deriv ops ks o S P = madd (kids_deriv ops ks o S (mzero (length S) n)) (rslice o (kids_rows ops ks) P).
  Proof.
    intros HU; induction 1 as [|k ks Hk Hks IH]; intros o S P Hle HS HP; cbn [kids_deriv kids_rows] in *.
    - reflexivity.
    - inversion HU as [|? ? HUk HUks]; subst. specialize (IH HUks).
      rewrite (Hk (rslice o (rows ops k) S) (rslice o (rows ops k) P)) by (eapply mat_rslice; eauto; lia).
      rewrite (IH (o + rows ops k)%nat S P) by (auto; lia).
      rewrite rslice_mzero by lia.
      rewrite (rslice_split o (rows ops k) (kids_rows ops ks) P).
      unfold madd. rewrite map2_app; [reflexivity|].
      rewrite (gderiv_length n k HUk) by (apply repeat_length).
      rewrite rslice_length; auto. destruct HP as [HLP _]. lia.
  Qed.

  Lemma set_deriv_q n ks S P : List.Forall (uniform n) ks -> List.Forall (deriv_ok n) ks -> mat (kids_rows ops ks) n S -> mat (kids_rows ops ks) n P ->
    kids_deriv ops ks 0 S P = madd (kids_deriv ops ks 0 S (mzero (kids_rows ops ks) n)) P.
  Proof.
    intros HUs Hks HS HP. pose proof (mat_length _ _ _ HS) as HLS. pose proof (mat_length _ _ _ HP) as HLP.
    rewrite <- HLS in HS, HP.
    rewrite (kids_deriv_q n ks HUs Hks 0 S P) by (auto; lia).
    rewrite HLS at 1. f_equal. rewrite <- HLP. apply rslice_all.
  Qed.

  Lemma mf_rows_q D k n P : List.Forall (fun q => length q = n) P ->
    map2 vadd (map2 vadd (repeat D k) (mzero k n)) P = map2 (vadd (A:=R)) (repeat D k) P.
  Proof.
    revert P; induction k as [|k IH]; intros [|q P] HF; try reflexivity.
    inversion HF as [|? ? Hq HF']; subst. rewrite mzero_S. cbn [repeat map2]. rewrite IH by auto.
    f_equal. apply vadd_vadd_zeros.
  Qed.

  Theorem tree_deriv_quasilinear n d : uniform n d -> deriv_ok n d.
  Proof.
    induction d as [i l|i ks sb IHks|i ks sb lb e sg rm IHks|i l fl|i l fl r e] using gdev_induction; intros HU.
    - inversion HU as [? ? Hrows Hlen| | | |]; subst. intros S P [HLS HFS] [HLP HFP]. cbn [gderiv rows] in *.
      rewrite Hrows in *.
      destruct S as [|s [|? ?]]; try discriminate. destruct P as [|p [|? ?]]; try discriminate.
      inversion HFS as [|? ? Hs1 Hs2]; inversion HFP as [|? ? Hp1 Hp2]; subst. cbn [concat]. rewrite !app_nil_r.
      rewrite leaf_deriv_q by congruence.
      unfold mzero, mconst. cbn [repeat concat madd map2]. rewrite app_nil_r. rewrite <- Hs1. reflexivity.
    - inversion HU as [|? ? ? HUk| | |]; subst. intros S P HS HP.
      rewrite !gderiv_kids. rewrite rows_kids in *. apply set_deriv_q; auto. eapply uniform_kids; eauto.
    - inversion HU as [| |? ? ? ? ? ? ? HUk| |]; subst. intros S P HS HP.
      rewrite !gderiv_kids_sub. rewrite rows_kids_sub in *. apply set_deriv_q; auto. eapply uniform_kids; eauto.
    - inversion HU; subst. intros S P HS [HLP HFP]. cbn [gderiv rows]. unfold mf_deriv, madd.
      now rewrite mf_rows_q.
    - inversion HU; subst. intros S P HS [HLP HFP]. cbn [gderiv rows]. unfold mf_deriv, madd.
      now rewrite mf_rows_q.
  Qed.
End TreeQuasi.

(* ---------------------------------------------------------------------------------------------- *)
(* Part 3: the standard instance (leaves of Model/Dev.v), flat entry points, broadcasting            *)
(* ---------------------------------------------------------------------------------------------- *)
From DK.Model Require Import Price.

Lemma mdot_price_term S P : mdot S P = price_term S P. Proof. reflexivity. Qed.
Lemma mzero_zero_prices Rr n : mzero Rr n = zero_prices Rr n. Proof. reflexivity. Qed.

Definition uniform_tree (n : nat) (d : dev R) : Prop := uniform (leafdev R) std_ops n d.

Theorem std_tree_cost n (d : dev R) S P : uniform_tree n d -> mat (tree_rows d) n S -> mat (tree_rows d) n P ->
  tree_cost d S P = quasi_cost (tree_cost d S (zero_prices (tree_rows d) n)) S P.
Proof.
  intros HU HS HP. unfold quasi_cost, tree_cost. numR. rewrite <- mdot_price_term, <- mzero_zero_prices.
  apply (tree_cost_quasilinear (leafdev R) std_ops); auto.
  intros l s p HL. apply (leaf_cost_quasilinear l s p HL).
Qed.

Theorem std_tree_deriv n (d : dev R) S P : uniform_tree n d -> mat (tree_rows d) n S -> mat (tree_rows d) n P ->
  tree_deriv d S P = quasi_deriv (tree_deriv d S (zero_prices (tree_rows d) n)) P.
Proof.
  intros HU HS HP. unfold quasi_deriv, tree_deriv. rewrite <- mzero_zero_prices.
  apply (tree_deriv_quasilinear (leafdev R) std_ops); auto.
  intros l s p Hn HL. apply (leaf_deriv_quasilinear l s p Hn HL).
Qed.

(* multi-flow adaptor on its own (any wrapped atomic device, any number of conduits) *)
Theorem mf_quasilinear n i (l : leafdev R) fl S P : ld_n l = n -> mat (length fl) n S -> mat (length fl) n P ->
  tree_cost (MF i l fl) S P = quasi_cost (leaf_cost l (colsum n S) (zeros n)) S P /\
  tree_deriv (MF i l fl) S P = quasi_deriv (repeat (leaf_deriv l (colsum n S) (zeros n)) (length fl)) P.
Proof.
  intros Hn HS HP. subst n. split.
  - reflexivity.
  - unfold tree_deriv, quasi_deriv. cbn [gderiv]. reflexivity.
Qed.

(* ---- broadcasting: p * np.ones(shape) ---- *)
Section Broadcast.
  Context {A : Type} `{Num A}.
  Lemma bc_scalar_vector Rr n (c : A) : price_rows Rr n (PScalar c) = price_rows Rr n (PVector (repeat c n)).
  Proof. reflexivity. Qed.
  Lemma bc_scalar_matrix Rr n (c : A) : price_rows Rr n (PScalar c) = price_rows Rr n (PMatrix (repeat (repeat c n) Rr)).
  Proof. reflexivity. Qed.
  Lemma bc_vector_matrix Rr n (l : list A) : price_rows Rr n (PVector l) = price_rows Rr n (PMatrix (repeat l Rr)).
  Proof. reflexivity. Qed.

  Lemma tree_broadcast_scalar (d : dev A) (s : list A) (c : A) :
    let v := PVector (repeat c (tree_len d)) in
    let m := PMatrix (repeat (repeat c (tree_len d)) (tree_rows d)) in
    tree_cost_flat d s (PScalar c) = tree_cost_flat d s v /\ tree_cost_flat d s (PScalar c) = tree_cost_flat d s m /\
    tree_deriv_flat d s (PScalar c) = tree_deriv_flat d s v /\ tree_deriv_flat d s (PScalar c) = tree_deriv_flat d s m.
  Proof. cbn zeta. repeat split; reflexivity. Qed.
  Lemma tree_broadcast_vector (d : dev A) (s l : list A) :
    tree_cost_flat d s (PVector l) = tree_cost_flat d s (PMatrix (repeat l (tree_rows d))) /\
    tree_deriv_flat d s (PVector l) = tree_deriv_flat d s (PMatrix (repeat l (tree_rows d))).
  Proof. split; reflexivity. Qed.
End Broadcast.

(* ---- flat flows and prices of any accepted shape ---- *)
Definition price_ok (Rr n : nat) (p : price R) : Prop :=
  match p with PScalar _ => True | PVector l => length l = n | PMatrix m => mat Rr n m end.

Lemma price_rows_mat Rr n p : price_ok Rr n p -> mat Rr n (price_rows Rr n p).
Proof.
  destruct p as [c|l|m]; cbn [price_ok price_rows]; intros Hp.
  - split; [apply repeat_length|]. induction Rr as [|Rr IH]; cbn [repeat]; constructor; auto. apply repeat_length.
  - split; [apply repeat_length|]. induction Rr as [|Rr IH]; cbn [repeat]; constructor; auto.
  - exact Hp.
Qed.

Lemma chunk_mat n : (0 < n)%nat -> forall Rr (s : list R), length s = (Rr * n)%nat -> mat Rr n (chunk Rr n s).
Proof.
  intros Hn. induction Rr as [|Rr IH]; intros s HL.
  - split; [reflexivity|constructor].
  - cbn [chunk]. destruct s as [|x s'] eqn:Es; [cbn [length] in HL; lia|]. rewrite <- Es in *.
    assert (Hsk : length (skipn n s) = (Rr * n)%nat) by (rewrite skipn_length; lia).
    destruct (IH (skipn n s) Hsk) as [HL' HF'].
    split; [cbn [length]; lia|]. constructor; auto. rewrite firstn_length. lia.
Qed.

Theorem tree_flat_quasilinear n (d : dev R) (s : list R) (p : price R) :
  uniform_tree n d -> tree_len d = n -> (0 < n)%nat -> length s = (tree_rows d * n)%nat -> price_ok (tree_rows d) n p ->
  tree_cost_flat d s p = quasi_cost (tree_cost_flat d s (PScalar 0)) (tree_shaped d s) (tree_prices d p) /\
  tree_deriv_flat d s p = quasi_deriv (tree_deriv_flat d s (PScalar 0)) (tree_prices d p).
Proof.
  intros HU Hlen Hn HL Hp. unfold tree_cost_flat, tree_deriv_flat, tree_prices, prices, tree_shaped, shaped, reshape.
  fold (tree_len d). fold (tree_rows d). rewrite Hlen.
  assert (HS : mat (tree_rows d) n (chunk (tree_rows d) n s)) by (apply chunk_mat; auto).
  assert (HP : mat (tree_rows d) n (price_rows (tree_rows d) n p)) by (apply price_rows_mat; auto).
  split.
  - apply (std_tree_cost n d _ _ HU HS HP).
  - apply (std_tree_deriv n d _ _ HU HS HP).
Qed.

(* Hessians: the model functions take no price, so hess(s,p) = hess(s,p') for all p, p' *)
Lemma hess_price_free (l : leafdev R) (d : dev R) s S p p' P P' :
  leaf_hess_at l s p = leaf_hess_at l s p' /\ tree_hess_at d S P = tree_hess_at d S P'.
Proof. split; reflexivity. Qed.

(* ---- non-vacuity: a two-level tree (set of a CDevice leaf and a 2-conduit adaptor over an IDevice2) ---- *)
From Coq Require Import String.
Definition ex_leaf : leafdev R := Build_leafdev 2 [(0, 2); (0, 2)] [] (KC (-1) 0).
Definition ex_wrapped : leafdev R := Build_leafdev 2 [(0, 2); (0, 3)] [] (KI2 (PS (-2)) (PS (-1))).
Definition ex_tree : dev R := DSet "top"%string [Leaf "c"%string ex_leaf; MF "w"%string ex_wrapped ["e"%string; "h"%string]] None.
Definition ex_S : list (list R) := [[1; 2]; [1; 0]; [0; 1]].
Definition ex_P : list (list R) := [[3; -1]; [2; 2]; [-1; 0]].

Lemma ex_uniform : uniform_tree 2 ex_tree.
Proof. unfold uniform_tree, ex_tree. constructor. repeat constructor. Qed.
Lemma ex_mats : mat (tree_rows ex_tree) 2 ex_S /\ mat (tree_rows ex_tree) 2 ex_P.
Proof. split; (split; [reflexivity|repeat constructor]). Qed.
Lemma ex_price_term : price_term ex_S ex_P = 3.
Proof. unfold price_term, ex_S, ex_P, dot, vmul, vsum. cbn [map2 fold_right]. numR. lra. Qed.
Lemma ex_instance : tree_cost ex_tree ex_S ex_P = tree_cost ex_tree ex_S (zero_prices 3 2) + 3.
Proof.
  destruct ex_mats as [HS HP]. rewrite (std_tree_cost 2 ex_tree ex_S ex_P ex_uniform HS HP).
  unfold quasi_cost. numR. rewrite ex_price_term. reflexivity.
Qed.
