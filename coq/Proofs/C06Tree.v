(* C06, tree level: re-wrapping a child's constraint into the parent layout keeps "Jacobian = gradient", pads with
   zeros exactly outside the child's rows; the sets' own coupling constraints and the multi-flow adaptor's
   wrapped constraints have exact Jacobians; hence every constraint of every tree (induction on the tree). *)
From Coq Require Import ZArith Reals List Bool Arith Lia Lra.
From Coquelicot Require Import Coquelicot.
From DK Require Import Num NumR Vec.
From DK.Gen Require Import Kernels.
From DK.Model Require Import Leaf Fn Dev Tree.
From DK.Proofs Require Import VecFacts RVec KernelR Calc C15Proofs C01Proofs C06Proofs TreeFacts.
Import ListNotations.
Local Open Scope R_scope.

(* ---- list surgery ---- *)
Lemma skipn_upd {B} (x : list B) a k t :
  skipn a (upd x k t) = if (k <? a)%nat then skipn a x else upd (skipn a x) (k - a) t.
Proof.
  revert x k; induction a as [|a IH]; intros x k.
  - simpl. now rewrite Nat.sub_0_r.
  - destruct x as [|b x].
    + destruct k as [|k]; cbn [upd skipn]; [reflexivity|]. destruct (S k <? S a)%nat; reflexivity.
    + destruct k as [|k]; [reflexivity|]. cbn [upd skipn]. rewrite IH. reflexivity.
Qed.
Lemma firstn_upd {B} (x : list B) b k t :
  firstn b (upd x k t) = if (k <? b)%nat then upd (firstn b x) k t else firstn b x.
Proof.
  revert x k; induction b as [|b IH]; intros x k; [reflexivity|].
  destruct x as [|c x].
  { destruct k as [|k]; cbn [upd firstn]; [reflexivity|]. destruct (S k <? S b)%nat; reflexivity. }
  destruct k as [|k]; [reflexivity|]. cbn [upd firstn]. rewrite IH.
  change (S k <? S b)%nat with (k <? b)%nat. destruct (k <? b)%nat; reflexivity.
Qed.

Lemma nth_firstn_lt {B} (l : list B) b j d : (j < b)%nat -> nth j (firstn b l) d = nth j l d.
Proof.
  revert l j; induction b as [|b IH]; intros l j Hj; [lia|]. destruct l as [|x l]; [destruct j; reflexivity|].
  destruct j as [|j]; [reflexivity|]. cbn [firstn nth]. apply IH. lia.
Qed.
Lemma nth_skipn_add {B} (l : list B) a j d : nth j (skipn a l) d = nth (a + j) l d.
Proof.
  revert l; induction a as [|a IH]; intros l; [reflexivity|]. destruct l as [|x l]; [destruct j; reflexivity|].
  cbn [skipn plus nth]. apply IH.
Qed.

Lemma sub_flat_upd Rw n o r (x : list R) k t : (o + r <= Rw)%nat ->
  sub_flat Rw n o r (upd x k t) =
  if ((o * n <=? k) && (k <? (o + r) * n))%nat then upd (sub_flat Rw n o r x) (k - o * n) t else sub_flat Rw n o r x.
Proof.
  intros Hor. rewrite !sub_flat_flat by auto. rewrite skipn_upd.
  destruct (Nat.ltb_spec k (o * n)) as [Hlt|Hge].
  - replace (o * n <=? k)%nat with false by (symmetry; apply Nat.leb_gt; lia). reflexivity.
  - replace (o * n <=? k)%nat with true by (symmetry; apply Nat.leb_le; lia). rewrite firstn_upd. cbn [andb].
    replace (k <? (o + r) * n)%nat with (k - o * n <? r * n)%nat; [reflexivity|].
    destruct (Nat.ltb_spec (k - o * n) (r * n)), (Nat.ltb_spec k ((o + r) * n)); auto; nia.
Qed.

Lemma nth_sub_flat Rw n o r (x : list R) j : (o + r <= Rw)%nat -> (j < r * n)%nat ->
  nth j (sub_flat Rw n o r x) 0 = nth (o * n + j) x 0.
Proof.
  intros Hor Hj. rewrite sub_flat_flat by auto. rewrite nth_firstn_lt by auto. apply nth_skipn_add.
Qed.
Lemma sub_flat_length Rw n o r (x : list R) : (o + r <= Rw)%nat -> length x = (Rw * n)%nat -> length (sub_flat Rw n o r x) = (r * n)%nat.
Proof. intros Hor Hx. rewrite sub_flat_flat by auto. rewrite firstn_length, skipn_length. nia. Qed.

Lemma nth_zeros n k : nth k (zeros (A:=R) n) 0 = 0.
Proof. unfold zeros, vconst. destruct (lt_dec k n); [now apply repeat_nth|]. apply nth_overflow. rewrite repeat_length. lia. Qed.

Lemma nth_zpad Rw n o r (j : list R) k : length j = (r * n)%nat ->
  nth k (zpad Rw n o r j) 0 = if ((o * n <=? k) && (k <? (o + r) * n))%nat then nth (k - o * n) j 0 else 0.
Proof.
  intros Hj. unfold zpad.
  destruct (Nat.leb_spec (o * n) k) as [Hge|Hlt]; cbn [andb].
  - rewrite app_nth2 by (rewrite zeros_length; lia). rewrite zeros_length.
    destruct (Nat.ltb_spec k ((o + r) * n)) as [Hlt|Hge2].
    + rewrite app_nth1 by nia. reflexivity.
    + rewrite app_nth2 by nia. apply nth_zeros.
  - rewrite app_nth1 by (rewrite zeros_length; lia). apply nth_zeros.
Qed.

(* ---- (1) re-wrapping into the parent layout ---- *)
Lemma rewrap_exact Rw n o r (c : con R) (x : list R) : (o + r <= Rw)%nat -> length x = (Rw * n)%nat ->
  jac_exact c (sub_flat Rw n o r x) -> jac_exact (rewrap Rw n o r c) x.
Proof.
  intros Hor Hx Hc. unfold jac_exact in *. unfold rewrap; cbn [c_jac c_fun].
  destruct (c_jac c) as [J|]; [|exact I].
  destruct Hc as [HL HD]. rewrite sub_flat_length in HL by auto.
  split; [rewrite zpad_length; auto|].
  intros k Hk. rewrite nth_zpad by auto.
  destruct ((o * n <=? k) && (k <? (o + r) * n))%nat eqn:E.
  - apply andb_prop in E. destruct E as [E1 E2]. apply Nat.leb_le in E1. apply Nat.ltb_lt in E2.
    assert (Hk' : (k - o * n < length (sub_flat Rw n o r x))%nat) by (rewrite sub_flat_length by auto; nia).
    specialize (HD (k - o * n)%nat Hk').
    rewrite nth_sub_flat in HD by (auto; nia). replace (o * n + (k - o * n))%nat with k in HD by lia.
    apply (is_derive_ext (fun t => c_fun c (upd (sub_flat Rw n o r x) (k - o * n) t))); [|exact HD].
    intros t. rewrite sub_flat_upd by auto.
    replace ((o * n <=? k) && (k <? (o + r) * n))%nat with true; [reflexivity|].
    symmetry. apply andb_true_intro. split; [apply Nat.leb_le|apply Nat.ltb_lt]; lia.
  - apply (is_derive_ext (fun _ => c_fun c (sub_flat Rw n o r x))).
    + intros t. rewrite sub_flat_upd by auto. now rewrite E.
    + auto_derive; [exact I|ring].
Qed.

(* the padded Jacobian: the child's Jacobian on the child's rows, zero for every other variable *)
Lemma rewrap_jac_entries Rw n o r (c : con R) J (x : list R) k : c_jac c = Some J -> length (J (sub_flat Rw n o r x)) = (r * n)%nat ->
  match c_jac (rewrap Rw n o r c) with
  | Some J' => nth k (J' x) 0 = if ((o * n <=? k) && (k <? (o + r) * n))%nat then nth (k - o * n) (J (sub_flat Rw n o r x)) 0 else 0
  | None => False
  end.
Proof. intros HJ HL. unfold rewrap; cbn [c_jac]. rewrite HJ. now apply nth_zpad. Qed.

(* ---- (2) column sums as dot products ---- *)
Lemma dot_app (l1 l2 m1 m2 : list R) : length l1 = length m1 -> dot (l1 ++ l2) (m1 ++ m2) = dot l1 m1 + dot l2 m2.
Proof.
  revert m1; induction l1 as [|a l1 IH]; intros [|b m1] HL; simpl in HL; try lia.
  - simpl. unfold dot at 2. simpl. ring.
  - cbn [app]. rewrite !dot_cons, IH by lia. ring.
Qed.

Lemma dot_zero_row (c : R) a m : forall b (l : list R), (a < b)%nat ->
  dot l (map (fun j => if Nat.eqb j a then c else 0) (seq b m)) = 0.
Proof.
  induction m as [|m IHm]; intros b l Hb; [destruct l; reflexivity|]. destruct l as [|y l]; [reflexivity|].
  cbn [seq map]. rewrite dot_cons, IHm by lia. destruct (Nat.eqb_spec b a); [lia|ring].
Qed.

Lemma dot_unit_row (l : list R) n i c a : length l = n -> (i < n)%nat ->
  dot l (map (fun j => if Nat.eqb j (a + i) then c else 0) (seq a n)) = c * nth i l 0.
Proof.
  revert l i a; induction n as [|n IH]; intros l i a HL Hi; [lia|].
  destruct l as [|x l]; simpl in HL; [lia|]. cbn [seq map]. rewrite dot_cons.
  destruct i as [|i].
  - rewrite Nat.add_0_r, Nat.eqb_refl. cbn [nth]. rewrite dot_zero_row by lia. ring.
  - replace (a + S i)%nat with (S a + i)%nat by lia. rewrite IH by lia. cbn [nth].
    destruct (Nat.eqb_spec a (S a + i)); [lia|ring].
Qed.

(* concat of Rw rows of length n, row r = w r in column i and 0 elsewhere *)
Definition cjw (n i : nat) (w : nat -> R) (a Rw : nat) : list R :=
  List.concat (map (fun r => map (fun j => if Nat.eqb j i then w r else 0) (seq 0 n)) (seq a Rw)).

Lemma col_jac_cjw Rw n i (v : list R) : col_jac Rw n i v = cjw n i (fun r => nth r v 0) 0 Rw.
Proof. reflexivity. Qed.

Lemma cjw_length n i w a Rw : length (cjw n i w a Rw) = (Rw * n)%nat.
Proof.
  unfold cjw. revert a; induction Rw as [|Rw IH]; intros a; [reflexivity|].
  cbn [seq map List.concat]. rewrite app_length, map_length, seq_length, IH. lia.
Qed.

Lemma dot_cjw n i w : (i < n)%nat -> forall Rw a (s : list R), length s = (Rw * n)%nat ->
  dot s (cjw n i w a Rw) = vsum (map (fun r => w (a + r)%nat * nth (r * n + i) s 0) (seq 0 Rw)).
Proof.
  intros Hi. induction Rw as [|Rw IH]; intros a s Hs.
  - destruct s; [reflexivity|simpl in Hs; lia].
  - unfold cjw. cbn [seq map List.concat]. fold (cjw n i w (S a) Rw).
    rewrite <- (firstn_skipn n s) at 1.
    rewrite dot_app by (rewrite firstn_length, map_length, seq_length; nia).
    pose proof (dot_unit_row (firstn n s) n i (w a) 0 ltac:(rewrite firstn_length; nia) Hi) as E. change (0 + i)%nat with i in E. rewrite E.
    rewrite IH by (rewrite skipn_length; nia).
    rewrite vsum_cons. rewrite Nat.add_0_r. cbn [Nat.mul plus]. rewrite nth_firstn_lt by auto. f_equal.
    rewrite <- seq_shift, map_map. apply vsum_map_ext. intros r _.
    replace (S a + r)%nat with (a + S r)%nat by lia. f_equal. rewrite nth_skipn_add. f_equal. lia.
Qed.

Lemma slot_total_sum n i : (i < n)%nat -> forall Rw (s : list R), length s = (Rw * n)%nat ->
  slot_total Rw n i s = vsum (map (fun r => nth (r * n + i) s 0) (seq 0 Rw)).
Proof.
  intros Hi. unfold slot_total, reshape. induction Rw as [|Rw IH]; intros s Hs; [reflexivity|].
  destruct s as [|x s']; [simpl in Hs; nia|]. set (s := x :: s') in *.
  change (chunk (S Rw) n s) with (firstn n s :: chunk Rw n (skipn n s)).
  cbn [col map]. rewrite vsum_cons. fold (col i (chunk Rw n (skipn n s))).
  rewrite IH by (rewrite skipn_length; nia).
  cbn [seq map]. rewrite vsum_cons. cbn [Nat.mul plus]. rewrite nth_firstn_lt by auto. f_equal.
  rewrite <- seq_shift, map_map. apply vsum_map_ext. intros r _. rewrite nth_skipn_add. f_equal. lia.
Qed.

Lemma slot_total_dot Rw n i (s : list R) : (i < n)%nat -> length s = (Rw * n)%nat ->
  slot_total Rw n i s = dot s (col_jac Rw n i (ones Rw)).
Proof.
  intros Hi Hs. rewrite slot_total_sum, col_jac_cjw, dot_cjw by auto.
  apply vsum_map_ext. intros r Hr. apply in_seq in Hr. unfold ones, vconst. rewrite repeat_nth by lia. cbn [plus]. numR. ring.
Qed.

Lemma col_jac_length Rw n i (v : list R) : length (col_jac Rw n i v) = (Rw * n)%nat.
Proof. rewrite col_jac_cjw. apply cjw_length. Qed.

Lemma sb_slot_cons_exact Rw n sb i (x : list R) c : (i < n)%nat -> length x = (Rw * n)%nat ->
  In c (sb_slot_cons Rw n sb i) -> jac_exact c x.
Proof.
  intros Hi Hx Hin. unfold sb_slot_cons in Hin.
  assert (G : grad_at (fun s => slot_total Rw n i s) (col_jac Rw n i (ones Rw)) x).
  { apply (grad_at_ext (fun s => dot s (col_jac Rw n i (ones Rw)))).
    - intros y Hy. symmetry. apply slot_total_dot; auto. lia.
    - apply grad_dot. rewrite col_jac_length. lia. }
  destruct (grad_at_shift_const _ _ x (lo sb i) G) as [G1 _].
  destruct (grad_at_shift_const _ _ x (hi sb i) G) as [_ G2].
  assert (E : col_jac Rw n i (vscale (- n1) (ones Rw)) = vopp (col_jac Rw n i (ones Rw))).
  { rewrite !col_jac_cjw. unfold cjw, vopp. rewrite concat_map, map_map. f_equal. apply map_ext. intros r.
    rewrite map_map. apply map_ext. intros j. rewrite nth_vscale. numR. destruct (Nat.eqb j i); ring. }
  destruct (neqb (lo sb i) (hi sb i)).
  - destruct Hin as [<-|[]]. unfold jac_exact; cbn [c_jac c_fun]. numR. exact G1.
  - destruct Hin as [<-|[<-|[]]]; unfold jac_exact; cbn [c_jac c_fun]; numR; [exact G1|rewrite E; exact G2].
Qed.

Lemma sb_cons_exact Rw n sb (x : list R) c : length x = (Rw * n)%nat -> In c (sb_cons Rw n sb) -> jac_exact c x.
Proof.
  intros Hx Hin. unfold sb_cons in Hin. destruct sb as [b|]; [|destruct Hin].
  apply in_flat_map in Hin. destruct Hin as [i [Hi Hc]]. apply in_seq in Hi. apply (sb_slot_cons_exact Rw n b i x c); auto. lia.
Qed.

(* ---- (3) the two-ratio constraint ---- *)
Lemma reshape2 n (s : list R) : (0 < n)%nat -> length s = (2 * n)%nat ->
  reshape 2 n s = [firstn n s; firstn n (skipn n s)].
Proof.
  intros Hn Hs. unfold reshape. destruct s as [|x s']; [simpl in Hs; lia|]. set (s := x :: s') in *.
  change (chunk 2 n s) with (firstn n s :: chunk 1 n (skipn n s)). f_equal.
  assert (Ls : length (skipn n s) = n) by (rewrite skipn_length; lia).
  destruct (skipn n s) as [|y t] eqn:E; [simpl in Ls; lia|]. reflexivity.
Qed.

Lemma ratio_cons_exact n r0 r1 is_eq (x : list R) c : length x = (2 * n)%nat ->
  In c (ratio_cons 2 n (r0, r1) is_eq) -> jac_exact c x.
Proof.
  intros Hx Hin. unfold ratio_cons in Hin. apply in_map_iff in Hin. destruct Hin as [i [<- Hi]]. apply in_seq in Hi.
  unfold jac_exact; cbn [c_jac c_fun fst snd].
  apply (grad_at_ext (fun s => dot s (col_jac 2 n i [r0; - r1]))).
  - intros y Hy. rewrite col_jac_cjw, dot_cjw by lia. rewrite reshape2 by lia. cbn [seq map nth]. numR.
    rewrite !vsum_cons. cbn [Nat.mul plus]. rewrite nth_firstn_lt by lia. rewrite nth_firstn_lt by lia.
    rewrite nth_skipn_add. replace (n + 0 + i)%nat with (n + i)%nat by lia. simpl. ring.
  - apply grad_dot. rewrite col_jac_length. lia.
Qed.

(* ---- (4) the multi-flow adaptor: wrapped constraints on the column sum, Jacobian tiled per conduit ---- *)
Lemma chunk_rows_length n : (0 < n)%nat -> forall k (s : list R), length s = (k * n)%nat ->
  List.Forall (fun r => length r = n) (chunk k n s).
Proof.
  intros Hn. induction k as [|k IH]; intros s Hs; [constructor|].
  destruct s as [|x s']; [simpl in Hs; nia|]. set (s := x :: s') in *.
  change (chunk (S k) n s) with (firstn n s :: chunk k n (skipn n s)). constructor.
  - rewrite firstn_length. nia.
  - apply IH. rewrite skipn_length. nia.
Qed.

Lemma colsum_length n (M : list (list R)) : List.Forall (fun r => length r = n) M -> length (colsum n M) = n.
Proof.
  induction 1 as [|row M Hr HM IH]; [apply zeros_length|].
  unfold colsum in *. cbn [fold_right]. unfold vadd at 1. rewrite map2_length, IH, Hr. lia.
Qed.
Lemma nth_colsum n (M : list (list R)) j : List.Forall (fun r => length r = n) M -> (j < n)%nat ->
  nth j (colsum n M) 0 = vsum (col j M).
Proof.
  intros HM Hj. induction HM as [|row M Hr HM IH]; [unfold colsum; simpl; apply nth_zeros|].
  unfold colsum in *. cbn [fold_right col map]. rewrite vsum_cons.
  rewrite nth_vadd by (rewrite ?Hr; try (fold (colsum n M); rewrite colsum_length by auto); lia). now rewrite IH.
Qed.

Lemma nth_cjw n i w : forall Rw a r j, (r < Rw)%nat -> (j < n)%nat ->
  nth (r * n + j) (cjw n i w a Rw) 0 = if Nat.eqb j i then w (a + r)%nat else 0.
Proof.
  induction Rw as [|Rw IH]; intros a r j Hr Hj; [lia|].
  unfold cjw. cbn [seq map List.concat]. fold (cjw n i w (S a) Rw).
  destruct r as [|r].
  - cbn [Nat.mul plus]. rewrite app_nth1 by (rewrite map_length, seq_length; lia).
    rewrite nth_map_seq by auto. now rewrite Nat.add_0_r.
  - rewrite app_nth2 by (rewrite map_length, seq_length; nia). rewrite map_length, seq_length.
    replace (S r * n + j - n)%nat with (r * n + j)%nat by nia. rewrite IH by lia. replace (S a + r)%nat with (a + S r)%nat by lia. reflexivity.
Qed.

Lemma nth_concat_repeat (v : list R) n k r j : length v = n -> (r < k)%nat -> (j < n)%nat ->
  nth (r * n + j) (List.concat (repeat v k)) 0 = nth j v 0.
Proof.
  intros Hv. revert r; induction k as [|k IH]; intros r Hr Hj; [lia|]. cbn [repeat List.concat].
  destruct r as [|r]; [cbn [Nat.mul plus]; apply app_nth1; lia|].
  rewrite app_nth2 by nia. replace (S r * n + j - length v)%nat with (r * n + j)%nat by nia. apply IH; lia.
Qed.
Lemma concat_repeat_length (v : list R) n k : length v = n -> length (List.concat (repeat v k)) = (k * n)%nat.
Proof. intros Hv. induction k as [|k IH]; [reflexivity|]. cbn [repeat List.concat]. rewrite app_length, IH. lia. Qed.

Lemma nth_upd_cases (s : list R) k j t : (k < length s)%nat -> nth j (upd s k t) 0 = if Nat.eqb j k then t else nth j s 0.
Proof. intros Hk. destruct (Nat.eqb_spec j k) as [->|Hne]; [now apply nth_upd_eq|now apply nth_upd_neq]. Qed.

Definition tot (k n : nat) (s : list R) : list R := colsum n (reshape k n s).

Lemma tot_length k n (s : list R) : (0 < n)%nat -> length s = (k * n)%nat -> length (tot k n s) = n.
Proof. intros Hn Hs. unfold tot, reshape. apply colsum_length. now apply chunk_rows_length. Qed.
Lemma nth_tot k n (s : list R) j : (j < n)%nat -> length s = (k * n)%nat -> nth j (tot k n s) 0 = slot_total k n j s.
Proof. intros Hj Hs. unfold tot, slot_total, reshape. apply nth_colsum; auto. apply chunk_rows_length; auto; lia. Qed.

Lemma tot_upd k n (s : list R) r j t : (r < k)%nat -> (j < n)%nat -> length s = (k * n)%nat ->
  tot k n (upd s (r * n + j) t) = upd (tot k n s) j (nth j (tot k n s) 0 + (t - nth (r * n + j) s 0)).
Proof.
  intros Hr Hj Hs. apply nth_ext with (d := 0) (d' := 0).
  - rewrite upd_length, !tot_length; auto; try lia. now rewrite upd_length.
  - intros j' Hj'. rewrite tot_length in Hj' by (rewrite ?upd_length; auto; lia).
    rewrite nth_tot by (rewrite ?upd_length; auto). rewrite nth_upd_cases by (rewrite tot_length; auto; lia).
    rewrite slot_total_dot by (rewrite ?upd_length; auto). rewrite dot_upd by nia.
    rewrite <- slot_total_dot by auto. rewrite col_jac_cjw, nth_cjw by auto.
    unfold ones, vconst. rewrite repeat_nth by lia. cbn [plus].
    rewrite (Nat.eqb_sym j j'). destruct (Nat.eqb_spec j' j) as [->|Hne]; numR.
    + rewrite nth_tot by auto. ring.
    + rewrite nth_tot by auto. ring.
Qed.

Lemma mf_wrap_exact k n (c : con R) (x : list R) : (0 < n)%nat -> length x = (k * n)%nat ->
  jac_exact c (tot k n x) -> jac_exact (mf_wrap k n c) x.
Proof.
  intros Hn Hx Hc. unfold jac_exact in *. unfold mf_wrap; cbn [c_jac c_fun]. fold (tot k n x).
  destruct (c_jac c) as [J|]; [|exact I]. destruct Hc as [HL HD]. rewrite tot_length in HL by auto.
  split; [now rewrite (concat_repeat_length _ n)|].
  intros idx Hidx.
  pose proof (Nat.div_mod idx n ltac:(lia)) as Hdm. set (r := (idx / n)%nat) in *. set (j := (idx mod n)%nat) in *.
  assert (Hj : (j < n)%nat) by (apply Nat.mod_upper_bound; lia).
  assert (Hr : (r < k)%nat) by (apply Nat.div_lt_upper_bound; nia).
  assert (Eidx : idx = (r * n + j)%nat) by lia.
  rewrite Eidx. rewrite (nth_concat_repeat _ n) by auto.
  specialize (HD j ltac:(rewrite tot_length; auto)).
  apply (is_derive_ext (fun t => c_fun c (upd (tot k n x) j (nth j (tot k n x) 0 + (t - nth (r * n + j) x 0))))).
  - intros t. fold (tot k n (upd x (r * n + j) t)). now rewrite tot_upd.
  - apply (is_derive_shift (fun u => c_fun c (upd (tot k n x) j u))). exact HD.
Qed.

(* ---- (5) every constraint of every tree ---- *)
Notation rdev := (gdev R (leafdev R)).
Notation ops := (std_ops (A:=R)).

(* well-formed for horizon n: every leaf has length n, sets are non-empty, adaptors have conduits (two for the ratio set) *)
Fixpoint wf (n : nat) (d : rdev) : Prop :=
  match d with
  | Leaf _ l => ld_n l = n
  | DSet _ ks _ | SubBal _ ks _ _ _ _ _ =>
      ks <> [] /\ (fix all (ks : list rdev) : Prop := match ks with [] => True | k :: ks' => wf n k /\ all ks' end) ks
  | MF _ l fl => ld_n l = n
  | TwoRatio _ l fl _ _ => ld_n l = n /\ length fl = 2%nat
  end.
Fixpoint wf_kids (n : nat) (ks : list rdev) : Prop := match ks with [] => True | k :: ks' => wf n k /\ wf_kids n ks' end.
Lemma wf_set_kids n i ks sb : wf n (DSet i ks sb) <-> ks <> [] /\ wf_kids n ks.
Proof.
  cbn [wf]. assert (E : forall ks, (fix all (ks : list rdev) : Prop := match ks with [] => True | k :: ks' => wf n k /\ all ks' end) ks = wf_kids n ks).
  { induction ks0 as [|k ks0 IH]; cbn [wf_kids]; [reflexivity|]. now rewrite IH. }
  rewrite E. tauto.
Qed.
Lemma wf_sub_kids n i ks sb lb e sg rm : wf n (SubBal i ks sb lb e sg rm) <-> ks <> [] /\ wf_kids n ks.
Proof.
  cbn [wf]. assert (E : forall ks, (fix all (ks : list rdev) : Prop := match ks with [] => True | k :: ks' => wf n k /\ all ks' end) ks = wf_kids n ks).
  { induction ks0 as [|k ks0 IH]; cbn [wf_kids]; [reflexivity|]. now rewrite IH. }
  rewrite E. tauto.
Qed.

(* smooth: every storage leaf sees a flow (its own row; for an adaptor the conduit total) away from the charge/discharge kink *)
Fixpoint tsmooth (n : nat) (d : rdev) (x : list R) : Prop :=
  match d with
  | Leaf _ l => leaf_smooth l x
  | DSet _ ks _ | SubBal _ ks _ _ _ _ _ =>
      (fix go (ks : list rdev) (o : nat) : Prop :=
         match ks with [] => True
         | k :: ks' => tsmooth n k (firstn (rows ops k * n) (skipn (o * n) x)) /\ go ks' (o + rows ops k)%nat end) ks 0%nat
  | MF _ l fl | TwoRatio _ l fl _ _ => leaf_smooth l (tot (length fl) n x)
  end.
Fixpoint tsmooth_kids (n : nat) (ks : list rdev) (o : nat) (x : list R) : Prop :=
  match ks with [] => True
  | k :: ks' => tsmooth n k (firstn (rows ops k * n) (skipn (o * n) x)) /\ tsmooth_kids n ks' (o + rows ops k)%nat x end.
Lemma tsmooth_set n i ks sb x : tsmooth n (DSet i ks sb) x = tsmooth_kids n ks 0 x.
Proof. cbn [tsmooth]. generalize 0%nat. induction ks as [|k ks IH]; intros o; cbn [tsmooth_kids]; [reflexivity|]. now rewrite IH. Qed.
Lemma tsmooth_sub n i ks sb lb e sg rm x : tsmooth n (SubBal i ks sb lb e sg rm) x = tsmooth_kids n ks 0 x.
Proof. cbn [tsmooth]. generalize 0%nat. induction ks as [|k ks IH]; intros o; cbn [tsmooth_kids]; [reflexivity|]. now rewrite IH. Qed.

Lemma dlen_wf n : forall d : rdev, wf n d -> dlen ops d = n.
Proof.
  apply (gdev_induction (fun d => wf n d -> dlen ops d = n)).
  - intros i l H. exact H.
  - intros i ks sb IH Hw. apply wf_set_kids in Hw. destruct Hw as [Hne Hw]. destruct ks as [|k ks]; [congruence|].
    cbn [dlen]. inversion IH as [|? ? Hk _]; subst. apply Hk. apply Hw.
  - intros i ks sb lb e sg rm IH Hw. apply wf_sub_kids in Hw. destruct Hw as [Hne Hw]. destruct ks as [|k ks]; [congruence|].
    cbn [dlen]. inversion IH as [|? ? Hk _]; subst. apply Hk. apply Hw.
  - intros i l fl H. exact H.
  - intros i l fl r e [H _]. exact H.
Qed.

Definition all_exact (d : rdev) (x : list R) : Prop := forall c, In c (gcons ops d) -> jac_exact c x.

Lemma kids_cons_exact n Rw (x : list R) : length x = (Rw * n)%nat -> forall ks o,
  List.Forall (fun k => forall y, wf n k -> length y = (rows ops k * n)%nat -> tsmooth n k y -> all_exact k y) ks ->
  wf_kids n ks -> (o + kids_rows ops ks <= Rw)%nat -> tsmooth_kids n ks o x ->
  forall c, In c (kids_cons ops Rw n ks o) -> jac_exact c x.
Proof.
  intros Hx. induction ks as [|k ks IH]; intros o HF Hw Ho Hs c Hin; [destruct Hin|].
  cbn [kids_cons] in Hin. cbn [kids_rows] in Ho. destruct Hw as [Hwk Hw]. destruct Hs as [Hsk Hs].
  inversion HF as [|? ? Hk HF']; subst.
  apply in_app_or in Hin. destruct Hin as [Hin|Hin].
  - apply in_map_iff in Hin. destruct Hin as [c' [<- Hc']].
    apply rewrap_exact; auto; [lia|].
    rewrite sub_flat_flat by lia. apply (Hk _ Hwk); auto.
    rewrite firstn_length, skipn_length. nia.
  - apply (IH (o + rows ops k)%nat); auto. lia.
Qed.

Lemma tree_cons_exact_all n : (0 < n)%nat -> forall (d : rdev) x,
  wf n d -> length x = (rows ops d * n)%nat -> tsmooth n d x -> all_exact d x.
Proof.
  intros Hn.
  apply (gdev_induction (fun d => forall x, wf n d -> length x = (rows ops d * n)%nat -> tsmooth n d x -> all_exact d x)).
  - (* leaf *) intros i l x Hw Hx Hs c Hin. cbn [gcons] in Hin. cbn [rows] in Hx. cbn [tsmooth] in Hs. cbn [wf] in Hw.
    apply (leaf_cons_exact l x c); auto. change (l_rows _ ops l) with 1%nat in Hx. lia.
  - (* plain set *) intros i ks sb IH x Hw Hx Hs c Hin.
    pose proof (dlen_wf n _ Hw) as Hd. apply wf_set_kids in Hw. destruct Hw as [_ Hw]. rewrite tsmooth_set in Hs.
    rewrite gcons_kids, Hd in Hin. apply in_app_or in Hin. destruct Hin as [Hin|Hin].
    + assert (Hr : (0 + kids_rows ops ks <= rows ops (DSet i ks sb))%nat) by (rewrite rows_kids; lia).
      exact (kids_cons_exact n (rows ops (DSet i ks sb)) x Hx ks 0%nat IH Hw Hr Hs c Hin).
    + cbn [own_cons] in Hin. rewrite Hd in Hin. eapply sb_cons_exact; eauto.
  - (* sub-balanced set *) intros i ks sb lb e sg rm IH x Hw Hx Hs c Hin.
    pose proof (dlen_wf n _ Hw) as Hd. apply wf_sub_kids in Hw. destruct Hw as [_ Hw]. rewrite tsmooth_sub in Hs.
    rewrite gcons_kids_sub, Hd in Hin. apply in_app_or in Hin. destruct Hin as [Hin|Hin].
    + assert (Hr : (0 + kids_rows ops ks <= rows ops (SubBal i ks sb lb e sg rm))%nat) by (rewrite rows_kids_sub; lia).
      exact (kids_cons_exact n (rows ops (SubBal i ks sb lb e sg rm)) x Hx ks 0%nat IH Hw Hr Hs c Hin).
    + cbn [own_cons] in Hin. rewrite Hd in Hin. apply in_app_or in Hin. destruct Hin as [Hin|Hin]; [eapply sb_cons_exact; eauto|].
      unfold label_cons in Hin. apply in_flat_map in Hin. destruct Hin as [st [_ Hin]]. apply in_map_iff in Hin.
      destruct Hin as [j [<- _]]. exact I.
  - (* multi-flow adaptor *) intros i l fl x Hw Hx Hs c Hin. cbn [wf] in Hw. cbn [rows] in Hx. cbn [tsmooth] in Hs.
    cbn [gcons] in Hin. unfold mf_cons in Hin. change (l_n _ ops l) with (ld_n l) in Hin. rewrite Hw in Hin.
    apply in_app_or in Hin. destruct Hin as [Hin|Hin]; [eapply sb_cons_exact; eauto|].
    apply in_map_iff in Hin. destruct Hin as [c' [<- Hc']]. apply mf_wrap_exact; auto.
    apply (leaf_cons_exact l); auto. rewrite tot_length; auto.
  - (* two-ratio adaptor *) intros i l fl r e x [Hw H2] Hx Hs c Hin. cbn [rows] in Hx. cbn [tsmooth] in Hs.
    cbn [gcons] in Hin. apply in_app_or in Hin. destruct Hin as [Hin|Hin].
    + unfold mf_cons in Hin. change (l_n _ ops l) with (ld_n l) in Hin. rewrite Hw in Hin.
      apply in_app_or in Hin. destruct Hin as [Hin|Hin]; [eapply sb_cons_exact; eauto|].
      apply in_map_iff in Hin. destruct Hin as [c' [<- Hc']]. apply mf_wrap_exact; auto.
      apply (leaf_cons_exact l); auto. rewrite tot_length; auto.
    + change (l_n _ ops l) with (ld_n l) in Hin. rewrite Hw, H2 in Hin. destruct r as [r0 r1].
      apply (ratio_cons_exact n r0 r1 e x c); auto. rewrite Hx, H2. reflexivity.
Qed.
