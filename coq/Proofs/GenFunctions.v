(* Each preference-function combinator as regenerated from device_kit/functions.py (Gen/Functions.v, translator/functions_tx.py)
   is the corresponding node of the function AST of Model/Fn.v, for ANY operands: instantiate the abstract operand objects with
   (feval g, fderiv g, fhess g) and __call__ / deriv / hess are feval / fderiv / fhess of the node.  The structural ones hold
   for every carrier; the polynomial ones (derivative coefficients padded with leading zeros) over the reals. *)
From Coq Require Import ZArith Reals List Bool Arith Lia Lra.
From DK Require Import Num NumR Vec.
From DK.Gen Require Import Kernels Functions.
From DK.Model Require Import Leaf Fn Dev Tree FnOps.
From DK.Proofs Require Import VecFacts RVec.
Import ListNotations.

Section AnyCarrier.
  Context {A : Type} `{Num A}.
  Definition fobj_of (g : fn A) : fobj A := {| f_call := feval g; f_deriv := fderiv g; f_hess := fhess g |}.

  Lemma gen_null x : NullFunction_call x = feval FNull x /\ NullFunction_deriv x = fderiv FNull x.
  Proof. repeat split; reflexivity. Qed.
  Lemma gen_sum fs x :
    SumFunction_call (map fobj_of fs) x = feval (FSum fs) x /\
    SumFunction_deriv (map fobj_of fs) x = fderiv (FSum fs) x.
  Proof.
    unfold SumFunction_call, SumFunction_deriv. cbn [feval fderiv]. rewrite !map_map. cbn [fobj_of f_call f_deriv].
    repeat split; reflexivity.
  Qed.
  Lemma gen_reflect g x :
    ReflectedFunction_call (fobj_of g) x = feval (FReflect g) x /\
    ReflectedFunction_deriv (fobj_of g) x = fderiv (FReflect g) x.
  Proof. repeat split; reflexivity. Qed.
  Lemma gen_innersum pl ph xl xh x :
    InnerSumFunction_call (sfobj_hl (pl, ph, xl, xh)) x = feval (FInnerHL pl ph xl xh) x /\
    InnerSumFunction_deriv (sfobj_hl (pl, ph, xl, xh)) x = fderiv (FInnerHL pl ph xl xh) x.
  Proof. repeat split; reflexivity. Qed.
  Lemma x2d_map qs (x : list A) (G : sfobj A -> A -> A) (G' : A * A * A * A -> A -> A) : (forall q v, G (sfobj_hl q) v = G' q v) ->
    map (fun kv : nat * A => G (nth (fst kv) (map sfobj_hl qs) null_sfobj) (snd kv)) (idx x) =
    map (fun '(i, v) => G' (nth i qs (n0, n0, n0, n0)) v) (idx x).
  Proof.
    intros HG. apply map_ext. intros [k v]. cbn [fst snd].
    replace (nth k (map sfobj_hl qs) null_sfobj) with (sfobj_hl (nth k qs (n0, n0, n0, n0))) by (symmetry; apply (map_nth sfobj_hl)). apply HG.
  Qed.
  Lemma gen_x2d qs x :
    X2D_call (map sfobj_hl qs) x = feval (FX2D qs) x /\
    X2D_deriv (map sfobj_hl qs) x = fderiv (FX2D qs) x.
  Proof.
    unfold X2D_call, X2D_deriv. cbn [feval fderiv]. cbv zeta. split.
    - f_equal. rewrite (x2d_map qs x (fun o v => sf_call o v) (fun q v => let '(pl, ph, xl, xh) := q in hl_cost v pl ph xl xh)); [reflexivity|].
      intros [[[pl ph] xl] xh] v. reflexivity.
    - rewrite (x2d_map qs x (fun o v => sf_deriv o v) (fun q v => let '(pl, ph, xl, xh) := q in hl_deriv v pl ph xl xh)); [reflexivity|].
      intros [[[pl ph] xl] xh] v. reflexivity.
  Qed.
  Lemma gen_poly2d_call cs x : Poly2D_call cs x = feval (FPoly2D cs) x.
  Proof. unfold Poly2D_call, Poly2D_vector. cbn [feval]. f_equal. apply map_ext. intros [k v]. reflexivity. Qed.
  Lemma gen_poly2doffset_call cs offs x : Poly2DOffset_call cs offs x = feval (FPoly2DOffset cs offs) x.
  Proof. unfold Poly2DOffset_call, Poly2DOffset_vector. cbn [feval]. f_equal. apply map_ext. intros [k v]. reflexivity. Qed.
  (* RangesFunction: the comprehension over enumerate(self.ranges) with functions[k] and the slice of x over the range *)
  Definition ranges_of (rs : list (nat * nat * fn A)) : list (nat * nat) := map fst rs.
  Definition fobjs_of (rs : list (nat * nat * fn A)) : list (fobj A) := map (fun r => fobj_of (snd r)) rs.

  Lemma ranges_loop_gen {B} (g : fobj A -> nat * nat -> B) : forall (suf pre : list (nat * nat * fobj A)),
    map (fun kr => g (nth (fst kr) (map snd (pre ++ suf)) null_fobj) (snd kr)) (combine (seq (length pre) (length (map fst suf))) (map fst suf))
    = map (fun r => g (snd r) (fst r)) suf.
  Proof.
    induction suf as [|r suf IH]; intros pre; [reflexivity|].
    cbn [map length seq combine fst snd]. f_equal.
    - rewrite map_app, app_nth2 by (rewrite map_length; lia). rewrite map_length, Nat.sub_diag. reflexivity.
    - specialize (IH (pre ++ [r])). rewrite <- app_assoc in IH. cbn [app] in IH. rewrite app_length in IH. cbn [length] in IH.
      replace (length pre + 1)%nat with (S (length pre)) in IH by lia. exact IH.
  Qed.
  Lemma ranges_loop {B} (g : fobj A -> nat * nat -> B) : forall (suf pre : list (nat * nat * fn A)),
    map (fun kr => g (nth (fst kr) (fobjs_of (pre ++ suf)) null_fobj) (snd kr)) (combine (seq (length pre) (length (ranges_of suf))) (ranges_of suf))
    = map (fun r => g (fobj_of (snd r)) (fst r)) suf.
  Proof.
    intros suf pre. pose proof (ranges_loop_gen g (map (fun r => (fst r, fobj_of (snd r))) suf) (map (fun r => (fst r, fobj_of (snd r))) pre)) as HL.
    rewrite <- map_app, !map_map, map_length in HL. cbn [fst snd] in HL. unfold fobjs_of, ranges_of. exact HL.
  Qed.

  Lemma fold_concat {B} (l : list (list B)) : forall acc, fold_left (fun a b => a ++ b) l acc = acc ++ concat l.
  Proof. induction l as [|x l IH]; intros acc; simpl; [now rewrite app_nil_r|]. rewrite IH, app_assoc. reflexivity. Qed.

  Lemma gen_ranges rs x :
    RangesFunction_call (ranges_of rs) (fobjs_of rs) x = feval (FRanges rs) x /\
    RangesFunction_deriv (ranges_of rs) (fobjs_of rs) x = fderiv (FRanges rs) x.
  Proof.
    unfold RangesFunction_call, RangesFunction_deriv, enum_ranges. cbv zeta. cbn [feval fderiv]. split.
    - transitivity (vsum (map (fun r : nat * nat * fn A => f_call (fobj_of (snd r)) (slice (fst (fst r)) (snd (fst r)) x)) rs)).
      + f_equal. exact (ranges_loop (fun f r => f_call f (slice (fst r) (snd r) x)) rs []).
      + f_equal. apply map_ext. intros [[s e] g]. reflexivity.
    - rewrite fold_concat. cbn [app].
      transitivity (concat (map (fun r : nat * nat * fn A => f_deriv (fobj_of (snd r)) (slice (fst (fst r)) (snd (fst r)) x)) rs)).
      + f_equal. exact (ranges_loop (fun f r => f_deriv f (slice (fst r) (snd r) x)) rs []).
      + rewrite <- flat_map_concat_map. apply flat_map_ext. intros [[s e] g]. reflexivity.
  Qed.
  (* ADevice: the device whose preference is a function object *)
  Lemma gen_adevice n bnd cb (g : fn A) ucs s p : let d := Build_leafdev n bnd cb (KA g ucs) in
    ADevice_cost (fobj_of g) s p = leaf_cost d s p /\
    ADevice_deriv (fobj_of g) s p = leaf_deriv d s p.
  Proof. cbv zeta. repeat split. Qed.
  (* DemandFunction: the inner polynomial at the largest entry; its derivative placed at the arg max *)
  Lemma gen_demand c x : DemandFunction_call c x = feval (FDemand c) x /\ DemandFunction_deriv c x = fderiv (FDemand c) x.
  Proof. split; reflexivity. Qed.
  (* CDevice2: the preference object assembled from InnerSumFunction / RangesFunction objects *)
  Lemma ranges_fobj_call (rf : list (nat * nat * fobj A)) x :
    f_call (ranges_fobj rf) x = vsum (map (fun r => f_call (snd r) (slice (fst (fst r)) (snd (fst r)) x)) rf).
  Proof.
    cbn [ranges_fobj f_call]. unfold RangesFunction_call, enum_ranges. cbv zeta. f_equal.
    exact (ranges_loop_gen (fun f r => f_call f (slice (fst r) (snd r) x)) rf []).
  Qed.
  Lemma ranges_fobj_deriv (rf : list (nat * nat * fobj A)) x :
    f_deriv (ranges_fobj rf) x = flat_map (fun r => f_deriv (snd r) (slice (fst (fst r)) (snd (fst r)) x)) rf.
  Proof.
    cbn [ranges_fobj f_deriv]. unfold RangesFunction_deriv, enum_ranges. cbv zeta. rewrite fold_concat. cbn [app].
    rewrite flat_map_concat_map. f_equal.
    exact (ranges_loop_gen (fun f r => f_deriv f (slice (fst r) (snd r) x)) rf []).
  Qed.
  Theorem gen_cdevice2_cost n pl ph (cbs : list (cbound A)) s p : CDevice2_cost n pl ph cbs s p = cdev2_cost pl ph cbs s p.
  Proof.
    unfold CDevice2_cost, cdev2_cost, CDevice2_cost_fn, cdev2_pref. f_equal.
    destruct cbs as [|c [|c2 rest]]; [reflexivity|reflexivity|].
    cbn [length Nat.eqb]. rewrite ranges_fobj_call, map_map. reflexivity.
  Qed.
  Lemma gen_cdevice2_dpref pl ph (cbs : list (cbound A)) s : f_deriv (CDevice2_cost_fn pl ph cbs) s = cdev2_dpref pl ph cbs s.
  Proof.
    unfold CDevice2_cost_fn, cdev2_dpref.
    destruct cbs as [|c [|c2 rest]]; [reflexivity|reflexivity|].
    cbn [length Nat.eqb]. rewrite ranges_fobj_deriv. rewrite (flat_map_concat_map _ (map _ _)), map_map, <- flat_map_concat_map. reflexivity.
  Qed.
End AnyCarrier.

Local Open Scope R_scope.
Lemma vmul_ones_l n (d : list R) : length d = n -> vmul (ones n) d = d.
Proof.
  revert d. induction n as [|n IH]; intros [|x d] Hl; simpl in Hl; try lia; [reflexivity|].
  unfold ones, vconst in *. cbn [repeat vmul map2]. f_equal; [cbn; ring|]. apply IH. lia.
Qed.
(* np.ones(len(self)) * f.deriv(s) + p: when the cumulative ranges cover the horizon (what the constructor checks) the preference gradient has
   one entry per slot and the product with ones is the gradient itself *)
Theorem gen_cdevice2_deriv n pl ph (cbs : list (cbound R)) (s p : list R) : length (cdev2_dpref pl ph cbs s) = n ->
  CDevice2_deriv n pl ph cbs s p = cdev2_deriv pl ph cbs s p.
Proof. intros Hl. unfold CDevice2_deriv, cdev2_deriv. rewrite gen_cdevice2_dpref, (vmul_ones_l n _ Hl). reflexivity. Qed.
Lemma horner_zeros_app k (l : list R) u : horner (repeat 0 k ++ l) u = horner l u.
Proof.
  unfold horner. rewrite fold_left_app. f_equal. induction k as [|k IH]; [reflexivity|]. cbn [repeat fold_left]. 
  replace (n0 * u + 0)%num with (n0 (A:=R)) by (cbn; ring). exact IH.
Qed.
Lemma horner_pad len (c : list R) u : horner (poly_pad len c) u = horner c u.
Proof. unfold poly_pad. apply (horner_zeros_app _ c u). Qed.
Lemma nth_map_pad (F : list R -> list R) cs k : F [] = [] -> nth k (map F cs) [] = F (nth k cs []).
Proof. intros E. rewrite <- E at 1. apply map_nth. Qed.

Theorem gen_poly2d cs (x : list R) :
  Poly2D_call cs x = feval (FPoly2D cs) x /\ Poly2D_deriv cs x = fderiv (FPoly2D cs) x.
Proof.
  split; [apply gen_poly2d_call|]. unfold Poly2D_deriv, Poly2D_vector. cbn [fderiv]. cbv zeta.
  apply map_ext; intros [k v]; cbn [fst snd]; rewrite nth_map_pad by reflexivity; unfold poly_deriv_padded; apply horner_pad.
Qed.
Theorem gen_poly2doffset cs offs (x : list R) :
  Poly2DOffset_call cs offs x = feval (FPoly2DOffset cs offs) x /\ Poly2DOffset_deriv cs offs x = fderiv (FPoly2DOffset cs offs) x.
Proof.
  split; [apply gen_poly2doffset_call|]. unfold Poly2DOffset_deriv, Poly2DOffset_vector. cbn [fderiv]. cbv zeta.
  apply map_ext; intros [k v]; cbn [fst snd]; rewrite nth_map_pad by reflexivity; unfold poly_deriv_padded; apply horner_pad.
Qed.
Lemma vadd_zero_zero c : vadd (repeat (n0 (A:=R)) c) (repeat n0 c) = repeat n0 c.
Proof. induction c as [|c IH]; [reflexivity|]. cbn [repeat vadd map2]. f_equal; [cbn; ring | exact IH]. Qed.
Lemma madd_mzero r c : madd (mconst r c (n0 (A:=R))) (mconst r c n0) = mconst r c n0.
Proof. unfold madd, mconst. induction r as [|r IH]; [reflexivity|]. cbn [repeat map2]. f_equal; [apply vadd_zero_zero | exact IH]. Qed.
(* SumFunction([]) is SumFunction([NullFunction()]) (the constructor's rule): the same function *)
Theorem gen_sum_empty (x : list R) :
  SumFunction_call [fobj_of FNull] x = feval (FSum []) x /\ SumFunction_deriv [fobj_of FNull] x = fderiv (FSum []) x.
Proof.
  unfold SumFunction_call, SumFunction_deriv. cbn [map feval fderiv fobj_of f_call f_deriv vsum fold_right colsum].
  repeat split.
  - cbn. ring.
  - unfold zeros, vconst. induction (length x) as [|k IH]; [reflexivity|]. cbn [repeat vadd map2]. f_equal; [cbn; ring | exact IH].
Qed.
