(* C17: the multi-flow adaptor is a pure re-expression of the wrapped device. Over R; the wrapped device is abstract
   (any leaf type, any behaviours `ops`: tie O); any number k >= 1 of conduits, any horizon n. *)
From Coq Require Import ZArith Reals List Bool Arith Lia Lra String.
From DK Require Import Num NumR Vec.
From DK.Model Require Import Leaf Fn Dev Tree.
From DK.Proofs Require Import VecFacts RVec TreeFacts C02Proofs C03Proofs C06Tree C04Proofs.
Import ListNotations.
Local Open Scope R_scope.
#[local] Arguments l_rows {A L}. #[local] Arguments l_n {A L}. #[local] Arguments l_bounds {A L}.
#[local] Arguments l_cost {A L}. #[local] Arguments l_deriv {A L}. #[local] Arguments l_cons {A L}.

(* ---- vectors ---------------------------------------------------------------------------------------------------- *)
Lemma dot_zeros (s : list R) n : dot s (zeros n) = 0.
Proof.
  revert n; induction s as [|x s IH]; intros [|n]; try reflexivity.
  change (zeros (S n)) with (0 :: zeros (A:=R) n). rewrite dot_cons, IH. lra.
Qed.
Lemma vadd_zeros (g : list R) : vadd g (zeros (List.length g)) = g.
Proof. induction g as [|x g IH]; [reflexivity|]. cbn [List.length]. change (zeros (S (List.length g))) with (0 :: zeros (A:=R) (List.length g)).
  unfold vadd in *. cbn [map2]. rewrite IH. numR. f_equal. lra. Qed.
Lemma zeros_vadd (g : list R) : vadd (zeros (List.length g)) g = g.
Proof. induction g as [|x g IH]; [reflexivity|]. cbn [List.length]. change (zeros (S (List.length g))) with (0 :: zeros (A:=R) (List.length g)).
  unfold vadd in *. cbn [map2]. rewrite IH. numR. f_equal. lra. Qed.
Lemma vadd_length (a b : list R) : List.length (vadd a b) = Nat.min (List.length a) (List.length b).
Proof. apply map2_length. Qed.

Lemma vsum_map2_dot_zero (S : list (list R)) n k : vsum (map2 dot S (repeat (zeros n) k)) = 0.
Proof.
  revert k; induction S as [|s S IH]; intros [|k]; try reflexivity. cbn [repeat map2]. rewrite vsum_cons, IH, dot_zeros. lra.
Qed.

(* sum of terms of one sign bounds each term *)
Lemma term_le_sum (xs : list R) x : (forall y, In y xs -> 0 <= y) -> In x xs -> x <= vsum xs.
Proof.
  induction xs as [|y xs IH]; intros Hpos Hin; [destruct Hin|]. rewrite vsum_cons.
  assert (Hs : 0 <= vsum xs).
  { clear IH Hin. induction xs as [|z xs IH]; [rewrite vsum_nil; lra|]. rewrite vsum_cons.
    assert (0 <= z) by (apply Hpos; right; now left). assert (0 <= vsum xs) by (apply IH; intros w Hw; apply Hpos; destruct Hw; [now left|right; now right]). lra. }
  assert (0 <= y) by (apply Hpos; now left). destruct Hin as [->|Hin]; [lra|].
  assert (x <= vsum xs) by (apply IH; auto; intros w Hw; apply Hpos; now right). lra.
Qed.
Lemma sum_le_term (xs : list R) x : (forall y, In y xs -> y <= 0) -> In x xs -> vsum xs <= x.
Proof.
  intros Hneg Hin. pose proof (term_le_sum (map Ropp xs) (- x)) as G.
  assert (E : vsum (map Ropp xs) = - vsum xs).
  { clear. induction xs as [|y xs IH]; [rewrite vsum_nil; simpl; lra|]. cbn [map]. rewrite !vsum_cons, IH. lra. }
  rewrite E in G. assert (- x <= - vsum xs); [|lra]. apply G.
  - intros y Hy. apply in_map_iff in Hy. destruct Hy as (z & <- & Hz). specialize (Hneg z Hz). lra.
  - now apply in_map.
Qed.

(* ---- column sums ------------------------------------------------------------------------------------------------ *)
Lemma colsum_single n (t : list R) : List.length t = n -> colsum n [t] = t.
Proof. intros <-. unfold colsum. cbn [fold_right]. apply vadd_zeros. Qed.
Lemma colsum_zero_rows n k : colsum n (repeat (zeros n) k) = zeros (A:=R) n.
Proof.
  induction k as [|k IH]; [reflexivity|]. cbn [repeat]. unfold colsum in *. cbn [fold_right]. rewrite IH.
  rewrite <- (zeros_length (A:=R) n) at 1. apply zeros_vadd.
Qed.
Lemma colsum_first_row n k (t : list R) : List.length t = n -> colsum n (t :: repeat (zeros n) k) = t.
Proof.
  intros Ht. unfold colsum. cbn [fold_right]. fold (colsum n (repeat (zeros n) k)). rewrite colsum_zero_rows. subst n. apply vadd_zeros.
Qed.

Lemma colsum_repeat n (v : list R) k : List.length v = n -> colsum n (repeat v k) = map (fun x => INR k * x) v.
Proof.
  intros Hv. induction k as [|k IH].
  - cbn [repeat]. unfold colsum. cbn [fold_right]. subst n. clear. induction v as [|x v IH]; [reflexivity|].
    cbn [List.length map]. change (zeros (S (List.length v))) with (0 :: zeros (A:=R) (List.length v)). rewrite IH. f_equal. simpl. lra.
  - cbn [repeat]. unfold colsum in *. cbn [fold_right]. rewrite IH. rewrite S_INR. clear.
    induction v as [|x v IH]; [reflexivity|]. unfold vadd in *. cbn [map map2]. rewrite IH. numR. f_equal. lra.
Qed.

Lemma nth_map_lt {B C} (f : B -> C) (l : list B) i d d' : (i < List.length l)%nat -> nth i (map f l) d = f (nth i l d').
Proof. revert i; induction l as [|x l IH]; intros [|i] Hi; simpl in *; try lia; auto. apply IH. lia. Qed.

(* ---- the adaptor ------------------------------------------------------------------------------------------------- *)
Section Adaptor.
  Context {L : Type}.
  Variable ops : leafops R L.
  Variable l : L.                 (* the wrapped device *)
  Variable k : nat.               (* number of conduits *)
  Notation n := (l_n ops l).
  Notation b := (l_bounds ops l).

  Definition zero_prices : list (list R) := repeat (zeros n) k.
  Definition dev_cost0 (t : list R) : R := l_cost ops l t (zeros n).
  Definition dev_deriv0 (t : list R) : list R := l_deriv ops l t (zeros n).

  (* cost: at zero price the wrapped device's cost of the slot totals; any price adds <S,P> *)
  Lemma mf_cost_zero_price S : mf_cost ops l S zero_prices = dev_cost0 (colsum n S).
  Proof. unfold mf_cost, zero_prices, dev_cost0. rewrite vsum_map2_dot_zero. numR. lra. Qed.
  Lemma mf_cost_any_price S P : mf_cost ops l S P = dev_cost0 (colsum n S) + vsum (map2 dot S P).
  Proof. reflexivity. Qed.

  (* marginal cost: the wrapped device's, repeated per conduit, plus the price row *)
  Lemma mf_deriv_rows S P j : (j < k)%nat -> (j < List.length P)%nat ->
    nth j (mf_deriv ops l k S P) [] = vadd (dev_deriv0 (colsum n S)) (nth j P []).
  Proof.
    intros Hj HP. unfold mf_deriv, dev_deriv0. generalize (l_deriv ops l (colsum n S) (zeros n)). intros g.
    revert j P Hj HP. induction k as [|k' IH]; intros j P Hj HP; [lia|]. destruct P as [|p P]; [simpl in HP; lia|].
    cbn [repeat map2]. destruct j as [|j]; [reflexivity|]. cbn [nth]. apply IH; simpl in *; lia.
  Qed.
  Lemma mf_deriv_zero_price S : List.length (dev_deriv0 (colsum n S)) = n ->
    mf_deriv ops l k S zero_prices = repeat (dev_deriv0 (colsum n S)) k.
  Proof.
    intros Hg. unfold mf_deriv, zero_prices. fold (dev_deriv0 (colsum n S)). generalize dependent (dev_deriv0 (colsum n S)). intros g Hg.
    induction k as [|k' IH]; [reflexivity|]. cbn [repeat map2]. rewrite IH. f_equal. rewrite <- Hg. apply vadd_zeros.
  Qed.

  (* ---- feasibility ---------------------------------------------------------------------------------------------- *)
  Definition shaped_kn (S : list (list R)) : Prop := List.length S = k /\ List.Forall (fun row => List.length row = n) S.
  Definition entry (S : list (list R)) (r i : nat) : R := nth i (nth r S []) 0.
  (* bounds + constraints of the adaptor, as exported: conduit bounds on every row, constraint list on the flat flow *)
  Definition mf_feasible (S : list (list R)) : Prop :=
    (forall r i, (r < k)%nat -> (i < n)%nat -> lo (conduit_bounds b) i <= entry S r i <= hi (conduit_bounds b) i) /\
    sat_all (mf_cons ops l k) (List.concat S).
  (* bounds + constraints of the wrapped device *)
  Definition dev_feasible (t : list R) : Prop := total_ok ops l t.
  Definition producer : bool := existsb (fun lh : R * R => fst lh <? n0)%num b.
  (* every conduit flow has the device's direction *)
  Definition direction_ok (S : list (list R)) : Prop :=
    forall r i, (r < k)%nat -> (i < n)%nat -> if producer then entry S r i <= 0 else 0 <= entry S r i.
  (* MFDeviceSet.__init__ guard, and bounds as validated by Device: low <= high, one pair per slot *)
  Definition one_directional : Prop :=
    List.length b = n /\ (forall i, (i < n)%nat -> lo b i <= hi b i) /\
    (producer = true -> forall i, (i < n)%nat -> hi b i <= 0) /\ (producer = false -> forall i, (i < n)%nat -> 0 <= lo b i).

  Lemma producer_false_iff : producer = false <-> forall lh, In lh b -> 0 <= fst lh.
  Proof.
    unfold producer. split.
    - intros Hf lh Hin. destruct (Rle_dec 0 (fst lh)) as [Hle|Hnle]; [exact Hle|]. exfalso.
      assert (Ht : existsb (fun lh : R * R => fst lh <? n0)%num b = true).
      { apply existsb_exists. exists lh. split; [exact Hin|]. unfold nltb. numR. apply negb_true_iff. apply Rleb_false. lra. }
      congruence.
    - intros Hall. apply not_true_is_false. intros Ht. apply existsb_exists in Ht. destruct Ht as (lh & Hin & Hlt).
      unfold nltb in Hlt. numR. apply negb_true_iff in Hlt. apply Rleb_false in Hlt. specialize (Hall lh Hin). lra.
  Qed.

  Lemma conduit_lo_hi i : (i < List.length b)%nat ->
    (producer = true -> lo (conduit_bounds b) i = lo b i /\ hi (conduit_bounds b) i = 0) /\
    (producer = false -> lo (conduit_bounds b) i = 0 /\ hi (conduit_bounds b) i = hi b i).
  Proof.
    intros Hi. unfold conduit_bounds. change (existsb (fun lh : R * R => (fst lh <? n0)%num) b) with producer. unfold lo, hi. split; intros ->.
    - rewrite (nth_map_lt (fun lh : R * R => (fst lh, n0)) b i _ (n0, n0) Hi). cbn [fst snd]. split; reflexivity.
    - rewrite (nth_map_lt (fun lh : R * R => (n0, snd lh)) b i _ (n0, n0) Hi). cbn [fst snd]. split; reflexivity.
  Qed.

  Lemma entry_in_col S r i : (r < List.length S)%nat -> In (entry S r i) (col i S).
  Proof. intros Hr. unfold col, entry. apply in_map_iff. exists (nth r S []). split; [reflexivity|]. now apply nth_In. Qed.
  Lemma col_entries S i x : In x (col i S) -> exists r, (r < List.length S)%nat /\ x = entry S r i.
  Proof.
    intros Hin. unfold col in Hin. apply in_map_iff in Hin. destruct Hin as (row & <- & Hrow).
    apply In_nth with (d := []) in Hrow. destruct Hrow as (r & Hr & <-). exists r. split; [exact Hr|reflexivity].
  Qed.

  Theorem feasible_iff S : one_directional -> shaped_kn S -> (0 < n)%nat ->
    mf_feasible S <-> direction_ok S /\ dev_feasible (colsum n S).
  Proof.
    intros (Hb & Hlh & Hprod & Hcons) [HS HF] Hn. unfold mf_feasible, dev_feasible.
    assert (Hlen : List.length (List.concat S) = (k * n)%nat).
    { rewrite <- HS. clear HS. induction HF as [|row S Hrow _ IH]; [reflexivity|]. cbn [List.concat List.length]. rewrite app_length, IH, Hrow. lia. }
    rewrite (mf_cons_sat ops l k _ Hlen). unfold reshape. replace (chunk k n (List.concat S)) with S by (rewrite <- HS; symmetry; apply chunk_concat; auto).
    unfold total_ok.
    assert (Htot : forall i, (i < n)%nat -> nth i (colsum n S) 0 = vsum (col i S)) by (intros i Hi; now apply nth_colsum).
    split.
    - intros (Hcb & Hbox & Hsat). split; [|split; assumption].
      intros r i Hr Hi. specialize (Hcb r i Hr Hi). destruct (conduit_lo_hi i ltac:(lia)) as [Hp Hc].
      destruct producer eqn:E; [destruct (Hp eq_refl) as [E1 E2]|destruct (Hc eq_refl) as [E1 E2]]; rewrite E1, E2 in Hcb; lra.
    - intros (Hdir & Hbox & Hsat). split; [|split; assumption].
      intros r i Hr Hi. specialize (Hbox i Hi). rewrite Htot in Hbox by exact Hi. destruct (conduit_lo_hi i ltac:(lia)) as [Hp Hc].
      pose proof (entry_in_col S r i ltac:(lia)) as Hin.
      destruct producer eqn:E.
      + destruct (Hp eq_refl) as [E1 E2]. rewrite E1, E2. pose proof (Hdir r i Hr Hi) as Hd. rewrite E in Hd. split; [|exact Hd].
        assert (vsum (col i S) <= entry S r i); [|lra]. apply sum_le_term; [|exact Hin].
        intros y Hy. apply col_entries in Hy. destruct Hy as (r' & Hr' & ->). specialize (Hdir r' i ltac:(lia) Hi). now rewrite E in Hdir.
      + destruct (Hc eq_refl) as [E1 E2]. rewrite E1, E2. pose proof (Hdir r i Hr Hi) as Hd. rewrite E in Hd. split; [exact Hd|].
        assert (entry S r i <= vsum (col i S)); [|lra]. apply term_le_sum; [|exact Hin].
        intros y Hy. apply col_entries in Hy. destruct Hy as (r' & Hr' & ->). specialize (Hdir r' i ltac:(lia) Hi). now rewrite E in Hdir.
  Qed.

  (* ---- the attainable costs are the same set ------------------------------------------------------------------- *)
  Definition first_conduit (t : list R) : list (list R) := t :: repeat (zeros n) (k - 1).

  Lemma first_conduit_shaped t : (1 <= k)%nat -> List.length t = n -> shaped_kn (first_conduit t).
  Proof.
    intros Hk Ht. split; [unfold first_conduit; change (S (List.length (repeat (zeros (A:=R) n) (k - 1))) = k); rewrite repeat_length; lia|].
    constructor; [exact Ht|]. apply Forall_forall. intros row Hrow. apply repeat_spec in Hrow. subst. apply zeros_length.
  Qed.

  Lemma entry_first_conduit t r i : entry (first_conduit t) r i = match r with O => nth i t 0 | S _ => 0 end.
  Proof.
    unfold entry, first_conduit. destruct r as [|r]; [reflexivity|]. cbn [nth].
    destruct (Nat.lt_ge_cases r (k - 1)) as [Hlt|Hge].
    - rewrite (nth_indep _ _ (zeros n)) by (rewrite repeat_length; lia). rewrite repeat_nth by lia. apply nth_zeros.
    - rewrite (nth_overflow (repeat (zeros (A:=R) n) (k - 1)) []) by (rewrite repeat_length; lia). now destruct i.
  Qed.

  Theorem same_attainable_costs : one_directional -> (1 <= k)%nat -> (0 < n)%nat ->
    (forall S, shaped_kn S -> mf_feasible S ->
       dev_feasible (colsum n S) /\ mf_cost ops l S zero_prices = dev_cost0 (colsum n S)) /\
    (forall t, List.length t = n -> dev_feasible t ->
       shaped_kn (first_conduit t) /\ mf_feasible (first_conduit t) /\ mf_cost ops l (first_conduit t) zero_prices = dev_cost0 t).
  Proof.
    intros H1 Hk Hn. split.
    - intros S HS Hf. split; [apply (feasible_iff S H1 HS Hn); exact Hf|apply mf_cost_zero_price].
    - intros t Ht Hf. pose proof (first_conduit_shaped t Hk Ht) as HS. split; [exact HS|].
      assert (Hc : colsum n (first_conduit t) = t) by (apply colsum_first_row; exact Ht).
      split; [|rewrite mf_cost_zero_price, Hc; reflexivity].
      apply (feasible_iff _ H1 HS Hn). rewrite Hc. split; [|exact Hf].
      destruct H1 as (Hb & Hlh & Hprod & Hcons). destruct Hf as [Hbox _].
      intros r i Hr Hi. rewrite entry_first_conduit. specialize (Hbox i Hi). destruct producer eqn:E.
      + destruct r; [|lra]. specialize (Hprod eq_refl i Hi). lra.
      + destruct r; [|lra]. specialize (Hcons eq_refl i Hi). lra.
  Qed.

  (* hence the same lower bounds, and a minimiser of one gives a minimiser of the other *)
  Corollary same_lower_bounds : one_directional -> (1 <= k)%nat -> (0 < n)%nat -> forall m,
    (forall S, shaped_kn S -> mf_feasible S -> m <= mf_cost ops l S zero_prices) <->
    (forall t, List.length t = n -> dev_feasible t -> m <= dev_cost0 t).
  Proof.
    intros H1 Hk Hn m. destruct (same_attainable_costs H1 Hk Hn) as [HA HB]. split.
    - intros Hall t Ht Hf. destruct (HB t Ht Hf) as (HS & Hmf & <-). apply Hall; assumption.
    - intros Hall S HS Hf. destruct (HA S HS Hf) as (Hd & ->). apply Hall; [|exact Hd].
      destruct HS as [_ HF]. now apply colsum_length.
  Qed.

  (* ---- projection: the slot totals of the projection are the wrapped device's projection of the slot totals ------- *)
  Lemma project_totals S : (1 <= k)%nat -> List.length (colsum n S) = n ->
    colsum n (mf_project ops l k S) = clamp b (colsum n S).
  Proof.
    intros Hk Hc. unfold mf_project. set (t := clamp b (colsum n S)).
    assert (Ht : List.length t = n) by (unfold t, clamp; rewrite map_length, idx_length; exact Hc).
    rewrite colsum_repeat by (rewrite map_length; exact Ht). rewrite map_map.
    rewrite <- (map_id t) at 2. apply map_ext. intros x. numR. unfold nofnat. numR. rewrite <- INR_IZR_INZ.
    field. apply not_0_INR. lia.
  Qed.

  Lemma clamp_inside (x : list R) : (forall i, (i < List.length x)%nat -> lo b i <= nth i x 0 <= hi b i) -> clamp b x = x.
  Proof.
    intros Hin. unfold clamp. apply nth_ext with (d := 0) (d' := 0); [now rewrite map_length, idx_length|].
    intros i Hi. rewrite map_length, idx_length in Hi.
    rewrite (nth_map_idx (fun i v => nmax (lo b i) (nmin (hi b i) v)) x i 0 Hi). specialize (Hin i Hi).
    unfold nmax, nmin. numR. destruct (Rleb (hi b i) (nth i x 0)) eqn:E1.
    - apply Rleb_true in E1. destruct (Rleb (lo b i) (hi b i)) eqn:E2; [apply Rleb_true in E2|apply Rleb_false in E2]; lra.
    - apply Rleb_false in E1. destruct (Rleb (lo b i) (nth i x 0)) eqn:E2; [apply Rleb_true in E2|apply Rleb_false in E2]; lra.
  Qed.

  Theorem project_keeps_totals S : (1 <= k)%nat -> List.length (colsum n S) = n ->
    (forall i, (i < n)%nat -> lo b i <= nth i (colsum n S) 0 <= hi b i) ->
    colsum n (mf_project ops l k S) = colsum n S.
  Proof. intros Hk Hc Hin. rewrite project_totals by auto. apply clamp_inside. rewrite Hc. exact Hin. Qed.
End Adaptor.

(* non-vacuity: a two-slot consumer with bounds [0,2] x [1,3] is one-directional *)
Lemma example_one_directional :
  one_directional (std_ops (A:=R)) (Build_leafdev 2 [(0, 2); (1, 3)] [] KDev).
Proof.
  assert (P : producer (std_ops (A:=R)) (Build_leafdev 2 [(0, 2); (1, 3)] [] KDev) = false).
  { apply producer_false_iff. intros lh [<-|[<-|[]]]; cbn; lra. }
  split; [reflexivity|]. split; [|split].
  - intros [|[|i]] Hi; unfold lo, hi; cbn; try lra. cbn in Hi. lia.
  - rewrite P. discriminate.
  - intros _ [|[|i]] Hi; unfold lo; cbn; try lra. cbn in Hi. lia.
Qed.
