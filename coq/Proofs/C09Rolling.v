(* C09, rolling horizon: the state over a horizon split in two is the state over the first part followed by the state over the
   second part STARTED FROM the state the first part ends in - for the specification recurrence, for the reported storage state
   and for the thermal temperatures.  Every length of both parts. *)
From Coq Require Import ZArith Reals List Arith Lia Lra.
From DK Require Import Num NumR Vec.
From DK.Model Require Import Leaf Fn Dev StateSpec.
From DK.Proofs Require Import C09Proofs.
Import ListNotations.
Local Open Scope R_scope.

Lemma last_cons_default (x : R) : forall l d d', last (x :: l) d = last (x :: l) d'.
Proof.
  induction l as [|y l IH] in x |- *; intros d d'; [reflexivity|].
  change (last (y :: l) d = last (y :: l) d'). apply IH.
Qed.

Lemma state_rec_app s : forall (u v : list R) prev,
  state_rec s prev (u ++ v) = state_rec s prev u ++ state_rec s (last (state_rec s prev u) prev) v.
Proof.
  induction u as [|x u IH]; intros v prev; cbn [app state_rec]; [reflexivity|].
  rewrite IH. cbn [app]. f_equal. f_equal. f_equal.
  destruct u as [|y u']; [reflexivity|]. cbn [state_rec].
  set (a := s * prev + x). set (l := state_rec s (s * a + y) u').
  change (last ((s * a + y) :: l) a = last (a :: (s * a + y) :: l) prev).
  change (last (a :: (s * a + y) :: l) prev) with (last ((s * a + y) :: l) prev).
  apply last_cons_default.
Qed.

(* the final state of a recurrence run: the value the next horizon starts from *)
Definition final_state (s prev : R) (u : list R) : R := last (state_rec s prev u) prev.

Lemma map_stored_app e (r1 r2 : list R) : map (stored e) (r1 ++ r2) = map (stored e) r1 ++ map (stored e) r2.
Proof. apply map_app. Qed.

(* storage: a device whose start level is re-based on the state the first part ends in (start' * capacity = that state, same
   sustainment and efficiency) reports over the second part exactly the tail of what the original reports over the whole horizon *)
Lemma storage_rolling (q q' : sparams R) (r1 r2 : list R) :
  sp_sus q' = sp_sus q -> sp_eff q' = sp_eff q ->
  sp_start q' * sp_capacity q' = last (sdev_charge q r1) (sp_start q * sp_capacity q) ->
  sdev_charge q (r1 ++ r2) = sdev_charge q r1 ++ sdev_charge q' r2.
Proof.
  intros Hs He Hb. rewrite !storage_is_recurrence, map_stored_app, state_rec_app.
  rewrite storage_is_recurrence in Hb. rewrite Hs, He, Hb. reflexivity.
Qed.

Lemma thermal_in_app s e : forall (x1 x2 r1 r2 : list R), length x1 = length r1 ->
  thermal_in s e (x1 ++ x2) (r1 ++ r2) = thermal_in s e x1 r1 ++ thermal_in s e x2 r2.
Proof.
  induction x1 as [|t x1 IH]; intros x2 r1 r2 Hl; destruct r1 as [|x r1]; try discriminate Hl; [reflexivity|].
  cbn [app thermal_in]. f_equal. apply IH. now injection Hl.
Qed.

(* thermal: the same for the temperatures, with the external temperatures split at the same slot *)
Lemma thermal_rolling (q q1 q2 : tparams R) (r1 r2 : list R) :
  tp_ext q = tp_ext q1 ++ tp_ext q2 -> length (tp_ext q1) = length r1 -> length (tp_ext q2) = length r2 ->
  tp_sus q1 = tp_sus q -> tp_eff q1 = tp_eff q -> tp_init q1 = tp_init q ->
  tp_sus q2 = tp_sus q -> tp_eff q2 = tp_eff q -> tp_init q2 = last (tdev_r2t q1 r1) (tp_init q) ->
  tdev_r2t q (r1 ++ r2) = tdev_r2t q1 r1 ++ tdev_r2t q2 r2.
Proof.
  intros Hx Hl1 Hl2 Hs1 He1 Hi1 Hs2 He2 Hi2.
  rewrite (thermal_is_recurrence q) by (rewrite Hx, !app_length; lia).
  rewrite (thermal_is_recurrence q1 r1 Hl1) in *. rewrite (thermal_is_recurrence q2 r2 Hl2).
  rewrite Hx, thermal_in_app, state_rec_app by exact Hl1.
  rewrite Hs1, He1, Hi1, Hs2, He2, Hi2, Hs1, He1, Hi1. reflexivity.
Qed.

(* non-vacuity: the example of C09_example_storage split after its first slot *)
Lemma example_rolling :
  state_rec (1/2) 4 (map (stored (1/2)) ([1] ++ [-1; 0]))
  = state_rec (1/2) 4 (map (stored (1/2)) [1]) ++ state_rec (1/2) (5/2) (map (stored (1/2)) [-1; 0]).
Proof.
  rewrite map_stored_app, state_rec_app. f_equal. f_equal.
  cbn [map state_rec last]. destruct (stored_cases (1/2) 1) as [H _]. rewrite H by lra. lra.
Qed.
