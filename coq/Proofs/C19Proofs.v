(* C19: step() - for every behaviour of its two inner SLSQP calls (oracles): what is returned, its shape, and - under the
   oracles' contracts - feasibility, cost monotonicity along any number of steps, and strict progress. *)
From Coq Require Import ZArith Reals List Bool Arith Lia Lra Psatz.
From Coquelicot Require Import Coquelicot.
From DK Require Import Num NumR Vec.
From DK.Model Require Import Leaf Fn Dev Tree Solve.
From DK.Proofs Require Import VecFacts RVec VecAlg Convex TreeFacts C05Proofs.
Import ListNotations.
Local Open Scope R_scope.

Definition convex_set (F : list R -> Prop) : Prop := forall x y l, F x -> F y -> 0 <= l <= 1 -> F (vlerp l x y).

Lemma step_point_vlerp (s z : list R) x : length z = length s -> step_point s z x = vlerp x z s.
Proof. intros HL. unfold step_point. now apply segment_vlerp. Qed.
Lemma step_point_0 (s z : list R) : length z = length s -> step_point s z 0 = s.
Proof.
  intros HL. unfold step_point. rewrite vscale_0, vsub_length, HL, Nat.min_id. apply vadd_zeros_r.
Qed.
Lemma step_point_length (s z : list R) x : length z = length s -> length (step_point s z x) = length s.
Proof. intros HL. unfold step_point. rewrite vadd_length, vscale_length, vsub_length. lia. Qed.

(* the convex combination of two feasible flows is feasible *)
Lemma step_feasible (F : list R -> Prop) (s z : list R) x : convex_set F -> F s -> F z -> length z = length s -> 0 <= x <= 1 ->
  F (step_point s z x).
Proof. intros Hc Fs Fz HL Hx. rewrite step_point_vlerp by auto. now apply Hc. Qed.

Lemma tolerated_spec (o : optresult R) : tolerated o = true <-> o_success o = true \/ o_status o = 8%Z.
Proof. unfold tolerated. rewrite orb_true_iff, Z.eqb_eq. tauto. Qed.

(* ---- what step_model returns, for all oracle behaviours ---- *)
Section StepModel.
  Variable uproject : projcall R -> optresult R.
  Variable linesearch : (R -> R) -> optresult R.
  Variable dv : devview R.

  Definition the_call (s : list R) (t : R) : projcall R :=
    {| pc_p := vsub s (vscale t (concat (dv_deriv dv s))); pc_x0 := s; pc_bounds := dv_bounds dv; pc_cons := dv_cons dv |}.
  Definition phi_of (s z : list R) : R -> R := fun x => dv_cost dv (step_point s z x).

  Lemma step_accept_inv s t m ol : step_model uproject linesearch dv s t = StAccept m ol ->
    let o := uproject (the_call s t) in
    tolerated o = true /\ length (o_x o) = length s /\ ol = linesearch (phi_of s (o_x o)) /\ tolerated ol = true /\
    length s = (dv_rows dv * dv_n dv)%nat /\
    exists x, o_x ol = [x] /\ m = reshape (dv_rows dv) (dv_n dv) (step_point s (o_x o) x).
  Proof.
    unfold step_model. fold (the_call s t). intros H. cbv zeta.
    destruct (Nat.eqb (length (o_x (uproject (the_call s t)))) (length s)) eqn:E2; cbn [negb] in H; [|discriminate].
    destruct (tolerated (uproject (the_call s t))) eqn:E1; cbn [negb] in H; [|discriminate].
    apply Nat.eqb_eq in E2. fold (phi_of s (o_x (uproject (the_call s t)))) in H.
    destruct (tolerated (linesearch (phi_of s (o_x (uproject (the_call s t)))))) eqn:E3; cbn [negb] in H; [|discriminate].
    destruct (o_x (linesearch (phi_of s (o_x (uproject (the_call s t)))))) as [|x [|x2 r]] eqn:E4; try discriminate.
    destruct (Nat.eqb (length s) (dv_rows dv * dv_n dv)) eqn:E5; [|discriminate]. apply Nat.eqb_eq in E5.
    injection H as <- <-. repeat split; auto. exists x. auto.
  Qed.

  (* a failure report other than status 8 of either inner call becomes OptimizationException *)
  Lemma step_raises_on_projection_failure s t : length (o_x (uproject (the_call s t))) = length s ->
    tolerated (uproject (the_call s t)) = false -> step_model uproject linesearch dv s t = StRaiseOptimization.
  Proof. intros L E. unfold step_model. fold (the_call s t). now rewrite L, Nat.eqb_refl, E. Qed.
  Lemma step_raises_on_linesearch_failure s t : let o := uproject (the_call s t) in
    tolerated o = true -> length (o_x o) = length s -> tolerated (linesearch (phi_of s (o_x o))) = false ->
    step_model uproject linesearch dv s t = StRaiseOptimization.
  Proof.
    cbv zeta. intros E1 E2 E3. unfold step_model. fold (the_call s t). rewrite E2, Nat.eqb_refl. cbn [negb].
    rewrite E1. cbn [negb]. fold (phi_of s (o_x (uproject (the_call s t)))). now rewrite E3.
  Qed.

  Lemma step_shape s t m ol : (0 < dv_n dv)%nat -> step_model uproject linesearch dv s t = StAccept m ol ->
    length m = dv_rows dv /\ List.Forall (fun row => length row = dv_n dv) m /\ concat m = step_point s (o_x (uproject (the_call s t))) (nth 0 (o_x ol) 0).
  Proof.
    intros Hn H. destruct (step_accept_inv s t m ol H) as [_ [L [_ [_ [Ls [x [Ex ->]]]]]]].
    assert (Lp : length (step_point s (o_x (uproject (the_call s t))) x) = (dv_rows dv * dv_n dv)%nat) by (rewrite step_point_length; lia).
    destruct (reshape_shape_gen (dv_rows dv) (dv_n dv) _ Hn Lp) as [S1 S2]. split; auto. split; auto.
    rewrite Ex. cbn [nth]. unfold reshape. apply concat_chunk. lia.
  Qed.

  (* ---- under the oracles' contracts ---- *)
  Variable F : list R -> Prop.                 (* the feasible set: bounds and constraints *)
  Hypothesis F_convex : convex_set F.
  (* utils.project returns a feasible point whenever its report is tolerated (SLSQP's contract; not provable) *)
  Hypothesis uproject_contract : forall call, tolerated (uproject call) = true -> F (o_x (uproject call)).
  (* the bounded line search returns a step in [0,1] that is not worse than x = 0 (its start) *)
  Hypothesis linesearch_contract : forall phi x, tolerated (linesearch phi) = true -> o_x (linesearch phi) = [x] ->
    0 <= x <= 1 /\ phi x <= phi 0.

  Lemma step_feasible_not_worse s t m ol : F s -> step_model uproject linesearch dv s t = StAccept m ol ->
    F (concat m) /\ dv_cost dv (concat m) <= dv_cost dv s.
  Proof.
    intros Fs H. destruct (step_accept_inv s t m ol H) as [T1 [L [Eol [T2 [Ls [x [Ex Em]]]]]]].
    pose proof (uproject_contract _ T1) as Fz. rewrite Eol in T2, Ex.
    destruct (linesearch_contract _ x T2 Ex) as [Hx Hphi].
    assert (Ec : concat m = step_point s (o_x (uproject (the_call s t))) x).
    { rewrite Em. unfold reshape. apply concat_chunk. rewrite step_point_length; lia. }
    rewrite Ec. split; [apply step_feasible; auto|].
    unfold phi_of in Hphi. now rewrite (step_point_0 s _ L) in Hphi.
  Qed.

  (* any number of repeated steps: feasibility is kept and the cost never increases *)
  Lemma steps_monotone t k : forall s s', F s -> steps_model uproject linesearch dv s t k = Some s' ->
    F s' /\ dv_cost dv s' <= dv_cost dv s.
  Proof.
    induction k as [|k IH]; intros s s' Fs H; cbn [steps_model] in H.
    - injection H as <-. split; [auto|lra].
    - destruct (step_model uproject linesearch dv s t) as [m ol| |] eqn:E; try discriminate.
      destruct (step_feasible_not_worse s t m ol Fs E) as [Fm Hm]. destruct (IH _ _ Fm H) as [Fs' Hs']. split; auto. lra.
  Qed.
End StepModel.

(* ---- descent: the projected gradient step is a descent direction ---- *)
Lemma descent_direction (F : list R -> Prop) (s g z : list R) t : 0 < t -> length g = length s -> length z = length s ->
  F s -> (forall y, F y -> dot (vsub (vsub s (vscale t g)) z) (vsub y z) <= 0) ->
  dot g (vsub z s) <= - (dist2 z s / t).
Proof.
  intros Ht Lg Lz Fs Hproj. specialize (Hproj s Fs).
  assert (L1 : length (vscale t g) = length s) by (rewrite vscale_length; lia).
  assert (L2 : length (vsub s (vscale t g)) = length z) by (rewrite vsub_length; lia).
  rewrite (dot_vsub_l _ _ _ L2), (dot_vsub_l _ _ _ (eq_sym L1)), dot_vscale_l in Hproj.
  rewrite !dot_vsub_r in Hproj by lia. unfold dist2. rewrite dot_vsub_l, !dot_vsub_r by lia.
  rewrite (dot_comm z s) in *. apply (Rmult_le_reg_l t); [exact Ht|]. unfold Rdiv. 
  replace (t * - ((dot z z - dot s z - (dot s z - dot s s)) * / t)) with (- (dot z z - dot s z - (dot s z - dot s s))) by (field; lra).
  lra.
Qed.

(* a negative directional derivative gives a strictly cheaper point on the segment *)
Lemma strict_decrease_possible (cost : list R -> R) (s z g : list R) : length z = length s ->
  has_gradient cost s g -> dot g (vsub z s) < 0 ->
  exists x, 0 < x <= 1 /\ cost (step_point s z x) < cost s.
Proof.
  intros HL Hg Hneg. specialize (Hg z HL). set (l := dot g (vsub z s)) in *.
  pose (phi := fun x => cost (step_point s z x)). change (is_derive phi 0 l) in Hg.
  assert (P0 : phi 0 = cost s) by (unfold phi; now rewrite step_point_0).
  apply is_derive_Reals in Hg. assert (He : 0 < - l / 2) by lra.
  destruct (Hg (- l / 2) He) as [[d Hd] Hq]. cbn [pos] in Hq.
  set (h := Rmin (d / 2) 1). assert (Hh : 0 < h <= 1) by (unfold h, Rmin; destruct (Rle_dec (d / 2) 1); lra).
  assert (Hhd : Rabs h < d) by (rewrite Rabs_pos_eq by lra; unfold h, Rmin; destruct (Rle_dec (d / 2) 1); lra).
  assert (Hne : h <> 0) by lra. specialize (Hq h Hne Hhd). rewrite Rplus_0_l, P0 in Hq.
  exists h. split; auto. fold (phi h). apply Rabs_def2 in Hq. destruct Hq as [Hq _].
  assert (Q : (phi h - cost s) / h < l / 2) by lra.
  assert (Q2 : phi h - cost s < l / 2 * h).
  { apply (Rmult_lt_reg_r (/ h)); [apply Rinv_0_lt_compat; lra|]. rewrite Rmult_assoc, Rinv_r by lra. unfold Rdiv in Q. lra. }
  nra.
Qed.

(* with an exact line search (no point of [0,1] is better than the returned one) the step strictly lowers the cost whenever the
   projected gradient step moves at all *)
Theorem strict_progress (F : list R -> Prop) (cost : list R -> R) (s g z : list R) t xs :
  0 < t -> length g = length s -> length z = length s -> F s ->
  (forall y, F y -> dot (vsub (vsub s (vscale t g)) z) (vsub y z) <= 0) ->
  has_gradient cost s g -> z <> s ->
  (forall x, 0 <= x <= 1 -> cost (step_point s z xs) <= cost (step_point s z x)) ->
  cost (step_point s z xs) < cost s.
Proof.
  intros Ht Lg Lz Fs Hproj Hg Hne Hbest.
  pose proof (descent_direction F s g z t Ht Lg Lz Fs Hproj) as Hd.
  assert (Hpos : 0 < dist2 z s).
  { pose proof (dist2_nonneg z s) as Hn. destruct (Req_dec (dist2 z s) 0) as [E|E]; [|lra]. exfalso. apply Hne.
    unfold dist2 in E. apply dot_self_zero in E. rewrite vsub_length, Lz, Nat.min_id in E.
    apply list_eq_nth; auto. intros i Hi. assert (Ei : nth i (vsub z s) 0 = 0).
    { rewrite E. unfold zeros, vconst. apply repeat_nth. lia. }
    rewrite nth_vsub in Ei by lia. lra. }
  assert (Hneg : dot g (vsub z s) < 0).
  { assert (0 < dist2 z s / t) by (apply Rdiv_lt_0_compat; lra). lra. }
  destruct (strict_decrease_possible cost s z g Lz Hg Hneg) as [x [Hx Hlt]].
  specialize (Hbest x ltac:(lra)). lra.
Qed.

(* non-vacuity: on F = [0,1] (one slot), cost 2s, s = 1, t = 1/2: the projected step is z = 0 and the cost falls from 2 to 0 *)
Example step_example : step_point [1] [0] 1 = [0] /\ dot [2] (vsub [0] [1]) <= - (dist2 [0] [1] / (1 / 2)).
Proof.
  split.
  - unfold step_point. change (vsub [0] [1]) with [0 - 1]. change (vscale 1 [0 - 1]) with [1 * (0 - 1)].
    change (vadd [1] [1 * (0 - 1)]) with [1 + 1 * (0 - 1)]. f_equal. ring.
  - unfold dist2. change (vsub [0] [1]) with [0 - 1]. rewrite !dot_cons, !dot_nil_l. lra.
Qed.
