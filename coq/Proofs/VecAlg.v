(* Real inner-product algebra over lists of any length (used by C18, C05, C19): linearity of dot, squared distance,
   the three-point identity and the obtuse-angle criterion for nearest points. *)
From Coq Require Import ZArith Reals List Bool Arith Lia Lra Psatz.
From DK Require Import Num NumR Vec.
From DK.Model Require Import Leaf.
From DK.Proofs Require Import VecFacts RVec.
Import ListNotations.
Local Open Scope R_scope.

Definition dist2 (x y : list R) : R := dot (A:=R) (vsub x y) (vsub x y).

Lemma vadd_length (a b : list R) : length (vadd a b) = Nat.min (length a) (length b).
Proof. apply map2_length. Qed.
Lemma vsub_length (a b : list R) : length (vsub a b) = Nat.min (length a) (length b).
Proof. apply map2_length. Qed.
Lemma vscale_length (k : R) (a : list R) : length (vscale k a) = length a.
Proof. apply map_length. Qed.

Lemma vadd_cons a x b y : vadd (A:=R) (a :: x) (b :: y) = (a + b) :: vadd x y. Proof. reflexivity. Qed.
Lemma vsub_cons a x b y : vsub (A:=R) (a :: x) (b :: y) = (a - b) :: vsub x y. Proof. reflexivity. Qed.
Lemma vscale_cons k a x : vscale (A:=R) k (a :: x) = (k * a) :: vscale k x. Proof. reflexivity. Qed.
Lemma dot_nil_r (a : list R) : dot a [] = 0. Proof. destruct a; reflexivity. Qed.

Lemma dot_comm (a b : list R) : dot a b = dot b a.
Proof.
  revert b; induction a as [|x a IH]; intros [|y b]; try reflexivity.
  rewrite !dot_cons, IH. ring.
Qed.
Lemma dot_vadd_l (a b c : list R) : length a = length b -> dot (vadd a b) c = dot a c + dot b c.
Proof.
  revert b c; induction a as [|x a IH]; intros [|y b] c HL; simpl in HL; try lia.
  - unfold dot; simpl. ring.
  - destruct c as [|z c]; [rewrite !dot_nil_r; ring|]. rewrite vadd_cons, !dot_cons, IH by lia. ring.
Qed.
Lemma dot_vsub_l (a b c : list R) : length a = length b -> dot (vsub a b) c = dot a c - dot b c.
Proof.
  revert b c; induction a as [|x a IH]; intros [|y b] c HL; simpl in HL; try lia.
  - unfold dot; simpl. ring.
  - destruct c as [|z c]; [rewrite !dot_nil_r; ring|]. rewrite vsub_cons, !dot_cons, IH by lia. ring.
Qed.
Lemma dot_vscale_l k (a c : list R) : dot (vscale k a) c = k * dot a c.
Proof.
  revert c; induction a as [|x a IH]; intros [|z c]; try (unfold dot; simpl; ring).
  rewrite vscale_cons, !dot_cons, IH. ring.
Qed.
Lemma dot_vadd_r (a b c : list R) : length a = length b -> dot c (vadd a b) = dot c a + dot c b.
Proof. intros. rewrite dot_comm, dot_vadd_l by auto. now rewrite (dot_comm a), (dot_comm b). Qed.
Lemma dot_vsub_r (a b c : list R) : length a = length b -> dot c (vsub a b) = dot c a - dot c b.
Proof. intros. rewrite dot_comm, dot_vsub_l by auto. now rewrite (dot_comm a), (dot_comm b). Qed.
Lemma dot_vscale_r k (a c : list R) : dot c (vscale k a) = k * dot c a.
Proof. now rewrite dot_comm, dot_vscale_l, dot_comm. Qed.

Lemma dot_self_nonneg (a : list R) : 0 <= dot a a.
Proof. induction a as [|x a IH]; [unfold dot; simpl; lra|]. rewrite dot_cons. nra. Qed.
Lemma dot_self_zero (a : list R) : dot a a = 0 -> a = zeros (length a).
Proof.
  induction a as [|x a IH]; intros E; [reflexivity|]. rewrite dot_cons in E.
  pose proof (dot_self_nonneg a) as Hn. assert (x = 0) by nra. assert (dot a a = 0) by nra.
  change (zeros (length (x :: a))) with (0 :: zeros (A:=R) (length a)). subst x. f_equal. now apply IH.
Qed.

Lemma dist2_nonneg x y : 0 <= dist2 x y. Proof. apply dot_self_nonneg. Qed.
Lemma dist2_cons a x b y : dist2 (a :: x) (b :: y) = (a - b) * (a - b) + dist2 x y.
Proof. unfold dist2. now rewrite vsub_cons, dot_cons. Qed.
Lemma dist2_nil : dist2 [] [] = 0. Proof. reflexivity. Qed.
Lemma dist2_refl x : dist2 x x = 0.
Proof. induction x as [|a x IH]; [reflexivity|]. rewrite dist2_cons, IH. ring. Qed.
Lemma dist2_sym x y : dist2 x y = dist2 y x.
Proof.
  revert y; induction x as [|a x IH]; intros [|b y]; try reflexivity. rewrite !dist2_cons, IH. ring.
Qed.

(* three points *)
Lemma dist2_three (x p y : list R) : length p = length x -> length y = length x ->
  dist2 x y = dist2 x p + dist2 p y + 2 * dot (vsub x p) (vsub p y).
Proof.
  revert p y; induction x as [|a x IH]; intros [|b p] [|c y] Hp Hy; simpl in Hp, Hy; try lia.
  - unfold dist2, dot; simpl. ring.
  - rewrite !dist2_cons, !vsub_cons, dot_cons, (IH p y) by lia. ring.
Qed.

(* <x - p, y - p> <= 0 makes p at least as near to x as y is *)
Lemma nearest_of_obtuse (x p y : list R) : length p = length x -> length y = length x ->
  dot (vsub x p) (vsub y p) <= 0 -> dist2 x p <= dist2 x y.
Proof.
  intros Hp Hy Hd. rewrite (dist2_three x p y Hp Hy).
  assert (E : dot (vsub x p) (vsub p y) = - dot (vsub x p) (vsub y p)).
  { rewrite !dot_vsub_r by lia. ring. }
  rewrite E. pose proof (dist2_nonneg p y). lra.
Qed.

(* x + t v *)
Lemma vsub_vadd_cancel (x v : list R) : length v = length x -> vsub (vadd x v) x = v.
Proof.
  revert v; induction x as [|a x IH]; intros [|b v] HL; simpl in HL; try lia; [reflexivity|].
  rewrite vadd_cons, vsub_cons, IH by lia. f_equal. ring.
Qed.
Lemma vsub_vadd_cancel_l (x v : list R) : length v = length x -> vsub x (vadd x v) = vscale (-1) v.
Proof.
  revert v; induction x as [|a x IH]; intros [|b v] HL; simpl in HL; try lia; [reflexivity|].
  rewrite vadd_cons, vsub_cons, vscale_cons, IH by lia. f_equal. ring.
Qed.
Lemma vscale_vscale k l (v : list R) : vscale k (vscale l v) = vscale (k * l) v.
Proof. induction v as [|a v IH]; [reflexivity|]. rewrite !vscale_cons, IH. f_equal. ring. Qed.
Lemma vscale_1 (v : list R) : vscale 1 v = v.
Proof. induction v as [|a v IH]; [reflexivity|]. rewrite vscale_cons, IH. f_equal. ring. Qed.
Lemma vscale_0 (v : list R) : vscale 0 v = zeros (length v).
Proof.
  induction v as [|a v IH]; [reflexivity|]. rewrite vscale_cons, IH.
  change (zeros (length (a :: v))) with (0 :: zeros (A:=R) (length v)). f_equal. ring.
Qed.
Lemma vadd_zeros_r (x : list R) : vadd x (zeros (length x)) = x.
Proof.
  induction x as [|a x IH]; [reflexivity|]. change (zeros (length (a :: x))) with (0 :: zeros (A:=R) (length x)).
  rewrite vadd_cons, IH. f_equal. ring.
Qed.
Lemma dot_zeros_l n (x : list R) : dot (zeros n) x = 0.
Proof.
  revert x; induction n as [|n IH]; intros x; [reflexivity|]. destruct x as [|a x]; [reflexivity|].
  change (zeros (S n)) with (0 :: zeros (A:=R) n). rewrite dot_cons, IH. ring.
Qed.

(* pointwise equality *)
Lemma list_eq_nth (x y : list R) : length x = length y -> (forall i, (i < length x)%nat -> nth i x 0 = nth i y 0) -> x = y.
Proof.
  revert y; induction x as [|a x IH]; intros [|b y] HL Hn; simpl in HL; try lia; [reflexivity|].
  f_equal; [apply (Hn 0%nat); simpl; lia|]. apply IH; [lia|]. intros i Hi. apply (Hn (S i)). simpl; lia.
Qed.
Lemma nth_vsub (a b : list R) i : (i < length a)%nat -> (i < length b)%nat -> nth i (vsub a b) 0 = nth i a 0 - nth i b 0.
Proof.
  revert b i; induction a as [|x a IH]; intros [|y b] i Ha Hb; simpl in Ha, Hb; try lia.
  destruct i as [|i]; [reflexivity|]. rewrite vsub_cons. simpl. apply IH; lia.
Qed.
