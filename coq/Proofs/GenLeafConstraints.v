(* The constraint lists of the LEAF classes as regenerated in Gen/Constraints.v (Device.constraints, SDevice.constraints) = the leaf
   constraint model (used by C03 and C06; kept apart from Proofs/GenConstraints.v, the set / adaptor levels used by C04 and C05). *)
From Coq Require Import ZArith Reals List Bool Arith Lia Lra String FunctionalExtensionality.
From DK Require Import Num NumR Vec.
From DK.Model Require Import Leaf Fn Dev Tree ConOps.
From DK.Gen Require Import Constraints.
From DK.Proofs Require Import VecFacts RVec.
Import ListNotations.

Lemma flat_map_singleton {B C} (f : B -> C) (l : list B) : flat_map (fun x => [f x]) l = map f l.
Proof. induction l as [|x l IH]; cbn; [reflexivity | now rewrite IH]. Qed.

Section LeafAnyCarrier.
  Context {A : Type} `{Num A}.
  Local Open Scope num_scope.


  (* Device.constraints *)
  Theorem gen_device_constraints n (cbs : list (cbound A)) : Device_constraints n cbs = cb_cons n cbs.
  Proof. unfold Device_constraints, cb_cons. destruct cbs; reflexivity. Qed.
End LeafAnyCarrier.


Lemma flat_map_ext_in' {B C} (f g : B -> list C) (l : list B) : (forall x, In x l -> f x = g x) -> flat_map f l = flat_map g l.
Proof. induction l as [|x l IH]; intros E; [reflexivity|]. cbn [flat_map]. rewrite (E x (or_introl eq_refl)), IH; [reflexivity|]. intros y Hy. apply E. now right. Qed.

(* ---- SDevice.constraints, over the reals -------------------------------------------------------------------------------------- *)
Local Open Scope R_scope.
Lemma sust_matrix_nth su n i : nth i (sust_matrix (A:=R) su n) [] = if (i <? n)%nat then sust_row su n i else [].
Proof.
  unfold sust_matrix. destruct (Nat.ltb_spec i n) as [Hi|Hi].
  - rewrite (nth_indep _ [] (sust_row su n 0)) by (now rewrite map_length, seq_length). rewrite (map_nth (sust_row su n)). now rewrite seq_nth.
  - apply nth_overflow. now rewrite map_length, seq_length.
Qed.
Lemma vmul_effof e (r : list R) : vmul (map (effof e) r) r = effv e r.
Proof. unfold effv, vmul. induction r as [|x r IH]; [reflexivity|]. cbn [map map2]. f_equal; [cbn; ring | exact IH]. Qed.
Lemma sust_row_0 su i : sust_row (A:=R) su 0 i = [].
Proof. reflexivity. Qed.
Lemma dot_nil_any (a : list R) : dot a [] = 0.
Proof. destruct a; reflexivity. Qed.

Lemma con_ext (e : bool) (F1 F2 : list R -> R) (J1 J2 : list R -> list R) : (forall r, F1 r = F2 r) -> (forall r, J1 r = J2 r) ->
  Build_con e F1 (Some J1) = Build_con e F2 (Some J2).
Proof. intros HF HJ. apply functional_extensionality in HF. apply functional_extensionality in HJ. now subst. Qed.
Lemma con_ext0 (e : bool) (F1 F2 : list R -> R) : (forall r, F1 r = F2 r) -> Build_con e F1 None = Build_con e F2 None.
Proof. intros HF. apply functional_extensionality in HF. now subst. Qed.

Theorem gen_sdevice_constraints base (q : sparams R) n bnd : SDevice_constraints base q n bnd = base ++ sdev_cons q n bnd.
Proof.
  unfold SDevice_constraints, sdev_cons. f_equal.
  assert (Esoc : forall i (r : list R), (i < n)%nat ->
            sdev_base q * npown (sp_sus q) (i + 1) + dot (vmul (map (effof (sp_eff q)) r) r) (nth i (sust_matrix (sp_sus q) n) []) = s_soc q n r i).
  { intros i r Hi. unfold s_soc. rewrite sust_matrix_nth. apply Nat.ltb_lt in Hi. rewrite Hi. rewrite vmul_effof. now rewrite Nat.add_1_r. }
  assert (Ejac : forall i (r : list R), (i < n)%nat -> vmul (map (effof (sp_eff q)) r) (nth i (sust_matrix (sp_sus q) n) []) = s_socjac q n r i).
  { intros i r Hi. unfold s_socjac. rewrite sust_matrix_nth. apply Nat.ltb_lt in Hi. now rewrite Hi. }
  assert (Ejacn : forall i (r : list R), (i < n)%nat -> vmul (vopp (map (effof (sp_eff q)) r)) (nth i (sust_matrix (sp_sus q) n) []) = vopp (s_socjac q n r i)).
  { intros i r Hi. rewrite <- (Ejac i r Hi). generalize (map (effof (sp_eff q)) r) (nth i (sust_matrix (sp_sus q) n) []). clear.
    intros a. induction a as [|x a IH]; intros [|y b]; cbn; try reflexivity. f_equal; [ring | apply IH]. }
  assert (Hlo : forall i, nth i (map fst bnd) n0 = lo bnd i) by (intros i; unfold lo; exact (map_nth fst bnd (n0, n0) i)).
  assert (Hhi : forall i, nth i (map snd bnd) n0 = hi bnd i) by (intros i; unfold hi; exact (map_nth snd bnd (n0, n0) i)).
  apply f_equal2; [| apply f_equal2; [| apply f_equal2]].
  - apply flat_map_ext_in'. intros i Hi. apply in_seq in Hi. cbv zeta.
    f_equal; [|f_equal]; apply con_ext; intros r; rewrite ?Esoc, ?Ejac, ?Ejacn by lia; reflexivity.
  - destruct (sp_clip_d q) as [kd|]; cbn [clip_set clip_val]; [|reflexivity]. rewrite flat_map_singleton. apply map_ext_in. intros i Hi. apply in_seq in Hi. cbv zeta.
    apply con_ext0. intros r. rewrite Esoc by lia. rewrite (Hlo i). reflexivity.
  - destruct (sp_clip_c q) as [kc|]; cbn [clip_set clip_val]; [|reflexivity]. rewrite flat_map_singleton. apply map_ext_in. intros i Hi. apply in_seq in Hi. cbv zeta.
    apply con_ext0. intros r. rewrite Esoc by lia. rewrite (Hhi i). reflexivity.
  - cbv zeta. f_equal. destruct n as [|m].
    + apply con_ext; intros r.
      * unfold s_soc. cbn [Nat.sub sust_matrix seq map nth sust_row]. rewrite !dot_nil_any. reflexivity.
      * unfold s_socjac. cbn [Nat.sub sust_matrix seq map nth sust_row]. destruct (map (effof (sp_eff q)) r); reflexivity.
    + apply con_ext; intros r; rewrite ?Esoc, ?Ejac by lia; reflexivity.
Qed.

