(* C14 for the three numerically differentiated preference functions (Model/Trans.v): the closed-form Hessians are the Jacobians of
   the closed-form gradients (which Proofs/TransProofs.v proves to be the total derivatives of the costs), entry by entry, in the
   coordinate form hess_at of C14, for every length; symmetric. *)
From Coq Require Import ZArith Reals List Lra Lia Arith Psatz.
From Coquelicot Require Import Coquelicot.
From DK Require Import Num NumR Vec.
From DK.Model Require Import Leaf Trans.
From DK.Proofs Require Import VecFacts RVec VecAlg Calc Total TotalStorage FnTotal C14Proofs TransProofs.
Import ListNotations.
Local Open Scope R_scope.

(* ---------------- from directions to coordinates ---------------- *)
Lemma upd_as_line (x : list R) k t : (k < length x)%nat ->
  upd x k t = vadd x (vscale (t - nth k x 0) (upd (zeros (length x)) k 1)).
Proof.
  intros Hk. assert (Lz : length (upd (zeros (length x)) k 1) = length x) by (rewrite upd_length; unfold zeros; now rewrite vconst_length).
  apply list_eq_nth.
  - rewrite upd_length, line_point_length by exact Lz. reflexivity.
  - intros i Hi. rewrite upd_length in Hi. rewrite line_nth by auto.
    destruct (Nat.eq_dec i k) as [->|Hne].
    + rewrite !nth_upd_eq by (auto; unfold zeros; rewrite vconst_length; lia). ring.
    + rewrite !nth_upd_neq by auto. unfold zeros, vconst. rewrite repeat_nth by lia. numR. ring.
Qed.

Lemma dir_at_coord (F : list R -> R) (g x : list R) k : length g = length x -> dir_at F g x -> (k < length x)%nat ->
  is_derive (fun t => F (upd x k t)) (nth k x 0) (nth k g 0).
Proof.
  intros Lg D Hk. set (e := upd (zeros (length x)) k 1).
  assert (Le : length e = length x) by (unfold e; rewrite upd_length; unfold zeros; now rewrite vconst_length).
  apply (is_derive_ext (fun t => (fun u => F (vadd x (vscale u e))) (t - nth k x 0))).
  { intros t. cbv beta. now rewrite <- upd_as_line. }
  assert (Eg : nth k g 0 = dot g e).
  { unfold e. rewrite dot_upd_r by (unfold zeros; rewrite vconst_length; lia). rewrite dot_comm, dot_zeros_l.
    unfold zeros, vconst. rewrite repeat_nth by lia. numR. ring. }
  rewrite Eg.
  assert (D1 : is_derive (fun t : R => t - nth k x 0) (nth k x 0) 1) by (auto_derive; [exact I|ring]).
  assert (D2 : is_derive (fun u => F (vadd x (vscale u e))) (nth k x 0 - nth k x 0) (dot g e)).
  { replace (nth k x 0 - nth k x 0) with 0 by ring. apply D. exact Le. }
  pose proof (is_derive_comp (fun u => F (vadd x (vscale u e))) (fun t => t - nth k x 0) (nth k x 0) _ _ D2 D1) as D3.
  unfold scal in D3; simpl in D3; unfold mult in D3; simpl in D3. rewrite Rmult_1_l in D3. exact D3.
Qed.

Lemma hess_at_of_dirs (G : list R -> list R) (H : list (list R)) (x : list R) :
  length H = length x -> (forall j, (j < length x)%nat -> length (nth j H []) = length x) ->
  (forall j, (j < length x)%nat -> dir_at (fun y => nth j (G y) 0) (nth j H []) x) -> hess_at G H x.
Proof.
  intros LH LR D. split; [exact LH|]. split; [exact LR|]. intros j k Hj Hk. unfold entry.
  apply (dir_at_coord (fun y => nth j (G y) 0) (nth j H []) x k (LR j Hj) (D j Hj) Hk).
Qed.

Lemma idx_rows_shape {B} (f : nat -> R -> nat -> R -> B) (x : list R) :
  length (map (fun '(j, vj) => map (fun '(k, vk) => f j vj k vk) (idx x)) (idx x)) = length x /\
  forall j d, (j < length x)%nat ->
    nth j (map (fun '(j, vj) => map (fun '(k, vk) => f j vj k vk) (idx x)) (idx x)) d
    = map (fun '(k, vk) => f j (nth j x 0) k vk) (idx x).
Proof.
  split; [apply map_idx_length|]. intros j d Hj.
  apply (nth_map_idx (fun j vj => map (fun '(k, vk) => f j vj k vk) (idx x)) x j d Hj).
Qed.

Lemma dot_idx_row (g : nat -> R -> R) (x d : list R) : length d = length x ->
  dot (map (fun '(k, vk) => g k vk) (idx x)) d = vsum (map (fun k => g k (nth k x 0) * nth k d 0) (seq 0 (length x))).
Proof.
  intros Ld. assert (LG : length (map (fun '(k, vk) => g k vk) (idx x)) = length d) by (rewrite map_idx_length; lia).
  rewrite (dot_as_seq _ d LG), map_idx_length. apply vsum_map_ext. intros i Hi. apply in_seq in Hi.
  rewrite (nth_map_idx g) by lia. reflexivity.
Qed.

(* ---------------- TemporalVariance ---------------- *)
Theorem tvar_hessian c (x : list R) : vsum x <> 0 -> hess_at (tvar_grad c) (tvar_hess c x) x.
Proof.
  intros H0. unfold tvar_hess.
  destruct (idx_rows_shape (fun j (_ : R) k (_ : R) => c * (- 2 * (tix j - com x) * (tix k - com x) / vsum x)) x) as [LH Row].
  apply hess_at_of_dirs; [exact LH|intros j Hj; rewrite Row by exact Hj; apply map_idx_length|].
  intros j Hj d Ld. rewrite Row by exact Hj.
  rewrite (dot_idx_weights (fun k => c * (- 2 * (tix j - com x) * (tix k - com x) / vsum x)) x d Ld).
  set (S0 := vsum x) in *. set (S1 := wsum tix x). set (D0 := vsum d). set (D1 := wsum tix d).
  apply (is_derive_ext (fun t => c * ((tix j - (S1 + t * D1) / (S0 + t * D0)) * (tix j - (S1 + t * D1) / (S0 + t * D0))))).
  { intros t. unfold tvar_grad. rewrite (nth_map_idx (fun i _ => c * ((tix i - com (vadd x (vscale t d))) * (tix i - com (vadd x (vscale t d))))))
      by (rewrite line_point_length by exact Ld; exact Hj).
    unfold com. rewrite wsum_line by exact Ld. rewrite (vsum_wsum (vadd x (vscale t d))), wsum_line by exact Ld.
    rewrite <- !vsum_wsum. reflexivity. }
  assert (Eg : wsum (fun k => c * (- 2 * (tix j - com x) * (tix k - com x) / S0)) d
               = c * (- 2 * (tix j - S1 / S0) * ((D1 * S0 - S1 * D0) / (S0 * S0)))).
  { set (m := com x).
    rewrite (wsum_ext _ (fun k => (c * (- 2 * (tix j - m) / S0)) * tix k + (c * (- 2 * (tix j - m) / S0) * (- m)) * 1))
      by (intros; field; exact H0).
    rewrite wsum_lin, <- vsum_wsum. unfold m, com. fold S0 S1 D0 D1. field. exact H0. }
  rewrite Eg. auto_derive.
  - rewrite !Rmult_0_l, !Rplus_0_r. auto.
  - rewrite !Rmult_0_l, !Rplus_0_r. field. exact H0.
Qed.


Lemma idx_matrix_symmetric (f : nat -> R -> nat -> R -> R) (x : list R) :
  (forall j k, (j < length x)%nat -> (k < length x)%nat -> f j (nth j x 0) k (nth k x 0) = f k (nth k x 0) j (nth j x 0)) ->
  symmetric (map (fun '(j, vj) => map (fun '(k, vk) => f j vj k vk) (idx x)) (idx x)).
Proof.
  intros Hs. destruct (idx_rows_shape f x) as [LH Row].
  assert (E : forall j k, (j < length x)%nat -> (k < length x)%nat ->
            entry (map (fun '(j, vj) => map (fun '(k, vk) => f j vj k vk) (idx x)) (idx x)) j k = f j (nth j x 0) k (nth k x 0)).
  { intros j k Hj Hk. unfold entry. rewrite Row by exact Hj. now rewrite (nth_map_idx (fun k vk => f j (nth j x 0) k vk)) by exact Hk. }
  assert (Z : forall j k, (length x <= j)%nat \/ (length x <= k)%nat ->
            entry (map (fun '(j, vj) => map (fun '(k, vk) => f j vj k vk) (idx x)) (idx x)) j k = 0).
  { intros j k [Hj|Hk]; unfold entry.
    - rewrite (nth_overflow _ [] (n:=j)) by (rewrite LH; exact Hj). now destruct k.
    - destruct (lt_dec j (length x)) as [Hj|Hj].
      + rewrite Row by exact Hj. apply nth_overflow. rewrite map_idx_length. exact Hk.
      + rewrite (nth_overflow _ [] (n:=j)) by (rewrite LH; lia). now destruct k. }
  intros j k. destruct (lt_dec j (length x)) as [Hj|Hj]; destruct (lt_dec k (length x)) as [Hk|Hk].
  - rewrite !E by auto. apply Hs; auto.
  - rewrite !Z by lia. reflexivity.
  - rewrite !Z by lia. reflexivity.
  - rewrite !Z by lia. reflexivity.
Qed.

Lemma tvar_hess_symmetric c (x : list R) : symmetric (tvar_hess c x).
Proof.
  unfold tvar_hess. apply (idx_matrix_symmetric (fun j (_ : R) k (_ : R) => c * (- 2 * (tix j - com x) * (tix k - com x) / vsum x))).
  intros j k _ _. unfold Rdiv. ring.
Qed.

(* ---------------- CobbDouglas ---------------- *)
Lemma nth_map2_R (f : R -> R -> R) : forall (y b : list R) k, length b = length y -> (k < length y)%nat ->
  nth k (map2 f y b) 0 = f (nth k y 0) (nth k b 0).
Proof. induction y as [|v y IH]; intros [|e b] k HL Hk; simpl in HL, Hk; try lia. destruct k; [reflexivity|]. cbn [map2 nth]. apply IH; lia. Qed.

Lemma cobb_closed c (a y : list R) : length a = length y -> positive y ->
  cobb c a y = c * exp (vsum (map (fun i => nth i a 0 / vsum a * ln (nth i y 0)) (seq 0 (length y)))).
Proof. intros La Hp. unfold cobb. now rewrite rprod_pow_closed. Qed.

Lemma vsum_indicator (j n : nat) (w : nat -> R) : (j < n)%nat ->
  vsum (map (fun k => (if Nat.eqb j k then w k else 0)) (seq 0 n)) = w j.
Proof.
  intros Hj. rewrite (vsum_seq_single (fun k => if Nat.eqb j k then w k else 0) j 0 n); [now rewrite Nat.eqb_refl| |lia].
  intros k Hk. destruct (Nat.eqb_spec j k); [congruence|reflexivity].
Qed.

Theorem cobb_hessian c (a x : list R) : length a = length x -> positive x -> hess_at (cobb_grad c a) (cobb_hess c a x) x.
Proof.
  intros La Hp. unfold cobb_hess. set (A := vsum a). set (f := cobb c a x).
  destruct (idx_rows_shape (fun j vj k vk => nth j a 0 / A * (nth k a 0 / A) * f / (vj * vk)
                                             - (if Nat.eqb j k then nth j a 0 / A * f / (vj * vj) else 0)) x) as [LH Row].
  apply hess_at_of_dirs; [exact LH|intros j Hj; rewrite Row by exact Hj; apply map_idx_length|].
  intros j Hj d Ld. rewrite Row by exact Hj.
  rewrite (dot_idx_row (fun k vk => nth j a 0 / A * (nth k a 0 / A) * f / (nth j x 0 * vk)
                                    - (if Nat.eqb j k then nth j a 0 / A * f / (nth j x 0 * nth j x 0) else 0)) x d Ld).
  set (n := length x) in *.
  set (L := fun t : R => vsum (map (fun i => nth i a 0 / A * ln (nth i x 0 + t * nth i d 0)) (seq 0 n))).
  set (Lp := vsum (map (fun i => nth i a 0 / A * (nth i d 0 / nth i x 0)) (seq 0 n))).
  assert (E0 : f = c * exp (L 0)).
  { unfold f. rewrite cobb_closed by auto. fold A n. f_equal. f_equal. unfold L. apply vsum_map_ext. intros i _. now rewrite Rmult_0_l, Rplus_0_r. }
  pose proof (Hp j Hj) as Hxj. set (q := nth j a 0 / A).
  assert (Eg : vsum (map (fun k => (q * (nth k a 0 / A) * f / (nth j x 0 * nth k x 0)
                                    - (if Nat.eqb j k then q * f / (nth j x 0 * nth j x 0) else 0)) * nth k d 0) (seq 0 n))
               = q * (c * (exp (L 0) * Lp) / nth j x 0 - c * exp (L 0) * nth j d 0 / (nth j x 0 * nth j x 0))).
  { rewrite (vsum_map_ext _ (fun k => (q * f / nth j x 0) * (nth k a 0 / A * (nth k d 0 / nth k x 0))
                                      + (-1) * (if Nat.eqb j k then q * f / (nth j x 0 * nth j x 0) * nth k d 0 else 0))).
    - rewrite vsum_map_plus, !vsum_map_scal. fold Lp.
      rewrite (vsum_indicator j n (fun k => q * f / (nth j x 0 * nth j x 0) * nth k d 0) Hj). rewrite E0. field. lra.
    - intros k Hk. apply in_seq in Hk. assert (Hxk : 0 < nth k x 0) by (apply Hp; unfold n in Hk; lia).
      generalize (nth k a 0 / A); intros qk. destruct (Nat.eqb j k); field; lra. }
  rewrite Eg.
  apply (is_derive_ext_loc (fun t => q * (c * exp (L t)) / (nth j x 0 + t * nth j d 0))).
  { generalize (line_keeps_positive x d Ld Hp). apply filter_imp. intros t Ht.
    assert (Hn : forall i, (i < n)%nat -> nth i (vadd x (vscale (t : R) d)) 0 = nth i x 0 + t * nth i d 0) by (intros i Hi; apply line_nth; auto).
    assert (Ly : length (vadd x (vscale (t : R) d)) = n) by (apply line_point_length; exact Ld).
    remember (vadd x (vscale (t : R) d)) as y eqn:Ey. clear Ey.
    unfold cobb_grad. rewrite (nth_map2_R (fun v e => e / vsum a * cobb c a y / v)) by lia. fold A q.
    rewrite cobb_closed; [|lia|intros k Hk; rewrite Ly in Hk; rewrite Hn by lia; apply Ht; exact Hk].
    rewrite Ly, Hn by exact Hj. fold A. f_equal. f_equal. f_equal. f_equal. unfold L. apply vsum_map_ext. intros i Hi. apply in_seq in Hi.
    rewrite Hn by lia. reflexivity. }
  assert (DL : is_derive L 0 Lp).
  { unfold L, Lp. apply (is_derive_vsum_map (fun i t => nth i a 0 / A * ln (nth i x 0 + t * nth i d 0)) (fun i => nth i a 0 / A * (nth i d 0 / nth i x 0))).
    intros i Hi. apply in_seq in Hi. assert (Hi' : (i < length x)%nat) by (fold n; lia). pose proof (Hp i Hi') as Hxi.
    generalize (nth i a 0 / A). intros qi. auto_derive.
    - rewrite Rmult_0_l, Rplus_0_r. exact Hxi.
    - rewrite Rmult_0_l, Rplus_0_r. field. lra. }
  assert (DE : is_derive (fun t => exp (L t)) 0 (exp (L 0) * Lp)).
  { pose proof (is_derive_comp exp L 0 (exp (L 0)) _ (is_derive_exp (L 0)) DL) as D.
    unfold scal in D; simpl in D; unfold mult in D; simpl in D. rewrite Rmult_comm. exact D. }
  apply (is_derive_ext (fun t => q * (c * exp (L t) / (nth j x 0 + t * nth j d 0)))).
  { intros t. change (q * (c * exp (L t) / (nth j x 0 + t * nth j d 0)) = q * (c * exp (L t)) / (nth j x 0 + t * nth j d 0)). unfold Rdiv. ring. }
  apply is_derive_cmult.
  assert (DN : is_derive (fun t => c * exp (L t)) 0 (c * (exp (L 0) * Lp))) by (apply is_derive_cmult; exact DE).
  assert (DD : is_derive (fun t : R => nth j x 0 + t * nth j d 0) 0 (nth j d 0)) by (auto_derive; [exact I|ring]).
  pose proof (is_derive_div (fun t => c * exp (L t)) (fun t : R => nth j x 0 + t * nth j d 0) 0 _ _ DN DD) as D.
  cbv beta in D. rewrite Rmult_0_l, Rplus_0_r in D. specialize (D ltac:(lra)).
  replace (c * (exp (L 0) * Lp) / nth j x 0 - c * exp (L 0) * nth j d 0 / (nth j x 0 * nth j x 0))
    with ((c * (exp (L 0) * Lp) * nth j x 0 - c * exp (L 0) * nth j d 0) / nth j x 0 ^ 2) by (field; lra).
  exact D.
Qed.

Lemma cobb_hess_symmetric c (a x : list R) : symmetric (cobb_hess c a x).
Proof.
  unfold cobb_hess. apply (idx_matrix_symmetric (fun j vj k vk => nth j a 0 / vsum a * (nth k a 0 / vsum a) * cobb c a x / (vj * vk)
                                             - (if Nat.eqb j k then nth j a 0 / vsum a * cobb c a x / (vj * vj) else 0))).
  intros j k _ _. destruct (Nat.eqb_spec j k) as [->|Hne].
  - rewrite Nat.eqb_refl. reflexivity.
  - destruct (Nat.eqb_spec k j); [congruence|]. unfold Rdiv. rewrite (Rmult_comm (nth j x 0) (nth k x 0)). ring.
Qed.

(* ---------------- InformationEntropy ---------------- *)
Lemma nzabs_sums (y : list R) (a : nat -> R) :
  (forall k, (k < length y)%nat -> Rabs (nth k y 0) = a k /\ nth k y 0 <> 0) ->
  vsum (nzabs y) = vsum (map a (seq 0 (length y))) /\
  vsum (map (fun v => v * ln v) (nzabs y)) = vsum (map (fun i => a i * ln (a i)) (seq 0 (length y))).
Proof.
  intros Hy. assert (Hnz : nonzero y) by (intros k Hk; apply (Hy k Hk)). rewrite (nzabs_nonzero y Hnz). split.
  - rewrite <- (map_id (map Rabs y)), (vsum_map_nth (fun v => v)), map_length. apply vsum_map_ext. intros i Hi. apply in_seq in Hi.
    rewrite nth_map_Rabs. apply Hy. lia.
  - rewrite (vsum_map_nth (fun v => v * ln v)), map_length. apply vsum_map_ext. intros i Hi. apply in_seq in Hi.
    rewrite nth_map_Rabs. destruct (Hy i ltac:(lia)) as [-> _]. reflexivity.
Qed.

Lemma sg_of_same_sign v y : v <> 0 -> 0 < sg v * y -> y / Rabs y = sg v.
Proof.
  intros Hv Hy. destruct (abs_of_sign v y Hv Hy) as [E Hy0]. rewrite E. pose proof (sg_sq v Hv) as Q.
  assert (sg v <> 0) by (intros Z; rewrite Z in Q; lra). field_simplify_eq; [nra|split; auto].
Qed.

Theorem entropy_hessian c (x : list R) : x <> [] -> nonzero x -> hess_at (entropy_grad c) (entropy_hess c x) x.
Proof.
  intros Hne Hnz. unfold entropy_hess. cbv zeta.
  set (Sm := vsum (nzabs x)). set (Tm := vsum (map (fun v => v * ln v) (nzabs x))).
  destruct (idx_rows_shape (fun j vj k vk => c * (vj / Rabs vj * (vk / Rabs vk) *
             ((if Nat.eqb j k then 1 / (Rabs vj * Sm) else 0) - (ln (Rabs vj) + ln (Rabs vk) + 1) / (Sm * Sm) + 2 * Tm / (Sm * Sm * Sm)))) x) as [LH Row].
  apply hess_at_of_dirs; [exact LH|intros j Hj; rewrite Row by exact Hj; apply map_idx_length|].
  intros j Hj d Ld. rewrite Row by exact Hj.
  rewrite (dot_idx_row (fun k vk => c * (nth j x 0 / Rabs (nth j x 0) * (vk / Rabs vk) *
             ((if Nat.eqb j k then 1 / (Rabs (nth j x 0) * Sm) else 0) - (ln (Rabs (nth j x 0)) + ln (Rabs vk) + 1) / (Sm * Sm) + 2 * Tm / (Sm * Sm * Sm)))) x d Ld).
  set (n := length x) in *.
  set (u := fun (i : nat) (t : R) => sg (nth i x 0) * (nth i x 0 + t * nth i d 0)).
  set (Tt := fun t : R => vsum (map (fun i => u i t * ln (u i t)) (seq 0 n))).
  set (St := fun t : R => vsum (map (fun i => u i t) (seq 0 n))).
  assert (U0 : forall i, (i < n)%nat -> u i 0 = Rabs (nth i x 0)).
  { intros i Hi. unfold u. rewrite Rmult_0_l, Rplus_0_r. apply sg_abs. apply Hnz. exact Hi. }
  assert (Up : forall i, (i < n)%nat -> 0 < u i 0) by (intros i Hi; rewrite U0 by exact Hi; apply Rabs_pos_lt, Hnz; exact Hi).
  destruct (nzabs_sums x (fun i => u i 0)) as [Es Et].
  { intros k Hk. split; [symmetry; apply U0; exact Hk|apply Hnz; exact Hk]. }
  fold n in Es, Et. change (vsum (map (fun i => u i 0) (seq 0 n))) with (St 0) in Es.
  change (vsum (map (fun i => u i 0 * ln (u i 0)) (seq 0 n))) with (Tt 0) in Et. fold Sm in Es. fold Tm in Et.
  assert (Sp : 0 < St 0).
  { unfold St. apply vsum_pos.
    - destruct x; [congruence|]. unfold n. simpl. discriminate.
    - intros v Hv. apply in_map_iff in Hv. destruct Hv as (i & <- & Hi). apply in_seq in Hi. apply Up. lia. }
  set (T' := vsum (map (fun i => sg (nth i x 0) * nth i d 0 * (ln (u i 0) + 1)) (seq 0 n))).
  set (S' := vsum (map (fun i => sg (nth i x 0) * nth i d 0) (seq 0 n))).
  set (sj := sg (nth j x 0)). set (aj := u j 0).
  assert (Haj : 0 < aj) by (apply Up; exact Hj).
  assert (Eg : vsum (map (fun k => c * (nth j x 0 / Rabs (nth j x 0) * (nth k x 0 / Rabs (nth k x 0)) *
                 ((if Nat.eqb j k then 1 / (Rabs (nth j x 0) * Sm) else 0) - (ln (Rabs (nth j x 0)) + ln (Rabs (nth k x 0)) + 1) / (Sm * Sm)
                  + 2 * Tm / (Sm * Sm * Sm))) * nth k d 0) (seq 0 n))
             = c * (sj * (((sj * nth j d 0 / aj - (T' * St 0 - Tt 0 * S') / (St 0 * St 0)) * St 0 - (ln aj - Tt 0 / St 0) * S') / (St 0 * St 0)))).
  { rewrite Es, Et.
    rewrite (vsum_map_ext _ (fun k => (if Nat.eqb j k then c * sj * sj / (aj * St 0) * nth k d 0 else 0)
                                      + ((- c * sj / (St 0 * St 0)) * (sg (nth k x 0) * nth k d 0 * (ln (u k 0) + 1))
                                         + (c * sj * (- ln aj / (St 0 * St 0) + 2 * Tt 0 / (St 0 * St 0 * St 0))) * (sg (nth k x 0) * nth k d 0)))).
    - rewrite vsum_map_plus, vsum_map_plus, !vsum_map_scal. fold T' S'.
      rewrite (vsum_indicator j n (fun k => c * sj * sj / (aj * St 0) * nth k d 0) Hj). field. lra.
    - intros k Hk. apply in_seq in Hk. assert (Hk' : (k < n)%nat) by lia.
      fold (sg (nth j x 0)) (sg (nth k x 0)). fold sj. rewrite <- (U0 j Hj), <- (U0 k Hk'). fold aj.
      pose proof (Up k Hk') as Hak. destruct (Nat.eqb_spec j k) as [->|Hne'].
      + fold aj. fold sj. field. lra.
      + field. lra. }
  rewrite Eg.
  apply (is_derive_ext_loc (fun t => c * (sj * ((ln (u j t) - Tt t / St t) / St t)))).
  { generalize (line_keeps_sign x d Ld Hnz). apply filter_imp. intros t Ht.
    assert (Hn : forall i, (i < n)%nat -> nth i (vadd x (vscale (t : R) d)) 0 = nth i x 0 + t * nth i d 0) by (intros i Hi; apply line_nth; auto).
    assert (Ly : length (vadd x (vscale (t : R) d)) = n) by (apply line_point_length; exact Ld).
    remember (vadd x (vscale (t : R) d)) as y eqn:Ey. clear Ey.
    assert (Hy : forall k, (k < length y)%nat -> Rabs (nth k y 0) = u k t /\ nth k y 0 <> 0).
    { intros k Hk. rewrite Ly in Hk. rewrite Hn by lia. apply abs_of_sign; [apply Hnz; exact Hk|apply Ht; exact Hk]. }
    assert (Hney : y <> []) by (intros E; rewrite E in Ly; simpl in Ly; destruct x; [congruence|unfold n in Ly; simpl in Ly; lia]).
    destruct (entropy_profile y (fun i => u i t) Hney Hy) as [E1 E2]. rewrite Ly in E1, E2.
    change (vsum (map (fun i => u i t) (seq 0 n))) with (St t) in E1, E2.
    change (vsum (map (fun i => u i t * ln (u i t)) (seq 0 n))) with (Tt t) in E2.
    assert (Spt : 0 < St t).
    { unfold St. apply vsum_pos.
      - destruct x; [congruence|]. unfold n. simpl. discriminate.
      - intros v Hv. apply in_map_iff in Hv. destruct Hv as (i & <- & Hi). apply in_seq in Hi. unfold u. apply Ht. lia. }
    assert (Hut : 0 < u j t) by (unfold u; apply Ht; exact Hj).
    unfold entropy_grad.
    rewrite (nth_indep _ 0 ((fun v => c * (v / Rabs v * ((ln (Rabs v / vsum (nzabs y)) - plogp (nzabs y)) / vsum (nzabs y)))) 0))
      by (rewrite map_length; lia).
    rewrite (map_nth (fun v => c * (v / Rabs v * ((ln (Rabs v / vsum (nzabs y)) - plogp (nzabs y)) / vsum (nzabs y))))).
    rewrite E1, E2. destruct (Hy j ltac:(lia)) as [Ea _].
    rewrite (sg_of_same_sign (nth j x 0) (nth j y 0)) by (auto; rewrite Hn by exact Hj; apply Ht; exact Hj). fold sj. rewrite Ea.
    assert (El : ln (u j t / St t) = ln (u j t) - ln (St t)).
    { unfold Rdiv. rewrite ln_mult; [rewrite ln_Rinv by exact Spt; ring|exact Hut|now apply Rinv_0_lt_compat]. }
    rewrite El. f_equal. f_equal. f_equal. ring. }
  apply is_derive_cmult. apply is_derive_cmult.
  assert (DT : is_derive Tt 0 T').
  { unfold Tt, T'. apply (is_derive_vsum_map (fun i t => u i t * ln (u i t)) (fun i => sg (nth i x 0) * nth i d 0 * (ln (u i 0) + 1))).
    intros i Hi. apply in_seq in Hi. pose proof (Up i ltac:(lia)) as Hpos. unfold u in *. auto_derive; [exact Hpos|].
    rewrite Rmult_0_l, Rplus_0_r in *. field. split; intros E; rewrite E in Hpos; lra. }
  assert (DS : is_derive St 0 S').
  { unfold St, S'. apply (is_derive_vsum_map (fun i t => u i t) (fun i => sg (nth i x 0) * nth i d 0)).
    intros i Hi. unfold u. auto_derive; [exact I|ring]. }
  assert (DU : is_derive (fun t => ln (u j t)) 0 (sj * nth j d 0 / aj)).
  { assert (Du : is_derive (u j) 0 (sj * nth j d 0)) by (unfold u, sj; auto_derive; [exact I|ring]).
    pose proof (is_derive_comp ln (u j) 0 (/ u j 0) _ (is_derive_ln (u j 0) Haj) Du) as D.
    unfold scal in D; simpl in D; unfold mult in D; simpl in D. exact D. }
  assert (DQ : is_derive (fun t => Tt t / St t) 0 ((T' * St 0 - Tt 0 * S') / (St 0 * St 0))).
  { replace (St 0 * St 0) with (St 0 ^ 2) by ring. apply is_derive_div; auto. lra. }
  assert (DN : is_derive (fun t => ln (u j t) - Tt t / St t) 0 (sj * nth j d 0 / aj - (T' * St 0 - Tt 0 * S') / (St 0 * St 0))).
  { apply (is_derive_minus (fun t => ln (u j t)) (fun t => Tt t / St t) 0 _ _ DU DQ). }
  pose proof (is_derive_div (fun t => ln (u j t) - Tt t / St t) St 0 _ _ DN DS ltac:(lra)) as D. cbv beta in D.
  replace (St 0 * St 0) with (St 0 ^ 2) at 2 by ring. fold aj in D. exact D.
Qed.

Lemma entropy_hess_symmetric c (x : list R) : symmetric (entropy_hess c x).
Proof.
  unfold entropy_hess. cbv zeta. set (Sm := vsum (nzabs x)). set (Tm := vsum (map (fun v => v * ln v) (nzabs x))).
  apply (idx_matrix_symmetric (fun j vj k vk => c * (vj / Rabs vj * (vk / Rabs vk) *
             ((if Nat.eqb j k then 1 / (Rabs vj * Sm) else 0) - (ln (Rabs vj) + ln (Rabs vk) + 1) / (Sm * Sm) + 2 * Tm / (Sm * Sm * Sm))))).
  intros j k _ _. destruct (Nat.eqb_spec j k) as [->|Hne].
  - rewrite Nat.eqb_refl. reflexivity.
  - destruct (Nat.eqb_spec k j); [congruence|]. unfold Rdiv. ring.
Qed.
