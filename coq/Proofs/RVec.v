(* Real-number facts about the vector operations, and the calculus lemmas shared by C01/C06/C14:
   everything a property needs to differentiate "sum of scalar kernels of affine forms of a list"
   along one coordinate, for every list length (induction on lists). *)
From Coq Require Import ZArith Reals List Bool Arith Lia Lra.
From Coquelicot Require Import Coquelicot.
From DK Require Import Num NumR Vec.
From DK.Model Require Import Leaf.
From DK.Proofs Require Import VecFacts.
Import ListNotations.
Local Open Scope R_scope.

Ltac numR := unfold n2, nsq, nofnat, nltb, nmin, nmax, nabs in *;
  cbn [nadd nmul nsub ndiv nopp nleb neqb nofZ npw n0 n1 NumR] in *.

Lemma vsum_nil : vsum (A:=R) [] = 0. Proof. reflexivity. Qed.
Lemma vsum_cons a l : vsum (A:=R) (a :: l) = a + vsum l. Proof. reflexivity. Qed.
Lemma vsum_app l m : vsum (A:=R) (l ++ m) = vsum l + vsum m.
Proof. induction l as [|a l IH]; simpl; [rewrite ?vsum_nil; lra|]. rewrite ?vsum_cons, ?IH. lra. Qed.

Lemma vsum_map_ext {B} (f g : B -> R) l : (forall b, In b l -> f b = g b) -> vsum (map f l) = vsum (map g l).
Proof.
  induction l as [|b l IH]; intros Hfg; simpl; auto.
  rewrite Hfg by (now left). rewrite IH; auto. intros; apply Hfg; now right.
Qed.

Lemma vsum_map_plus {B} (f g : B -> R) l : vsum (map (fun b => f b + g b) l) = vsum (map f l) + vsum (map g l).
Proof. induction l as [|b l IH]; simpl; [rewrite ?vsum_nil; lra|]. rewrite ?vsum_cons, ?IH. lra. Qed.

Lemma vsum_map_scal {B} c (f : B -> R) l : vsum (map (fun b => c * f b) l) = c * vsum (map f l).
Proof. induction l as [|b l IH]; simpl; [rewrite ?vsum_nil; lra|]. rewrite ?vsum_cons, ?IH. lra. Qed.

Lemma vsum_map_zero {B} (l : list B) : vsum (map (fun _ => 0) l) = 0.
Proof. induction l as [|b l IH]; simpl; [reflexivity|]. rewrite ?vsum_cons, IH. lra. Qed.

(* sum over an index list of a function that is non-zero at one index only *)
Lemma vsum_seq_single (f : nat -> R) k s n :
  (forall j, j <> k -> f j = 0) -> (s <= k < s + n)%nat -> vsum (map f (seq s n)) = f k.
Proof.
  revert s; induction n as [|n IH]; intros s Hz Hk; [lia|]. simpl. rewrite ?vsum_cons.
  destruct (Nat.eq_dec s k) as [->|Hne].
  - rewrite (vsum_map_ext _ (fun _ => 0)); [rewrite vsum_map_zero; lra|].
    intros j Hj. apply in_seq in Hj. apply Hz. lia.
  - rewrite Hz by auto. rewrite IH; auto; [lra|lia].
Qed.

Lemma dot_nil_l p : dot (A:=R) [] p = 0. Proof. reflexivity. Qed.
Lemma dot_cons a x b p : dot (A:=R) (a :: x) (b :: p) = a * b + dot x p. Proof. reflexivity. Qed.

Lemma dot_upd x p k t : (k < length x)%nat ->
  dot (A:=R) (upd x k t) p = dot x p + (t - nth k x 0) * nth k p 0.
Proof.
  revert p k; induction x as [|a x IH]; intros p k Hk; simpl in Hk; [lia|].
  destruct p as [|b p].
  - replace (nth k (@nil R) 0) with 0 by (destruct k; reflexivity).
    destruct k; unfold dot; simpl; lra.
  - destruct k as [|k]; simpl.
    + rewrite ?dot_cons. lra.
    + rewrite ?dot_cons, IH by lia. lra.
Qed.

Lemma dot_upd_r x p k t : (k < length p)%nat ->
  dot (A:=R) x (upd p k t) = dot x p + nth k x 0 * (t - nth k p 0).
Proof.
  revert p k; induction x as [|a x IH]; intros p k Hk.
  - replace (nth k (@nil R) 0) with 0 by (destruct k; reflexivity). unfold dot; simpl. lra.
  - destruct p as [|b p]; simpl in Hk; [lia|]. destruct k as [|k]; simpl.
    + rewrite ?dot_cons. lra.
    + rewrite ?dot_cons, IH by lia. lra.
Qed.

Lemma vsum_upd x k t : (k < length x)%nat -> vsum (A:=R) (upd x k t) = vsum x + (t - nth k x 0).
Proof.
  revert k; induction x as [|a x IH]; intros k Hk; simpl in Hk; [lia|].
  destruct k as [|k]; simpl; rewrite ?vsum_cons; [lra|]. rewrite IH by lia. lra.
Qed.

(* separable sums over idx *)
Lemma idx_from_upd (phi : nat -> R -> R) x k t s : (k < length x)%nat ->
  vsum (map (fun '(i, v) => phi i v) (combine (seq s (length (upd x k t))) (upd x k t)))
  = vsum (map (fun '(i, v) => phi i v) (combine (seq s (length x)) x)) - phi (s + k)%nat (nth k x 0) + phi (s + k)%nat t.
Proof.
  revert k s; induction x as [|a x IH]; intros k s Hk; simpl in Hk; [lia|].
  destruct k as [|k]; simpl.
  - rewrite ?vsum_cons. rewrite Nat.add_0_r. lra.
  - rewrite ?vsum_cons. rewrite IH by lia. replace (S s + k)%nat with (s + S k)%nat by lia. lra.
Qed.

Lemma sepsum_upd (phi : nat -> R -> R) x k t : (k < length x)%nat ->
  vsum (map (fun '(i, v) => phi i v) (idx (upd x k t)))
  = vsum (map (fun '(i, v) => phi i v) (idx x)) - phi k (nth k x 0) + phi k t.
Proof. intros Hk. unfold idx. rewrite (idx_from_upd phi x k t 0 Hk). reflexivity. Qed.

Lemma nth_map_idx {B} (phi : nat -> R -> B) x k d : (k < length x)%nat ->
  nth k (map (fun '(i, v) => phi i v) (idx x)) d = phi k (nth k x 0).
Proof.
  intros Hk. unfold idx.
  assert (G : forall s, nth k (map (fun '(i, v) => phi i v) (combine (seq s (length x)) x)) d = phi (s + k)%nat (nth k x 0)).
  { revert k Hk; induction x as [|a x IH]; intros k Hk s; simpl in Hk; [lia|].
    destruct k as [|k]; simpl; [now rewrite Nat.add_0_r|]. rewrite IH by lia. f_equal. lia. }
  apply (G 0%nat).
Qed.

Lemma map_idx_length {B} (phi : nat * R -> B) x : length (map phi (idx x)) = length x.
Proof. rewrite map_length. apply idx_length. Qed.

(* derivative of a finite sum of differentiable terms *)
Lemma is_derive_vsum_map {B} (f : B -> R -> R) (g : B -> R) (l : list B) (t : R) :
  (forall b, In b l -> is_derive (f b) t (g b)) ->
  is_derive (fun u => vsum (map (fun b => f b u) l)) t (vsum (map g l)).
Proof.
  induction l as [|b l IH]; intros Hd; simpl.
  - apply (is_derive_ext (fun _ => 0)); [reflexivity|]. change (vsum (map g [])) with 0. auto_derive; auto; ring.
  - rewrite ?vsum_cons. apply (is_derive_ext (fun u => f b u + vsum (map (fun b0 => f b0 u) l))).
    + intros u. now rewrite ?vsum_cons.
    + apply (is_derive_plus (f b) _ t (g b)); [apply Hd; now left|apply IH; intros; apply Hd; now right].
Qed.

(* ---- the notion of "reported gradient is the gradient" (coordinate form) ---- *)
Definition grad_at (F : list R -> R) (G : list R) (x : list R) : Prop :=
  length G = length x /\
  forall k, (k < length x)%nat -> is_derive (fun t => F (upd x k t)) (nth k x 0) (nth k G 0).

Lemma grad_at_ext F F' G x : (forall y, length y = length x -> F y = F' y) -> grad_at F G x -> grad_at F' G x.
Proof.
  intros E [HL HD]. split; auto. intros k Hk. apply (is_derive_ext (fun t => F (upd x k t))); auto.
  intros t. apply E. apply upd_length.
Qed.

Lemma nth_vadd G1 G2 k : (k < length G1)%nat -> (k < length G2)%nat ->
  nth k (vadd (A:=R) G1 G2) 0 = nth k G1 0 + nth k G2 0.
Proof.
  revert G2 k; induction G1 as [|a G1 IH]; intros G2 k H1 H2; simpl in *; [lia|].
  destruct G2 as [|b G2]; simpl in *; [lia|].
  destruct k as [|k]; simpl; [reflexivity|]. apply IH; lia.
Qed.

Lemma grad_at_plus F1 G1 F2 G2 x : grad_at F1 G1 x -> grad_at F2 G2 x ->
  grad_at (fun y => F1 y + F2 y) (vadd G1 G2) x.
Proof.
  intros [L1 D1] [L2 D2]. split.
  - unfold vadd. rewrite map2_length. lia.
  - intros k Hk.
    rewrite nth_vadd by lia. apply (is_derive_plus (fun t => F1 (upd x k t)) (fun t => F2 (upd x k t))); auto.
Qed.

(* the linear price term: gradient of <s,p> is p *)
Lemma grad_dot p x : length p = length x -> grad_at (fun s => dot s p) p x.
Proof.
  intros HL. split; auto. intros k Hk.
  apply (is_derive_ext (fun t => dot x p + (t - nth k x 0) * nth k p 0)).
  - intros t. now rewrite dot_upd.
  - auto_derive; [exact I|ring].
Qed.
