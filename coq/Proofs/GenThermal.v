(* TDevice: the definitions regenerated from device_kit/tdevice.py (Gen/Thermal.v, translator/tdevice_tx.py) equal the hand-written
   thermal model of Model/Leaf.v for every horizon length.  Each proof starts with `first [reflexivity | ...]` so that a method the
   translator could not read (emitted as an alias of the model) still checks. *)
From Coq Require Import ZArith Reals List Bool Arith Lia Lra.
From DK Require Import Num NumR Vec.
From DK.Gen Require Import Kernels Thermal.
From DK.Model Require Import Leaf.
From DK.Proofs Require Import VecFacts RVec VecAlg C01Proofs GenClasses.
Import ListNotations.
Local Open Scope R_scope.

(* column sums of a matrix whose rows are scaled by the entries of a column vector *)
Lemma nth_zeros n k : nth k (zeros (A:=R) n) 0 = 0.
Proof. unfold zeros, vconst. revert k. induction n as [|n IH]; intros [|k]; cbn; auto. Qed.
Lemma colsum_cons n (r : list R) rows : colsum n (r :: rows) = vadd r (colsum n rows).
Proof. reflexivity. Qed.
Lemma colsum_length n (rows : list (list R)) : List.Forall (fun r => length r = n) rows -> length (colsum n rows) = n.
Proof.
  induction rows as [|r rows IH]; intros Hr.
  - unfold colsum, zeros, vconst. apply repeat_length.
  - inversion Hr as [|? ? Hh Ht]; subst. rewrite colsum_cons, vadd_length; [reflexivity | now rewrite (IH Ht)].
Qed.
Lemma scaled_rows_len n (rows : list (list R)) (dt : list R) : List.Forall (fun r => length r = n) rows ->
  List.Forall (fun r => length r = n) (map2 (fun row d => map (fun x => x * d) row) rows dt).
Proof.
  revert dt. induction rows as [|r rows IH]; intros [|d dt] Hr; cbn [map2]; try constructor.
  - inversion Hr; subst. now rewrite map_length.
  - inversion Hr; subst. apply IH; auto.
Qed.
Lemma nth_colsum_scaled n k (rows : list (list R)) (dt : list R) : (k < n)%nat ->
  List.Forall (fun r => length r = n) rows -> length dt = length rows ->
  nth k (colsum n (map2 (fun row d => map (fun x => x * d) row) rows dt)) 0 = vsum (map2 (fun row d => nth k row 0 * d) rows dt).
Proof.
  intros Hk. revert dt. induction rows as [|r rows IH]; intros [|d dt] Hr Hl; try discriminate.
  - cbn [map2]. unfold colsum. cbn [fold_right]. rewrite nth_zeros. reflexivity.
  - inversion Hr as [|? ? Hh Ht]; subst. cbn [map2]. rewrite colsum_cons.
    assert (Hrows := scaled_rows_len (length r) rows dt Ht).
    rewrite nth_vadd; [| now rewrite map_length | rewrite colsum_length by exact Hrows; exact Hk].
    rewrite vsum_cons, IH by (auto; cbn in Hl; lia).
    rewrite (nth_indep _ 0 (0 * d)) by (rewrite map_length; exact Hk). rewrite (map_nth (fun x => x * d)). reflexivity.
Qed.
Lemma map2_map_combine {B C D E} (f : C -> D -> E) (g : B -> C) (l : list B) (m : list D) :
  map2 f (map g l) m = map (fun '(i, d) => f (g i) d) (combine l m).
Proof. revert m. induction l as [|x l IH]; intros [|y m]; cbn; try reflexivity. now rewrite IH. Qed.

Lemma nth_vmul_where (X s : list R) (ef : R) k : (k < length X)%nat -> (k < length s)%nat ->
  nth k (vmul X (map (fun x : R => if (x <? n0)%num then (n1 / ef)%num else ef) s)) 0 =
  nth k X 0 * (if (nth k s 0 <? 0)%num then 1 / ef else ef).
Proof.
  unfold vmul. revert s k. induction X as [|x X IH]; intros s k HX Hs; [cbn in HX; lia|]. destruct s as [|y s]; [cbn in Hs; lia|].
  destruct k as [|k]; [reflexivity|]. cbn [map map2 nth]. apply IH; cbn in *; lia.
Qed.

Section Thermal.
  Variables (n : nat) (su ef ti to tr : R) (te : list R) (c : param R).
  Notation q := (tq su ef ti to tr te c).

  Lemma gen_tdevice_tbase : TDevice__make_t_base n su ef ti to tr te c te su ti = tdev_tbase q n.
  Proof. reflexivity. Qed.
  Lemma gen_tdevice_r2t r : length r = n -> TDevice_r2t n su ef ti to tr te c r = tdev_r2t q r.
  Proof. intros <-. reflexivity. Qed.
  Lemma gen_tdevice_costv_t r : length r = n -> TDevice_costv_t n su ef ti to tr te c (TDevice_r2t n su ef ti to tr te c r) = tdev_pref q r.
  Proof. intros <-. reflexivity. Qed.
  Lemma gen_tdevice_deriv_t r : length r = n -> TDevice_deriv_t n su ef ti to tr te c (TDevice_r2t n su ef ti to tr te c r) = tdev_dt q r.
  Proof. intros <-. reflexivity. Qed.
  Lemma gen_tdevice_cost s p : length s = n -> length p = n -> (0 < n)%nat ->
    TDevice_cost n su ef ti to tr te c s p = tdev_cost q s p.
  Proof.
    intros Hs Hp Hn. first [reflexivity | unfold TDevice_cost, TDevice_costv].
    change (map2 (fun x y => x * y)%num s p) with (vmul s p).
    rewrite (spread_sum _ s p n Hs Hp). rewrite gen_tdevice_costv_t by exact Hs. destruct n; [lia|]. reflexivity.
  Qed.

  Lemma sust_rows_len : List.Forall (fun r => length r = n) (sust_matrix su n).
  Proof. unfold sust_matrix. apply Forall_forall. intros r Hr. apply in_map_iff in Hr. destruct Hr as [i [<- _]]. unfold sust_row. now rewrite map_length, seq_length. Qed.

  (* (sustainment_matrix * dt.reshape(n,1)).sum(axis=0) * where(s < 0, 1/e, e) + p  is the model's chain rule through r2t *)
  Lemma gen_tdevice_deriv s p : length s = n -> length p = n -> length te = n ->
    TDevice_deriv n su ef ti to tr te c s p = tdev_deriv q s p.
  Proof.
    intros Hs Hp Hte. first [reflexivity | unfold TDevice_deriv, tdev_deriv]. cbv zeta.
    rewrite gen_tdevice_deriv_t by exact Hs. rewrite Hs.
    assert (Hdt : length (tdev_dt q s) = n) by (unfold tdev_dt; rewrite map_idx_length, tdev_r2t_length; [exact Hs | cbn [tp_ext tq]; lia]).
    set (dt := tdev_dt q s) in *.
    set (X := colsum n (map2 (fun row d => map (fun x => (x * d)%num) row) (sust_matrix su n) dt)).
    assert (HX : length X = n).
    { apply colsum_length. apply (scaled_rows_len n). exact sust_rows_len. }
    apply list_eq_nth.
    - change (map2 (fun x y => (x + y)%num)) with (vadd (A:=R)). change (map2 (fun x y => (x * y)%num)) with (vmul (A:=R)).
      rewrite map_length, seq_length. unfold vadd, vmul. rewrite !VecFacts.map2_length, map_length, HX, Hs, Hp. lia.
    - change (map2 (fun x y => (x + y)%num)) with (vadd (A:=R)). change (map2 (fun x y => (x * y)%num)) with (vmul (A:=R)).
      intros k Hk.
      assert (Hkn : (k < n)%nat).
      { unfold vadd, vmul in Hk. rewrite !VecFacts.map2_length, map_length, HX, Hs, Hp in Hk. lia. }
      rewrite nth_vadd; [| unfold vmul; rewrite VecFacts.map2_length, map_length, HX, Hs; lia | lia].
      rewrite (nth_indep (map _ (seq 0 n)) 0 ((fun k0 => vsum (map (fun '(i, d) => (nth k0 (sust_row su n i) n0 * d)%num) (idx dt)) *
                 (if (nth k0 s n0 <? n0)%num then (n1 / tp_eff q)%num else tp_eff q) + nth k0 p n0)%num 0%nat))
        by (rewrite map_length, seq_length; exact Hkn).
      rewrite (map_nth (fun k0 => (vsum (map (fun '(i, d) => (nth k0 (sust_row su n i) n0 * d)%num) (idx dt)) *
                 (if (nth k0 s n0 <? n0)%num then (n1 / tp_eff q)%num else tp_eff q) + nth k0 p n0)%num)).
      rewrite seq_nth by exact Hkn. cbn [Nat.add].
      assert (Hm : nth k (vmul X (map (fun x : R => if (x <? n0)%num then (n1 / ef)%num else ef) s)) 0 =
                   nth k X 0 * (if (nth k s 0 <? 0)%num then 1 / ef else ef)).
      { apply nth_vmul_where; lia. }
      rewrite Hm. unfold X. rewrite nth_colsum_scaled; [| exact Hkn | exact sust_rows_len | unfold sust_matrix; now rewrite map_length, seq_length].
      unfold sust_matrix. rewrite map2_map_combine. unfold idx. rewrite Hdt. cbn [tp_eff tq n0 n1 NumR nmul nadd ndiv]. reflexivity.
  Qed.
End Thermal.
