(* Carrier-independent list facts about Vec (lengths, nth, upd, idx). No Reals. *)
From Coq Require Import ZArith List Bool Arith Lia.
From DK Require Import Num Vec.
From DK.Model Require Import Leaf.
Import ListNotations.

Section VecFacts.
  Context {A : Type} `{Num A}.

  Lemma map2_length {B C D} (f : B -> C -> D) l m : length (map2 f l m) = Nat.min (length l) (length m).
  Proof. revert m; induction l as [|x l IH]; intros [|y m]; simpl; auto. Qed.

  Lemma upd_length {B} (l : list B) k v : length (upd l k v) = length l.
  Proof. revert k; induction l as [|x l IH]; intros [|k]; simpl; auto. Qed.

  Lemma nth_upd_eq {B} (l : list B) k v d : k < length l -> nth k (upd l k v) d = v.
  Proof. revert k; induction l as [|x l IH]; intros [|k] Hk; simpl in *; try lia; auto. apply IH; lia. Qed.

  Lemma nth_upd_neq {B} (l : list B) k j v d : j <> k -> nth j (upd l k v) d = nth j l d.
  Proof.
    revert k j; induction l as [|x l IH]; intros [|k] [|j] Hne; simpl; auto; try lia.
  Qed.

  Lemma upd_same {B} (l : list B) k d : upd l k (nth k l d) = l.
  Proof. revert k; induction l as [|x l IH]; intros [|k]; simpl; auto. f_equal; apply IH. Qed.

  Lemma repeat_nth {B} (c d : B) n k : k < n -> nth k (repeat c n) d = c.
  Proof. revert k; induction n as [|n IH]; intros [|k] Hk; simpl; try lia; auto. apply IH; lia. Qed.

  Lemma vconst_length n (c : A) : length (vconst n c) = n.
  Proof. apply repeat_length. Qed.

  Lemma idx_length (s : list A) : length (idx s) = length s.
  Proof. unfold idx. rewrite combine_length, seq_length. lia. Qed.
End VecFacts.
