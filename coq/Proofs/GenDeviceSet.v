(* One DeviceSet level as regenerated from device_kit/deviceset.py (Gen/DeviceSet.v, translator/deviceset_tx.py) is one level of
   the tree recursion of Model/Tree.v, for ANY children: instantiate the abstract children with the tree model of the child
   sub-trees and the set's shape / partition / cost / deriv / hess / bounds / project are those of the tree.  Any carrier, any leaf
   behaviours (tie O), axiom-free. *)
From Coq Require Import ZArith List Bool Arith Lia String.
From DK Require Import Num Vec.
From DK.Model Require Import Leaf Fn Dev Tree SetOps.
From DK.Gen Require Import DeviceSet.
Import ListNotations.

(* np.roll(x.cumsum(), 1) with [0] = 0 zipped with x: the exclusive prefix sums *)
Lemma removelast_cons2 {B} (a b : B) l : removelast (a :: b :: l) = a :: removelast (b :: l).
Proof. reflexivity. Qed.
Lemma scan_pairs acc (l : list nat) : l <> [] -> combine (acc :: removelast (cumsum_from acc l)) l = pairs_from acc l.
Proof.
  revert acc. induction l as [|x l IH]; intros acc Hne; [contradiction|]. destruct l as [|y l].
  - reflexivity.
  - cbn [cumsum_from]. cbn [cumsum_from] in IH. rewrite removelast_cons2. cbn [combine pairs_from]. f_equal.
    apply (IH (acc + x)%nat). discriminate.
Qed.
Lemma roll_cumsum_pairs (rs : list nat) : combine (np_set0 (np_roll1 (np_cumsum rs))) rs = pairs_from 0 rs.
Proof.
  destruct rs as [|r rs]; [reflexivity|]. unfold np_cumsum, np_roll1.
  destruct (cumsum_from 0 (r :: rs)) as [|c cs] eqn:E; [discriminate|]. cbn [np_set0]. rewrite <- E. apply scan_pairs. discriminate.
Qed.

Section OneLevel.
  Context {A : Type} `{Num A} {L : Type} (ops : leafops A L) (n : nat).

  (* a child sub-tree as the set above it sees it *)
  Definition kid_of (k : gdev A L) : kid A :=
    {| k_rows := rows ops k; k_len := n; k_cost := gcost ops k; k_deriv := gderiv ops k;
       k_hess := fun S _ => ghess ops k S; k_bounds := gbounds ops k; k_project := gproject ops k |}.
  Notation kids_of ks := (map kid_of ks).

  Lemma gen_shapes ks : map fst (DeviceSet_shapes (kids_of ks) n) = map (rows ops) ks.
  Proof. first [reflexivity | unfold DeviceSet_shapes]. rewrite !map_map. reflexivity. Qed.
  Lemma nsum_rows ks : nsum (map (rows ops) ks) = kids_rows ops ks.
  Proof. induction ks as [|k ks IH]; [reflexivity|]. cbn [map nsum fold_right kids_rows]. fold (nsum (map (rows ops) ks)). now rewrite IH. Qed.
  Lemma gen_shape ks : DeviceSet_shape (kids_of ks) n = (kids_rows ops ks, n).
  Proof. unfold DeviceSet_shape. cbn [fst]. rewrite gen_shapes, nsum_rows. reflexivity. Qed.
  Lemma pairs_partition o ks : pairs_from o (map (rows ops) ks) = partition_from ops o ks.
  Proof. revert o. induction ks as [|k ks IH]; intros o; cbn; [reflexivity | now rewrite IH]. Qed.
  Lemma gen_partition ks : DeviceSet_partition (kids_of ks) n = partition_from ops 0 ks.
  Proof. unfold DeviceSet_partition. cbv zeta. rewrite gen_shapes. rewrite <- pairs_partition. first [reflexivity | apply roll_cumsum_pairs]. Qed.

  (* the comprehension over zip(self.devices, self.partition) is the recursion over the children with running row offset *)
  Fixpoint zipgo {T} (F : kid A -> nat * nat -> T) (ks : list (gdev A L)) (o : nat) : list T :=
    match ks with [] => [] | k :: ks' => F (kid_of k) (o, rows ops k) :: zipgo F ks' (o + rows ops k)%nat end.
  Lemma zip_kids {T} (F : kid A -> nat * nat -> T) ks o :
    map (fun di => let d := fst di in let i := snd di in F d i) (combine (kids_of ks) (partition_from ops o ks)) = zipgo F ks o.
  Proof. revert o. induction ks as [|k ks IH]; intros o; cbn [map combine partition_from zipgo]; [reflexivity|]. cbv zeta. cbn [fst snd]. f_equal. apply IH. Qed.

  Variables (ks : list (gdev A L)) (s : list A) (p : price A).
  Notation R := (kids_rows ops ks).
  Notation S := (reshape R n s).
  Notation P := (price_rows R n p).

  Theorem gen_set_cost : DeviceSet_cost (kids_of ks) n s p = kids_cost ops ks 0 S P.
  Proof.
    unfold DeviceSet_cost, DeviceSet_costv. cbv zeta. rewrite gen_shape, gen_partition. cbn [fst snd].
    rewrite (zip_kids (fun d i => k_cost d (rslice (fst i) (snd i) S) (rslice (fst i) (snd i) P))).
    generalize S P. intros S0 P0. generalize 0%nat. induction ks as [|k ks' IH]; intros o; [reflexivity|]. cbn [zipgo kids_cost vsum fold_right fst snd kid_of k_cost].
    f_equal. apply IH.
  Qed.
  Theorem gen_set_deriv : DeviceSet_deriv (kids_of ks) n s p = kids_deriv ops ks 0 S P.
  Proof.
    unfold DeviceSet_deriv. cbv zeta. rewrite gen_shape, gen_partition. cbn [fst snd].
    rewrite (zip_kids (fun d i => k_deriv d (rslice (fst i) (snd i) S) (rslice (fst i) (snd i) P))).
    generalize S P. intros S0 P0. generalize 0%nat. induction ks as [|k ks' IH]; intros o; [reflexivity|]. cbn [zipgo kids_deriv List.concat fst snd kid_of k_deriv].
    f_equal. apply IH.
  Qed.
  Theorem gen_set_hess : DeviceSet_hess (kids_of ks) n s p = msum n (kids_hess ops ks 0 S).
  Proof.
    unfold DeviceSet_hess. cbv zeta. rewrite gen_shape, gen_partition. cbn [fst snd]. f_equal.
    rewrite (zip_kids (fun d i => k_hess d (rslice (fst i) (snd i) S) (rslice (fst i) (snd i) P))).
    generalize S P. intros S0 P0. generalize 0%nat. induction ks as [|k ks' IH]; intros o; [reflexivity|]. cbn [zipgo kids_hess fst snd kid_of k_hess].
    f_equal. apply IH.
  Qed.
  Theorem gen_set_bounds : DeviceSet_bounds (kids_of ks) n = kids_bounds ops ks.
  Proof.
    unfold DeviceSet_bounds. rewrite map_map. induction ks as [|k ks' IH]; [reflexivity|]. cbn [map List.concat kids_bounds kid_of k_bounds].
    f_equal. apply IH.
  Qed.
  Theorem gen_set_project : DeviceSet_project (kids_of ks) n s = kids_project ops ks 0 S.
  Proof.
    unfold DeviceSet_project. cbv zeta. rewrite gen_shape, gen_partition. cbn [fst snd].
    rewrite (zip_kids (fun d i => k_project d (rslice (fst i) (snd i) S))).
    generalize S. intros S0. generalize 0%nat. induction ks as [|k ks' IH]; intros o; [reflexivity|]. cbn [zipgo kids_project List.concat fst snd kid_of k_project].
    f_equal. apply IH.
  Qed.
End OneLevel.

(* ---- a whole DeviceSet / SubBalancedDeviceSet node of a tree (SubBalancedDeviceSet inherits these methods) ---------------------- *)
Section Node.
  Context {A : Type} `{Num A} {L : Type} (ops : leafops A L).
  Variables (i : string) (ks : list (gdev A L)) (sb : option (list (A * A))).
  Let d := DSet i ks sb.
  Let n := dlen ops d.
  Notation kids := (map (kid_of ops n) ks).

  Theorem gen_node_shape : DeviceSet_shape kids n = (rows ops d, dlen ops d).
  Proof. unfold d at 1. rewrite rows_kids. apply gen_shape. Qed.
  Theorem gen_node_partition : DeviceSet_partition kids n = partition ops d.
  Proof. apply gen_partition. Qed.
  Theorem gen_node_cost s p : DeviceSet_cost kids n s p = gcost ops d (shaped ops d s) (prices ops d p).
  Proof. rewrite gen_set_cost. unfold shaped, prices, d. now rewrite gcost_kids, rows_kids. Qed.
  Theorem gen_node_deriv s p : DeviceSet_deriv kids n s p = gderiv ops d (shaped ops d s) (prices ops d p).
  Proof. rewrite gen_set_deriv. unfold shaped, prices, d. now rewrite gderiv_kids, rows_kids. Qed.
  Theorem gen_node_hess s p : DeviceSet_hess kids n s p = ghess ops d (shaped ops d s).
  Proof. rewrite gen_set_hess. unfold shaped, d. now rewrite ghess_kids, rows_kids. Qed.
  Theorem gen_node_bounds : DeviceSet_bounds kids n = gbounds ops d.
  Proof. rewrite gen_set_bounds. unfold d. now rewrite gbounds_kids. Qed.
  Theorem gen_node_project s : DeviceSet_project kids n s = gproject ops d (shaped ops d s).
  Proof. rewrite gen_set_project. unfold shaped, d. now rewrite gproject_kids, rows_kids. Qed.

  Variables (lb : list string) (e : bool) (sg : A) (rm : bool).
  Let d' := SubBal i ks sb lb e sg rm.
  Theorem gen_subbalanced_node s p :
    DeviceSet_cost kids n s p = gcost ops d' (shaped ops d' s) (prices ops d' p) /\
    DeviceSet_deriv kids n s p = gderiv ops d' (shaped ops d' s) (prices ops d' p) /\
    DeviceSet_bounds kids n = gbounds ops d'.
  Proof.
    rewrite gen_set_cost, gen_set_deriv, gen_set_bounds. unfold shaped, prices, d'.
    rewrite gcost_kids_sub, gderiv_kids_sub, gbounds_kids_sub, rows_kids_sub. repeat split; reflexivity.
  Qed.
End Node.
