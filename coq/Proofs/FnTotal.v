(* The total (directional) derivative form of C01 for EVERY composition of the preference-function AST, hence for ADevice: by induction
   on the AST with directional versions of the building blocks (separable sums need no continuity argument: the derivative along d of
   sum_i phi_i(x_i + t d_i) is sum_i phi_i'(x_i) d_i; ranges: Proofs/RangedTotal.v; the peak term: the peak index is locally constant). *)
From Coq Require Import ZArith Reals List Lra Lia Arith Psatz.
From Coquelicot Require Import Coquelicot.
From DK Require Import Num NumR Vec.
From DK.Gen Require Import Kernels.
From DK.Model Require Import Leaf Fn Dev.
From DK.Proofs Require Import VecFacts RVec VecAlg Calc KernelR C01Proofs RangesProofs FnProofs Total TotalLeaf RangedTotal.
Import ListNotations.
Local Open Scope R_scope.

Lemma line_nth (x d : list R) t i : length d = length x -> (i < length x)%nat -> nth i (vadd x (vscale t d)) 0 = nth i x 0 + t * nth i d 0.
Proof. intros Ld Hi. rewrite nth_vadd by (rewrite ?vscale_length; lia). now rewrite nth_vscale_R. Qed.

(* ---- building blocks ---- *)
Lemma dir_const c x : dir_at (fun _ => c) (zeros (length x)) x.
Proof. intros d Ld. rewrite dot_zeros_l. apply (is_derive_const c). Qed.

Lemma dir_plus F1 g1 F2 g2 x : length g1 = length x -> length g2 = length x -> dir_at F1 g1 x -> dir_at F2 g2 x ->
  dir_at (fun y => F1 y + F2 y) (vadd g1 g2) x.
Proof.
  intros L1 L2 D1 D2 d Ld. rewrite dot_vadd_l by lia.
  apply (is_derive_plus (fun t => F1 (vadd x (vscale t d))) (fun t => F2 (vadd x (vscale t d)))); auto.
Qed.

Lemma dir_ext F F' g x : (forall y, length y = length x -> F y = F' y) -> dir_at F g x -> dir_at F' g x.
Proof.
  intros E D d Ld. apply (is_derive_ext (fun t => F (vadd x (vscale t d)))); [|now apply D].
  intros t. apply E. now apply line_point_length.
Qed.

Lemma dir_sum_list (fs : list (fn R)) (x : list R) :
  (forall g, In g fs -> length (fderiv g x) = length x /\ dir_at (feval g) (fderiv g x) x) ->
  dir_at (fun y => vsum (map (fun g => feval g y) fs)) (fold_right vadd (zeros (length x)) (map (fun g => fderiv g x) fs)) x.
Proof.
  induction fs as [|g fs IH]; intros Hg.
  - apply (dir_ext (fun _ => 0)); [intros; reflexivity|apply dir_const].
  - cbn [map fold_right].
    apply (dir_ext (fun y => feval g y + vsum (map (fun g0 => feval g0 y) fs))); [intros; reflexivity|].
    apply dir_plus; [apply Hg; now left| |apply Hg; now left|apply IH; intros; apply Hg; now right].
    apply fold_vadd_length. intros v Hv. apply in_map_iff in Hv. destruct Hv as (g0 & <- & H0). apply Hg. now right.
Qed.

Lemma vopp_line (x d : list R) t : length d = length x -> vopp (vadd x (vscale t d)) = vadd (vopp x) (vscale t (vopp d)).
Proof.
  intros Ld. apply list_eq_nth.
  - rewrite vopp_length, !vadd_length, !vscale_length, !vopp_length. lia.
  - intros i Hi. rewrite vopp_length, vadd_length, vscale_length in Hi.
    rewrite nth_vopp, !nth_vadd by (rewrite ?vscale_length, ?vopp_length; lia). rewrite !nth_vscale_R, !nth_vopp. ring.
Qed.
Lemma dot_vopp_l (g d : list R) : dot (vopp g) d = - dot g d.
Proof.
  revert d; induction g as [|a g IH]; intros [|b d]; try (unfold dot; simpl; ring).
  change (vopp (a :: g)) with (- a :: vopp g). rewrite !dot_cons, IH. ring.
Qed.
Lemma dot_vopp_r (g d : list R) : dot g (vopp d) = - dot g d.
Proof. rewrite dot_comm, dot_vopp_l, dot_comm. reflexivity. Qed.

Lemma dir_reflect (F : list R -> R) g x : dir_at F g (vopp x) -> dir_at (fun y => F (vopp y)) (vopp g) x.
Proof.
  intros D d Ld. rewrite dot_vopp_l, <- dot_vopp_r.
  apply (is_derive_ext (fun t => F (vadd (vopp x) (vscale t (vopp d))))); [intros t; now rewrite vopp_line|].
  apply D. now rewrite !vopp_length.
Qed.

(* separable sums: no continuity needed *)
Lemma dir_sepsum (phi dphi : nat -> R -> R) (x : list R) :
  (forall k, (k < length x)%nat -> is_derive (phi k) (nth k x 0) (dphi k (nth k x 0))) ->
  dir_at (fun y => vsum (map (fun '(i, v) => phi i v) (idx y))) (map (fun '(i, v) => dphi i v) (idx x)) x.
Proof.
  intros Hphi d Ld.
  assert (LG : length (map (fun '(i, v) => dphi i v) (idx x)) = length d) by (rewrite map_idx_length; lia).
  rewrite (dot_as_seq _ d LG), map_idx_length.
  apply (is_derive_ext (fun t => vsum (map (fun i => phi i (nth i x 0 + t * nth i d 0)) (seq 0 (length x))))).
  { intros t. rewrite vsum_map_idx_seq, line_point_length by exact Ld. apply vsum_map_ext. intros i Hi. apply in_seq in Hi.
    now rewrite line_nth by (auto; lia). }
  apply (is_derive_vsum_map (fun i t => phi i (nth i x 0 + t * nth i d 0))
           (fun i => nth i (map (fun '(i0, v) => dphi i0 v) (idx x)) 0 * nth i d 0)).
  intros i Hi. apply in_seq in Hi. rewrite (nth_map_idx dphi) by lia.
  assert (D1 : is_derive (fun t : R => nth i x 0 + t * nth i d 0) 0 (nth i d 0)) by (auto_derive; [exact I|ring]).
  assert (D2 : is_derive (phi i) (nth i x 0 + 0 * nth i d 0) (dphi i (nth i x 0))).
  { replace (nth i x 0 + 0 * nth i d 0) with (nth i x 0) by ring. apply Hphi. lia. }
  pose proof (is_derive_comp (phi i) (fun t => nth i x 0 + t * nth i d 0) 0 _ _ D2 D1) as D.
  unfold scal in D; simpl in D; unfold mult in D; simpl in D. rewrite Rmult_comm. exact D.
Qed.

(* the peak term: near x the peak index does not move *)
Lemma peak_stable_all (x : list R) m : (m < length x)%nat -> (forall j, (j < length x)%nat -> j <> m -> nth j x 0 < nth m x 0) ->
  exists r, 0 < r /\ forall y, vnear x y r -> argmax y = m /\ vmax y = nth m y 0.
Proof.
  intros Hm Hall. destruct (max_gap (nth m x 0) m x 0) as (g & Hg & Hgap); [intros j Hj Hne; apply Hall; auto|].
  exists (g / 2). split; [lra|]. intros y [Ly Hy].
  assert (A : argmax y = m).
  { apply argmax_unique; [lia|]. intros i Hi Hne. rewrite Ly in Hi.
    pose proof (Hy i Hi) as H1. pose proof (Hy m Hm) as H2. apply Rabs_def2 in H1. apply Rabs_def2 in H2.
    specialize (Hgap i Hi ltac:(simpl; lia)). lra. }
  split; auto. unfold vmax. now rewrite A.
Qed.

Lemma dir_demand (c : list R) (x : list R) : unique_max x ->
  dir_at (fun y => horner (A:=R) c (vmax y)) (upd (zeros (length x)) (argmax x) (horner (A:=R) (pderiv c) (vmax x))) x.
Proof.
  intros [->|(m & Hm & Hall)].
  - intros d Ld. destruct d; [|simpl in Ld; lia]. apply (is_derive_ext (fun _ => horner (A:=R) c (vmax []))); [reflexivity|].
    change (dot (upd (zeros (length (@nil R))) (argmax []) (horner (A:=R) (pderiv c) (vmax []))) []) with 0. apply is_derive_constR.
  - assert (Ev : vmax x = nth m x 0) by (unfold vmax; now rewrite (argmax_unique x m Hm Hall)).
    rewrite Ev, (argmax_unique x m Hm Hall). intros d Ld.
    assert (Ed : dot (upd (zeros (length x)) m (horner (A:=R) (pderiv c) (nth m x 0))) d = horner (A:=R) (pderiv c) (nth m x 0) * nth m d 0).
    { rewrite dot_upd by (unfold zeros; rewrite vconst_length; lia). rewrite dot_zeros_l. unfold zeros, vconst. rewrite repeat_nth by lia. numR. ring. }
    rewrite Ed. destruct (peak_stable_all x m Hm Hall) as (r & Hr & Hst).
    pose proof (dbound_nonneg d) as HD. remember (dbound d) as D eqn:ED.
    apply (is_derive_ext_near (fun t => horner (A:=R) c (nth m x 0 + t * nth m d 0)) _ 0 _ (r / (D + 1))); [apply Rdiv_lt_0_compat; lra| |].
    + intros t Ht. rewrite Rminus_0_r in Ht.
      assert (Hn : vnear x (vadd x (vscale t d)) r).
      { replace x with (vadd x (vscale 0 d)) at 1 by (rewrite vscale_0, Ld; apply vadd_zeros_r).
        apply line_near; auto. rewrite Rminus_0_r. rewrite <- ED. apply (Rmult_lt_reg_r (/ (D + 1))); [apply Rinv_0_lt_compat; lra|].
        rewrite Rmult_assoc, Rinv_r by lra. unfold Rdiv in Ht. lra. }
      destruct (Hst _ Hn) as [_ ->]. now rewrite line_nth by (auto; lia).
    + assert (D1 : is_derive (fun t : R => nth m x 0 + t * nth m d 0) 0 (nth m d 0)) by (auto_derive; [exact I|ring]).
      assert (D2 : is_derive (horner (A:=R) c) (nth m x 0 + 0 * nth m d 0) (horner (A:=R) (pderiv c) (nth m x 0))).
      { replace (nth m x 0 + 0 * nth m d 0) with (nth m x 0) by ring. apply horner_derive. }
      pose proof (is_derive_comp (horner (A:=R) c) (fun t => nth m x 0 + t * nth m d 0) 0 _ _ D2 D1) as DD.
      unfold scal in DD; simpl in DD; unfold mult in DD; simpl in DD. rewrite Rmult_comm. exact DD.
Qed.

(* ---- the theorem: every composition ---- *)
Theorem fn_dir : forall (f : fn R) (x : list R), wf_fn f (length x) -> smooth_fn f x -> dir_at (feval f) (fderiv f x) x.
Proof.
  intros f. induction f as [|fs IH|g IH|cs|cs offs|fs|rs IH|pl ph xl xh|a b c xl xh|pl ph xl xh|c] using fn_ind'; intros x Hwf Hsm.
  - apply (dir_const 0).
  - cbn [feval fderiv]. apply dir_sum_list. intros g Hg. split.
    + apply fderiv_length. eapply wf_sum_in; eauto.
    + apply IH; auto; [eapply wf_sum_in; eauto|eapply smooth_sum_in; eauto].
  - cbn [feval fderiv]. apply (dir_reflect (feval g)). apply IH; [now rewrite vopp_length|exact Hsm].
  - cbn [feval fderiv]. apply (dir_sepsum (fun i v => horner (nth i cs []) v) (fun i v => horner (pderiv (nth i cs [])) v)).
    intros k _. apply horner_derive.
  - cbn [feval fderiv].
    apply (dir_sepsum (fun i v => horner (nth i cs []) (v + nth i offs 0)) (fun i v => horner (pderiv (nth i cs [])) (v + nth i offs 0))).
    intros k _. apply horner_shift_derive.
  - cbn [feval fderiv].
    apply (dir_sepsum (fun i v => let '(pl, ph, xl, xh) := nth i fs (0, 0, 0, 0) in hl_cost v pl ph xl xh)
                      (fun i v => let '(pl, ph, xl, xh) := nth i fs (0, 0, 0, 0) in hl_deriv v pl ph xl xh)).
    intros k _. destruct (nth k fs (0, 0, 0, 0)) as [[[pl ph] xl] xh]. apply hl_cost_derive.
  - destruct (wf_ranges_in _ _ Hwf) as [Hc Hwf'].
    apply (dir_ext (ranged_sum rst ren (fun r z => feval (rfn r) z) rs)); [intros y _; symmetry; apply feval_ranges|].
    rewrite fderiv_ranges. unfold ranged_field.
    apply (ranged_dir rst ren (fun r z => feval (rfn r) z) (fun r => fderiv (rfn r) (slice (rst r) (ren r) x)) x rs); auto.
    intros [[s e] g] Hin. unfold rst, ren, rfn; cbn [fst snd].
    destruct (chain_in _ _ _ _ _ _ Hc Hin) as (_ & H1 & H2). unfold rst, ren in H1, H2; cbn [fst snd] in H1, H2.
    assert (W : wf_fn g (length (slice s e x))) by (rewrite slice_length by lia; now apply (Hwf' s e g)).
    split; [rewrite fderiv_length by exact W; apply slice_length; lia|].
    apply (IH s e g Hin); [exact W|now apply (smooth_ranges_in rs x Hsm)].
  - cbn [feval fderiv]. apply (total_everywhere _ _ (length x) x (inner_hl_everywhere pl ph xl xh (length x)) eq_refl).
  - cbn [feval fderiv]. cbn [wf_fn] in Hwf.
    apply (dir_sepsum (fun i v => abc_cost v (pnth a i) (pnth b i) (pnth c i) (pnth xl i) (pnth xh i))
                      (fun i v => abc_deriv v (pnth a i) (pnth b i) (pnth c i) (pnth xl i) (pnth xh i))).
    intros k Hk. destruct (Hwf k Hk) as [e ->]. apply abc_cost_derive.
  - cbn [feval fderiv].
    apply (dir_sepsum (fun i v => hl_cost v (pnth pl i) (pnth ph i) (pnth xl i) (pnth xh i))
                      (fun i v => hl_deriv v (pnth pl i) (pnth ph i) (pnth xl i) (pnth xh i))).
    intros k _. apply hl_cost_derive.
  - cbn [feval fderiv]. apply dir_demand. exact Hsm.
Qed.

Theorem adevice_total_derivative n b cb f ucs (x p : list R) : length x = n -> length p = n -> wf_fn f n -> smooth_fn f x ->
  dir_at (fun s => leaf_cost (Build_leafdev n b cb (KA f ucs)) s p) (leaf_deriv (Build_leafdev n b cb (KA f ucs)) x p) x.
Proof.
  intros Lx Lp Hwf Hsm. unfold leaf_cost, leaf_deriv; cbn [ld_kind]. numR.
  apply dir_plus; [apply fderiv_length; now rewrite Lx|lia|apply fn_dir; [now rewrite Lx|auto]|].
  intros d Ld. apply (is_derive_ext (fun t => dot x p + t * dot d p)).
  { intros t. rewrite dot_vadd_l by (rewrite vscale_length; lia). now rewrite dot_vscale_l. }
  rewrite (dot_comm p d). auto_derive; [exact I|ring].
Qed.
