(* C01: the reported marginal cost of every atomic class is the gradient of its cost (coordinate form),
   for every horizon length, away from kinks. *)
From Coq Require Import ZArith Reals List Bool Arith Lia Lra.
From Coquelicot Require Import Coquelicot.
From DK Require Import Num NumR Vec.
From DK.Gen Require Import Kernels.
From DK.Model Require Import Leaf Fn Dev DocSpec.
From DK.Proofs Require Import VecFacts RVec KernelR Calc C15Proofs.
Import ListNotations.
Local Open Scope R_scope.

Lemma vmul_ones p n : length p = n -> vmul (A:=R) p (ones n) = p.
Proof.
  revert n; induction p as [|a p IH]; intros [|n] HL; simpl in HL; try lia; [reflexivity|].
  unfold ones, vconst in *. cbn [repeat vmul map2]. numR. rewrite Rmult_1_r. f_equal. apply IH. lia.
Qed.

Lemma is_derive_shift (f : R -> R) (c x l : R) : is_derive f c l -> is_derive (fun t => f (c + (t - x))) x l.
Proof.
  intros D.
  assert (D1 : is_derive (fun t => c + (t - x)) x 1) by (auto_derive; [exact I|ring]).
  assert (E : c + (x - x) = c) by ring. rewrite <- E in D.
  pose proof (is_derive_comp f (fun t => c + (t - x)) x l 1 D D1) as DD.
  unfold scal in DD; simpl in DD; unfold mult in DD; simpl in DD. rewrite Rmult_1_l in DD. exact DD.
Qed.

(* ---------------- Device / PVDevice ---------------- *)
Lemma grad_device n b cb s p : length s = n -> length p = n ->
  grad_at (fun s' => leaf_cost (Build_leafdev n b cb KDev) s' p) (leaf_deriv (Build_leafdev n b cb KDev) s p) s /\
  grad_at (fun s' => leaf_cost (Build_leafdev n b cb KPV) s' p) (leaf_deriv (Build_leafdev n b cb KPV) s p) s.
Proof.
  intros Hs Hp. unfold leaf_cost, leaf_deriv; cbn [ld_kind ld_n]. unfold dev_cost, dev_deriv.
  rewrite vmul_ones by auto. split; apply grad_dot; lia.
Qed.

(* ---------------- CDevice ---------------- *)
Lemma grad_total a b0 x : grad_at (fun s => a * vsum s + b0) (vscale a (ones (length x))) x.
Proof.
  split; [unfold vscale, ones, vconst; now rewrite map_length, repeat_length|]. intros k Hk.
  rewrite nth_vscale. unfold ones, vconst. rewrite repeat_nth by auto. numR.
  apply (is_derive_ext (fun t => a * (vsum x + (t - nth k x 0)) + b0)).
  - intros t. now rewrite vsum_upd.
  - auto_derive; [exact I|ring].
Qed.
Lemma grad_cdevice n b cb a b0 s p : length s = n -> length p = n ->
  grad_at (fun s' => leaf_cost (Build_leafdev n b cb (KC a b0)) s' p) (leaf_deriv (Build_leafdev n b cb (KC a b0)) s p) s.
Proof.
  intros Hs Hp. unfold leaf_cost, leaf_deriv; cbn [ld_kind ld_n]. unfold cdev_cost, cdev_deriv. numR.
  apply grad_at_plus; [rewrite <- Hs; apply grad_total|apply grad_dot; lia].
Qed.

(* ---------------- IDevice2 ---------------- *)
Lemma grad_idevice2 n b cb pl ph s p : length s = n -> length p = n ->
  grad_at (fun s' => leaf_cost (Build_leafdev n b cb (KI2 pl ph)) s' p) (leaf_deriv (Build_leafdev n b cb (KI2 pl ph)) s p) s.
Proof.
  intros Hs Hp. unfold leaf_cost, leaf_deriv; cbn [ld_kind ld_n ld_bounds]. unfold idev2_cost, idev2_deriv, idev2_pref. numR.
  apply grad_at_plus; [|apply grad_dot; lia].
  apply (grad_sepsum (fun i v => hl_cost v (pnth pl i) (pnth ph i) (lo b i) (hi b i))
                     (fun i v => hl_deriv v (pnth pl i) (pnth ph i) (lo b i) (hi b i))).
  intros k _. apply hl_cost_derive.
Qed.

(* ---------------- IDevice (natural exponents >= 1: the executable fragment) ---------------- *)
Definition nat_exponents (bp : param R) (n : nat) : Prop := forall i, (i < n)%nat -> exists k, pnth bp i = Rnat (S k).
Lemma grad_idevice n b cb a bp c s p : length s = n -> length p = n -> nat_exponents bp n ->
  grad_at (fun s' => leaf_cost (Build_leafdev n b cb (KI a bp c)) s' p) (leaf_deriv (Build_leafdev n b cb (KI a bp c)) s p) s.
Proof.
  intros Hs Hp Hb. unfold leaf_cost, leaf_deriv; cbn [ld_kind ld_n ld_bounds]. unfold idev_cost, idev_deriv, idev_pref. numR.
  apply grad_at_plus; [|apply grad_dot; lia].
  apply (grad_sepsum (fun i v => abc_cost v (pnth a i) (pnth bp i) (pnth c i) (lo b i) (hi b i))
                     (fun i v => abc_deriv v (pnth a i) (pnth bp i) (pnth c i) (lo b i) (hi b i))).
  intros k Hk. destruct (Hb k ltac:(lia)) as [e ->]. apply abc_cost_derive.
Qed.

(* ---------------- GDevice ---------------- *)
Lemma pderiv_length (c : list R) : length (pderiv c) = (length c - 1)%nat.
Proof.
  induction c as [|a c IH]; [reflexivity|]. destruct c as [|a' c]; [reflexivity|].
  change (pderiv (a :: a' :: c)) with ((nofnat (length (a' :: c)) * a)%num :: pderiv (a' :: c)).
  cbn [length] in *. rewrite IH. lia.
Qed.
Lemma polyval_derive (c : list R) u : is_derive (polyval c) u (polyval (pderiv c) u).
Proof.
  induction c as [|a c IH].
  - simpl. auto_derive; [exact I|ring].
  - destruct c as [|a' c].
    + simpl. auto_derive; [exact I|ring].
    + change (pderiv (a :: a' :: c)) with ((nofnat (length (a' :: c)) * a)%num :: pderiv (a' :: c)).
      cbn [polyval]. rewrite pderiv_length. remember (length (a' :: c)) as m eqn:Hm.
      apply (is_derive_ext (fun t => a * t ^ m + polyval (a' :: c) t)); [reflexivity|].
      apply (is_derive_plus (fun t => a * t ^ m) (polyval (a' :: c))); [|exact IH].
      numR. unfold nofnat. numR. rewrite <- INR_IZR_INZ. auto_derive; [exact I|].
      replace (pred m) with (m - 1)%nat by lia. ring.
Qed.
Lemma horner_neg_derive (c : list R) x : is_derive (fun t => horner (A:=R) c (- t)) x (- horner (A:=R) (pderiv c) (- x)).
Proof.
  apply (is_derive_ext (fun t => polyval c (- t))); [intros; now rewrite horner_polyval|].
  rewrite horner_polyval.
  assert (D1 : is_derive (fun t : R => - t) x (-1)) by (auto_derive; [exact I|ring]).
  pose proof (is_derive_comp (polyval c) (fun t => - t) x _ _ (polyval_derive c (- x)) D1) as D.
  unfold scal in D; simpl in D; unfold mult in D; simpl in D.
  replace (- polyval (pderiv c) (- x)) with (-1 * polyval (pderiv c) (- x)) by ring. exact D.
Qed.
Lemma grad_gdevice n b cb g s p : length s = n -> length p = n ->
  grad_at (fun s' => leaf_cost (Build_leafdev n b cb (KG g)) s' p) (leaf_deriv (Build_leafdev n b cb (KG g)) s p) s.
Proof.
  intros Hs Hp. unfold leaf_cost, leaf_deriv; cbn [ld_kind]. unfold gdev_cost, gdev_deriv. numR.
  apply (grad_sepsum (fun i x => x * nth i p 0 + horner (gpoly g i) (- x)) (fun i x => nth i p 0 - horner (pderiv (gpoly g i)) (- x))).
  intros k _.
  apply (is_derive_plus (fun x => x * nth k p 0) (fun x => horner (gpoly g k) (- x)) (nth k s 0) (nth k p 0) (- horner (pderiv (gpoly g k)) (- nth k s 0))).
  - auto_derive; [exact I|ring].
  - apply horner_neg_derive.
Qed.

(* ---------------- CDevice2, one cumulative range ---------------- *)
Lemma grad_cdevice2_single n b c pl ph s p : length s = n -> length p = n ->
  grad_at (fun s' => leaf_cost (Build_leafdev n b [c] (KC2 pl ph)) s' p) (leaf_deriv (Build_leafdev n b [c] (KC2 pl ph)) s p) s.
Proof.
  intros Hs Hp. unfold leaf_cost, leaf_deriv; cbn [ld_kind ld_cb]. unfold cdev2_cost, cdev2_deriv, cdev2_pref, cdev2_dpref. numR.
  apply grad_at_plus; [|apply grad_dot; lia].
  split; [unfold vscale, ones, vconst; now rewrite map_length, repeat_length|]. intros k Hk.
  rewrite nth_vscale. unfold ones, vconst. rewrite repeat_nth by auto. numR. rewrite Rmult_1_r.
  apply (is_derive_ext (fun t => hl_cost (vsum s + (t - nth k s 0)) pl ph (cb_lo c) (cb_hi c))).
  - intros t. now rewrite vsum_upd.
  - apply (is_derive_shift (fun u => hl_cost u pl ph (cb_lo c) (cb_hi c))). apply hl_cost_derive.
Qed.

(* ---------------- storage / thermal state as an affine-in-psi map of the flow ---------------- *)
Definition psi (e v : R) : R := v * effof e v.

Lemma effof_one v : effof (A:=R) 1 v = 1.
Proof. unfold effof. numR. destruct (Reqb v 0); [reflexivity|]. destruct (Rleb 0 v); [reflexivity|]. field. Qed.
Lemma effof_pos e v : 0 < v -> effof (A:=R) e v = e.
Proof.
  intros Hv. unfold effof. numR. destruct (Reqb v 0) eqn:E; [apply Reqb_true in E; lra|].
  destruct (Rleb 0 v) eqn:E2; [reflexivity|apply Rleb_false in E2; lra].
Qed.
Lemma effof_neg e v : v < 0 -> effof (A:=R) e v = 1 / e.
Proof.
  intros Hv. unfold effof. numR. destruct (Reqb v 0) eqn:E; [apply Reqb_true in E; lra|].
  destruct (Rleb 0 v) eqn:E2; [apply Rleb_true in E2; lra|reflexivity].
Qed.

Lemma is_derive_ext_near (f g : R -> R) (x l d : R) : 0 < d ->
  (forall t, Rabs (t - x) < d -> f t = g t) -> is_derive f x l -> is_derive g x l.
Proof.
  intros Hd E D. apply (is_derive_ext_loc f g x l); [|exact D].
  exists (mkposreal d Hd). intros y Hy. apply E. exact Hy.
Qed.

Lemma psi_derive e v : (e = 1 \/ v <> 0) -> is_derive (psi e) v (effof e v).
Proof.
  intros [->|Hv].
  - rewrite effof_one. apply (is_derive_ext (fun t => t)); [intros t; unfold psi; rewrite effof_one; exact (eq_sym (Rmult_1_r t))|].
    auto_derive; [exact I|ring].
  - destruct (Rlt_dec 0 v) as [Hp|Hn].
    + rewrite effof_pos by auto. apply (is_derive_ext_near (fun t => t * e) (psi e) v e v Hp).
      * intros t Ht. unfold psi. rewrite effof_pos; [reflexivity|]. apply Rabs_def2 in Ht. lra.
      * auto_derive; [exact I|ring].
    + assert (Hneg : v < 0) by lra. rewrite effof_neg by auto.
      apply (is_derive_ext_near (fun t => t * (1 / e)) (psi e) v (1 / e) (- v) ltac:(lra)).
      * intros t Ht. unfold psi. rewrite effof_neg; [reflexivity|]. apply Rabs_def2 in Ht. lra.
      * auto_derive; [exact I|ring].
Qed.

Lemma nmin_Rmin x y : nmin (A:=R) x y = Rmin x y.
Proof. unfold nmin, Rmin. numR. unfold Rleb. destruct (Rle_dec x y); reflexivity. Qed.

Definition msq (D u : R) : R := nsq (nmin (A:=R) (u - D) 0).
Lemma msq_derive D u : is_derive (msq D) u (2 * nmin (A:=R) (u - D) 0).
Proof.
  unfold msq. destruct (Rtotal_order (u - D) 0) as [Hlt|[Heq|Hgt]].
  - rewrite nmin_Rmin, Rmin_left by lra.
    apply (is_derive_ext_near (fun t => (t - D) * (t - D)) _ u _ (D - u) ltac:(lra)).
    + intros t Ht. apply Rabs_def2 in Ht. unfold nsq. rewrite nmin_Rmin, Rmin_left by lra. reflexivity.
    + auto_derive; [exact I|ring].
  - rewrite nmin_Rmin, Heq, Rmin_left by lra. replace (2 * 0) with 0 by ring.
    apply is_derive_Reals. intros eps Heps. exists (mkposreal eps Heps). intros h Hh Hlt. simpl in Hlt.
    assert (Eu : u = D) by lra. subst u. unfold nsq. rewrite !nmin_Rmin. numR.
    replace (D + h - D) with h by ring. replace (D - D) with 0 by ring. rewrite (Rmin_left 0 0) by lra.
    unfold Rmin. destruct (Rle_dec h 0) as [Hle|Hge].
    + replace ((h * h - 0 * 0) / h - 0) with h by (field; auto). exact Hlt.
    + replace ((0 * 0 - 0 * 0) / h - 0) with 0 by (field; auto). rewrite Rabs_R0. exact Heps.
  - rewrite nmin_Rmin, Rmin_right by lra. replace (2 * 0) with 0 by ring.
    apply (is_derive_ext_near (fun t => 0) _ u _ (u - D) ltac:(lra)).
    + intros t Ht. apply Rabs_def2 in Ht. unfold nsq. rewrite nmin_Rmin, Rmin_right by lra. numR. ring.
    + auto_derive; [exact I|ring].
Qed.

Lemma effv_upd e r k t : effv (A:=R) e (upd r k t) = upd (effv e r) k (psi e t).
Proof.
  revert k; induction r as [|x r IH]; intros [|k]; cbn [upd effv map]; try reflexivity.
  unfold effv in IH. now rewrite IH.
Qed.
Lemma nth_effv e r k : nth k (effv (A:=R) e r) 0 = psi e (nth k r 0).
Proof.
  revert k; induction r as [|x r IH]; intros k.
  - replace (nth k (effv e []) 0) with 0 by (destruct k; reflexivity).
    replace (nth k (@nil R) 0) with 0 by (destruct k; reflexivity). unfold psi. ring.
  - destruct k as [|k]; cbn [effv map nth]; [reflexivity|apply IH].
Qed.
Lemma effv_length e (r : list R) : length (effv e r) = length r.
Proof. unfold effv. apply map_length. Qed.

Lemma soc_length (r : list R) s e : length (soc r s e) = length r.
Proof. unfold soc. now rewrite map_length, seq_length. Qed.
Lemma base_soc_length (b s : R) n : length (base_soc b s n) = n.
Proof. unfold base_soc. now rewrite map_length, seq_length. Qed.
Lemma nth_soc (r : list R) s e i : (i < length r)%nat -> nth i (soc r s e) 0 = dot (sust_row s (length r) i) (effv e r).
Proof. intros Hi. unfold soc. now rewrite nth_map_seq. Qed.

Lemma nth_soc_upd (r : list R) s e k t i : (k < length r)%nat -> (i < length r)%nat ->
  nth i (soc (upd r k t) s e) 0 = nth i (soc r s e) 0 + nth k (sust_row s (length r) i) 0 * (psi e t - psi e (nth k r 0)).
Proof.
  intros Hk Hi. rewrite !nth_soc by (rewrite ?upd_length; auto). rewrite upd_length, effv_upd.
  rewrite dot_upd_r by (rewrite effv_length; auto). now rewrite nth_effv.
Qed.

Lemma sdev_charge_length q (r : list R) : length (sdev_charge q r) = length r.
Proof. unfold sdev_charge, vadd. rewrite map2_length, base_soc_length, soc_length. lia. Qed.
Lemma nth_sdev_charge_upd q (r : list R) k t i : (k < length r)%nat -> (i < length r)%nat ->
  nth i (sdev_charge q (upd r k t)) 0
  = nth i (sdev_charge q r) 0 + nth k (sust_row (sp_sus q) (length r) i) 0 * (psi (sp_eff q) t - psi (sp_eff q) (nth k r 0)).
Proof.
  intros Hk Hi. unfold sdev_charge. rewrite upd_length.
  rewrite !nth_vadd by (rewrite ?base_soc_length, ?soc_length, ?upd_length; auto).
  rewrite nth_soc_upd by auto. ring.
Qed.

Lemma tdev_r2t_length q (r : list R) : length (tp_ext q) = length r -> length (tdev_r2t q r) = length r.
Proof.
  intros He. unfold tdev_r2t, tdev_tbase, vadd. rewrite !map2_length, base_soc_length, !soc_length, map_length. lia.
Qed.
Lemma nth_tdev_r2t_upd q (r : list R) k t i : length (tp_ext q) = length r -> (k < length r)%nat -> (i < length r)%nat ->
  nth i (tdev_r2t q (upd r k t)) 0
  = nth i (tdev_r2t q r) 0 + nth k (sust_row (tp_sus q) (length r) i) 0 * (psi (tp_eff q) t - psi (tp_eff q) (nth k r 0)).
Proof.
  intros He Hk Hi. unfold tdev_r2t. rewrite upd_length.
  assert (Lb : length (tdev_tbase q (length r)) = length r).
  { unfold tdev_tbase, vadd. rewrite map2_length, base_soc_length, soc_length, map_length. lia. }
  rewrite !nth_vadd by (rewrite ?Lb, ?soc_length, ?upd_length; auto).
  rewrite nth_soc_upd by auto. ring.
Qed.

Lemma vsum_map_as_idx (f : R -> R) (s : list R) : vsum (map f s) = vsum (map (fun '(i, v) => f v) (idx s)).
Proof.
  unfold idx. generalize 0%nat. induction s as [|x s IH]; intros a; [reflexivity|].
  cbn [length seq combine map]. rewrite !vsum_cons. now rewrite (IH (S a)).
Qed.

Definition coord_derive (F : list R -> R) (x : list R) (k : nat) (l : R) : Prop :=
  is_derive (fun t => F (upd x k t)) (nth k x 0) l.

(* ---------------- SDevice ---------------- *)
Definition smooth_at (e : R) (r : list R) : Prop := e = 1 \/ (forall k, (k < length r)%nat -> nth k r 0 <> 0).

Lemma sdev_deep_coord q (r : list R) k : (k < length r)%nat -> (sp_eff q = 1 \/ nth k r 0 <> 0) ->
  coord_derive (fun s => vsum (map nsq (sdev_short q s))) r k
    (vsum (map (fun i => 2 * nmin (nth i (sdev_charge q r) 0 - sp_capacity q * sp_depth q) 0
                         * nth k (sust_row (sp_sus q) (length r) i) 0) (seq 0 (length r)))
     * effof (sp_eff q) (nth k r 0)).
Proof.
  intros Hk Hs. set (D := sp_capacity q * sp_depth q).
  pose (G := upd (zeros (A:=R) (length r)) k
              (vsum (map (fun i => 2 * nmin (nth i (sdev_charge q r) 0 - D) 0 * nth k (sust_row (sp_sus q) (length r) i) 0) (seq 0 (length r)))
               * effof (sp_eff q) (nth k r 0))).
  assert (E : forall s, vsum (map nsq (sdev_short q s)) = vsum (map (fun '(i, u) => msq D u) (idx (sdev_charge q s)))).
  { intros s. unfold sdev_short. rewrite map_map. apply vsum_map_as_idx. }
  unfold coord_derive.
  apply (is_derive_ext (fun t => vsum (map (fun '(i, u) => msq D u) (idx (sdev_charge q (upd r k t)))))); [intros; now rewrite E|].
  apply (is_derive_ext (fun t => vsum (map (fun i => msq D (nth i (sdev_charge q r) 0
          + nth k (sust_row (sp_sus q) (length r) i) 0 * (psi (sp_eff q) t - psi (sp_eff q) (nth k r 0)))) (seq 0 (length r))))).
  { intros t. rewrite (vsum_map_idx_seq (fun _ u => msq D u)), sdev_charge_length, upd_length.
    apply vsum_map_ext. intros i Hi. apply in_seq in Hi. now rewrite nth_sdev_charge_upd by (auto; lia). }
  replace (vsum (map (fun i => 2 * nmin (nth i (sdev_charge q r) 0 - D) 0 * nth k (sust_row (sp_sus q) (length r) i) 0) (seq 0 (length r)))
           * effof (sp_eff q) (nth k r 0))
    with (vsum (map (fun i => 2 * nmin (nth i (sdev_charge q r) 0 - D) 0
                             * (nth k (sust_row (sp_sus q) (length r) i) 0 * effof (sp_eff q) (nth k r 0))) (seq 0 (length r)))).
  2:{ rewrite <- (Rmult_comm (effof (sp_eff q) (nth k r 0))), <- vsum_map_scal. apply vsum_map_ext. intros; ring. }
  apply (is_derive_vsum_map
           (fun i t => msq D (nth i (sdev_charge q r) 0 + nth k (sust_row (sp_sus q) (length r) i) 0 * (psi (sp_eff q) t - psi (sp_eff q) (nth k r 0))))
           (fun i => 2 * nmin (nth i (sdev_charge q r) 0 - D) 0 * (nth k (sust_row (sp_sus q) (length r) i) 0 * effof (sp_eff q) (nth k r 0)))).
  intros i _.
  set (u0 := nth i (sdev_charge q r) 0). set (a := nth k (sust_row (sp_sus q) (length r) i) 0).
  assert (D1 : is_derive (fun t => u0 + a * (psi (sp_eff q) t - psi (sp_eff q) (nth k r 0))) (nth k r 0) (a * effof (sp_eff q) (nth k r 0))).
  { apply is_derive_affine_of. apply psi_derive. exact Hs. }
  assert (E0 : u0 + a * (psi (sp_eff q) (nth k r 0) - psi (sp_eff q) (nth k r 0)) = u0) by ring.
  pose proof (msq_derive D u0) as D2. rewrite <- E0 in D2 at 1.
  pose proof (is_derive_comp (msq D) (fun t => u0 + a * (psi (sp_eff q) t - psi (sp_eff q) (nth k r 0))) (nth k r 0) _ _ D2 D1) as DD.
  unfold scal in DD; simpl in DD; unfold mult in DD; simpl in DD. rewrite Rmult_comm. exact DD.
Qed.

Lemma is_derive_lin4 (f1 f2 f3 f4 : R -> R) (x l1 l2 l3 l4 c1 c2 c3 : R) :
  is_derive f1 x l1 -> is_derive f2 x l2 -> is_derive f3 x l3 -> is_derive f4 x l4 ->
  is_derive (fun t => c1 * f1 t - c2 * f2 t + c3 * f3 t + f4 t) x (c1 * l1 - c2 * l2 + c3 * l3 + l4).
Proof.
  intros D1 D2 D3 D4.
  apply (is_derive_plus (fun t => c1 * f1 t - c2 * f2 t + c3 * f3 t) f4 x (c1 * l1 - c2 * l2 + c3 * l3) l4); [|exact D4].
  apply (is_derive_plus (fun t => c1 * f1 t - c2 * f2 t) (fun t => c3 * f3 t) x (c1 * l1 - c2 * l2) (c3 * l3));
    [|apply is_derive_cmult; exact D3].
  apply (is_derive_minus (fun t => c1 * f1 t) (fun t => c2 * f2 t) x (c1 * l1) (c2 * l2)); apply is_derive_cmult; assumption.
Qed.

Lemma nth_sdev_short q (r : list R) i : (i < length r)%nat ->
  nth i (sdev_short q r) 0 = nmin (nth i (sdev_charge q r) 0 - sp_capacity q * sp_depth q) 0.
Proof.
  intros Hi. unfold sdev_short.
  rewrite (nth_indep _ 0 ((fun c => nmin (c - sp_capacity q * sp_depth q)%num n0) 0)) by (rewrite map_length, sdev_charge_length; auto).
  rewrite (map_nth (fun c => nmin (c - sp_capacity q * sp_depth q)%num n0)). reflexivity.
Qed.

Lemma grad_sdevice n b cb q s p : length s = n -> length p = n -> smooth_at (sp_eff q) s ->
  grad_at (fun s' => leaf_cost (Build_leafdev n b cb (KS q)) s' p) (leaf_deriv (Build_leafdev n b cb (KS q)) s p) s.
Proof.
  intros Hs Hp Hsm. unfold leaf_cost, leaf_deriv; cbn [ld_kind]. split; [unfold sdev_deriv; apply map_idx_length|].
  intros k Hk. unfold sdev_deriv.
  rewrite (nth_map_idx (fun k x => (n2 * sp_c1 q * x - sp_c2 q * nbr s k
      + vsum (map (fun '(i, m) => n2 * sp_c3 q * m * nth k (sust_row (sp_sus q) (length s) i) n0 * effof (sp_eff q) x) (idx (sdev_short q s)))
      + nth k p n0)%num)) by auto.
  unfold sdev_cost, sdev_pref. numR.
  assert (Hs' : sp_eff q = 1 \/ nth k s 0 <> 0) by (destruct Hsm as [?|H]; [left; auto|right; apply H; auto]).
  pose proof (sdev_deep_coord q s k Hk Hs') as D3. unfold coord_derive in D3.
  assert (D1 : is_derive (fun t => vsum (map nsq (upd s k t))) (nth k s 0) (2 * nth k s 0)).
  { apply (is_derive_ext (fun t => vsum (map (fun '(i, v) => nsq v) (idx (upd s k t))))); [intros; now rewrite <- vsum_map_as_idx|].
    pose proof (grad_sepsum (fun _ v => nsq v) (fun _ v => 2 * v) s) as [_ G].
    { intros j _. unfold nsq. numR. auto_derive; [exact I|ring]. }
    specialize (G k Hk). rewrite (nth_map_idx (fun _ v => 2 * v)) in G by auto. exact G. }
  assert (D2 : is_derive (fun t => flip (upd s k t)) (nth k s 0) (nbr s k)).
  { pose proof (grad_flip s) as [_ G]. specialize (G k Hk). now rewrite nth_map_seq in G by auto. }
  assert (D4 : is_derive (fun t => dot (upd s k t) p) (nth k s 0) (nth k p 0)).
  { pose proof (grad_dot p s ltac:(lia)) as [_ G]. apply G; auto. }
  pose proof (is_derive_lin4 _ _ _ _ _ _ _ _ _ (sp_c1 q) (sp_c2 q) (sp_c3 q) D1 D2 D3 D4) as DD.
  match goal with |- is_derive _ _ ?l => replace l with
     (sp_c1 q * (2 * nth k s 0) - sp_c2 q * nbr s k +
      sp_c3 q * (vsum (map (fun i => 2 * nmin (nth i (sdev_charge q s) 0 - sp_capacity q * sp_depth q) 0 *
                  nth k (sust_row (sp_sus q) (length s) i) 0) (seq 0 (length s))) * effof (sp_eff q) (nth k s 0)) + nth k p 0) end.
  - exact DD.
  - assert (Ls : length (sdev_short q s) = length s) by (unfold sdev_short; now rewrite map_length, sdev_charge_length).
    assert (Edeep : vsum (map (fun '(i, m) => 2 * sp_c3 q * m * nth k (sust_row (sp_sus q) (length s) i) 0 * effof (sp_eff q) (nth k s 0))
                              (idx (sdev_short q s)))
      = sp_c3 q * (vsum (map (fun i => 2 * nmin (nth i (sdev_charge q s) 0 - sp_capacity q * sp_depth q) 0 *
                  nth k (sust_row (sp_sus q) (length s) i) 0) (seq 0 (length s))) * effof (sp_eff q) (nth k s 0))).
    { rewrite (vsum_map_idx_seq (fun i m => 2 * sp_c3 q * m * nth k (sust_row (sp_sus q) (length s) i) 0 * effof (sp_eff q) (nth k s 0))).
      rewrite Ls.
      rewrite (vsum_map_ext _ (fun i => (sp_c3 q * effof (sp_eff q) (nth k s 0)) *
        (2 * nmin (nth i (sdev_charge q s) 0 - sp_capacity q * sp_depth q) 0 * nth k (sust_row (sp_sus q) (length s) i) 0))).
      - rewrite vsum_map_scal. ring.
      - intros i Hi. apply in_seq in Hi. rewrite nth_sdev_short by lia. ring. }
    rewrite Edeep. ring.
Qed.

(* ---------------- TDevice ---------------- *)
Lemma grad_tdevice n b cb q s p : length s = n -> length p = n -> length (tp_ext q) = n -> smooth_at (tp_eff q) s ->
  grad_at (fun s' => leaf_cost (Build_leafdev n b cb (KT q)) s' p) (leaf_deriv (Build_leafdev n b cb (KT q)) s p) s.
Proof.
  intros Hs Hp He Hsm. unfold leaf_cost, leaf_deriv; cbn [ld_kind].
  unfold tdev_cost, tdev_deriv, tdev_pref. numR.
  split; [now rewrite map_length, seq_length|]. intros k Hk.
  rewrite nth_map_seq by auto.
  assert (Hs' : tp_eff q = 1 \/ nth k s 0 <> 0) by (destruct Hsm as [?|H]; [left; auto|right; apply H; auto]).
  set (phi := fun i t => abc_cost (A:=R) t 0 2 (pnth (tp_c q) i) (tdev_tmin q) (tp_opt q)).
  set (dphi := fun i t => abc_deriv (A:=R) t 0 2 (pnth (tp_c q) i) (tdev_tmin q) (tp_opt q)).
  pose (G := map (fun k => vsum (map (fun i => dphi i (nth i (tdev_r2t q s) 0) * nth k (sust_row (tp_sus q) (length s) i) 0) (seq 0 (length s)))
                          * effof (tp_eff q) (nth k s 0)) (seq 0 (length s))).
  assert (GS : grad_at (fun s' => vsum (map (fun '(i, u) => phi i u) (idx (tdev_r2t q s')))) G s).
  { apply (grad_state_sum (length s) (tdev_r2t q) (fun i k => nth k (sust_row (tp_sus q) (length s) i) 0)
             (fun _ => psi (tp_eff q)) (fun _ v => effof (tp_eff q) v) phi dphi s G).
    - intros y Hy. rewrite tdev_r2t_length; lia.
    - intros k0 t i Hk0 Hi. apply nth_tdev_r2t_upd; auto; lia.
    - intros k0 Hk0. apply psi_derive. destruct Hsm as [?|H]; [left; auto|right; apply H; auto].
    - intros i Hi. unfold phi, dphi. apply (abc_cost_derive _ 0 1).
    - unfold G. now rewrite map_length, seq_length.
    - intros k0 Hk0. unfold G. now rewrite nth_map_seq by auto. }
  destruct GS as [_ GS]. specialize (GS k Hk). unfold G in GS. rewrite nth_map_seq in GS by auto.
  pose proof (grad_dot p s ltac:(lia)) as [_ GD]. specialize (GD k Hk).
  pose proof (is_derive_plus _ _ _ _ _ GS GD) as DD. unfold plus in DD; simpl in DD.
  match goal with |- is_derive _ _ ?l => replace l with
    (vsum (map (fun i => dphi i (nth i (tdev_r2t q s) 0) * nth k (sust_row (tp_sus q) (length s) i) 0) (seq 0 (length s)))
      * effof (tp_eff q) (nth k s 0) + nth k p 0) end.
  - exact DD.
  - f_equal. f_equal.
    + unfold tdev_dt. rewrite (map_idx_seq (fun i t => abc_deriv t 0 2 (pnth (tp_c q) i) (tdev_tmin q) (tp_opt q))).
      rewrite tdev_r2t_length by lia.
      rewrite (vsum_map_idx_seq (fun i d => nth k (sust_row (tp_sus q) (length s) i) 0 * d)).
      rewrite map_length, seq_length. apply vsum_map_ext. intros i Hi. apply in_seq in Hi.
      rewrite nth_map_seq by lia. unfold dphi. ring.
    + destruct Hs' as [E1|Hne].
      * rewrite E1, effof_one. unfold nltb. numR. destruct (Rleb 0 (nth k s 0)); simpl; [reflexivity|field].
      * unfold nltb. numR. destruct (Rleb 0 (nth k s 0)) eqn:E; simpl.
        -- apply Rleb_true in E. rewrite effof_pos; [reflexivity|lra].
        -- apply Rleb_false in E. rewrite effof_neg; [reflexivity|lra].
Qed.
