(* C02: a device tree composes its leaves row-wise. Structural part (any carrier, any leaf behaviours: tie O) and
   the cost identity over R. Also the shared list / slicing facts about Model/Tree.v used by C04, C13, C17. *)
From Coq Require Import ZArith List Bool Arith Lia String.
From DK Require Import Num Vec.
From DK.Model Require Import Leaf Fn Dev Tree.
From DK.Proofs Require Export TreeFacts.
Import ListNotations.
#[local] Arguments l_rows {A L}. #[local] Arguments l_n {A L}. #[local] Arguments l_bounds {A L}.
#[local] Arguments l_cost {A L}. #[local] Arguments l_deriv {A L}. #[local] Arguments l_hess {A L}.
#[local] Arguments l_cons {A L}. #[local] Arguments l_conduit {A L}.

(* ---- units (plain leaves and adaptors) with their absolute row offsets --------------------------------------- *)
Section Compose.
  Context {A : Type} `{Num A} {L : Type}.
  Variable ops : leafops A L.
  Notation gdev := (gdev A L).

  Definition is_unit (d : gdev) : bool :=
    match d with Leaf _ _ | MF _ _ _ | TwoRatio _ _ _ _ _ => true | _ => false end.

  Fixpoint units_from (o : nat) (d : gdev) : list (nat * gdev) :=
    match d with
    | DSet _ ks _ | SubBal _ ks _ _ _ _ _ =>
        (fix go (ks : list gdev) (o : nat) : list (nat * gdev) :=
           match ks with [] => [] | k :: ks' => units_from o k ++ go ks' (o + rows ops k) end) ks o
    | _ => [(o, d)]
    end.
  Fixpoint kids_units (ks : list gdev) (o : nat) : list (nat * gdev) :=
    match ks with [] => [] | k :: ks' => units_from o k ++ kids_units ks' (o + rows ops k) end.
  Lemma units_kids i ks sb o : units_from o (DSet i ks sb) = kids_units ks o.
  Proof. cbn [units_from]. revert o; induction ks as [|k ks IH]; intros o; cbn [kids_units]; [reflexivity|]. now rewrite IH. Qed.
  Lemma units_kids_sub i ks sb lb e sg rm o : units_from o (SubBal i ks sb lb e sg rm) = kids_units ks o.
  Proof. cbn [units_from]. revert o; induction ks as [|k ks IH]; intros o; cbn [kids_units]; [reflexivity|]. now rewrite IH. Qed.

  (* every node, children before their parent (the order in which DeviceSet.constraints lists things) *)
  Fixpoint nodes_post (o : nat) (d : gdev) : list (nat * gdev) :=
    match d with
    | DSet _ ks _ | SubBal _ ks _ _ _ _ _ =>
        (fix go (ks : list gdev) (o : nat) : list (nat * gdev) :=
           match ks with [] => [] | k :: ks' => nodes_post o k ++ go ks' (o + rows ops k) end) ks o ++ [(o, d)]
    | _ => [(o, d)]
    end.
  Fixpoint kids_nodes (ks : list gdev) (o : nat) : list (nat * gdev) :=
    match ks with [] => [] | k :: ks' => nodes_post o k ++ kids_nodes ks' (o + rows ops k) end.
  Lemma nodes_kids i ks sb o : nodes_post o (DSet i ks sb) = kids_nodes ks o ++ [(o, DSet i ks sb)].
  Proof. reflexivity. Qed.
  Lemma nodes_kids_sub i ks sb lb e sg rm o :
    nodes_post o (SubBal i ks sb lb e sg rm) = kids_nodes ks o ++ [(o, SubBal i ks sb lb e sg rm)].
  Proof. reflexivity. Qed.

  (* the units tile the rows [o, o + rows d): each row belongs to exactly one unit, in order *)
  Fixpoint tiled (o : nat) (us : list (nat * gdev)) (e : nat) : Prop :=
    match us with [] => o = e | (ou, u) :: us' => ou = o /\ tiled (o + rows ops u) us' e end.
  Lemma tiled_app o us m vs e : tiled o us m -> tiled m vs e -> tiled o (us ++ vs) e.
  Proof.
    revert o; induction us as [|[ou u] us IH]; intros o Hu Hv; simpl in *; [now subst|].
    destruct Hu as [-> Hu]. split; auto.
  Qed.

  Lemma units_tile d : forall o, tiled o (units_from o d) (o + rows ops d).
  Proof.
    induction d as [i l|i ks sb IH|i ks sb lb e sg rm IH|i l fl|i l fl r e] using gdev_induction; intros o;
      try (cbn [units_from tiled]; now auto).
    - rewrite units_kids, rows_kids. revert o; induction IH as [|k ks Hk _ IHks]; intros o; cbn [kids_units kids_rows tiled]; [lia|].
      eapply tiled_app; [apply Hk|]. replace (o + (rows ops k + kids_rows ops ks)) with ((o + rows ops k) + kids_rows ops ks) by lia. apply IHks.
    - rewrite units_kids_sub, rows_kids_sub. revert o; induction IH as [|k ks Hk _ IHks]; intros o; cbn [kids_units kids_rows tiled]; [lia|].
      eapply tiled_app; [apply Hk|]. replace (o + (rows ops k + kids_rows ops ks)) with ((o + rows ops k) + kids_rows ops ks) by lia. apply IHks.
  Qed.

  Lemma units_are_units d : forall o ou u, In (ou, u) (units_from o d) -> is_unit u = true.
  Proof.
    induction d as [i l|i ks sb IH|i ks sb lb e sg rm IH|i l fl|i l fl r e] using gdev_induction; intros o ou u Hin;
      try (cbn [units_from] in Hin; destruct Hin as [E|[]]; inversion E; subst; reflexivity).
    - rewrite units_kids in Hin. revert o Hin; induction IH as [|k ks Hk _ IHks]; intros o Hin; cbn [kids_units] in Hin; [destruct Hin|].
      apply in_app_or in Hin. destruct Hin as [Hin|Hin]; [eapply Hk; eauto|eapply IHks; eauto].
    - rewrite units_kids_sub in Hin. revert o Hin; induction IH as [|k ks Hk _ IHks]; intros o Hin; cbn [kids_units] in Hin; [destruct Hin|].
      apply in_app_or in Hin. destruct Hin as [Hin|Hin]; [eapply Hk; eauto|eapply IHks; eauto].
  Qed.

  (* ---- marginal cost: the unit blocks stacked in row order ------------------------------------------------------ *)
  Definition stack_units (f : gdev -> list (list A) -> list (list A) -> list (list A)) (us : list (nat * gdev)) S P :=
    List.concat (map (fun ou => f (snd ou) (rslice (fst ou) (rows ops (snd ou)) S) (rslice (fst ou) (rows ops (snd ou)) P)) us).

  Lemma deriv_compose d : forall o S P,
    gderiv ops d (rslice o (rows ops d) S) (rslice o (rows ops d) P) = stack_units (gderiv ops) (units_from o d) S P.
  Proof.
    induction d as [i l|i ks sb IH|i ks sb lb e sg rm IH|i l fl|i l fl r e] using gdev_induction; intros o S P;
      try (unfold stack_units; cbn [units_from map List.concat fst snd]; now rewrite app_nil_r).
    - rewrite gderiv_kids, units_kids, rows_kids.
      assert (G : forall o' R, o' + kids_rows ops ks <= R ->
                kids_deriv ops ks o' (rslice o R S) (rslice o R P) = stack_units (gderiv ops) (kids_units ks (o + o')) S P).
      { clear sb i. induction IH as [|k ks Hk _ IHks]; intros o' R HR; cbn [kids_deriv kids_units kids_rows] in *; [reflexivity|].
        unfold stack_units. rewrite map_app, concat_app. fold (stack_units (gderiv ops) (units_from (o + o') k) S P).
        fold (stack_units (gderiv ops) (kids_units ks (o + o' + rows ops k)) S P).
        rewrite !rslice_rslice by lia. rewrite Hk. f_equal.
        replace (o + o' + rows ops k) with (o + (o' + rows ops k)) by lia. apply IHks; lia. }
      specialize (G 0 (kids_rows ops ks)). rewrite (Nat.add_0_r o) in G. apply G; lia.
    - rewrite gderiv_kids_sub, units_kids_sub, rows_kids_sub.
      assert (G : forall o' R, o' + kids_rows ops ks <= R ->
                kids_deriv ops ks o' (rslice o R S) (rslice o R P) = stack_units (gderiv ops) (kids_units ks (o + o')) S P).
      { clear sb i lb e sg rm. induction IH as [|k ks Hk _ IHks]; intros o' R HR; cbn [kids_deriv kids_units kids_rows] in *; [reflexivity|].
        unfold stack_units. rewrite map_app, concat_app. fold (stack_units (gderiv ops) (units_from (o + o') k) S P).
        fold (stack_units (gderiv ops) (kids_units ks (o + o' + rows ops k)) S P).
        rewrite !rslice_rslice by lia. rewrite Hk. f_equal.
        replace (o + o' + rows ops k) with (o + (o' + rows ops k)) by lia. apply IHks; lia. }
      specialize (G 0 (kids_rows ops ks)). rewrite (Nat.add_0_r o) in G. apply G; lia.
  Qed.

  (* ---- bounds: unit bounds, hence leaf bounds, in row order --------------------------------------------------- *)
  Lemma bounds_compose d : forall o, gbounds ops d = List.concat (map (fun ou => gbounds ops (snd ou)) (units_from o d)).
  Proof.
    induction d as [i l|i ks sb IH|i ks sb lb e sg rm IH|i l fl|i l fl r e] using gdev_induction; intros o;
      try (cbn [units_from map List.concat snd]; now rewrite app_nil_r).
    - rewrite gbounds_kids, units_kids. revert o; induction IH as [|k ks Hk _ IHks]; intros o; cbn [kids_bounds kids_units]; [reflexivity|].
      rewrite map_app, concat_app, <- Hk, <- IHks. reflexivity.
    - rewrite gbounds_kids_sub, units_kids_sub. revert o; induction IH as [|k ks Hk _ IHks]; intros o; cbn [kids_bounds kids_units]; [reflexivity|].
      rewrite map_app, concat_app, <- Hk, <- IHks. reflexivity.
  Qed.

  Lemma map_const_repeat {B C} (c : C) (l : list B) : map (fun _ => c) l = repeat c (List.length l).
  Proof. induction l; simpl; congruence. Qed.

  Lemma bounds_leaves d : (forall n b, l_bounds ops (l_conduit ops n b) = b) ->
    forall path, gbounds ops d = List.concat (map (fun pl => l_bounds ops (snd pl)) (leaves_from ops path d)).
  Proof.
    intros Hc. induction d as [i l|i ks sb IH|i ks sb lb e sg rm IH|i l fl|i l fl r e] using gdev_induction; intros path.
    - cbn. now rewrite app_nil_r.
    - rewrite gbounds_kids, leaves_kids. induction IH as [|k ks Hk _ IHks]; cbn [kids_bounds kids_leaves]; [reflexivity|].
      rewrite map_app, concat_app, <- Hk, <- IHks. reflexivity.
    - rewrite gbounds_kids_sub, leaves_kids_sub. induction IH as [|k ks Hk _ IHks]; cbn [kids_bounds kids_leaves]; [reflexivity|].
      rewrite map_app, concat_app, <- Hk, <- IHks. reflexivity.
    - cbn [gbounds leaves_from]. rewrite map_map. cbn [snd]. unfold conduit. rewrite Hc. now rewrite map_const_repeat.
    - cbn [gbounds leaves_from]. rewrite map_map. cbn [snd]. unfold conduit. rewrite Hc. now rewrite map_const_repeat.
  Qed.
End Compose.

(* ---- constraints: every unit constraint is evaluated on exactly the unit's rows ---------------------------------- *)
Lemma Forall2_trans {B} (E : B -> B -> Prop) : (forall a b c, E a b -> E b c -> E a c) ->
  forall l1 l2 l3, List.Forall2 E l1 l2 -> List.Forall2 E l2 l3 -> List.Forall2 E l1 l3.
Proof.
  intros HT l1 l2 l3 H12; revert l3; induction H12 as [|a b l1 l2 Hab _ IH]; intros l3 H23; inversion H23 as [|b' c l2' l3' Hbc Hrest]; subst; constructor; eauto.
Qed.
Lemma Forall2_map_pointwise {B C} (E : C -> C -> Prop) (f g : B -> C) l : (forall x, E (f x) (g x)) -> List.Forall2 E (map f l) (map g l).
Proof. intros Hp; induction l; simpl; constructor; auto. Qed.

Section Cons.
  Context {A : Type} `{Num A} {L : Type}.
  Variable ops : leafops A L.
  Notation gdev := (gdev A L).

  (* specification form of "c evaluated on rows [o, o+r) of an R x n flow": a slice of the flat flow, and the
     Jacobian padded with zeros for every other row *)
  Definition on_rows (R n o r : nat) (c : con A) : con A :=
    {| c_eq := c_eq c;
       c_fun := fun s => c_fun c (firstn (r * n) (skipn (o * n) s));
       c_jac := match c_jac c with
                | Some j => Some (fun s => zeros (o * n) ++ j (firstn (r * n) (skipn (o * n) s)) ++ zeros ((R - o - r) * n))
                | None => None end |}.

  Definition jac_equiv_on (N : nat) (j j' : option (list A -> list A)) : Prop :=
    match j, j' with
    | Some f, Some f' => forall s, List.length s = N -> f s = f' s
    | None, None => True
    | _, _ => False
    end.
  Definition con_equiv_on (N : nat) (c c' : con A) : Prop :=
    c_eq c = c_eq c' /\ (forall s, List.length s = N -> c_fun c s = c_fun c' s) /\ jac_equiv_on N (c_jac c) (c_jac c').

  Lemma con_equiv_refl N c : con_equiv_on N c c.
  Proof. repeat split; auto. unfold jac_equiv_on. destruct (c_jac c); auto. Qed.
  Lemma con_equiv_trans N a b c : con_equiv_on N a b -> con_equiv_on N b c -> con_equiv_on N a c.
  Proof.
    intros (E1 & F1 & J1) (E2 & F2 & J2). split; [congruence|]. split.
    - intros s Hs. rewrite F1, F2; auto.
    - unfold jac_equiv_on in *. destruct (c_jac a), (c_jac b), (c_jac c); try contradiction; auto.
      intros s Hs. rewrite J1, J2; auto.
  Qed.

  Lemma rewrap_on_rows N R n o r c : o + r <= R -> con_equiv_on N (rewrap R n o r c) (on_rows R n o r c).
  Proof.
    intros Hle. split; [reflexivity|]. split.
    - intros s _. cbn. now rewrite sub_flat_flat.
    - unfold jac_equiv_on. cbn. destruct (c_jac c); auto. intros s _. unfold zpad. now rewrite sub_flat_flat.
  Qed.

  Lemma flat_slice_slice (s : list A) n o r o' r' : o' + r' <= r ->
    firstn (r' * n) (skipn (o' * n) (firstn (r * n) (skipn (o * n) s))) = firstn (r' * n) (skipn ((o + o') * n) s).
  Proof.
    intros Hle. change (rslice (o' * n) (r' * n) (rslice (o * n) (r * n) s) = rslice ((o + o') * n) (r' * n) s).
    rewrite rslice_rslice by nia. f_equal. lia.
  Qed.

  Lemma on_rows_on_rows N R n o r o' r' c : o' + r' <= r -> o + r <= R ->
    con_equiv_on N (on_rows R n o r (on_rows r n o' r' c)) (on_rows R n (o + o') r' c).
  Proof.
    intros H1 H2. split; [reflexivity|]. split.
    - intros s _. cbn. now rewrite flat_slice_slice.
    - unfold jac_equiv_on. cbn. destruct (c_jac c); auto. intros s _. rewrite flat_slice_slice by lia.
      replace ((o + o') * n) with (o * n + o' * n) by lia.
      replace ((R - (o + o') - r') * n) with ((r - o' - r') * n + (R - o - r) * n) by nia.
      rewrite !zeros_app, <- !app_assoc. reflexivity.
  Qed.

  Lemma rewrap_rewrap N R n o r o' r' c : o' + r' <= r -> o + r <= R ->
    con_equiv_on N (rewrap R n o r (rewrap r n o' r' c)) (rewrap R n (o + o') r' c).
  Proof.
    intros H1 H2. split; [reflexivity|]. split.
    - intros s _. cbn. rewrite !sub_flat_flat by lia. now rewrite flat_slice_slice.
    - unfold jac_equiv_on. cbn. destruct (c_jac c); auto. intros s _. unfold zpad. rewrite !sub_flat_flat by lia.
      rewrite flat_slice_slice by lia.
      replace ((o + o') * n) with (o * n + o' * n) by lia.
      replace ((R - (o + o') - r') * n) with ((r - o' - r') * n + (R - o - r) * n) by nia.
      rewrite !zeros_app, <- !app_assoc. reflexivity.
  Qed.

  Lemma on_rows_whole R n c : con_equiv_on (R * n) (on_rows R n 0 R c) c.
  Proof.
    split; [reflexivity|]. split.
    - intros s Hs. cbn. rewrite firstn_all2 by lia. reflexivity.
    - unfold jac_equiv_on. cbn. destruct (c_jac c); auto. intros s Hs. rewrite firstn_all2 by lia.
      replace (R - 0 - R) with 0 by lia. cbn. now rewrite app_nil_r.
  Qed.

  (* all children of every set have the set's horizon length (DeviceSet.__init__ rejects anything else) *)
  Fixpoint wf_len (d : gdev) : Prop :=
    match d with
    | DSet _ ks _ | SubBal _ ks _ _ _ _ _ =>
        (fix go (ks : list gdev) : Prop :=
           match ks with [] => True | k :: ks' => (dlen ops k = dlen ops d /\ wf_len k) /\ go ks' end) ks
    | _ => True
    end.
  Lemma wf_len_kids i ks sb : wf_len (DSet i ks sb) -> List.Forall (fun k => dlen ops k = dlen ops (DSet i ks sb) /\ wf_len k) ks.
  Proof.
    cbn [wf_len]. generalize (dlen ops (DSet i ks sb)). intros n. induction ks as [|k ks IH]; intros Hw; constructor; [apply Hw|apply IH, Hw].
  Qed.
  Lemma wf_len_kids_sub i ks sb lb e sg rm : let d := SubBal i ks sb lb e sg rm in
    wf_len d -> List.Forall (fun k => dlen ops k = dlen ops d /\ wf_len k) ks.
  Proof.
    cbn zeta. cbn [wf_len]. generalize (dlen ops (SubBal i ks sb lb e sg rm)). intros n. induction ks as [|k ks IH]; intros Hw; constructor; [apply Hw|apply IH, Hw].
  Qed.

  (* what each node contributes itself: a unit its whole constraint list, a set its own coupling constraints *)
  Definition node_cons (d : gdev) : list (con A) :=
    match d with Leaf _ l => l_cons ops l | _ => own_cons ops d end.
  Definition placed (R n : nat) (nds : list (nat * gdev)) : list (con A) :=
    List.concat (map (fun ond => map (on_rows R n (fst ond) (rows ops (snd ond))) (node_cons (snd ond))) nds).
  Lemma placed_app R n a b : placed R n (a ++ b) = placed R n a ++ placed R n b.
  Proof. unfold placed. now rewrite map_app, concat_app. Qed.

  Lemma kids_compose R n r (ks : list gdev) o :
    List.Forall (fun k => forall R n o, dlen ops k = n -> o + rows ops k <= R ->
        List.Forall2 (con_equiv_on (R * n)) (map (rewrap R n o (rows ops k)) (gcons ops k)) (placed R n (nodes_post ops o k))) ks ->
    List.Forall (fun k => dlen ops k = n) ks -> o + r <= R ->
    forall o', o' + kids_rows ops ks <= r ->
    List.Forall2 (con_equiv_on (R * n)) (map (rewrap R n o r) (kids_cons ops r n ks o')) (placed R n (kids_nodes ops ks (o + o'))).
  Proof.
    intros IH Hn HR. induction IH as [|k ks Hk _ IHks]; intros o' Ho'; cbn [kids_cons kids_nodes kids_rows] in *; [constructor|].
    inversion Hn as [|? ? Hnk Hnks]; subst. rewrite map_app, placed_app. apply Forall2_app.
    - eapply Forall2_trans; [apply con_equiv_trans| |apply (Hk R (dlen ops k) (o + o')); [reflexivity|lia]].
      rewrite map_map. apply Forall2_map_pointwise. intros c. apply rewrap_rewrap; lia.
    - replace (o + o' + rows ops k) with (o + (o' + rows ops k)) by lia. apply IHks; auto. lia.
  Qed.

  Lemma cons_compose d : wf_len d -> forall R n o, dlen ops d = n -> o + rows ops d <= R ->
    List.Forall2 (con_equiv_on (R * n)) (map (rewrap R n o (rows ops d)) (gcons ops d)) (placed R n (nodes_post ops o d)).
  Proof.
    induction d as [i l|i ks sb IH|i ks sb lb e sg rm IH|i l fl|i l fl r e] using gdev_induction; intros Hw R n o Hn HR;
      try (unfold placed; cbn [nodes_post map List.concat fst snd]; rewrite app_nil_r;
           apply Forall2_map_pointwise; intros c; apply rewrap_on_rows; exact HR).
    - subst n. rewrite gcons_kids, nodes_kids, map_app, placed_app. apply Forall2_app.
      + pose proof (wf_len_kids _ _ _ Hw) as Hk.
        replace o with (o + 0) at 2 by lia. apply kids_compose; [ | |exact HR|rewrite rows_kids; lia].
        * rewrite Forall_forall in *. intros k Hin. apply IH; auto. apply Hk; auto.
        * rewrite Forall_forall in *. intros k Hin. apply Hk; auto.
      + unfold placed. cbn [map List.concat fst snd node_cons]. rewrite app_nil_r.
        apply Forall2_map_pointwise. intros c. apply rewrap_on_rows. exact HR.
    - subst n. rewrite gcons_kids_sub, nodes_kids_sub, map_app, placed_app. apply Forall2_app.
      + pose proof (wf_len_kids_sub _ _ _ _ _ _ _ Hw) as Hk. cbn zeta in Hk.
        replace o with (o + 0) at 2 by lia. apply kids_compose; [ | |exact HR|rewrite rows_kids_sub; lia].
        * rewrite Forall_forall in *. intros k Hin. apply IH; auto. apply Hk; auto.
        * rewrite Forall_forall in *. intros k Hin. apply Hk; auto.
      + unfold placed. cbn [map List.concat fst snd node_cons]. rewrite app_nil_r.
        apply Forall2_map_pointwise. intros c. apply rewrap_on_rows. exact HR.
  Qed.

  Lemma map_rewrap_whole R n cs : List.Forall2 (con_equiv_on (R * n)) cs (map (rewrap R n 0 R) cs).
  Proof.
    induction cs as [|c cs IH]; simpl; constructor; auto.
    eapply con_equiv_trans; [|apply con_equiv_trans with (b := on_rows R n 0 R c)].
    - apply con_equiv_refl.
    - destruct (on_rows_whole R n c) as (E & F & J). split; [auto|]. split; [intros; symmetry; auto|].
      unfold jac_equiv_on in *. destruct (c_jac (on_rows R n 0 R c)), (c_jac c); auto. intros; symmetry; auto.
    - destruct (rewrap_on_rows (R * n) R n 0 R c (Nat.le_refl _)) as (E & F & J). split; [auto|]. split; [intros; symmetry; auto|].
      unfold jac_equiv_on in *. destruct (c_jac (rewrap R n 0 R c)), (c_jac (on_rows R n 0 R c)); auto. intros; symmetry; auto.
  Qed.

  Theorem cons_compose_root d : wf_len d ->
    List.Forall2 (con_equiv_on (rows ops d * dlen ops d)) (gcons ops d)
                 (placed (rows ops d) (dlen ops d) (nodes_post ops 0 d)).
  Proof.
    intros Hw. eapply Forall2_trans; [apply con_equiv_trans|apply map_rewrap_whole|].
    apply cons_compose; auto.
  Qed.
End Cons.

(* ---- prices, flat vs shaped, standalone leaves (any carrier) ---------------------------------------------------- *)
Section Shape.
  Context {A : Type} `{Num A} {L : Type}.
  Variable ops : leafops A L.

  Definition price_slice (o r : nat) (p : price A) : price A :=
    match p with PMatrix m => PMatrix (rslice o r m) | _ => p end.
  Lemma price_rows_slice R n o r p : o + r <= R -> rslice o r (price_rows R n p) = price_rows r n (price_slice o r p).
  Proof. intros Hle. destruct p; cbn [price_rows price_slice]; try reflexivity; now apply rslice_repeat. Qed.

  Definition well_shaped (R n : nat) (S : list (list A)) : Prop :=
    List.length S = R /\ List.Forall (fun row => List.length row = n) S.
  Lemma shaped_concat d S : 0 < dlen ops d -> well_shaped (rows ops d) (dlen ops d) S -> shaped ops d (List.concat S) = S.
  Proof. intros Hn [HR HF]. unfold shaped, reshape. rewrite <- HR. now apply chunk_concat. Qed.
  Lemma concat_shaped d s : List.length s = rows ops d * dlen ops d -> List.concat (shaped ops d s) = s.
  Proof. intros Hl. unfold shaped, reshape. apply concat_chunk. lia. Qed.

  Lemma rslice_one {B} (S : list B) o s : nth_error S o = Some s -> rslice o 1 S = [s].
  Proof.
    unfold rslice. revert S; induction o as [|o IH]; intros [|x S] Hn; simpl in *; try discriminate.
    - now inversion Hn.
    - now apply IH.
  Qed.

  Lemma leaf_standalone i l s p :
    gcost ops (Leaf i l) [s] [p] = l_cost ops l s p /\ gderiv ops (Leaf i l) [s] [p] = [l_deriv ops l s p] /\
    gbounds ops (Leaf i l) = l_bounds ops l /\ gcons ops (Leaf i l) = l_cons ops l.
  Proof. cbn. now rewrite !app_nil_r. Qed.
End Shape.

(* ---- the cost identity needs arithmetic: stated over R --------------------------------------------------------- *)
From Coq Require Import Reals Lra.

From DK Require Import NumR.
From DK.Proofs Require Import RVec.
Local Open Scope R_scope.

Section CostR.
  Context {L : Type}.
  Variable ops : leafops R L.
  Notation gdev := (gdev R L).

  Definition sum_units (us : list (nat * gdev)) (S P : list (list R)) : R :=
    vsum (map (fun ou => gcost ops (snd ou) (rslice (fst ou) (rows ops (snd ou)) S) (rslice (fst ou) (rows ops (snd ou)) P)) us).
  Lemma sum_units_app a b S P : sum_units (a ++ b) S P = sum_units a S P + sum_units b S P.
  Proof. unfold sum_units. now rewrite map_app, vsum_app. Qed.

  Lemma kids_cost_compose (ks : list gdev) o S P :
    List.Forall (fun k => forall o S P, gcost ops k (rslice o (rows ops k) S) (rslice o (rows ops k) P)
                                      = sum_units (units_from ops o k) S P) ks ->
    forall o' Rr, (o' + kids_rows ops ks <= Rr)%nat ->
    kids_cost ops ks o' (rslice o Rr S) (rslice o Rr P) = sum_units (kids_units ops ks (o + o')) S P.
  Proof.
    intros IH. induction IH as [|k ks Hk _ IHks]; intros o' Rr HR; cbn [kids_cost kids_units kids_rows] in *; [reflexivity|].
    rewrite sum_units_app. rewrite !rslice_rslice by lia. rewrite Hk. numR. f_equal.
    replace (o + o' + rows ops k)%nat with (o + (o' + rows ops k))%nat by lia. apply IHks. lia.
  Qed.

  Lemma cost_compose d : forall o S P,
    gcost ops d (rslice o (rows ops d) S) (rslice o (rows ops d) P) = sum_units (units_from ops o d) S P.
  Proof.
    induction d as [i l|i ks sb IH|i ks sb lb e sg rm IH|i l fl|i l fl r e] using gdev_induction; intros o S P;
      try (unfold sum_units; cbn [units_from map fst snd]; rewrite vsum_cons, vsum_nil; now rewrite Rplus_0_r).
    - rewrite gcost_kids, units_kids, rows_kids. replace o with (o + 0)%nat at 3 by lia. apply kids_cost_compose; auto; lia.
    - rewrite gcost_kids_sub, units_kids_sub, rows_kids_sub. replace o with (o + 0)%nat at 3 by lia. apply kids_cost_compose; auto; lia.
  Qed.

  Theorem cost_compose_root d S P : List.length S = rows ops d -> List.length P = rows ops d ->
    gcost ops d S P = sum_units (units_from ops 0 d) S P.
  Proof.
    intros HS HP. rewrite <- cost_compose. rewrite <- HS at 1. rewrite <- HP. now rewrite !rslice_all.
  Qed.
End CostR.

(* ---- root-level corollaries (any carrier) ------------------------------------------------------------------------ *)
Local Close Scope R_scope.
Section Root.
  Context {A : Type} `{Num A} {L : Type}.
  Variable ops : leafops A L.

  Lemma deriv_compose_root d S P : List.length S = rows ops d -> List.length P = rows ops d ->
    gderiv ops d S P = stack_units ops (gderiv ops) (units_from ops 0 d) S P.
  Proof.
    intros HS HP. rewrite <- deriv_compose. rewrite <- HS at 1. rewrite <- HP. now rewrite !rslice_all.
  Qed.

  (* a leaf anywhere in a tree sees exactly its own row of the flow and of the prices, and what is computed from
     them is what the leaf computes standing alone *)
  Lemma position_independent d o i l S P s p :
    In (o, Leaf i l) (units_from ops 0 d) -> l_rows ops l = 1 -> nth_error S o = Some s -> nth_error P o = Some p ->
    let u := Leaf i l in
    gcost ops u (rslice o (rows ops u) S) (rslice o (rows ops u) P) = l_cost ops l s p /\
    gderiv ops u (rslice o (rows ops u) S) (rslice o (rows ops u) P) = [l_deriv ops l s p] /\
    gcost ops u [s] [p] = l_cost ops l s p /\ gderiv ops u [s] [p] = [l_deriv ops l s p].
  Proof.
    intros _ H1 HS HP. cbn zeta. cbn [rows]. rewrite H1, (rslice_one _ _ _ HS), (rslice_one _ _ _ HP).
    cbn. now rewrite !app_nil_r.
  Qed.

  Lemma flat_is_shaped d S P : 0 < dlen ops d -> well_shaped (rows ops d) (dlen ops d) S ->
    gcost ops d (shaped ops d (List.concat S)) P = gcost ops d S P /\
    gderiv ops d (shaped ops d (List.concat S)) P = gderiv ops d S P /\
    gproject ops d (shaped ops d (List.concat S)) = gproject ops d S.
  Proof. intros Hn Hw. now rewrite shaped_concat. Qed.
End Root.

Lemma example_units :
  let t : dev R :=
    DSet "root" [ Leaf "a" (Build_leafdev 2 [(0, 1); (0, 1)]%R [] KDev);
                  DSet "in" [ Leaf "b" (Build_leafdev 2 [(0, 2); (0, 2)]%R [] (KC 1 2)%R);
                              MF "m" (Build_leafdev 2 [(0, 3); (0, 3)]%R [] KDev) ["e"; "h"]%string ] None;
                  Leaf "c" (Build_leafdev 2 [(-1, 0); (-1, 0)]%R [] KPV) ]
         (Some [(0, 4); (1, 1)]%R) in
  map fst (units_from std_ops 0 t) = [0; 1; 2; 4]%nat /\ rows std_ops t = 5%nat /\ wf_len std_ops t.
Proof. cbn. repeat split. Qed.
