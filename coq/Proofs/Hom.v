(* The two instances of the carrier class agree: evaluating a model function at the rational instance (what the
   correspondence runs under vm_compute) and mapping the result into R gives the real instance (what the theorems are
   about) applied to the images of the arguments. Proved for the class operations and lifted to the generated kernels. *)
From Coq Require Import ZArith QArith Qpower Qreals Reals List Bool Lra Lia.
From DK Require Import Num NumQ NumR Vec.
From DK.Gen Require Import Kernels.
Import ListNotations.
Local Open Scope R_scope.

Lemma Q2R_red q : Q2R (Qred q) = Q2R q.
Proof. apply Qeq_eqR. apply Qred_correct. Qed.

Lemma hom_add x y : Q2R (nadd (A:=Q) x y) = nadd (A:=R) (Q2R x) (Q2R y).
Proof. change (Q2R (Qred (x + y)) = Q2R x + Q2R y). now rewrite Q2R_red, Q2R_plus. Qed.
Lemma hom_mul x y : Q2R (nmul (A:=Q) x y) = nmul (A:=R) (Q2R x) (Q2R y).
Proof. change (Q2R (Qred (x * y)) = Q2R x * Q2R y). now rewrite Q2R_red, Q2R_mult. Qed.
Lemma hom_sub x y : Q2R (nsub (A:=Q) x y) = nsub (A:=R) (Q2R x) (Q2R y).
Proof. change (Q2R (Qred (x - y)) = Q2R x - Q2R y). now rewrite Q2R_red, Q2R_minus. Qed.
Lemma hom_opp x : Q2R (nopp (A:=Q) x) = nopp (A:=R) (Q2R x).
Proof. change (Q2R (Qred (- x)) = - Q2R x). now rewrite Q2R_red, Q2R_opp. Qed.
Lemma Q2R_inv' q : Q2R (/ q) = / Q2R q.
Proof.
  destruct (Qeq_dec q 0) as [E|E].
  - rewrite (Qeq_eqR _ _ E). assert (E' : (/ q == 0)%Q) by (rewrite E; reflexivity).
    rewrite (Qeq_eqR _ _ E'). unfold Q2R; simpl. rewrite Rmult_0_l. symmetry. apply Rinv_0.
  - apply Q2R_inv. exact E.
Qed.
Lemma hom_div x y : Q2R (ndiv (A:=Q) x y) = ndiv (A:=R) (Q2R x) (Q2R y).
Proof. change (Q2R (Qred (x / y)) = Q2R x / Q2R y). rewrite Q2R_red. unfold Qdiv. rewrite Q2R_mult, Q2R_inv'. reflexivity. Qed.
Lemma hom_ofZ z : Q2R (nofZ (A:=Q) z) = nofZ (A:=R) z.
Proof. change (Q2R (inject_Z z) = IZR z). unfold Q2R, inject_Z. simpl. field. Qed.
Lemma hom_0 : Q2R (n0 (A:=Q)) = n0 (A:=R).
Proof. change (Q2R 0 = 0). unfold Q2R; simpl. field. Qed.
Lemma hom_1 : Q2R (n1 (A:=Q)) = n1 (A:=R).
Proof. change (Q2R 1 = 1). unfold Q2R; simpl. field. Qed.

Lemma hom_eqb x y : neqb (A:=Q) x y = neqb (A:=R) (Q2R x) (Q2R y).
Proof.
  change (Qeq_bool x y = Reqb (Q2R x) (Q2R y)). unfold Reqb. destruct (Req_EM_T (Q2R x) (Q2R y)) as [E|E].
  - apply Qeq_bool_iff. now apply eqR_Qeq.
  - destruct (Qeq_bool x y) eqn:B; [|reflexivity]. exfalso. apply E. apply Qeq_eqR. now apply Qeq_bool_iff.
Qed.
Lemma hom_leb x y : nleb (A:=Q) x y = nleb (A:=R) (Q2R x) (Q2R y).
Proof.
  change (Qle_bool x y = Rleb (Q2R x) (Q2R y)). unfold Rleb. destruct (Rle_dec (Q2R x) (Q2R y)) as [E|E].
  - apply Qle_bool_iff. now apply Rle_Qle.
  - destruct (Qle_bool x y) eqn:B; [|reflexivity]. exfalso. apply E. apply Qle_Rle. now apply Qle_bool_iff.
Qed.

(* natural powers *)
Lemma hom_npown x k : Q2R (npown (A:=Q) x k) = npown (A:=R) (Q2R x) k.
Proof. induction k as [|k IH]; [apply hom_1|]. cbn [npown]. now rewrite hom_mul, IH. Qed.

Lemma Q2R_power_pos x p : Q2R (Qpower_positive x p) = (Q2R x) ^ Pos.to_nat p.
Proof.
  induction p as [|p IH] using Pos.peano_ind.
  - simpl. ring.
  - rewrite <- Pos.add_1_r. rewrite (Qeq_eqR _ _ (Qpower_plus_positive x p 1)). rewrite Q2R_mult, IH.
    rewrite Pos2Nat.inj_add. rewrite pow_add. simpl. ring.
Qed.

Lemma Q2R_power x z : Q2R (Qpower x z) = powerRZ (Q2R x) z.
Proof.
  destruct z as [|p|p]; simpl.
  - unfold Q2R; simpl. field.
  - apply Q2R_power_pos.
  - rewrite Q2R_inv', Q2R_power_pos. reflexivity.
Qed.

(* x ** e for an integer-valued exponent e = z *)
Lemma hom_pw_int x (z : Z) : Q2R (npw (A:=Q) x (inject_Z z)) = npw (A:=R) (Q2R x) (IZR z).
Proof.
  change (Q2R (Qpw x (inject_Z z)) = Rpw (Q2R x) (IZR z)). rewrite Rpw_IZR. unfold Qpw.
  assert (E : Qred (inject_Z z) = inject_Z z).
  { unfold inject_Z, Qred. pose proof (Z.ggcd_gcd z 1) as G. pose proof (Z.ggcd_correct_divisors z 1) as D.
    destruct (Z.ggcd z 1) as [g [aa bb]]. simpl in *. rewrite Z.gcd_1_r in G. subst g. destruct D as [Da Db].
    rewrite Z.mul_1_l in Da, Db. subst aa bb. reflexivity. }
  rewrite E. change (Qden (inject_Z z)) with 1%positive. change (Qnum (inject_Z z)) with z. cbv iota.
  rewrite Q2R_red. apply Q2R_power.
Qed.

(* ---- lifted to the generated kernels (integer exponent b = z) ---- *)
Ltac hom :=
  repeat (rewrite ?hom_add, ?hom_mul, ?hom_sub, ?hom_div, ?hom_opp, ?hom_ofZ, ?hom_0, ?hom_1, <- ?hom_eqb, <- ?hom_leb).

Lemma hom_abc_s x xl xh : Q2R (abc_s (A:=Q) x xl xh) = abc_s (A:=R) (Q2R x) (Q2R xl) (Q2R xh).
Proof. unfold abc_s. now hom. Qed.
Lemma hom_abc_q x xl xh a : Q2R (abc_q (A:=Q) x xl xh a) = abc_q (A:=R) (Q2R x) (Q2R xl) (Q2R xh) (Q2R a).
Proof. unfold abc_q. hom. now rewrite !hom_abc_s. Qed.

Lemma hom_abc_cost x a (z : Z) c xl xh :
  Q2R (abc_cost (A:=Q) x a (inject_Z z) c xl xh) = abc_cost (A:=R) (Q2R x) (Q2R a) (IZR z) (Q2R c) (Q2R xl) (Q2R xh).
Proof.
  unfold abc_cost. rewrite <- hom_eqb. destruct (neqb xl xh); [apply hom_ofZ|].
  rewrite hom_mul, hom_pw_int, hom_abc_q. reflexivity.
Qed.

Lemma hom_hl_deriv x pl ph xl xh :
  Q2R (hl_deriv (A:=Q) x pl ph xl xh) = hl_deriv (A:=R) (Q2R x) (Q2R pl) (Q2R ph) (Q2R xl) (Q2R xh).
Proof. unfold hl_deriv. rewrite <- hom_eqb. destruct (neqb xl xh); [apply hom_ofZ|]. now hom. Qed.
Lemma hom_hl_hess x pl ph xl xh :
  Q2R (hl_hess (A:=Q) x pl ph xl xh) = hl_hess (A:=R) (Q2R x) (Q2R pl) (Q2R ph) (Q2R xl) (Q2R xh).
Proof. unfold hl_hess. rewrite <- hom_eqb. destruct (neqb xl xh); [apply hom_ofZ|]. now hom. Qed.

Lemma Qred_int a : Qred (a # 1) = a # 1.
Proof.
  unfold Qred. pose proof (Z.ggcd_gcd a 1) as G. pose proof (Z.ggcd_correct_divisors a 1) as D.
  destruct (Z.ggcd a 1) as [g [aa bb]]. simpl in *. rewrite Z.gcd_1_r in G. subst g. destruct D as [Da Db].
  rewrite Z.mul_1_l in Da, Db. subst aa bb. reflexivity.
Qed.
Lemma nsub_int z w : nsub (A:=Q) (inject_Z z) (nofZ w) = inject_Z (z - w).
Proof.
  change (Qred (inject_Z z - inject_Z w) = inject_Z (z - w)). unfold inject_Z, Qminus, Qplus, Qopp. simpl.
  rewrite !Z.mul_1_r. apply Qred_int.
Qed.

Lemma Q2R_inject z : Q2R (inject_Z z) = IZR z.
Proof. exact (hom_ofZ z). Qed.

Lemma hom_abc_deriv x a (z : Z) c xl xh :
  Q2R (abc_deriv (A:=Q) x a (inject_Z z) c xl xh) = abc_deriv (A:=R) (Q2R x) (Q2R a) (IZR z) (Q2R c) (Q2R xl) (Q2R xh).
Proof.
  unfold abc_deriv. rewrite <- hom_eqb. destruct (neqb xl xh); [apply hom_ofZ|].
  rewrite nsub_int. rewrite !hom_mul, hom_opp, hom_pw_int, hom_abc_q, hom_div, !hom_sub, hom_ofZ.
  change (Q2R (inject_Z z)) with (Q2R (nofZ (A:=Q) z)). rewrite hom_ofZ.
  change (nofZ (A:=R) z) with (IZR z). change (nofZ (A:=R) 1) with 1. rewrite minus_IZR. reflexivity.
Qed.

Lemma hom_abc_hess x a (z : Z) c xl xh :
  Q2R (abc_hess (A:=Q) x a (inject_Z z) c xl xh) = abc_hess (A:=R) (Q2R x) (Q2R a) (IZR z) (Q2R c) (Q2R xl) (Q2R xh).
Proof.
  unfold abc_hess. rewrite <- hom_eqb. destruct (neqb xl xh); [apply hom_ofZ|].
  assert (E1 : neqb (A:=Q) (inject_Z z) (nofZ 1) = neqb (A:=R) (IZR z) (nofZ 1)).
  { rewrite hom_eqb, Q2R_inject, hom_ofZ. reflexivity. }
  rewrite E1. destruct (neqb (A:=R) (IZR z) (nofZ 1)); [apply hom_ofZ|].
  rewrite !nsub_int. rewrite !hom_mul, !hom_pw_int, hom_abc_q, hom_div, !hom_sub, ?hom_ofZ, ?Q2R_inject.
  change (nofZ (A:=R) 1) with 1. change (nofZ (A:=R) 2) with 2. rewrite ?minus_IZR. reflexivity.
Qed.

Lemma hom_horner cs u : Q2R (horner (A:=Q) cs u) = horner (A:=R) (map Q2R cs) (Q2R u).
Proof.
  unfold horner. rewrite <- hom_0. generalize (n0 (A:=Q)). induction cs as [|c cs IH]; intros acc; [reflexivity|].
  cbn [fold_left map]. rewrite IH. now rewrite hom_add, hom_mul.
Qed.

Lemma hom_hl_cost x pl ph xl xh :
  Q2R (hl_cost (A:=Q) x pl ph xl xh) = hl_cost (A:=R) (Q2R x) (Q2R pl) (Q2R ph) (Q2R xl) (Q2R xh).
Proof.
  unfold hl_cost. rewrite <- hom_eqb. destruct (neqb xl xh); [apply hom_ofZ|]. cbv zeta.
  rewrite hom_sub, !hom_mul, hom_horner. cbn [map]. hom.
  assert (E : neqb (A:=Q) (ndiv (nsub ph pl) (nofZ 2)) (nofZ 0) = neqb (A:=R) (ndiv (nsub (Q2R ph) (Q2R pl)) (nofZ 2)) (nofZ 0)).
  { rewrite hom_eqb. now hom. }
  rewrite E. destruct (neqb (A:=R) (ndiv (nsub (Q2R ph) (Q2R pl)) (nofZ 2)) (nofZ 0)); cbn [negb]; hom; [reflexivity|].
  match goal with |- context [Q2R (npw (A:=Q) ?a (nofZ 2))] =>
    change (npw (A:=Q) a (nofZ 2)) with (npw (A:=Q) a (inject_Z 2)); rewrite (hom_pw_int a 2) end.
  hom. reflexivity.
Qed.

(* lists *)
Lemma hom_vsum l : Q2R (vsum (A:=Q) l) = vsum (A:=R) (map Q2R l).
Proof.
  induction l as [|x l IH]; [apply hom_0|].
  change (Q2R (nadd x (vsum l)) = nadd (Q2R x) (vsum (map Q2R l))). now rewrite hom_add, IH.
Qed.
Lemma hom_dot a b : Q2R (dot (A:=Q) a b) = dot (A:=R) (map Q2R a) (map Q2R b).
Proof.
  unfold dot. rewrite hom_vsum. f_equal. revert b; induction a as [|x a IH]; intros [|y b]; try reflexivity.
  cbn [vmul map2 map]. rewrite hom_mul. f_equal. apply IH.
Qed.
