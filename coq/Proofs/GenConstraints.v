(* The constraint lists regenerated from the `constraints` properties (Gen/Constraints.v, translator/constraints_tx.py: loops,
   default-argument capture versus late binding, if / else on the aggregate bounds, order, types, signs, limits) are the constraint
   model of Model/Dev.v and Model/Tree.v that C03 / C04 / C06 / C09 reason about.  Structural ones: any carrier, axiom-free.
   SDevice (commutations inside the lambdas): over the reals, with functional extensionality. *)
From Coq Require Import ZArith Reals List Bool Arith Lia Lra String FunctionalExtensionality.
From DK Require Import Num NumR Vec.
From DK.Model Require Import Leaf Fn Dev Tree ConOps.
From DK.Gen Require Import Constraints.
From DK.Proofs Require Import VecFacts RVec.
Import ListNotations.

Lemma flat_map_singleton {B C} (f : B -> C) (l : list B) : flat_map (fun x => [f x]) l = map f l.
Proof. induction l as [|x l IH]; cbn; [reflexivity | now rewrite IH]. Qed.

Section AnyCarrier.
  Context {A : Type} `{Num A}.

  (* TwoRatioMFDeviceSet.constraints *)
  Theorem gen_tworatio_constraints base R n ratios is_eq :
    TwoRatioMFDeviceSet_constraints base (R, n) ratios is_eq = base ++ ratio_cons R n ratios is_eq.
  Proof. unfold TwoRatioMFDeviceSet_constraints, ratio_cons. cbn [fst snd]. now rewrite flat_map_singleton. Qed.

  (* SubBalancedDeviceSet.constraints *)
  Theorem gen_subbalanced_constraints base R n sets is_eq sign :
    SubBalancedDeviceSet_constraints base (R, n) sets is_eq sign = base ++ label_cons R n sets is_eq sign.
  Proof.
    unfold SubBalancedDeviceSet_constraints, label_cons. cbn [fst snd]. apply (f_equal (app base)).
    induction sets as [|s sets IH]; [reflexivity|]. cbn [flat_map]. rewrite flat_map_singleton, IH. reflexivity.
  Qed.

  (* MFDeviceSet.constraints *)
  Theorem gen_mf_constraints base wrapped k n :
    MFDeviceSet_constraints base wrapped (k, n) = base ++ map (mf_wrap k n) wrapped.
  Proof. unfold MFDeviceSet_constraints. cbn [fst snd]. now rewrite flat_map_singleton. Qed.

  (* DeviceSet.constraints: one level *)
  Theorem gen_set_constraints (kids : list (ckid A)) part R n sb :
    DeviceSet_constraints kids part (R, n) sb = set_cons kids part (R, n) sb.
  Proof.
    unfold DeviceSet_constraints, set_cons. cbn [fst snd]. apply f_equal2.
    - induction (combine kids part) as [|di l IH]; [reflexivity|]. cbn [flat_map]. rewrite flat_map_singleton, IH. reflexivity.
    - destruct sb as [b|]; [|reflexivity]. cbn [sb_cons sb_table]. apply flat_map_ext. intros i. unfold sb_slot_cons, lo, hi. reflexivity.
  Qed.

  (* ... and as a node of a tree: the children's lists are the tree model's, the partition is the tree's *)
  Context {L : Type} (ops : leafops A L).
  Definition ckid_of (k : gdev A L) : ckid A := {| ck_cons := gcons ops k |}.
  Lemma set_cons_kids R n ks o sb :
    set_cons (map ckid_of ks) (partition_from ops o ks) (R, n) sb = kids_cons ops R n ks o ++ sb_cons R n sb.
  Proof.
    unfold set_cons. cbn [fst snd]. f_equal. revert o. induction ks as [|k ks IH]; intros o; [reflexivity|].
    cbn [map partition_from combine flat_map kids_cons fst snd ckid_of ck_cons]. now rewrite IH.
  Qed.
  Theorem gen_set_node_constraints i ks sb : let d := DSet i ks sb in
    DeviceSet_constraints (map ckid_of ks) (partition ops d) (rows ops d, dlen ops d) sb = gcons ops d.
  Proof. cbn zeta. rewrite gen_set_constraints, gcons_kids. cbn [partition own_cons]. apply set_cons_kids. Qed.
  Theorem gen_subbalanced_node_constraints i ks sb lb e sg rm : let d := SubBal i ks sb lb e sg rm in
    SubBalancedDeviceSet_constraints (DeviceSet_constraints (map ckid_of ks) (partition ops d) (rows ops d, dlen ops d) sb)
      (rows ops d, dlen ops d) (balance_sets (dedup (labels ops d)) lb rm) e sg = gcons ops d.
  Proof.
    cbn zeta. rewrite gen_subbalanced_constraints, gen_set_constraints, (gcons_kids_sub L ops i ks sb lb e sg rm). cbn [partition own_cons].
    rewrite set_cons_kids, <- app_assoc. reflexivity.
  Qed.
  Lemma no_conduit_cons R n k (p : list (nat * nat)) :
    flat_map (fun di : ckid A * (nat * nat) => map (rewrap R n (fst (snd di)) (snd (snd di))) (ck_cons (fst di))) (combine (repeat null_ckid k) p) = [].
  Proof. revert p. induction k as [|k IH]; intros [|x p]; try reflexivity. cbn [repeat combine flat_map null_ckid ck_cons map fst app]. apply IH. Qed.
  (* the adaptor: DeviceSet.constraints over conduits without constraints of their own, aggregate bounds = the wrapped bounds *)
  Theorem gen_mf_node_constraints i l flows : let d := MF i l flows in let k := List.length flows in let n := l_n L ops l in
    MFDeviceSet_constraints (DeviceSet_constraints (repeat null_ckid k) (map (fun j => (j, 1%nat)) (seq 0 k)) (k, n) (Some (l_bounds L ops l)))
      (l_cons L ops l) (k, n) = gcons ops d.
  Proof.
    cbn zeta. rewrite gen_mf_constraints, gen_set_constraints. unfold set_cons. cbn [fst snd gcons mf_cons]. f_equal.
    now rewrite no_conduit_cons.
  Qed.
  Theorem gen_tworatio_node_constraints i l flows ratios is_eq : let d := TwoRatio i l flows ratios is_eq in let k := List.length flows in let n := l_n L ops l in
    TwoRatioMFDeviceSet_constraints
      (MFDeviceSet_constraints (DeviceSet_constraints (repeat null_ckid k) (map (fun j => (j, 1%nat)) (seq 0 k)) (k, n) (Some (l_bounds L ops l))) (l_cons L ops l) (k, n))
      (k, n) ratios is_eq = gcons ops d.
  Proof. cbn zeta. rewrite gen_tworatio_constraints. rewrite (gen_mf_node_constraints i l flows). reflexivity. Qed.
End AnyCarrier.
