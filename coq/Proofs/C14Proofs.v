(* C14: the reported Hessian is the Jacobian of the reported marginal cost (which C01 shows to be the gradient
   of the cost), for every horizon length. *)
From Coq Require Import ZArith Reals List Bool Arith Lia Lra.
From Coquelicot Require Import Coquelicot.
From DK Require Import Num NumR Vec.
From DK.Gen Require Import Kernels.
From DK.Model Require Import Leaf Fn Dev DocSpec.
From DK.Proofs Require Import VecFacts RVec KernelR Calc C15Proofs C01Proofs.
Import ListNotations.
Local Open Scope R_scope.

Definition entry (H : list (list R)) (j k : nat) : R := nth k (nth j H []) 0.

(* H is the Jacobian of the vector field G at x, with the contract shape (n,n) *)
Definition hess_at (G : list R -> list R) (H : list (list R)) (x : list R) : Prop :=
  length H = length x /\
  (forall j, (j < length x)%nat -> length (nth j H []) = length x) /\
  forall j k, (j < length x)%nat -> (k < length x)%nat ->
    is_derive (fun t => nth j (G (upd x k t)) 0) (nth k x 0) (entry H j k).

Definition symmetric (H : list (list R)) : Prop := forall j k, entry H j k = entry H k j.
Definition quadform (H : list (list R)) (v : list R) : R :=
  vsum (map (fun j => nth j v 0 * vsum (map (fun k => entry H j k * nth k v 0) (seq 0 (length v)))) (seq 0 (length v))).

(* ---- shape / entries of the matrix builders ---- *)
Lemma diag_length (d : list R) : length (diag d) = length d.
Proof. unfold diag. now rewrite map_length, seq_length. Qed.
Lemma diag_row_length (d : list R) j : (j < length d)%nat -> length (nth j (diag d) []) = length d.
Proof. intros Hj. unfold diag. rewrite nth_map_seq by auto. now rewrite map_length, seq_length. Qed.
Lemma diag_entry (d : list R) j k : (j < length d)%nat -> (k < length d)%nat ->
  entry (diag d) j k = if Nat.eqb j k then nth j d 0 else 0.
Proof. intros Hj Hk. unfold entry, diag. rewrite nth_map_seq by auto. rewrite nth_map_seq by auto. reflexivity. Qed.
Lemma mconst_entry (v : R) r c j k : (j < r)%nat -> (k < c)%nat -> entry (mconst r c v) j k = v.
Proof. intros Hj Hk. unfold entry, mconst. rewrite (repeat_nth (repeat v c) [] r j Hj). now apply repeat_nth. Qed.
Lemma mconst_length (v : R) r c : length (mconst r c v) = r.
Proof. apply repeat_length. Qed.
Lemma mconst_row_length (v : R) r c j : (j < r)%nat -> length (nth j (mconst r c v) []) = c.
Proof. intros Hj. unfold mconst. rewrite (repeat_nth (repeat v c) [] r j Hj). apply repeat_length. Qed.

(* ---- vector fields that act slot by slot ---- *)
Lemma hess_separable (G : list R -> list R) (g dg : nat -> R -> R) (x : list R) :
  (forall s j, length s = length x -> (j < length x)%nat -> nth j (G s) 0 = g j (nth j s 0)) ->
  (forall k, (k < length x)%nat -> is_derive (g k) (nth k x 0) (dg k (nth k x 0))) ->
  hess_at G (diag (map (fun '(i, v) => dg i v) (idx x))) x.
Proof.
  intros HG Hd.
  assert (L : length (map (fun '(i, v) => dg i v) (idx x)) = length x) by apply map_idx_length.
  split; [now rewrite diag_length|]. split; [intros j Hj; rewrite diag_row_length; lia|].
  intros j k Hj Hk. rewrite diag_entry by lia. rewrite (nth_map_idx dg) by auto.
  apply (is_derive_ext (fun t => g j (nth j (upd x k t) 0))).
  - intros t. symmetry. apply HG; [apply upd_length|auto].
  - destruct (Nat.eqb_spec j k) as [->|Hne].
    + apply (is_derive_ext (g k)); [intros t; now rewrite nth_upd_eq|]. apply Hd; auto.
    + apply (is_derive_ext (fun _ => g j (nth j x 0))); [intros t; now rewrite nth_upd_neq|].
      auto_derive; [exact I|ring].
Qed.

Lemma nth_sep_plus_p (dphi : nat -> R -> R) (p s : list R) j : length p = length s -> (j < length s)%nat ->
  nth j (vadd (map (fun '(i, v) => dphi i v) (idx s)) p) 0 = dphi j (nth j s 0) + nth j p 0.
Proof.
  intros HL Hj. rewrite nth_vadd by (rewrite ?map_idx_length; lia). now rewrite (nth_map_idx dphi).
Qed.

(* ---------------- classes whose marginal cost does not depend on the flow ---------------- *)
Lemma hess_const_field (G : list R -> list R) (g : list R) (x : list R) :
  (forall s, length s = length x -> G s = g) -> hess_at G (mconst (length x) (length x) 0) x.
Proof.
  intros HG. split; [apply mconst_length|]. split; [intros; now apply mconst_row_length|].
  intros j k Hj Hk. rewrite mconst_entry by auto.
  apply (is_derive_ext (fun _ => nth j g 0)); [intros t; now rewrite HG by apply upd_length|].
  auto_derive; [exact I|ring].
Qed.

Lemma hess_device n b cb s p : length s = n ->
  hess_at (fun s' => leaf_deriv (Build_leafdev n b cb KDev) s' p) (leaf_hess (Build_leafdev n b cb KDev) s) s /\
  hess_at (fun s' => leaf_deriv (Build_leafdev n b cb KPV) s' p) (leaf_hess (Build_leafdev n b cb KPV) s) s.
Proof.
  intros Hs. unfold leaf_deriv, leaf_hess; cbn [ld_kind ld_n]. unfold dev_hess. subst n.
  split; apply (hess_const_field _ (dev_deriv (length s) p)); reflexivity.
Qed.
Lemma hess_cdevice n b cb a b0 s p : length s = n ->
  hess_at (fun s' => leaf_deriv (Build_leafdev n b cb (KC a b0)) s' p) (leaf_hess (Build_leafdev n b cb (KC a b0)) s) s.
Proof.
  intros Hs. unfold leaf_deriv, leaf_hess; cbn [ld_kind ld_n]. unfold dev_hess. subst n.
  apply (hess_const_field _ (cdev_deriv (length s) a p)); reflexivity.
Qed.

(* ---------------- slot-wise kernels ---------------- *)
Lemma hess_idevice2 n b cb pl ph s p : length s = n -> length p = n ->
  hess_at (fun s' => leaf_deriv (Build_leafdev n b cb (KI2 pl ph)) s' p) (leaf_hess (Build_leafdev n b cb (KI2 pl ph)) s) s.
Proof.
  intros Hs Hp. unfold leaf_deriv, leaf_hess; cbn [ld_kind ld_bounds]. unfold idev2_deriv, idev2_hess.
  apply (hess_separable _ (fun i v => hl_deriv v (pnth pl i) (pnth ph i) (lo b i) (hi b i) + nth i p 0)
                          (fun i v => hl_hess v (pnth pl i) (pnth ph i) (lo b i) (hi b i))).
  - intros s' j Hs' Hj. rewrite (nth_sep_plus_p (fun i v => hl_deriv v (pnth pl i) (pnth ph i) (lo b i) (hi b i))) by lia. reflexivity.
  - intros k Hk. apply is_derive_cplus_r. apply hl_deriv_derive.
Qed.

(* exponents: natural >= 2 everywhere, or exponent 1 on slots where q does not vanish *)
Definition hess_exponents (a bp : param R) (bnd : list (R * R)) (s : list R) : Prop :=
  forall i, (i < length s)%nat ->
    (exists k, pnth bp i = Rnat (S (S k))) \/
    (pnth bp i = Rnat 1 /\ (lo bnd i = hi bnd i \/ abc_q (A:=R) (nth i s 0) (lo bnd i) (hi bnd i) (pnth a i) <> 0)).
Lemma hess_idevice n b cb a bp c s p : length s = n -> length p = n -> hess_exponents a bp b s ->
  hess_at (fun s' => leaf_deriv (Build_leafdev n b cb (KI a bp c)) s' p) (leaf_hess (Build_leafdev n b cb (KI a bp c)) s) s.
Proof.
  intros Hs Hp Hb. unfold leaf_deriv, leaf_hess; cbn [ld_kind ld_bounds]. unfold idev_deriv, idev_hess.
  apply (hess_separable _ (fun i v => abc_deriv v (pnth a i) (pnth bp i) (pnth c i) (lo b i) (hi b i) + nth i p 0)
                          (fun i v => abc_hess v (pnth a i) (pnth bp i) (pnth c i) (lo b i) (hi b i))).
  - intros s' j Hs' Hj. rewrite (nth_sep_plus_p (fun i v => abc_deriv v (pnth a i) (pnth bp i) (pnth c i) (lo b i) (hi b i))) by lia. reflexivity.
  - intros k Hk. apply is_derive_cplus_r. destruct (Hb k Hk) as [[e ->]|[-> Hq]].
    + apply abc_deriv_derive.
    + apply abc_deriv_derive_b1. exact Hq.
Qed.

Lemma hess_gdevice n b cb g s p : length s = n -> length p = n ->
  hess_at (fun s' => leaf_deriv (Build_leafdev n b cb (KG g)) s' p) (leaf_hess (Build_leafdev n b cb (KG g)) s) s.
Proof.
  intros Hs Hp. unfold leaf_deriv, leaf_hess; cbn [ld_kind]. unfold gdev_deriv, gdev_hess.
  apply (hess_separable _ (fun i x => nth i p 0 - horner (pderiv (gpoly g i)) (- x))
                          (fun i x => horner (pderiv (pderiv (gpoly g i))) (- x))).
  - intros s' j Hs' Hj. rewrite (nth_map_idx (fun i x => (nth i p n0 - horner (pderiv (gpoly g i)) (- x))%num)) by lia. reflexivity.
  - intros k Hk.
    pose proof (horner_neg_derive (pderiv (gpoly g k)) (nth k s 0)) as D.
    apply (is_derive_ext (fun x => nth k p 0 + (-1) * horner (pderiv (gpoly g k)) (- x))); [intros t; simpl; ring|].
    replace (horner (pderiv (pderiv (gpoly g k))) (- nth k s 0)) with (-1 * - horner (pderiv (pderiv (gpoly g k))) (- nth k s 0)) by ring.
    apply is_derive_cplus. apply is_derive_cmult. exact D.
Qed.

(* ---------------- a function of the total flow: f''(sum) in every entry ---------------- *)
Lemma hess_cdevice2_single n b c pl ph s p : length s = n -> length p = n ->
  hess_at (fun s' => leaf_deriv (Build_leafdev n b [c] (KC2 pl ph)) s' p) (leaf_hess (Build_leafdev n b [c] (KC2 pl ph)) s) s.
Proof.
  intros Hs Hp. unfold leaf_deriv, leaf_hess; cbn [ld_kind ld_cb]. unfold cdev2_deriv, cdev2_hess, cdev2_dpref.
  split; [apply mconst_length|]. split; [intros; now apply mconst_row_length|].
  intros j k Hj Hk. rewrite mconst_entry by auto.
  apply (is_derive_ext (fun t => hl_deriv (vsum s + (t - nth k s 0)) pl ph (cb_lo c) (cb_hi c) + nth j p 0)).
  - intros t. rewrite nth_vadd by (unfold vscale, ones, vconst; rewrite ?map_length, ?repeat_length, ?upd_length; lia).
    rewrite nth_vscale. unfold ones, vconst. rewrite repeat_nth by (rewrite upd_length; auto). numR.
    rewrite vsum_upd by auto. now rewrite Rmult_1_r.
  - apply is_derive_cplus_r. apply (is_derive_shift (fun u => hl_deriv u pl ph (cb_lo c) (cb_hi c))). apply hl_deriv_derive.
Qed.

(* ---------------- symmetry and positive semidefiniteness ---------------- *)
Lemma diag_symmetric (d : list R) : symmetric (diag d).
Proof.
  intros j k. unfold entry, diag.
  destruct (lt_dec j (length d)) as [Hj|Hj], (lt_dec k (length d)) as [Hk|Hk].
  - rewrite !nth_map_seq by auto. rewrite (Nat.eqb_sym k j). destruct (Nat.eqb_spec j k) as [->|]; reflexivity.
  - rewrite (nth_map_seq _ _ j) by auto. rewrite (nth_overflow (map _ (seq 0 (length d))) (n:=k)) by (rewrite map_length, seq_length; lia).
    rewrite (nth_overflow (map _ (seq 0 (length d))) (n:=k)) by (rewrite map_length, seq_length; lia). destruct j; reflexivity.
  - rewrite (nth_map_seq _ _ k) by auto. rewrite (nth_overflow (map _ (seq 0 (length d))) (n:=j)) by (rewrite map_length, seq_length; lia).
    rewrite (nth_overflow (map _ (seq 0 (length d))) (n:=j)) by (rewrite map_length, seq_length; lia). destruct k; reflexivity.
  - rewrite !(nth_overflow (map _ (seq 0 (length d)))) by (rewrite map_length, seq_length; lia). destruct j, k; reflexivity.
Qed.

Lemma quadform_diag (d v : list R) : length v = length d ->
  quadform (diag d) v = vsum (map (fun j => nth j d 0 * (nth j v 0 * nth j v 0)) (seq 0 (length v))).
Proof.
  intros HL. unfold quadform. apply vsum_map_ext. intros j Hj. apply in_seq in Hj.
  rewrite (vsum_seq_single (fun k => entry (diag d) j k * nth k v 0) j).
  - rewrite diag_entry by lia. rewrite Nat.eqb_refl. ring.
  - intros k Hne. destruct (lt_dec k (length d)) as [Hk|Hk].
    + rewrite diag_entry by lia. destruct (Nat.eqb_spec j k); [lia|ring].
    + rewrite (nth_overflow v) by lia. ring.
  - lia.
Qed.

Lemma vsum_nonneg {B} (f : B -> R) l : (forall b, In b l -> 0 <= f b) -> 0 <= vsum (map f l).
Proof.
  induction l as [|b l IH]; intros Hf; simpl; [lra|]. rewrite ?vsum_cons.
  assert (0 <= f b) by (apply Hf; now left). assert (0 <= vsum (map f l)) by (apply IH; intros; apply Hf; now right). lra.
Qed.

Lemma diag_psd (d v : list R) : length v = length d -> (forall j, (j < length d)%nat -> 0 <= nth j d 0) -> 0 <= quadform (diag d) v.
Proof.
  intros HL Hd. rewrite quadform_diag by auto. apply vsum_nonneg. intros j Hj. apply in_seq in Hj.
  apply Rmult_le_pos; [apply Hd; lia|]. apply Rle_0_sqr.
Qed.

Lemma quadform_mconst (c : R) (v : list R) :
  quadform (mconst (length v) (length v) c) v = c * (vsum v * vsum v).
Proof.
  unfold quadform.
  assert (E : forall j, In j (seq 0 (length v)) ->
     nth j v 0 * vsum (map (fun k => entry (mconst (length v) (length v) c) j k * nth k v 0) (seq 0 (length v)))
     = (c * vsum v) * nth j v 0).
  { intros j Hj. apply in_seq in Hj.
    rewrite (vsum_map_ext _ (fun k => c * nth k v 0)).
    - rewrite vsum_map_scal. replace (vsum (map (fun k => nth k v 0) (seq 0 (length v)))) with (vsum v); [ring|].
      f_equal. clear. induction v as [|a v IH]; [reflexivity|]. cbn [length seq map nth]. f_equal.
      rewrite <- seq_shift, map_map. exact IH.
    - intros k Hk. apply in_seq in Hk. rewrite mconst_entry by lia. reflexivity. }
  rewrite (vsum_map_ext _ _ _ E). rewrite vsum_map_scal.
  replace (vsum (map (fun j => nth j v 0) (seq 0 (length v)))) with (vsum v); [ring|].
  f_equal. clear. induction v as [|a v IH]; [reflexivity|]. cbn [length seq map nth]. f_equal.
  rewrite <- seq_shift, map_map. exact IH.
Qed.
Lemma mconst_psd (c : R) (v : list R) : 0 <= c -> 0 <= quadform (mconst (length v) (length v) c) v.
Proof. intros Hc. rewrite quadform_mconst. apply Rmult_le_pos; [exact Hc|apply Rle_0_sqr]. Qed.

(* ---------------- TDevice: the documented diagonal approximation has the true diagonal ---------------- *)
Lemma Efac_const e (v t : R) : (e = 1 \/ (v <> 0 /\ Rabs (t - v) < Rabs v)) ->
  (if negb (Rleb 0 t) then 1 / e else e) = effof (A:=R) e v.
Proof.
  intros [->|[Hv Ht]].
  - rewrite effof_one. destruct (Rleb 0 t); simpl; [reflexivity|field].
  - apply Rabs_def2 in Ht. destruct (Rleb 0 t) eqn:E; simpl.
    + apply Rleb_true in E. rewrite effof_pos; [reflexivity|]. destruct (Rlt_dec 0 v); [auto|]. rewrite Rabs_left in Ht by lra. lra.
    + apply Rleb_false in E. rewrite effof_neg; [reflexivity|]. destruct (Rlt_dec v 0); [auto|]. rewrite Rabs_right in Ht by lra. lra.
Qed.

Lemma tdev_diag_entry n b cb q s p k : length s = n -> length p = n -> length (tp_ext q) = n -> (k < n)%nat ->
  (tp_eff q = 1 \/ nth k s 0 <> 0) ->
  is_derive (fun t => nth k (leaf_deriv (Build_leafdev n b cb (KT q)) (upd s k t) p) 0) (nth k s 0)
            (entry (leaf_hess (Build_leafdev n b cb (KT q)) s) k k).
Proof.
  intros Hs Hp He Hk Hsm. unfold leaf_deriv, leaf_hess; cbn [ld_kind]. unfold tdev_hess.
  assert (Lh : length (map (fun k0 => vsum (map (fun '(i, ti) => (abc_hess ti n0 n2 (pnth (tp_c q) i) (tdev_tmin q) (tp_opt q)
              * nsq (nth k0 (sust_row (tp_sus q) (length s) i) n0 * effof (tp_eff q) (nth k0 s n0)))%num) (idx (tdev_r2t q s)))) (seq 0 (length s))) = length s)
    by now rewrite map_length, seq_length.
  rewrite diag_entry by (rewrite Lh; lia). rewrite Nat.eqb_refl. rewrite nth_map_seq by lia.
  set (a := fun i => nth k (sust_row (tp_sus q) (length s) i) 0).
  set (E := effof (tp_eff q) (nth k s 0)).
  set (dphi := fun i t => abc_deriv (A:=R) t 0 2 (pnth (tp_c q) i) (tdev_tmin q) (tp_opt q)).
  set (ddphi := fun i t => abc_hess (A:=R) t 0 2 (pnth (tp_c q) i) (tdev_tmin q) (tp_opt q)).
  (* explicit form of the k-th marginal cost along coordinate k, near s_k *)
  pose (d := if Req_EM_T (tp_eff q) 1 then 1 else Rabs (nth k s 0)).
  assert (Hd : 0 < d).
  { unfold d. destruct (Req_EM_T (tp_eff q) 1); [lra|]. destruct Hsm as [?|Hne]; [contradiction|]. now apply Rabs_pos_lt. }
  apply (is_derive_ext_near
    (fun t => vsum (map (fun i => a i * dphi i (nth i (tdev_r2t q s) 0 + a i * (psi (tp_eff q) t - psi (tp_eff q) (nth k s 0)))) (seq 0 (length s))) * E + nth k p 0)
    _ _ _ d Hd).
  - intros t Ht. unfold tdev_deriv. rewrite upd_length. rewrite nth_map_seq by lia. numR.
    rewrite nth_upd_eq by lia.
    rewrite (Efac_const (tp_eff q) (nth k s 0) t).
    2:{ unfold d in Ht. destruct (Req_EM_T (tp_eff q) 1); [left; auto|right]. destruct Hsm as [?|Hne]; [contradiction|]. split; auto. }
    f_equal. f_equal. unfold tdev_dt.
    rewrite (map_idx_seq (fun i t0 => abc_deriv t0 0 2 (pnth (tp_c q) i) (tdev_tmin q) (tp_opt q))).
    rewrite tdev_r2t_length by (rewrite upd_length; lia). rewrite upd_length.
    rewrite (vsum_map_idx_seq (fun i dd => nth k (sust_row (tp_sus q) (length s) i) 0 * dd)).
    rewrite map_length, seq_length. apply vsum_map_ext. intros i Hi. apply in_seq in Hi.
    rewrite nth_map_seq by lia. rewrite nth_tdev_r2t_upd by (auto; lia). reflexivity.
  - apply is_derive_cplus_r.
    replace (vsum (map (fun '(i, ti) => (abc_hess ti n0 n2 (pnth (tp_c q) i) (tdev_tmin q) (tp_opt q)
               * nsq (nth k (sust_row (tp_sus q) (length s) i) n0 * effof (tp_eff q) (nth k s n0)))%num) (idx (tdev_r2t q s))))
      with (vsum (map (fun i => a i * (ddphi i (nth i (tdev_r2t q s) 0) * (a i * E))) (seq 0 (length s))) * E).
    2:{ rewrite (vsum_map_idx_seq (fun i ti => abc_hess ti 0 2 (pnth (tp_c q) i) (tdev_tmin q) (tp_opt q)
               * nsq (nth k (sust_row (tp_sus q) (length s) i) 0 * effof (tp_eff q) (nth k s 0)))).
        rewrite tdev_r2t_length by lia.
        rewrite <- (Rmult_comm E), <- vsum_map_scal. apply vsum_map_ext. intros i _. unfold ddphi, a, E, nsq. numR. ring. }
    apply (is_derive_ext (fun t => E * vsum (map (fun i => a i * dphi i (nth i (tdev_r2t q s) 0 + a i * (psi (tp_eff q) t - psi (tp_eff q) (nth k s 0)))) (seq 0 (length s))))).
    { intros t. apply Rmult_comm. }
    rewrite (Rmult_comm _ E). apply is_derive_cmult.
    apply (is_derive_vsum_map (fun i t => a i * dphi i (nth i (tdev_r2t q s) 0 + a i * (psi (tp_eff q) t - psi (tp_eff q) (nth k s 0))))
                              (fun i => a i * (ddphi i (nth i (tdev_r2t q s) 0) * (a i * E)))).
    intros i _. apply is_derive_cmult.
    set (u0 := nth i (tdev_r2t q s) 0).
    assert (D1 : is_derive (fun t => u0 + a i * (psi (tp_eff q) t - psi (tp_eff q) (nth k s 0))) (nth k s 0) (a i * E)).
    { apply is_derive_affine_of. apply psi_derive. exact Hsm. }
    assert (E0 : u0 + a i * (psi (tp_eff q) (nth k s 0) - psi (tp_eff q) (nth k s 0)) = u0) by ring.
    pose proof (abc_deriv_derive u0 0 0 (pnth (tp_c q) i) (tdev_tmin q) (tp_opt q)) as D2.
    change (Rnat 2) with 2 in D2. rewrite <- E0 in D2 at 1.
    pose proof (is_derive_comp (dphi i) (fun t => u0 + a i * (psi (tp_eff q) t - psi (tp_eff q) (nth k s 0))) (nth k s 0) _ _ D2 D1) as DD.
    unfold scal in DD; simpl in DD; unfold mult in DD; simpl in DD. rewrite Rmult_comm. exact DD.
Qed.

(* ---------------- SDevice without the deep-discharge term (c3 = 0): 2 c1 I - c2 (sub/super-diagonal) ---------------- *)
Lemma nth_upd_if (s : list R) k j t : (k < length s)%nat -> nth j (upd s k t) 0 = if Nat.eqb j k then t else nth j s 0.
Proof.
  intros Hk. destruct (Nat.eqb_spec j k) as [->|Hne]; [now apply nth_upd_eq|now apply nth_upd_neq].
Qed.

Lemma hess_sdevice_no_deep n b cb q s p : length s = n -> length p = n -> sp_c3 q = 0 ->
  hess_at (fun s' => leaf_deriv (Build_leafdev n b cb (KS q)) s' p) (leaf_hess (Build_leafdev n b cb (KS q)) s) s.
Proof.
  intros Hs Hp Hc3. unfold leaf_deriv, leaf_hess; cbn [ld_kind]. unfold sdev_hess.
  split; [now rewrite map_length, seq_length|].
  split; [intros j Hj; rewrite nth_map_seq by auto; now rewrite map_length, seq_length|].
  intros j k Hj Hk. unfold entry. rewrite nth_map_seq by auto. rewrite nth_map_seq by auto.
  rewrite Hc3. numR.
  rewrite (vsum_map_ext _ (fun _ => 0)).
  2:{ intros [i c] _. destruct (negb (Rleb (sp_capacity q * sp_depth q) c)); ring. }
  rewrite vsum_map_zero.
  apply (is_derive_ext (fun t =>
      2 * sp_c1 q * (if Nat.eqb j k then t else nth j s 0)
      - sp_c2 q * ((match j with O => 0 | S j' => if Nat.eqb j' k then t else nth j' s 0 end) + (if Nat.eqb (S j) k then t else nth (S j) s 0))
      + nth j p 0)).
  - intros t. unfold sdev_deriv.
    rewrite (nth_map_idx (fun k0 x => (n2 * sp_c1 q * x - sp_c2 q * nbr (upd s k t) k0
      + vsum (map (fun '(i, m) => n2 * sp_c3 q * m * nth k0 (sust_row (sp_sus q) (length (upd s k t)) i) n0 * effof (sp_eff q) x) (idx (sdev_short q (upd s k t))))
      + nth k0 p n0)%num)) by (rewrite upd_length; auto).
    rewrite Hc3. numR.
    rewrite (vsum_map_ext _ (fun _ => 0)) by (intros [i m] _; ring). rewrite vsum_map_zero.
    unfold nbr. numR. rewrite !nth_upd_if by auto. destruct j as [|j']; [|rewrite nth_upd_if by auto]; simpl; ring.
  - destruct j as [|j'];
      [change (Nat.eqb 0 (S k)) with false | change (Nat.eqb (S j') (S k)) with (Nat.eqb j' k)];
    repeat match goal with |- context [Nat.eqb ?a ?b] => let E := fresh "E" in destruct (Nat.eqb a b) eqn:E end;
    cbn [orb];
    repeat match goal with
           | H : Nat.eqb _ _ = true |- _ => apply Nat.eqb_eq in H
           | H : Nat.eqb _ _ = false |- _ => apply Nat.eqb_neq in H
           end; try lia; cbv iota; (auto_derive; first [exact I | ring | (simpl; ring)]).
Qed.
