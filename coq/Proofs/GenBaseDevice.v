(* Gen/BaseDevice.v (regenerated from device_kit/basedevice.py on every run) = the labelling model of Model/Tree.v.
   A tree of the model is seen by the labelling code as an `itree` (embed): a leaf does not support iteration, a set iterates over its
   children, a multi-flow adaptor over its conduit devices.  With fuel above the depth of the tree, leaf_devices is `leaves`; map /
   mapDevices pair the i-th entry with row i; get / find are the dictionary scans of the model. *)
From Coq Require Import String.
From Coq Require Import List Arith Bool Lia.
From DK Require Import Num Vec.
From DK.Model Require Import Leaf Fn Dev Tree LabelOps.
From DK.Gen Require Import BaseDevice.
Import ListNotations.

Notation len := List.length.

Lemma append_assoc (a b c : string) : String.append (String.append a b) c = String.append a (String.append b c).
Proof. induction a as [|ch a IH]; simpl; [reflexivity|]. now rewrite IH. Qed.

Section Labels.
  Context {A : Type} `{Num A} {L : Type} (ops : leafops A L).

  Fixpoint embed (d : gdev A L) : itree (option L) :=
    match d with
    | Leaf i l => INode i (Some l) None
    | DSet i ks _ | SubBal i ks _ _ _ _ _ =>
        INode i None (Some ((fix go (ks : list (gdev A L)) := match ks with [] => [] | k :: ks' => embed k :: go ks' end) ks))
    | MF i l fl | TwoRatio i l fl _ _ => INode i None (Some (map (fun f => INode f (Some (conduit ops l)) None) fl))
    end.
  Fixpoint embed_kids (ks : list (gdev A L)) : list (itree (option L)) := match ks with [] => [] | k :: ks' => embed k :: embed_kids ks' end.

  Fixpoint gdepth (d : gdev A L) : nat :=
    match d with
    | Leaf _ _ => 0
    | DSet _ ks _ | SubBal _ ks _ _ _ _ _ =>
        S ((fix go (ks : list (gdev A L)) := match ks with [] => 0 | k :: ks' => Nat.max (gdepth k) (go ks') end) ks)
    | MF _ _ _ | TwoRatio _ _ _ _ _ => 1
    end.
  Fixpoint kids_depth (ks : list (gdev A L)) : nat := match ks with [] => 0 | k :: ks' => Nat.max (gdepth k) (kids_depth ks') end.

  Lemma embed_id d : it_id (embed d) = dev_id d.
  Proof. destruct d; reflexivity. Qed.

  Definition strip (l : list (string * itree (option L))) : list (string * option L) := map (fun kt => (fst kt, it_payload (snd kt))) l.
  Definition some_leaves (l : list (string * L)) : list (string * option L) := map (fun kl => (fst kl, Some (snd kl))) l.

  Lemma flat_map_singleton {B} (l : list B) : flat_map (fun x => [x]) l = l.
  Proof. induction l as [|x l IH]; simpl; [reflexivity|]. now rewrite IH. Qed.

  Lemma embed_set i ks sb : embed (DSet i ks sb) = INode i None (Some (embed_kids ks)).
  Proof. reflexivity. Qed.
  Lemma embed_sub i ks sb lb e sg rm : embed (SubBal i ks sb lb e sg rm) = INode i None (Some (embed_kids ks)).
  Proof. reflexivity. Qed.
  Lemma depth_set i ks sb : gdepth (DSet i ks sb) = S (kids_depth ks).
  Proof. reflexivity. Qed.
  Lemma depth_sub i ks sb lb e sg rm : gdepth (SubBal i ks sb lb e sg rm) = S (kids_depth ks).
  Proof. reflexivity. Qed.

  Lemma kids_walk ks path fuel :
    Forall (fun d => forall path fuel, (gdepth d < fuel)%nat -> strip (_leaf_devices_gen fuel (embed d) path ".") = some_leaves (leaves_from ops path d)) ks ->
    (kids_depth ks < fuel)%nat ->
    strip (flat_map (fun sub_device => flat_map (fun item => [item])
             (_leaf_devices_gen fuel sub_device (String.append (String.append path ".") (it_id sub_device)) ".")) (embed_kids ks))
    = some_leaves (kids_leaves ops path ks).
  Proof.
    intros IH. induction IH as [|k ks Hk _ IHks]; intros Hd; cbn [embed_kids flat_map kids_leaves]; [reflexivity|].
    cbn [kids_depth] in Hd. unfold strip, some_leaves in *. rewrite !map_app. f_equal.
    - rewrite flat_map_singleton, embed_id. unfold dotjoin. rewrite append_assoc. apply Hk. lia.
    - apply IHks. lia.
  Qed.

  Lemma inner_walk : forall d path fuel, (gdepth d < fuel)%nat ->
    strip (_leaf_devices_gen fuel (embed d) path ".") = some_leaves (leaves_from ops path d).
  Proof.
    induction d as [i l|i ks sb IH|i ks sb lb e sg rm IH|i l fl|i l fl r e] using gdev_induction; intros path fuel Hf.
    - destruct fuel as [|fuel]; [lia|]. reflexivity.
    - rewrite embed_set, leaves_kids. rewrite depth_set in Hf. destruct fuel as [|fuel]; [lia|].
      cbn [_leaf_devices_gen it_kids]. apply kids_walk; [exact IH|lia].
    - rewrite embed_sub, leaves_kids_sub. rewrite depth_sub in Hf. destruct fuel as [|fuel]; [lia|].
      cbn [_leaf_devices_gen it_kids]. apply kids_walk; [exact IH|lia].
    - cbn [leaves_from]. cbn [gdepth] in Hf. destruct fuel as [|fuel]; [lia|]. destruct fuel as [|fuel]; [lia|].
      cbn [embed]. cbn [_leaf_devices_gen it_kids].
      unfold strip, some_leaves. induction fl as [|f fl IHf]; cbn [map flat_map]; [reflexivity|].
      cbn [_leaf_devices_gen it_kids it_id flat_map app map fst snd it_payload]. unfold dotjoin. rewrite append_assoc. f_equal. exact IHf.
    - cbn [leaves_from]. cbn [gdepth] in Hf. destruct fuel as [|fuel]; [lia|]. destruct fuel as [|fuel]; [lia|].
      cbn [embed]. cbn [_leaf_devices_gen it_kids].
      unfold strip, some_leaves. induction fl as [|f fl IHf]; cbn [map flat_map]; [reflexivity|].
      cbn [_leaf_devices_gen it_kids it_id flat_map app map fst snd it_payload]. unfold dotjoin. rewrite append_assoc. f_equal. exact IHf.
  Qed.

  Lemma fold_append {B} (l : list B) : forall acc, fold_left (fun items item => items ++ [item]) l acc = acc ++ l.
  Proof. induction l as [|x l IH]; intros acc; simpl; [now rewrite app_nil_r|]. rewrite IH, <- app_assoc. reflexivity. Qed.

  Theorem gen_leaf_devices (d : gdev A L) fuel : (gdepth d < fuel)%nat ->
    strip (leaf_devices_gen fuel (embed d)) = some_leaves (leaves ops d).
  Proof.
    intros Hf. unfold leaf_devices_gen, leaves. cbv zeta. rewrite fold_append. simpl app. rewrite embed_id. now apply inner_walk.
  Qed.
End Labels.

Section MapLookup.
  Context {A X : Type}.

  Lemma rows_flat_one (pre : list (list A)) r rest : rows_flat (len pre) (len pre + 1) (pre ++ r :: rest) = r.
  Proof.
    unfold rows_flat. replace (len pre + 1 - len pre)%nat with 1%nat by lia.
    rewrite skipn_app, skipn_all, Nat.sub_diag. simpl. now rewrite app_nil_r.
  Qed.

  Lemma map_rows_loop {Y} (g : string * X -> list A -> Y) : forall (leafs : list (string * X)) (pre M : list (list A)),
    len leafs = len M ->
    map (fun '(i, d) => g d (rows_flat i (i + 1) (pre ++ M))) (combine (seq (len pre) (len leafs)) leafs)
    = map (fun dr => g (fst dr) (snd dr)) (combine leafs M).
  Proof.
    induction leafs as [|d leafs IH]; intros pre M Hl; [reflexivity|].
    destruct M as [|r M]; [discriminate|]. cbn [len seq combine map fst snd]. f_equal.
    - now rewrite rows_flat_one.
    - specialize (IH (pre ++ [r]) M). rewrite app_length in IH. cbn [len] in IH.
      replace (len pre + 1)%nat with (S (len pre)) in IH by lia. rewrite <- app_assoc in IH. apply IH. simpl in Hl. lia.
  Qed.

  Theorem gen_map (leafs : list (string * X)) shape (s : list A) : len leafs = len (reshape (fst shape) (snd shape) s) ->
    map_gen leafs shape s = combine (map fst leafs) (reshape (fst shape) (snd shape) s).
  Proof.
    intros Hl. unfold map_gen, enum. cbv zeta. set (R := reshape (fst shape) (snd shape) s) in *.
    transitivity (map (fun dr : (string * X) * list A => (fst (fst dr), snd dr)) (combine leafs R)).
    - etransitivity; [|exact (map_rows_loop (fun d0 row => (fst d0, row)) leafs [] R Hl)]. apply map_ext. intros [i d]. reflexivity.
    - clear Hl. generalize R. clear R. induction leafs as [|d leafs IH]; intros M; [reflexivity|].
      destruct M as [|r M]; [reflexivity|]. simpl. now rewrite IH.
  Qed.

  Theorem gen_mapDevices (leafs : list (string * X)) shape (s : list A) : len leafs = len (reshape (fst shape) (snd shape) s) ->
    mapDevices_gen leafs shape s = combine leafs (reshape (fst shape) (snd shape) s).
  Proof.
    intros Hl. unfold mapDevices_gen, enum. cbv zeta. set (R := reshape (fst shape) (snd shape) s) in *.
    transitivity (map (fun dr : (string * X) * list A => (fst (fst dr), snd (fst dr), snd dr)) (combine leafs R)).
    - etransitivity; [|exact (map_rows_loop (fun d0 row => (fst d0, snd d0, row)) leafs [] R Hl)]. apply map_ext. intros [i d]. reflexivity.
    - clear Hl. generalize R. clear R. induction leafs as [|[k x] leafs IH]; intros M; [reflexivity|].
      destruct M as [|r M]; [reflexivity|]. simpl. now rewrite IH.
  Qed.

  Theorem gen_get (leafs : list (string * X)) name : get_gen leafs name = get_in leafs name.
  Proof. unfold get_gen, get_in. destruct (filter _ (as_dict leafs)) as [|kv l]; reflexivity. Qed.

  Theorem gen_find_suffix (rematch : string -> string -> bool) (leafs : list (string * X)) regexp suf :
    (forall k, rematch regexp k = ends_with k suf) -> find_gen rematch leafs regexp = find_suffix_in leafs suf.
  Proof. intros Hm. unfold find_gen, find_suffix_in. f_equal. apply filter_ext. intros kv. apply Hm. Qed.

  Theorem gen_find_prefix (rematch : string -> string -> bool) (leafs : list (string * X)) regexp pre :
    (forall k, rematch regexp k = starts_with k pre) -> find_gen rematch leafs regexp = find_prefix_in leafs pre.
  Proof. intros Hm. unfold find_gen, find_prefix_in. f_equal. apply filter_ext. intros kv. apply Hm. Qed.
End MapLookup.
