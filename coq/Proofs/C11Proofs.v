(* C11: validation. Structural theorems are proved for an arbitrary carrier (no axioms); the statements that read
   the generated guards as inequalities are proved at the real instance. *)
From Coq Require Import String ZArith List Bool Arith Lia.
From DK Require Import Num Vec.
From DK.Model Require Import Leaf PyVal Validate.
From DK.Gen Require Import Validators.
Import ListNotations.

Section Generic.
  Context {A : Type} `{Num A}.
  Local Open Scope num_scope.

  (* ------------------------------------------------------------------ views of well-typed input *)
  Lemma scalars_numeric (l : list (pv A)) :
    forallb is_scalar l = true -> forallb pv_numeric l = true -> exists xs, l = map PNum xs.
  Proof.
    induction l as [|x l IH]; intros Hs Hn; [exists []; reflexivity|].
    simpl in Hs, Hn. apply andb_prop in Hs as [Hx Hs]. apply andb_prop in Hn as [Hnx Hn].
    destruct (IH Hs Hn) as [xs ->].
    destruct x as [a| |l']; simpl in *; try discriminate. exists (a :: xs). reflexivity.
  Qed.

  Inductive elem_view : pv A -> Prop :=
  | EV_num a : elem_view (PNum a)
  | EV_vec xs : elem_view (PSeq (map PNum xs)).

  Lemma elem_view_of x : pv_numeric x = true -> shallow x = true -> elem_view x.
  Proof.
    destruct x as [a| |l]; intros Hn Hs; [constructor|discriminate|].
    simpl in Hn, Hs. destruct (scalars_numeric l Hs Hn) as [xs ->]. constructor.
  Qed.

  Lemma cells_of_nums xs : cells_of (map (@PNum A) xs) = Some (map Some xs).
  Proof. induction xs as [|a xs IH]; simpl; [reflexivity|]. now rewrite IH. Qed.
  Lemma nums_of_nums xs : nums_of (map (@PNum A) xs) = Some xs.
  Proof. induction xs as [|a xs IH]; simpl; [reflexivity|]. now rewrite IH. Qed.

  (* the numbers an element stands for once a scalar has been repeated *)
  Definition vec_of (n : nat) (x : pv A) : list A :=
    match x with PNum a => repeat a n | PSeq l => match nums_of l with Some xs => xs | None => [] end | PNone => [] end.

  Lemma bcast_view n x : elem_view x -> bcast n x = PSeq (map PNum (vec_of n x)).
  Proof.
    intros [a|xs]; simpl.
    - f_equal. induction n as [|n IH]; simpl; [reflexivity|]. now rewrite IH.
    - now rewrite nums_of_nums.
  Qed.
  Lemma numvec_view n x : elem_view x ->
    numvec n x = if Nat.eqb (length (vec_of n x)) n then Some (vec_of n x) else None.
  Proof.
    intros [a|xs]; simpl.
    - now rewrite repeat_length, Nat.eqb_refl.
    - now rewrite nums_of_nums.
  Qed.

  (* ------------------------------------------------------------------ the tail check on a numeric table *)
  Lemma raw_of_cons p (t : list (A * A)) : raw_of (p :: t) = [Some (fst p); Some (snd p)] :: raw_of t.
  Proof. reflexivity. Qed.
  Lemma raw_numeric (t : list (A * A)) : forallb row_numeric (raw_of t) = true.
  Proof. induction t as [|p t IH]; simpl; auto. Qed.
  Lemma raw_ordered (t : list (A * A)) : forallb row_ordered (raw_of t) = ordered t.
  Proof. induction t as [|p t IH]; simpl; [reflexivity|]. now rewrite IH. Qed.
  Lemma check_rows_raw (t : list (A * A)) : t <> [] ->
    check_rows (raw_of t) = if ordered t then Accept (raw_of t) else RaiseValueError.
  Proof.
    destruct t as [|p t]; [congruence|intros _].
    unfold check_rows. rewrite raw_of_cons. cbn [length Nat.ltb Nat.leb forallb cell_none andb].
    rewrite <- raw_of_cons, raw_numeric, raw_ordered. reflexivity.
  Qed.
  Lemma table_of_raw (t : list (A * A)) : table_of (raw_of t) = Some t.
  Proof. induction t as [|[l h] t IH]; simpl; [reflexivity|]. now rewrite IH. Qed.

  Lemma map2_pair_raw (xs ys : list A) :
    map2 (fun x y => [x; y]) (map Some xs) (map Some ys) = raw_of (combine xs ys).
  Proof. revert ys; induction xs as [|x xs IH]; intros [|y ys]; simpl; try reflexivity. now rewrite IH. Qed.

  (* ------------------------------------------------------------------ the table form *)
  Lemma row2_numeric (r : pv A) : row2 r = true -> pv_numeric r = true -> exists lo hi, r = PSeq [PNum lo; PNum hi].
  Proof.
    unfold row2, flat. destruct r as [a| |l]; try discriminate. intros Hr Hn. simpl in Hn.
    destruct l as [|x [|y [|z l]]]; simpl in Hr; try discriminate.
    - destruct (cell_of x); discriminate.
    - simpl in Hn. destruct x as [lo| |?]; try discriminate. destruct y as [hi| |?]; try discriminate.
      now exists lo, hi.
    - destruct (cell_of x), (cell_of y), (cell_of z), (cells_of l); simpl in Hr; discriminate.
  Qed.

  Lemma table_rows_numeric (l : list (pv A)) : forallb row2 l = true -> forallb pv_numeric l = true ->
    exists t, table_rows l = Some t /\ all_flat l = Some (raw_of t) /\ length t = length l.
  Proof.
    induction l as [|r l IH]; intros Hr Hn; [exists []; auto|].
    simpl in Hr, Hn. apply andb_prop in Hr as [Hr0 Hr]. apply andb_prop in Hn as [Hn0 Hn].
    destruct (IH Hr Hn) as (t & Ht & Hf & HL). destruct (row2_numeric r Hr0 Hn0) as (lo & hi & ->).
    exists ((lo, hi) :: t). simpl. rewrite Ht, Hf, HL. auto.
  Qed.

  Lemma table_rows_flat (l : list (pv A)) t : table_rows l = Some t -> all_flat l = Some (raw_of t) /\ length t = length l /\ forallb pv_numeric l = true.
  Proof.
    revert t; induction l as [|r l IH]; intros t Ht; simpl in Ht.
    - inversion Ht; subst. auto.
    - destruct r as [?| |[|[lo| |?] [|[hi| |?] [|? ?]]]]; try discriminate.
      destruct (table_rows l) as [t'|] eqn:E; [|discriminate]. inversion Ht; subst.
      destruct (IH t' eq_refl) as (Hf & HL & Hn). simpl. rewrite Hf, HL, Hn. auto.
  Qed.

  (* ------------------------------------------------------------------ soundness, completeness, rejection *)
  Definition well_formed (n : nat) (b : pv A) : Prop := exists t, meaning n b = Some t /\ ordered t = true.

  Lemma is_table_len n (l : list (pv A)) : is_table n (PSeq l) = true -> length l = n /\ n <> 0 /\ forallb row2 l = true.
  Proof.
    unfold is_table. intros Ht. apply andb_prop in Ht as [Ht Hr]. apply andb_prop in Ht as [HL Hn].
    apply Nat.eqb_eq in HL. apply negb_true_iff, Nat.eqb_neq in Hn. auto.
  Qed.

  (* the non-table path on a pair of well-typed items, as a function of the two number vectors *)
  Definition pair_rhs (n : nat) (x0 x1 : pv A) : outcome (@rawtable A) :=
    if Nat.eqb (length (vec_of n x0)) n && Nat.eqb (length (vec_of n x1)) n
    then check_rows (raw_of (combine (vec_of n x0) (vec_of n x1)))
    else if negb (Nat.eqb 2 n) then RaiseValueError
         else obind (array_rows [PSeq (map PNum (vec_of n x0)); PSeq (map PNum (vec_of n x1))]) check_rows.

  Lemma vb_pair n x0 x1 : is_table n (PSeq [x0; x1]) = false -> elem_view x0 -> elem_view x1 ->
    validate_bounds n (PSeq [x0; x1]) = pair_rhs n x0 x1.
  Proof.
    intros Htab V0 V1. unfold validate_bounds, pair_rhs. rewrite Htab. cbv zeta.
    rewrite (bcast_view n x0 V0), (bcast_view n x1 V1). rewrite !map_length.
    destruct (Nat.eqb (length (vec_of n x0)) n && Nat.eqb (length (vec_of n x1)) n) eqn:E.
    - now rewrite !cells_of_nums, map2_pair_raw.
    - reflexivity.
  Qed.
  Lemma vb_single n x0 : is_table n (PSeq [x0]) = false -> elem_view x0 ->
    validate_bounds n (PSeq [x0]) = pair_rhs n x0 x0.
  Proof.
    intros Htab V0. unfold validate_bounds, pair_rhs. rewrite Htab. cbv zeta.
    rewrite (bcast_view n x0 V0). rewrite !map_length.
    destruct (Nat.eqb (length (vec_of n x0)) n && Nat.eqb (length (vec_of n x0)) n) eqn:E.
    - now rewrite !cells_of_nums, map2_pair_raw.
    - reflexivity.
  Qed.

  Lemma array_rows_two (xs ys : list A) :
    array_rows [PSeq (map PNum xs); PSeq (map PNum ys)] =
    if Nat.eqb (length ys) (length xs) then Accept [map Some xs; map Some ys] else RaiseValueError.
  Proof.
    unfold array_rows. cbn [all_flat flat]. rewrite !cells_of_nums. cbn [same_len forallb]. rewrite !map_length, andb_true_r. reflexivity.
  Qed.

  Lemma nums_of_some (l : list (pv A)) xs : nums_of l = Some xs -> l = map PNum xs.
  Proof.
    revert xs; induction l as [|x l IH]; intros xs Hx; simpl in Hx.
    - inversion Hx; reflexivity.
    - destruct x as [a| |?]; simpl in Hx; try discriminate.
      destruct (nums_of l) as [ys|]; [|discriminate]. inversion Hx; subst. simpl. f_equal. now apply IH.
  Qed.
  Lemma numvec_some n (x : pv A) xs : numvec n x = Some xs -> elem_view x /\ vec_of n x = xs /\ length xs = n.
  Proof.
    destruct x as [a| |l]; simpl; intros Hx; try discriminate.
    - inversion Hx; subst. split; [constructor|]. split; [reflexivity|apply repeat_length].
    - destruct (nums_of l) as [ys|] eqn:E; [|discriminate].
      destruct (Nat.eqb (length ys) n) eqn:EL; [|discriminate]. inversion Hx; subst.
      apply nums_of_some in E. subst l. split; [constructor|]. split; [reflexivity|now apply Nat.eqb_eq].
  Qed.

  Definition verdict (n : nat) (b : pv A) : outcome (@rawtable A) :=
    match meaning n b with
    | Some t => if negb (Nat.eqb n 0) && ordered t then Accept (raw_of t) else RaiseValueError
    | None => RaiseValueError
    end.

  Lemma combine_length_n (xs ys : list A) n : length xs = n -> length ys = n -> length (combine xs ys) = n.
  Proof. intros. rewrite combine_length. lia. Qed.

  Lemma check_rows_vecs n (xs ys : list A) : length xs = n -> length ys = n ->
    check_rows (raw_of (combine xs ys)) =
    if negb (Nat.eqb n 0) && ordered (combine xs ys) then Accept (raw_of (combine xs ys)) else RaiseValueError.
  Proof.
    intros Hx Hy. destruct n as [|n].
    - destruct xs; [|discriminate]. reflexivity.
    - rewrite check_rows_raw; [reflexivity|]. destruct xs, ys; simpl in *; try discriminate.
  Qed.

  (* two well-typed items (the same item twice for the 1-sequence) *)
  Lemma items_path n x0 x1 : elem_view x0 -> elem_view x1 ->
    (n = 2 -> forall xs ys, x0 = PSeq (map PNum xs) -> x1 = PSeq (map PNum ys) -> length ys = length xs -> length xs = 2) ->
    pair_rhs n x0 x1
    = match numvec n x0, numvec n x1 with
      | Some x, Some y => if negb (Nat.eqb n 0) && ordered (combine x y) then Accept (raw_of (combine x y)) else RaiseValueError
      | _, _ => RaiseValueError
      end.
  Proof.
    intros V0 V1 Hq. unfold pair_rhs. rewrite (numvec_view n x0 V0), (numvec_view n x1 V1).
    destruct (Nat.eqb (length (vec_of n x0)) n) eqn:E0; destruct (Nat.eqb (length (vec_of n x1)) n) eqn:E1; cbn [andb].
    - apply Nat.eqb_eq in E0, E1. now apply check_rows_vecs.
    - destruct (Nat.eqb 2 n) eqn:E2; [|reflexivity]. apply Nat.eqb_eq in E2. subst n. cbn [negb].
      rewrite array_rows_two. destruct (Nat.eqb (length (vec_of 2 x1)) (length (vec_of 2 x0))) eqn:EL; [|reflexivity].
      exfalso. apply Nat.eqb_eq in EL, E0. apply Nat.eqb_neq in E1. congruence.
    - destruct (Nat.eqb 2 n) eqn:E2; [|reflexivity]. apply Nat.eqb_eq in E2. subst n. cbn [negb].
      rewrite array_rows_two. destruct (Nat.eqb (length (vec_of 2 x1)) (length (vec_of 2 x0))) eqn:EL; [|reflexivity].
      exfalso. apply Nat.eqb_eq in EL, E1. apply Nat.eqb_neq in E0. congruence.
    - destruct (Nat.eqb 2 n) eqn:E2; [|reflexivity]. apply Nat.eqb_eq in E2. subst n. cbn [negb].
      rewrite array_rows_two. destruct (Nat.eqb (length (vec_of 2 x1)) (length (vec_of 2 x0))) eqn:EL; [|reflexivity].
      exfalso. apply Nat.eqb_eq in EL. apply Nat.eqb_neq in E0, E1.
      inversion V0 as [a Ha|xs Hxs]; subst x0; simpl in E0; [congruence|].
      inversion V1 as [a Ha|ys Hys]; subst x1; simpl in E1; [congruence|].
      simpl in EL, E0. rewrite !nums_of_nums in *. specialize (Hq eq_refl xs ys eq_refl eq_refl EL). congruence.
  Qed.

  Lemma safe_split n (b : pv A) : safe n b = true -> quirk_long n b = false /\ quirk_two n b = false.
  Proof. unfold safe. intros Hs. apply andb_prop in Hs as [H1 H2]. now apply negb_true_iff in H1, H2. Qed.

  (* the implementation's verdict is the documented one, outside the findings' region *)
  Theorem vb_char n (l : list (pv A)) :
    pv_numeric (PSeq l) = true -> depth2 (PSeq l) = true -> safe n (PSeq l) = true -> l <> [] ->
    validate_bounds n (PSeq l) = verdict n (PSeq l).
  Proof.
    intros Hnum Hdep Hsafe Hne. destruct (safe_split _ _ Hsafe) as [Hlong Htwo].
    destruct (is_table n (PSeq l)) eqn:Htab.
    - unfold verdict, meaning, validate_bounds. rewrite Htab.
      destruct (is_table_len _ _ Htab) as (HL & Hn0 & Hrows).
      destruct (table_rows_numeric l Hrows Hnum) as (t & Ht & Hf & HLt). rewrite Ht, Hf.
      rewrite check_rows_raw by (destruct t; simpl in *; [lia|discriminate]).
      apply Nat.eqb_neq in Hn0. now rewrite Hn0.
    - simpl in Hnum, Hdep. destruct l as [|x0 [|x1 [|x2 l]]]; [congruence| | |].
      + (* 1-sequence *)
        simpl in Hnum, Hdep. rewrite !andb_true_r in *. pose proof (elem_view_of x0 Hnum Hdep) as V0.
        rewrite (vb_single n x0 Htab V0). unfold verdict, meaning. rewrite Htab.
        rewrite (items_path n x0 x0 V0 V0).
        * destruct (numvec n x0); reflexivity.
        * intros -> xs ys -> Hy HL. unfold quirk_two in Htwo. cbn [length Nat.eqb Nat.leb andb common_len forallb] in Htwo.
          rewrite map_length in Htwo. apply negb_false_iff, Nat.eqb_eq in Htwo. exact Htwo.
      + (* 2-sequence *)
        simpl in Hnum, Hdep. rewrite !andb_true_r in *. apply andb_prop in Hnum as [Hn0 Hn1]. apply andb_prop in Hdep as [Hd0 Hd1].
        pose proof (elem_view_of x0 Hn0 Hd0) as V0. pose proof (elem_view_of x1 Hn1 Hd1) as V1.
        rewrite (vb_pair n x0 x1 Htab V0 V1). unfold verdict, meaning. rewrite Htab.
        rewrite (items_path n x0 x1 V0 V1); [destruct (numvec n x0), (numvec n x1); reflexivity|].
        intros -> xs ys -> -> HL. unfold quirk_two in Htwo. cbn [length Nat.eqb Nat.leb andb common_len forallb] in Htwo.
        rewrite !map_length in Htwo. apply Nat.eqb_eq in HL. rewrite HL in Htwo. cbn [andb] in Htwo.
        apply negb_false_iff, Nat.eqb_eq in Htwo. exact Htwo.
      + (* three or more items and not a table: the first finding's region *)
        unfold quirk_long in Hlong. rewrite Htab in Hlong. simpl in Hlong. discriminate.
  Qed.

  Lemma numeric_nums xs : forallb pv_numeric (map (@PNum A) xs) = true.
  Proof. induction xs; simpl; auto. Qed.
  Lemma scalar_nums xs : forallb is_scalar (map (@PNum A) xs) = true.
  Proof. induction xs; simpl; auto. Qed.
  Lemma view_typed x : elem_view x -> pv_numeric x = true /\ shallow x = true.
  Proof. intros [a|xs]; simpl; auto using numeric_nums, scalar_nums. Qed.

  Lemma cells_scalar (e : list (pv A)) c : cells_of e = Some c -> forallb is_scalar e = true /\ length c = length e.
  Proof.
    revert c; induction e as [|x e IH]; intros c Hc; simpl in Hc; [inversion Hc; auto|].
    destruct x as [a| |?]; simpl in Hc; try discriminate;
    (destruct (cells_of e) as [c'|] eqn:E; [|discriminate]); inversion Hc; subst; destruct (IH c' eq_refl) as [I1 I2]; simpl; rewrite I1, I2; auto.
  Qed.
  Lemma row2_shallow (r : pv A) : row2 r = true -> shallow r = true.
  Proof.
    unfold row2, flat. destruct r as [?| |e]; try discriminate. destruct (cells_of e) as [c|] eqn:E; [|discriminate].
    intros _. simpl. now destruct (cells_scalar e c E).
  Qed.

  (* whatever has a documented meaning is well-typed input outside the findings' region *)
  Lemma meaning_typed n (b : pv A) t : meaning n b = Some t ->
    exists l, b = PSeq l /\ l <> [] /\ pv_numeric b = true /\ depth2 b = true /\ safe n b = true /\ length t = n.
  Proof.
    intros Hm. destruct b as [a| |l]; try (cbn in Hm; discriminate). exists l. split; [reflexivity|].
    unfold meaning in Hm. destruct (is_table n (PSeq l)) eqn:Htab.
    - destruct (is_table_len _ _ Htab) as (HL & Hn0 & Hrows). destruct (table_rows_flat l t Hm) as (Hf & HLt & Hnum).
      split; [destruct l; simpl in *; congruence|]. split; [exact Hnum|]. split.
      + clear - Hrows. induction l as [|r l IH]; simpl in *; auto. apply andb_prop in Hrows as [Hr Hrows].
        rewrite IH by auto. now rewrite (row2_shallow r Hr).
      + split; [|lia]. unfold safe, quirk_long. rewrite Htab. simpl. rewrite andb_false_r. simpl.
        unfold quirk_two. destruct (Nat.eqb n 2) eqn:E2; [|reflexivity]. apply Nat.eqb_eq in E2. rewrite E2 in HL.
        destruct l as [|r0 [|r1 [|? ?]]]; simpl in HL; try discriminate. simpl in Hrows.
        apply andb_prop in Hrows as [Hr0 Hr1]. rewrite andb_true_r in Hr1. unfold row2, flat in Hr0, Hr1.
        destruct r0 as [?| |e0]; try discriminate. destruct r1 as [?| |e1]; try discriminate.
        destruct (cells_of e0) as [c0|] eqn:E0; [|discriminate]. destruct (cells_of e1) as [c1|] eqn:E1; [|discriminate].
        apply cells_scalar in E0 as [_ E0]. apply cells_scalar in E1 as [_ E1]. apply Nat.eqb_eq in Hr0, Hr1. simpl. rewrite <- E0, <- E1, Hr0, Hr1. reflexivity.
    - destruct l as [|x0 [|x1 [|x2 l]]]; try discriminate.
      + destruct (numvec n x0) as [v|] eqn:E0; [|discriminate]. inversion Hm; subst. clear Hm.
        destruct (numvec_some n x0 v E0) as (V0 & Hv & HLv). destruct (view_typed x0 V0) as [Hn0 Hs0].
        split; [discriminate|]. simpl. rewrite Hn0, Hs0. repeat split; auto.
        * unfold safe, quirk_long. rewrite Htab. simpl. unfold quirk_two. destruct (Nat.eqb n 2) eqn:E2; [|reflexivity].
          apply Nat.eqb_eq in E2. rewrite E2 in *. simpl. inversion V0 as [a Ha|xs Hxs]; subst x0; simpl; [reflexivity|].
          simpl in Hv. rewrite nums_of_nums in Hv. subst v. rewrite map_length, HLv. reflexivity.
        * rewrite combine_length. lia.
      + destruct (numvec n x0) as [v0|] eqn:E0; [|discriminate]. destruct (numvec n x1) as [v1|] eqn:E1; [|discriminate].
        inversion Hm; subst. clear Hm.
        destruct (numvec_some n x0 v0 E0) as (V0 & Hv0 & HL0). destruct (numvec_some n x1 v1 E1) as (V1 & Hv1 & HL1).
        destruct (view_typed x0 V0) as [Hn0 Hs0]. destruct (view_typed x1 V1) as [Hn1 Hs1].
        split; [discriminate|]. simpl. rewrite Hn0, Hs0, Hn1, Hs1. repeat split; auto.
        * unfold safe, quirk_long. rewrite Htab. simpl. unfold quirk_two. destruct (Nat.eqb n 2) eqn:E2; [|reflexivity].
          apply Nat.eqb_eq in E2. rewrite E2 in *. simpl. inversion V0 as [a Ha|xs Hxs]; subst x0; simpl; [reflexivity|].
          inversion V1 as [a Ha|ys Hys]; subst x1; simpl; [reflexivity|].
          simpl in Hv0, Hv1. rewrite nums_of_nums in Hv0, Hv1. subst v0 v1. rewrite !map_length, HL0, HL1. reflexivity.
        * rewrite combine_length. lia.
  Qed.

  Lemma vb_empty n : validate_bounds n (@PSeq A []) = RaiseOther.
  Proof. unfold validate_bounds, is_table. destruct n; reflexivity. Qed.

  (* SOUNDNESS: an accepted specification is one of the documented forms and is normalised to the table it denotes *)
  Theorem vb_sound n (b : pv A) raw :
    pv_numeric b = true -> depth2 b = true -> safe n b = true ->
    validate_bounds n b = Accept raw -> exists t, raw = raw_of t /\ meaning n b = Some t /\ ordered t = true.
  Proof.
    intros Hnum Hdep Hsafe Hacc. destruct b as [a| |l]; try discriminate.
    destruct l as [|x l]; [rewrite vb_empty in Hacc; discriminate|].
    rewrite vb_char in Hacc by (auto; discriminate). unfold verdict in Hacc.
    destruct (meaning n (PSeq (x :: l))) as [t|]; [|discriminate].
    destruct (negb (Nat.eqb n 0) && ordered t) eqn:E; [|discriminate]. apply andb_prop in E as [_ E].
    inversion Hacc; subst. now exists t.
  Qed.

  (* COMPLETENESS: every well-formed specification is accepted, with the table it denotes *)
  Theorem vb_complete n (b : pv A) t :
    n <> 0 -> meaning n b = Some t -> ordered t = true -> validate_bounds n b = Accept (raw_of t).
  Proof.
    intros Hn0 Hm Ho. destruct (meaning_typed n b t Hm) as (l & -> & Hne & Hnum & Hdep & Hsafe & _).
    rewrite vb_char by auto. unfold verdict. rewrite Hm, Ho. apply Nat.eqb_neq in Hn0. now rewrite Hn0.
  Qed.

  (* REJECTION *)
  Theorem vb_rejects_non_sequence n a : validate_bounds n (PNum a) = RaiseValueError /\ validate_bounds n (@PNone A) = RaiseValueError.
  Proof. split; reflexivity. Qed.

  Theorem vb_rejects_low_above_high n (b : pv A) t :
    meaning n b = Some t -> ordered t = false -> validate_bounds n b = RaiseValueError.
  Proof.
    intros Hm Ho. destruct (meaning_typed n b t Hm) as (l & -> & Hne & Hnum & Hdep & Hsafe & _).
    rewrite vb_char by auto. unfold verdict. rewrite Hm, Ho. now rewrite andb_false_r.
  Qed.

  Theorem vb_rejects_ill_formed n (l : list (pv A)) :
    pv_numeric (PSeq l) = true -> depth2 (PSeq l) = true -> safe n (PSeq l) = true -> l <> [] ->
    ~ well_formed n (PSeq l) -> validate_bounds n (PSeq l) = RaiseValueError.
  Proof.
    intros Hnum Hdep Hsafe Hne Hwf. rewrite vb_char by auto. unfold verdict.
    destruct (meaning n (PSeq l)) as [t|] eqn:Hm; [|reflexivity].
    destruct (ordered t) eqn:Ho; [|now rewrite andb_false_r]. exfalso. apply Hwf. now exists t.
  Qed.

  (* wrong-length vectors, as an instance *)
  Corollary vb_rejects_wrong_length n (xs : list A) (hi : pv A) :
    pv_numeric hi = true -> shallow hi = true -> safe n (PSeq [PSeq (map PNum xs); hi]) = true ->
    is_table n (PSeq [PSeq (map PNum xs); hi]) = false -> length xs <> n ->
    validate_bounds n (PSeq [PSeq (map PNum xs); hi]) = RaiseValueError.
  Proof.
    intros Hn Hs Hsafe Htab HL. apply vb_rejects_ill_formed; auto; try discriminate.
    - simpl. now rewrite numeric_nums, Hn.
    - simpl. now rewrite scalar_nums, Hs.
    - intros (t & Hm & _). unfold meaning in Hm. rewrite Htab in Hm. simpl in Hm. rewrite nums_of_nums in Hm.
      apply Nat.eqb_neq in HL. rewrite HL in Hm. discriminate.
  Qed.

  (* ------------------------------------------------------------------ the documented meaning as a relation *)
  Inductive vec_denotes (n : nat) : pv A -> list A -> Prop :=
  | VD_scalar a : vec_denotes n (PNum a) (repeat a n)                                  (* a number stands for itself in every slot *)
  | VD_vector xs : length xs = n -> vec_denotes n (PSeq (map PNum xs)) xs.             (* a vector of exactly n numbers *)
  Definition row_of (p : A * A) : pv A := PSeq [PNum (fst p); PNum (snd p)].
  Inductive denotes (n : nat) : pv A -> list (A * A) -> Prop :=
  | D_table t : length t = n -> n <> 0 -> denotes n (PSeq (map row_of t)) t            (* a (len,2) table; takes precedence *)
  | D_pair lo hi x y : is_table n (PSeq [lo; hi]) = false ->
      vec_denotes n lo x -> vec_denotes n hi y -> denotes n (PSeq [lo; hi]) (combine x y)  (* (low, high) *)
  | D_single v x : is_table n (PSeq [v]) = false ->
      vec_denotes n v x -> denotes n (PSeq [v]) (combine x x).                            (* one item: low = high *)

  Lemma numvec_denotes n x xs : numvec n x = Some xs <-> vec_denotes n x xs.
  Proof.
    split.
    - intros Hx. destruct (numvec_some n x xs Hx) as (V & Hv & HL). inversion V as [a Ha|ys Hys]; subst x; simpl in Hv.
      + subst xs. constructor.
      + rewrite nums_of_nums in Hv. subst ys. now constructor.
    - intros [a|ys HL]; simpl; [reflexivity|]. rewrite nums_of_nums. apply Nat.eqb_eq in HL. now rewrite HL.
  Qed.

  Lemma table_rows_rows t : table_rows (map row_of t) = Some t.
  Proof. induction t as [|[lo hi] t IH]; simpl; [reflexivity|]. now rewrite IH. Qed.
  Lemma table_rows_inv (l : list (pv A)) t : table_rows l = Some t -> l = map row_of t.
  Proof.
    revert t; induction l as [|r l IH]; intros t Ht; simpl in Ht; [inversion Ht; reflexivity|].
    destruct r as [?| |[|[lo| |?] [|[hi| |?] [|? ?]]]]; try discriminate.
    destruct (table_rows l) as [t'|] eqn:E; [|discriminate]. inversion Ht; subst. simpl. f_equal. now apply IH.
  Qed.
  Lemma rows_row2 t : forallb row2 (map row_of t) = true.
  Proof. induction t as [|p t IH]; simpl; auto. Qed.

  Theorem meaning_denotes n (b : pv A) t : meaning n b = Some t <-> denotes n b t.
  Proof.
    split.
    - intros Hm. destruct b as [a| |l]; try (cbn in Hm; discriminate). unfold meaning in Hm.
      destruct (is_table n (PSeq l)) eqn:Htab.
      + destruct (is_table_len _ _ Htab) as (HL & Hn0 & _). pose proof (table_rows_inv l t Hm) as ->.
        rewrite map_length in HL. now constructor.
      + destruct l as [|x0 [|x1 [|x2 l]]]; try discriminate.
        * destruct (numvec n x0) as [v|] eqn:E0; [|discriminate]. inversion Hm; subst. constructor; auto. now apply numvec_denotes.
        * destruct (numvec n x0) as [v0|] eqn:E0; [|discriminate]. destruct (numvec n x1) as [v1|] eqn:E1; [|discriminate].
          inversion Hm; subst. constructor; auto; now apply numvec_denotes.
    - intros [t' HL Hn0|lo hi x y Htab Hx Hy|v x Htab Hx]; unfold meaning.
      + assert (Htab : is_table n (PSeq (map row_of t')) = true).
        { unfold is_table. rewrite map_length, HL, Nat.eqb_refl, rows_row2. apply Nat.eqb_neq in Hn0. now rewrite Hn0. }
        rewrite Htab. apply table_rows_rows.
      + rewrite Htab. apply numvec_denotes in Hx, Hy. now rewrite Hx, Hy.
      + rewrite Htab. apply numvec_denotes in Hx. now rewrite Hx.
  Qed.

  (* ------------------------------------------------------------------ cumulative bounds: what is stored is what was supplied *)
  Lemma set_cbound_reports lb hb (c c' : pv A) : set_cbound lb hb c = Accept c' ->
    c' = c /\ pv_has_len c = true /\ pv_len c = 4 /\ Device_set_cbound_accepts lb hb c = true.
  Proof.
    unfold set_cbound. destruct (pv_has_len c && Nat.eqb (pv_len c) 4) eqn:E; simpl; [|discriminate].
    apply andb_prop in E as [E1 E2]. apply Nat.eqb_eq in E2.
    destruct (cb_typed c); simpl; [|discriminate]. destruct (Device_set_cbound_accepts lb hb c) eqn:G; [|discriminate].
    intros Hc. inversion Hc; subst. repeat split; auto.
  Qed.
  Lemma set_cbound_all_reports lb hb (l r : list (pv A)) : set_cbound_all lb hb l = Accept r ->
    r = l /\ forall c, In c l -> pv_len c = 4 /\ Device_set_cbound_accepts lb hb c = true.
  Proof.
    revert r; induction l as [|c l IH]; intros r Hr; simpl in Hr.
    - inversion Hr. split; [reflexivity|intros ? []].
    - destruct (set_cbound lb hb c) as [c'| |] eqn:E; simpl in Hr; try discriminate.
      destruct (set_cbound_all lb hb l) as [r'| |] eqn:E'; simpl in Hr; try discriminate.
      inversion Hr; subst. destruct (set_cbound_reports _ _ _ _ E) as (-> & _ & H4 & HG). destruct (IH r' eq_refl) as [-> Hall].
      split; [reflexivity|]. intros x [<-|Hx]; auto.
  Qed.

  Theorem set_cbounds_reports n lb hb (c : pv A) r : set_cbounds n lb hb c = Accept r ->
    (c = PNone /\ r = None) \/
    (exists lo hi, c = PSeq [lo; hi] /\ pv_has_len lo = false /\
       r = Some [PSeq [lo; hi; PNum (nofZ 0); PNum (nofZ (Z.of_nat n))]] /\
       Device_set_cbound_accepts lb hb (PSeq [lo; hi; PNum (nofZ 0); PNum (nofZ (Z.of_nat n))]) = true) \/
    (exists l, c = PSeq l /\ r = Some l /\ forall x, In x l -> pv_len x = 4 /\ Device_set_cbound_accepts lb hb x = true).
  Proof.
    destruct c as [a| |l]; simpl; intros Hr; try discriminate.
    - left. inversion Hr. auto.
    - destruct (Nat.eqb (length l) 2 && negb (pv_has_len (nth 0 l PNone))) eqn:E.
      + apply andb_prop in E as [E1 E2]. apply Nat.eqb_eq in E1. apply negb_true_iff in E2.
        destruct l as [|lo [|hi [|? ?]]]; try discriminate. simpl in E2.
        destruct (set_cbound lb hb (PSeq ([lo; hi] ++ [PNum (nofZ 0); PNum (nofZ (Z.of_nat n))]))) as [c'| |] eqn:Ec; simpl in Hr; try discriminate.
        destruct (set_cbound_reports _ _ _ _ Ec) as (-> & _ & _ & HG). inversion Hr; subst.
        right; left. exists lo, hi. auto.
      + destruct (set_cbound_all lb hb l) as [r'| |] eqn:Ea; simpl in Hr; try discriminate. inversion Hr; subst.
        destruct (set_cbound_all_reports _ _ _ _ Ea) as [-> Hall]. right; right. exists l. auto.
  Qed.

  Theorem set_cbounds_rejects_non_sequence n lb hb a : set_cbounds n lb hb (@PNum A a) = RaiseValueError.
  Proof. reflexivity. Qed.
  Theorem set_cbound_rejects_arity lb hb (c : pv A) : pv_len c <> 4 -> set_cbound lb hb c = RaiseValueError.
  Proof. intros H4. unfold set_cbound. apply Nat.eqb_neq in H4. rewrite H4, andb_false_r. reflexivity. Qed.
  Theorem set_cbound_rejects_guard lb hb (c : pv A) : pv_has_len c = true -> pv_len c = 4 -> cb_typed c = true ->
    Device_set_cbound_accepts lb hb c = false -> set_cbound lb hb c = RaiseValueError.
  Proof. intros H1 H4 Ht Hg. unfold set_cbound. apply Nat.eqb_eq in H4. now rewrite H1, H4, Ht, Hg. Qed.

  (* ------------------------------------------------------------------ the constructor reports what validation produced *)
  Theorem ctor_reports_bounds k n (b cb : pv A) raw scb : ctor k n b cb = Accept (raw, scb) ->
    validate_bounds n b = Accept raw /\ forallb (fun r => Nat.eqb (length r) 2) raw = true.
  Proof.
    unfold ctor, device_bounds. destruct (validate_bounds n b) as [raw'| |] eqn:E; simpl; try discriminate.
    destruct (forallb (fun r => Nat.eqb (length r) 2) raw') eqn:E2; simpl; [|discriminate].
    intros Hc. assert (raw' = raw); [|subst; auto].
    destruct (table_of raw') as [t|].
    - assert (G : forall (o : outcome (rawtable * option (list (pv A)))),
                 (o = Accept (raw, scb) -> fst (raw', scb) = raw) -> True) by auto.
      destruct k; simpl in Hc;
      repeat match type of Hc with
      | (if ?c then _ else _) = _ => destruct c; try discriminate
      | obind ?o _ = _ => destruct o as [?| |]; simpl in Hc; try discriminate
      | match ?o with _ => _ end = _ => destruct o; simpl in Hc; try discriminate
      end; inversion Hc; reflexivity.
    - destruct cb, k; try discriminate; inversion Hc; reflexivity.
  Qed.

  (* a CDevice2 with several cumulative ranges: they start at 0, are contiguous and end at the horizon *)
  Theorem ctor_cdevice2_ranges n (b cb : pv A) raw l : ctor CC2 n b cb = Accept (raw, Some l) ->
    (exists c, l = [c]) \/ (covers n l = true /\ contiguous_from (PNum (nofZ 0)) l = true).
  Proof.
    unfold ctor. destruct (device_bounds n b) as [raw'| |]; cbn [obind]; try discriminate.
    destruct (table_of raw') as [t|]; [|destruct cb; simpl; discriminate].
    cbv beta iota zeta.
    assert (G : forall scb2, match scb2 with
                  | Some [_] => Accept (raw', scb2)
                  | Some l0 => if covers n l0 && contiguous_from (PNum (nofZ 0)) l0 then Accept (raw', scb2) else RaiseValueError
                  | None => RaiseOther end = Accept (raw, Some l) ->
                (exists c, l = [c]) \/ (covers n l = true /\ contiguous_from (PNum (nofZ 0)) l = true)).
    { intros [[|c [|c' r]]|] Hc; try discriminate.
      - inversion Hc; subst. left. now exists c.
      - destruct (covers n (c :: c' :: r) && contiguous_from (PNum (nofZ 0)) (c :: c' :: r)) eqn:E; [|discriminate Hc].
        inversion Hc; subst. right. now apply andb_prop in E. }
    destruct (set_cbounds n (lows t) (highs t) cb) as [scb| |]; cbn [obind]; try discriminate.
    destruct scb as [[|c0 r0]|]; cbv beta iota zeta.
    - match goal with |- context [obind ?o _] => destruct o as [s2| |] end; cbn [obind]; try discriminate. apply G.
    - cbn [obind]. exact (G (Some (c0 :: r0))).
    - match goal with |- context [obind ?o _] => destruct o as [s2| |] end; cbn [obind]; try discriminate. apply G.
  Qed.

  (* ------------------------------------------------------------------ accepted parameter values are stored unchanged *)
  Lemma stored_scalars (v w : A) :
    CDevice_a_stored v = v /\ SDevice_c1_stored w v = v /\ SDevice_c2_stored w v = v /\ SDevice_c3_stored v = v /\
    SDevice_capacity_stored v = v /\ SDevice_start_stored v = v /\ SDevice_reserve_stored v = v /\
    SDevice_damage_depth_stored v = v /\ SDevice_efficiency_stored v = v /\ SDevice_sustainment_stored v = v.
  Proof. repeat split; reflexivity. Qed.
  Lemma stored_params n (q v : param A) :
    CDevice2_p_h_stored n q v = v /\ CDevice2_p_l_stored n q v = v /\ IDevice2_p_h_stored n q v = v /\ IDevice2_p_l_stored n q v = v /\
    IDevice_a_stored n v = v /\ IDevice_b_stored n v = v /\ IDevice_c_stored n v = v.
  Proof. repeat split; reflexivity. Qed.
  Lemma stored_rate_clip (r : rcv A) : SDevice_rate_clip_stored r = rc_norm r.
  Proof. reflexivity. Qed.
End Generic.

(* ---------------------------------------------------------------------- concrete witnesses (exact rationals, closed by computation) *)
From Coq Require Import QArith.
From DK Require Import NumQ.

Definition qn (z : Z) : pv Q := PNum (inject_Z z).

(* FULL STATEMENT (false of the code as it is):
     forall n b raw, pv_numeric b = true -> depth2 b = true -> validate_bounds n b = Accept raw ->
       exists t, raw = raw_of t /\ meaning n b = Some t.
   The three witnesses below are accepted although they have no documented meaning. *)
Lemma sound_refuted_flat : exists n (b : pv Q) raw,
  pv_numeric b = true /\ depth2 b = true /\ validate_bounds n b = Accept raw /\ meaning n b = None /\ safe n b = false.
Proof. exists 3%nat, (PSeq [qn 0; qn 1; qn 2]). eexists. repeat split; vm_compute; reflexivity. Qed.
Lemma sound_refuted_rows : exists n (b : pv Q) raw,
  pv_numeric b = true /\ depth2 b = true /\ validate_bounds n b = Accept raw /\ meaning n b = None /\ safe n b = false.
Proof. exists 2%nat, (PSeq [PSeq [qn 0; qn 1]; PSeq [qn 0; qn 1]; PSeq [qn 0; qn 1]]). eexists. repeat split; vm_compute; reflexivity. Qed.
Lemma sound_refuted_two : exists n (b : pv Q) raw,
  pv_numeric b = true /\ depth2 b = true /\ validate_bounds n b = Accept raw /\ meaning n b = None /\ safe n b = false /\ table_of raw = None.
Proof. exists 2%nat, (PSeq [PSeq [qn 0; qn 1; qn 2]; PSeq [qn 3; qn 4; qn 5]]). eexists. repeat split; vm_compute; reflexivity. Qed.
(* ill-formed input that is rejected, but not with ValueError *)
Lemma rejects_refuted_index_error : exists n (b : pv Q),
  pv_numeric b = true /\ depth2 b = true /\ meaning n b = None /\ validate_bounds n b = RaiseOther /\ safe n b = false.
Proof. exists 2%nat, (PSeq [PSeq [qn 0]; PSeq [qn 1]]). repeat split; vm_compute; reflexivity. Qed.
(* non-vacuity of the theorems above: a well-typed, safe, well-formed specification and its table *)
Lemma example_pair : let b := PSeq [qn 0; PSeq [qn 1; qn 2; qn 2]] in
  pv_numeric b = true /\ depth2 b = true /\ safe 3%nat b = true /\
  meaning 3%nat b = Some [(0, 1); (0, 2); (0, 2)]%Q /\ validate_bounds 3%nat b = Accept (raw_of [(0, 1); (0, 2); (0, 2)]%Q).
Proof. repeat split; vm_compute; reflexivity. Qed.
Lemma example_cbounds : set_cbounds 3%nat [0; 0; 0]%Q [1; 1; 1]%Q (PSeq [qn 1; qn 2]) = Accept (Some [PSeq [qn 1; qn 2; qn 0; qn 3]]).
Proof. vm_compute. reflexivity. Qed.

(* ---------------------------------------------------------------------- the generated guards read as inequalities (real instance) *)
From Coq Require Import Reals Lra.
From DK Require Import NumR.
From DK.Proofs Require Import RVec.
Local Open Scope R_scope.

Ltac b2p :=
  unfold nltb in *; cbn [nadd nmul nsub ndiv nopp nleb neqb nofZ n0 n1 NumR] in *;
  repeat (progress (rewrite ?andb_true_iff, ?orb_true_iff, ?negb_true_iff, ?negb_false_iff, ?andb_false_iff, ?orb_false_iff,
                            ?Rleb_true, ?Rleb_false, ?Reqb_true, ?Reqb_false, ?Nat.eqb_eq, ?Nat.eqb_neq in * )).

(* documented shapes and ranges of scalar-or-per-slot parameters *)
Definition shape_ok (n : nat) (p : param R) : Prop := match p with PS _ => True | PV l => length l = n end.
Definition pall (P : R -> Prop) (p : param R) : Prop := match p with PS a => P a | PV l => List.Forall P l end.
(* p <= q with a scalar broadcast against a vector *)
Definition ple (p q : param R) : Prop :=
  match p, q with
  | PS a, PS b => a <= b
  | PS a, PV l => List.Forall (fun b => a <= b) l
  | PV l, PS b => List.Forall (fun a => a <= b) l
  | PV l, PV m => length l = length m /\ List.Forall (fun ab => fst ab <= snd ab) (combine l m)
  end.

Lemma forallb_Forall {T} (f : T -> bool) (P : T -> Prop) l : (forall x, f x = true <-> P x) ->
  (forallb f l = true <-> List.Forall P l).
Proof.
  intros Hf. induction l as [|x l IH]; simpl; [split; auto|].
  rewrite andb_true_iff, IH, Hf. split; [intros [? ?]; now constructor|intros HF; inversion HF; auto].
Qed.
Lemma existsb_Exists {T} (f : T -> bool) (P : T -> Prop) l : (forall x, f x = true <-> P x) ->
  (existsb f l = true <-> List.Exists P l).
Proof.
  intros Hf. induction l as [|x l IH]; simpl; [split; [discriminate|intros HE; inversion HE]|].
  rewrite orb_true_iff, IH, Hf. split; [intros [?|?]; [now left|now right]|intros HE; inversion HE; auto].
Qed.
Lemma param_all_pall (f : R -> bool) (P : R -> Prop) p : (forall x, f x = true <-> P x) ->
  (param_all f p = true <-> pall P p).
Proof. intros Hf. destruct p as [a|l]; simpl; [apply Hf|now apply forallb_Forall]. Qed.
Lemma param_all2_ple p q : param_all2 (fun x y => Rleb x y) p q = true <-> ple p q.
Proof.
  destruct p as [a|l], q as [b|m]; simpl.
  - apply Rleb_true.
  - apply forallb_Forall. intros; apply Rleb_true.
  - apply forallb_Forall. intros; apply Rleb_true.
  - rewrite andb_true_iff, Nat.eqb_eq. apply and_iff_compat_l. apply forallb_Forall. intros [x y]; apply Rleb_true.
Qed.
Lemma param_all2_pge p q : param_all2 (fun x y => Rleb y x) p q = true <-> ple q p.
Proof.
  destruct p as [a|l], q as [b|m]; simpl.
  - apply Rleb_true.
  - apply forallb_Forall. intros; apply Rleb_true.
  - apply forallb_Forall. intros; apply Rleb_true.
  - rewrite andb_true_iff, Nat.eqb_eq. split.
    + intros [HL HF]. split; [auto|]. clear HL. revert m HF. induction l as [|x l IH]; intros [|y m] HF; simpl in *; try constructor.
      * apply andb_prop in HF as [H1 _]. now apply Rleb_true in H1.
      * apply andb_prop in HF as [_ H2]. now apply IH.
    + intros [HL HF]. split; [auto|]. clear HL. revert l HF. induction m as [|y m IH]; intros [|x l] HF; simpl in *; auto.
      inversion HF as [|? ? H1 H2]; subst. simpl in H1. apply Rleb_true in H1. rewrite H1. simpl. now apply IH.
Qed.
Lemma shape_bool n (p : param R) : (param_is_scalar p || Nat.eqb (param_len p) n) = true <-> shape_ok n p.
Proof. destruct p as [a|l]; simpl; [tauto|]. apply Nat.eqb_eq. Qed.

(* --- CDevice --- *)
Lemma cdevice_a_range (a : R) : CDevice_a_accepts a = true <-> a <= 0.
Proof. unfold CDevice_a_accepts. b2p. tauto. Qed.

(* --- high/low slopes (CDevice2 and IDevice2 have the same guards) --- *)
Lemma hl_validate_range n p : CDevice2_validate_param_accepts n p = true <-> shape_ok n p /\ pall (fun x => x <= 0) p.
Proof.
  unfold CDevice2_validate_param_accepts. cbv zeta. rewrite andb_true_iff, andb_true_r, !negb_involutive, shape_bool.
  apply and_iff_compat_l. apply param_all_pall. intros x. b2p. tauto.
Qed.
Lemma hl2_validate_range n p : IDevice2_validate_param_accepts n p = true <-> shape_ok n p /\ pall (fun x => x <= 0) p.
Proof. exact (hl_validate_range n p). Qed.
Lemma cdevice2_p_h_range n pl v : CDevice2_p_h_accepts n pl v = true <-> shape_ok n v /\ pall (fun x => x <= 0) v /\ ple pl v.
Proof.
  unfold CDevice2_p_h_accepts. cbv zeta. rewrite andb_true_iff, andb_true_r, negb_involutive, hl_validate_range.
  change (CDevice2_validate_param_stored n v) with v. rewrite param_all2_ple. tauto.
Qed.
Lemma cdevice2_p_l_range n ph v : CDevice2_p_l_accepts n ph v = true <-> shape_ok n v /\ pall (fun x => x <= 0) v /\ ple v ph.
Proof.
  unfold CDevice2_p_l_accepts. cbv zeta. rewrite andb_true_iff, andb_true_r, negb_involutive, hl_validate_range.
  change (CDevice2_validate_param_stored n v) with v. rewrite param_all2_pge. tauto.
Qed.
Lemma idevice2_p_h_range n pl v : IDevice2_p_h_accepts n pl v = true <-> shape_ok n v /\ pall (fun x => x <= 0) v /\ ple pl v.
Proof. exact (cdevice2_p_h_range n pl v). Qed.
Lemma idevice2_p_l_range n ph v : IDevice2_p_l_accepts n ph v = true <-> shape_ok n v /\ pall (fun x => x <= 0) v /\ ple v ph.
Proof. exact (cdevice2_p_l_range n ph v). Qed.

(* --- IDevice --- *)
Lemma idevice_validate_range p n : IDevice_validate_param_accepts p n = true <-> shape_ok n p /\ pall (fun x => 0 <= x) p.
Proof.
  unfold IDevice_validate_param_accepts. cbv zeta. rewrite andb_true_iff, andb_true_r, !negb_involutive, shape_bool.
  apply and_iff_compat_l. apply param_all_pall. intros x. b2p. tauto.
Qed.
Lemma idevice_a_range n a : IDevice_a_accepts n a = true <-> shape_ok n a /\ pall (fun x => 0 <= x) a.
Proof. unfold IDevice_a_accepts. rewrite andb_true_r. apply idevice_validate_range. Qed.
Lemma idevice_c_range n c : IDevice_c_accepts n c = true <-> shape_ok n c /\ pall (fun x => 0 <= x) c.
Proof. unfold IDevice_c_accepts. rewrite andb_true_r. apply idevice_validate_range. Qed.
Lemma pall_and (P Q : R -> Prop) p : pall P p /\ pall Q p <-> pall (fun x => P x /\ Q x) p.
Proof.
  destruct p as [a|l]; simpl; [tauto|]. rewrite !List.Forall_forall. firstorder.
Qed.
Lemma idevice_b_range n b : IDevice_b_accepts n b = true <-> shape_ok n b /\ pall (fun x => 0 < x) b.
Proof.
  unfold IDevice_b_accepts. rewrite andb_true_iff, andb_true_r, negb_involutive, idevice_validate_range.
  rewrite (param_all_pall _ (fun x => 0 < x)) by (intros x; b2p; tauto).
  split; [tauto|]. intros [Hs Hp]. repeat split; auto. destruct b as [a|l]; simpl in *; [lra|].
  rewrite List.Forall_forall in *. intros x Hx. specialize (Hp x Hx). lra.
Qed.

(* --- generators may not consume --- *)
Lemma generator_bounds_range hb : GDevice_bounds_accepts hb = true <-> List.Forall (fun h => h <= 0) hb.
Proof.
  unfold GDevice_bounds_accepts. rewrite andb_true_r, negb_involutive. apply forallb_Forall. intros x. b2p. tauto.
Qed.
Lemma pv_bounds_range hb : PVDevice_bounds_accepts hb = true <-> List.Forall (fun h => h <= 0) hb.
Proof. exact (generator_bounds_range hb). Qed.

(* --- SDevice --- *)
Lemma sdevice_c1_range c2 c1 : SDevice_c1_accepts c2 c1 = true <-> 0 <= c1 /\ ~ (c1 <= c2 /\ 0 < c2).
Proof. unfold SDevice_c1_accepts. b2p. split; intros; intuition lra. Qed.
Lemma sdevice_c2_range c1 c2 : SDevice_c2_accepts c1 c2 = true <-> 0 <= c2 /\ ~ (c1 < c2 /\ 0 < c1).
Proof. unfold SDevice_c2_accepts. b2p. split; intros; intuition lra. Qed.
Lemma sdevice_c3_range c3 : SDevice_c3_accepts c3 = true <-> 0 <= c3.
Proof. unfold SDevice_c3_accepts. b2p. tauto. Qed.
Lemma sdevice_capacity_range c : SDevice_capacity_accepts c = true <-> 0 < c.
Proof. unfold SDevice_capacity_accepts. b2p. tauto. Qed.
Lemma sdevice_unit_ranges v :
  (SDevice_start_accepts v = true <-> 0 <= v <= 1) /\ (SDevice_reserve_accepts v = true <-> 0 <= v <= 1) /\
  (SDevice_damage_depth_accepts v = true <-> 0 <= v <= 1) /\
  (SDevice_efficiency_accepts v = true <-> 0 < v <= 1) /\ (SDevice_sustainment_accepts v = true <-> 0 < v <= 1).
Proof.
  unfold SDevice_start_accepts, SDevice_reserve_accepts, SDevice_damage_depth_accepts, SDevice_efficiency_accepts, SDevice_sustainment_accepts.
  repeat split; b2p; intuition lra.
Qed.
Definition none_or_ge1 (o : option R) : Prop := match o with None => True | Some v => 1 <= v end.
Lemma sdevice_rate_clip_range r :
  SDevice_rate_clip_accepts r = true <-> none_or_ge1 (fst (rc_norm r)) /\ none_or_ge1 (snd (rc_norm r)).
Proof.
  unfold SDevice_rate_clip_accepts. cbv zeta. destruct (rc_norm r) as [[a|] [b|]]; simpl; b2p; intuition (try lra; try discriminate).
Qed.

(* --- TDevice constructor guard block --- *)
Lemma tdevice_init_range n sus eff tr (text : list R) c :
  TDevice_init_accepts n sus eff tr text c = true <->
  0 <= sus <= 1 /\ eff <> 0 /\ 0 <= tr /\ length text = n /\ shape_ok n c /\ pall (fun x => 0 <= x) c.
Proof.
  unfold TDevice_init_accepts. rewrite !andb_true_iff, idevice_validate_range. b2p. intuition lra.
Qed.

(* --- set-level guards --- *)
Lemma mfdeviceset_init_range lb hb (flows : list string) :
  MFDeviceSet_init_accepts lb hb flows = true <->
  flows <> [] /\ ~ (List.Exists (fun l => l < 0) lb /\ List.Exists (fun h => 0 < h) hb).
Proof.
  unfold MFDeviceSet_init_accepts. rewrite andb_true_r, !andb_true_iff, !negb_involutive, !negb_true_iff, andb_false_iff, Nat.eqb_neq.
  rewrite <- !not_true_iff_false.
  rewrite (existsb_Exists _ (fun l => l < 0)) by (intros x; b2p; tauto).
  rewrite (existsb_Exists _ (fun h => 0 < h)) by (intros x; b2p; tauto).
  split; intros [Hf Hb]; (split; [destruct flows; simpl in *; congruence|tauto]).
Qed.
Lemma deviceset_init_range (id_ok : bool) (lens : list nat) :
  DeviceSet_init_accepts id_ok lens = true <-> id_ok = true /\ forall l, In l lens -> l = hd 0%nat lens.
Proof.
  unfold DeviceSet_init_accepts. rewrite andb_true_r, andb_true_iff, !negb_involutive, forallb_forall.
  split.
  - intros [H1 H2]. split; [exact H2|]. intros l Hl. apply Nat.eqb_eq. auto.
  - intros [H1 H2]. split; [|exact H1]. intros l Hl. apply Nat.eqb_eq. auto.
Qed.
Lemma tworatio_init_range (flows : list string) (ratios : option (list R)) ct :
  TwoRatioMFDeviceSet_init_accepts flows ratios ct = true <->
  length flows = 2%nat /\ (match ratios with None => True | Some r => length r = length flows end) /\ (ct = "eq"%string \/ ct = "ineq"%string).
Proof.
  unfold TwoRatioMFDeviceSet_init_accepts. rewrite andb_true_r, !andb_true_iff, !negb_involutive. simpl existsb.
  rewrite orb_false_r, !orb_true_iff, !String.eqb_eq, Nat.eqb_eq.
  destruct ratios as [r|]; [rewrite negb_involutive, Nat.eqb_eq|]; simpl; intuition congruence.
Qed.

(* --- cumulative bounds: arity 4, lo < hi, attainable within the slot bounds of the range --- *)
Lemma cbound_guard_arity lb hb (c : pv R) : Device_set_cbound_accepts lb hb c = true -> pv_has_len c = true /\ pv_len c = 4%nat.
Proof.
  unfold Device_set_cbound_accepts. rewrite !andb_true_iff. intros [Ha _].
  rewrite negb_true_iff, orb_false_iff, !negb_false_iff, Nat.eqb_eq in Ha. exact Ha.
Qed.
Lemma cbound_guard_spec lb hb lo hi (si ei : pv R) :
  Device_set_cbound_accepts lb hb (PSeq [PNum lo; PNum hi; si; ei]) = true <->
  lo < hi /\
  vsum (slice (pv_slice_lo (length lb) si) (pv_slice_hi (length lb) ei) lb) <= hi /\
  lo <= vsum (slice (pv_slice_lo (length hb) si) (pv_slice_hi (length hb) ei) hb).
Proof.
  unfold Device_set_cbound_accepts. cbn [pv_has_len pv_len length pv_nth nth pv_num Nat.eqb negb orb andb].
  set (L := vsum (slice _ _ lb)). set (Hh := vsum (slice _ _ hb)). b2p. intuition lra.
Qed.

Lemma find_seq_first (f : nat -> bool) s len k : (s <= k < s + len)%nat -> f k = true ->
  (forall j, (s <= j < k)%nat -> f j = false) -> find f (seq s len) = Some k.
Proof.
  revert s; induction len as [|len IH]; intros s Hk Hf Hlt; [lia|]. simpl.
  destruct (Nat.eq_dec s k) as [->|Hne]; [now rewrite Hf|].
  rewrite (Hlt s) by lia. apply IH; [lia|auto|]. intros j Hj. apply Hlt. lia.
Qed.
(* slice indices given as natural numbers within the horizon are read as themselves *)
Lemma int_index_nat n k : (k <= n)%nat -> int_index (A:=R) n (IZR (Z.of_nat k)) = k.
Proof.
  intros Hk. unfold int_index. cbn [nofZ neqb NumR].
  rewrite (find_seq_first _ 0 (S n) k); [reflexivity|lia| |].
  - now apply Reqb_true.
  - intros j Hj. apply Reqb_false. intros E. apply eq_IZR in E. lia.
Qed.
Corollary cbound_guard_spec_nat lb hb lo hi s e : (s <= length lb)%nat -> (e <= length lb)%nat -> length hb = length lb ->
  Device_set_cbound_accepts lb hb (PSeq [PNum lo; PNum hi; PNum (IZR (Z.of_nat s)); PNum (IZR (Z.of_nat e))]) = true <->
  lo < hi /\ vsum (slice s e lb) <= hi /\ lo <= vsum (slice s e hb).
Proof.
  intros Hs He HL. rewrite cbound_guard_spec. cbn [pv_slice_lo pv_slice_hi]. rewrite HL, !int_index_nat by lia. tauto.
Qed.

Lemma ordered_real (t : list (R * R)) : ordered t = true <-> List.Forall (fun p => fst p <= snd p) t.
Proof. unfold ordered. apply forallb_Forall. intros [l h]. b2p. simpl. split; lra. Qed.
