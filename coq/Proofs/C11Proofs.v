(* C11: validation. Structural theorems are proved for an arbitrary carrier (no axioms); the statements that read
   the generated guards as inequalities are proved at the real instance. *)
From Coq Require Import String ZArith List Bool Arith Lia.
From DK Require Import Num Vec.
From DK.Model Require Import Leaf PyVal Validate.
From DK.Gen Require Import Validators.
Import ListNotations.

Section Generic.
  Context {A : Type} `{Num A}.
  Local Open Scope num_scope.

  (* ------------------------------------------------------------------ views of well-typed input *)
  Lemma scalars_numeric (l : list (pv A)) :
    forallb is_scalar l = true -> forallb pv_numeric l = true -> exists xs, l = map PNum xs.
  Proof.
    induction l as [|x l IH]; intros Hs Hn; [exists []; reflexivity|].
    simpl in Hs, Hn. apply andb_prop in Hs as [Hx Hs]. apply andb_prop in Hn as [Hnx Hn].
    destruct (IH Hs Hn) as [xs ->].
    destruct x as [a| |l']; simpl in *; try discriminate. exists (a :: xs). reflexivity.
  Qed.

  Inductive elem_view : pv A -> Prop :=
  | EV_num a : elem_view (PNum a)
  | EV_vec xs : elem_view (PSeq (map PNum xs)).

  Lemma elem_view_of x : pv_numeric x = true -> shallow x = true -> elem_view x.
  Proof.
    destruct x as [a| |l]; intros Hn Hs; [constructor|discriminate|].
    simpl in Hn, Hs. destruct (scalars_numeric l Hs Hn) as [xs ->]. constructor.
  Qed.

  Lemma cells_of_nums xs : cells_of (map (@PNum A) xs) = Some (map Some xs).
  Proof. induction xs as [|a xs IH]; simpl; [reflexivity|]. now rewrite IH. Qed.
  Lemma nums_of_nums xs : nums_of (map (@PNum A) xs) = Some xs.
  Proof. induction xs as [|a xs IH]; simpl; [reflexivity|]. now rewrite IH. Qed.

  (* the numbers an element stands for once a scalar has been repeated *)
  Definition vec_of (n : nat) (x : pv A) : list A :=
    match x with PNum a => repeat a n | PSeq l => match nums_of l with Some xs => xs | None => [] end | PNone => [] end.

  Lemma bcast_view n x : elem_view x -> bcast n x = PSeq (map PNum (vec_of n x)).
  Proof.
    intros [a|xs]; simpl.
    - f_equal. induction n as [|n IH]; simpl; [reflexivity|]. now rewrite IH.
    - now rewrite nums_of_nums.
  Qed.
  Lemma numvec_view n x : elem_view x ->
    numvec n x = if Nat.eqb (length (vec_of n x)) n then Some (vec_of n x) else None.
  Proof.
    intros [a|xs]; simpl.
    - now rewrite repeat_length, Nat.eqb_refl.
    - now rewrite nums_of_nums.
  Qed.

  (* ------------------------------------------------------------------ the tail check on a numeric table *)
  Lemma raw_of_cons p (t : list (A * A)) : raw_of (p :: t) = [Some (fst p); Some (snd p)] :: raw_of t.
  Proof. reflexivity. Qed.
  Lemma raw_numeric (t : list (A * A)) : forallb row_numeric (raw_of t) = true.
  Proof. induction t as [|p t IH]; simpl; auto. Qed.
  Lemma raw_ordered (t : list (A * A)) : forallb row_ordered (raw_of t) = ordered t.
  Proof. induction t as [|p t IH]; simpl; [reflexivity|]. now rewrite IH. Qed.
  Lemma check_rows_raw (t : list (A * A)) : t <> [] ->
    check_rows (raw_of t) = if ordered t then Accept (raw_of t) else RaiseValueError.
  Proof.
    destruct t as [|p t]; [congruence|intros _].
    unfold check_rows. rewrite raw_of_cons. cbn [length Nat.ltb Nat.leb forallb cell_none andb].
    rewrite <- raw_of_cons, raw_numeric, raw_ordered. reflexivity.
  Qed.
  Lemma table_of_raw (t : list (A * A)) : table_of (raw_of t) = Some t.
  Proof. induction t as [|[l h] t IH]; simpl; [reflexivity|]. now rewrite IH. Qed.

  Lemma map2_pair_raw (xs ys : list A) :
    map2 (fun x y => [x; y]) (map Some xs) (map Some ys) = raw_of (combine xs ys).
  Proof. revert ys; induction xs as [|x xs IH]; intros [|y ys]; simpl; try reflexivity. now rewrite IH. Qed.

  (* ------------------------------------------------------------------ the table form *)
  Lemma row2_numeric (r : pv A) : row2 r = true -> pv_numeric r = true -> exists lo hi, r = PSeq [PNum lo; PNum hi].
  Proof.
    unfold row2, flat. destruct r as [a| |l]; try discriminate. intros Hr Hn. simpl in Hn.
    destruct l as [|x [|y [|z l]]]; simpl in Hr; try discriminate.
    - destruct (cell_of x); discriminate.
    - simpl in Hn. destruct x as [lo| |?]; try discriminate. destruct y as [hi| |?]; try discriminate.
      now exists lo, hi.
    - destruct (cell_of x), (cell_of y), (cell_of z), (cells_of l); simpl in Hr; discriminate.
  Qed.

  Lemma table_rows_numeric (l : list (pv A)) : forallb row2 l = true -> forallb pv_numeric l = true ->
    exists t, table_rows l = Some t /\ all_flat l = Some (raw_of t) /\ length t = length l.
  Proof.
    induction l as [|r l IH]; intros Hr Hn; [exists []; auto|].
    simpl in Hr, Hn. apply andb_prop in Hr as [Hr0 Hr]. apply andb_prop in Hn as [Hn0 Hn].
    destruct (IH Hr Hn) as (t & Ht & Hf & HL). destruct (row2_numeric r Hr0 Hn0) as (lo & hi & ->).
    exists ((lo, hi) :: t). simpl. rewrite Ht, Hf, HL. auto.
  Qed.

  Lemma table_rows_flat (l : list (pv A)) t : table_rows l = Some t -> all_flat l = Some (raw_of t) /\ length t = length l /\ forallb pv_numeric l = true.
  Proof.
    revert t; induction l as [|r l IH]; intros t Ht; simpl in Ht.
    - inversion Ht; subst. auto.
    - destruct r as [?| |[|[lo| |?] [|[hi| |?] [|? ?]]]]; try discriminate.
      destruct (table_rows l) as [t'|] eqn:E; [|discriminate]. inversion Ht; subst.
      destruct (IH t' eq_refl) as (Hf & HL & Hn). simpl. rewrite Hf, HL, Hn. auto.
  Qed.

  (* ------------------------------------------------------------------ soundness, completeness, rejection *)
  Definition well_formed (n : nat) (b : pv A) : Prop := exists t, meaning n b = Some t /\ ordered t = true.

  Lemma is_table_len n (l : list (pv A)) : is_table n (PSeq l) = true -> length l = n /\ n <> 0 /\ forallb row2 l = true.
  Proof.
    unfold is_table. intros Ht. apply andb_prop in Ht as [Ht Hr]. apply andb_prop in Ht as [HL Hn].
    apply Nat.eqb_eq in HL. apply negb_true_iff, Nat.eqb_neq in Hn. auto.
  Qed.

  (* the non-table path on a pair of well-typed items, as a function of the two number vectors *)
  Definition pair_rhs (n : nat) (x0 x1 : pv A) : outcome (@rawtable A) :=
    if Nat.eqb (length (vec_of n x0)) n && Nat.eqb (length (vec_of n x1)) n
    then check_rows (raw_of (combine (vec_of n x0) (vec_of n x1)))
    else if negb (Nat.eqb 2 n) then RaiseValueError
         else obind (array_rows [PSeq (map PNum (vec_of n x0)); PSeq (map PNum (vec_of n x1))]) check_rows.

  Lemma vb_pair n x0 x1 : is_table n (PSeq [x0; x1]) = false -> elem_view x0 -> elem_view x1 ->
    validate_bounds n (PSeq [x0; x1]) = pair_rhs n x0 x1.
  Proof.
    intros Htab V0 V1. unfold validate_bounds, pair_rhs. rewrite Htab. cbv zeta.
    rewrite (bcast_view n x0 V0), (bcast_view n x1 V1). rewrite !map_length.
    destruct (Nat.eqb (length (vec_of n x0)) n && Nat.eqb (length (vec_of n x1)) n) eqn:E.
    - now rewrite !cells_of_nums, map2_pair_raw.
    - reflexivity.
  Qed.
  Lemma vb_single n x0 : is_table n (PSeq [x0]) = false -> elem_view x0 ->
    validate_bounds n (PSeq [x0]) = pair_rhs n x0 x0.
  Proof.
    intros Htab V0. unfold validate_bounds, pair_rhs. rewrite Htab. cbv zeta.
    rewrite (bcast_view n x0 V0). rewrite !map_length.
    destruct (Nat.eqb (length (vec_of n x0)) n && Nat.eqb (length (vec_of n x0)) n) eqn:E.
    - now rewrite !cells_of_nums, map2_pair_raw.
    - reflexivity.
  Qed.

  Lemma array_rows_two (xs ys : list A) :
    array_rows [PSeq (map PNum xs); PSeq (map PNum ys)] =
    if Nat.eqb (length ys) (length xs) then Accept [map Some xs; map Some ys] else RaiseValueError.
  Proof.
    unfold array_rows. cbn [all_flat flat]. rewrite !cells_of_nums. cbn [same_len forallb]. rewrite !map_length, andb_true_r. reflexivity.
  Qed.

  Lemma nums_of_some (l : list (pv A)) xs : nums_of l = Some xs -> l = map PNum xs.
  Proof.
    revert xs; induction l as [|x l IH]; intros xs Hx; simpl in Hx.
    - inversion Hx; reflexivity.
    - destruct x as [a| |?]; simpl in Hx; try discriminate.
      destruct (nums_of l) as [ys|]; [|discriminate]. inversion Hx; subst. simpl. f_equal. now apply IH.
  Qed.
  Lemma numvec_some n (x : pv A) xs : numvec n x = Some xs -> elem_view x /\ vec_of n x = xs /\ length xs = n.
  Proof.
    destruct x as [a| |l]; simpl; intros Hx; try discriminate.
    - inversion Hx; subst. split; [constructor|]. split; [reflexivity|apply repeat_length].
    - destruct (nums_of l) as [ys|] eqn:E; [|discriminate].
      destruct (Nat.eqb (length ys) n) eqn:EL; [|discriminate]. inversion Hx; subst.
      apply nums_of_some in E. subst l. split; [constructor|]. split; [reflexivity|now apply Nat.eqb_eq].
  Qed.

  Definition verdict (n : nat) (b : pv A) : outcome (@rawtable A) :=
    match meaning n b with
    | Some t => if negb (Nat.eqb n 0) && ordered t then Accept (raw_of t) else RaiseValueError
    | None => RaiseValueError
    end.

  Lemma combine_length_n (xs ys : list A) n : length xs = n -> length ys = n -> length (combine xs ys) = n.
  Proof. intros. rewrite combine_length. lia. Qed.

  Lemma check_rows_vecs n (xs ys : list A) : length xs = n -> length ys = n ->
    check_rows (raw_of (combine xs ys)) =
    if negb (Nat.eqb n 0) && ordered (combine xs ys) then Accept (raw_of (combine xs ys)) else RaiseValueError.
  Proof.
    intros Hx Hy. destruct n as [|n].
    - destruct xs; [|discriminate]. reflexivity.
    - rewrite check_rows_raw; [reflexivity|]. destruct xs, ys; simpl in *; try discriminate.
  Qed.

  (* two well-typed items (the same item twice for the 1-sequence) *)
  Lemma items_path n x0 x1 : elem_view x0 -> elem_view x1 ->
    (n = 2 -> forall xs ys, x0 = PSeq (map PNum xs) -> x1 = PSeq (map PNum ys) -> length ys = length xs -> length xs = 2) ->
    pair_rhs n x0 x1
    = match numvec n x0, numvec n x1 with
      | Some x, Some y => if negb (Nat.eqb n 0) && ordered (combine x y) then Accept (raw_of (combine x y)) else RaiseValueError
      | _, _ => RaiseValueError
      end.
  Proof.
    intros V0 V1 Hq. unfold pair_rhs. rewrite (numvec_view n x0 V0), (numvec_view n x1 V1).
    destruct (Nat.eqb (length (vec_of n x0)) n) eqn:E0; destruct (Nat.eqb (length (vec_of n x1)) n) eqn:E1; cbn [andb].
    - apply Nat.eqb_eq in E0, E1. now apply check_rows_vecs.
    - destruct (Nat.eqb 2 n) eqn:E2; [|reflexivity]. apply Nat.eqb_eq in E2. subst n. cbn [negb].
      rewrite array_rows_two. destruct (Nat.eqb (length (vec_of 2 x1)) (length (vec_of 2 x0))) eqn:EL; [|reflexivity].
      exfalso. apply Nat.eqb_eq in EL, E0. apply Nat.eqb_neq in E1. congruence.
    - destruct (Nat.eqb 2 n) eqn:E2; [|reflexivity]. apply Nat.eqb_eq in E2. subst n. cbn [negb].
      rewrite array_rows_two. destruct (Nat.eqb (length (vec_of 2 x1)) (length (vec_of 2 x0))) eqn:EL; [|reflexivity].
      exfalso. apply Nat.eqb_eq in EL, E1. apply Nat.eqb_neq in E0. congruence.
    - destruct (Nat.eqb 2 n) eqn:E2; [|reflexivity]. apply Nat.eqb_eq in E2. subst n. cbn [negb].
      rewrite array_rows_two. destruct (Nat.eqb (length (vec_of 2 x1)) (length (vec_of 2 x0))) eqn:EL; [|reflexivity].
      exfalso. apply Nat.eqb_eq in EL. apply Nat.eqb_neq in E0, E1.
      inversion V0 as [a Ha|xs Hxs]; subst x0; simpl in E0; [congruence|].
      inversion V1 as [a Ha|ys Hys]; subst x1; simpl in E1; [congruence|].
      simpl in EL, E0. rewrite !nums_of_nums in *. specialize (Hq eq_refl xs ys eq_refl eq_refl EL). congruence.
  Qed.

  Lemma safe_split n (b : pv A) : safe n b = true -> quirk_long n b = false /\ quirk_two n b = false.
  Proof. unfold safe. intros Hs. apply andb_prop in Hs as [H1 H2]. now apply negb_true_iff in H1, H2. Qed.

  (* the implementation's verdict is the documented one, outside the findings' region *)
  Theorem vb_char n (l : list (pv A)) :
    pv_numeric (PSeq l) = true -> depth2 (PSeq l) = true -> safe n (PSeq l) = true -> l <> [] ->
    validate_bounds n (PSeq l) = verdict n (PSeq l).
  Proof.
    intros Hnum Hdep Hsafe Hne. destruct (safe_split _ _ Hsafe) as [Hlong Htwo].
    destruct (is_table n (PSeq l)) eqn:Htab.
    - unfold verdict, meaning, validate_bounds. rewrite Htab.
      destruct (is_table_len _ _ Htab) as (HL & Hn0 & Hrows).
      destruct (table_rows_numeric l Hrows Hnum) as (t & Ht & Hf & HLt). rewrite Ht, Hf.
      rewrite check_rows_raw by (destruct t; simpl in *; [lia|discriminate]).
      apply Nat.eqb_neq in Hn0. now rewrite Hn0.
    - simpl in Hnum, Hdep. destruct l as [|x0 [|x1 [|x2 l]]]; [congruence| | |].
      + (* 1-sequence *)
        simpl in Hnum, Hdep. rewrite !andb_true_r in *. pose proof (elem_view_of x0 Hnum Hdep) as V0.
        rewrite (vb_single n x0 Htab V0). unfold verdict, meaning. rewrite Htab.
        rewrite (items_path n x0 x0 V0 V0).
        * destruct (numvec n x0); reflexivity.
        * intros -> xs ys -> Hy HL. unfold quirk_two in Htwo. cbn [length Nat.eqb Nat.leb andb common_len forallb] in Htwo.
          rewrite map_length in Htwo. apply negb_false_iff, Nat.eqb_eq in Htwo. exact Htwo.
      + (* 2-sequence *)
        simpl in Hnum, Hdep. rewrite !andb_true_r in *. apply andb_prop in Hnum as [Hn0 Hn1]. apply andb_prop in Hdep as [Hd0 Hd1].
        pose proof (elem_view_of x0 Hn0 Hd0) as V0. pose proof (elem_view_of x1 Hn1 Hd1) as V1.
        rewrite (vb_pair n x0 x1 Htab V0 V1). unfold verdict, meaning. rewrite Htab.
        rewrite (items_path n x0 x1 V0 V1); [destruct (numvec n x0), (numvec n x1); reflexivity|].
        intros -> xs ys -> -> HL. unfold quirk_two in Htwo. cbn [length Nat.eqb Nat.leb andb common_len forallb] in Htwo.
        rewrite !map_length in Htwo. apply Nat.eqb_eq in HL. rewrite HL in Htwo. cbn [andb] in Htwo.
        apply negb_false_iff, Nat.eqb_eq in Htwo. exact Htwo.
      + (* three or more items and not a table: the first finding's region *)
        unfold quirk_long in Hlong. rewrite Htab in Hlong. simpl in Hlong. discriminate.
  Qed.

  Lemma numeric_nums xs : forallb pv_numeric (map (@PNum A) xs) = true.
  Proof. induction xs; simpl; auto. Qed.
  Lemma scalar_nums xs : forallb is_scalar (map (@PNum A) xs) = true.
  Proof. induction xs; simpl; auto. Qed.
  Lemma view_typed x : elem_view x -> pv_numeric x = true /\ shallow x = true.
  Proof. intros [a|xs]; simpl; auto using numeric_nums, scalar_nums. Qed.

  Lemma cells_scalar (e : list (pv A)) c : cells_of e = Some c -> forallb is_scalar e = true /\ length c = length e.
  Proof.
    revert c; induction e as [|x e IH]; intros c Hc; simpl in Hc; [inversion Hc; auto|].
    destruct x as [a| |?]; simpl in Hc; try discriminate;
    (destruct (cells_of e) as [c'|] eqn:E; [|discriminate]); inversion Hc; subst; destruct (IH c' eq_refl) as [I1 I2]; simpl; rewrite I1, I2; auto.
  Qed.
  Lemma row2_shallow (r : pv A) : row2 r = true -> shallow r = true.
  Proof.
    unfold row2, flat. destruct r as [?| |e]; try discriminate. destruct (cells_of e) as [c|] eqn:E; [|discriminate].
    intros _. simpl. now destruct (cells_scalar e c E).
  Qed.

  (* whatever has a documented meaning is well-typed input outside the findings' region *)
  Lemma meaning_typed n (b : pv A) t : meaning n b = Some t ->
    exists l, b = PSeq l /\ l <> [] /\ pv_numeric b = true /\ depth2 b = true /\ safe n b = true /\ length t = n.
  Proof.
    intros Hm. destruct b as [a| |l]; try (cbn in Hm; discriminate). exists l. split; [reflexivity|].
    unfold meaning in Hm. destruct (is_table n (PSeq l)) eqn:Htab.
    - destruct (is_table_len _ _ Htab) as (HL & Hn0 & Hrows). destruct (table_rows_flat l t Hm) as (Hf & HLt & Hnum).
      split; [destruct l; simpl in *; congruence|]. split; [exact Hnum|]. split.
      + clear - Hrows. induction l as [|r l IH]; simpl in *; auto. apply andb_prop in Hrows as [Hr Hrows].
        rewrite IH by auto. now rewrite (row2_shallow r Hr).
      + split; [|lia]. unfold safe, quirk_long. rewrite Htab. simpl. rewrite andb_false_r. simpl.
        unfold quirk_two. destruct (Nat.eqb n 2) eqn:E2; [|reflexivity]. apply Nat.eqb_eq in E2. rewrite E2 in HL.
        destruct l as [|r0 [|r1 [|? ?]]]; simpl in HL; try discriminate. simpl in Hrows.
        apply andb_prop in Hrows as [Hr0 Hr1]. rewrite andb_true_r in Hr1. unfold row2, flat in Hr0, Hr1.
        destruct r0 as [?| |e0]; try discriminate. destruct r1 as [?| |e1]; try discriminate.
        destruct (cells_of e0) as [c0|] eqn:E0; [|discriminate]. destruct (cells_of e1) as [c1|] eqn:E1; [|discriminate].
        apply cells_scalar in E0 as [_ E0]. apply cells_scalar in E1 as [_ E1]. apply Nat.eqb_eq in Hr0, Hr1. simpl. rewrite <- E0, <- E1, Hr0, Hr1. reflexivity.
    - destruct l as [|x0 [|x1 [|x2 l]]]; try discriminate.
      + destruct (numvec n x0) as [v|] eqn:E0; [|discriminate]. inversion Hm; subst. clear Hm.
        destruct (numvec_some n x0 v E0) as (V0 & Hv & HLv). destruct (view_typed x0 V0) as [Hn0 Hs0].
        split; [discriminate|]. simpl. rewrite Hn0, Hs0. repeat split; auto.
        * unfold safe, quirk_long. rewrite Htab. simpl. unfold quirk_two. destruct (Nat.eqb n 2) eqn:E2; [|reflexivity].
          apply Nat.eqb_eq in E2. subst n. simpl. inversion V0 as [a Ha|xs Hxs]; subst x0; simpl; [reflexivity|].
          simpl in Hv. rewrite nums_of_nums in Hv. subst v. rewrite map_length, HLv. reflexivity.
        * rewrite combine_length. lia.
      + destruct (numvec n x0) as [v0|] eqn:E0; [|discriminate]. destruct (numvec n x1) as [v1|] eqn:E1; [|discriminate].
        inversion Hm; subst. clear Hm.
        destruct (numvec_some n x0 v0 E0) as (V0 & Hv0 & HL0). destruct (numvec_some n x1 v1 E1) as (V1 & Hv1 & HL1).
        destruct (view_typed x0 V0) as [Hn0 Hs0]. destruct (view_typed x1 V1) as [Hn1 Hs1].
        split; [discriminate|]. simpl. rewrite Hn0, Hs0, Hn1, Hs1. repeat split; auto.
        * unfold safe, quirk_long. rewrite Htab. simpl. unfold quirk_two. destruct (Nat.eqb n 2) eqn:E2; [|reflexivity].
          apply Nat.eqb_eq in E2. subst n. simpl. inversion V0 as [a Ha|xs Hxs]; subst x0; simpl; [reflexivity|].
          inversion V1 as [a Ha|ys Hys]; subst x1; simpl; [reflexivity|].
          simpl in Hv0, Hv1. rewrite nums_of_nums in Hv0, Hv1. subst v0 v1. rewrite !map_length, HL0, HL1. reflexivity.
        * rewrite combine_length. lia.
  Qed.

  (* SOUNDNESS: an accepted specification is one of the documented forms and is normalised to the table it denotes *)
  Theorem vb_sound n (b : pv A) raw :
    pv_numeric b = true -> depth2 b = true -> safe n b = true ->
    validate_bounds n b = Accept raw -> exists t, raw = raw_of t /\ meaning n b = Some t /\ ordered t = true.
  Proof.
    intros Hnum Hdep Hsafe Hacc. destruct b as [a| |l]; try discriminate.
    destruct l as [|x l]; [discriminate|].
    rewrite vb_char in Hacc by (auto; discriminate). unfold verdict in Hacc.
    destruct (meaning n (PSeq (x :: l))) as [t|]; [|discriminate].
    destruct (negb (Nat.eqb n 0) && ordered t) eqn:E; [|discriminate]. apply andb_prop in E as [_ E].
    inversion Hacc; subst. now exists t.
  Qed.

  (* COMPLETENESS: every well-formed specification is accepted, with the table it denotes *)
  Theorem vb_complete n (b : pv A) t :
    n <> 0 -> meaning n b = Some t -> ordered t = true -> validate_bounds n b = Accept (raw_of t).
  Proof.
    intros Hn0 Hm Ho. destruct (meaning_typed n b t Hm) as (l & -> & Hne & Hnum & Hdep & Hsafe & _).
    rewrite vb_char by auto. unfold verdict. rewrite Hm, Ho. apply Nat.eqb_neq in Hn0. now rewrite Hn0.
  Qed.

  (* REJECTION *)
  Theorem vb_rejects_non_sequence n a : validate_bounds n (PNum a) = RaiseValueError /\ validate_bounds n (@PNone A) = RaiseValueError.
  Proof. split; reflexivity. Qed.

  Theorem vb_rejects_low_above_high n (b : pv A) t :
    meaning n b = Some t -> ordered t = false -> validate_bounds n b = RaiseValueError.
  Proof.
    intros Hm Ho. destruct (meaning_typed n b t Hm) as (l & -> & Hne & Hnum & Hdep & Hsafe & _).
    rewrite vb_char by auto. unfold verdict. rewrite Hm, Ho. now rewrite andb_false_r.
  Qed.

  Theorem vb_rejects_ill_formed n (l : list (pv A)) :
    pv_numeric (PSeq l) = true -> depth2 (PSeq l) = true -> safe n (PSeq l) = true -> l <> [] ->
    ~ well_formed n (PSeq l) -> validate_bounds n (PSeq l) = RaiseValueError.
  Proof.
    intros Hnum Hdep Hsafe Hne Hwf. rewrite vb_char by auto. unfold verdict.
    destruct (meaning n (PSeq l)) as [t|] eqn:Hm; [|reflexivity].
    destruct (ordered t) eqn:Ho; [|now rewrite andb_false_r]. exfalso. apply Hwf. now exists t.
  Qed.

  (* wrong-length vectors, as an instance *)
  Corollary vb_rejects_wrong_length n (xs : list A) (hi : pv A) :
    pv_numeric hi = true -> shallow hi = true -> safe n (PSeq [PSeq (map PNum xs); hi]) = true ->
    is_table n (PSeq [PSeq (map PNum xs); hi]) = false -> length xs <> n ->
    validate_bounds n (PSeq [PSeq (map PNum xs); hi]) = RaiseValueError.
  Proof.
    intros Hn Hs Hsafe Htab HL. apply vb_rejects_ill_formed; auto; try discriminate.
    - simpl. now rewrite numeric_nums, Hn.
    - simpl. now rewrite scalar_nums, Hs.
    - intros (t & Hm & _). unfold meaning in Hm. rewrite Htab in Hm. simpl in Hm. rewrite nums_of_nums in Hm.
      apply Nat.eqb_neq in HL. rewrite HL in Hm. discriminate.
  Qed.
