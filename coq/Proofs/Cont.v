(* Continuity of real functions of a list in the sup norm (vnear of Proofs/Total.v), closed under the operations the model
   marginal costs are built from; and: a reported gradient is continuous (gcont) iff each of its entries is. *)
From Coq Require Import ZArith Reals List Lra Lia Arith Psatz.
From Coquelicot Require Import Coquelicot.
From DK Require Import Num NumR Vec.
From DK.Proofs Require Import VecFacts RVec VecAlg Calc Total.
Import ListNotations.
Local Open Scope R_scope.

Definition cont_at (f : list R -> R) (x : list R) : Prop :=
  forall eps, 0 < eps -> exists delta, 0 < delta /\ forall y, vnear x y delta -> Rabs (f y - f x) < eps.

Lemma vnear_weaken x y d1 d2 : d1 <= d2 -> vnear x y d1 -> vnear x y d2.
Proof. intros Hd [L H]. split; auto. intros i Hi. specialize (H i Hi). lra. Qed.

Lemma cont_ext f g x : (forall y, length y = length x -> f y = g y) -> cont_at f x -> cont_at g x.
Proof.
  intros E Hf eps Heps. destruct (Hf eps Heps) as [d [Hd H]]. exists d. split; auto. intros y Hy.
  rewrite <- (E y (proj1 Hy)), <- (E x eq_refl). now apply H.
Qed.

Lemma cont_const c x : cont_at (fun _ => c) x.
Proof. intros eps Heps. exists 1. split; [lra|]. intros y _. rewrite Rminus_diag_eq by reflexivity. now rewrite Rabs_R0. Qed.

Lemma cont_nth k x : cont_at (fun y => nth k y 0) x.
Proof.
  intros eps Heps. exists eps. split; auto. intros y [L H]. destruct (lt_dec k (length x)) as [Hk|Hk]; [now apply H|].
  rewrite !nth_overflow by lia. rewrite Rminus_diag_eq by reflexivity. now rewrite Rabs_R0.
Qed.

Lemma cont_plus f g x : cont_at f x -> cont_at g x -> cont_at (fun y => f y + g y) x.
Proof.
  intros Hf Hg eps Heps. destruct (Hf (eps / 2) ltac:(lra)) as [d1 [Hd1 H1]]. destruct (Hg (eps / 2) ltac:(lra)) as [d2 [Hd2 H2]].
  exists (Rmin d1 d2). split; [unfold Rmin; destruct (Rle_dec d1 d2); lra|]. intros y Hy.
  pose proof (H1 y (vnear_weaken x y _ d1 (Rmin_l d1 d2) Hy)) as A. pose proof (H2 y (vnear_weaken x y _ d2 (Rmin_r d1 d2) Hy)) as B.
  replace (f y + g y - (f x + g x)) with ((f y - f x) + (g y - g x)) by ring.
  eapply Rle_lt_trans; [apply Rabs_triang|]. lra.
Qed.

Lemma cont_scal c f x : cont_at f x -> cont_at (fun y => c * f y) x.
Proof.
  intros Hf eps Heps. destruct (Hf (eps / (Rabs c + 1))) as [d [Hd H]].
  { apply Rdiv_lt_0_compat; [lra|]. pose proof (Rabs_pos c). lra. }
  exists d. split; auto. intros y Hy. specialize (H y Hy).
  replace (c * f y - c * f x) with (c * (f y - f x)) by ring. rewrite Rabs_mult.
  pose proof (Rabs_pos c) as Hc. pose proof (Rabs_pos (f y - f x)) as Hp.
  apply Rle_lt_trans with ((Rabs c + 1) * Rabs (f y - f x)); [nra|].
  apply (Rmult_lt_reg_r (/ (Rabs c + 1))); [apply Rinv_0_lt_compat; lra|].
  rewrite (Rmult_comm (Rabs c + 1)), Rmult_assoc, Rinv_r by lra. unfold Rdiv in H. lra.
Qed.

Lemma cont_opp f x : cont_at f x -> cont_at (fun y => - f y) x.
Proof. intros Hf. apply (cont_ext (fun y => (-1) * f y)); [intros; ring|now apply cont_scal]. Qed.

Lemma cont_minus f g x : cont_at f x -> cont_at g x -> cont_at (fun y => f y - g y) x.
Proof. intros Hf Hg. apply (cont_ext (fun y => f y + - g y)); [intros; ring|]. apply cont_plus; auto. now apply cont_opp. Qed.

Lemma cont_mult f g x : cont_at f x -> cont_at g x -> cont_at (fun y => f y * g y) x.
Proof.
  intros Hf Hg eps Heps.
  remember (Rabs (g x) + 1) as Mg eqn:EMg. remember (Rabs (f x) + 1) as Mf eqn:EMf.
  assert (HMg : 0 < Mg) by (pose proof (Rabs_pos (g x)); lra).
  assert (HMf : 0 < Mf) by (pose proof (Rabs_pos (f x)); lra).
  destruct (Hf (eps / (2 * Mg))) as [d1 [Hd1 H1]]; [apply Rdiv_lt_0_compat; lra|].
  destruct (Hg (Rmin 1 (eps / (2 * Mf)))) as [d2 [Hd2 H2]].
  { apply Rmin_pos; [lra|apply Rdiv_lt_0_compat; lra]. }
  exists (Rmin d1 d2). split; [unfold Rmin; destruct (Rle_dec d1 d2); lra|]. intros y Hy.
  pose proof (H1 y (vnear_weaken x y _ d1 (Rmin_l d1 d2) Hy)) as A. pose proof (H2 y (vnear_weaken x y _ d2 (Rmin_r d1 d2) Hy)) as B.
  assert (B1 : Rabs (g y - g x) < 1) by (pose proof (Rmin_l 1 (eps / (2 * Mf))); lra).
  assert (B2 : Rabs (g y - g x) < eps / (2 * Mf)) by (pose proof (Rmin_r 1 (eps / (2 * Mf))); lra).
  assert (Gy : Rabs (g y) < Mg).
  { replace (g y) with ((g y - g x) + g x) by ring. eapply Rle_lt_trans; [apply Rabs_triang|]. lra. }
  replace (f y * g y - f x * g x) with ((f y - f x) * g y + f x * (g y - g x)) by ring.
  eapply Rle_lt_trans; [apply Rabs_triang|]. rewrite !Rabs_mult.
  assert (T1 : Rabs (f y - f x) * Rabs (g y) <= eps / (2 * Mg) * Mg).
  { pose proof (Rabs_pos (f y - f x)). pose proof (Rabs_pos (g y)). apply Rmult_le_compat; lra. }
  assert (T2 : Rabs (f x) * Rabs (g y - g x) <= Mf * (eps / (2 * Mf))).
  { pose proof (Rabs_pos (f x)). pose proof (Rabs_pos (g y - g x)). apply Rmult_le_compat; lra. }
  assert (E1 : eps / (2 * Mg) * Mg = eps / 2) by (field; lra).
  assert (E2 : Mf * (eps / (2 * Mf)) = eps / 2) by (field; lra).
  assert (S1 : Rabs (f x) * Rabs (g y - g x) < eps / 2 \/ Rabs (f x) * Rabs (g y - g x) <= eps / 2) by (right; lra).
  (* strictness from the first term or slack: handle by a small case split *)
  destruct (Req_dec (Rabs (f y - f x)) 0) as [Z|NZ].
  - rewrite Z, Rmult_0_l, Rplus_0_l.
    assert (Rabs (f x) * Rabs (g y - g x) < eps / 2 + eps / 2); [|lra].
    pose proof (Rabs_pos (f x)). pose proof (Rabs_pos (g y - g x)).
    apply Rle_lt_trans with (Rabs (f x) * (eps / (2 * Mf))); [apply Rmult_le_compat_l; lra|].
    apply Rle_lt_trans with (Mf * (eps / (2 * Mf))); [|lra].
    apply Rmult_le_compat_r; [|lra]. apply Rlt_le. apply Rdiv_lt_0_compat; lra.
  - assert (Rabs (f y - f x) * Rabs (g y) < eps / (2 * Mg) * Mg).
    { pose proof (Rabs_pos (f y - f x)). pose proof (Rabs_pos (g y)).
      apply Rle_lt_trans with (Rabs (f y - f x) * Mg); [apply Rmult_le_compat_l; lra|]. apply Rmult_lt_compat_r; lra. }
    lra.
Qed.

Lemma cont_comp (phi : R -> R) f x : continuity_pt phi (f x) -> cont_at f x -> cont_at (fun y => phi (f y)) x.
Proof.
  intros Hphi Hf eps Heps. destruct (Hphi eps Heps) as [alp [Ha Hb]]. destruct (Hf alp Ha) as [d [Hd H]].
  exists d. split; auto. intros y Hy. specialize (H y Hy). destruct (Req_dec (f y) (f x)) as [E|NE].
  - rewrite E, Rminus_diag_eq by reflexivity. now rewrite Rabs_R0.
  - apply (Hb (f y)). split; [split; [exact I|auto]|exact H].
Qed.

Lemma cont_vsum_map {B} (g : B -> list R -> R) (l : list B) x : (forall b, In b l -> cont_at (g b) x) ->
  cont_at (fun y => vsum (map (fun b => g b y) l)) x.
Proof.
  induction l as [|b l IH]; intros H; cbn [map].
  - apply (cont_ext (fun _ => 0)); [intros; now rewrite vsum_nil|apply cont_const].
  - apply (cont_ext (fun y => g b y + vsum (map (fun b0 => g b0 y) l))); [intros; now rewrite vsum_cons|].
    apply cont_plus; [apply H; now left|apply IH; intros; apply H; now right].
Qed.

(* the reported gradient is continuous iff each entry is *)
Lemma gcont_of_entries (G : list R -> list R) x :
  (forall k, (k < length x)%nat -> cont_at (fun y => nth k (G y) 0) x) -> gcont G x.
Proof.
  intros H eps Heps.
  assert (Hall : forall n, (n <= length x)%nat -> exists delta, 0 < delta /\
            forall k, (k < n)%nat -> forall y, vnear x y delta -> Rabs (nth k (G y) 0 - nth k (G x) 0) < eps).
  { induction n as [|n IH]; intros Hn.
    - exists 1. split; [lra|]. intros k Hk. lia.
    - destruct (IH ltac:(lia)) as [d1 [Hd1 H1]]. destruct (H n ltac:(lia) eps Heps) as [d2 [Hd2 H2]].
      exists (Rmin d1 d2). split; [unfold Rmin; destruct (Rle_dec d1 d2); lra|]. intros k Hk y Hy.
      destruct (Nat.eq_dec k n) as [->|Hne].
      + apply H2. eapply vnear_weaken; [apply Rmin_r|exact Hy].
      + apply H1; [lia|]. eapply vnear_weaken; [apply Rmin_l|exact Hy]. }
  destruct (Hall (length x) (Nat.le_refl _)) as [d [Hd Hk]]. exists d. split; [exact Hd|]. intros y Hy k Hkx. now apply Hk.
Qed.
