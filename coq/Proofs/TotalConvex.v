(* Consequences of the total derivative (Proofs/Total.v) for convex costs: the certificate hypothesis of C05/C19 follows
   from C01's exact gradient, and the marginal cost of a convex cost is monotone along every segment (C07). *)
From Coq Require Import ZArith Reals List Lra Lia Arith Psatz.
From Coquelicot Require Import Coquelicot.
From DK Require Import Num NumR Vec.
From DK.Model Require Import Leaf Fn Dev.
From DK.Proofs Require Import VecFacts RVec VecAlg Calc Convex C05Proofs Total TotalLeaf.
Import ListNotations.
Local Open Scope R_scope.

Lemma dir_at_has_gradient (F : list R -> R) (g x : list R) : dir_at F g x -> has_gradient F x g.
Proof. intros H y HL. apply (dir_at_towards F g x H y HL). Qed.

(* exact partials in a neighbourhood + continuous reported gradient  =>  the hypothesis `has_gradient` of the
   Frank-Wolfe certificate (C05) and of the descent lemmas (C19) *)
Theorem exact_gradient_gives_certificate_hypothesis (F : list R -> R) (G : list R -> list R) (x : list R) (r : R) :
  0 < r -> (forall y, vnear x y r -> grad_at F (G y) y) -> gcont G x -> has_gradient F x (G x).
Proof. intros Hr HG Hc. apply dir_at_has_gradient. exact (total_from_partials F G x r Hr HG Hc). Qed.

(* monotone marginal cost: <g_y - g_x, y - x> >= 0 for a convex cost with total derivatives g_x at x and g_y at y *)
Theorem convex_gradient_monotone (B : list R -> Prop) (F : list R -> R) (x y gx gy : list R) :
  convex_on B F -> B x -> B y -> length y = length x -> length gx = length x -> length gy = length x ->
  dir_at F gx x -> dir_at F gy y -> 0 <= dot (vsub gy gx) (vsub y x).
Proof.
  intros Hc Bx By Ly Lgx Lgy Dx Dy.
  pose proof (convex_first_order B F x y gx Hc Bx By Ly (dir_at_has_gradient F gx x Dx)) as H1.
  pose proof (convex_first_order B F y x gy Hc By Bx (eq_sym Ly) (dir_at_has_gradient F gy y Dy)) as H2.
  rewrite dot_vsub_l by lia.
  rewrite (dot_vsub_r y x gy) by lia. rewrite (dot_vsub_r y x gx) by lia.
  rewrite (dot_vsub_r y x gx) in H1 by lia. rewrite (dot_vsub_r x y gy) in H2 by lia. lra.
Qed.

(* along the segment: t |-> <G (x + t (y - x)), y - x> is non-decreasing *)
Theorem convex_marginal_monotone_along_segment (B : list R -> Prop) (F : list R -> R) (G : list R -> list R) (x y : list R) :
  convex_on B F -> length y = length x ->
  (forall t, 0 <= t <= 1 -> B (seg x y t) /\ length (G (seg x y t)) = length x /\ dir_at F (G (seg x y t)) (seg x y t)) ->
  forall t1 t2, 0 <= t1 <= t2 -> t2 <= 1 ->
  dot (G (seg x y t1)) (vsub y x) <= dot (G (seg x y t2)) (vsub y x).
Proof.
  intros Hc Ly H t1 t2 H12 H2.
  destruct (H t1 ltac:(lra)) as [B1 [L1 D1]]. destruct (H t2 ltac:(lra)) as [B2 [L2 D2]].
  assert (Ld : length (vsub y x) = length x) by (rewrite vsub_length; lia).
  assert (Ls : forall t, length (seg x y t) = length x) by (intros t; unfold seg; now rewrite line_point_length).
  assert (M : 0 <= dot (vsub (G (seg x y t2)) (G (seg x y t1))) (vsub (seg x y t2) (seg x y t1))).
  { apply (convex_gradient_monotone B F (seg x y t1) (seg x y t2)); auto; rewrite ?Ls; auto. }
  assert (E : vsub (seg x y t2) (seg x y t1) = vscale (t2 - t1) (vsub y x)).
  { apply list_eq_nth; [rewrite vsub_length, !Ls, vscale_length; lia|].
    intros i Hi. rewrite vsub_length, !Ls in Hi. rewrite nth_vsub by (rewrite Ls; lia). unfold seg.
    rewrite !nth_vadd by (rewrite ?vscale_length; lia). rewrite !nth_vscale_R. ring. }
  rewrite E, dot_vscale_r, dot_vsub_l in M by lia.
  destruct (Req_dec t1 t2) as [->|Hne]; [lra|]. assert (0 < t2 - t1) by lra. nra.
Qed.

(* the classes with an everywhere continuous marginal cost: monotone marginal cost between any two in-box flows *)
Corollary smooth_convex_class_monotone n b cb k (p x y : list R) : length p = n -> length b = n -> smooth_kind k cb n ->
  convex_on (in_box_R b) (fun s => leaf_cost (Build_leafdev n b cb k) s p) -> in_box_R b x -> in_box_R b y ->
  0 <= dot (vsub (leaf_deriv (Build_leafdev n b cb k) y p) (leaf_deriv (Build_leafdev n b cb k) x p)) (vsub y x).
Proof.
  intros Lp Lb Hk Hc Bx By. pose proof (proj1 Bx) as Lx. pose proof (proj1 By) as Ly.
  pose proof (smooth_classes_everywhere n b cb k p Lp Hk) as E.
  destruct (E x ltac:(lia)) as [[LGx _] _]. destruct (E y ltac:(lia)) as [[LGy _] _].
  apply (convex_gradient_monotone (in_box_R b) (fun s => leaf_cost (Build_leafdev n b cb k) s p)); auto; try lia.
  - apply (total_everywhere _ _ n x E). lia.
  - apply (total_everywhere _ _ n y E). lia.
Qed.
