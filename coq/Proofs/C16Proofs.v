(* C16: the round trip cls.from_dict(d.to_dict()) rebuilds every field, as a consequence of static conditions on the
   constructor signature and the dump keys, which hold for every class of the generated table. No numbers, no axioms. *)
From Coq Require Import String List Bool.
From DK.Gen Require Import Signatures.
From DK.Model Require Import Serial.
Import ListNotations.
Local Open Scope string_scope.

Lemma mem_In l k : mem l k = true <-> In k l.
Proof.
  unfold mem. rewrite existsb_exists. split.
  - intros (x & Hx & E). apply String.eqb_eq in E. now subst.
  - intros Hk. exists k. split; [auto|apply String.eqb_refl].
Qed.

Section RoundTrip.
  Variable V : Type.
  Variable default : string -> V.
  Variable norm : string -> V -> V.
  Hypothesis norm_idem : forall k v, norm k (norm k v) = norm k v.

  Lemma assoc_map (f : string -> V) L k :
    assoc V k (map (fun k' => (k', f k')) L) = if mem L k then Some (f k) else None.
  Proof.
    induction L as [|k' L IH]; simpl; [reflexivity|].
    destruct (String.eqb k k') eqn:E; simpl; [apply String.eqb_eq in E; now subst|exact IH].
  Qed.
  Lemma assoc_none a k : ~ In k (keys V a) -> assoc V k a = None.
  Proof.
    induction a as [|[k' v] a IH]; simpl; intros Hk; [reflexivity|].
    destruct (String.eqb k k') eqn:E; [apply String.eqb_eq in E; subst; tauto|]. apply IH. tauto.
  Qed.
  Lemma keys_to_dict s a : keys V (to_dict V default norm s a) = dumped s (keys V a).
  Proof. unfold to_dict, keys. rewrite map_map. simpl. apply map_id. Qed.

  Lemma always_in_dumped s K k : In k (always_dumped s) -> In k (dumped s K).
  Proof.
    unfold always_dumped, dumped. rewrite nodup_In, !filter_In, in_app_iff. tauto.
  Qed.
  Lemma dumped_inv s K k : In k (dumped s K) ->
    In k (always_dumped s) \/ (In k (extra_keys s K) /\ mem (cs_dump_removed s) k = false).
  Proof.
    unfold always_dumped, dumped. rewrite nodup_In, !filter_In, in_app_iff, negb_true_iff. tauto.
  Qed.
  Lemma extra_in s K k : In k (extra_keys s K) -> In k K /\ ~ In k (cs_params s).
  Proof.
    unfold extra_keys. destruct (cs_dump_keys s && cs_keys_meta s && cs_forwards s); [|intros []].
    rewrite filter_In, negb_true_iff. intros [HK Hm]. split; [auto|]. intros Hp. apply mem_In in Hp. congruence.
  Qed.

  (* THE ROUND-TRIP LEMMA *)
  Theorem roundtrip s a : sig_ok s = true -> accepted V s a ->
    let d := to_dict V default norm s a in
    accepted V s d /\ forall k, field V default norm d k = field V default norm a k.
  Proof.
    intros Hok (Hnd & Hreq & Hacc). unfold sig_ok in Hok.
    apply andb_prop in Hok as [Hok Hrq]. apply andb_prop in Hok as [Hok Hmeta]. apply andb_prop in Hok as [Hpar Hback].
    rewrite forallb_forall in Hpar, Hrq.
    assert (Hpd : forall k, In k (cs_params s) -> In k (dumped s (keys V a))).
    { intros k Hk. apply always_in_dumped. apply mem_In. auto. }
    (* every passed key is dumped *)
    assert (Hpassed : forall k, In k (keys V a) -> In k (dumped s (keys V a))).
    { intros k Hk. destruct (Hacc k Hk) as [Hp|Hv]; [auto|].
      destruct (in_dec string_dec k (cs_params s)) as [Hp|Hnp]; [auto|].
      rewrite Hv in Hmeta. simpl in Hmeta. apply andb_prop in Hmeta as [Hm Hrm].
      unfold dumped. rewrite nodup_In, filter_In, in_app_iff. split.
      - right. unfold extra_keys. rewrite Hm, filter_In, negb_true_iff. split; [auto|].
        destruct (mem (cs_params s) k) eqn:E; [apply mem_In in E; tauto|reflexivity].
      - destruct (cs_dump_removed s); [reflexivity|discriminate]. }
    intros d. split.
    - unfold accepted, d. rewrite keys_to_dict. split; [apply NoDup_nodup|]. split.
      + intros k Hk. apply Hpd. apply mem_In. auto.
      + intros k Hk. apply dumped_inv in Hk as [Hk|[Hk _]].
        * destruct (cs_varkw s) eqn:Ev; [now right|]. left. simpl in Hback. rewrite forallb_forall in Hback. apply mem_In. auto.
        * apply extra_in in Hk as [Hk _]. auto.
    - intros k. unfold field at 1. unfold d, to_dict. rewrite assoc_map.
      destruct (mem (dumped s (keys V a)) k) eqn:E.
      + unfold field. now rewrite norm_idem.
      + assert (Hn : ~ In k (keys V a)). { intros Hk. apply Hpassed, mem_In in Hk. congruence. }
        unfold field. now rewrite (assoc_none a k Hn).
  Qed.
End RoundTrip.

(* every class of the table generated from the working tree satisfies the conditions: a finite check, by computation *)
Lemma table_ok : forallb sig_ok signatures = true.
Proof. vm_compute. reflexivity. Qed.

Theorem roundtrip_every_class (V : Type) (default : string -> V) (norm : string -> V -> V) :
  (forall k v, norm k (norm k v) = norm k v) ->
  forall s, In s signatures -> forall a, accepted V s a ->
  accepted V s (to_dict V default norm s a) /\
  forall k, field V default norm (to_dict V default norm s a) k = field V default norm a k.
Proof.
  intros Hn s Hs a Ha. pose proof table_ok as T. rewrite forallb_forall in T.
  exact (roundtrip V default norm Hn s a (T s Hs) Ha).
Qed.

(* the table is about the classes the package ships *)
Lemma table_names : map cs_name signatures =
  ["Device"; "CDevice"; "CDevice2"; "IDevice"; "IDevice2"; "GDevice"; "PVDevice"; "SDevice"; "TDevice"; "ADevice"; "WindowDevice";
   "DeviceSet"; "SubBalancedDeviceSet"; "MFDeviceSet"; "TwoRatioMFDeviceSet"].
Proof. reflexivity. Qed.

(* the condition is not vacuous: the two defects repaired earlier in /repo violate it *)
Definition sig_TDevice_without_c : classsig := {|
  cs_name := "TDevice"; cs_mro := ["TDevice"; "Device"];
  cs_params := ["id"; "length"; "bounds"; "sustainment"; "efficiency"; "t_init"; "t_optimal"; "t_range"; "t_external"; "c"; "cbounds"];
  cs_required := ["id"; "length"; "bounds"; "sustainment"; "efficiency"; "t_init"; "t_optimal"; "t_range"; "t_external"]; cs_varkw := true;
  cs_forced := []; cs_forwards := true; cs_keys_base := ["id"; "length"; "bounds"; "cbounds"]; cs_keys_meta := true;
  cs_dump_keys := true; cs_dump_added := ["sustainment"; "efficiency"; "t_init"; "t_optimal"; "t_range"; "t_external"]; cs_dump_removed := [] |}.
Definition sig_WindowDevice_dumping_f : classsig := {|
  cs_name := "WindowDevice"; cs_mro := ["WindowDevice"; "ADevice"; "Device"];
  cs_params := ["id"; "length"; "bounds"; "w"; "cbounds"; "c"]; cs_required := ["id"; "length"; "bounds"; "w"]; cs_varkw := false;
  cs_forced := ["f"; "w"; "c"]; cs_forwards := false; cs_keys_base := ["id"; "length"; "bounds"; "cbounds"]; cs_keys_meta := true;
  cs_dump_keys := true; cs_dump_added := []; cs_dump_removed := [] |}.
Lemma old_defects_fail : sig_ok sig_TDevice_without_c = false /\ sig_ok sig_WindowDevice_dumping_f = false.
Proof. split; vm_compute; reflexivity. Qed.

(* non-vacuity: a concrete accepted call *)
Lemma example_accepted : accepted nat sig_TDevice
  [("id", 0); ("length", 3); ("bounds", 1); ("sustainment", 2); ("efficiency", 3); ("t_init", 4); ("t_optimal", 5); ("t_range", 6);
   ("t_external", 7); ("c", 8); ("extra", 9)].
Proof.
  unfold accepted. simpl. split.
  - repeat constructor; simpl; intuition discriminate.
  - split; intros k Hk; simpl in *; intuition.
Qed.
