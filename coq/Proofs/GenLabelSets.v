(* SubBalancedDeviceSet._labelled_sets as regenerated in Gen/BaseDevice.v = the label sets of Model/Tree.v (used by C04 only, kept apart
   from Proofs/GenBaseDevice.v so that a change to _labelled_sets does not touch the labelling proofs of C13). *)
From Coq Require Import String.
From Coq Require Import List Arith Bool Lia.
From DK Require Import Num Vec.
From DK.Model Require Import Leaf Fn Dev Tree LabelOps.
From DK.Gen Require Import BaseDevice.
Import ListNotations.

Notation len := List.length.

(* ---- SubBalancedDeviceSet._labelled_sets ---- *)
Section LabelSets.
  Context {A : Type} `{Num A} {X : Type}.
  Variable rematch : string -> string -> bool.
  (* the regular expression '.*{label}$' is read as "ends with label" (labels without metacharacters) *)
  Hypothesis suffix_pattern : forall label v, rematch (String.append ".*" (String.append label "$")) v = ends_with v label.

  Definition rows_of (keys : list string) (label : string) : list nat :=
    map fst (filter (fun kv => let k := fst kv in let v := snd kv in rematch (String.append ".*" (String.append label "$")) v) (enum keys)).
  Lemma rows_of_model keys label : rows_of keys label = label_rows keys label.
  Proof. unfold rows_of, label_rows, enum. f_equal. apply filter_ext. intros [k v]. cbn [fst snd]. apply suffix_pattern. Qed.

  Lemma dict_set_new {V} (k : string) (v : V) d : ~ In k (map fst d) -> dict_set k v d = d ++ [(k, v)].
  Proof.
    induction d as [|[k' v'] d IH]; intros Hn; [reflexivity|]. cbn [dict_set].
    destruct (String.eqb_spec k k') as [->|Hne]; [exfalso; apply Hn; now left|].
    cbn [app]. f_equal. apply IH. intros Hin. apply Hn. now right.
  Qed.
  Lemma dict_get_last {V} (dflt : V) k v d : ~ In k (map fst d) -> dict_get dflt k (d ++ [(k, v)]) = v.
  Proof.
    unfold dict_get. induction d as [|[k' v'] d IH]; intros Hn; cbn [app find fst snd].
    - now rewrite String.eqb_refl.
    - destruct (String.eqb_spec k k') as [->|Hne]; [exfalso; apply Hn; now left|]. apply IH. intros Hin. apply Hn. now right.
  Qed.

  Definition untouched (f : string -> list nat) (L : list string) (k : nat) : bool :=
    negb (existsb (fun set => existsb (Nat.eqb k) set) (map f L)).

  Lemma label_loop (f : string -> list nat) (S0 : list nat) : forall (suf pre : list string), NoDup (pre ++ suf) ->
    fold_left (fun st label => let labelled := fst st in let unlabelled := snd st in
                 let labelled := dict_set label (f label) labelled in
                 let unlabelled := set_minus unlabelled (dict_get [] label labelled) in (labelled, unlabelled))
              suf (map (fun l => (l, f l)) pre, filter (untouched f pre) S0)
    = (map (fun l => (l, f l)) (pre ++ suf), filter (untouched f (pre ++ suf)) S0).
  Proof.
    induction suf as [|x suf IH]; intros pre Hnd; [now rewrite app_nil_r|].
    cbn [fold_left]. cbv zeta. cbn [fst snd].
    assert (Hx : ~ In x (map fst (map (fun l => (l, f l)) pre))).
    { rewrite map_map. cbn [fst]. rewrite map_id. apply NoDup_remove_2 in Hnd. intros Hin. apply Hnd. apply in_or_app. now left. }
    rewrite (dict_set_new x (f x) _ Hx), (dict_get_last [] x (f x) _ Hx).
    replace (map (fun l => (l, f l)) pre ++ [(x, f x)]) with (map (fun l => (l, f l)) (pre ++ [x])) by now rewrite map_app.
    replace (set_minus (filter (untouched f pre) S0) (f x)) with (filter (untouched f (pre ++ [x])) S0).
    - specialize (IH (pre ++ [x])). rewrite <- app_assoc in IH. cbn [app] in IH. apply IH. exact Hnd.
    - unfold set_minus. clear. induction S0 as [|k S0 IHS]; [reflexivity|]. cbn [filter].
      assert (E : untouched f (pre ++ [x]) k = untouched f pre k && negb (existsb (Nat.eqb k) (f x))).
      { unfold untouched. rewrite map_app, existsb_app. cbn [map existsb]. rewrite orb_false_r, negb_orb. reflexivity. }
      rewrite E. destruct (untouched f pre k); cbn [andb filter]; [|exact IHS].
      destruct (negb (existsb (Nat.eqb k) (f x))); [f_equal|]; exact IHS.
  Qed.

  Theorem gen_labelled_sets (leafs : list (string * X)) (labels : list string) : NoDup labels ->
    labelled_sets_gen rematch leafs labels
    = (map (label_rows (map fst (as_dict leafs))) labels, 
       filter (fun k => negb (existsb (fun set => existsb (Nat.eqb k) set) (map (label_rows (map fst (as_dict leafs))) labels)))
              (seq 0 (len (as_dict leafs)))).
  Proof.
    intros Hnd. unfold labelled_sets_gen. cbv zeta.
    assert (E0 : forall l : list nat, filter (untouched (rows_of (map fst (as_dict leafs))) []) l = l).
    { intros l. unfold untouched. induction l as [|k l IH]; [reflexivity|]. simpl. simpl in IH. now rewrite IH. }
    pose proof (label_loop (rows_of (map fst (as_dict leafs))) (seq 0 (len (as_dict leafs))) labels [] Hnd) as HL.
    cbn [map app] in HL.
    rewrite E0 in HL.
    etransitivity; [exact (f_equal (fun st : list (string * list nat) * list nat => (map snd (fst st), snd st)) HL)|]. cbn [fst snd]. f_equal.
    - rewrite map_map. cbn [snd]. apply map_ext. intros l. apply rows_of_model.
    - apply filter_ext. intros k. unfold untouched. do 2 f_equal. apply map_ext. intros l. apply rows_of_model.
  Qed.
End LabelSets.
