(* utils.project as regenerated in Gen/Utils.v (used by C18; kept apart from Proofs/GenUtils.v so that a change to utils.project does not
   touch the state-of-charge proofs of C09). *)
From Coq Require Import ZArith List Bool Arith.
From DK Require Import Num Vec.
From DK.Gen Require Import Utils.
Import ListNotations.

(* ---- utils.project: what it asks of the optimiser ---- *)
From DK.Model Require Import Fn Dev Tree Solve SolveOps.
Section GenProject.
  Context {A : Type} `{Num A}.
  Theorem gen_project (minimize : problem A -> optresult A) (pc : projcall A) :
    project_gen minimize pc = uproject_model minimize pc
    /\ project_problem_gen pc = uproject_problem pc
    /\ project_defaults_gen (A:=A) = uproject_defaults
    /\ forall user, project_options_gen user = uproject_options user.
  Proof. repeat split. Qed.
End GenProject.

(* over the reals: the objective is the squared distance to p and the `jac` handed over is its gradient; a minimiser of it over the
   feasible set is a nearest feasible point *)
From Coq Require Import Reals Lra.
From Coquelicot Require Import Coquelicot.
From DK Require Import NumR.
From DK.Proofs Require Import RVec VecAlg C05Proofs.
Section ProjectR.
  Local Open Scope R_scope.
  Lemma uproject_objective (pc : projcall R) s :
    pb_fun (uproject_problem pc) s = dist2 s (pc_p pc) /\ pb_jac (uproject_problem pc) s = vscale 2 (vsub s (pc_p pc)).
  Proof.
    cbn [uproject_problem pb_fun pb_jac]. split.
    - change (vsum (map nsq (vsub s (pc_p pc)))) with (sqdist s (pc_p pc)). apply sqdist_dist2.
    - first [reflexivity | f_equal; cbn; lra | f_equal; simpl; lra | f_equal; reflexivity].
  Qed.
  Lemma uproject_gradient (pc : projcall R) s : length (pc_p pc) = length s ->
    grad_at (pb_fun (uproject_problem pc)) (pb_jac (uproject_problem pc) s) s.
  Proof.
    intros HL. destruct (uproject_objective pc s) as [_ Ej]. rewrite Ej.
    apply (grad_at_ext (fun y => 1 / (2 * (1 / 2)) * dist2 y (pc_p pc))).
    - intros y _. destruct (uproject_objective pc y) as [Ef _]. rewrite Ef. field.
    - replace 2 with (1 / (1 / 2)) at 1 by field. apply prox_gradient; [lra|exact HL].
  Qed.
  (* whatever minimises the objective over a set C is nearest to p within C *)
  Lemma uproject_minimiser_is_nearest (pc : projcall R) (C : list R -> Prop) x :
    (forall y, C y -> pb_fun (uproject_problem pc) x <= pb_fun (uproject_problem pc) y) ->
    forall y, C y -> dist2 x (pc_p pc) <= dist2 y (pc_p pc).
  Proof.
    intros Hmin y Hy. specialize (Hmin y Hy).
    destruct (uproject_objective pc x) as [Ex _], (uproject_objective pc y) as [Ey _]. lra.
  Qed.
End ProjectR.
