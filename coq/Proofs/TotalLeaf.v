(* The total-derivative / line-integral form of C01 for the atomic classes whose marginal cost is continuous everywhere
   (Device, PVDevice, CDevice, CDevice2 with one range, IDevice with natural exponents, IDevice2, GDevice): the coordinate
   theorems of C01Proofs.v + continuity of the reported marginal cost + Proofs/Total.v.  Every horizon length. *)
From Coq Require Import ZArith Reals List Lra Lia Arith Psatz.
From Coquelicot Require Import Coquelicot.
From DK Require Import Num NumR Vec.
From DK.Gen Require Import Kernels.
From DK.Model Require Import Leaf Fn Dev.
From DK.Proofs Require Import VecFacts RVec VecAlg Calc KernelR C01Proofs Total.
Import ListNotations.
Local Open Scope R_scope.

(* ---- generic continuity lemmas for reported gradients ---- *)
Lemma gcont_indep (G : list R -> list R) x : (forall y, length y = length x -> G y = G x) -> gcont G x.
Proof.
  intros E eps Heps. exists 1. split; [lra|]. intros y [Ly _] k _. rewrite (E y Ly).
  rewrite Rminus_diag_eq by reflexivity. now rewrite Rabs_R0.
Qed.

Lemma gcont_vadd_const (H : list R -> list R) (p x : list R) :
  length p = length x -> (forall y, length y = length x -> length (H y) = length x) ->
  gcont H x -> gcont (fun y => vadd (H y) p) x.
Proof.
  intros Lp LH Hc eps Heps. destruct (Hc eps Heps) as [delta [Hd Hk]]. exists delta. split; auto.
  intros y Hy k Hkx. pose proof (proj1 Hy) as Ly.
  rewrite !nth_vadd by (rewrite ?LH; lia).
  replace (nth k (H y) 0 + nth k p 0 - (nth k (H x) 0 + nth k p 0)) with (nth k (H y) 0 - nth k (H x) 0) by ring.
  now apply Hk.
Qed.

Lemma continuity_pt_eps (g : R -> R) (u : R) : continuity_pt g u ->
  forall eps, 0 < eps -> exists delta, 0 < delta /\ forall v, Rabs (v - u) < delta -> Rabs (g v - g u) < eps.
Proof.
  intros Hc eps Heps. destruct (Hc eps Heps) as [alp [Ha Hb]]. exists alp. split; [exact Ha|].
  intros v Hv. destruct (Req_dec v u) as [->|Hne].
  - rewrite Rminus_diag_eq by reflexivity. now rewrite Rabs_R0.
  - apply (Hb v). split; [split; [exact I|auto]|exact Hv].
Qed.

(* a separable gradient: entry i is a continuous function of x_i only *)
Lemma gcont_sep (g : nat -> R -> R) (x : list R) :
  (forall i, (i < length x)%nat -> continuity_pt (g i) (nth i x 0)) ->
  gcont (fun y => map (fun '(i, v) => g i v) (idx y)) x.
Proof.
  intros Hc eps Heps.
  assert (Hall : forall n, (n <= length x)%nat -> exists delta, 0 < delta /\
            forall i, (i < n)%nat -> forall v, Rabs (v - nth i x 0) < delta -> Rabs (g i v - g i (nth i x 0)) < eps).
  { induction n as [|n IH]; intros Hn.
    - exists 1. split; [lra|]. intros i Hi. lia.
    - destruct (IH ltac:(lia)) as [d1 [Hd1 H1]].
      destruct (continuity_pt_eps (g n) (nth n x 0) (Hc n ltac:(lia)) eps Heps) as [d2 [Hd2 H2]].
      exists (Rmin d1 d2). split; [unfold Rmin; destruct (Rle_dec d1 d2); lra|].
      intros i Hi v Hv. pose proof (Rmin_l d1 d2). pose proof (Rmin_r d1 d2).
      destruct (Nat.eq_dec i n) as [->|Hne]; [apply H2; lra|apply H1; [lia|lra]]. }
  destruct (Hall (length x) (Nat.le_refl _)) as [delta [Hd Hk]]. exists delta. split; auto.
  intros y [Ly Hy] k Hkx. rewrite !nth_map_idx by lia. apply Hk; auto.
Qed.

Lemma sep_length (g : nat -> R -> R) (y : list R) : length (map (fun '(i, v) => g i v) (idx y)) = length y.
Proof. apply map_idx_length. Qed.

(* a gradient that is a continuous function of the total flow, the same in every slot *)
Lemma vsum_near (x y : list R) delta : vnear x y delta -> Rabs (vsum y - vsum x) <= INR (length x) * delta.
Proof.
  revert y; induction x as [|a x IH]; intros [|b y] [Ly Hy]; simpl in Ly; try lia.
  - rewrite vsum_nil. rewrite Rminus_diag_eq by reflexivity. rewrite Rabs_R0. simpl. lra.
  - rewrite !vsum_cons. change (length (a :: x)) with (S (length x)). rewrite S_INR.
    replace (b + vsum y - (a + vsum x)) with ((b - a) + (vsum y - vsum x)) by ring.
    eapply Rle_trans; [apply Rabs_triang|].
    pose proof (Hy 0%nat ltac:(simpl; lia)) as H0. cbn [nth] in H0.
    assert (H1 : Rabs (vsum y - vsum x) <= INR (length x) * delta).
    { apply IH. split; [lia|]. intros i Hi. apply (Hy (S i)). simpl. lia. }
    lra.
Qed.

Lemma gcont_total (g : R -> R) (x : list R) : continuity_pt g (vsum x) ->
  gcont (fun y => vscale (g (vsum y)) (ones (length y))) x.
Proof.
  intros Hc eps Heps. destruct (continuity_pt_eps g (vsum x) Hc eps Heps) as [d1 [Hd1 H1]].
  exists (d1 / (INR (length x) + 1)). pose proof (pos_INR (length x)) as Hn.
  split; [apply Rdiv_lt_0_compat; lra|].
  intros y Hy k Hk. pose proof (proj1 Hy) as Ly. rewrite !nth_vscale. unfold ones, vconst.
  rewrite !repeat_nth by lia. numR. rewrite !Rmult_1_r. apply H1.
  eapply Rle_lt_trans; [apply (vsum_near x y _ Hy)|].
  apply (Rmult_lt_reg_r (INR (length x) + 1)); [lra|]. unfold Rdiv. field_simplify; [|lra].
  assert (0 < d1) by lra. nra.
Qed.

(* ---- what the two general theorems give for a gradient that is exact and continuous EVERYWHERE ---- *)
Definition exact_everywhere (F : list R -> R) (G : list R -> list R) (n : nat) : Prop :=
  forall y, length y = n -> grad_at F (G y) y /\ gcont G y.

Theorem total_everywhere F G n x : exact_everywhere F G n -> length x = n -> dir_at F (G x) x.
Proof.
  intros H Lx. apply (total_from_partials F G x 1); [lra| |apply H; auto].
  intros y [Ly _]. apply H. lia.
Qed.

Theorem line_integral_everywhere F G n x y : exact_everywhere F G n -> length x = n -> length y = n ->
  is_RInt (fun t => dot (G (seg x y t)) (vsub y x)) 0 1 (F y - F x).
Proof.
  intros H Lx Ly.
  assert (Ls : forall t, length (seg x y t) = n).
  { intros t. unfold seg. rewrite line_point_length; [exact Lx|]. rewrite vsub_length. lia. }
  apply (line_integral F G x y 1); [lia|lra| | |].
  - intros t _ z [Lz _]. apply H. rewrite Lz. apply Ls.
  - intros t _. apply H. apply Ls.
  - intros t. destruct (H (seg x y t) (Ls t)) as [[LG _] _]. rewrite LG, Ls. auto.
Qed.

(* ---- the classes ---- *)
Lemma everywhere_device n b cb p : length p = n ->
  exact_everywhere (fun s => leaf_cost (Build_leafdev n b cb KDev) s p) (fun s => leaf_deriv (Build_leafdev n b cb KDev) s p) n /\
  exact_everywhere (fun s => leaf_cost (Build_leafdev n b cb KPV) s p) (fun s => leaf_deriv (Build_leafdev n b cb KPV) s p) n.
Proof.
  intros Lp. split; intros y Ly; (split; [apply (grad_device n b cb y p Ly Lp)|apply gcont_indep; reflexivity]).
Qed.

Lemma everywhere_cdevice n b cb a b0 p : length p = n ->
  exact_everywhere (fun s => leaf_cost (Build_leafdev n b cb (KC a b0)) s p) (fun s => leaf_deriv (Build_leafdev n b cb (KC a b0)) s p) n.
Proof.
  intros Lp y Ly. split; [apply (grad_cdevice n b cb a b0 y p Ly Lp)|apply gcont_indep; reflexivity].
Qed.

Lemma everywhere_idevice2 n b cb pl ph p : length p = n ->
  exact_everywhere (fun s => leaf_cost (Build_leafdev n b cb (KI2 pl ph)) s p) (fun s => leaf_deriv (Build_leafdev n b cb (KI2 pl ph)) s p) n.
Proof.
  intros Lp y Ly. split; [apply (grad_idevice2 n b cb pl ph y p Ly Lp)|].
  unfold leaf_deriv; cbn [ld_kind ld_bounds]. unfold idev2_deriv.
  apply (gcont_vadd_const (fun s => map (fun '(i, x) => hl_deriv x (pnth pl i) (pnth ph i) (lo b i) (hi b i)) (idx s))); [lia| |].
  - intros z Lz. rewrite (sep_length (fun i x => hl_deriv x (pnth pl i) (pnth ph i) (lo b i) (hi b i))). exact Lz.
  - apply (gcont_sep (fun i x => hl_deriv x (pnth pl i) (pnth ph i) (lo b i) (hi b i))).
    intros i _. eapply is_derive_continuity_pt. apply hl_deriv_derive.
Qed.

Lemma everywhere_gdevice n b cb g p : length p = n ->
  exact_everywhere (fun s => leaf_cost (Build_leafdev n b cb (KG g)) s p) (fun s => leaf_deriv (Build_leafdev n b cb (KG g)) s p) n.
Proof.
  intros Lp y Ly. split; [apply (grad_gdevice n b cb g y p Ly Lp)|].
  unfold leaf_deriv; cbn [ld_kind]. unfold gdev_deriv. numR.
  apply (gcont_sep (fun i x => nth i p 0 - horner (pderiv (gpoly g i)) (- x))).
  intros i _. eapply is_derive_continuity_pt.
  apply (is_derive_minus (fun _ => nth i p 0) (fun x => horner (pderiv (gpoly g i)) (- x)) (nth i y 0) 0
           (- horner (pderiv (pderiv (gpoly g i))) (- nth i y 0))).
  - apply (is_derive_const (nth i p 0)).
  - apply horner_neg_derive.
Qed.

Lemma everywhere_cdevice2_single n b c pl ph p : length p = n ->
  exact_everywhere (fun s => leaf_cost (Build_leafdev n b [c] (KC2 pl ph)) s p)
                   (fun s => leaf_deriv (Build_leafdev n b [c] (KC2 pl ph)) s p) n.
Proof.
  intros Lp y Ly. split; [apply (grad_cdevice2_single n b c pl ph y p Ly Lp)|].
  unfold leaf_deriv; cbn [ld_kind ld_cb]. unfold cdev2_deriv, cdev2_dpref.
  apply (gcont_vadd_const (fun s => vscale (hl_deriv (vsum s) pl ph (cb_lo c) (cb_hi c)) (ones (length s)))); [lia| |].
  - intros z Lz. unfold vscale, ones, vconst. now rewrite map_length, repeat_length.
  - apply (gcont_total (fun u => hl_deriv u pl ph (cb_lo c) (cb_hi c))).
    eapply is_derive_continuity_pt. apply hl_deriv_derive.
Qed.

(* exponent 1 needs no hypothesis (abc_deriv_derive_b1 carries an unused one) *)
Lemma abc_deriv_derive_one x a c xl xh :
  is_derive (fun t => abc_deriv (A:=R) t a (Rnat 1) c xl xh) x (abc_hess (A:=R) x a (Rnat 1) c xl xh).
Proof.
  destruct (Req_EM_T xl xh) as [->|Hne].
  - unfold abc_hess, abc_deriv. numR. destruct (Reqb xh xh) eqn:E; [|apply Reqb_false in E; congruence].
    auto_derive; [exact I|ring].
  - unfold abc_hess, abc_deriv. numR. destruct (Reqb xl xh) eqn:E; [apply Reqb_true in E; contradiction|].
    destruct (Reqb (Rnat 1) 1) eqn:E1; [|apply Reqb_false in E1; exfalso; apply E1; reflexivity].
    apply (is_derive_ext (fun t => - c * Rnat 1 * 1 * ((1 - a) / (xh - xl)))).
    + intros t. replace (Rnat 1 - 1) with (Rnat 0) by (unfold Rnat; simpl; ring). now rewrite Rpw_Rnat.
    + auto_derive; [exact I|]. ring.
Qed.

Lemma abc_deriv_continuous x a k c xl xh : continuity_pt (fun t => abc_deriv (A:=R) t a (Rnat (S k)) c xl xh) x.
Proof.
  destruct k as [|k]; eapply is_derive_continuity_pt; [apply abc_deriv_derive_one|apply abc_deriv_derive].
Qed.

Lemma everywhere_idevice n b cb a bp c p : length p = n -> nat_exponents bp n ->
  exact_everywhere (fun s => leaf_cost (Build_leafdev n b cb (KI a bp c)) s p) (fun s => leaf_deriv (Build_leafdev n b cb (KI a bp c)) s p) n.
Proof.
  intros Lp Hb y Ly. split; [apply (grad_idevice n b cb a bp c y p Ly Lp Hb)|].
  unfold leaf_deriv; cbn [ld_kind ld_bounds]. unfold idev_deriv.
  apply (gcont_vadd_const (fun s => map (fun '(i, x) => abc_deriv x (pnth a i) (pnth bp i) (pnth c i) (lo b i) (hi b i)) (idx s))); [lia| |].
  - intros z Lz. rewrite (sep_length (fun i x => abc_deriv x (pnth a i) (pnth bp i) (pnth c i) (lo b i) (hi b i))). exact Lz.
  - apply (gcont_sep (fun i x => abc_deriv x (pnth a i) (pnth bp i) (pnth c i) (lo b i) (hi b i))).
    intros i Hi. destruct (Hb i ltac:(lia)) as [e ->]. apply abc_deriv_continuous.
Qed.

(* ---- the statements used by Props/C01.v ---- *)
Definition marginal_is_total_derivative (L : leafdev R) (p x : list R) : Prop :=
  dir_at (fun s => leaf_cost L s p) (leaf_deriv L x p) x.
Definition cost_is_line_integral (L : leafdev R) (p x y : list R) : Prop :=
  is_RInt (fun t => dot (leaf_deriv L (seg x y t) p) (vsub y x)) 0 1 (leaf_cost L y p - leaf_cost L x p).

Lemma smooth_class_total (L : leafdev R) p n :
  exact_everywhere (fun s => leaf_cost L s p) (fun s => leaf_deriv L s p) n ->
  forall x, length x = n -> marginal_is_total_derivative L p x.
Proof. intros H x Lx. exact (total_everywhere _ _ n x H Lx). Qed.
Lemma smooth_class_line (L : leafdev R) p n :
  exact_everywhere (fun s => leaf_cost L s p) (fun s => leaf_deriv L s p) n ->
  forall x y, length x = n -> length y = n -> cost_is_line_integral L p x y.
Proof. intros H x y Lx Ly. exact (line_integral_everywhere _ _ n x y H Lx Ly). Qed.

Definition smooth_kind (k : kind R) (cbs : list (cbound R)) (n : nat) : Prop :=
  match k with
  | KDev | KPV | KC _ _ | KI2 _ _ | KG _ => True
  | KI _ bp _ => nat_exponents bp n
  | KC2 _ _ => exists c, cbs = [c]
  | _ => False
  end.

Theorem smooth_classes_everywhere n b cb k p : length p = n -> smooth_kind k cb n ->
  exact_everywhere (fun s => leaf_cost (Build_leafdev n b cb k) s p) (fun s => leaf_deriv (Build_leafdev n b cb k) s p) n.
Proof.
  intros Lp Hk. destruct k; cbn in Hk; try contradiction.
  - apply (proj1 (everywhere_device n b cb p Lp)).
  - apply (proj2 (everywhere_device n b cb p Lp)).
  - apply everywhere_cdevice; auto.
  - destruct Hk as [c ->]. apply everywhere_cdevice2_single; auto.
  - apply everywhere_idevice; auto.
  - apply everywhere_idevice2; auto.
  - apply everywhere_gdevice; auto.
Qed.

Theorem smooth_classes_total n b cb k p x : length p = n -> length x = n -> smooth_kind k cb n ->
  marginal_is_total_derivative (Build_leafdev n b cb k) p x.
Proof. intros Lp Lx Hk. apply (smooth_class_total _ p n); auto. now apply smooth_classes_everywhere. Qed.

Theorem smooth_classes_line n b cb k p x y : length p = n -> length x = n -> length y = n -> smooth_kind k cb n ->
  cost_is_line_integral (Build_leafdev n b cb k) p x y.
Proof. intros Lp Lx Ly Hk. apply (smooth_class_line _ p n); auto. now apply smooth_classes_everywhere. Qed.

(* non-vacuity / a concrete instance: the high/low device on 3 slots, from (0,0,0) to (1,2,3) *)
Example line_example :
  cost_is_line_integral (Build_leafdev 3 [(0, 4); (0, 4); (0, 4)] [] (KI2 (PS (-1)) (PS 2))) [1; 1; 1] [0; 0; 0] [1; 2; 3].
Proof. apply smooth_classes_line; try reflexivity. Qed.
