(* Total derivative of a sum over contiguous slot ranges (the shape of CDevice2 with several cumulative ranges and of RangesFunction):
   if every summand has a total derivative on its own range, the sum has one, and it is the concatenation of the per-range gradients. *)
From Coq Require Import ZArith Reals List Lra Lia Arith Psatz.
From Coquelicot Require Import Coquelicot.
From DK Require Import Num NumR Vec.
From DK.Gen Require Import Kernels.
From DK.Model Require Import Leaf Fn Dev.
From DK.Proofs Require Import VecFacts RVec VecAlg Calc KernelR C01Proofs RangesProofs Total TotalLeaf.
Import ListNotations.
Local Open Scope R_scope.

Lemma firstn_map2 {B C D} (f : B -> C -> D) : forall m (a : list B) (b : list C), firstn m (map2 f a b) = map2 f (firstn m a) (firstn m b).
Proof. induction m as [|m IH]; intros [|x a] [|y b]; cbn [firstn map2]; try reflexivity. f_equal. apply IH. Qed.
Lemma skipn_map2 {B C D} (f : B -> C -> D) : forall m (a : list B) (b : list C), length a = length b ->
  skipn m (map2 f a b) = map2 f (skipn m a) (skipn m b).
Proof. induction m as [|m IH]; intros [|x a] [|y b] HL; cbn [skipn map2]; simpl in HL; try reflexivity; try lia. apply IH. lia. Qed.
Lemma slice_vadd (a b : list R) s e : length a = length b -> slice s e (vadd a b) = vadd (slice s e a) (slice s e b).
Proof. intros HL. unfold slice, vadd. rewrite skipn_map2 by exact HL. apply firstn_map2. Qed.
Lemma slice_vscale t (d : list R) s e : slice s e (vscale t d) = vscale t (slice s e d).
Proof. unfold slice, vscale. now rewrite skipn_map, firstn_map. Qed.

Lemma dot_app (a1 a2 b1 b2 : list R) : length a1 = length b1 -> dot (a1 ++ a2) (b1 ++ b2) = dot a1 b1 + dot a2 b2.
Proof.
  revert b1; induction a1 as [|x a1 IH]; intros [|y b1] HL; simpl in HL; try lia.
  - simpl. unfold dot at 2. simpl. ring.
  - cbn [app]. rewrite !dot_cons, IH by lia. ring.
Qed.
Lemma skipn_skipn' {B} (l : list B) a b : skipn a (skipn b l) = skipn (b + a) l.
Proof. revert l; induction b as [|b IH]; intros l; [reflexivity|]. destruct l; [now destruct a|]. apply IH. Qed.
Lemma split_at {B} (l : list B) m : l = firstn m l ++ skipn m l.
Proof. symmetry. apply firstn_skipn. Qed.

Section RangedDir.
  Context {T : Type} (st en : T -> nat).
  Variables (F : T -> list R -> R) (G : T -> list R).

  (* <concatenated gradients, d restricted to [a, n)> is the sum of the per-range products *)
  Lemma dot_flat_map_chain (d : list R) : forall rs a, chain st en a rs (length d) ->
    (forall r, In r rs -> length (G r) = (en r - st r)%nat) ->
    dot (flat_map G rs) (skipn a d) = vsum (map (fun r => dot (G r) (slice (st r) (en r) d)) rs).
  Proof.
    induction rs as [|r rs IH]; intros a Hc HL; simpl in Hc.
    - subst a. rewrite skipn_all. reflexivity.
    - destruct Hc as (Hst & Hle & Hc). pose proof (chain_le _ _ _ _ _ Hc) as Hen. cbn [flat_map map]. rewrite vsum_cons.
      rewrite <- (IH (en r) Hc) by (intros; apply HL; now right).
      rewrite (split_at (skipn a d) (en r - a)).
      rewrite dot_app.
      + f_equal; [now rewrite Hst|]. f_equal. rewrite skipn_skipn'. f_equal. lia.
      + rewrite HL by (now left). rewrite firstn_length, skipn_length. lia.
  Qed.

  Theorem ranged_dir (x : list R) rs : chain st en 0 rs (length x) ->
    (forall r, In r rs -> length (G r) = (en r - st r)%nat /\ dir_at (F r) (G r) (slice (st r) (en r) x)) ->
    dir_at (ranged_sum st en F rs) (flat_map G rs) x.
  Proof.
    intros Hc HG d Ld.
    assert (E : dot (flat_map G rs) d = vsum (map (fun r => dot (G r) (slice (st r) (en r) d)) rs)).
    { rewrite <- (dot_flat_map_chain d rs 0); [reflexivity|now rewrite Ld|intros r Hr; apply HG; exact Hr]. }
    rewrite E. unfold ranged_sum.
    apply (is_derive_ext (fun t => vsum (map (fun r => F r (vadd (slice (st r) (en r) x) (vscale t (slice (st r) (en r) d)))) rs))).
    { intros t. apply vsum_map_ext. intros r _. rewrite slice_vadd by (rewrite vscale_length; lia). now rewrite slice_vscale. }
    apply (is_derive_vsum_map (fun r t => F r (vadd (slice (st r) (en r) x) (vscale t (slice (st r) (en r) d))))
                              (fun r => dot (G r) (slice (st r) (en r) d))).
    intros r Hr. destruct (HG r Hr) as [_ Hd]. apply Hd.
    destruct (chain_in _ _ _ _ _ _ Hc Hr) as (_ & H1 & H2). rewrite !slice_length by lia. reflexivity.
  Qed.
End RangedDir.

(* ---- CDevice2 with any number of contiguous cumulative ranges ---- *)
Lemma inner_hl_everywhere pl ph xl xh n :
  exact_everywhere (fun z => hl_cost (A:=R) (vsum z) pl ph xl xh) (fun z => vscale (hl_deriv (A:=R) (vsum z) pl ph xl xh) (ones (length z))) n.
Proof.
  intros z Lz. split; [apply grad_inner_hl|].
  apply (gcont_total (fun u => hl_deriv (A:=R) u pl ph xl xh)). eapply is_derive_continuity_pt. apply hl_deriv_derive.
Qed.

Theorem cdevice2_multi_total n b cbs pl ph (x p : list R) : length x = n -> length p = n -> cb_chain cbs n ->
  dir_at (fun s => leaf_cost (Build_leafdev n b cbs (KC2 pl ph)) s p) (leaf_deriv (Build_leafdev n b cbs (KC2 pl ph)) x p) x.
Proof.
  intros Lx Lp Hc. destruct (Nat.eq_dec (length cbs) 1) as [E1|NE1].
  - destruct cbs as [|c [|]]; simpl in E1; try lia. apply smooth_classes_total; auto. cbn. now exists c.
  - unfold leaf_cost, leaf_deriv; cbn [ld_kind ld_cb]. unfold cdev2_cost, cdev2_deriv. intros d Ld.
    assert (Lg : length (cdev2_dpref pl ph cbs x) = length x).
    { rewrite cdev2_dpref_multi by exact NE1.
      rewrite (ranged_field_length (@cb_s R) (@cb_e R) x _ cbs 0); [lia|rewrite Lx; exact Hc| |reflexivity].
      intros c z _ Lz. unfold vscale, ones, vconst. now rewrite map_length, repeat_length. }
    rewrite dot_vadd_l by lia. numR.
    apply (is_derive_plus (fun t => cdev2_pref pl ph cbs (vadd x (vscale t d))) (fun t => dot (vadd x (vscale t d)) p) 0
             (dot (cdev2_dpref pl ph cbs x) d) (dot p d)).
    + rewrite cdev2_dpref_multi by exact NE1.
      apply (is_derive_ext (fun t => ranged_sum (@cb_s R) (@cb_e R) (fun c z => hl_cost (vsum z) pl ph (cb_lo c) (cb_hi c)) cbs (vadd x (vscale t d)))).
      { intros t. now rewrite cdev2_pref_multi by exact NE1. }
      apply (ranged_dir (@cb_s R) (@cb_e R) (fun c z => hl_cost (vsum z) pl ph (cb_lo c) (cb_hi c))
               (fun c => vscale (hl_deriv (vsum (slice (cb_s c) (cb_e c) x)) pl ph (cb_lo c) (cb_hi c)) (ones (length (slice (cb_s c) (cb_e c) x)))) x cbs).
      * rewrite Lx. exact Hc.
      * intros c Hin. destruct (chain_in _ _ _ _ _ _ Hc Hin) as (_ & H1 & H2). split.
        -- unfold vscale, ones, vconst. rewrite map_length, repeat_length, slice_length by lia. reflexivity.
        -- apply (total_everywhere _ _ (cb_e c - cb_s c) _ (inner_hl_everywhere pl ph (cb_lo c) (cb_hi c) _)). apply slice_length; lia.
      * exact Ld.
    + apply (is_derive_ext (fun t => dot x p + t * dot d p)).
      { intros t. rewrite dot_vadd_l by (rewrite vscale_length; lia). now rewrite dot_vscale_l. }
      rewrite (dot_comm p d). auto_derive; [exact I|ring].
Qed.
