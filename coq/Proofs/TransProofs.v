(* C01 for the three numerically differentiated preference functions (Model/Trans.v): the closed-form gradients are the total
   derivatives of the costs the code computes, for every length, wherever the cost is differentiable (non-zero total flow for the
   temporal variance, no zero entry for the entropy, positive flows for Cobb-Douglas). *)
From Coq Require Import ZArith Reals List Lra Lia Arith Psatz.
From Coquelicot Require Import Coquelicot.
From DK Require Import Num NumR Vec.
From DK.Model Require Import Leaf Trans.
From DK.Proofs Require Import VecFacts RVec VecAlg Calc Total TotalStorage FnTotal.
Import ListNotations.
Local Open Scope R_scope.

(* ---------------- weighted sums are linear ---------------- *)
Lemma wsum_seq w r : wsum w r = vsum (map (fun i => w i * nth i r 0) (seq 0 (length r))).
Proof. unfold wsum. apply (vsum_map_idx_seq (fun i v => w i * v)). Qed.

Lemma vsum_wsum r : vsum r = wsum (fun _ => 1) r.
Proof.
  unfold wsum, idx. generalize 0%nat. induction r as [|a r IH]; intros s; [reflexivity|].
  cbn [length seq combine map]. rewrite !vsum_cons, <- IH. ring.
Qed.

Lemma wsum_ext w w' r : (forall i, (i < length r)%nat -> w i = w' i) -> wsum w r = wsum w' r.
Proof. intros E. rewrite !wsum_seq. apply vsum_map_ext. intros i Hi. apply in_seq in Hi. rewrite E by lia. reflexivity. Qed.

Lemma wsum_lin a w1 b w2 r : wsum (fun i => a * w1 i + b * w2 i) r = a * wsum w1 r + b * wsum w2 r.
Proof.
  rewrite !wsum_seq, <- !vsum_map_scal, <- vsum_map_plus. apply vsum_map_ext. intros i _. ring.
Qed.

Lemma wsum_line w (x d : list R) t : length d = length x -> wsum w (vadd x (vscale t d)) = wsum w x + t * wsum w d.
Proof.
  intros Ld. rewrite !wsum_seq, line_point_length, Ld by exact Ld. rewrite <- vsum_map_scal, <- vsum_map_plus.
  apply vsum_map_ext. intros i Hi. apply in_seq in Hi. rewrite line_nth by (auto; lia). ring.
Qed.

Lemma dot_idx_weights (g : nat -> R) (x d : list R) : length d = length x ->
  dot (map (fun '(i, _) => g i) (idx x)) d = wsum g d.
Proof.
  intros Ld. assert (LG : length (map (fun '(i, _) => g i) (idx x)) = length d) by (rewrite map_idx_length; lia).
  rewrite (dot_as_seq _ d LG), map_idx_length, wsum_seq, Ld. apply vsum_map_ext. intros i Hi. apply in_seq in Hi.
  rewrite (nth_map_idx (fun i _ => g i)) by lia. reflexivity.
Qed.

(* ---------------- TemporalVariance ---------------- *)
Definition sq2 (i : nat) : R := tix i * tix i.

Lemma inertia_closed r : vsum r <> 0 -> inertia r = wsum sq2 r - wsum tix r * wsum tix r / vsum r.
Proof.
  intros H0. unfold inertia. set (m := com r).
  rewrite (wsum_ext _ (fun i => 1 * sq2 i + 1 * ((- 2 * m) * tix i + (m * m) * 1))) by (intros; unfold sq2; ring).
  rewrite wsum_lin. rewrite (wsum_lin (- 2 * m) tix (m * m) (fun _ => 1)). rewrite <- vsum_wsum.
  unfold m, com. field. exact H0.
Qed.

Lemma near_zero_keeps_nonzero (a b : R) : a <> 0 -> locally 0 (fun t : R => a + t * b <> 0).
Proof.
  intros Ha. assert (He : 0 < Rabs a / (Rabs b + 1)).
  { apply Rdiv_lt_0_compat; [now apply Rabs_pos_lt|]. pose proof (Rabs_pos b). lra. }
  exists (mkposreal _ He). intros t Ht. unfold ball in Ht; simpl in Ht. unfold AbsRing_ball, abs, minus, plus, opp in Ht; simpl in Ht.
  rewrite Ropp_0, Rplus_0_r in Ht. intros E.
  assert (E2 : Rabs a = Rabs t * Rabs b) by (rewrite <- Rabs_mult; replace a with (- (t * b)) by lra; now rewrite Rabs_Ropp).
  pose proof (Rabs_pos b) as Hb. pose proof (Rabs_pos t) as Ht0.
  assert (Rabs t * (Rabs b + 1) < Rabs a).
  { apply (Rmult_lt_compat_r (Rabs b + 1)) in Ht; [|lra]. unfold Rdiv in Ht. rewrite Rmult_assoc, Rinv_l in Ht by lra. lra. }
  nra.
Qed.

Theorem tvar_total_derivative c (x : list R) : vsum x <> 0 -> dir_at (tvar c) (tvar_grad c x) x.
Proof.
  intros H0 d Ld. unfold tvar_grad.
  rewrite (dot_idx_weights (fun i => c * ((tix i - com x) * (tix i - com x))) x d Ld).
  set (S0 := vsum x) in *. set (S1 := wsum tix x). set (S2 := wsum sq2 x).
  set (D0 := vsum d). set (D1 := wsum tix d). set (D2 := wsum sq2 d).
  apply (is_derive_ext_loc (fun t => c * ((S2 + t * D2) - (S1 + t * D1) * (S1 + t * D1) / (S0 + t * D0)))).
  { generalize (near_zero_keeps_nonzero S0 D0 H0). apply filter_imp. intros t Ht. unfold tvar.
    assert (E0 : vsum (vadd x (vscale t d)) = S0 + t * D0).
    { rewrite !vsum_wsum, wsum_line by exact Ld. unfold S0, D0. now rewrite <- !vsum_wsum. }
    rewrite inertia_closed by (intros E; apply Ht; etransitivity; [symmetry; exact E0|exact E]).
    etransitivity; [|reflexivity]. f_equal. rewrite !wsum_line by exact Ld. fold S1 S2 D1 D2. f_equal. f_equal. symmetry; exact E0. }
  assert (Eg : wsum (fun i => c * ((tix i - com x) * (tix i - com x))) d
               = c * (D2 - (2 * S1 * D1 * S0 - S1 * S1 * D0) / (S0 * S0))).
  { set (m := com x).
    rewrite (wsum_ext _ (fun i => c * sq2 i + c * ((- 2 * m) * tix i + (m * m) * 1))) by (intros; unfold sq2; ring).
    rewrite wsum_lin. rewrite (wsum_lin (- 2 * m) tix (m * m) (fun _ => 1)). rewrite <- vsum_wsum.
    unfold m, com. fold S0 S1 D0 D1 D2. field. exact H0. }
  rewrite Eg. auto_derive.
  - rewrite Rmult_0_l, Rplus_0_r. exact H0.
  - rewrite !Rmult_0_l, !Rplus_0_r. field. exact H0.
Qed.

(* ---------------- InformationEntropy ---------------- *)
Lemma vsum_map_nth (f : R -> R) l : vsum (map f l) = vsum (map (fun i => f (nth i l 0)) (seq 0 (length l))).
Proof.
  induction l as [|a l IH]; [reflexivity|]. cbn [length seq map]. rewrite !vsum_cons. f_equal.
  rewrite IH, <- seq_shift, map_map. reflexivity.
Qed.

Definition nonzero (x : list R) : Prop := forall k, (k < length x)%nat -> nth k x 0 <> 0.

Lemma nonzero_cons a x : nonzero (a :: x) -> a <> 0 /\ nonzero x.
Proof. intros H. split; [apply (H 0%nat); simpl; lia|]. intros k Hk. apply (H (S k)). simpl; lia. Qed.

Lemma nzabs_nonzero x : nonzero x -> nzabs x = map Rabs x.
Proof.
  induction x as [|a x IH]; intros H; [reflexivity|]. destruct (nonzero_cons _ _ H) as [Ha Hx]. cbn [nzabs map].
  destruct (Req_EM_T a 0) as [E|_]; [contradiction|]. now rewrite IH.
Qed.

Lemma vsum_pos (a : list R) : a <> [] -> (forall v, In v a -> 0 < v) -> 0 < vsum a.
Proof.
  induction a as [|v a IH]; intros Hne Hp; [congruence|]. rewrite vsum_cons.
  assert (0 < v) by (apply Hp; now left). destruct a as [|w a]; [rewrite vsum_nil; lra|].
  assert (0 < vsum (w :: a)) by (apply IH; [congruence|intros; apply Hp; now right]). lra.
Qed.

Lemma plogp_closed (a : list R) : a <> [] -> (forall v, In v a -> 0 < v) ->
  plogp a = vsum (map (fun v => v * ln v) a) / vsum a - ln (vsum a).
Proof.
  intros Hne Hp. pose proof (vsum_pos a Hne Hp) as Hs. unfold plogp. set (s := vsum a) in *.
  rewrite (vsum_map_ext _ (fun v => (/ s) * (v * ln v) + (- ln s / s) * v)).
  - rewrite vsum_map_plus, !vsum_map_scal, map_id. fold s. field. lra.
  - intros v Hv. specialize (Hp v Hv). unfold Rdiv at 2. rewrite ln_mult by (auto; now apply Rinv_0_lt_compat).
    rewrite ln_Rinv by exact Hs. field. lra.
Qed.

Definition sg (v : R) : R := v / Rabs v.
Lemma sg_abs v : v <> 0 -> sg v * v = Rabs v.
Proof.
  intros Hv. unfold sg. pose proof (Rabs_pos_lt v Hv). unfold Rabs in *. destruct (Rcase_abs v); field; lra.
Qed.
Lemma sg_sq v : v <> 0 -> sg v * sg v = 1.
Proof. intros Hv. unfold sg. pose proof (Rabs_pos_lt v Hv). unfold Rabs in *. destruct (Rcase_abs v); field; lra. Qed.
Lemma sg_cases v : v <> 0 -> sg v = 1 \/ sg v = -1.
Proof. intros Hv. unfold sg. pose proof (Rabs_pos_lt v Hv). unfold Rabs in *. destruct (Rcase_abs v); [right|left]; field; lra. Qed.

Lemma line_keeps_sign (x d : list R) : length d = length x -> nonzero x ->
  locally 0 (fun t : R => forall k, (k < length x)%nat -> 0 < sg (nth k x 0) * (nth k x 0 + t * nth k d 0)).
Proof.
  intros Ld Hnz. pose proof (minabs_pos x Hnz) as Hm. pose proof (dbound_nonneg d) as Hd.
  assert (He : 0 < minabs x / (dbound d + 1)) by (apply Rdiv_lt_0_compat; lra).
  exists (mkposreal _ He). intros t Ht k Hk. unfold ball in Ht; simpl in Ht. unfold AbsRing_ball, abs, minus, plus, opp in Ht; simpl in Ht.
  rewrite Ropp_0, Rplus_0_r in Ht.
  assert (B : Rabs t * (dbound d + 1) < minabs x).
  { apply (Rmult_lt_compat_r (dbound d + 1)) in Ht; [|lra]. unfold Rdiv in Ht. rewrite Rmult_assoc, Rinv_l in Ht by lra. lra. }
  pose proof (minabs_le x k Hk) as M. pose proof (nth_le_dbound d k) as Dk. pose proof (Rabs_pos t) as Tp.
  pose proof (Rabs_pos (nth k d 0)) as Dp.
  assert (TD : Rabs (t * nth k d 0) < Rabs (nth k x 0)) by (rewrite Rabs_mult; nra).
  rewrite Rmult_plus_distr_l, sg_abs by (apply Hnz; exact Hk).
  destruct (sg_cases (nth k x 0) (Hnz k Hk)) as [-> | ->]; apply Rabs_def2 in TD; lra.
Qed.

Lemma abs_of_sign v y : v <> 0 -> 0 < sg v * y -> Rabs y = sg v * y /\ y <> 0.
Proof.
  intros Hv Hy. destruct (sg_cases v Hv) as [E|E]; rewrite E in *.
  - split; [rewrite Rabs_pos_eq; lra|lra].
  - split; [rewrite Rabs_left; lra|lra].
Qed.

Lemma is_derive_ent (T S : R -> R) (T' S' : R) : is_derive T 0 T' -> is_derive S 0 S' -> 0 < S 0 ->
  is_derive (fun t => T t / S t - ln (S t)) 0 (T' / S 0 - T 0 * S' / (S 0 * S 0) - S' / S 0).
Proof.
  intros DT DS Hs.
  assert (D1 : is_derive (fun t => T t / S t) 0 (T' / S 0 - T 0 * S' / (S 0 * S 0))).
  { replace (T' / S 0 - T 0 * S' / (S 0 * S 0)) with ((T' * S 0 - T 0 * S') / (S 0 ^ 2)) by (field; lra).
    apply is_derive_div; auto. lra. }
  assert (D2 : is_derive (fun t => ln (S t)) 0 (S' / S 0)).
  { replace (S' / S 0) with (S' * / S 0) by reflexivity.
    apply (is_derive_comp ln S 0 (/ S 0) S'); [|exact DS]. apply is_derive_ln. exact Hs. }
  apply (is_derive_minus _ _ 0 _ _ D1 D2).
Qed.

Lemma nth_map_Rabs l i : nth i (map Rabs l) 0 = Rabs (nth i l 0).
Proof. rewrite <- Rabs_R0 at 1. apply map_nth. Qed.

Lemma entropy_profile (y : list R) (a : nat -> R) : y <> [] ->
  (forall k, (k < length y)%nat -> Rabs (nth k y 0) = a k /\ nth k y 0 <> 0) ->
  vsum (nzabs y) = vsum (map a (seq 0 (length y))) /\
  plogp (nzabs y) = vsum (map (fun i => a i * ln (a i)) (seq 0 (length y))) / vsum (map a (seq 0 (length y)))
                    - ln (vsum (map a (seq 0 (length y)))).
Proof.
  intros Hne Hy.
  assert (Hnz : nonzero y) by (intros k Hk; apply (Hy k Hk)).
  rewrite (nzabs_nonzero y Hnz).
  assert (E1 : vsum (map Rabs y) = vsum (map a (seq 0 (length y)))).
  { rewrite <- (map_id (map Rabs y)), (vsum_map_nth (fun v => v)), map_length. apply vsum_map_ext. intros i Hi. apply in_seq in Hi.
    rewrite nth_map_Rabs. apply Hy. lia. }
  split; [exact E1|]. rewrite plogp_closed.
  - rewrite E1. f_equal. f_equal. rewrite (vsum_map_nth (fun v => v * ln v)), map_length. apply vsum_map_ext. intros i Hi. apply in_seq in Hi.
    rewrite nth_map_Rabs. destruct (Hy i ltac:(lia)) as [-> _]. reflexivity.
  - destruct y; [congruence|discriminate].
  - intros v Hv. apply in_map_iff in Hv. destruct Hv as (w & <- & Hw). apply Rabs_pos_lt.
    destruct (In_nth _ _ 0 Hw) as (k & Hk & <-). apply Hnz. exact Hk.
Qed.

Theorem entropy_total_derivative c (x : list R) : x <> [] -> nonzero x -> dir_at (entropy c) (entropy_grad c x) x.
Proof.
  intros Hne Hnz d Ld.
  set (n := length x).
  set (u := fun (i : nat) (t : R) => sg (nth i x 0) * (nth i x 0 + t * nth i d 0)).
  set (Tt := fun t : R => vsum (map (fun i => u i t * ln (u i t)) (seq 0 n))).
  set (St := fun t : R => vsum (map (fun i => u i t) (seq 0 n))).
  assert (U0 : forall i, (i < n)%nat -> u i 0 = Rabs (nth i x 0)).
  { intros i Hi. unfold u. rewrite Rmult_0_l, Rplus_0_r. apply sg_abs. apply Hnz. exact Hi. }
  assert (Up : forall i, (i < n)%nat -> 0 < u i 0) by (intros i Hi; rewrite U0 by exact Hi; apply Rabs_pos_lt, Hnz; exact Hi).
  destruct (entropy_profile x (fun i => u i 0) Hne) as [Es Ee].
  { intros k Hk. split; [symmetry; apply U0; exact Hk|apply Hnz; exact Hk]. }
  fold n in Es, Ee. change (vsum (map (fun i => u i 0) (seq 0 n))) with (St 0) in Es, Ee.
  change (vsum (map (fun i => u i 0 * ln (u i 0)) (seq 0 n))) with (Tt 0) in Ee.
  assert (Sp : 0 < St 0).
  { unfold St. apply vsum_pos.
    - destruct x; [congruence|]. unfold n. simpl. discriminate.
    - intros v Hv. apply in_map_iff in Hv. destruct Hv as (i & <- & Hi). apply in_seq in Hi. apply Up. lia. }
  (* the reported gradient against d *)
  assert (Eg : dot (entropy_grad c x) d =
               c * (vsum (map (fun i => sg (nth i x 0) * nth i d 0 * (ln (u i 0) + 1)) (seq 0 n)) / St 0
                    - Tt 0 * vsum (map (fun i => sg (nth i x 0) * nth i d 0) (seq 0 n)) / (St 0 * St 0)
                    - vsum (map (fun i => sg (nth i x 0) * nth i d 0) (seq 0 n)) / St 0)).
  { assert (LG : length (entropy_grad c x) = length d) by (unfold entropy_grad; rewrite map_length; lia).
    rewrite (dot_as_seq _ d LG). unfold entropy_grad at 2. rewrite map_length. fold n.
    set (k1 := / St 0). set (k2 := - Tt 0 / (St 0 * St 0) - / St 0).
    replace (c * _) with (c * (k1 * vsum (map (fun i => sg (nth i x 0) * nth i d 0 * (ln (u i 0) + 1)) (seq 0 n))
                              + k2 * vsum (map (fun i => sg (nth i x 0) * nth i d 0) (seq 0 n)))) by (unfold k1, k2; field; lra).
    rewrite <- !vsum_map_scal, <- vsum_map_plus, <- vsum_map_scal. apply vsum_map_ext. intros i Hi. apply in_seq in Hi.
    unfold entropy_grad.
    rewrite (nth_indep _ 0 ((fun v => c * (v / Rabs v * ((ln (Rabs v / vsum (nzabs x)) - plogp (nzabs x)) / vsum (nzabs x)))) 0))
      by (rewrite map_length; lia).
    rewrite (map_nth (fun v => c * (v / Rabs v * ((ln (Rabs v / vsum (nzabs x)) - plogp (nzabs x)) / vsum (nzabs x))))).
    rewrite Es, Ee. fold (sg (nth i x 0)). rewrite <- (U0 i) by lia.
    assert (El : ln (u i 0 / St 0) = ln (u i 0) - ln (St 0)).
    { unfold Rdiv. rewrite ln_mult; [rewrite ln_Rinv by exact Sp; ring|apply Up; lia|now apply Rinv_0_lt_compat]. }
    rewrite El.
    unfold k1, k2. field. lra. }
  rewrite Eg.
  apply (is_derive_ext_loc (fun t => c * (Tt t / St t - ln (St t)))).
  { generalize (line_keeps_sign x d Ld Hnz). apply filter_imp. intros t Ht. unfold entropy.
    assert (Ly : length (vadd x (vscale t d)) = n) by (apply line_point_length; exact Ld).
    destruct (entropy_profile (vadd x (vscale t d)) (fun i => u i t)) as [_ E].
    - intros E. apply (f_equal (@length R)) in E. rewrite Ly in E. destruct x; [congruence|]. unfold n in E. simpl in E. lia.
    - intros k Hk. rewrite Ly in Hk. rewrite line_nth by (auto; lia). apply abs_of_sign; [apply Hnz; exact Hk|apply Ht; exact Hk].
    - rewrite Ly in E. symmetry. f_equal. exact E. }
  apply is_derive_cmult. apply (is_derive_ent Tt St).
  - unfold Tt. apply (is_derive_vsum_map (fun i t => u i t * ln (u i t)) (fun i => sg (nth i x 0) * nth i d 0 * (ln (u i 0) + 1))).
    intros i Hi. apply in_seq in Hi. pose proof (Up i ltac:(lia)) as Hpos. unfold u in *. auto_derive; [exact Hpos|].
    rewrite Rmult_0_l, Rplus_0_r in *. field. split; intros E; rewrite E in Hpos; lra.
  - unfold St. apply (is_derive_vsum_map (fun i t => u i t) (fun i => sg (nth i x 0) * nth i d 0)).
    intros i Hi. unfold u. auto_derive; [exact I|ring].
  - exact Sp.
Qed.

(* ---------------- CobbDouglas ---------------- *)
Lemma Rpw_pos_exp u e : 0 < u -> Rpw u e = exp (e * ln u).
Proof.
  intros Hu. unfold Rpw. destruct (Req_EM_T (IZR (up e - 1)) e) as [E|E]; [|reflexivity].
  rewrite powerRZ_Rpower by exact Hu. rewrite E. reflexivity.
Qed.

Definition positive (x : list R) : Prop := forall k, (k < length x)%nat -> 0 < nth k x 0.

Lemma rprod_pow_closed (A : R) : forall (y a : list R), length a = length y -> positive y ->
  rprod (map2 (fun v e => Rpw v (e / A)) y a) = exp (vsum (map (fun i => nth i a 0 / A * ln (nth i y 0)) (seq 0 (length y)))).
Proof.
  induction y as [|v y IH]; intros [|e a] HL Hp; simpl in HL; try lia.
  - simpl. change (vsum (A:=R) []) with 0. rewrite exp_0. reflexivity.
  - cbn [map2 rprod fold_right length seq map]. rewrite vsum_cons, exp_plus. cbn [nth].
    rewrite Rpw_pos_exp by (apply (Hp 0%nat); simpl; lia). f_equal.
    change (fold_right Rmult 1 (map2 (fun v0 e0 => Rpw v0 (e0 / A)) y a)) with (rprod (map2 (fun v0 e0 => Rpw v0 (e0 / A)) y a)).
    rewrite IH; [|lia|intros k Hk; apply (Hp (S k)); simpl; lia]. f_equal. rewrite <- seq_shift, map_map. reflexivity.
Qed.

Lemma line_keeps_positive (x d : list R) : length d = length x -> positive x ->
  locally 0 (fun t : R => forall k, (k < length x)%nat -> 0 < nth k x 0 + t * nth k d 0).
Proof.
  intros Ld Hp.
  assert (Hnz : nonzero x) by (intros k Hk E; specialize (Hp k Hk); lra).
  generalize (line_keeps_sign x d Ld Hnz). apply filter_imp. intros t Ht k Hk. specialize (Ht k Hk). specialize (Hp k Hk).
  assert (E : sg (nth k x 0) = 1) by (unfold sg; rewrite Rabs_pos_eq by lra; field; lra). rewrite E in Ht. lra.
Qed.

Theorem cobb_total_derivative c (a x : list R) : length a = length x -> positive x -> dir_at (cobb c a) (cobb_grad c a x) x.
Proof.
  intros La Hp d Ld. set (n := length x). set (A := vsum a).
  set (L := fun t : R => vsum (map (fun i => nth i a 0 / A * ln (nth i x 0 + t * nth i d 0)) (seq 0 n))).
  assert (E0 : cobb c a x = c * exp (L 0)).
  { unfold cobb. fold A. rewrite rprod_pow_closed by auto. f_equal. f_equal. unfold L. fold n. apply vsum_map_ext. intros i _.
    now rewrite Rmult_0_l, Rplus_0_r. }
  assert (Eg : dot (cobb_grad c a x) d = c * (exp (L 0) * vsum (map (fun i => nth i a 0 / A * (nth i d 0 / nth i x 0)) (seq 0 n)))).
  { assert (LG : length (cobb_grad c a x) = length d) by (unfold cobb_grad; rewrite map2_length; lia).
    rewrite (dot_as_seq _ d LG), LG, Ld. fold n. rewrite <- !vsum_map_scal. apply vsum_map_ext. intros i Hi. apply in_seq in Hi.
    unfold cobb_grad. fold A. rewrite E0.
    assert (En : forall (y b : list R) k, length b = length y -> (k < length y)%nat ->
                   nth k (map2 (fun v e => e / A * (c * exp (L 0)) / v) y b) 0 = nth k b 0 / A * (c * exp (L 0)) / nth k y 0).
    { induction y as [|v y IH]; intros [|e b] k HL Hk; simpl in HL, Hk; try lia. destruct k; [reflexivity|]. cbn [map2 nth]. apply IH; lia. }
    assert (Hi' : (i < length x)%nat) by (fold n; lia).
    rewrite En by auto. specialize (Hp i Hi'). generalize (nth i a 0 / A). intros q. field. lra. }
  rewrite Eg.
  apply (is_derive_ext_loc (fun t => c * exp (L t))).
  { generalize (line_keeps_positive x d Ld Hp). apply filter_imp. intros t Ht. unfold cobb. fold A.
    assert (Hn : forall i, (i < n)%nat -> nth i (vadd x (vscale (t : R) d)) 0 = nth i x 0 + t * nth i d 0) by (intros i Hi; apply line_nth; auto).
    assert (Ly : length (vadd x (vscale (t : R) d)) = n) by (apply line_point_length; exact Ld).
    remember (vadd x (vscale (t : R) d)) as y eqn:Ey. clear Ey.
    rewrite rprod_pow_closed.
    - rewrite Ly. f_equal. f_equal. unfold L. apply vsum_map_ext. intros i Hi. apply in_seq in Hi. rewrite Hn by lia. reflexivity.
    - lia.
    - intros k Hk. rewrite Ly in Hk. rewrite Hn by lia. apply Ht. exact Hk. }
  apply is_derive_cmult.
  assert (DL : is_derive L 0 (vsum (map (fun i => nth i a 0 / A * (nth i d 0 / nth i x 0)) (seq 0 n)))).
  { unfold L. apply (is_derive_vsum_map (fun i t => nth i a 0 / A * ln (nth i x 0 + t * nth i d 0)) (fun i => nth i a 0 / A * (nth i d 0 / nth i x 0))).
    intros i Hi. apply in_seq in Hi. assert (Hi' : (i < length x)%nat) by (fold n; lia). specialize (Hp i Hi'). generalize (nth i a 0 / A). intros q. auto_derive.
    - rewrite Rmult_0_l, Rplus_0_r. exact Hp.
    - rewrite Rmult_0_l, Rplus_0_r. field. lra. }
  pose proof (is_derive_comp exp L 0 (exp (L 0)) _ (is_derive_exp (L 0)) DL) as D.
  unfold scal in D; simpl in D; unfold mult in D; simpl in D. rewrite Rmult_comm. exact D.
Qed.

(* ---------------- as the preference function of an ADevice: cost f(s) + <s,p>, marginal cost f.deriv(s) + p ---------------- *)
Lemma dir_price (p x : list R) : length p = length x -> dir_at (fun s => dot s p) p x.
Proof.
  intros Lp d Ld. apply (is_derive_ext (fun t => dot x p + t * dot d p)).
  { intros t. rewrite dot_vadd_l by (rewrite vscale_length; lia). now rewrite dot_vscale_l. }
  rewrite (dot_comm p d). auto_derive; [exact I|ring].
Qed.

Theorem adevice_any_function_total (F : list R -> R) (g p x : list R) : length g = length x -> length p = length x ->
  dir_at F g x -> dir_at (fun s => F s + dot s p) (vadd g p) x.
Proof. intros Lg Lp D. apply dir_plus; auto. now apply dir_price. Qed.

(* non-vacuity: concrete flows meeting the hypotheses *)
Example tvar_example : dir_at (tvar 2) (tvar_grad 2 [1; 2; 3]) [1; 2; 3].
Proof. apply tvar_total_derivative. unfold vsum; cbn. lra. Qed.
Example entropy_example : dir_at (entropy 1) (entropy_grad 1 [3; -4]) [3; -4].
Proof. apply entropy_total_derivative; [discriminate|]. intros [|[|k]] Hk; simpl in *; try lra; lia. Qed.
Example cobb_example : dir_at (cobb 1 [1; 2]) (cobb_grad 1 [1; 2] [5 / 2; 7 / 4]) [5 / 2; 7 / 4].
Proof. apply cobb_total_derivative; [reflexivity|]. intros [|[|k]] Hk; simpl in *; try lra; lia. Qed.
