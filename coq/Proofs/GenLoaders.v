(* Gen/Loaders.v (regenerated from loaders/builder_loader.py and utils.py on every run) = Model/Loader.v.
   run_to_array / run_to_cbounds_array: for run dictionaries whose keys are distinct after int() (NoDup (map fst l)); the enumerate
   loop with its index arithmetic (`int(points[i+1]) if i < len(points) - 1 else run['basis']`) is the recursion on the sorted runs.
   on2bounds: for an even number of interval end points (Python raises IndexError on an odd one); the range(0, n, 2) loop of slice
   assignments is the membership test is_on.  care2bounds: unconditional. *)
From Coq Require Import String.
From Coq Require Import ZArith List Bool Arith Lia.
From DK Require Import Num Vec.
From DK.Model Require Import Leaf Loader LoaderOps.
From DK.Gen Require Import Loaders.
Import ListNotations.

Notation len := List.length.

Section Runs.
  Context {V : Type}.
  Implicit Types (l pts pre suf : runs V).

  Lemma insert_nat_map p l : insert_nat (fst p) (map fst l) = map fst (insert_run p l).
  Proof.
    induction l as [|q l IH]; simpl; [reflexivity|].
    destruct (fst p <=? fst q)%nat; simpl; [reflexivity|]. now rewrite IH.
  Qed.
  Lemma sorted_keys_sort l : sorted_keys l = map fst (sort_runs l).
  Proof.
    unfold sorted_keys, sort_runs. induction l as [|p l IH]; simpl; [reflexivity|]. now rewrite IH, insert_nat_map.
  Qed.

  Lemma rlookup_in k v l : NoDup (map fst l) -> In (k, v) l -> rlookup k l = Some v.
  Proof.
    induction l as [|[k' v'] l IH]; intros Hnd Hin; [destruct Hin|]. simpl in *.
    inversion Hnd as [|x xs Hnotin Hnd']; subst.
    destruct Hin as [Heq|Hin].
    - injection Heq as -> ->. now rewrite Nat.eqb_refl.
    - destruct (Nat.eqb_spec k k') as [->|Hne]; [|now apply IH].
      exfalso. apply Hnotin. change k' with (fst (k', v)). now apply in_map.
  Qed.
  Lemma rlookup_has_zero l : has_zero l = match rlookup 0 l with Some _ => true | None => false end.
  Proof.
    unfold has_zero. induction l as [|[k v] l IH]; simpl; [reflexivity|].
    destruct k; simpl; [reflexivity|exact IH].
  Qed.

  Lemma insert_run_in p q l : In q (insert_run p l) <-> q = p \/ In q l.
  Proof.
    induction l as [|r l IH]; simpl; [intuition|].
    destruct (fst p <=? fst r)%nat; simpl; [intuition|]. rewrite IH. intuition.
  Qed.
  Lemma sort_runs_in q l : In q (sort_runs l) <-> In q l.
  Proof. unfold sort_runs. induction l as [|p l IH]; simpl; [tauto|]. rewrite insert_run_in, IH. intuition. Qed.

  (* the index arithmetic of the loop: the end of run number |pre| *)
  Definition end_of (points : list nat) (basis i : nat) : nat :=
    if (Z.of_nat i <? Z.of_nat (len points) - Z.of_nat 1)%Z then nth (i + 1) points 0%nat else basis.

  Lemma end_of_next pre p suf basis :
    end_of (map fst (pre ++ p :: suf)) basis (len pre) = next_start suf basis.
  Proof.
    unfold end_of. rewrite map_length, app_length. cbn [length].
    destruct suf as [|[s1 v1] suf]; cbn [next_start length].
    - match goal with |- (if ?c then _ else _) = _ => destruct c eqn:E end; [exfalso; apply Z.ltb_lt in E; clear -E; lia|reflexivity].
    - match goal with |- (if ?c then _ else _) = _ => destruct c eqn:E end; [|exfalso; apply Z.ltb_ge in E; clear -E; lia].
      rewrite map_app. rewrite app_nth2 by (rewrite map_length; lia). rewrite map_length.
      replace (len pre + 1 - len pre)%nat with 1%nat by lia. reflexivity.
  Qed.

  (* the array loop, started after the runs of [pre] *)
  Lemma array_loop zero basis l : forall suf pre arr,
    (forall k v, In (k, v) suf -> rget zero k l = v) ->
    fold_left (fun _array '(i, v) => assign _array v (end_of (map fst (pre ++ suf)) basis i) (rget zero v l))
              (combine (seq (len pre) (len suf)) (map fst suf)) arr
    = fill arr suf basis.
  Proof.
    induction suf as [|[st v] rest IH]; intros pre arr Hget; simpl; [reflexivity|].
    rewrite (end_of_next pre (st, v) rest basis).
    rewrite (Hget st v) by now left.
    specialize (IH (pre ++ [(st, v)]) (assign arr st (next_start rest basis) v)).
    rewrite <- app_assoc in IH. simpl in IH. rewrite app_length in IH. simpl in IH.
    replace (len pre + 1)%nat with (S (len pre)) in IH by lia.
    apply IH. intros k w Hin. apply Hget. now right.
  Qed.

  Theorem gen_run_to_array zero basis l : NoDup (map fst l) ->
    run_to_array_gen zero basis l = run_to_array zero basis l.
  Proof.
    intros Hnd. unfold run_to_array_gen, run_to_array. rewrite rlookup_has_zero.
    destruct (rlookup 0 l) as [tpl|]; [|reflexivity]. f_equal.
    unfold enumerate. rewrite sorted_keys_sort, map_length.
    pose proof (array_loop zero basis l (sort_runs l) [] (repeat zero basis)) as HL. simpl in HL.
    unfold end_of in HL. rewrite map_length in HL. apply HL.
    intros k v Hin. unfold rget. rewrite (rlookup_in k v l Hnd); [reflexivity|]. now apply sort_runs_in.
  Qed.
End Runs.

Section Loaders.
  Context {A : Type} `{Num A}.
  Local Open Scope num_scope.

  Lemma cbounds_loop basis (l : runs (A * A)) : forall suf pre acc,
    (forall k v, In (k, v) suf -> rget (n0, n0) k l = v) ->
    fold_left (fun _array '(i, v) => let '(lo, hi) := rget (n0, n0) v l in
                 _array ++ [(lo, hi, v, end_of (map fst (pre ++ suf)) basis i)])
              (combine (seq (len pre) (len suf)) (map fst suf)) acc
    = acc ++ cb_fill suf basis.
  Proof.
    induction suf as [|[st [lo hi]] rest IH]; intros pre acc Hget; simpl; [now rewrite app_nil_r|].
    rewrite (end_of_next pre (st, (lo, hi)) rest basis).
    rewrite (Hget st (lo, hi)) by now left.
    specialize (IH (pre ++ [(st, (lo, hi))]) (acc ++ [(lo, hi, st, next_start rest basis)])).
    rewrite <- app_assoc in IH. simpl in IH. rewrite app_length in IH. simpl in IH.
    replace (len pre + 1)%nat with (S (len pre)) in IH by lia.
    rewrite IH; [now rewrite <- app_assoc|]. intros k w Hin. apply Hget. now right.
  Qed.

  Theorem gen_run_to_cbounds basis (l : runs (A * A)) : NoDup (map fst l) ->
    run_to_cbounds_array_gen basis l = run_to_cbounds basis l.
  Proof.
    intros Hnd. unfold run_to_cbounds_array_gen, run_to_cbounds.
    unfold enumerate. rewrite sorted_keys_sort, map_length.
    pose proof (cbounds_loop basis l (sort_runs l) [] []) as HL. simpl in HL.
    unfold end_of in HL. rewrite map_length in HL. apply HL.
    intros k v Hin. unfold rget. rewrite (rlookup_in k v l Hnd); [reflexivity|]. now apply sort_runs_in.
  Qed.

  (* ---- the mask helpers ---- *)
  Lemma map_combine_same {B C} (f : B -> C) (g : B -> C) (xs : list B) :
    combine (map f xs) (map g xs) = map (fun x => (f x, g x)) xs.
  Proof. induction xs as [|x xs IH]; simpl; [reflexivity|]. now rewrite IH. Qed.

  Lemma gen_mask_bounds (mask : list A) (b : list (param A)) :
    (if (len b =? 2)%nat then stack_cols (mask_mul_item mask (nth 0 b (PS n0))) (mask_mul_item mask (nth 1 b (PS n0)))
     else stack_cols (mask_mul_seq mask b) (mask_mul_seq mask b)) = mask_bounds mask b.
  Proof.
    unfold stack_cols, mask_mul_item, mask_mul_seq, mask_bounds.
    destruct b as [|b0 [|b1 [|b2 b]]]; simpl; rewrite map_combine_same; apply map_ext; intros [i c]; reflexivity.
  Qed.

  Theorem gen_care2bounds (care : list A) (b : list (param A)) : care2bounds_gen care b = care2bounds care b.
  Proof. unfold care2bounds_gen, care2bounds. apply gen_mask_bounds. Qed.

  (* ---- on2bounds: the loop over range(0, len(on), 2) ---- *)
  Definition paint (vec : list A) (on : list nat) : list A :=
    map (fun '(t, x) => if is_on on t then n1 else x) (combine (seq 0 (len vec)) vec).

  Lemma range_step2_SS n : range_step2 (S (S n)) = 0%nat :: map (fun i => S (S i)) (range_step2 n).
  Proof.
    unfold range_step2. replace ((S (S n) + 1) / 2)%nat with (S ((n + 1) / 2)).
    2:{ replace (S (S n) + 1)%nat with ((n + 1) + 1 * 2)%nat by lia. rewrite Nat.div_add by lia. lia. }
    simpl seq. simpl map. f_equal. rewrite <- seq_shift, !map_map. apply map_ext. intros k. lia.
  Qed.

  Lemma nth_combine_seq (vec : list A) t d : (t < len vec)%nat -> nth t (combine (seq 0 (len vec)) vec) (0%nat, d) = (t, nth t vec d).
  Proof.
    intros Ht. rewrite combine_nth by now rewrite seq_length. now rewrite seq_nth.
  Qed.

  Lemma assign_as_map (vec : list A) a b :
    assign vec a b n1 = map (fun '(t, x) => if (a <=? t)%nat && (t <? b)%nat then n1 else x) (combine (seq 0 (len vec)) vec).
  Proof. reflexivity. Qed.

  Lemma nth_map_enum {B} (f : nat -> A -> B) : forall (arr : list A) a t d d',
    (t < len arr)%nat -> nth t (map (fun '(i, x) => f i x) (combine (seq a (len arr)) arr)) d' = f (a + t)%nat (nth t arr d).
  Proof.
    induction arr as [|x arr IH]; intros a t d d' Ht; simpl in Ht; [lia|].
    destruct t as [|t]; simpl; [now rewrite Nat.add_0_r|]. rewrite (IH (S a) t d d') by lia. f_equal. lia.
  Qed.

  Lemma paint_length vec on : len (paint vec on) = len vec.
  Proof. unfold paint. rewrite map_length, combine_length, seq_length. lia. Qed.

  Lemma paint_nth vec on t d : (t < len vec)%nat -> nth t (paint vec on) d = if is_on on t then n1 else nth t vec d.
  Proof. intros Ht. unfold paint. now rewrite (nth_map_enum (fun t0 x => if is_on on t0 then n1 else x) vec 0 t d d Ht). Qed.

  Lemma list_ind2_nat (P : list nat -> Prop) : P [] -> (forall a, P [a]) -> (forall a b l, P l -> P (a :: b :: l)) -> forall l, P l.
  Proof. intros H0 H1 H2. fix IH 1. intros [|a [|b l]]; [exact H0|apply H1|apply H2, IH]. Qed.
  Lemma fold_left_map_in {X Y Z} (f : X -> Z -> X) (g : Y -> Z) l : forall x, fold_left f (map g l) x = fold_left (fun a y => f a (g y)) l x.
  Proof. induction l as [|y l IH]; intros x; simpl; [reflexivity|apply IH]. Qed.
  Lemma fold_left_ext_in {X Y} (f g : X -> Y -> X) l : (forall a y, f a y = g a y) -> forall x, fold_left f l x = fold_left g l x.
  Proof. intros E. induction l as [|y l IH]; intros x; simpl; [reflexivity|]. now rewrite E, IH. Qed.

  Lemma on_loop : forall on vec, Nat.even (len on) = true ->
    fold_left (fun v i => assign v (nth i on 0%nat) (nth (i + 1) on 0%nat + 1) n1) (range_step2 (len on)) vec = paint vec on.
  Proof.
    intros on. induction on as [|a|a b rest IH] using list_ind2_nat; intros vec Hev.
    - simpl. unfold paint, is_on. simpl. rewrite <- (map_id vec) at 1.
      clear Hev. generalize 0%nat. induction vec as [|x vec IHv]; intros k; simpl; [reflexivity|]. now rewrite <- IHv.
    - discriminate Hev.
    - simpl len. rewrite range_step2_SS. simpl fold_left.
      rewrite fold_left_map_in.
      rewrite (fold_left_ext_in _ (fun v i => assign v (nth i rest 0%nat) (nth (i + 1) rest 0%nat + 1) n1)) by (intros; reflexivity).
      rewrite IH by exact Hev.
      apply nth_ext with (d := n0) (d' := n0).
      + rewrite !paint_length. unfold assign. rewrite map_length, combine_length, seq_length. lia.
      + intros t Ht. rewrite paint_length in Ht.
        assert (Hl : len (assign vec a (b + 1) n1) = len vec) by (unfold assign; rewrite map_length, combine_length, seq_length; lia).
        rewrite Hl in Ht. rewrite !paint_nth by (rewrite ?Hl; exact Ht).
        unfold is_on. simpl on_pairs. simpl existsb.
        rewrite assign_as_map.
        rewrite (nth_map_enum (fun t0 x => if (a <=? t0)%nat && (t0 <? b + 1)%nat then n1 else x) vec 0 t n0 n0 Ht). simpl Nat.add.
        replace (t <? b + 1)%nat with (t <=? b)%nat by (destruct (Nat.leb_spec t b), (Nat.ltb_spec t (b + 1)); lia).
        destruct ((a <=? t)%nat && (t <=? b)%nat), (existsb _ (on_pairs rest)); reflexivity.
  Qed.

  Lemma paint_zeros l on : paint (repeat n0 l) on = on_vector l on.
  Proof.
    apply nth_ext with (d := n0) (d' := n0).
    - rewrite paint_length, repeat_length. unfold on_vector. now rewrite map_length, seq_length.
    - intros t Ht. rewrite paint_length, repeat_length in Ht.
      rewrite paint_nth by (now rewrite repeat_length). unfold on_vector.
      rewrite (nth_indep (map (fun t0 => if is_on on t0 then n1 else n0) (seq 0 l)) n0 ((fun t0 => if is_on on t0 then n1 else n0) 0%nat))
        by (rewrite map_length, seq_length; exact Ht).
      rewrite (map_nth (fun t0 => if is_on on t0 then n1 else n0)), seq_nth by exact Ht. simpl.
      destruct (is_on on t); [reflexivity|]. apply nth_repeat.
  Qed.

  Theorem gen_on2bounds l on (b : list (param A)) : Nat.even (len on) = true -> on2bounds_gen l on b = on2bounds l on b.
  Proof.
    intros Hev. unfold on2bounds_gen, on2bounds. cbv zeta.
    rewrite (on_loop on (repeat n0 l) Hev), paint_zeros. apply gen_mask_bounds.
  Qed.

  (* ---- the per-kind loaders ---- *)
  Definition runs_ok (d : bdev A) : Prop :=
    NoDup (map fst (b_bounds d)) /\ match b_cum d with Some r => NoDup (map fst r) | None => True end.

  Lemma gen_load_cbounds basis (d : bdev A) : runs_ok d -> load_cbounds_gen basis d = option_map (run_to_cbounds basis) (b_cum d).
  Proof.
    intros [_ Hc]. unfold load_cbounds_gen. destruct (b_cum d) as [r|]; simpl; [|reflexivity]. now rewrite gen_run_to_cbounds.
  Qed.

  Lemma construct_id_dev (d : bdev A) c t cb ps clip : construct_id (dev_id d) c t cb ps clip = construct d c t cb ps clip.
  Proof. reflexivity. Qed.

  Lemma swap_neg (t : list (A * A)) : stack_cols (map snd (table_neg t)) (map fst (table_neg t)) = neg_swap t.
  Proof.
    unfold stack_cols, table_neg, neg_swap. induction t as [|[l h] t IH]; simpl; [reflexivity|]. now rewrite IH.
  Qed.

  Lemma all_differ (t : list (A * A)) :
    forallb (fun b => b) (map (fun ab => negb (fst ab =? snd ab)) (combine (map fst t) (map snd t))) = forallb (fun '(l, h) => negb (l =? h)) t.
  Proof. induction t as [|[l h] t IH]; simpl; [reflexivity|]. now rewrite IH. Qed.

  Lemma remap_params (ps : list (string * A)) : remap storage_map ps = map_params ps.
  Proof. unfold remap, map_params. apply flat_map_ext. intros [k v]. reflexivity. Qed.

  Lemma clip_params (ps : list (string * A)) :
    (match pget "disChargeRateClippingFactor" ps with Some v => Some v | None => None end,
     match pget "chargeRateClippingFactor" ps with Some v => Some v | None => None end) = clip_of ps.
  Proof. unfold clip_of, pget. destruct (assoc _ ps), (assoc _ ps); reflexivity. Qed.

  Theorem gen_load_device basis (d : bdev A) : runs_ok d -> load_device_gen basis d = load_device basis d.
  Proof.
    intros Hok. pose proof (gen_load_cbounds basis d Hok) as Hcb. destruct Hok as [Hb _].
    unfold load_device_gen.
    destruct (b_kind d) eqn:Hk; [unfold load_device; rewrite Hk ..|reflexivity].
    - unfold load_load_device_gen. cbv zeta. rewrite (gen_run_to_array (n0, n0) basis (b_bounds d) Hb).
      destruct (run_to_array (n0, n0) basis (b_bounds d)) as [t| |]; simpl; [|reflexivity|reflexivity].
      rewrite Hcb. apply construct_id_dev.
    - unfold load_fixed_load_device_gen. cbv zeta. rewrite (gen_run_to_array (n0, n0) basis (b_bounds d) Hb).
      destruct (run_to_array (n0, n0) basis (b_bounds d)) as [t| |]; simpl; [|reflexivity|reflexivity].
      rewrite all_differ. destruct (forallb _ t); [reflexivity|]. apply construct_id_dev.
    - unfold load_supply_device_gen. cbv zeta. rewrite (gen_run_to_array (n0, n0) basis (b_bounds d) Hb).
      destruct (run_to_array (n0, n0) basis (b_bounds d)) as [t| |]; simpl; [|reflexivity|reflexivity].
      rewrite Hcb, swap_neg. apply construct_id_dev.
    - unfold load_storage_device_gen. cbv zeta. rewrite (gen_run_to_array (n0, n0) basis (b_bounds d) Hb).
      destruct (run_to_array (n0, n0) basis (b_bounds d)) as [t| |]; simpl; [|reflexivity|reflexivity].
      change (remap _ (b_params d)) with (remap storage_map (b_params d)).
      rewrite remap_params, clip_params. apply construct_id_dev.
  Qed.

  Lemma load_data_fold basis : forall (ds : list (bdev A)) pre, Forall runs_ok ds ->
    fold_left (fun acc d => obind acc (fun devices => obind (load_device_gen basis d) (fun x => Accept (devices ++ [x])))) ds (Accept pre)
    = obind (load_data basis ds) (fun xs => Accept (pre ++ xs)).
  Proof.
    induction ds as [|d ds IH]; intros pre Hok; simpl.
    - now rewrite app_nil_r.
    - inversion Hok as [|d' ds' Hd Hds]; subst. rewrite (gen_load_device basis d Hd).
      destruct (load_device basis d) as [x| |]; simpl.
      + rewrite (IH (pre ++ [x]) Hds). destruct (load_data basis ds) as [xs| |]; simpl; [now rewrite <- app_assoc|reflexivity|reflexivity].
      + clear IH Hok Hds. induction ds as [|d2 ds IH2]; simpl; [reflexivity|exact IH2].
      + clear IH Hok Hds. induction ds as [|d2 ds IH2]; simpl; [reflexivity|exact IH2].
  Qed.

  Theorem gen_load_data basis (ds : list (bdev A)) : Forall runs_ok ds -> load_data_gen basis ds = load_data basis ds.
  Proof.
    intros Hok. unfold load_data_gen. rewrite (load_data_fold basis ds [] Hok).
    destruct (load_data basis ds); reflexivity.
  Qed.
End Loaders.
