(* C09: storage and thermal state follow the documented first-order recurrences (all lengths, induction). *)
From Coq Require Import ZArith Reals List Bool Arith Lia Lra.
From DK Require Import Num NumR Vec.
From DK.Model Require Import Leaf Fn Dev StateSpec.
From DK.Proofs Require Import VecFacts RVec.
Import ListNotations.
Local Open Scope R_scope.

(* ---- the sustainment matrix ---------------------------------------------------------------------- *)
Lemma npown_pow (s : R) k : npown s k = s ^ k.
Proof. induction k as [|k IH]; simpl; numR; [reflexivity|now rewrite IH]. Qed.

Lemma nth_map_seq {B} (f : nat -> B) a n k d : (k < n)%nat -> nth k (map f (seq a n)) d = f (a + k)%nat.
Proof.
  intros Hk. rewrite (nth_indep _ d (f 0%nat)) by (now rewrite map_length, seq_length).
  rewrite (map_nth f). now rewrite seq_nth.
Qed.

Lemma sust_row_length (s : R) n i : length (sust_row s n i) = n.
Proof. unfold sust_row. now rewrite map_length, seq_length. Qed.

Lemma sust_row_nth (s : R) n i j : (j < n)%nat ->
  nth j (sust_row s n i) 0 = if (j <=? i)%nat then s ^ (i - j) else 0.
Proof.
  intros Hj. unfold sust_row.
  rewrite nth_map_seq by auto. simpl. rewrite npown_pow. reflexivity.
Qed.

Lemma sust_matrix_nth (s : R) n i j : (i < n)%nat -> (j < n)%nat ->
  nth j (nth i (sust_matrix s n) []) 0 = if (j <=? i)%nat then s ^ (i - j) else 0.
Proof.
  intros Hi Hj. unfold sust_matrix.
  rewrite nth_map_seq by auto. simpl. now apply sust_row_nth.
Qed.

Lemma sust_matrix_shape (s : R) n : length (sust_matrix s n) = n /\ forall row, In row (sust_matrix s n) -> length row = n.
Proof.
  unfold sust_matrix. split; [now rewrite map_length, seq_length|].
  intros row Hin. apply in_map_iff in Hin. destruct Hin as (i & <- & _). apply sust_row_length.
Qed.

(* ---- one row against an inflow vector: the step of the recurrence --------------------------------- *)
Definition row_from (s : R) (a m i : nat) : list R :=
  map (fun j => if (j <=? i)%nat then npown s (i - j) else n0) (seq a m).

Lemma row_from_step s (u : list R) : forall a i,
  dot (row_from s a (length u) (S i)) u
  = s * dot (row_from s a (length u) i) u
    + (if (a <=? S i)%nat && (S i <? a + length u)%nat then nth (S i - a) u 0 else 0).
Proof.
  induction u as [|x u IH]; intros a i.
  - assert (E : (a <=? S i)%nat && (S i <? a + length (@nil R))%nat = false).
    { simpl length. destruct (a <=? S i)%nat eqn:E1; [|reflexivity]. apply Nat.leb_le in E1.
      simpl. apply Nat.ltb_ge. lia. }
    rewrite E. unfold dot; simpl. numR. ring.
  - cbn [length row_from seq map]. fold (row_from s (S a) (length u) (S i)). fold (row_from s (S a) (length u) i).
    rewrite !dot_cons. rewrite IH.
    destruct (Nat.le_gt_cases a i) as [Hle|Hgt].
    + (* a <= i : the head weights are s^(S i - a) and s^(i - a) *)
      replace (a <=? S i)%nat with true by (symmetry; apply Nat.leb_le; lia).
      replace (a <=? i)%nat with true by (symmetry; apply Nat.leb_le; lia).
      replace (S i - a)%nat with (S (i - a)) by lia.
      replace (S a <=? S i)%nat with true by (symmetry; apply Nat.leb_le; lia).
      replace (S i <? a + S (length u))%nat with (S i <? S a + length u)%nat by (f_equal; lia).
      cbn [andb]. rewrite !npown_pow. cbn [nth].
      replace (S i - S a)%nat with (i - a)%nat by lia.
      rewrite ?npown_pow. simpl pow. rewrite (npown_pow s (i - a)). ring.
    + destruct (Nat.eq_dec a (S i)) as [->|Hne].
      * (* a = S i : the diagonal entry *)
        replace (S i <=? S i)%nat with true by (symmetry; apply Nat.leb_le; lia).
        replace (S i <=? i)%nat with false by (symmetry; apply Nat.leb_gt; lia).
        replace (S (S i) <=? S i)%nat with false by (symmetry; apply Nat.leb_gt; lia).
        replace (S i <? S i + S (length u))%nat with true by (symmetry; apply Nat.ltb_lt; lia).
        cbn [andb]. rewrite Nat.sub_diag. cbn [npown nth]. numR. ring.
      * (* a > S i : above the diagonal, nothing *)
        replace (a <=? S i)%nat with false by (symmetry; apply Nat.leb_gt; lia).
        replace (a <=? i)%nat with false by (symmetry; apply Nat.leb_gt; lia).
        replace (S a <=? S i)%nat with false by (symmetry; apply Nat.leb_gt; lia).
        cbn [andb]. numR. ring.
Qed.

Lemma row_from_zero_above s (u : list R) : forall a i, (i < a)%nat -> dot (row_from s a (length u) i) u = 0.
Proof.
  induction u as [|x u IH]; intros a i Hi; [reflexivity|].
  cbn [length row_from seq map]. fold (row_from s (S a) (length u) i). rewrite dot_cons.
  replace (a <=? i)%nat with false by (symmetry; apply Nat.leb_gt; lia). rewrite IH by lia. numR. ring.
Qed.

Lemma row_step s (u : list R) i : (S i < length u)%nat ->
  dot (sust_row s (length u) (S i)) u = s * dot (sust_row s (length u) i) u + nth (S i) u 0.
Proof.
  intros Hi. change (sust_row s (length u)) with (row_from s 0 (length u)). rewrite row_from_step.
  replace (S i <? 0 + length u)%nat with true by (symmetry; apply Nat.ltb_lt; lia). simpl.
  destruct u; reflexivity.
Qed.

Lemma row_start s (u : list R) : u <> [] -> dot (sust_row s (length u) 0) u = nth 0 u 0.
Proof.
  destruct u as [|x u]; [congruence|]. intros _. change (sust_row s (length (x :: u))) with (row_from s 0 (length (x :: u))).
  cbn [length row_from seq map]. fold (row_from s 1 (length u) 0). rewrite dot_cons, row_from_zero_above by lia.
  simpl. numR. ring.
Qed.

(* linearity of a row product in the inflow vector *)
Lemma dot_vadd_r (w u v : list R) : length u = length v ->
  dot w (vadd u v) = dot w u + dot w v.
Proof.
  revert u v; induction w as [|a w IH]; intros u v HL; [unfold dot; simpl; lra|].
  destruct u as [|x u], v as [|y v]; simpl in HL; try lia.
  - unfold dot; simpl; lra.
  - change (vadd (x :: u) (y :: v)) with ((x + y) :: vadd u v). rewrite !dot_cons, IH by lia. ring.
Qed.
Lemma dot_comm (u v : list R) : dot u v = dot v u.
Proof.
  revert v; induction u as [|x u IH]; intros [|y v]; try reflexivity. rewrite !dot_cons, IH. ring.
Qed.

(* ---- the closed form "base decay + matrix row" is the recurrence ------------------------------------ *)
Definition closed (b s : R) (u : list R) : list R :=
  vadd (base_soc b s (length u)) (map (fun i => dot (sust_row s (length u) i) u) (seq 0 (length u))).

Lemma closed_length b s u : length (closed b s u) = length u.
Proof. unfold closed, vadd, base_soc. rewrite map2_length, !map_length, seq_length. lia. Qed.

Lemma closed_nth b s u i : (i < length u)%nat ->
  nth i (closed b s u) 0 = b * s ^ (S i) + dot (sust_row s (length u) i) u.
Proof.
  intros Hi. unfold closed. rewrite nth_vadd by (unfold base_soc; rewrite map_length, seq_length; lia).
  unfold base_soc. rewrite !nth_map_seq by auto.
  simpl plus. rewrite npown_pow. numR. reflexivity.
Qed.

Lemma closed_start b s u : u <> [] -> nth 0 (closed b s u) 0 = s * b + nth 0 u 0.
Proof.
  intros Hne. rewrite closed_nth by (destruct u; [congruence|simpl; lia]). rewrite row_start by auto. simpl. ring.
Qed.
Lemma closed_step b s u i : (S i < length u)%nat ->
  nth (S i) (closed b s u) 0 = s * nth i (closed b s u) 0 + nth (S i) u 0.
Proof.
  intros Hi. rewrite !closed_nth by lia. rewrite row_step by auto. simpl. ring.
Qed.

(* any list obeying the two equations is the recurrence *)
Lemma rec_unique s : forall (u l : list R) prev, length l = length u ->
  (forall i, (i < length u)%nat -> nth i l 0 = s * (match i with O => prev | S k => nth k l 0 end) + nth i u 0) ->
  l = state_rec s prev u.
Proof.
  induction u as [|x u IH]; intros l prev HL Hrec.
  - destruct l; [reflexivity|discriminate].
  - destruct l as [|y l]; [discriminate|]. simpl in HL. cbn [state_rec].
    assert (Hy : y = s * prev + x) by (apply (Hrec 0%nat); simpl; lia).
    subst y. f_equal. apply IH; [lia|]. intros i Hi.
    specialize (Hrec (S i)). cbn [nth length] in Hrec. rewrite Hrec by lia. destruct i; reflexivity.
Qed.

Lemma closed_is_rec b s u : closed b s u = state_rec s b u.
Proof.
  apply rec_unique; [apply closed_length|]. intros [|i] Hi.
  - apply closed_start. destruct u; [simpl in Hi; lia|congruence].
  - now apply closed_step.
Qed.

(* ---- storage --------------------------------------------------------------------------------------- *)
Lemma effof_stored e r : r * effof (A:=R) e r = stored e r.
Proof.
  unfold effof, stored. numR. unfold Reqb, Rleb.
  destruct (Req_EM_T r 0) as [->|Hne].
  - destruct (Rlt_dec 0 0); [lra|]. ring.
  - destruct (Rle_dec 0 r) as [Hr|Hr]; destruct (Rlt_dec 0 r) as [Hp|Hp]; try lra; try reflexivity.
    destruct (Rlt_dec r 0); [|lra]. unfold Rdiv. ring.
Qed.
Lemma effv_stored e r : effv (A:=R) e r = map (stored e) r.
Proof. unfold effv. apply map_ext. intros x. numR. apply effof_stored. Qed.

Lemma sdev_charge_closed (q : sparams R) r :
  sdev_charge q r = closed (sp_start q * sp_capacity q) (sp_sus q) (map (stored (sp_eff q)) r).
Proof.
  unfold sdev_charge, closed, soc, sdev_base. rewrite effv_stored, map_length. numR. reflexivity.
Qed.

Lemma storage_is_recurrence (q : sparams R) r :
  sdev_charge q r = state_rec (sp_sus q) (sp_start q * sp_capacity q) (map (stored (sp_eff q)) r).
Proof. rewrite sdev_charge_closed. apply closed_is_rec. Qed.

Lemma nth_map_stored e r i : nth i (map (stored e) r) 0 = stored e (nth i r 0).
Proof.
  assert (Z : stored e 0 = 0).
  { unfold stored. destruct (Rlt_dec 0 0); [lra|reflexivity]. }
  rewrite <- Z at 1. apply map_nth.
Qed.

Lemma storage_start (q : sparams R) r : r <> [] ->
  nth 0 (sdev_charge q r) 0 = sp_sus q * (sp_start q * sp_capacity q) + stored (sp_eff q) (nth 0 r 0).
Proof.
  intros Hne. rewrite sdev_charge_closed, closed_start by (destruct r; [congruence|discriminate]).
  now rewrite nth_map_stored.
Qed.
Lemma storage_step (q : sparams R) r i : (S i < length r)%nat ->
  nth (S i) (sdev_charge q r) 0 = sp_sus q * nth i (sdev_charge q r) 0 + stored (sp_eff q) (nth (S i) r 0).
Proof.
  intros Hi. rewrite sdev_charge_closed, closed_step by (now rewrite map_length). now rewrite nth_map_stored.
Qed.
Lemma storage_length (q : sparams R) r : length (sdev_charge q r) = length r.
Proof. rewrite sdev_charge_closed, closed_length. apply map_length. Qed.

(* the soc(r, i) closure inside SDevice.constraints is the same state *)
Lemma constraint_state (q : sparams R) r i : (i < length r)%nat ->
  s_soc q (length r) r i = nth i (sdev_charge q r) 0.
Proof.
  intros Hi. rewrite sdev_charge_closed, closed_nth by (now rewrite map_length).
  unfold s_soc, sdev_base. rewrite effv_stored, map_length, npown_pow, dot_comm. numR. reflexivity.
Qed.

(* position of the state-of-charge constraints in the exported list *)
Lemma nth_pairs {B} (f g : nat -> B) (rest : list B) d : forall n a i, (i < n)%nat ->
  nth (2 * i) (flat_map (fun k => [f k; g k]) (seq a n) ++ rest) d = f (a + i)%nat /\
  nth (2 * i + 1) (flat_map (fun k => [f k; g k]) (seq a n) ++ rest) d = g (a + i)%nat.
Proof.
  induction n as [|n IH]; intros a i Hi; [lia|].
  destruct i as [|i].
  - simpl. rewrite Nat.add_0_r. auto.
  - replace (2 * S i)%nat with (S (S (2 * i))) by lia. replace (S (S (2 * i)) + 1)%nat with (S (S (2 * i + 1))) by lia.
    cbn [seq flat_map app nth]. destruct (IH (S a) i ltac:(lia)) as [E1 E2]. rewrite E1, E2.
    replace (S a + i)%nat with (a + S i)%nat by lia. auto.
Qed.

Lemma pairs_length {B} (f g : nat -> B) n a : length (flat_map (fun k => [f k; g k]) (seq a n)) = (2 * n)%nat.
Proof. revert a; induction n as [|n IH]; intros a; [reflexivity|]. cbn [seq flat_map app length]. rewrite IH. lia. Qed.

Lemma sdev_cons_soc (q : sparams R) bnd r i : (i < length r)%nat ->
  let cs := sdev_cons q (length r) bnd in
  let dflt := Build_con false (fun _ => 0) None in
  c_fun (nth (2 * i) cs dflt) r = nth i (sdev_charge q r) 0 /\
  c_fun (nth (2 * i + 1) cs dflt) r = sp_capacity q - nth i (sdev_charge q r) 0 /\
  c_fun (last cs dflt) r = nth (length r - 1) (sdev_charge q r) 0 - sp_capacity q * sp_reserve q.
Proof.
  intros Hi cs dflt. unfold cs, sdev_cons.
  match goal with |- context [flat_map ?F (seq 0 (length r)) ++ ?rest] =>
    destruct (nth_pairs (fun k => {| c_eq := false; c_fun := fun r0 => s_soc q (length r) r0 k; c_jac := Some (fun r0 => s_socjac q (length r) r0 k) |})
                        (fun k => {| c_eq := false; c_fun := fun r0 => (sp_capacity q - s_soc q (length r) r0 k)%num; c_jac := Some (fun r0 => vopp (s_socjac q (length r) r0 k)) |})
                        rest dflt (length r) 0%nat i Hi) as [E1 E2] end.
  rewrite E1, E2. cbn [c_fun plus]. rewrite constraint_state by auto. numR. split; [reflexivity|]. split; [reflexivity|].
  rewrite !app_assoc, last_last. cbn [c_fun]. rewrite constraint_state by lia. numR. reflexivity.
Qed.

(* ---- thermal ------------------------------------------------------------------------------------------ *)
Lemma effof_one (x : R) : x * effof (A:=R) 1 x = x.
Proof.
  unfold effof. numR. unfold Reqb, Rleb. destruct (Req_EM_T x 0); [ring|]. destruct (Rle_dec 0 x); [ring|]. field.
Qed.

Lemma vadd_map_stored s e : forall ext r, length ext = length r ->
  vadd (map (fun t => t * (1 - s)) ext) (map (stored e) r) = thermal_in s e ext r.
Proof.
  induction ext as [|t ext IH]; intros [|x r] HL; simpl in HL; try lia; [reflexivity|].
  cbn [map thermal_in]. change (vadd (?a :: ?l) (?b :: ?m)) with ((a + b) :: vadd l m). rewrite IH by lia. f_equal. ring.
Qed.

Lemma vadd_assoc_closed b s (u v : list R) : length u = length v ->
  vadd (vadd (base_soc b s (length v)) (map (fun i => dot (sust_row s (length u) i) u) (seq 0 (length u))))
       (map (fun i => dot (sust_row s (length v) i) v) (seq 0 (length v)))
  = closed b s (vadd u v).
Proof.
  intros HL. apply (nth_ext _ _ 0 0).
  - rewrite closed_length. unfold vadd, base_soc. rewrite !map2_length, !map_length, !seq_length. lia.
  - intros i Hi.
    assert (Hiv : (i < length v)%nat).
    { unfold vadd, base_soc in Hi. rewrite !map2_length, !map_length, !seq_length in Hi. lia. }
    assert (HLuv : length (vadd u v) = length v) by (unfold vadd; rewrite map2_length; lia).
    rewrite closed_nth by lia. rewrite HLuv.
    rewrite nth_vadd; [|unfold vadd, base_soc; rewrite !map2_length, !map_length, !seq_length; lia|rewrite map_length, seq_length; lia].
    rewrite nth_vadd; [|unfold base_soc; rewrite map_length, seq_length; lia|rewrite map_length, seq_length; lia].
    unfold base_soc. rewrite !nth_map_seq by lia.
    simpl plus. rewrite npown_pow, HL, dot_vadd_r by auto. numR. ring.
Qed.

Lemma tbase_closed (q : tparams R) n : length (tp_ext q) = n ->
  tdev_tbase q n = closed (tp_init q) (tp_sus q) (map (fun t => (1 - tp_sus q) * t) (tp_ext q)).
Proof.
  intros HL. unfold tdev_tbase, closed, soc. rewrite !map_length, HL. f_equal.
  assert (E : effv (n1 (A:=R)) (map (fun t => (t * (n1 - tp_sus q))%num) (tp_ext q)) = map (fun t => (1 - tp_sus q) * t) (tp_ext q)).
  { unfold effv. rewrite map_map. apply map_ext. intros t. numR. rewrite effof_one. ring. }
  rewrite E. reflexivity.
Qed.

Lemma r2t_closed (q : tparams R) r : length (tp_ext q) = length r ->
  tdev_r2t q r = closed (tp_init q) (tp_sus q) (thermal_in (tp_sus q) (tp_eff q) (tp_ext q) r).
Proof.
  intros HL. unfold tdev_r2t, tdev_tbase, soc. rewrite (effv_stored (tp_eff q) r).
  assert (E : effv (n1 (A:=R)) (map (fun t => (t * (n1 - tp_sus q))%num) (tp_ext q)) = map (fun t => t * (1 - tp_sus q)) (tp_ext q)).
  { unfold effv. rewrite map_map. apply map_ext. intros t. numR. now rewrite effof_one. }
  rewrite E. rewrite <- vadd_map_stored by auto.
  rewrite <- vadd_assoc_closed by (now rewrite !map_length). rewrite !map_length. reflexivity.
Qed.

Lemma thermal_is_recurrence (q : tparams R) r : length (tp_ext q) = length r ->
  tdev_r2t q r = state_rec (tp_sus q) (tp_init q) (thermal_in (tp_sus q) (tp_eff q) (tp_ext q) r).
Proof. intros HL. rewrite r2t_closed by auto. apply closed_is_rec. Qed.

Lemma thermal_in_length s e : forall ext r, length ext = length r -> length (thermal_in s e ext r) = length r.
Proof. induction ext as [|t ext IH]; intros [|x r] HL; simpl in *; try lia. rewrite IH; lia. Qed.
Lemma thermal_in_nth s e : forall ext r i, length ext = length r -> (i < length r)%nat ->
  nth i (thermal_in s e ext r) 0 = (1 - s) * nth i ext 0 + stored e (nth i r 0).
Proof.
  induction ext as [|t ext IH]; intros [|x r] i HL Hi; simpl in *; try lia.
  destruct i; [reflexivity|]. apply IH; lia.
Qed.

Lemma thermal_start (q : tparams R) r : length (tp_ext q) = length r -> r <> [] ->
  nth 0 (tdev_r2t q r) 0 = tp_sus q * tp_init q + (1 - tp_sus q) * nth 0 (tp_ext q) 0 + stored (tp_eff q) (nth 0 r 0).
Proof.
  intros HL Hne. assert (Hp : (0 < length r)%nat) by (destruct r; [congruence|simpl; lia]).
  rewrite r2t_closed, closed_start by (auto; intros E; apply (f_equal (@length R)) in E; rewrite thermal_in_length in E by auto; simpl in E; lia).
  rewrite thermal_in_nth by auto. ring.
Qed.
Lemma thermal_step (q : tparams R) r i : length (tp_ext q) = length r -> (S i < length r)%nat ->
  nth (S i) (tdev_r2t q r) 0
  = tp_sus q * nth i (tdev_r2t q r) 0 + (1 - tp_sus q) * nth (S i) (tp_ext q) 0 + stored (tp_eff q) (nth (S i) r 0).
Proof.
  intros HL Hi. rewrite r2t_closed, closed_step by (auto; rewrite thermal_in_length; auto).
  rewrite thermal_in_nth by auto. ring.
Qed.

Lemma stored_consumption e r : 0 <= r -> stored e r = e * r.
Proof. intros Hr. unfold stored. destruct (Rlt_dec 0 r); [ring|]. destruct (Rlt_dec r 0); [lra|]. assert (r = 0) by lra. subst; ring. Qed.
Lemma stored_cases e r : (0 < r -> stored e r = r * e) /\ (r < 0 -> stored e r = r / e) /\ (r = 0 -> stored e r = 0).
Proof.
  unfold stored. repeat split; intros Hr; destruct (Rlt_dec 0 r); destruct (Rlt_dec r 0); try lra; reflexivity.
Qed.

(* the base temperature is the same recurrence with no consumption *)
Lemma tbase_is_recurrence (q : tparams R) n : length (tp_ext q) = n ->
  tdev_tbase q n = state_rec (tp_sus q) (tp_init q) (map (fun t => (1 - tp_sus q) * t) (tp_ext q)).
Proof. intros HL. rewrite tbase_closed by auto. apply closed_is_rec. Qed.

(* non-vacuity: a lossy storage with a charge, a discharge and an idle slot *)
Lemma example_storage :
  state_rec (1/2) 4 (map (stored (1/2)) [1; -1; 0]) = [5/2; -3/4; -3/8].
Proof.
  assert (E1 : stored (1/2) 1 = 1/2) by (rewrite (proj1 (stored_cases _ _)); lra).
  assert (E2 : stored (1/2) (-1) = -2) by (rewrite (proj1 (proj2 (stored_cases _ _))); [field|lra]).
  assert (E3 : stored (1/2) 0 = 0) by (now rewrite (proj2 (proj2 (stored_cases _ _)))).
  cbn [map state_rec]. rewrite E1, E2, E3. f_equal; [lra|]. f_equal; [lra|]. f_equal; lra.
Qed.
