(* C15: the model (and, through the correspondence, the code) computes the documented closed forms. *)
From Coq Require Import ZArith Reals List Bool Arith Lia Lra.
From Coquelicot Require Import Coquelicot.
From DK Require Import Num NumR Vec.
From DK.Gen Require Import Kernels.
From DK.Model Require Import Leaf Fn Dev DocSpec.
From DK.Proofs Require Import VecFacts RVec KernelR.
Import ListNotations.
Local Open Scope R_scope.

Lemma dot_sum_prod s p : dot (A:=R) s p = sum_prod s p.
Proof.
  revert p; induction s as [|x s IH]; intros [|y p]; simpl; try reflexivity.
  rewrite dot_cons, IH. reflexivity.
Qed.
Lemma vsum_total s : vsum (A:=R) s = total s.
Proof. induction s as [|x s IH]; simpl; [reflexivity|]. now rewrite IH. Qed.

Lemma horner_acc (c : list R) u acc :
  fold_left (fun a0 c0 => a0 * u + c0) c acc = acc * u ^ (length c) + polyval c u.
Proof.
  revert acc; induction c as [|a c IH]; intros acc; simpl; [ring|].
  rewrite IH. ring.
Qed.
Lemma horner_polyval (c : list R) u : horner (A:=R) c u = polyval c u.
Proof. unfold horner. numR. rewrite horner_acc. ring. Qed.

Lemma mk_cost k n b cb s p : leaf_cost (A:=R) (Build_leafdev n b cb k) s p =
  match k with
  | KDev | KPV => dev_cost s p | KC a b0 => cdev_cost a b0 s p | KC2 pl ph => cdev2_cost pl ph cb s p
  | KI a b0 c => idev_cost a b0 c b s p | KI2 pl ph => idev2_cost pl ph b s p | KG g => gdev_cost g s p
  | KS q => sdev_cost q s p | KT q => tdev_cost q s p | KA f _ => feval f s + dot s p end.
Proof. reflexivity. Qed.

(* base device and PV: only the price term *)
Lemma base_cost n b cb s p :
  leaf_cost (Build_leafdev n b cb KDev) s p = sum_prod s p /\
  leaf_cost (Build_leafdev n b cb KPV) s p = sum_prod s p.
Proof. split; unfold leaf_cost; simpl; unfold dev_cost; apply dot_sum_prod. Qed.

Lemma cdevice_cost n b cb a b0 s p :
  leaf_cost (Build_leafdev n b cb (KC a b0)) s p = a * total s + b0 + sum_prod s p.
Proof. unfold leaf_cost; simpl. unfold cdev_cost. numR. now rewrite dot_sum_prod, vsum_total. Qed.

(* generator: polynomial of the generated quantity -s per slot plus s*p *)
Lemma gdevice_cost n b cb g s p :
  leaf_cost (Build_leafdev n b cb (KG g)) s p =
  vsum (map (fun '(i, x) => x * nth i p 0 + polyval (gpoly g i) (- x)) (idx s)).
Proof.
  unfold leaf_cost; simpl. unfold gdev_cost. apply vsum_map_ext. intros [i x] _. numR. now rewrite horner_polyval.
Qed.

(* high/low quadratic per slot: marginal cost p_l at the lower bound, p_h at the upper, linear between *)
Lemma idevice2_marginal n b cb pl ph s p k : (k < length s)%nat -> length p = length s -> lo b k <> hi b k ->
  nth k (leaf_deriv (Build_leafdev n b cb (KI2 pl ph)) s p) 0
  = hl_marginal_doc (pnth pl k) (pnth ph k) (lo b k) (hi b k) (nth k s 0) + nth k p 0.
Proof.
  intros Hk HL Hne. unfold leaf_deriv; simpl. unfold idev2_deriv.
  rewrite nth_vadd by (rewrite ?map_idx_length; lia).
  rewrite (nth_map_idx (fun i x => hl_deriv x (pnth pl i) (pnth ph i) (lo b i) (hi b i))) by auto.
  rewrite hl_deriv_affine by auto. reflexivity.
Qed.
Lemma hl_marginal_ends pl ph xl xh : xl <> xh ->
  hl_marginal_doc pl ph xl xh xl = pl /\ hl_marginal_doc pl ph xl xh xh = ph.
Proof. intros; unfold hl_marginal_doc; split; field; lra. Qed.

(* the same curve on the cumulative total (one range) *)
Lemma cdevice2_marginal n b pl ph c s p k : (k < length s)%nat -> length p = length s -> cb_lo c <> cb_hi c ->
  nth k (leaf_deriv (Build_leafdev n b [c] (KC2 pl ph)) s p) 0
  = hl_marginal_doc pl ph (cb_lo c) (cb_hi c) (total s) + nth k p 0.
Proof.
  intros Hk HL Hne. unfold leaf_deriv; simpl. unfold cdev2_deriv, cdev2_dpref, vscale, ones, vconst.
  rewrite nth_vadd by (rewrite ?map_length, ?repeat_length; lia).
  rewrite (nth_indep _ 0 (nmul (hl_deriv (vsum s) pl ph (cb_lo c) (cb_hi c)) 0)) by (rewrite map_length, repeat_length; lia).
  rewrite map_nth, repeat_nth by lia. numR. rewrite hl_deriv_affine by auto. rewrite vsum_total. unfold hl_marginal_doc. ring.
Qed.

(* instantaneous device: c * q**b with q falling linearly from 1 to a; zero-width slots contribute 0 *)
Lemma idevice_cost n bnd cb a (bk : nat -> nat) c s p :
  leaf_cost (Build_leafdev n bnd cb (KI a (PV (map (fun i => Rnat (bk i)) (seq 0 (length s)))) c)) s p =
  vsum (map (fun '(i, x) => if Req_EM_T (lo bnd i) (hi bnd i) then 0
                            else pnth c i * (q_doc (pnth a i) (lo bnd i) (hi bnd i) x) ^ (bk i)) (idx s))
  + sum_prod s p.
Proof.
  unfold leaf_cost; simpl. unfold idev_cost, idev_pref. numR. rewrite dot_sum_prod. f_equal.
  apply vsum_map_ext. intros [i x] Hin.
  assert (Hi : (i < length s)%nat).
  { unfold idx in Hin. apply in_combine_l in Hin. apply in_seq in Hin. lia. }
  assert (Hb : pnth (PV (map (fun i => Rnat (bk i)) (seq 0 (length s)))) i = Rnat (bk i)).
  { simpl. rewrite (nth_indep _ 0 (Rnat (bk 0%nat))) by (rewrite map_length, seq_length; lia).
    rewrite (map_nth (fun i => Rnat (bk i))). now rewrite seq_nth by lia. }
  rewrite Hb. destruct (Req_EM_T (lo bnd i) (hi bnd i)) as [E|E].
  - rewrite E. apply abc_zero_width.
  - rewrite abc_cost_form by auto. now rewrite abc_q_affine by auto.
Qed.
Lemma q_doc_ends a xl xh : xl <> xh -> q_doc a xl xh xl = 1 /\ q_doc a xl xh xh = a.
Proof. intros; unfold q_doc; split; field; lra. Qed.

(* storage: c1*r^2 - c2*r_i*r_(i+1) + c3*(shortfall below the damage depth)^2 *)
Lemma flip_doc_eq r : flip (A:=R) r = flip_doc r.
Proof.
  induction r as [|x r IH]; [reflexivity|]. destruct r as [|y r]; [reflexivity|].
  change (flip (x :: y :: r)) with (x * y + flip (y :: r)). rewrite IH. reflexivity.
Qed.
Lemma sdevice_cost n b cb q s p :
  leaf_cost (Build_leafdev n b cb (KS q)) s p =
  sp_c1 q * total (map (fun r => r * r) s) - sp_c2 q * flip_doc s
  + sp_c3 q * total (map (fun soc => shortfall_sq soc (sp_capacity q * sp_depth q)) (sdev_charge q s))
  + sum_prod s p.
Proof.
  unfold leaf_cost; simpl. unfold sdev_cost, sdev_pref, sdev_short.
  assert (E1 : vsum (map nsq s) = total (map (fun r => r * r) s)) by (rewrite vsum_total; reflexivity).
  assert (E2 : vsum (map nsq (map (fun c => nmin (c - sp_capacity q * sp_depth q)%num n0) (sdev_charge q s)))
               = total (map (fun soc => shortfall_sq soc (sp_capacity q * sp_depth q)) (sdev_charge q s))).
  { rewrite vsum_total, map_map. f_equal. apply map_ext. intros c. unfold shortfall_sq, Rmin. numR. unfold Rleb.
    destruct (Rle_dec (c - sp_capacity q * sp_depth q) 0); simpl; ring. }
  rewrite E1, E2, dot_sum_prod, flip_doc_eq. numR. reflexivity.
Qed.

(* slots whose bounds coincide contribute no preference cost (and no marginal preference) *)
Lemma zero_width_slot x a b c pl ph xl :
  abc_cost (A:=R) x a b c xl xl = 0 /\ abc_deriv (A:=R) x a b c xl xl = 0 /\
  hl_cost (A:=R) x pl ph xl xl = 0 /\ hl_deriv (A:=R) x pl ph xl xl = 0.
Proof.
  destruct (abc_zero_width x a b c xl) as (A1 & A2 & _). destruct (hl_zero_width x pl ph xl) as (H1 & H2 & _). auto.
Qed.
