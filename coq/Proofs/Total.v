(* From coordinate-wise partial derivatives to the total (directional) derivative and the line integral, for every length.
   grad_at (Proofs/RVec.v) says: every coordinate partial of F at x is the reported entry.  The certificates of C05/C19 and
   the "line integral" / "monotone along segments" clauses of C01/C07 need the derivative along an ARBITRARY direction.
   Partials alone do not give that; partials in a neighbourhood plus continuity of the reported gradient do (the classical
   C^1 argument: telescope over the coordinates, mean value theorem on each, continuity of G).  This file proves it once. *)
From Coq Require Import ZArith Reals List Lra Lia Arith Psatz.
From Coquelicot Require Import Coquelicot.
From DK Require Import Num NumR Vec.
From DK.Proofs Require Import VecFacts RVec VecAlg Calc.
Import ListNotations.
Local Open Scope R_scope.

(* sup-norm ball *)
Definition vnear (x y : list R) (r : R) : Prop :=
  length y = length x /\ forall i, (i < length x)%nat -> Rabs (nth i y 0 - nth i x 0) < r.

(* continuity of a reported gradient G at x (every entry, sup norm on the argument) *)
Definition gcont (G : list R -> list R) (x : list R) : Prop :=
  forall eps, 0 < eps -> exists delta, 0 < delta /\
    forall y, vnear x y delta -> forall k, (k < length x)%nat -> Rabs (nth k (G y) 0 - nth k (G x) 0) < eps.

(* directional derivative at x along d is <g, d> *)
Definition dir_at (F : list R -> R) (g x : list R) : Prop :=
  forall d : list R, length d = length x -> is_derive (fun t : R => F (vadd x (vscale t d))) 0 (dot g d).

(* ---- hybrid points: the first k coordinates moved to x + t d, the rest still x ---- *)
Definition hyb (x d : list R) (t : R) (k : nat) : list R :=
  map (fun i => if (i <? k)%nat then nth i x 0 + t * nth i d 0 else nth i x 0) (seq 0 (length x)).

Lemma hyb_length x d t k : length (hyb x d t k) = length x.
Proof. unfold hyb. now rewrite map_length, seq_length. Qed.

Lemma nth_hyb x d t k i : (i < length x)%nat ->
  nth i (hyb x d t k) 0 = if (i <? k)%nat then nth i x 0 + t * nth i d 0 else nth i x 0.
Proof. intros Hi. unfold hyb. now rewrite nth_map_seq. Qed.

Lemma hyb_0 x d t : hyb x d t 0 = x.
Proof.
  apply list_eq_nth; [apply hyb_length|]. intros i Hi. rewrite hyb_length in Hi. now rewrite nth_hyb.
Qed.

Lemma nth_vscale_R (c : R) G k : nth k (vscale c G) 0 = c * nth k G 0.
Proof. apply Calc.nth_vscale. Qed.

Lemma hyb_full x d t : length d = length x -> hyb x d t (length x) = vadd x (vscale t d).
Proof.
  intros HL. apply list_eq_nth.
  - rewrite hyb_length, vadd_length, vscale_length. lia.
  - intros i Hi. rewrite hyb_length in Hi. rewrite nth_hyb by auto.
    destruct (Nat.ltb_spec i (length x)); [|lia].
    rewrite nth_vadd by (rewrite ?vscale_length; lia). now rewrite nth_vscale_R.
Qed.

Lemma hyb_S x d t k : (k < length x)%nat -> hyb x d t (S k) = upd (hyb x d t k) k (nth k x 0 + t * nth k d 0).
Proof.
  intros Hk. apply list_eq_nth; [now rewrite upd_length, !hyb_length|].
  intros i Hi. rewrite hyb_length in Hi. rewrite nth_hyb by auto.
  destruct (Nat.eq_dec i k) as [->|Hne].
  - rewrite nth_upd_eq by (now rewrite hyb_length). destruct (Nat.ltb_spec k (S k)); [reflexivity|lia].
  - rewrite nth_upd_neq by auto. rewrite nth_hyb by auto.
    destruct (Nat.ltb_spec i (S k)), (Nat.ltb_spec i k); try reflexivity; lia.
Qed.

Lemma nth_hyb_at x d t k : (k < length x)%nat -> nth k (hyb x d t k) 0 = nth k x 0.
Proof. intros Hk. rewrite nth_hyb by auto. destruct (Nat.ltb_spec k k); [lia|reflexivity]. Qed.

(* bound on the entries of d *)
Definition dbound (d : list R) : R := vsum (map Rabs d).
Lemma dbound_nonneg d : 0 <= dbound d.
Proof. unfold dbound. induction d as [|a d IH]; cbn [map]; [rewrite vsum_nil; lra|]. rewrite vsum_cons. pose proof (Rabs_pos a). lra. Qed.
Lemma nth_le_dbound d i : Rabs (nth i d 0) <= dbound d.
Proof.
  unfold dbound. revert i; induction d as [|a d IH]; intros i; cbn [map nth].
  - destruct i; rewrite Rabs_R0, vsum_nil; lra.
  - rewrite vsum_cons. destruct i as [|i].
    + pose proof (dbound_nonneg d). unfold dbound in *. lra.
    + specialize (IH i). pose proof (Rabs_pos a). lra.
Qed.

(* every point u on coordinate k between the hybrid's value and the moved value stays near x *)
Lemma upd_hyb_near x d t k u r : (k < length x)%nat -> Rabs t * dbound d < r ->
  Rabs (u - nth k x 0) <= Rabs (t * nth k d 0) -> vnear x (upd (hyb x d t k) k u) r.
Proof.
  intros Hk Hr Hu. assert (R0 : 0 < r) by (pose proof (dbound_nonneg d); pose proof (Rabs_pos t); nra).
  assert (B : forall i, Rabs (t * nth i d 0) < r).
  { intros i. rewrite Rabs_mult. pose proof (nth_le_dbound d i). pose proof (Rabs_pos t). nra. }
  split; [now rewrite upd_length, hyb_length|]. intros i Hi.
  destruct (Nat.eq_dec i k) as [->|Hne].
  - rewrite nth_upd_eq by (now rewrite hyb_length). specialize (B k). lra.
  - rewrite nth_upd_neq by auto. rewrite nth_hyb by auto. destruct (i <? k)%nat.
    + replace (nth i x 0 + t * nth i d 0 - nth i x 0) with (t * nth i d 0) by ring. apply B.
    + rewrite Rminus_diag_eq by reflexivity. now rewrite Rabs_R0.
Qed.

Lemma is_derive_continuity_pt (f : R -> R) (x l : R) : is_derive f x l -> continuity_pt f x.
Proof.
  intros Hd. apply derivable_continuous_pt. exists l. now apply is_derive_Reals.
Qed.

(* one coordinate step: mean value theorem on u |-> F (upd z k u) *)
Lemma coord_step (F : list R -> R) (G : list R -> list R) x d t k r :
  (k < length x)%nat -> Rabs t * dbound d < r ->
  (forall y, vnear x y r -> grad_at F (G y) y) ->
  exists y, vnear x y r /\
    F (hyb x d t (S k)) - F (hyb x d t k) = nth k (G y) 0 * (t * nth k d 0).
Proof.
  intros Hk Hr HG. set (z := hyb x d t k). set (a := nth k x 0). set (b := a + t * nth k d 0).
  assert (Hz : length z = length x) by apply hyb_length.
  assert (Hbetween : forall u, Rmin a b <= u <= Rmax a b -> Rabs (u - a) <= Rabs (t * nth k d 0)).
  { intros u Hu. unfold b, Rmin, Rmax in Hu. destruct (Rle_dec a (a + t * nth k d 0)) as [Hle|Hle];
      unfold Rabs; destruct (Rcase_abs (u - a)), (Rcase_abs (t * nth k d 0)); lra. }
  assert (Hder : forall u, Rmin a b <= u <= Rmax a b ->
            is_derive (fun v => F (upd z k v)) u (nth k (G (upd z k u)) 0)).
  { intros u Hu. pose proof (upd_hyb_near x d t k u r Hk Hr (Hbetween u Hu)) as Hn. fold z in Hn.
    destruct (HG _ Hn) as [_ HD]. specialize (HD k). rewrite upd_length, Hz in HD. specialize (HD Hk).
    rewrite nth_upd_eq in HD by lia.
    apply (is_derive_ext (fun v => F (upd (upd z k u) k v))); [|exact HD].
    intros v. f_equal. apply list_eq_nth; [now rewrite !upd_length|].
    intros i Hi. rewrite !upd_length in Hi. destruct (Nat.eq_dec i k) as [->|Hne].
    - now rewrite !nth_upd_eq by (rewrite ?upd_length; lia).
    - now rewrite !nth_upd_neq by auto. }
  destruct (MVT_gen (fun v => F (upd z k v)) a b (fun u => nth k (G (upd z k u)) 0)) as [c [Hc Hmv]].
  - intros u Hu. apply Hder. cbv zeta in Hu. lra.
  - intros u Hu. eapply is_derive_continuity_pt. apply Hder. exact Hu.
  - exists (upd z k c). split.
    + apply (upd_hyb_near x d t k c r Hk Hr). apply Hbetween. exact Hc.
    + rewrite (hyb_S x d t k Hk). fold z a b.
      assert (Ez : upd z k a = z).
      { unfold a, z. rewrite <- (nth_hyb_at x d t k Hk). apply upd_same. }
      rewrite <- Ez at 2. rewrite Hmv. unfold b. ring.
Qed.

(* the telescoped estimate after k coordinate steps *)
Lemma telescope (F : list R -> R) (G : list R -> list R) x d t r eps :
  Rabs t * dbound d < r ->
  (forall y, vnear x y r -> grad_at F (G y) y) ->
  (forall y, vnear x y r -> forall k, (k < length x)%nat -> Rabs (nth k (G y) 0 - nth k (G x) 0) < eps) ->
  forall k, (k <= length x)%nat ->
  Rabs (F (hyb x d t k) - F x - t * vsum (map (fun i => nth i (G x) 0 * nth i d 0) (seq 0 k)))
    <= Rabs t * eps * vsum (map (fun i => Rabs (nth i d 0)) (seq 0 k)).
Proof.
  intros Hr HG Hc. induction k as [|k IH]; intros Hk.
  - rewrite hyb_0. cbn [seq map]. rewrite !vsum_nil.
    replace (F x - F x - t * 0) with 0 by ring. rewrite Rabs_R0. lra.
  - specialize (IH ltac:(lia)). rewrite !seq_S, !map_app, !vsum_app. cbn [map Nat.add]. rewrite !vsum_cons, !vsum_nil, !Rplus_0_r.
    destruct (coord_step F G x d t k r ltac:(lia) Hr HG) as [y [Hy Hs]].
    specialize (Hc y Hy k ltac:(lia)).
    set (S0 := vsum (map (fun i => nth i (G x) 0 * nth i d 0) (seq 0 k))) in *.
    set (T0 := vsum (map (fun i => Rabs (nth i d 0)) (seq 0 k))) in *.
    replace (F (hyb x d t (S k)) - F x - t * (S0 + nth k (G x) 0 * nth k d 0))
      with ((F (hyb x d t k) - F x - t * S0) + (nth k (G y) 0 - nth k (G x) 0) * (t * nth k d 0)).
    2:{ replace ((nth k (G y) 0 - nth k (G x) 0) * (t * nth k d 0))
          with (nth k (G y) 0 * (t * nth k d 0) - nth k (G x) 0 * (t * nth k d 0)) by ring.
        rewrite <- Hs. ring. }
    eapply Rle_trans; [apply Rabs_triang|].
    rewrite (Rabs_mult (nth k (G y) 0 - nth k (G x) 0)), (Rabs_mult t).
    pose proof (Rabs_pos t). pose proof (Rabs_pos (nth k d 0)).
    assert (Rabs (nth k (G y) 0 - nth k (G x) 0) * (Rabs t * Rabs (nth k d 0)) <= eps * (Rabs t * Rabs (nth k d 0))).
    { apply Rmult_le_compat_r; [nra|lra]. }
    nra.
Qed.

Lemma dot_as_seq (g d : list R) : length g = length d ->
  dot g d = vsum (map (fun i => nth i g 0 * nth i d 0) (seq 0 (length g))).
Proof.
  revert d; induction g as [|a g IH]; intros [|b d] HL; simpl in HL; try lia; [reflexivity|].
  rewrite dot_cons. cbn [length seq map]. rewrite vsum_cons. cbn [nth]. f_equal.
  rewrite <- seq_shift, map_map. rewrite IH by lia. reflexivity.
Qed.

Lemma dbound_as_seq (d : list R) : dbound d = vsum (map (fun i => Rabs (nth i d 0)) (seq 0 (length d))).
Proof.
  unfold dbound. induction d as [|b d IH]; [reflexivity|].
  cbn [length seq map]. rewrite !vsum_cons. cbn [nth]. f_equal. rewrite <- seq_shift, map_map. exact IH.
Qed.

(* ---- the theorem: partials near x + continuity of the reported gradient at x => total derivative at x ---- *)
Theorem total_from_partials (F : list R -> R) (G : list R -> list R) (x : list R) (r : R) :
  0 < r -> (forall y, vnear x y r -> grad_at F (G y) y) -> gcont G x -> dir_at F (G x) x.
Proof.
  intros Hr HG Hcont d HL.
  assert (LG : length (G x) = length x).
  { apply (HG x). split; auto. intros i _. rewrite Rminus_diag_eq by reflexivity. now rewrite Rabs_R0. }
  apply is_derive_Reals. intros eps Heps.
  set (D := dbound d). pose proof (dbound_nonneg d) as HD. fold D in HD.
  set (e1 := eps / (2 * (D + 1))). assert (He1 : 0 < e1) by (unfold e1; apply Rdiv_lt_0_compat; lra).
  destruct (Hcont e1 He1) as [delta [Hdelta Hc]].
  set (rr := Rmin r delta). assert (Hrr : 0 < rr) by (unfold rr, Rmin; destruct (Rle_dec r delta); lra).
  assert (Hh0 : 0 < rr / (D + 1)) by (apply Rdiv_lt_0_compat; lra).
  exists (mkposreal _ Hh0). intros h Hne Hh. cbn [pos] in Hh.
  rewrite Rplus_0_l.
  assert (Hsmall : Rabs h * D < rr).
  { apply Rle_lt_trans with (Rabs h * (D + 1)); [pose proof (Rabs_pos h); nra|].
    apply (Rmult_lt_reg_r (/ (D + 1))); [apply Rinv_0_lt_compat; lra|].
    rewrite Rmult_assoc, Rinv_r by lra. unfold Rdiv in Hh. lra. }
  assert (HGr : forall y, vnear x y rr -> grad_at F (G y) y).
  { intros y [Ly Hy]. apply HG. split; auto. intros i Hi. specialize (Hy i Hi). unfold rr in Hy.
    pose proof (Rmin_l r delta). lra. }
  assert (Hcr : forall y, vnear x y rr -> forall k, (k < length x)%nat -> Rabs (nth k (G y) 0 - nth k (G x) 0) < e1).
  { intros y [Ly Hy]. apply Hc. split; auto. intros i Hi. specialize (Hy i Hi). unfold rr in Hy.
    pose proof (Rmin_r r delta). lra. }
  pose proof (telescope F G x d h rr e1 Hsmall HGr Hcr (length x) (Nat.le_refl _)) as T.
  rewrite hyb_full in T by auto.
  assert (E1 : vsum (map (fun i => nth i (G x) 0 * nth i d 0) (seq 0 (length x))) = dot (G x) d).
  { rewrite (dot_as_seq (G x) d) by lia. now rewrite LG. }
  assert (E2 : vsum (map (fun i => Rabs (nth i d 0)) (seq 0 (length x))) = D).
  { unfold D. rewrite dbound_as_seq. now rewrite HL. }
  rewrite E1, E2 in T.
  replace (vadd x (vscale 0 d)) with x.
  2:{ rewrite vscale_0, HL. symmetry. apply vadd_zeros_r. }
  replace ((F (vadd x (vscale h d)) - F x) / h - dot (G x) d)
    with ((F (vadd x (vscale h d)) - F x - h * dot (G x) d) / h) by (field; exact Hne).
  unfold Rdiv. rewrite Rabs_mult, Rabs_Rinv by exact Hne.
  apply (Rmult_lt_reg_r (Rabs h)); [now apply Rabs_pos_lt|].
  rewrite Rmult_assoc, Rinv_l by (now apply Rabs_no_R0). rewrite Rmult_1_r.
  eapply Rle_lt_trans; [exact T|].
  assert (e1 * D < eps).
  { unfold e1. apply (Rmult_lt_reg_r (2 * (D + 1))); [lra|]. field_simplify; [|lra]. nra. }
  pose proof (Rabs_pos_lt h Hne). nra.
Qed.

(* ---- along a line: the derivative of t |-> F (x + t d) at any t0 ---- *)
Lemma is_derive_shift0 (f : R -> R) (c x l : R) : is_derive f c l -> is_derive (fun t => f (c + (t - x))) x l.
Proof.
  intros D.
  assert (D1 : is_derive (fun t => c + (t - x)) x 1) by (auto_derive; [exact I|ring]).
  assert (E : c + (x - x) = c) by ring. rewrite <- E in D.
  pose proof (is_derive_comp f (fun t => c + (t - x)) x l 1 D D1) as DD.
  unfold scal in DD; simpl in DD; unfold mult in DD; simpl in DD. rewrite Rmult_1_l in DD. exact DD.
Qed.

Lemma vadd_line_shift (x d : list R) t0 u : length d = length x ->
  vadd (vadd x (vscale t0 d)) (vscale u d) = vadd x (vscale (t0 + u) d).
Proof.
  intros HL. apply list_eq_nth.
  - rewrite !vadd_length, !vscale_length. lia.
  - intros i Hi. rewrite !vadd_length, !vscale_length in Hi.
    rewrite !nth_vadd by (rewrite ?vadd_length, ?vscale_length; lia). rewrite !nth_vscale_R. ring.
Qed.

Lemma line_point_length (x d : list R) t : length d = length x -> length (vadd x (vscale t d)) = length x.
Proof. intros HL. rewrite vadd_length, vscale_length. lia. Qed.

Theorem dir_along_line (F : list R -> R) (G : list R -> list R) (x d : list R) (r t0 : R) :
  length d = length x -> 0 < r ->
  (forall y, vnear (vadd x (vscale t0 d)) y r -> grad_at F (G y) y) -> gcont G (vadd x (vscale t0 d)) ->
  is_derive (fun t : R => F (vadd x (vscale t d))) t0 (dot (G (vadd x (vscale t0 d))) d).
Proof.
  intros HL Hr HG Hc. set (z := vadd x (vscale t0 d)) in *.
  assert (Lz : length z = length x) by (apply line_point_length; exact HL).
  pose proof (total_from_partials F G z r Hr HG Hc d ltac:(lia)) as D0.
  apply (is_derive_ext (fun t => (fun u => F (vadd z (vscale u d))) (0 + (t - t0)))).
  - intros t. cbv beta. unfold z. rewrite vadd_line_shift by exact HL. do 3 f_equal. ring.
  - apply (is_derive_shift0 (fun u => F (vadd z (vscale u d))) 0 t0). exact D0.
Qed.

(* ---- continuity of t |-> <G (x + t d), d> from continuity of G ---- *)
Lemma dot_diff_bound (a b d : list R) eps : length a = length d -> length b = length d -> 0 <= eps ->
  (forall k, (k < length d)%nat -> Rabs (nth k a 0 - nth k b 0) <= eps) ->
  Rabs (dot a d - dot b d) <= eps * dbound d.
Proof.
  revert a b; induction d as [|c d IH]; intros [|a0 a] [|b0 b] La Lb He Hk; simpl in La, Lb; try lia.
  - unfold dot, dbound. simpl. rewrite Rminus_diag_eq by reflexivity. rewrite Rabs_R0. lra.
  - rewrite !dot_cons. unfold dbound. cbn [map]. rewrite vsum_cons. fold (dbound d).
    replace (a0 * c + dot a d - (b0 * c + dot b d)) with ((a0 - b0) * c + (dot a d - dot b d)) by ring.
    eapply Rle_trans; [apply Rabs_triang|]. rewrite Rabs_mult.
    pose proof (Hk 0%nat ltac:(simpl; lia)) as H0. cbn [nth] in H0.
    assert (H1 : Rabs (dot a d - dot b d) <= eps * dbound d).
    { apply IH; try lia; auto. intros k Hk'. apply (Hk (S k)). simpl. lia. }
    pose proof (Rabs_pos c). pose proof (Rabs_pos (a0 - b0)). nra.
Qed.

Lemma line_near (x d : list R) t t' delta : length d = length x -> Rabs (t' - t) * (dbound d + 1) < delta ->
  vnear (vadd x (vscale t d)) (vadd x (vscale t' d)) delta.
Proof.
  intros HL Hs. split; [now rewrite !line_point_length|]. rewrite line_point_length by auto. intros i Hi.
  rewrite !nth_vadd by (rewrite ?vscale_length; lia). rewrite !nth_vscale_R.
  replace (nth i x 0 + t' * nth i d 0 - (nth i x 0 + t * nth i d 0)) with ((t' - t) * nth i d 0) by ring.
  rewrite Rabs_mult. pose proof (nth_le_dbound d i). pose proof (Rabs_pos (t' - t)). nra.
Qed.

Lemma line_marginal_continuous (G : list R -> list R) (x d : list R) (t : R) :
  length d = length x -> (forall t', length (G (vadd x (vscale t' d))) = length x) ->
  gcont G (vadd x (vscale t d)) ->
  continuity_pt (fun u => dot (G (vadd x (vscale u d))) d) t.
Proof.
  intros HL LG Hc. unfold continuity_pt, continue_in, limit1_in, limit_in. intros eps Heps. cbn.
  set (D := dbound d). pose proof (dbound_nonneg d) as HD. fold D in HD.
  set (e1 := eps / (2 * (D + 1))). assert (He1 : 0 < e1) by (unfold e1; apply Rdiv_lt_0_compat; lra).
  destruct (Hc e1 He1) as [delta [Hdelta Hk]].
  exists (delta / (D + 1)). split; [apply Rdiv_lt_0_compat; lra|].
  intros t' [_ Ht']. unfold R_dist in *.
  assert (Hn : vnear (vadd x (vscale t d)) (vadd x (vscale t' d)) delta).
  { apply line_near; auto. fold D. apply (Rmult_lt_reg_r (/ (D + 1))); [apply Rinv_0_lt_compat; lra|].
    rewrite Rmult_assoc, Rinv_r by lra. unfold Rdiv in Ht'. lra. }
  specialize (Hk _ Hn). rewrite line_point_length in Hk by auto.
  eapply Rle_lt_trans.
  - apply (dot_diff_bound _ _ d e1); try (rewrite LG; lia); [lra|]. intros k Hk'. left. apply Hk. lia.
  - fold D. unfold e1. apply (Rmult_lt_reg_r (2 * (D + 1))); [lra|]. field_simplify; [|lra]. nra.
Qed.

(* ---- the line integral form of C01: F y - F x is the integral of the reported marginal cost along the segment ---- *)
Definition seg (x y : list R) (t : R) : list R := vadd x (vscale t (vsub y x)).

Theorem line_integral (F : list R -> R) (G : list R -> list R) (x y : list R) (r : R) :
  length y = length x -> 0 < r ->
  (forall t, 0 <= t <= 1 -> forall z, vnear (seg x y t) z r -> grad_at F (G z) z) ->
  (forall t, 0 <= t <= 1 -> gcont G (seg x y t)) ->
  (forall t, length (G (seg x y t)) = length x) ->
  is_RInt (fun t => dot (G (seg x y t)) (vsub y x)) 0 1 (F y - F x).
Proof.
  intros HL Hr HG Hc LG. set (d := vsub y x). assert (Ld : length d = length x) by (unfold d; rewrite vsub_length; lia).
  assert (E1 : seg x y 1 = y).
  { unfold seg. fold d. rewrite vscale_1. apply list_eq_nth; [rewrite vadd_length; lia|].
    intros i Hi. rewrite vadd_length in Hi. rewrite nth_vadd by lia. unfold d. rewrite nth_vsub by lia. ring. }
  assert (E0 : seg x y 0 = x).
  { unfold seg. fold d. rewrite vscale_0, Ld. apply vadd_zeros_r. }
  replace (F y - F x) with (F (seg x y 1) - F (seg x y 0)) by (now rewrite E1, E0).
  change (F (seg x y 1) - F (seg x y 0)) with (minus ((fun t => F (seg x y t)) 1) ((fun t => F (seg x y t)) 0)).
  apply (is_RInt_derive (fun t => F (seg x y t)) (fun t => dot (G (seg x y t)) (vsub y x))).
  - intros t Ht. rewrite Rmin_left, Rmax_right in Ht by lra.
    apply (dir_along_line F G x d r t Ld Hr (HG t Ht) (Hc t Ht)).
  - intros t Ht. rewrite Rmin_left, Rmax_right in Ht by lra.
    apply continuity_pt_filterlim. apply (line_marginal_continuous G x d t Ld LG (Hc t Ht)).
Qed.

(* ---- the certificate hypothesis of C05/C19 (derivative towards every other point) follows ---- *)
Lemma dir_at_towards (F : list R -> R) (g x : list R) : dir_at F g x ->
  forall y, length y = length x -> is_derive (fun t : R => F (vadd x (vscale t (vsub y x)))) 0 (dot g (vsub y x)).
Proof. intros H y HL. apply H. rewrite vsub_length. lia. Qed.
