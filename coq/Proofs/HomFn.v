(* The two instances agree on the preference-function AST of Model/Fn.v (feval / fderiv), hence on ADevice: completes
   Proofs/HomLeaf.v to every atomic kind.  Side condition: the exponents of every FABC node are integers. *)
From Coq Require Import ZArith QArith Qreals Reals List Bool Lra Lia.
From DK Require Import Num NumQ NumR Vec.
From DK.Gen Require Import Kernels.
From DK.Model Require Import Leaf Fn Dev.
From DK.Proofs Require Import Hom HomLeaf.
Import ListNotations.
Local Open Scope R_scope.

Lemma fnQ_ind' (P : fn Q -> Prop) :
  P FNull ->
  (forall fs, (forall g, In g fs -> P g) -> P (FSum fs)) ->
  (forall g, P g -> P (FReflect g)) ->
  (forall cs, P (FPoly2D cs)) ->
  (forall cs offs, P (FPoly2DOffset cs offs)) ->
  (forall fs, P (FX2D fs)) ->
  (forall rs, (forall s e g, In (s, e, g) rs -> P g) -> P (FRanges rs)) ->
  (forall pl ph xl xh, P (FInnerHL pl ph xl xh)) ->
  (forall a b c xl xh, P (FABC a b c xl xh)) ->
  (forall pl ph xl xh, P (FHL pl ph xl xh)) ->
  (forall c, P (FDemand c)) ->
  forall f, P f.
Proof.
  intros HNull HSum HRefl HP HPO HX HRanges HInner HABC HHL HDem.
  fix IH 1. intros f. destruct f as [|fs|g|cs|cs offs|fs|rs|pl ph xl xh|a b c xl xh|pl ph xl xh|c].
  - exact HNull.
  - apply HSum. induction fs as [|a fs IHfs]; intros g Hin; [destruct Hin|].
    destruct Hin as [<-|Hin]; [apply IH|now apply IHfs].
  - apply HRefl. apply IH.
  - apply HP.
  - apply HPO.
  - apply HX.
  - apply HRanges. induction rs as [|[[s0 e0] g0] rs IHrs]; intros s e g Hin; [destruct Hin|].
    destruct Hin as [Heq|Hin]; [injection Heq as _ _ <-; apply IH|now apply (IHrs s e g)].
  - apply HInner.
  - apply HABC.
  - apply HHL.
  - apply HDem.
Qed.

(* the executable fragment: integer exponents in every FABC node *)
Fixpoint exec_fn (f : fn Q) : Prop :=
  match f with
  | FSum fs => (fix all (l : list (fn Q)) : Prop := match l with [] => True | g :: l' => exec_fn g /\ all l' end) fs
  | FReflect g => exec_fn g
  | FRanges rs => (fix all (l : list (nat * nat * fn Q)) : Prop :=
                     match l with [] => True | r :: l' => exec_fn (snd r) /\ all l' end) rs
  | FABC _ b _ _ _ => forall i, exists z, pnth b i = inject_Z z
  | _ => True
  end.
Lemma exec_sum_in fs g : exec_fn (FSum fs) -> In g fs -> exec_fn g.
Proof. induction fs as [|a fs IH]; intros H Hin; [destruct Hin|]. destruct H as [Ha Hr]. destruct Hin as [<-|Hin]; auto. Qed.
Lemma exec_ranges_in rs s e g : exec_fn (FRanges rs) -> In (s, e, g) rs -> exec_fn g.
Proof.
  induction rs as [|r rs IH]; intros H Hin; [destruct Hin|]. destruct H as [Ha Hr].
  destruct Hin as [->|Hin]; [exact Ha|now apply IH].
Qed.

(* ---- small list facts ---- *)
Lemma rl_nth_list (cs : list (list Q)) i : rl (nth i cs []) = nth i (map rl cs) [].
Proof. change (@nil R) with (rl []). now rewrite map_nth. Qed.
Lemma rl_upd l k v : rl (upd l k v) = upd (rl l) k (Q2R v).
Proof. revert k; induction l as [|a l IH]; intros [|k]; try reflexivity. cbn [upd rl map]. f_equal. apply IH. Qed.
Lemma argmax_from_rl k best bv l : argmax_from k best (Q2R bv) (rl l) = argmax_from k best bv l.
Proof.
  revert k best bv; induction l as [|x l IH]; intros k best bv; [reflexivity|].
  cbn [argmax_from rl map]. rewrite <- hom_nltb. destruct (nltb bv x); apply IH.
Qed.
Lemma argmax_rl l : argmax (rl l) = argmax l.
Proof. destruct l as [|x l]; [reflexivity|]. apply argmax_from_rl. Qed.
Lemma hom_vmax l : Q2R (vmax l) = vmax (rl l).
Proof. unfold vmax. now rewrite argmax_rl, hom_nth. Qed.

Definition x2d_map (t : Q * Q * Q * Q) : R * R * R * R := let '(a, b, c, d) := t in (Q2R a, Q2R b, Q2R c, Q2R d).
Lemma x2d_nth (fs : list (Q * Q * Q * Q)) i :
  nth i (map x2d_map fs) (n0 (A:=R), n0 (A:=R), n0 (A:=R), n0 (A:=R)) = x2d_map (nth i fs (n0 (A:=Q), n0 (A:=Q), n0 (A:=Q), n0 (A:=Q))).
Proof.
  replace (n0 (A:=R), n0 (A:=R), n0 (A:=R), n0 (A:=R)) with (x2d_map (n0 (A:=Q), n0 (A:=Q), n0 (A:=Q), n0 (A:=Q)))
    by (cbn [x2d_map]; now rewrite hom_0).
  apply map_nth.
Qed.

Lemma flat_map_map {B C D} (f : C -> list D) (h : B -> C) (l : list B) : flat_map f (map h l) = flat_map (fun b => f (h b)) l.
Proof. induction l as [|b l IH]; [reflexivity|]. cbn [map flat_map]. now rewrite IH. Qed.
Lemma flat_map_ext_in {B C} (f g : B -> list C) (l : list B) : (forall b, In b l -> f b = g b) -> flat_map f l = flat_map g l.
Proof.
  induction l as [|b l IH]; intros H; [reflexivity|]. cbn [flat_map]. rewrite (H b (or_introl eq_refl)), IH; auto.
  intros c Hc. apply H. now right.
Qed.

(* mfn (Proofs/HomLeaf.v) on the list-carrying constructors *)
Lemma mfn_sum fs : mfn (FSum fs) = FSum (map mfn fs). Proof. reflexivity. Qed.
Lemma mfn_ranges rs : mfn (FRanges rs) = FRanges (map (fun r => let '(s, e, g) := r in (s, e, mfn g)) rs). Proof. reflexivity. Qed.

Theorem instances_agree_fn : forall (f : fn Q) (x : list Q), exec_fn f ->
  Q2R (feval f x) = feval (mfn f) (rl x) /\ rl (fderiv f x) = fderiv (mfn f) (rl x).
Proof.
  intros f. induction f as [|fs IH|g IH|cs|cs offs|fs|rs IH|pl ph xl xh|a b c xl xh|pl ph xl xh|c] using fnQ_ind'; intros x Hex.
  - split; [apply hom_0|]. cbn [fderiv mfn]. now rewrite rl_zeros, rl_length.
  - rewrite mfn_sum. cbn [feval fderiv]. split.
    + rewrite hom_vsum'. f_equal. unfold rl. rewrite !map_map. apply map_ext_in. intros g Hg.
      apply (IH g Hg x). eapply exec_sum_in; eauto.
    + rewrite rl_length. rewrite map_map.
      assert (G : forall l, (forall g, In g l -> In g fs) ->
                rl (fold_right vadd (zeros (length x)) (map (fun g => fderiv g x) l))
                = fold_right vadd (zeros (length x)) (map (fun g => fderiv (mfn g) (rl x)) l)).
      { induction l as [|g l IHl]; intros Hin; cbn [map fold_right]; [apply rl_zeros|].
        rewrite rl_vadd, IHl by (intros h Hh; apply Hin; now right). f_equal.
        apply (IH g (Hin g (or_introl eq_refl)) x). eapply exec_sum_in; eauto. apply Hin. now left. }
      apply G. auto.
  - cbn [feval fderiv mfn]. cbn [exec_fn] in Hex. destruct (IH (vopp x) Hex) as [E1 E2]. rewrite rl_vopp in E1, E2.
    split; [exact E1|]. now rewrite rl_vopp, E2.
  - cbn [feval fderiv mfn]. split.
    + rewrite hom_vsum'. f_equal.
      apply (rl_map_idx (fun i v => horner (nth i cs []) v) (fun i v => horner (nth i (map rl cs) []) v)).
      intros i v. now rewrite hom_horner, <- rl_nth_list.
    + apply (rl_map_idx (fun i v => horner (pderiv (nth i cs [])) v) (fun i v => horner (pderiv (nth i (map rl cs) [])) v)).
      intros i v. rewrite hom_horner. fold (rl (pderiv (nth i cs []))). now rewrite rl_pderiv, rl_nth_list.
  - cbn [feval fderiv mfn]. split.
    + rewrite hom_vsum'. f_equal.
      apply (rl_map_idx (fun i v => horner (nth i cs []) (v + nth i offs n0)%num) (fun i v => horner (nth i (map rl cs) []) (v + nth i (rl offs) n0)%num)).
      intros i v. now rewrite hom_horner, hom_add, hom_nth, <- rl_nth_list.
    + apply (rl_map_idx (fun i v => horner (pderiv (nth i cs [])) (v + nth i offs n0)%num)
                        (fun i v => horner (pderiv (nth i (map rl cs) [])) (v + nth i (rl offs) n0)%num)).
      intros i v. rewrite hom_horner, hom_add, hom_nth. fold (rl (pderiv (nth i cs []))). now rewrite rl_pderiv, rl_nth_list.
  - cbn [feval fderiv mfn]. fold x2d_map. split.
    + rewrite hom_vsum'. f_equal.
      apply (rl_map_idx (fun i v => let '(pl, ph, xl, xh) := nth i fs (n0, n0, n0, n0) in hl_cost v pl ph xl xh)
                        (fun i v => let '(pl, ph, xl, xh) := nth i (map x2d_map fs) (n0, n0, n0, n0) in hl_cost v pl ph xl xh)).
      intros i v. rewrite x2d_nth. destruct (nth i fs (n0, n0, n0, n0)) as [[[pl ph] xl] xh]. cbn [x2d_map]. apply hom_hl_cost.
    + apply (rl_map_idx (fun i v => let '(pl, ph, xl, xh) := nth i fs (n0, n0, n0, n0) in hl_deriv v pl ph xl xh)
                        (fun i v => let '(pl, ph, xl, xh) := nth i (map x2d_map fs) (n0, n0, n0, n0) in hl_deriv v pl ph xl xh)).
      intros i v. rewrite x2d_nth. destruct (nth i fs (n0, n0, n0, n0)) as [[[pl ph] xl] xh]. cbn [x2d_map]. apply hom_hl_deriv.
  - rewrite mfn_ranges. cbn [feval fderiv]. split.
    + rewrite hom_vsum'. f_equal. unfold rl at 1. rewrite !map_map. apply map_ext_in. intros [[s e] g] Hin.
      rewrite <- rl_slice. apply (IH s e g Hin). eapply exec_ranges_in; eauto.
    + rewrite rl_flat_map, flat_map_map. apply flat_map_ext_in. intros [[s e] g] Hin.
      rewrite <- rl_slice. apply (IH s e g Hin). eapply exec_ranges_in; eauto.
  - cbn [feval fderiv mfn]. split; [now rewrite hom_hl_cost, hom_vsum'|].
    now rewrite rl_vscale, rl_ones, hom_hl_deriv, hom_vsum', rl_length.
  - cbn [feval fderiv mfn]. cbn [exec_fn] in Hex. split.
    + rewrite hom_vsum'. f_equal.
      apply (rl_map_idx (fun i v => abc_cost v (pnth a i) (pnth b i) (pnth c i) (pnth xl i) (pnth xh i))
               (fun i v => abc_cost v (pnth (mparam a) i) (pnth (mparam b) i) (pnth (mparam c) i) (pnth (mparam xl) i) (pnth (mparam xh) i))).
      intros i v. destruct (Hex i) as [z Ez]. rewrite <- (hom_pnth b), Ez, Q2R_inject, hom_abc_cost. now rewrite !hom_pnth.
    + apply (rl_map_idx (fun i v => abc_deriv v (pnth a i) (pnth b i) (pnth c i) (pnth xl i) (pnth xh i))
               (fun i v => abc_deriv v (pnth (mparam a) i) (pnth (mparam b) i) (pnth (mparam c) i) (pnth (mparam xl) i) (pnth (mparam xh) i))).
      intros i v. destruct (Hex i) as [z Ez]. rewrite <- (hom_pnth b), Ez, Q2R_inject, hom_abc_deriv. now rewrite !hom_pnth.
  - cbn [feval fderiv mfn]. split.
    + rewrite hom_vsum'. f_equal.
      apply (rl_map_idx (fun i v => hl_cost v (pnth pl i) (pnth ph i) (pnth xl i) (pnth xh i))
               (fun i v => hl_cost v (pnth (mparam pl) i) (pnth (mparam ph) i) (pnth (mparam xl) i) (pnth (mparam xh) i))).
      intros i v. now rewrite hom_hl_cost, !hom_pnth.
    + apply (rl_map_idx (fun i v => hl_deriv v (pnth pl i) (pnth ph i) (pnth xl i) (pnth xh i))
               (fun i v => hl_deriv v (pnth (mparam pl) i) (pnth (mparam ph) i) (pnth (mparam xl) i) (pnth (mparam xh) i))).
      intros i v. now rewrite hom_hl_deriv, !hom_pnth.
  - cbn [feval fderiv mfn]. split; [now rewrite hom_horner, hom_vmax|].
    rewrite rl_upd, rl_zeros, rl_length, argmax_rl, hom_horner, hom_vmax. fold (rl (pderiv c)). now rewrite rl_pderiv.
Qed.

(* ---- ADevice, and with it every atomic kind ---- *)
Definition exec_kind_all (k : kind Q) (n : nat) : Prop :=
  match k with KI _ bp _ => int_exponents bp n | KA f _ => exec_fn f | _ => True end.

Theorem instances_agree_leaf_cost_all (L : leafdev Q) s p : exec_kind_all (ld_kind L) (length s) ->
  Q2R (leaf_cost L s p) = leaf_cost (mleaf L) (rl s) (rl p).
Proof.
  destruct L as [n b cb k]. destruct k; intros Hk; try (apply (instances_agree_leaf_cost (Build_leafdev n b cb _) s p); exact Hk).
  unfold leaf_cost; cbn [ld_kind mleaf mkind]. cbn [exec_kind_all ld_kind] in Hk.
  rewrite hom_add, hom_dot'. f_equal. apply (instances_agree_fn f s Hk).
Qed.
Theorem instances_agree_leaf_deriv_all (L : leafdev Q) s p : exec_kind_all (ld_kind L) (length s) ->
  rl (leaf_deriv L s p) = leaf_deriv (mleaf L) (rl s) (rl p).
Proof.
  destruct L as [n b cb k]. destruct k; intros Hk; try (apply (instances_agree_leaf_deriv (Build_leafdev n b cb _) s p); exact Hk).
  unfold leaf_deriv; cbn [ld_kind mleaf mkind]. cbn [exec_kind_all ld_kind] in Hk.
  rewrite rl_vadd. f_equal. apply (instances_agree_fn f s Hk).
Qed.
