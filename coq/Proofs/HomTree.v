(* The two instances agree on device TREES: for any units whose cost / marginal cost agree through Q2R (proved for the atomic devices in
   HomLeaf.v / HomFn.v), the tree cost and the tree marginal cost agree, for every tree (any depth, fan-out, adaptors) and any flow and price
   matrices.  Induction on the tree. *)
From Coq Require Import ZArith QArith Qreals Reals List Bool Lra Lia String.
From DK Require Import Num NumQ NumR Vec.
From DK.Model Require Import Leaf Fn Dev Tree.
From DK.Proofs Require Import Hom HomLeaf HomHess.
Import ListNotations.
Local Open Scope R_scope.

Section HomTree.
  Variables (LQ LR : Type) (opsQ : leafops Q LQ) (opsR : leafops R LR) (m : LQ -> LR).
  (* the units agree *)
  Hypothesis Hrows : forall l, l_rows LR opsR (m l) = l_rows LQ opsQ l.
  Hypothesis Hn : forall l, l_n LR opsR (m l) = l_n LQ opsQ l.
  Hypothesis Hcost : forall l s p, Q2R (l_cost LQ opsQ l s p) = l_cost LR opsR (m l) (rl s) (rl p).
  Hypothesis Hderiv : forall l s p, rl (l_deriv LQ opsQ l s p) = l_deriv LR opsR (m l) (rl s) (rl p).

  Fixpoint mdev (d : gdev Q LQ) : gdev R LR :=
    match d with
    | Leaf i l => Leaf i (m l)
    | DSet i ks sb => DSet i (map mdev ks) (option_map mbnd sb)
    | SubBal i ks sb lb e sg rmn => SubBal i (map mdev ks) (option_map mbnd sb) lb e (Q2R sg) rmn
    | MF i l fl => MF i (m l) fl
    | TwoRatio i l fl r e => TwoRatio i (m l) fl (Q2R (fst r), Q2R (snd r)) e
    end.

  Lemma rows_mdev d : rows opsR (mdev d) = rows opsQ d.
  Proof.
    induction d as [i l|i ks sb IH|i ks sb lb e sg rmn IH|i l fl|i l fl r e] using gdev_induction; cbn [mdev rows]; auto.
    - induction IH as [|k ks Hk _ IHks]; cbn [map]; [reflexivity|]. now rewrite Hk, IHks.
    - induction IH as [|k ks Hk _ IHks]; cbn [map]; [reflexivity|]. now rewrite Hk, IHks.
  Qed.

  Lemma rm_rslice o r (S : list (list Q)) : rm (rslice o r S) = rslice o r (rm S).
  Proof. unfold rslice, rm. now rewrite skipn_map, firstn_map. Qed.
  Lemma rl_concat (S : list (list Q)) : rl (List.concat S) = List.concat (rm S).
  Proof. unfold rl, rm. now rewrite concat_map. Qed.
  Lemma rl_colsum n (S : list (list Q)) : rl (colsum n S) = colsum n (rm S).
  Proof. unfold colsum. induction S as [|r S IH]; cbn [fold_right rm map]; [apply rl_zeros|]. now rewrite rl_vadd, IH. Qed.
  Lemma hom_vsum_map2_dot (S P : list (list Q)) : Q2R (vsum (map2 dot S P)) = vsum (map2 dot (rm S) (rm P)).
  Proof.
    rewrite hom_vsum'. f_equal. revert P; induction S as [|s S IH]; intros [|p P]; try reflexivity.
    cbn [map2 rl rm map]. rewrite hom_dot'. f_equal. apply IH.
  Qed.
  Lemma rm_map2_vadd (A B : list (list Q)) : rm (map2 vadd A B) = map2 vadd (rm A) (rm B).
  Proof. revert B; induction A as [|a A IH]; intros [|b B]; try reflexivity. cbn [map2 rm map]. rewrite rl_vadd. f_equal. apply IH. Qed.
  Lemma rm_repeat (v : list Q) k : rm (repeat v k) = repeat (rl v) k.
  Proof. induction k as [|k IH]; [reflexivity|]. cbn [repeat rm map]. f_equal. exact IH. Qed.
  Lemma rm_app (A B : list (list Q)) : rm (A ++ B) = rm A ++ rm B.
  Proof. apply map_app. Qed.

  Theorem instances_agree_tree_cost d : forall S P, Q2R (gcost opsQ d S P) = gcost opsR (mdev d) (rm S) (rm P).
  Proof.
    induction d as [i l|i ks sb IH|i ks sb lb e sg rmn IH|i l fl|i l fl r e] using gdev_induction; intros S P.
    - cbn [gcost mdev]. now rewrite Hcost, !rl_concat.
    - cbn [mdev]. rewrite !gcost_kids. generalize 0%nat. induction IH as [|k ks Hk _ IHks]; intros o; cbn [kids_cost map]; [apply hom_0|].
      rewrite hom_add, Hk, !rm_rslice, rows_mdev, IHks. reflexivity.
    - cbn [mdev]. rewrite !gcost_kids_sub. generalize 0%nat. induction IH as [|k ks Hk _ IHks]; intros o; cbn [kids_cost map]; [apply hom_0|].
      rewrite hom_add, Hk, !rm_rslice, rows_mdev, IHks. reflexivity.
    - cbn [gcost mdev]. unfold mf_cost. now rewrite hom_add, Hcost, rl_colsum, rl_zeros, Hn, hom_vsum_map2_dot.
    - cbn [gcost mdev]. unfold mf_cost. now rewrite hom_add, Hcost, rl_colsum, rl_zeros, Hn, hom_vsum_map2_dot.
  Qed.

  Theorem instances_agree_tree_deriv d : forall S P, rm (gderiv opsQ d S P) = gderiv opsR (mdev d) (rm S) (rm P).
  Proof.
    induction d as [i l|i ks sb IH|i ks sb lb e sg rmn IH|i l fl|i l fl r e] using gdev_induction; intros S P.
    - cbn [gderiv mdev rm map]. now rewrite Hderiv, !rl_concat.
    - cbn [mdev]. rewrite !gderiv_kids. generalize 0%nat. induction IH as [|k ks Hk _ IHks]; intros o; cbn [kids_deriv map]; [reflexivity|].
      rewrite rm_app, Hk, !rm_rslice, rows_mdev, IHks. reflexivity.
    - cbn [mdev]. rewrite !gderiv_kids_sub. generalize 0%nat. induction IH as [|k ks Hk _ IHks]; intros o; cbn [kids_deriv map]; [reflexivity|].
      rewrite rm_app, Hk, !rm_rslice, rows_mdev, IHks. reflexivity.
    - cbn [gderiv mdev]. unfold mf_deriv. now rewrite rm_map2_vadd, rm_repeat, Hderiv, rl_colsum, rl_zeros, Hn.
    - cbn [gderiv mdev]. unfold mf_deriv. now rewrite rm_map2_vadd, rm_repeat, Hderiv, rl_colsum, rl_zeros, Hn.
  Qed.
End HomTree.
