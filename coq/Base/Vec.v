(* List-as-vector operations shared by every model file (polymorphic in the carrier). *)
From Coq Require Import ZArith List Bool Arith Lia.
From DK Require Import Num.
Import ListNotations.

Section Vec.
  Context {A : Type} `{Num A}.
  Local Open Scope num_scope.

  Definition vsum (l : list A) : A := fold_right nadd n0 l.
  Fixpoint map2 {B C D} (f : B -> C -> D) (l : list B) (m : list C) : list D :=
    match l, m with
    | x :: l', y :: m' => f x y :: map2 f l' m'
    | _, _ => []
    end.
  Definition vadd := map2 nadd.
  Definition vsub := map2 nsub.
  Definition vmul := map2 nmul.
  Definition vscale (c : A) (l : list A) : list A := map (nmul c) l.
  Definition vopp (l : list A) : list A := map nopp l.
  Definition dot (a b : list A) : A := vsum (vmul a b).
  Definition vconst (n : nat) (c : A) : list A := repeat c n.
  Definition ones (n : nat) : list A := vconst n n1.
  Definition zeros (n : nat) : list A := vconst n n0.
  Definition nth0 (k : nat) (l : list A) : A := nth k l n0.
  Fixpoint upd {B} (l : list B) (k : nat) (v : B) : list B :=
    match l, k with
    | [], _ => []
    | _ :: l', O => v :: l'
    | x :: l', S k' => x :: upd l' k' v
    end.
  Definition slice {B} (s e : nat) (l : list B) : list B := firstn (e - s) (skipn s l).
  (* unit vector *)
  Definition evec (n k : nat) : list A := upd (zeros n) k n1.
  (* matrices are lists of rows *)
  Definition colsum (n : nat) (m : list (list A)) : list A :=
    fold_right vadd (zeros n) m.
  Definition mvmul (m : list (list A)) (v : list A) : list A := map (fun row => dot row v) m.
  Fixpoint chunk {B} (fuel : nat) (n : nat) (l : list B) : list (list B) :=
    match fuel with
    | O => []
    | S f => match l with [] => [] | _ => firstn n l :: chunk f n (skipn n l) end
    end.
  Definition reshape {B} (rows n : nat) (l : list B) : list (list B) := chunk rows n l.
  Definition vall (f : A -> bool) (l : list A) : bool := forallb f l.
  Definition vany (f : A -> bool) (l : list A) : bool := existsb f l.
  Definition diag (d : list A) : list (list A) :=
    let n := length d in
    map (fun i => map (fun j => if Nat.eqb i j then nth0 i d else n0) (seq 0 n)) (seq 0 n).
  Definition mconst (r c : nat) (v : A) : list (list A) := repeat (repeat v c) r.
  Definition madd := map2 vadd.
  Definition mscale (c : A) (m : list (list A)) := map (vscale c) m.
End Vec.
