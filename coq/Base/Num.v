(* Numeric carrier: every model function is written once over this class and
   instantiated at Q (to run under vm_compute) and at R (to state theorems). *)
From Coq Require Import ZArith List Bool.
Import ListNotations.

Class Num (A : Type) := {
  n0 : A; n1 : A;
  nadd : A -> A -> A; nmul : A -> A -> A; nsub : A -> A -> A; ndiv : A -> A -> A;
  nopp : A -> A;
  nleb : A -> A -> bool;   (* x <= y *)
  neqb : A -> A -> bool;   (* x == y *)
  nofZ : Z -> A;
  npw  : A -> A -> A       (* x ** e  (Python float power; see the instances) *)
}.

Declare Scope num_scope.
Delimit Scope num_scope with num.
Infix "+" := nadd : num_scope.
Infix "*" := nmul : num_scope.
Infix "-" := nsub : num_scope.
Infix "/" := ndiv : num_scope.
Notation "- x" := (nopp x) : num_scope.
Infix "<=?" := nleb : num_scope.
Infix "=?" := neqb : num_scope.

Section Derived.
  Context {A : Type} `{Num A}.
  Local Open Scope num_scope.

  Definition nltb (x y : A) : bool := negb (y <=? x).
  Definition nmin (x y : A) : A := if x <=? y then x else y.
  Definition nmax (x y : A) : A := if x <=? y then y else x.
  Definition nabs (x : A) : A := if n0 <=? x then x else - x.
  Definition n2 : A := nofZ 2.
  Definition nsq (x : A) : A := x * x.
  Fixpoint npown (x : A) (k : nat) : A :=
    match k with O => n1 | S k' => x * npown x k' end.
  Definition nofnat (k : nat) : A := nofZ (Z.of_nat k).
  (* numpy.sign *)
  Definition nsign (x : A) : A := if x =? n0 then n0 else if n0 <=? x then n1 else - n1.
End Derived.
Infix "<?" := nltb : num_scope.
