(* Proof instance: classical reals. *)
From Coq Require Import ZArith Reals List Bool Lra.
From DK Require Import Num.
Local Open Scope R_scope.

Definition Rleb (x y : R) : bool := if Rle_dec x y then true else false.
Definition Reqb (x y : R) : bool := if Req_EM_T x y then true else false.
(* x ** e : integer exponents through powerRZ, anything else through Rpower *)
Definition Rpw (x e : R) : R :=
  let z := (up e - 1)%Z in
  if Req_EM_T (IZR z) e then powerRZ x z else Rpower x e.

#[export] Instance NumR : Num R := {|
  n0 := 0; n1 := 1;
  nadd := Rplus; nmul := Rmult; nsub := Rminus; ndiv := Rdiv; nopp := Ropp;
  nleb := Rleb; neqb := Reqb;
  nofZ := IZR;
  npw := Rpw
|}.

Lemma Rleb_true x y : Rleb x y = true <-> x <= y.
Proof. unfold Rleb; destruct (Rle_dec x y); split; intros; auto; try discriminate; contradiction. Qed.
Lemma Rleb_false x y : Rleb x y = false <-> y < x.
Proof. unfold Rleb; destruct (Rle_dec x y); split; intros; auto; try discriminate; lra. Qed.
Lemma Reqb_true x y : Reqb x y = true <-> x = y.
Proof. unfold Reqb; destruct (Req_EM_T x y); split; intros; auto; try discriminate; contradiction. Qed.
Lemma Reqb_false x y : Reqb x y = false <-> x <> y.
Proof. unfold Reqb; destruct (Req_EM_T x y); split; intros; auto; try discriminate; contradiction. Qed.

Lemma up_IZR z : (up (IZR z) = z + 1)%Z.
Proof.
  symmetry; apply tech_up; rewrite plus_IZR; simpl; lra.
Qed.
Lemma Rpw_IZR x z : Rpw x (IZR z) = powerRZ x z.
Proof.
  unfold Rpw. rewrite up_IZR. replace (z + 1 - 1)%Z with z by ring.
  destruct (Req_EM_T (IZR z) (IZR z)); congruence.
Qed.
Lemma Rpw_nat x (k : nat) : Rpw x (IZR (Z.of_nat k)) = x ^ k.
Proof. rewrite Rpw_IZR. rewrite <- pow_powerRZ. reflexivity. Qed.
