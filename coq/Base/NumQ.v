(* Executable instance: exact rationals, reduced after every operation. No Reals here. *)
From Coq Require Import ZArith QArith Qabs List Bool.
From DK Require Import Num.

Definition Qpw (x e : Q) : Q :=
  let e' := Qred e in
  match Qden e' with
  | 1%positive => Qred (Qpower x (Qnum e'))
  | _ => 0   (* non-integer exponent: outside the executable fragment *)
  end.

#[export] Instance NumQ : Num Q := {|
  n0 := 0; n1 := 1;
  nadd x y := Qred (x + y); nmul x y := Qred (x * y); nsub x y := Qred (x - y);
  ndiv x y := Qred (x / y); nopp x := Qred (- x);
  nleb := Qle_bool; neqb := Qeq_bool;
  nofZ z := inject_Z z;
  npw := Qpw
|}.

(* comparison helper used by the correspondence files: |m - i| <= tol * (1 + |i|) *)
Definition Qclose (tol m i : Q) : bool :=
  Qle_bool (Qabs (Qred (m - i))) (tol * (1 + Qabs i)).
Definition Qtol : Q := 1 # 1000000000.
Fixpoint Qclose_list (tol : Q) (m i : list Q) : bool :=
  match m, i with
  | nil, nil => true
  | x :: m', y :: i' => Qclose tol x y && Qclose_list tol m' i'
  | _, _ => false
  end.
Fixpoint Qclose_mat (tol : Q) (m i : list (list Q)) : bool :=
  match m, i with
  | nil, nil => true
  | x :: m', y :: i' => Qclose_list tol x y && Qclose_mat tol m' i'
  | _, _ => false
  end.
(* indices of failing cases *)
Fixpoint failing_from {C} (k : nat) (chk : C -> bool) (cs : list C) : list nat :=
  match cs with
  | nil => nil
  | c :: cs' => if chk c then failing_from (S k) chk cs' else k :: failing_from (S k) chk cs'
  end.
Definition failing {C} (chk : C -> bool) (cs : list C) : list nat := failing_from 0 chk cs.
