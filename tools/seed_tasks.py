#!/usr/bin/env python3
"""Prepare scratch worktrees and task files for a wave of independent sub-agents that seed property-breaking changes.

  tools/seed_tasks.py <wave_dir> <hints.json>     one private worktree of /repo HEAD per property under <wave_dir>/<ID>, with
                                                  <wave_dir>/<ID>/out/TASK.md holding ONLY the property text and generic instructions
The sub-agents get nothing from /verif.  Evaluate what they produce with tools/eval_seeded.py import <wave_dir>/<ID>/out <name>.
"""
import json
import os
import subprocess
import sys

T = '''# Task: seed one realistic property-breaking change into a private worktree

You work ONLY inside the private git worktree `{wt}` of the Python library sgpinkus/microgrid_device_kit
(package `device_kit`, convex flow-device models composed into device trees, solved with scipy SLSQP).
Never touch or read `/repo` or `/verif`. Use `/venv/bin/python` (the library's dependencies are installed there;
put `{wt}` first on `sys.path` / `PYTHONPATH` so your worktree's `device_kit` is imported, and verify that with
`device_kit.__file__`). There is no network. Do NOT use `git stash` (the stash is shared by all worktrees of this repository and
other agents work concurrently); to compare with the clean tree use `git diff > out/patch.diff; git checkout -- .; ...; git apply out/patch.diff`.

Existing test suite: `cd {wt} && /venv/bin/python -m pytest -q -p no:cacheprovider --timeout=900 --continue-on-collection-errors tests`
(tests/test_all.py has a pre-existing collection error). Record the exact per-test outcome BEFORE you change anything; three
TestTDevice::test_solve* tests depend on the optimiser's trajectory, so run the suite 2-3 times.

## The property (semantic, must hold for every input; unit tests cannot settle it)

**{id} - {title}**

{statement}

Quantifier: {qtext}

Why tests cannot settle it: {why}

## What to produce

A change to the library source (NOT to tests) that **breaks this property** while the package still imports and the
existing test suite gives exactly the same per-test outcome as before. It must look like something a maintainer could
plausibly commit (refactoring slip, "optimisation"/vectorisation, caching, off-by-one, wrong variable, operator
precedence, a relaxed or reordered check, aliasing instead of copying, ...), not sabotage, and it should need something
specific to manifest: an unusual but legal input or parameter combination, a particular horizon length or tree shape, a
multi-step sequence of calls, or two cooperating sites that each look fine alone. Not something ordinary use would expose at once.
Prefer a site in or near: {hint}. Keep the diff small (a few lines to ~30).

Deliverables, all under `{wt}/out/`:

1. `patch.diff` - `git diff` against HEAD of the worktree (must apply with `git apply` on a clean checkout).
2. `demo.py` - a self-contained demonstration invoked as `/venv/bin/python demo.py <path-to-a-checkout>`; it inserts that path
   first in `sys.path`, exercises the property on concrete inputs, and **exits 0 if the property holds on them, exits 1
   (printing what failed) if it is violated**. It must exit 0 on the unchanged tree and 1 with your patch applied. Judge
   the property with an independent oracle (finite differences, brute-force recomputation from the documented formula, a
   freshly built twin, ...), not by comparing with a copy of the old code.
3. `meta.json` - {{"property": "{id}", "summary": "...what the change does and why it breaks the property...",
   "needs_to_manifest": "...what input/sequence is needed and what does NOT expose it...", "files_changed": [...],
   "suite_before": "...", "suite_after": "..."}}.

Verify yourself: suite identical before/after; demo exit codes 0 (clean) and 1 (patched). Finish with the worktree
clean (`git -C {wt} checkout -- .`; `out/` is untracked and stays). Report in your final message: one-paragraph
summary, the demo exit codes you observed, and the suite results before/after.
'''


def main():
  wave, hints = sys.argv[1], json.load(open(sys.argv[2]))
  here = os.path.dirname(os.path.dirname(os.path.abspath(__file__)))
  props = {json.loads(l)['id']: json.loads(l) for l in open(os.path.join(here, 'properties.jsonl'))}
  os.makedirs(wave, exist_ok=True)
  for pid, hint in hints.items():
    p = props[pid]
    wt = os.path.join(wave, pid)
    subprocess.run('git -C /repo worktree add --detach -f %s HEAD >/dev/null 2>&1; mkdir -p %s/out' % (wt, wt), shell=True)
    open(os.path.join(wt, 'out', 'TASK.md'), 'w').write(T.format(wt=wt, id=pid, title=p['title'], statement=p['statement'],
                                                                 qtext=p['quantifier']['text'], why=p['why_tests_cant'], hint=hint))
  print(sorted(os.listdir(wave)))


if __name__ == '__main__':
  main()
