#!/usr/bin/env python3
"""Regenerate the generated parts of DESIGN.md in place: the seeded-change matrix of 9.4, the harmless-refactoring table, and 9.5
(per-property state from MANIFEST.json and coq/Props/*.v)."""
import json, os, re, subprocess
V = os.path.dirname(os.path.dirname(os.path.abspath(__file__)))
d = open(os.path.join(V, 'DESIGN.md')).read()
m = json.load(open(os.path.join(V, 'MANIFEST.json')))

table = subprocess.run([os.path.join(V, 'tools', 'eval_seeded.py'), 'table'], stdout=subprocess.PIPE, text=True).stdout.strip()
rows = []
hd = os.path.join(V, 'harmless')
for name in sorted(os.listdir(hd)) if os.path.isdir(hd) else []:
  mp = os.path.join(hd, name, 'meta.json')
  if not os.path.exists(mp):
    continue
  meta = json.load(open(mp))
  ev = meta.get('evaluation', {})
  summ = meta.get('summary', '')
  nref = len(summ) if isinstance(summ, list) else ''
  rows.append('| %s | %s | %s | %s | %s | %s |' % (name, ', '.join(os.path.basename(f) for f in meta.get('files_changed', []))[:90], nref,
              'identical' if ev.get('equiv_identical') else ev.get('equiv_identical'), len(ev.get('checks', {})), ', '.join(ev.get('false_alarms', [])) or 'none'))
harmless = ('| set | files | refactorings | behavioural digest | checks run | alarms |\n|---|---|---|---|---|---|\n' + '\n'.join(rows)) if rows else ''

s95 = ['### 9.5 Per-property state (generated from MANIFEST.json and coq/Props/*.v by tools/design_sections.py)\n']
for c in m['checks']:
  pid = c['property_id']
  txt = open(os.path.join(V, 'coq', 'Props', pid + '.v')).read()
  thms = re.findall(r'^\s*(?:Theorem|Example)\s+(\w+)', txt, re.M)
  s95.append('#### %s\n\n%s\n\n*Assumed / partial:* %s\n\n*Technique:* %s\n\n*Theorems (%d):* %s\n' % (
      pid, c['level_claimed']['text'], c.get('level_note', ''), c.get('technique', ''), len(thms), ', '.join('`%s`' % t for t in thms)))

a = d.index('| seeded change | what it does |')
b = d.index('### 9.5')
mid = d[a:b]
# keep whatever prose follows the table inside 9.4 (starts after the last table row)
lines = mid.split('\n')
k = 0
while k < len(lines) and lines[k].startswith('|'):
  k += 1
prose = '\n'.join(lines[k:])
prose = re.sub(r'\n#### Harmless refactorings.*?(?=\n### |\Z)', '\n', prose, flags=re.S)
new_mid = table + '\n' + prose.rstrip('\n') + '\n\n#### Harmless refactorings (tools/eval_harmless.py; every check must exit 0)\n\n' + harmless + '\n\n'
d = d[:a] + new_mid + '\n'.join(s95)
open(os.path.join(V, 'DESIGN.md'), 'w').write(d)
print('DESIGN.md sections regenerated: %d seeded rows, %d harmless rows, %d properties' % (table.count('\n') - 1, len(rows), len(m['checks'])))
