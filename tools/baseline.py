#!/usr/bin/env python3
"""Run the repository's pinned suite (guard variable unset) and check that every test listed as stable in
/root/.vp/BASELINE.json passes. Exit 0 iff all stable tests pass."""
import json, os, subprocess, sys, tempfile, xml.etree.ElementTree as ET
base = json.load(open('/root/.vp/BASELINE.json'))
env = dict(os.environ)
env.pop('DEVICE_KIT_VERIF', None)
out = tempfile.mktemp(suffix='.xml')
repo = os.environ.get('VERIF_REPO', '/repo')
env['PYTHONPATH'] = repo
subprocess.run('cd ' + repo + ' && /venv/bin/python -m pytest -ra -q -p no:cacheprovider --timeout=900 --continue-on-collection-errors --junitxml=%s' % out,
               shell=True, env=env, stdout=subprocess.DEVNULL, stderr=subprocess.DEVNULL)
passed = set()
for tc in ET.parse(out).getroot().iter('testcase'):
  if not any(ch.tag in ('failure', 'error', 'skipped') for ch in tc):
    passed.add('%s::%s' % (tc.get('classname'), tc.get('name')))
os.remove(out)
missing = [t for t in base['stable_pass'] if t not in passed]
print('stable tests passing: %d/%d' % (len(base['stable_pass']) - len(missing), len(base['stable_pass'])))
for m in missing:
  print('NOT PASSING:', m)
sys.exit(1 if missing else 0)
