#!/bin/bash
# For each given seeded change: run ALL registered checks against it (private worktree + private copy of /verif) and list which checks
# alarm, with or without a failing input.  Usage: tools/cross_alarms.sh <lanes> <name> [<name> ...]   -> /tmp/cross.result
cd "$(dirname "$0")/.."
lanes=$1; shift
ids=$(python3 -c "import json; print(' '.join(c['property_id'] for c in json.load(open('MANIFEST.json'))['checks']))")
rm -f /tmp/cross.*.log
i=0
for n in "$@"; do
  k=$((i % lanes))
  echo "$n" >> /tmp/cross.$k.names
  i=$((i+1))
done
for k in $(seq 0 $((lanes-1))); do
  ( [ -f /tmp/cross.$k.names ] && while read n; do
      EVAL_BASE=/tmp/mt_cross_$k EVAL_NO_RECORD=1 python3 tools/eval_seeded.py run $n $ids 2>&1 | tail -1 >> /tmp/cross.$k.log
    done < /tmp/cross.$k.names
    EVAL_BASE=/tmp/mt_cross_$k python3 tools/eval_seeded.py clean >/dev/null 2>&1; rm -f /tmp/cross.$k.names ) &
done
wait
cat /tmp/cross.?.log | sort > /tmp/cross.result
cat /tmp/cross.result
