#!/usr/bin/env python3
"""Evaluate seeded breaking changes.

  tools/eval_seeded.py import <src_dir> <name>      copy <src_dir>/{patch.diff,demo.py,meta.json} to seeded/<name>/ and evaluate it
  tools/eval_seeded.py run <name> [ID ...]          (re-)evaluate seeded/<name>: confirm it applies to /repo HEAD in a private
                                                    worktree, the 53-test baseline still passes, the demonstration passes without
                                                    and fails with the patch, then run the given checks (default: the property it
                                                    targets) against the patched worktree with a private copy of /verif.
  tools/eval_seeded.py table                        print the matrix (seeded change x check -> caught / missed)

Nothing is ever applied to /repo itself. Results are recorded in seeded/<name>/meta.json under "evaluation".
"""
import json
import os
import shutil
import subprocess
import sys

VERIF = os.path.dirname(os.path.dirname(os.path.abspath(__file__)))
SEEDED = os.path.join(VERIF, 'seeded')
BASE = os.environ.get('EVAL_BASE', '/tmp/mt_seedeval')
WT = BASE + '/repo'
VF = BASE + '/verif'


def sh(cmd, **kw):
  p = subprocess.run(cmd, shell=True, stdout=subprocess.PIPE, stderr=subprocess.STDOUT, text=True, **kw)
  return p.returncode, p.stdout


def fresh_worktree():
  os.makedirs(BASE, exist_ok=True)
  if not os.path.isdir(WT):
    sh('git -C /repo worktree add --detach -f %s HEAD' % WT)
  head = sh('git -C /repo rev-parse HEAD')[1].strip()
  sh('git -C %s checkout -q --detach %s; git -C %s checkout -q -- .; git -C %s clean -fdq' % (WT, head, WT, WT))
  return head


def evaluate(name, ids):
  d = os.path.join(SEEDED, name)
  meta = json.load(open(os.path.join(d, 'meta.json')))
  prop = meta.get('property', name.split('_')[0])
  prop = prop if isinstance(prop, str) and prop.startswith('C') and len(prop) <= 4 else name.split('_')[0]
  ids = ids or [prop]
  ev = {'property': prop}
  head = fresh_worktree()
  ev['repo_head'] = head[:7]
  rc, out = sh('/venv/bin/python %s %s' % (os.path.join(d, 'demo.py'), WT))
  ev['demo_unpatched_exit'] = rc
  rc, out = sh('git -C %s apply %s' % (WT, os.path.join(d, 'patch.diff')))
  ev['applies'] = rc == 0
  if rc != 0:
    ev['apply_error'] = out[-300:]
    meta['evaluation'] = ev
    json.dump(meta, open(os.path.join(d, 'meta.json'), 'w'), indent=1)
    print(name, 'PATCH DOES NOT APPLY', out[-200:])
    return ev
  rc, out = sh('/venv/bin/python %s %s' % (os.path.join(d, 'demo.py'), WT))
  ev['demo_patched_exit'] = rc
  ev['demo_patched_tail'] = out.strip()[-300:]
  rc, out = sh('VERIF_REPO=%s python3 %s/tools/baseline.py' % (WT, VERIF))
  ev['baseline'] = out.strip().split('\n')[0]
  ev['baseline_ok'] = rc == 0
  sh('mkdir -p %s && rsync -a --delete --exclude .git --exclude replays --exclude coq/Cases %s/ %s/' % (VF, VERIF, VF))
  ev['checks'] = {}
  for i in ids:
    rc, out = sh('cd %s && VERIF_REPO=%s ./check %s' % (VF, WT, i))
    lines = [l for l in out.strip().split('\n') if l.startswith('VIOLATION') or ' ok:' in l or 'FAIL' in l]
    ev['checks'][i] = {'exit': rc, 'lines': lines[-3:], 'caught': rc == 1 and any(l.startswith('VIOLATION') for l in lines),
                       'with_failing_input': any(l.startswith('VIOLATION') and 'no-failing-input-found' not in l for l in lines)}
  sh('git -C %s checkout -q -- .' % WT)
  if os.environ.get('EVAL_NO_RECORD'):
    print(name, 'seed', os.environ.get('VERIF_SEED'), {k: ('CAUGHT' + ('' if v['with_failing_input'] else '(no-input)')) if v['caught'] else 'missed' for k, v in ev['checks'].items()})
    return ev
  meta['evaluation'] = ev
  meta['what_was_run'] = ('tools/eval_seeded.py run %s %s: demo.py on a clean worktree of /repo HEAD (exit %s) and with patch.diff applied '
                          '(exit %s); python3 tools/baseline.py on the patched worktree (%s); ./check <id> from a private copy of /verif '
                          'with VERIF_REPO pointing at the patched worktree') % (name, ' '.join(ids), ev['demo_unpatched_exit'],
                                                                               ev['demo_patched_exit'], ev['baseline'])
  json.dump(meta, open(os.path.join(d, 'meta.json'), 'w'), indent=1)
  print(name, 'demo %s/%s' % (ev['demo_unpatched_exit'], ev['demo_patched_exit']), ev['baseline'],
        {k: ('CAUGHT' + ('' if v['with_failing_input'] else '(no-input)')) if v['caught'] else 'missed' for k, v in ev['checks'].items()})
  return ev


def main():
  if len(sys.argv) < 2:
    print(__doc__)
    return 2
  cmd = sys.argv[1]
  if cmd == 'import':
    src, name = sys.argv[2], sys.argv[3]
    dst = os.path.join(SEEDED, name)
    os.makedirs(dst, exist_ok=True)
    for f in ('patch.diff', 'demo.py', 'meta.json'):
      shutil.copy(os.path.join(src, f), os.path.join(dst, f))
    evaluate(name, sys.argv[4:])
  elif cmd == 'run':
    evaluate(sys.argv[2], sys.argv[3:])
  elif cmd == 'table':
    rows = []
    for name in sorted(os.listdir(SEEDED)):
      mp = os.path.join(SEEDED, name, 'meta.json')
      if not os.path.exists(mp):
        continue
      m = json.load(open(mp))
      ev = m.get('evaluation', {})
      cs = ev.get('checks', {})
      rows.append('| %s | %s | %s | %s | %s |' % (name, m.get('summary', '')[:90].replace('|', '/'),
                  'ok' if ev.get('demo_unpatched_exit') == 0 and ev.get('demo_patched_exit') == 1 and ev.get('baseline_ok') else 'UNCONFIRMED',
                  ', '.join(k for k, v in cs.items() if v['caught']) or '-', ', '.join(k for k, v in cs.items() if not v['caught']) or '-'))
    print('| seeded change | what it does | confirmed | caught by | missed by |\n|---|---|---|---|---|')
    print('\n'.join(rows))
  elif cmd == 'clean':
    sh('git -C /repo worktree remove --force %s; rm -rf %s; git -C /repo worktree prune' % (WT, BASE))
  return 0


if __name__ == '__main__':
  sys.exit(main())
