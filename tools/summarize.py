#!/usr/bin/env python3
"""Print a markdown summary per registered property: theorem names in coq/Props/CXX.v, last evidence numbers."""
import json, os, re, glob
V = os.path.dirname(os.path.dirname(os.path.abspath(__file__)))
m = json.load(open(os.path.join(V, 'MANIFEST.json')))
for c in m['checks']:
  pid = c['property_id']
  txt = open(os.path.join(V, 'coq', 'Props', pid + '.v')).read()
  thms = re.findall(r'^\s*(?:Theorem|Example)\s+(\w+)', txt, re.M)
  ev = {}
  try:
    ev = json.load(open(os.path.join(V, 'evidence', pid + '.json')))
  except Exception:
    pass
  cov = ev.get('coverage', {})
  print('**%s** - %d theorems/examples; last %s run: %s obligations, %s cases (%s non-trivial), %.0f s.' % (
      pid, len(thms), ev.get('tier'), cov.get('obligations'), cov.get('evaluations'), cov.get('distinct_nontrivial'), ev.get('wall_s', 0)))
  print('  ' + ', '.join('`%s`' % t for t in thms))
  print()
