#!/usr/bin/env python3
"""Fail if the Coq development contains an escape hatch: Admitted/admit/Axiom/Parameter/Conjecture/Admit Obligations,
Variable/Hypothesis outside a Section, or a switch that disables the guard/positivity/universe checks.
Comments and string literals are stripped first. Usage: lint_coq.py <dir>..."""
import os, re, sys

def strip(text):
  out, i, depth, n = [], 0, 0, len(text)
  instr = False
  while i < n:
    if depth == 0 and text[i] == '"':
      instr = not instr; i += 1; continue
    if instr:
      i += 1; continue
    if text.startswith('(*', i):
      depth += 1; i += 2; continue
    if depth and text.startswith('*)', i):
      depth -= 1; i += 2; continue
    if depth == 0:
      out.append(text[i])
    i += 1
  return ''.join(out)

BAD = re.compile(r'\b(Admitted|admit|Axiom|Axioms|Parameter|Parameters|Conjecture|Conjectures)\b|Admit\s+Obligations|Unset\s+Guard|bypass_check|Unset\s+Positivity|Unset\s+Universe|type-in-type|impredicative-set|Abort\s+All')
bad = []
for root in sys.argv[1:]:
  for d, _, fs in os.walk(root):
    for f in fs:
      if not f.endswith('.v'):
        continue
      p = os.path.join(d, f)
      code = strip(open(p).read())
      for m in BAD.finditer(code):
        bad.append('%s: %s' % (p, m.group(0)))
      # Variable / Hypothesis outside sections
      depth = 0
      for line in code.split('\n'):
        if re.match(r'\s*(Section|Module\s+Type)\b', line):
          depth += 1
        elif re.match(r'\s*End\b', line):
          depth = max(0, depth - 1)
        elif depth == 0 and re.match(r'\s*(Variable|Variables|Hypothesis|Hypotheses|Context)\b', line):
          bad.append('%s: %s outside a Section' % (p, line.strip()[:60]))
for b in bad:
  print('forbidden:', b)
sys.exit(1 if bad else 0)
