#!/usr/bin/env python3
"""tools/register.py CXX "level text" "level note" "technique" [category]  -- add/replace a check in MANIFEST.json"""
import json, sys
pid, text, note, tech = sys.argv[1:5]
cat = sys.argv[5] if len(sys.argv) > 5 else 'proof'
m = json.load(open('/verif/MANIFEST.json'))
m['checks'] = [c for c in m['checks'] if c['property_id'] != pid]
m['checks'].append({
  'property_id': pid, 'quick_cmd': './check %s --tier quick' % pid, 'thorough_cmd': './check %s --tier thorough' % pid,
  'evidence_file': 'evidence/%s.json' % pid, 'replay_cmd_template': './check %s --replay {path}' % pid, 'engine': 'coq-model',
  'level_claimed': {'category': cat, 'text': text, 'design_ref': 'DESIGN.md section 5 %s' % pid},
  'level_note': note, 'technique': tech})
m['checks'].sort(key=lambda c: c['property_id'])
m['not_applicable'] = [n for n in m.get('not_applicable', []) if n['property_id'] != pid]
for e in m['engines']:
  if pid not in e['serves_properties']:
    e['serves_properties'] = sorted(e['serves_properties'] + [pid])
json.dump(m, open('/verif/MANIFEST.json', 'w'), indent=1)
print('registered', pid)
