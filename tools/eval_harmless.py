#!/usr/bin/env python3
"""Evaluate behaviour-preserving refactorings (false-alarm test).

  tools/eval_harmless.py import <src_dir> <name> [--base <commit>] [ID ...]
      copy <src_dir>/{patch.diff,equiv.py,meta.json} to harmless/<name>/, apply the patch to a private worktree of /repo at
      <commit> (default HEAD), confirm the 53-test baseline and the refactoring's own equivalence digest (equiv.py on the clean and
      on the patched worktree), then run the given checks (default: all registered) from a private copy of /verif against the
      patched worktree.  Every check must exit 0: a non-zero exit is a FALSE ALARM of the machinery.
Nothing is ever applied to /repo itself.  Results: harmless/<name>/meta.json "evaluation".
"""
import hashlib
import json
import os
import shutil
import subprocess
import sys

VERIF = os.path.dirname(os.path.dirname(os.path.abspath(__file__)))
DST = os.path.join(VERIF, 'harmless')


def sh(cmd):
  p = subprocess.run(cmd, shell=True, stdout=subprocess.PIPE, stderr=subprocess.STDOUT, text=True)
  return p.returncode, p.stdout


def main():
  a = sys.argv[1:]
  if not a or a[0] not in ('import', 'run'):
    print(__doc__)
    return 2
  if a[0] == 'import':
    src, name, rest = a[1], a[2], a[3:]
    d = os.path.join(DST, name)
    os.makedirs(d, exist_ok=True)
    for f in ('patch.diff', 'equiv.py', 'meta.json'):
      if os.path.exists(os.path.join(src, f)):
        shutil.copy(os.path.join(src, f), os.path.join(d, f))
  else:
    name, rest = a[1], a[2:]
    d = os.path.join(DST, name)
  base = 'HEAD'
  if '--base' in rest:
    i = rest.index('--base'); base = rest[i + 1]; rest = rest[:i] + rest[i + 2:]
  ids = rest or [c['property_id'] for c in json.load(open(os.path.join(VERIF, 'MANIFEST.json')))['checks']]
  B = os.environ.get('EVAL_BASE', '/tmp/mt_harmless_' + name)
  wt, vf = B + '/repo', B + '/verif'
  os.makedirs(B, exist_ok=True)
  if not os.path.isdir(wt):
    sh('git -C /repo worktree add --detach -f %s %s' % (wt, base))
  commit = sh('git -C /repo rev-parse %s' % base)[1].strip()
  sh('git -C %s checkout -q --detach %s; git -C %s checkout -q -- .; git -C %s clean -fdq' % (wt, commit, wt, wt))
  ev = {'base_commit': commit[:7]}
  eq = os.path.join(d, 'equiv.py')
  if os.path.exists(eq):
    rc, out = sh('/venv/bin/python %s %s' % (eq, wt)); ev['equiv_clean'] = hashlib.sha256(out.encode()).hexdigest()[:16]
  rc, out = sh('git -C %s apply %s' % (wt, os.path.join(d, 'patch.diff')))
  ev['applies'] = rc == 0
  if rc == 0:
    if os.path.exists(eq):
      rc, out = sh('/venv/bin/python %s %s' % (eq, wt)); ev['equiv_patched'] = hashlib.sha256(out.encode()).hexdigest()[:16]
      ev['equiv_identical'] = ev['equiv_clean'] == ev['equiv_patched']
    rc, out = sh('VERIF_REPO=%s python3 %s/tools/baseline.py' % (wt, VERIF))
    ev['baseline'] = out.strip().split('\n')[0]
    sh('mkdir -p %s && rsync -a --delete --exclude .git --exclude replays --exclude coq/Cases %s/ %s/' % (vf, VERIF, vf))
    ev['checks'] = {}
    for i in ids:
      rc, out = sh('cd %s && VERIF_REPO=%s ./check %s' % (vf, wt, i))
      lines = [l for l in out.strip().split('\n') if l.startswith('VIOLATION') or ' ok:' in l or 'FAIL' in l]
      ev['checks'][i] = {'exit': rc, 'lines': lines[-3:]}
      if rc != 0:
        ev['checks'][i]['tail'] = out.strip()[-1500:]
    ev['false_alarms'] = sorted(k for k, v in ev['checks'].items() if v['exit'] != 0)
  mp = os.path.join(d, 'meta.json')
  meta = json.load(open(mp)) if os.path.exists(mp) else {}
  meta['evaluation'] = ev
  json.dump(meta, open(mp, 'w'), indent=1)
  print(name, 'base', ev['base_commit'], 'applies', ev['applies'], 'equiv identical', ev.get('equiv_identical'), ev.get('baseline'),
        'FALSE ALARMS: %s' % ev.get('false_alarms'))
  sh('git -C /repo worktree remove --force %s; rm -rf %s; git -C /repo worktree prune' % (wt, B))
  return 0


if __name__ == '__main__':
  sys.exit(main())
