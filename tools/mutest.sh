#!/bin/sh
# Isolated mutation testing: never touches /repo or /verif.
#   tools/mutest.sh <name> <patch.diff | -> <ID> [ID...]    apply the patch ('-' = read from stdin) to a private worktree of
#                                                          /repo HEAD, copy /verif to a private dir, run the checks there
#   tools/mutest.sh <name> --edit                          just (re)create the private worktree and print its path, so you can
#                                                          edit files there by hand; then: tools/mutest.sh <name> --run <ID>...
#   tools/mutest.sh <name> --baseline                      run the 53-test baseline against the private worktree
#   tools/mutest.sh <name> --revert <commit> <ID>...       undo one commit of /repo (e.g. a fix:) in the private worktree, run checks
#   tools/mutest.sh <name> --clean                         remove the private worktree and verif copy
set -e
name=$1; shift
base=/tmp/mt_$name
wt=$base/repo
vf=$base/verif
mkwt() {
  mkdir -p $base
  if [ ! -d $wt ]; then git -C /repo worktree add --detach -f $wt HEAD >/dev/null 2>&1; fi
  git -C $wt checkout -q --detach $(git -C /repo rev-parse HEAD)
  git -C $wt checkout -q -- . ; git -C $wt clean -fdq
}
sync() { mkdir -p $vf; rsync -a --delete --exclude .git --exclude replays --exclude 'coq/Cases' /verif/ $vf/; }
run() { sync; for id in "$@"; do (cd $vf && VERIF_REPO=$wt ./check $id 2>&1 | tail -4); done; }
case "$1" in
  --clean) git -C /repo worktree remove --force $wt 2>/dev/null || true; rm -rf $base; git -C /repo worktree prune; echo cleaned;;
  --edit) mkwt; echo $wt;;
  --run) shift; run "$@";;
  --baseline) VERIF_REPO=$wt python3 /verif/tools/baseline.py;;
  --revert) c=$2; shift; shift; mkwt; git -C /repo show $c | git -C $wt apply -R; git -C $wt diff --stat | tail -1; run "$@";;
  *) patch=$1; shift; mkwt
     if [ "$patch" = "-" ]; then git -C $wt apply -; else git -C $wt apply "$patch"; fi
     git -C $wt diff --stat | tail -1
     run "$@";;
esac
