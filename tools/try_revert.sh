#!/bin/sh
# tools/try_revert.sh <commit> <ID>...  : temporarily revert a fix commit in /repo's working tree, run checks, restore.
c=$1; shift
git -C /repo revert -n $c >/dev/null 2>&1 || { echo "revert failed"; git -C /repo revert --abort 2>/dev/null; git -C /repo checkout -- .; exit 2; }
git -C /repo reset -q
for id in "$@"; do ./check $id 2>&1 | tail -3; done
git -C /repo checkout -- .
git -C /repo status --short | head -3
