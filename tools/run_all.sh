#!/bin/sh
# run every registered check (tier from $1, default quick) and print one line each
tier=${1:-quick}
cd "$(dirname "$0")/.."
for id in $(python3 -c "import json; print(' '.join(c['property_id'] for c in json.load(open('MANIFEST.json'))['checks']))"); do
  out=$(./check $id --tier $tier 2>&1); rc=$?
  echo "$id exit=$rc $(echo "$out" | grep -c '^KNOWN-FINDING') known; $(echo "$out" | tail -1)"
  echo "$out" | grep '^VIOLATION' || true
done
