#!/bin/sh
# Build the Coq development from files on disk (offline), after regenerating coq/Gen from /repo.
# Only what the registered checks need is required to build; other files (work in progress) are attempted but not fatal.
set -e
cd "$(dirname "$0")"
/venv/bin/python - <<'PY'
import json, sys
sys.path.insert(0, 'harness')
import core
# regenerate coq/Gen from /repo; a source the translators do not accept falls back to the committed snapshot (see core.regenerate)
b, fb = core.regenerate(['kernels', 'validators', 'signatures', 'classes', 'projection', 'thermal', 'deviceset', 'functions', 'mfdeviceset', 'storage', 'constraints', 'solve', 'utils', 'loaders', 'basedevice'])
print('regenerated coq/Gen; fallbacks to snapshot:', fb or 'none', '; broken:', b or 'none')
core.ensure_makefile()
m = json.load(open('MANIFEST.json'))
ids = sorted({c['property_id'] for c in m['checks']})
open('coq/.targets', 'w').write(' '.join('Props/%s.vo' % i for i in ids))
PY
cd coq
targets=$(cat .targets)
echo "building: $targets"
timeout 3000 make -j16 --no-print-directory $targets 2>&1 | grep -v '^COQDEP\|^COQC' || true
for t in $targets; do test -f "$t" || { echo "missing $t" >&2; exit 1; }; done
# model files used only by correspondence runs
timeout 1200 make -j16 --no-print-directory -k Model/Dev.vo Model/Tree.vo 2>&1 | grep -v '^COQDEP\|^COQC' || true
cd ..
# no escape hatches in what the registered checks depend on
python3 tools/lint_coq.py coq/Base coq/Gen coq/Model coq/Proofs coq/Props
echo setup ok
