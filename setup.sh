#!/bin/sh
# Build the whole Coq development from files on disk (offline), after regenerating coq/Gen from /repo.
set -e
cd "$(dirname "$0")"
for w in kernels validators signatures; do
  out="coq/Gen/$(echo $w | sed 's/^./\U&/').v"
  if [ -f "translator/${w}_tx.py" ] || [ "$w" = kernels ]; then python3 translator/py2coq.py $w /repo "$out"; fi
done
/venv/bin/python - <<'PY'
import sys
sys.path.insert(0, 'harness')
import core
core.ensure_makefile()
PY
cd coq
timeout 3000 make -j16 --no-print-directory 2>&1 | grep -v '^COQDEP\|^COQC' || true
test -f Props/C15.vo
# no escape hatches anywhere in the development
if grep -rnE '\b(Admitted|admit|Axiom|Parameter|Conjecture|Abort All)\b|Unset Guard|bypass_check|Admit Obligations|-type-in-type' --include='*.v' Base Gen Model Proofs Props; then
  echo "forbidden construct in the Coq development" >&2; exit 1
fi
echo setup ok
