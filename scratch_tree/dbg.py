import sys, random
sys.path.insert(0, '/verif/harness')
import warnings; warnings.simplefilter('ignore')
import core
from core import fl, fr
import numpy as np
import treegen as tg, leafgen as lg
rng = random.Random(5)
bad = {}
for cls in tg.TREE_LEAF_CLASSES:
  for t in range(60):
    L = lg.gen_leaf(rng, cls=cls); 
    try:
      d = lg.build(L)
    except Exception as e:
      bad.setdefault((cls, 'build', str(e)[:60]), 0); bad[(cls, 'build', str(e)[:60])] += 1; continue
    s = np.array(fl(lg.gen_flow(rng, L))); p = np.array(fl(lg.gen_price(rng, L['n'])[0]))
    s2, p2 = s.reshape(1, -1), p.reshape(1, -1)
    for name, f in [('cost', lambda a, b: d.cost(a, b)), ('deriv', lambda a, b: d.deriv(a, b)), ('hess', lambda a, b: d.hess(a, b))]:
      try:
        a = np.array(f(s, p), dtype=float); b = np.array(f(s2, p2), dtype=float)
        if name == 'cost' and (a.shape != () or b.shape != ()):
          k = (cls, name, 'shape %s vs %s' % (a.shape, b.shape)); bad[k] = bad.get(k, 0) + 1
        elif a.size != b.size or not np.allclose(a.reshape(-1), b.reshape(-1), rtol=1e-9, atol=1e-9):
          k = (cls, name, 'value/shape differs %s %s' % (a.shape, b.shape)); bad[k] = bad.get(k, 0) + 1
      except Exception as e:
        k = (cls, name, type(e).__name__ + str(e)[:80]); bad[k] = bad.get(k, 0) + 1
    for ci, c in enumerate(d.constraints):
      try:
        a = np.array(c['fun'](s), dtype=float).reshape(-1); b = np.array(c['fun'](s2), dtype=float).reshape(-1)
        if a.size != 1 or b.size != 1 or abs(a[0]-b[0]) > 1e-9:
          k = (cls, 'con', 'differs %s %s' % (a.shape, b.shape)); bad[k] = bad.get(k, 0) + 1
        if 'jac' in c:
          a = np.array(c['jac'](s), dtype=float).reshape(-1); b = np.array(c['jac'](s2), dtype=float).reshape(-1)
          if a.size != b.size or not np.allclose(a, b):
            k = (cls, 'jac', 'differs %s %s' % (a.shape, b.shape)); bad[k] = bad.get(k, 0) + 1
      except Exception as e:
        k = (cls, 'con', type(e).__name__ + str(e)[:80]); bad[k] = bad.get(k, 0) + 1
for k, v in sorted(bad.items()):
  print(v, k)
