import sys, random
sys.path.insert(0, '/verif/harness')
import warnings; warnings.simplefilter('ignore')
import core
import numpy as np
import treegen as tg, leafgen as lg
rng = random.Random(5)
seen=set()
for t in range(3000):
    used=set()
    T = tg.gen_adaptor(rng, 3, used)
    try:
      tg.build_tree(T)
    except Exception as e:
      L=T['leaf']; d=lg.build(L)
      k=(L['cls'], str(e)[:30])
      if k in seen: continue
      seen.add(k)
      print(L['cls'], L['bounds'], d.lbounds, d.hbounds, str(e)[:80])
