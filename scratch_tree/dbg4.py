import sys, random, subprocess
sys.path.insert(0, '/verif/harness')
import warnings; warnings.simplefilter('ignore')
import core
from core import cq, fl, fr
import numpy as np
import treegen as tg, leafgen as lg
from fractions import Fraction as F
T = {"kind": "subbal", "id": "s27", "kids": [{"kind": "leaf", "id": "d30", "leaf": {"cls": "Device", "n": 3, "id": "d30", "bounds": [(F(0), F(0)), (F(1), F(1)), (F(1,2), F(1,2))], "cbounds": None, "cb_kind": "none"}}], "sbounds": [(F(0), F(0)), (F(1), F(1)), (F(1,2), F(1,2))], "sb_kind": "eq", "labels": ["h", "d30", "zz"], "eq": False, "remaining": True, "sign": F(2)}
S = [[F(0), F(1), F(1,2)]]
d = tg.build_tree(T)
x = np.array(fl(S)).reshape(-1)
print([(c['type'], float(np.array(c['fun'](x)).reshape(-1)[0])) for c in d.constraints])
print(d.labelled_sets, d.unlabelled_set)
open('/verif/coq/scratch/tdbg.v','w').write('''From Coq Require Import ZArith QArith List Bool String.
From DK Require Import Num NumQ Vec.
From DK.Model Require Import Leaf Fn Dev Tree.
Import ListNotations.
Definition d : dev Q := %s.
Eval vm_compute in (map (fun c => (c_eq c, c_fun c %s)) (tree_cons d)).
Eval vm_compute in (tree_labels d).
''' % (cq(tg.coq_tree(T)), cq(S[0])))
print(subprocess.run('cd /verif/coq && coqc -Q . DK -w none scratch/tdbg.v', shell=True, capture_output=True, text=True).stdout)
