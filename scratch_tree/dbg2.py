import sys, random
sys.path.insert(0, '/verif/harness')
import warnings; warnings.simplefilter('ignore')
import core
from core import fl, fr
import numpy as np
import treegen as tg, leafgen as lg
rng = random.Random(5)
for t in range(300):
    L = lg.gen_leaf(rng, cls='ADevice'); d = lg.build(L)
    s = np.array(fl(lg.gen_flow(rng, L))); p = np.array(fl(lg.gen_price(rng, L['n'])[0]))
    try:
      a = np.array(d.cost(s, p))
      if a.shape != (): print('cost shape', a.shape, L['f'])
      d.deriv(s, p)
    except Exception as e:
      print(type(e).__name__, str(e)[:50], L['f'])
