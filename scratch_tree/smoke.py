import sys, random, os
sys.path.insert(0, '/verif/harness')
import warnings; warnings.simplefilter('ignore')
import core
from core import cq, fr, fl, Raw
import numpy as np
np.seterr(all='ignore')
import treegen as tg
from fractions import Fraction as F

PRE = '''From Coq Require Import ZArith QArith List Bool String.
From DK Require Import Num NumQ Vec.
From DK.Model Require Import Leaf Fn Dev Tree.
Import ListNotations.
Local Open Scope Q_scope.
Definition optj (c : con Q) (x : list Q) : list Q := match c_jac c with Some j => j x | None => [] end.
Definition chkn (k : nat) (c : dev Q * list (list Q) * price Q * (Q * list (list Q) * list (Q*Q)) * (list bool * list Q * list (list Q)) * list string * list (list Q) * list (list Q)) : bool :=
  let '(d, S0, p, (ic, idv, ib), (ieq, icv, icj), ilab, iproj, ihess) := c in
  let P := tree_prices d p in
  match k with 0%nat => Qclose Qtol (tree_cost d S0 P) ic | 1%nat => Qclose_mat Qtol (tree_deriv d S0 P) idv
  | 2%nat => Qclose_list Qtol (map fst (tree_bounds d)) (map fst ib) && Qclose_list Qtol (map snd (tree_bounds d)) (map snd ib)
  | 3%nat => (let cs := tree_cons d in let x := List.concat S0 in
      (Nat.eqb (List.length cs) (List.length ieq)) && forallb (fun '(a,b) => Bool.eqb a b) (combine (map (@c_eq Q) cs) ieq)
      && Qclose_list Qtol (map (fun c => c_fun c x) cs) icv)
  | 4%nat => let cs := tree_cons d in let x := List.concat S0 in Qclose_mat Qtol (map (fun c => optj c x) cs) icj
  | 5%nat => (if list_eq_dec string_dec (tree_labels d) ilab then true else false)
  | 6%nat => Qclose_mat Qtol (tree_project d S0) iproj
  | _ => Qclose_mat Qtol (tree_hess d S0) ihess end.
'''
TYPE = 'dev Q * list (list Q) * price Q * (Q * list (list Q) * list (Q*Q)) * (list bool * list Q * list (list Q)) * list string * list (list Q) * list (list Q)'

rng = random.Random(int(sys.argv[1]) if len(sys.argv) > 1 else 1)
lits = []; cases = []
N = int(sys.argv[2]) if len(sys.argv) > 2 else 60
errs = 0
for i in range(N):
  T = tg.gen_tree(rng, rng.randint(0, 3), classes=[c for c in tg.TREE_LEAF_CLASSES if c not in ('SDevice','TDevice')] if len(sys.argv) > 3 else tg.TREE_LEAF_CLASSES)
  S = tg.gen_matrix(rng, T)
  p = tg.gen_tree_price(rng, T)
  assert tg.tree_from_json(tg.tree_to_json(T)) == T, 'json roundtrip'
  try:
    d = tg.build_tree(T)
    s = np.array(fl(S)); pp = tg.py_price(p)
    flat = s.reshape(-1) if i % 2 else s
    cost = fr(d.cost(flat, pp)); deriv = fr(np.array(d.deriv(flat, pp)).reshape(tg.rows(T), tg.length(T)))
    b = fr(np.array(d.bounds, dtype=float))
    cons = d.constraints
    x = s.reshape(-1)
    ieq = [c['type'] == 'eq' for c in cons]
    icv = [fr(float(np.array(c['fun'](x)).reshape(-1)[0])) for c in cons]
    icj = [fr(np.array(c['jac'](x), dtype=float).reshape(-1)) if 'jac' in c else [] for c in cons]
    labs = [k for k, v in d.leaf_devices()]
    assert labs == [q for q, _ in tg.leaf_list(T)], (labs, tg.leaf_list(T))
    proj = fr(np.array(d.project(flat)).reshape(tg.rows(T), tg.length(T)))
    hs = 'SDevice' in str(tg.tree_to_json(T)) or 'TDevice' in str(tg.tree_to_json(T))
    hess = fr(np.array(d.hess(flat, 0), dtype=float)) if not hs else None
  except Exception as e:
    import traceback; traceback.print_exc()
    print('IMPL ERROR', i, tg.kinds(T), type(e).__name__, e); errs += 1
    continue
  if hess is None:
    hess_l = Raw('(tree_hess (%s) %s)' % (cq(tg.coq_tree(T)), cq(S)))
  else:
    hess_l = hess
  lits.append(cq((tg.coq_tree(T), S, tg.coq_price(p), (cost, deriv, [tuple(r) for r in b]), (ieq, icv, icj), labs, proj, hess_l)))
  cases.append((T, S, p))
print('built', len(lits), 'errors', errs)
allidx = set()
for kk, nm in enumerate(['cost','deriv','bounds','cons','jac','labels','project','hess']):
  idx, err = core.coq_failing('TREESMOKE', PRE, TYPE, 'chkn %d' % kk, lits, shard=20)
  print(nm, 'failing', idx, err); allidx |= set(idx)
idx = sorted(allidx)
import json
for k in idx[:3]:
  T, S, p = cases[k]
  print(json.dumps(tg.tree_to_json(T))[:1500]); print(S, p)
